/-
  Property C19 — theorems about QEModel.C19 (stub; to be filled in).
-/
import QEModel.C19
namespace QE.C19

end QE.C19
