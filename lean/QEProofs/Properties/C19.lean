/-
  Property C19 — closed-form statistics agree with their definitions: theorems about QEModel.C19.

  Clause of properties.jsonl                      theorem(s) (all quantified over every input / size / order)
  ------------------------------------------------------------------------------------------------------------
  gini = mean abs. difference / (2 mean)          giniNum_eq_abs, gini_eq_mad
  gini invariant to permutation / rescaling       gini_perm, gini_scale (c > 0)
  gini = 1 − 2·area under lorenz_curve            gini_eq_lorenz_area (lorenzArea_eq), gini_range
  lorenz non-decreasing, convex, ends at (1,1)    lorenz_monotone, lorenz_convex, lorenz_endpoints, lorenz_increment,
                                                  lorenz_below_diagonal
  ECDF(x) = fraction of observations ≤ x          ecdf_def, ecdf_range, ecdf_mono, ecdf_top, ecdf_bottom
  BetaBinomial pdf sums to one                    bb_pdf_sums_to_one, bb_pdf_nonneg
  BetaBinomial mean / variance / skewness         bb_mean_eq_first_moment, bb_var_eq_central_moment,
                                                  bb_third_central_moment + bb_skew_sq (square root not modelled)
  ARMA: ψ_0 = 1 and the ARMA recursion            psi_zero, psi_recursion, psi_recursion_trunc, psi_recursion_ar_part,
                                                  psi_arma11 (closed form ψ_j = φ^{j−1}(φ+θ))
  impulse_response = ψ (all p, q; F6 repaired)    arma_impulse; the defect itself: tfImpulse_delay,
                                                  arma_impulse_unpadded_iff / _shift / _delayed / _of_le
  simulation = ψ * (σ ε)                          arma_simulation
  ARMA object histories (any re-parameterisation) arma_history, arma_history_independent, arma_history_sigma_spec,
                                                  armaUpd_query, armaUpd_setParams
  spectral density = σ²|θ(e^{-iw})/φ(e^{-iw})|²    spectral_density_formula, spectral_density_arma11
  hamilton_filter: cycle + trend = data, OLS      hamiltonP_decomposition, hamiltonP_nan_prefix, hamiltonP_length,
                                                  hamilton_lag_matrix, hamilton_target, hamilton_ols_orthogonal,
                                                  hamilton_cycle_orthogonal (normal equations are a hypothesis)
  … h-step difference when p is omitted           hamiltonNoP_spec
  periodogram at the Fourier frequencies in [0,π] periodogram_index, periodogram_count (the FFT is not modelled)
  smooth (observe_at)                             smooth_error_iff, smooth_length, smooth_pointwise, reflectPad_spec,
                                                  smooth_weights_sum_one, flatWin_sum,
                                                  bartlett_getD, bartlett_symm
  shorrocks_index / rank_size (observe_at)        shorrocks_spec, shorrocks_identity, rankSize_spec
  Added in the last round: gini_le_max, gini_max_attained, gini_eq_max_iff, gini_eq_zero_iff, gini_translate,
    gini_translate_le, lorenz_income_range, ecdf_sub, ecdf_const_between, ecdf_jump, psi_power_series, psi_unique,
    arma_impulse_iff_power_series, psi_ma, simulation_of_impulse, spectral_density_even, spectral_density_nonneg,
    spectral_density_pos, shorrocks_range, rankSize_top.
  Final round (model growth): hamiltonGuard_none, hamiltonGuard_some, hamilton_regress_shape, hamilton_zero_rows,
    periodogramWindowed_spec, periodogram_windowed_count.
  Not proved (numerical tests in harness/c19.py): autocovariance by inverse FFT, |FFT|²/n, freqz, dimpulse/dlsim
  numerics, sqrt in std/skew, the cosine windows.
-/
import QEModel.C19
import QEProofs.Lemmas.C19Arma
import QEProofs.Lemmas.C19Ineq
import QEProofs.Lemmas.C19BB
import QEProofs.Lemmas.C19Area
import QEProofs.Lemmas.C19Ham
set_option linter.unusedSectionVars false
namespace QE.C19

/-! ## ARMA: impulse response = the ARMA recursion -/

section arma
variable {K : Type} [Field K]

theorem psi_length (φ θ : List K) (N : Nat) : (psi φ θ N).length = N := length_unfoldHist _ _

/-- `ψ_0 = 1` -/
theorem psi_zero (φ θ : List K) (N : Nat) (hN : 0 < N) : (psi φ θ N).getD 0 0 = 1 := by
  unfold psi
  rw [getD_unfoldHist _ _ _ _ hN]
  simp [psiStep]

/-- **ARMA recursion**: for `1 ≤ j < N`, `ψ_j = θ_j + Σ_{i=1..j} φ_i ψ_{j−i}` (0-based lists: `θ_j = θ[j−1]`,
    `φ_{i+1} = φ[i]`; coefficients beyond the orders are the zeros of the polynomials). -/
theorem psi_recursion (φ θ : List K) (N j : Nat) (hj : 0 < j) (hjN : j < N) :
    (psi φ θ N).getD j 0
      = θ.getD (j - 1) 0 + ((List.range j).map fun i => φ.getD i 0 * (psi φ θ N).getD (j - 1 - i) 0).sum := by
  unfold psi
  rw [getD_unfoldHist _ _ _ _ hjN]
  show psiStep φ θ _ j = _
  unfold psiStep
  rw [if_neg (by omega)]
  congr 2
  apply List.map_congr_left
  intro i hi
  have hi' : i < j := List.mem_range.mp hi
  rw [getD_unfoldHist_of_lt _ N j (j - 1 - i) 0 (by omega) (by omega)]

/-- the recursion beyond the MA order: `ψ_j = Σ φ_i ψ_{j−i}` for `j > q` -/
theorem psi_recursion_ar_part (φ θ : List K) (N j : Nat) (hq : θ.length < j) (hjN : j < N) :
    (psi φ θ N).getD j 0
      = ((List.range j).map fun i => φ.getD i 0 * (psi φ θ N).getD (j - 1 - i) 0).sum := by
  rw [psi_recursion φ θ N j (by omega) hjN, List.getD_eq_default _ _ (by omega), zero_add]

/-- **impulse_response (repaired padding).** For *all* orders `p, q` (no `p ≤ q` hypothesis) the impulse response
    of the transfer function handed to `dimpulse` — `(ma_poly ++ 0…, ar_poly)` read in descending powers of `z` —
    is the sequence `ψ` of the ARMA recursion. -/
theorem arma_impulse (φ θ : List K) (N : Nat) : impulseResponse φ θ N = some (psi φ θ N) := by
  unfold impulseResponse tfImpulse
  have hlen := impulsePolys_len φ θ
  simp only [hlen, lt_irrefl, if_false, Nat.sub_self, List.replicate_zero, List.nil_append, Option.map_some]
  unfold serDiv psi
  congr 1
  rw [← take_unfoldHist (psiStep φ θ) (max N 2) N (le_max_left _ _)]
  congr 1
  apply unfoldHist_congr
  intro hs k
  apply divStep_eq_psiStep
  · exact impulsePolys_ma_getD φ θ
  · intro i
    exact armaPolys_ar_getD φ θ i

theorem armaPolys_ar_length (φ θ : List K) :
    (armaPolys φ θ).2.length = max (φ.length + 1) (θ.length + 1) := by
  unfold armaPolys
  simp only
  split
  · rename_i h
    simp only [List.length_append, List.length_replicate, List.length_cons, List.length_map] at h ⊢
    omega
  · rename_i h
    simp only [List.length_cons, List.length_map] at h ⊢
    omega

/-- Without the padding of `ma_poly` (the code before the repair of F6) the two readings agree when `p ≤ q` … -/
theorem arma_impulse_unpadded_of_le (φ θ : List K) (N : Nat) (h : φ.length ≤ θ.length) :
    impulseResponseUnpadded φ θ N = some (psi φ θ N) := by
  unfold impulseResponseUnpadded tfImpulse
  have hlen : (armaPolys φ θ).2.length = (armaPolys φ θ).1.length := by
    rw [armaPolys_ar_length, armaPolys_ma]; simp only [List.length_cons]; omega
  simp only [hlen, lt_irrefl, if_false, Nat.sub_self, List.replicate_zero, List.nil_append]
  unfold serDiv psi
  congr 1
  apply unfoldHist_congr
  intro hs k
  apply divStep_eq_psiStep
  · intro i; rw [armaPolys_ma]
  · exact armaPolys_ar_getD φ θ

/-- … and for `p > q` the unpadded system is a *delayed* response: its first coefficient is `0`, not `ψ_0 = 1`.
    This is defect F6 (`φ=(.5,−.2,.1), θ=(.4)` gave `[0,0,1,0.9,…]`); `arma_impulse` shows the repaired padding
    removes the hypothesis. -/
theorem arma_impulse_unpadded_delayed (φ θ : List K) (N : Nat) (h : θ.length < φ.length) (hN : 0 < N) :
    ∃ l, impulseResponseUnpadded φ θ N = some l ∧ l.getD 0 0 = 0 ∧ some l ≠ some (psi φ θ N) := by
  unfold impulseResponseUnpadded tfImpulse
  have hlen : (armaPolys φ θ).2.length = φ.length + 1 := by
    rw [armaPolys_ar_length]; omega
  have hma : (armaPolys φ θ).1.length = θ.length + 1 := by rw [armaPolys_ma]; rfl
  rw [if_neg (by rw [hlen, hma]; omega)]
  refine ⟨_, rfl, ?_, ?_⟩
  · unfold serDiv
    rw [getD_unfoldHist _ _ _ _ hN]
    unfold divStep
    have hd : (armaPolys φ θ).2.length - (armaPolys φ θ).1.length = (φ.length - θ.length - 1) + 1 := by
      rw [hlen, hma]; omega
    rw [hd, List.replicate_succ]
    simp
  · intro hEq
    have h1 := congrArg (fun o : Option (List K) => (o.getD []).getD 0 0) hEq
    simp only [Option.getD_some] at h1
    rw [psi_zero φ θ N hN] at h1
    have h0 : (serDiv (List.replicate ((armaPolys φ θ).2.length - (armaPolys φ θ).1.length) 0 ++ (armaPolys φ θ).1)
        (armaPolys φ θ).2 N).getD 0 0 = 0 := by
      unfold serDiv
      rw [getD_unfoldHist _ _ _ _ hN]
      unfold divStep
      have hd : (armaPolys φ θ).2.length - (armaPolys φ θ).1.length = (φ.length - θ.length - 1) + 1 := by
        rw [hlen, hma]; omega
      rw [hd, List.replicate_succ]
      simp
    rw [h0] at h1
    exact zero_ne_one h1

/-- the recursion with the sum cut at the AR order: `ψ_j = θ_j + Σ_{i=1..min(j,p)} φ_i ψ_{j−i}`, every read of
    `φ` inside the list -/
theorem psi_recursion_trunc (φ θ : List K) (N j : Nat) (hj : 0 < j) (hjN : j < N) :
    (psi φ θ N).getD j 0
      = θ.getD (j - 1) 0
        + ((List.range (min j φ.length)).map fun i => φ.getD i 0 * (psi φ θ N).getD (j - 1 - i) 0).sum := by
  rw [psi_recursion φ θ N j hj hjN, list_sum_range_map, list_sum_range_map]
  congr 1
  symm
  apply Finset.sum_subset (Finset.range_subset_range.mpr (min_le_left _ _))
  intro i hi hni
  have hi' : i < j := Finset.mem_range.mp hi
  have hp : φ.length ≤ i := by
    by_contra hc
    exact hni (Finset.mem_range.mpr (lt_min hi' (by omega)))
  rw [List.getD_eq_default _ _ hp, zero_mul]

/-- **ψ is the power series θ(z)/φ(z)**, every length: with `φ(z) = 1 − φ₁z − … − φ_p z^p` and
    `θ(z) = 1 + θ₁z + … + θ_q z^q`, the Cauchy product `φ(z)·ψ(z)` has the coefficients of `θ(z)` below `N`:
    `Σ_{i=0..j} φ̃_i ψ_{j−i} = θ̃_j` for every `j < N` (`φ̃ = (1, −φ)`, `θ̃ = (1, θ)`; coefficients beyond the
    orders are those of the polynomials, i.e. zero) -/
theorem psi_power_series (φ θ : List K) (N j : Nat) (hj : j < N) :
    ∑ i ∈ Finset.range (j + 1), (1 :: φ.map fun x => -x).getD i 0 * (psi φ θ N).getD (j - i) 0
      = (1 :: θ).getD j 0 := by
  rw [psi_eq_serDiv]
  exact serDiv_spec _ _ N j hj (by simp)

/-- … and `ψ` is the **unique** such sequence: any `h` of length `N` with `φ(z)·h(z) ≡ θ(z)` below `N` is `ψ`.
    Together with `arma_impulse` this characterises `impulse_response(N)` completely, for every `N, p, q`. -/
theorem psi_unique (φ θ h : List K) (N : Nat) (hlen : h.length = N)
    (hspec : ∀ j, j < N → ∑ i ∈ Finset.range (j + 1), (1 :: φ.map fun x => -x).getD i 0 * h.getD (j - i) 0
      = (1 :: θ).getD j 0) :
    h = psi φ θ N := by
  rw [psi_eq_serDiv]
  exact serDiv_unique _ _ h N hlen (by simp) hspec

/-- the same for what the code returns: `impulse_response(N) = l` **iff** `l` has length `N` and
    `φ(z)·l(z) ≡ θ(z)` below `N` -/
theorem arma_impulse_iff_power_series (φ θ l : List K) (N : Nat) :
    impulseResponse φ θ N = some l ↔
      (l.length = N ∧ ∀ j, j < N →
        ∑ i ∈ Finset.range (j + 1), (1 :: φ.map fun x => -x).getD i 0 * l.getD (j - i) 0 = (1 :: θ).getD j 0) := by
  rw [arma_impulse]
  constructor
  · intro h
    have hl : l = psi φ θ N := (Option.some.inj h).symm
    subst hl
    exact ⟨psi_length φ θ N, fun j hj => psi_power_series φ θ N j hj⟩
  · rintro ⟨hlen, hspec⟩
    rw [psi_unique φ θ l N hlen hspec]

/-- non-vacuity: the F6 input; `φ(z)ψ(z)` at `z³`: `ψ₃ − φ₁ψ₂ − φ₂ψ₁ − φ₃ψ₀ = 0 = θ̃₃` -/
example : (psi [(1/2 : ℚ), -1/5, 1/10] [2/5] 5) = [1, 9/10, 1/4, 9/200, 1/16] ∧
    (9/200 : ℚ) - 1/2 * (1/4) - (-1/5) * (9/10) - 1/10 * 1 = 0 := by
  refine ⟨by decide +kernel, by norm_num⟩

/-- pure MA(q) (`φ = []`): the impulse response is `(1, θ₁, …, θ_q, 0, 0, …)` -/
theorem psi_ma (θ : List K) (N j : Nat) (hj : j < N) : (psi [] θ N).getD j 0 = (1 :: θ).getD j 0 := by
  have h := psi_power_series ([] : List K) θ N j hj
  rw [Finset.sum_range_succ'] at h
  simp only [List.map_nil, List.getD_cons_zero, List.getD_cons_succ, List.getD_nil, zero_mul, Finset.sum_const_zero,
    zero_add, one_mul, Nat.sub_zero] at h
  exact h

example : psi ([] : List ℚ) [1/4, 1/2] 5 = [1, 1/4, 1/2, 0, 0] := by decide +kernel

/-- textbook closed form, ARMA(1,1): `ψ_0 = 1`, `ψ_j = φ^{j−1}(φ + θ)` for `j ≥ 1` (with `θ = 0`: AR(1), `ψ_j = φ^j`) -/
theorem psi_arma11 (φ θ : K) (N j : Nat) (hj : 0 < j) (hjN : j < N) :
    (psi [φ] [θ] N).getD j 0 = φ ^ (j - 1) * (φ + θ) := by
  induction j with
  | zero => omega
  | succ j ih =>
    rw [psi_recursion_trunc [φ] [θ] N (j + 1) (by omega) hjN]
    have hmin : min (j + 1) [φ].length = 1 := by simp
    rw [hmin]
    simp only [List.range_one, List.map_cons, List.map_nil, List.sum_cons, List.sum_nil, List.getD_cons_zero,
      Nat.add_sub_cancel, Nat.sub_zero, add_zero]
    by_cases hj0 : j = 0
    · subst hj0
      rw [psi_zero [φ] [θ] N (by omega)]
      simp; ring
    · rw [ih (by omega) (by omega), List.getD_eq_default _ _ (by simp; omega)]
      have : j - 1 + 1 = j := by omega
      rw [zero_add, ← mul_assoc, ← pow_succ', this]

example : psi [(1/2 : ℚ)] [1/4] 4 = [1, 3/4, 3/8, 3/16] := by decide +kernel

/-- the design's `arma_impulse_iff`: with the *old* padding rule the transfer-function reading equals `ψ`
    **iff** `p ≤ q` -/
theorem arma_impulse_unpadded_iff (φ θ : List K) (N : Nat) (hN : 0 < N) :
    impulseResponseUnpadded φ θ N = some (psi φ θ N) ↔ φ.length ≤ θ.length := by
  constructor
  · intro h
    by_contra hc
    obtain ⟨l, hl, _, hne⟩ := arma_impulse_unpadded_delayed φ θ N (by omega) hN
    rw [hl] at h
    exact hne h
  · exact arma_impulse_unpadded_of_le φ θ N

/-- the general fact behind F6 — **what SciPy does with a numerator shorter than the denominator**: it is the
    series `num/den` delayed by the length difference. -/
theorem tfImpulse_delay (num den : List K) (N : Nat) (h : num.length ≤ den.length) :
    tfImpulse num den (den.length - num.length + N)
      = some (List.replicate (den.length - num.length) 0 ++ serDiv num den N) := by
  unfold tfImpulse
  rw [if_neg (by omega), serDiv_delay]

/-- **F6 in full**: for `p > q` the unpadded system returns `ψ` shifted by exactly `p − q` periods
    (`φ=(.5,−.2,.1), θ=(.4)` ⇒ `[0,0,1,0.9,…]`). -/
theorem arma_impulse_unpadded_shift (φ θ : List K) (N : Nat) (h : θ.length < φ.length) :
    impulseResponseUnpadded φ θ (φ.length - θ.length + N)
      = some (List.replicate (φ.length - θ.length) 0 ++ psi φ θ N) := by
  unfold impulseResponseUnpadded
  have hlen : (armaPolys φ θ).2.length = φ.length + 1 := by
    rw [armaPolys_ar_length]; omega
  have hma : (armaPolys φ θ).1.length = θ.length + 1 := by rw [armaPolys_ma]; rfl
  have hd : (armaPolys φ θ).2.length - (armaPolys φ θ).1.length = φ.length - θ.length := by
    rw [hlen, hma]; omega
  have := tfImpulse_delay (armaPolys φ θ).1 (armaPolys φ θ).2 N (by rw [hlen, hma]; omega)
  rw [hd] at this
  rw [this]
  congr 2
  unfold serDiv psi
  apply unfoldHist_congr
  intro hs k
  apply divStep_eq_psiStep
  · intro i; rw [armaPolys_ma]
  · exact armaPolys_ar_getD φ θ

example : impulseResponseUnpadded [(1/2 : ℚ), -1/5, 1/10] [2/5] 5 = some [0, 0, 1, 9/10, 1/4] := by
  decide +kernel

example : impulseResponse [(1/2 : ℚ), -1/5, 1/10] [2/5] 4 = some [1, 9/10, 1/4, 9/200] := by
  decide +kernel

/-- **simulation**: with the shocks given, the simulated path is the convolution of `ψ` with `σ·ε`
    (`x_t = Σ_{j≤t} ψ_j σ ε_{t−j}`), for all orders -/
theorem arma_simulation (φ θ : List K) (σ : K) (eps : List K) :
    simulate φ θ σ eps = some ((List.range eps.length).map fun t =>
      ((List.range (t + 1)).map fun j => (psi φ θ eps.length).getD j 0 * (σ * eps.getD (t - j) 0)).sum) := by
  unfold simulate
  rw [arma_impulse]
  rfl

/-- **the impulse response is the response to an impulse**: feeding the unit impulse `ε = (1, 0, …, 0)` with
    `σ = 1` through `simulation` (the `dlsim` path) returns exactly what `impulse_response` (the `dimpulse` path)
    returns, `ψ_0 … ψ_m`, for every length and all orders -/
theorem simulation_of_impulse (φ θ : List K) (m : ℕ) :
    simulate φ θ 1 (1 :: List.replicate m 0) = some (psi φ θ (m + 1)) ∧
    simulate φ θ 1 (1 :: List.replicate m 0) = impulseResponse φ θ (m + 1) := by
  have hlen : (1 :: List.replicate m (0 : K)).length = m + 1 := by simp
  have h1 : simulate φ θ 1 (1 :: List.replicate m 0) = some (psi φ θ (m + 1)) := by
    rw [arma_simulation, hlen]
    congr 1
    apply List.ext_getElem
    · simp [psi_length]
    · intro t ht1 ht2
      have ht : t < m + 1 := by simpa using ht1
      rw [List.getElem_map, List.getElem_range, list_sum_range_map, ← List.getD_eq_getElem _ 0 ht2]
      rw [Finset.sum_eq_single t]
      · simp
      · intro j hj hne
        have hj' : j < t + 1 := Finset.mem_range.mp hj
        have hpos : t - j = (t - j - 1) + 1 := by omega
        rw [hpos, List.getD_cons_succ]
        have : (List.replicate m (0 : K)).getD (t - j - 1) 0 = 0 := by
          by_cases hlt : t - j - 1 < m
          · rw [List.getD_eq_getElem _ _ (by simp; exact hlt)]; simp
          · rw [List.getD_eq_default _ _ (by simp; omega)]
        rw [this]; ring
      · intro hnot
        exact absurd (Finset.mem_range.mpr (Nat.lt_succ_self t)) hnot
  exact ⟨h1, by rw [h1, arma_impulse]⟩

example : simulate [(1/2 : ℚ)] [1/4] 1 [1, 0, 0, 0] = some [1, 3/4, 3/8, 3/16] := by decide +kernel

/-- **spectral density**: `σ² |θ(e^{-iw})|² / |φ(e^{-iw})|²` with `θ(z) = 1 + θ₁z + …`, `φ(z) = 1 − φ₁z − …`
    (the zero padding of `ar_poly` plays no role), `e^{-iw} = (c, −s)`. -/
theorem spectral_density_formula (φ θ : List K) (σ c s : K) :
    specDens φ θ σ c s
      = σ * σ * normSq (polyEvalC (1 :: θ) (c, -s)) / normSq (polyEvalC (1 :: φ.map fun x => -x) (c, -s)) := by
  unfold specDens
  simp only [armaPolys_ar_eval, armaPolys_ma]

/-- **the spectral density is even**: `f(−w) = f(w)` (`e^{-i(−w)} = (c, s)` is the conjugate point; real coefficients) -/
theorem spectral_density_even (φ θ : List K) (σ c s : K) :
    specDens φ θ σ c (-s) = specDens φ θ σ c s := by
  unfold specDens
  simp only [neg_neg]
  rw [← normSq_polyEvalC_conj (armaPolys φ θ).1 c s, ← normSq_polyEvalC_conj (armaPolys φ θ).2 c s]

example : specDens [(1/2 : ℚ)] [1/4, 1/2, 1] 1 (3/5) (-4/5) = 2141 / 1300 := by decide +kernel

/-- the textbook ARMA(1,1) case: `f(w) = σ² (1 + 2θ cos w + θ²) / (1 − 2φ cos w + φ²)` on the unit circle -/
theorem spectral_density_arma11 (φ θ σ c s : K) (hcs : c * c + s * s = 1) :
    specDens [φ] [θ] σ c s = σ * σ * (1 + (1 + 1) * θ * c + θ * θ) / (1 - (1 + 1) * φ * c + φ * φ) := by
  rw [spectral_density_formula]
  have h1 : normSq (polyEvalC [1, θ] (c, -s)) = 1 + (1 + 1) * θ * c + θ * θ := by
    simp only [polyEvalC, List.foldr, cadd, cmul, normSq]
    linear_combination (θ * θ) * hcs
  have h2 : normSq (polyEvalC (1 :: [φ].map fun x => -x) (c, -s)) = 1 - (1 + 1) * φ * c + φ * φ := by
    simp only [List.map, polyEvalC, List.foldr, cadd, cmul, normSq]
    linear_combination (φ * φ) * hcs
  rw [h1, h2]

example : specDens [(1/2 : ℚ)] [1/4, 1/2, 1] 1 (3/5) (4/5) = 2141 / 1300 := by decide +kernel

end arma

/-! ## Gini coefficient, Lorenz curve, ECDF -/

section ineq
variable {K : Type} [Field K] [LinearOrder K] [IsStrictOrderedRing K]

/-- the model's `abs` is the absolute value, so `giniNum y = Σ_i Σ_j |y_i − y_j|` -/
theorem giniNum_eq_abs (y : List K) :
    giniNum y = (y.map fun a => (y.map fun b => |a - b|).sum).sum := by
  unfold giniNum giniRowSum
  simp only [absv_eq_abs]

/-- **definition**: `gini = (mean absolute difference) / (2 · mean)` with
    `MAD = Σ_{i,j}|y_i − y_j| / n²`, `mean = Σ y / n` (non-empty sample, non-zero total). -/
theorem gini_eq_mad (y : List K) (hn : y ≠ []) (hS : y.sum ≠ 0) :
    gini y = (giniNum y / ((y.length : K) * (y.length : K))) / ((1 + 1) * (y.sum / (y.length : K))) := by
  have hlen : (y.length : K) ≠ 0 := by
    have : y.length ≠ 0 := by simpa [List.length_eq_zero_iff] using hn
    exact_mod_cast this
  unfold gini giniDen
  field_simp

/-- **permutation invariance** -/
theorem gini_perm {y y' : List K} (h : y.Perm y') : gini y = gini y' := by
  unfold gini
  rw [giniNum_perm h, giniDen_perm h]

/-- **invariance under positive rescaling** -/
theorem gini_scale (c : K) (hc : 0 < c) (y : List K) : gini (y.map fun v => c * v) = gini y := by
  unfold gini
  rw [giniNum_scale c hc, giniDen_scale, mul_div_mul_left _ _ (ne_of_gt hc)]

/-- **adding a constant `c` to every observation** leaves the sum of absolute differences unchanged and moves the
    total from `Σy` to `Σy + n·c`: `gini(y + c)·(Σy + n c) = gini(y)·Σy` -/
theorem gini_translate (y : List K) (c : K) (hS : y.sum ≠ 0) (hS' : y.sum + (y.length : K) * c ≠ 0) (hn : y ≠ []) :
    gini (y.map fun v => v + c) * (y.sum + (y.length : K) * c) = gini y * y.sum := by
  have hlen : (y.length : K) ≠ 0 := by
    have : y.length ≠ 0 := by simpa [List.length_eq_zero_iff] using hn
    exact_mod_cast this
  have h2 : (1 + 1 : K) ≠ 0 := by
    have : (0 : K) < 1 + 1 := by positivity
    exact ne_of_gt this
  unfold gini giniDen
  rw [giniNum_translate, sum_map_add_const, List.length_map]
  field_simp

/-- … so a positive lump-sum transfer to everybody lowers inequality: for `c ≥ 0` and a positive total,
    `gini(y + c) ≤ gini(y)` -/
theorem gini_translate_le (y : List K) (c : K) (hc : 0 ≤ c) (hS : 0 < y.sum) :
    gini (y.map fun v => v + c) ≤ gini y := by
  have hn : y ≠ [] := by
    intro h; rw [h] at hS; simp at hS
  have hlen : (0 : K) < (y.length : K) := by
    have : 0 < y.length := List.length_pos_iff.mpr hn
    exact_mod_cast this
  have hS' : 0 < y.sum + (y.length : K) * c := by
    have : 0 ≤ (y.length : K) * c := mul_nonneg (le_of_lt hlen) hc
    linarith
  unfold gini giniDen
  rw [giniNum_translate, sum_map_add_const, List.length_map]
  apply div_le_div_of_nonneg_left (giniNum_nonneg y) (by positivity)
  have : 0 ≤ (1 + 1) * (y.length : K) * ((y.length : K) * c) := by positivity
  nlinarith

example : gini ([(1 : ℚ), 2, 3].map fun v => v + 2) = 1 / 9 ∧ gini [(1 : ℚ), 2, 3] = 2 / 9 ∧ (1/9 : ℚ) * (6 + 3 * 2) = 2/9 * 6 := by
  refine ⟨by decide +kernel, by decide +kernel, by norm_num⟩

example : gini [(1 : ℚ), 2, 3] = 2 / 9 := by decide +kernel
example : gini ([(1 : ℚ), 2, 3].map fun v => 7 / 2 * v) = 2 / 9 := by decide +kernel

/-- the Lorenz abscissae: `cum_people[i] = i/n`, in particular `0` at `0` and `1` at `n` -/
theorem lorenzPeople_getD (y : List K) (i : Nat) (hi : i ≤ y.length) :
    (lorenzPeople y).getD i 0 = (i : K) / (y.length : K) := by
  unfold lorenzPeople
  rw [List.getD_eq_getElem _ _ (by simp; omega)]
  simp only [List.getElem_map, List.getElem_range]
  split
  · rename_i h; subst h; simp
  · rfl

/-- `cum_income[i] = s_i / s_n` with `s_0 = 0`, `s_{i+1} = s_i + y_(i)` (`y_(i)` the sorted sample) -/
theorem lorenzIncome_getD (y : List K) (i : Nat) (hi : i ≤ y.length) :
    (lorenzIncome y).getD i 0 = (lorenzS y).getD i 0 / (lorenzS y).getD y.length 0 := by
  unfold lorenzIncome
  simp only
  rw [List.getD_eq_getElem _ _ (by simp; omega)]
  simp only [List.getElem_map, List.getElem_range]
  split
  · rename_i h; subst h; simp [lorenzS]
  · rfl

theorem lorenzS_total (y : List K) : (lorenzS y).getD y.length 0 = y.sum := by
  unfold lorenzS
  have h := cumsum_last (0 : K) (sortL y)
  rw [sortL_length, zero_add, (sortL_perm y).sum_eq] at h
  exact h

/-- **the curve ends at (1,1)** and starts at (0,0) -/
theorem lorenz_endpoints (y : List K) (hn : y ≠ []) (hS : y.sum ≠ 0) :
    (lorenzPeople y).getD 0 0 = 0 ∧ (lorenzIncome y).getD 0 0 = 0 ∧
    (lorenzPeople y).getD y.length 0 = 1 ∧ (lorenzIncome y).getD y.length 0 = 1 := by
  have hlen : (y.length : K) ≠ 0 := by
    have : y.length ≠ 0 := by simpa [List.length_eq_zero_iff] using hn
    exact_mod_cast this
  refine ⟨?_, ?_, ?_, ?_⟩
  · rw [lorenzPeople_getD y 0 (by omega)]; simp
  · rw [lorenzIncome_getD y 0 (by omega)]; simp [lorenzS]
  · rw [lorenzPeople_getD y _ (le_refl _), div_self hlen]
  · rw [lorenzIncome_getD y _ (le_refl _), lorenzS_total, div_self hS]

/-- **increments are the sorted shares**: `L_{i+1} − L_i = y_(i) / Σ y` -/
theorem lorenz_increment (y : List K) (i : Nat) (hi : i < y.length) :
    (lorenzIncome y).getD (i + 1) 0 - (lorenzIncome y).getD i 0 = (sortL y).getD i 0 / y.sum := by
  rw [lorenzIncome_getD y (i + 1) (by omega), lorenzIncome_getD y i (by omega), lorenzS_total]
  unfold lorenzS
  rw [cumsum_step 0 (sortL y) i (by rw [sortL_length]; exact hi)]
  ring

/-- **non-decreasing** for non-negative samples with positive total -/
theorem lorenz_monotone (y : List K) (hy : ∀ v ∈ y, 0 ≤ v) (hS : 0 < y.sum) (i : Nat) (hi : i < y.length) :
    (lorenzIncome y).getD i 0 ≤ (lorenzIncome y).getD (i + 1) 0 := by
  have h := lorenz_increment y i hi
  have hmem : (sortL y).getD i 0 ∈ y := by
    rw [List.getD_eq_getElem _ _ (by rw [sortL_length]; exact hi)]
    exact (sortL_perm y).subset (List.getElem_mem _)
  have : 0 ≤ (sortL y).getD i 0 / y.sum := div_nonneg (hy _ hmem) (le_of_lt hS)
  linarith

/-- **convex**: the increments are non-decreasing (positive total) -/
theorem lorenz_convex (y : List K) (hS : 0 < y.sum) (i : Nat) (hi : i + 1 < y.length) :
    (lorenzIncome y).getD (i + 1) 0 - (lorenzIncome y).getD i 0
      ≤ (lorenzIncome y).getD (i + 2) 0 - (lorenzIncome y).getD (i + 1) 0 := by
  rw [lorenz_increment y i (by omega), lorenz_increment y (i + 1) hi]
  apply div_le_div_of_nonneg_right _ (le_of_lt hS)
  exact sorted_getD_le (sortL_sorted y) i (i + 1) (by omega) (by rw [sortL_length]; exact hi)

/-- **the Lorenz curve lies on or below the diagonal**: `L_i ≤ i/n` (positive total; the `i` smallest
    observations have at most the average share) -/
theorem lorenz_below_diagonal (y : List K) (hS : 0 < y.sum) (i : ℕ) (hi : i ≤ y.length) :
    (lorenzIncome y).getD i 0 ≤ (lorenzPeople y).getD i 0 := by
  have hn : y ≠ [] := by
    intro h; rw [h] at hS; simp at hS
  have hlen : (0 : K) < (y.length : K) := by
    have : 0 < y.length := List.length_pos_iff.mpr hn
    exact_mod_cast this
  rw [lorenzIncome_getD y i hi, lorenzPeople_getD y i hi, lorenzS_total]
  unfold lorenzS
  rw [cumsum_getD_take 0 (sortL y) i (by rw [sortL_length]; exact hi), zero_add, div_le_div_iff₀ hS hlen]
  have h := sorted_prefix_mean (sortL y) (sortL_sorted y) i (by rw [sortL_length]; exact hi)
  rw [sortL_length, (sortL_perm y).sum_eq] at h
  linarith

/-- **range of the Lorenz ordinates**: for a non-negative sample with positive total, `0 ≤ L_i ≤ 1` -/
theorem lorenz_income_range (y : List K) (hy : ∀ v ∈ y, 0 ≤ v) (hS : 0 < y.sum) (i : ℕ) (hi : i ≤ y.length) :
    0 ≤ (lorenzIncome y).getD i 0 ∧ (lorenzIncome y).getD i 0 ≤ 1 := by
  have hn : y ≠ [] := by
    intro h; rw [h] at hS; simp at hS
  have hlen : (0 : K) < (y.length : K) := by
    have : 0 < y.length := List.length_pos_iff.mpr hn
    exact_mod_cast this
  constructor
  · rw [lorenzIncome_getD y i hi, lorenzS_total]
    apply div_nonneg _ (le_of_lt hS)
    have hz : ∀ v ∈ sortL y, 0 ≤ v := fun v hv => hy v ((sortL_perm y).subset hv)
    exact getD_nonneg_of_all _ (cumsumFrom_nonneg 0 (sortL y) (le_refl _) hz) i
  · refine le_trans (lorenz_below_diagonal y hS i hi) ?_
    rw [lorenzPeople_getD y i hi, div_le_one hlen]
    exact_mod_cast hi

/-- the model's trapezoid area is `Σ_{i<n}(s_i + s_{i+1}) / (2 n Σy)` with `s` the cumulative sums of the sorted
    sample -/
theorem lorenzArea_eq (y : List K) :
    lorenzArea y = trapSum 0 (sortL y) / ((1 + 1) * (y.length : K) * y.sum) := by
  unfold lorenzArea trapSum
  simp only
  rw [list_sum_range_map, sortL_length, Finset.sum_div]
  apply Finset.sum_congr rfl
  intro i hi
  have hi' : i < y.length := Finset.mem_range.mp hi
  rw [lorenzIncome_getD y i (by omega), lorenzIncome_getD y (i + 1) (by omega), lorenzS_total]
  unfold lorenzS
  by_cases hS : y.sum = 0
  · simp [hS]
  · by_cases hn : (y.length : K) = 0
    · simp [hn]
    · field_simp

/-- **Gini = 1 − 2·(area under the Lorenz curve)** (trapezoid area of the piecewise-linear curve through the
    points returned by `lorenz_curve`), every non-empty sample with non-zero total. -/
theorem gini_eq_lorenz_area (y : List K) (hn : y ≠ []) (hS : y.sum ≠ 0) :
    gini y = 1 - (1 + 1) * lorenzArea y := by
  have hlen : (y.length : K) ≠ 0 := by
    have : y.length ≠ 0 := by simpa [List.length_eq_zero_iff] using hn
    exact_mod_cast this
  rw [lorenzArea_eq, gini_perm (sortL_perm y).symm]
  have key := giniNum_trapSum (sortL y) (sortL_sorted y) 0
  rw [sortL_length, (sortL_perm y).sum_eq] at key
  unfold gini giniDen
  rw [sortL_length, (sortL_perm y).sum_eq]
  have h2 : (1 + 1 : K) ≠ 0 := by
    have : (0 : K) < 1 + 1 := by positivity
    exact ne_of_gt this
  have hG : giniNum (sortL y) = (1 + 1) * (y.length : K) * y.sum - (1 + 1) * trapSum 0 (sortL y) := by
    linear_combination key
  rw [hG]
  field_simp

/-- **range**: for a non-negative sample with positive total, `0 ≤ gini ≤ 1` -/
theorem gini_range (y : List K) (hy : ∀ v ∈ y, 0 ≤ v) (hS : 0 < y.sum) : 0 ≤ gini y ∧ gini y ≤ 1 := by
  have hn : y ≠ [] := by
    intro h; rw [h] at hS; simp at hS
  have hlen : (0 : K) < (y.length : K) := by
    have : 0 < y.length := List.length_pos_iff.mpr hn
    exact_mod_cast this
  have hden : 0 < (1 + 1) * (y.length : K) * y.sum := by positivity
  constructor
  · unfold gini giniDen
    exact div_nonneg (giniNum_nonneg y) (le_of_lt hden)
  · rw [gini_eq_lorenz_area y hn (ne_of_gt hS), lorenzArea_eq]
    have hz : ∀ v ∈ sortL y, 0 ≤ v := fun v hv => hy v ((sortL_perm y).subset hv)
    have : 0 ≤ trapSum 0 (sortL y) / ((1 + 1) * (y.length : K) * y.sum) :=
      div_nonneg (trapSum_nonneg 0 _ (le_refl _) hz) (le_of_lt hden)
    linarith

/-- **sharp upper bound**: for a non-negative sample of size `n` with positive total, `gini ≤ (n − 1)/n`
    (strengthens `gini_range`) -/
theorem gini_le_max (y : List K) (hy : ∀ v ∈ y, 0 ≤ v) (hS : 0 < y.sum) :
    gini y ≤ ((y.length : K) - 1) / (y.length : K) := by
  have hn : y ≠ [] := by
    intro h; rw [h] at hS; simp at hS
  have hlen : (0 : K) < (y.length : K) := by
    have : 0 < y.length := List.length_pos_iff.mpr hn
    exact_mod_cast this
  rw [gini_eq_lorenz_area y hn (ne_of_gt hS), lorenzArea_eq]
  have hz : ∀ v ∈ sortL y, 0 ≤ v := fun v hv => hy v ((sortL_perm y).subset hv)
  have hne : sortL y ≠ [] := by
    intro h
    have := sortL_length y
    rw [h] at this
    exact hn (List.length_eq_zero_iff.mp this.symm)
  have ht := trapSum_ge_total (sortL y) hz hne
  rw [(sortL_perm y).sum_eq] at ht
  have hden : 0 < (1 + 1) * (y.length : K) * y.sum := by positivity
  have key : y.sum / ((1 + 1) * (y.length : K) * y.sum) ≤ trapSum 0 (sortL y) / ((1 + 1) * (y.length : K) * y.sum) :=
    div_le_div_of_nonneg_right ht (le_of_lt hden)
  have e : y.sum / ((1 + 1) * (y.length : K) * y.sum) = 1 / ((1 + 1) * (y.length : K)) := by
    field_simp
  rw [e] at key
  have e2 : ((y.length : K) - 1) / (y.length : K) = 1 - (1 + 1) * (1 / ((1 + 1) * (y.length : K))) := by
    field_simp
  rw [e2]
  linarith

/-- **the bound is attained** by the sample in which one individual holds everything: `gini (0,…,0,c) = (n−1)/n` -/
theorem gini_max_attained (m : ℕ) (c : K) (hc : 0 < c) :
    gini (List.replicate m (0 : K) ++ [c]) = (m : K) / ((m : K) + 1) := by
  have hnum : giniNum (List.replicate m (0 : K) ++ [c]) = (1 + 1) * (m : K) * c := by
    induction m with
    | zero => simp [giniNum, giniRowSum, absv_eq_abs]
    | succ k ih =>
      rw [List.replicate_succ, List.cons_append,
        giniNum_cons_min 0 _ (by
          intro b hb
          rcases List.mem_append.mp hb with h | h
          · rw [List.eq_of_mem_replicate h]
          · rw [List.mem_singleton.mp h]; exact le_of_lt hc), ih]
      simp only [List.sum_append, List.sum_replicate, List.sum_singleton, smul_zero, zero_add, List.length_append,
        List.length_replicate, List.length_singleton]
      push_cast
      ring
  unfold gini giniDen
  rw [hnum]
  simp only [List.sum_append, List.sum_replicate, List.sum_singleton, smul_zero, zero_add, List.length_append,
    List.length_replicate, List.length_singleton]
  have hm : (m : K) + 1 ≠ 0 := by
    have : (0 : K) ≤ (m : K) := Nat.cast_nonneg m
    exact ne_of_gt (by linarith)
  push_cast
  field_simp

/-- **equality characterisation**: `gini = (n − 1)/n` exactly when all observations but the largest are zero
    (the `n − 1` smallest order statistics vanish) -/
theorem gini_eq_max_iff (y : List K) (hy : ∀ v ∈ y, 0 ≤ v) (hS : 0 < y.sum) :
    gini y = ((y.length : K) - 1) / (y.length : K) ↔ ∀ i, i + 1 < y.length → (sortL y).getD i 0 = 0 := by
  have hn : y ≠ [] := by
    intro h; rw [h] at hS; simp at hS
  have hlen : (0 : K) < (y.length : K) := by
    have : 0 < y.length := List.length_pos_iff.mpr hn
    exact_mod_cast this
  have hz : ∀ v ∈ sortL y, 0 ≤ v := fun v hv => hy v ((sortL_perm y).subset hv)
  have hne : sortL y ≠ [] := by
    intro h
    have := sortL_length y
    rw [h] at this
    exact hn (List.length_eq_zero_iff.mp this.symm)
  have hiff := trapSum_eq_total_iff (sortL y) hz hne
  rw [(sortL_perm y).sum_eq, sortL_length] at hiff
  rw [← hiff, gini_eq_lorenz_area y hn (ne_of_gt hS), lorenzArea_eq]
  have hSne : y.sum ≠ 0 := ne_of_gt hS
  have hlne : (y.length : K) ≠ 0 := ne_of_gt hlen
  constructor
  · intro h
    field_simp at h
    linarith
  · intro h
    rw [h]
    field_simp

example : (sortL [(0 : ℚ), 5, 0, 0]) = [0, 0, 0, 5] ∧ gini [(0 : ℚ), 5, 0, 0] = (4 - 1) / 4 := by decide +kernel

/-- **perfect equality**: for a non-empty sample with positive total, `gini = 0` exactly when all observations
    are equal -/
theorem gini_eq_zero_iff (y : List K) (hS : 0 < y.sum) : gini y = 0 ↔ ∀ a ∈ y, ∀ b ∈ y, a = b := by
  have hn : y ≠ [] := by
    intro h; rw [h] at hS; simp at hS
  have hlen : (0 : K) < (y.length : K) := by
    have : 0 < y.length := List.length_pos_iff.mpr hn
    exact_mod_cast this
  have hden : (1 + 1) * (y.length : K) * y.sum ≠ 0 := ne_of_gt (by positivity)
  unfold gini giniDen
  rw [div_eq_zero_iff, or_iff_left hden]
  exact giniNum_eq_zero_iff y

example : gini [(0 : ℚ), 0, 0, 5] = 3 / 4 ∧ gini [(7/2 : ℚ), 7/2, 7/2] = 0 := by decide +kernel
example : (∀ v ∈ [(0 : ℚ), 0, 0, 5], 0 ≤ v) ∧ (0 : ℚ) < [(0 : ℚ), 0, 0, 5].sum := by
  refine ⟨?_, by norm_num⟩
  intro v hv
  simp only [List.mem_cons, List.not_mem_nil, or_false] at hv
  rcases hv with rfl | rfl | rfl | rfl <;> norm_num

example : gini [(3 : ℚ), 1, 2] = 2 / 9 ∧ lorenzArea [(3 : ℚ), 1, 2] = 7 / 18 := by decide +kernel

example : lorenzIncome [(3 : ℚ), 1, 2] = [0, 1/6, 1/2, 1] := by decide +kernel

/-! ## Shorrocks index, rank-size data -/

/-- `shorrocks_index` raises exactly for non-square input and otherwise is `(m − trace)/(m − 1)` -/
theorem shorrocks_spec (A : List (List K)) :
    (shorrocks A = none ↔ A.length ≠ (A.headD []).length) ∧
    (A.length = (A.headD []).length → shorrocks A =
      some (((A.length : K) - ((List.range A.length).map fun i => (A.getD i []).getD i 0).sum) / ((A.length : K) - 1))) := by
  unfold shorrocks
  by_cases h : A.length = (A.headD []).length
  · simp [h]
  · simp [h]

/-- complete immobility: the identity matrix (`m ≥ 2`) has index 0 -/
theorem shorrocks_identity (m : ℕ) (hm : 2 ≤ m) :
    shorrocks ((List.range m).map fun i => (List.range m).map fun j => if i = j then (1 : K) else 0) = some 0 := by
  have hsq := (shorrocks_spec ((List.range m).map fun i => (List.range m).map fun j => if i = j then (1 : K) else 0)).2
  have hlen : ((List.range m).map fun i => (List.range m).map fun j => if i = j then (1 : K) else 0).length = m := by simp
  have hhead : (((List.range m).map fun i => (List.range m).map fun j => if i = j then (1 : K) else 0).headD []).length = m := by
    cases m with
    | zero => omega
    | succ k => simp [List.range_succ_eq_map]
  rw [hsq (by rw [hlen, hhead]), hlen]
  have hdiag : ((List.range m).map fun i =>
      ((((List.range m).map fun i => (List.range m).map fun j => if i = j then (1 : K) else 0).getD i []).getD i 0)).sum = (m : K) := by
    rw [list_sum_range_map]
    have : ∀ i ∈ Finset.range m,
        ((((List.range m).map fun i => (List.range m).map fun j => if i = j then (1 : K) else 0).getD i []).getD i 0) = 1 := by
      intro i hi
      have hi' : i < m := Finset.mem_range.mp hi
      have hrow : ((List.range m).map fun i => (List.range m).map fun j => if i = j then (1 : K) else 0).getD i []
          = (List.range m).map fun j => if i = j then (1 : K) else 0 := by
        rw [List.getD_eq_getElem _ _ (by simp; exact hi')]
        simp
      rw [hrow, List.getD_eq_getElem _ _ (by simp; exact hi')]
      simp
    rw [Finset.sum_congr rfl this]
    simp
  rw [hdiag, sub_self, zero_div]

section shorrocksOrdered
variable {K : Type} [Field K] [LinearOrder K] [IsStrictOrderedRing K]

/-- **range of the Shorrocks index**: for an `m × m` matrix (`m ≥ 2`) whose diagonal entries lie in `[0, 1]`
    (in particular a transition matrix), `0 ≤ s(A) ≤ m/(m − 1)`, and `s(A) = 0` exactly when every diagonal entry
    is `1` (complete immobility) -/
theorem shorrocks_range (A : List (List K)) (hm : 2 ≤ A.length) (hsq : A.length = (A.headD []).length)
    (hd : ∀ i, i < A.length → 0 ≤ (A.getD i []).getD i 0 ∧ (A.getD i []).getD i 0 ≤ 1) :
    ∃ v, shorrocks A = some v ∧ 0 ≤ v ∧ v ≤ (A.length : K) / ((A.length : K) - 1) ∧
      (v = 0 ↔ ∀ i, i < A.length → (A.getD i []).getD i 0 = 1) := by
  have hm1 : (0 : K) < (A.length : K) - 1 := by
    have : (2 : K) ≤ (A.length : K) := by exact_mod_cast hm
    linarith
  refine ⟨_, (shorrocks_spec A).2 hsq, ?_, ?_, ?_⟩
  all_goals rw [list_sum_range_map]
  · apply div_nonneg _ (le_of_lt hm1)
    have : ∑ i ∈ Finset.range A.length, (A.getD i []).getD i 0 ≤ ∑ _i ∈ Finset.range A.length, (1 : K) :=
      Finset.sum_le_sum (fun i hi => (hd i (Finset.mem_range.mp hi)).2)
    simp only [Finset.sum_const, Finset.card_range, nsmul_eq_mul, mul_one] at this
    linarith
  · apply div_le_div_of_nonneg_right _ (le_of_lt hm1)
    have : 0 ≤ ∑ i ∈ Finset.range A.length, (A.getD i []).getD i 0 :=
      Finset.sum_nonneg (fun i hi => (hd i (Finset.mem_range.mp hi)).1)
    linarith
  · rw [div_eq_zero_iff, or_iff_left (ne_of_gt hm1), sub_eq_zero]
    constructor
    · intro h i hi
      by_contra hne
      have hlt : (A.getD i []).getD i 0 < 1 := lt_of_le_of_ne (hd i hi).2 hne
      have : ∑ j ∈ Finset.range A.length, (A.getD j []).getD j 0 < ∑ _j ∈ Finset.range A.length, (1 : K) :=
        Finset.sum_lt_sum (fun j hj => (hd j (Finset.mem_range.mp hj)).2) ⟨i, Finset.mem_range.mpr hi, hlt⟩
      simp only [Finset.sum_const, Finset.card_range, nsmul_eq_mul, mul_one] at this
      linarith
    · intro h
      rw [Finset.sum_congr rfl (fun i hi => h i (Finset.mem_range.mp hi))]
      simp

example : shorrocks [[(1/2 : ℚ), 1/2], [1/4, 3/4]] = some (3/4) := by decide +kernel

end shorrocksOrdered

/-- `rank_size`: the size data are the `min k n` largest observations in non-increasing order; with `k ≥ n`
    (`c = 1`) a permutation of the whole sample -/
theorem rankSize_spec (data : List K) (k : ℕ) :
    (rankSize data k).length = min k data.length ∧ (rankSize data k).Pairwise (· ≥ ·) ∧
    (data.length ≤ k → (rankSize data k).Perm data) := by
  unfold rankSize
  refine ⟨by simp [sortL_length], ?_, ?_⟩
  · apply List.Pairwise.sublist (List.take_sublist _ _)
    rw [List.pairwise_reverse]
    exact sortL_sorted data
  · intro hk
    rw [List.take_of_length_le (by simp [sortL_length]; exact hk)]
    exact (List.reverse_perm _).trans (sortL_perm data)

/-- **top-`k` property**: every size returned by `rank_size` is at least every observation left out, and the
    returned and the left-out observations together are a permutation of the data -/
theorem rankSize_top (data : List K) (k : ℕ) :
    (∀ x ∈ rankSize data k, ∀ z ∈ ((sortL data).reverse).drop k, z ≤ x) ∧
    (rankSize data k ++ ((sortL data).reverse).drop k).Perm data := by
  unfold rankSize
  constructor
  · have hp : ((sortL data).reverse).Pairwise (· ≥ ·) := by
      rw [List.pairwise_reverse]; exact sortL_sorted data
    rw [← List.take_append_drop k (sortL data).reverse] at hp
    intro x hx z hz
    exact (List.pairwise_append.mp hp).2.2 x hx z hz
  · rw [List.take_append_drop]
    exact (List.reverse_perm _).trans (sortL_perm data)

example : rankSize [(3 : ℚ), 1, 2, 5] 2 = [5, 3] ∧ ((sortL [(3 : ℚ), 1, 2, 5]).reverse).drop 2 = [2, 1] := by decide +kernel

example : rankSize [(3 : ℚ), 1, 2, 5] 2 = [5, 3] := by decide +kernel

/-- **ECDF**: `ecdf obs a` is the number of observations `≤ a` divided by the number of observations -/
theorem ecdf_def (obs : List K) (a : K) :
    ecdf obs a = ((obs.countP fun o => decide (o ≤ a) : Nat) : K) / (obs.length : K) := by
  unfold ecdf
  rw [List.countP_eq_length_filter]

theorem ecdf_range (obs : List K) (hn : obs ≠ []) (a : K) : 0 ≤ ecdf obs a ∧ ecdf obs a ≤ 1 := by
  have hlen : (0 : K) < (obs.length : K) := by
    have : 0 < obs.length := List.length_pos_iff.mpr hn
    exact_mod_cast this
  rw [ecdf_def]
  constructor
  · exact div_nonneg (Nat.cast_nonneg _) (le_of_lt hlen)
  · rw [div_le_one hlen]
    exact_mod_cast List.countP_le_length

theorem ecdf_mono (obs : List K) (a b : K) (hab : a ≤ b) : ecdf obs a ≤ ecdf obs b := by
  rw [ecdf_def, ecdf_def]
  apply div_le_div_of_nonneg_right _ (Nat.cast_nonneg _)
  have : obs.countP (fun o => decide (o ≤ a)) ≤ obs.countP (fun o => decide (o ≤ b)) := by
    apply List.countP_mono_left
    intro x _ hx
    simp only [decide_eq_true_eq] at hx ⊢
    exact le_trans hx hab
  exact_mod_cast this

/-- at or above the largest observation the ECDF is 1; below the smallest it is 0 -/
theorem ecdf_top (obs : List K) (hn : obs ≠ []) (a : K) (h : ∀ o ∈ obs, o ≤ a) : ecdf obs a = 1 := by
  have hlen : (obs.length : K) ≠ 0 := by
    have : obs.length ≠ 0 := by simpa [List.length_eq_zero_iff] using hn
    exact_mod_cast this
  unfold ecdf
  rw [List.filter_eq_self.mpr (by intro o ho; simpa using h o ho), div_self hlen]

theorem ecdf_bottom (obs : List K) (a : K) (h : ∀ o ∈ obs, a < o) : ecdf obs a = 0 := by
  unfold ecdf
  rw [List.filter_eq_nil_iff.mpr (by intro o ho; simpa using h o ho)]
  simp

theorem countP_le_split (obs : List K) (a b : K) (hab : a ≤ b) :
    obs.countP (fun o => decide (o ≤ b))
      = obs.countP (fun o => decide (o ≤ a)) + obs.countP (fun o => decide (a < o ∧ o ≤ b)) := by
  induction obs with
  | nil => simp
  | cons o os ih =>
    by_cases h1 : o ≤ a
    · have h2 : o ≤ b := le_trans h1 hab
      have h3 : ¬ (a < o ∧ o ≤ b) := fun h => absurd h.1 (not_lt.mpr h1)
      rw [List.countP_cons_of_pos (p := fun o => decide (o ≤ b)) (by simpa using h2),
        List.countP_cons_of_pos (p := fun o => decide (o ≤ a)) (by simpa using h1),
        List.countP_cons_of_neg (p := fun o => decide (a < o ∧ o ≤ b)) (by simpa using h3), ih]
      omega
    · by_cases h2 : o ≤ b
      · have h3 : a < o ∧ o ≤ b := ⟨not_le.mp h1, h2⟩
        rw [List.countP_cons_of_pos (p := fun o => decide (o ≤ b)) (by simpa using h2),
          List.countP_cons_of_neg (p := fun o => decide (o ≤ a)) (by simpa using h1),
          List.countP_cons_of_pos (p := fun o => decide (a < o ∧ o ≤ b)) (by simpa using h3), ih]
        omega
      · have h3 : ¬ (a < o ∧ o ≤ b) := fun h => h2 h.2
        rw [List.countP_cons_of_neg (p := fun o => decide (o ≤ b)) (by simpa using h2),
          List.countP_cons_of_neg (p := fun o => decide (o ≤ a)) (by simpa using h1),
          List.countP_cons_of_neg (p := fun o => decide (a < o ∧ o ≤ b)) (by simpa using h3), ih]

/-- **increments of the ECDF**: for `a ≤ b`, `F(b) − F(a)` is the fraction of observations in `(a, b]` -/
theorem ecdf_sub (obs : List K) (a b : K) (hab : a ≤ b) :
    ecdf obs b - ecdf obs a = ((obs.countP fun o => decide (a < o ∧ o ≤ b) : Nat) : K) / (obs.length : K) := by
  rw [ecdf_def, ecdf_def, countP_le_split obs a b hab]
  push_cast
  ring

/-- **step function, continuous from the right**: the ECDF is constant on every interval `[a, b]` whose
    half-open part `(a, b]` contains no observation -/
theorem ecdf_const_between (obs : List K) (a b : K) (hab : a ≤ b) (h : ∀ o ∈ obs, ¬ (a < o ∧ o ≤ b)) :
    ecdf obs b = ecdf obs a := by
  have hs := ecdf_sub obs a b hab
  have h0 : obs.countP (fun o => decide (a < o ∧ o ≤ b)) = 0 := by
    rw [List.countP_eq_zero]
    intro o ho
    simpa using h o ho
  rw [h0] at hs
  simp at hs
  linarith

/-- **jump at an observation**: if `v` is the only value observed in `(a, v]`, the ECDF jumps from `F(a)` to
    `F(a) + (multiplicity of v)/n` at `v` -/
theorem ecdf_jump (obs : List K) (a v : K) (hav : a < v) (h : ∀ o ∈ obs, a < o → o ≤ v → o = v) :
    ecdf obs v - ecdf obs a = ((obs.countP fun o => decide (o = v) : Nat) : K) / (obs.length : K) := by
  rw [ecdf_sub obs a v (le_of_lt hav)]
  congr 2
  apply List.countP_congr
  intro o ho
  simp only [decide_eq_true_eq]
  constructor
  · intro hh; exact h o ho hh.1 hh.2
  · intro hh; rw [hh]; exact ⟨hav, le_refl _⟩

example : ecdf [(1 : ℚ), 2, 2, 3] 2 - ecdf [(1 : ℚ), 2, 2, 3] (3/2) = 2 / 4 ∧
    ecdf [(1 : ℚ), 2, 2, 3] (5/2) = ecdf [(1 : ℚ), 2, 2, 3] 2 := by decide +kernel

example : ecdf [(1 : ℚ), 2, 2, 3] 2 = 3 / 4 := by decide +kernel

end ineq

/-! ## BetaBinomial: the closed-form moments are the moments of the pdf -/

section bb
variable {K : Type} [Field K] [LinearOrder K] [IsStrictOrderedRing K]

/-- **the pdf sums to one** (Chu–Vandermonde for rising factorials), every `n`, every `a, b > 0` -/
theorem bb_pdf_sums_to_one (n : ℕ) (a b : K) (ha : 0 < a) (hb : 0 < b) : (bbPdfList n a b).sum = 1 := by
  unfold bbPdfList
  rw [list_sum_range_map]
  exact bb_sum_pdf n a b ha hb

theorem bb_pdf_nonneg (n : ℕ) (a b : K) (ha : 0 < a) (hb : 0 < b) (k : ℕ) : 0 ≤ bbPdf n a b k := by
  rw [bbPdf_eq]
  apply div_nonneg
  · exact mul_nonneg (Nat.cast_nonneg _)
      (mul_nonneg (le_of_lt (rising_pos a ha k)) (le_of_lt (rising_pos b hb (n - k))))
  · exact le_of_lt (rising_pos _ (add_pos ha hb) n)

/-- **mean**: `n·a/(a+b)` is the first moment `Σ_k k·pdf(k)` -/
theorem bb_mean_eq_first_moment (n : ℕ) (a b : K) (ha : 0 < a) (hb : 0 < b) :
    bbMoment n a b 1 = bbMean n a b := by
  unfold bbMoment bbMean
  rw [list_sum_range_map]
  simp only [List.replicate_succ, List.replicate_zero, List.foldl_cons, List.foldl_nil, one_mul]
  exact bb_sum_k_pdf n a b ha hb

/-- **variance**: `n·a·b·(a+b+n)/((a+b)²(a+b+1))` is `Σ k² pdf(k) − (Σ k pdf(k))²` -/
theorem bb_var_eq_central_moment (n : ℕ) (a b : K) (ha : 0 < a) (hb : 0 < b) :
    bbMoment n a b 2 - bbMoment n a b 1 * bbMoment n a b 1 = bbVar n a b := by
  rw [bb_mean_eq_first_moment n a b ha hb]
  unfold bbMoment bbMean bbVar
  rw [list_sum_range_map]
  simp only [List.replicate_succ, List.replicate_zero, List.foldl_cons, List.foldl_nil, one_mul]
  have hsplit : ∀ k : ℕ, (k : K) * (k : K) * bbPdf n a b k
      = (k : K) * ((k : K) - 1) * bbPdf n a b k + (k : K) * bbPdf n a b k := by
    intro k; ring
  simp only [hsplit]
  rw [Finset.sum_add_distrib, bb_sum_kk1_pdf n a b ha hb, bb_sum_k_pdf n a b ha hb]
  have hab : a + b ≠ 0 := ne_of_gt (add_pos ha hb)
  have hab1 : a + b + 1 ≠ 0 := ne_of_gt (by linarith)
  field_simp
  ring

/-- **third central moment** of the pdf: `μ₃ = var · t1 / (a+b)` with `t1 = (a+b+2n)(b−a)/(a+b+2)` the first factor
    of `skew` -/
theorem bb_third_central_moment (n : ℕ) (a b : K) (ha : 0 < a) (hb : 0 < b) :
    bbMoment n a b 3 - 3 * bbMoment n a b 1 * bbMoment n a b 2 + 2 * bbMoment n a b 1 ^ 3
      = bbVar n a b * bbSkewT1 n a b / (a + b) := by
  unfold bbMoment bbVar bbSkewT1
  simp only [list_sum_range_map, List.replicate_succ, List.replicate_zero, List.foldl_cons, List.foldl_nil, one_mul]
  have hs3 : ∀ k : ℕ, (k : K) * (k : K) * (k : K) * bbPdf n a b k
      = (k : K) * (((k : K) - 1) * ((k : K) - 2)) * bbPdf n a b k
        + 3 * ((k : K) * ((k : K) - 1) * bbPdf n a b k) + (k : K) * bbPdf n a b k := by
    intro k; ring
  have hs2 : ∀ k : ℕ, (k : K) * (k : K) * bbPdf n a b k
      = (k : K) * ((k : K) - 1) * bbPdf n a b k + (k : K) * bbPdf n a b k := by
    intro k; ring
  simp only [hs3, hs2, Finset.sum_add_distrib, ← Finset.mul_sum]
  rw [bb_sum_kk1k2_pdf n a b ha hb, bb_sum_kk1_pdf n a b ha hb, bb_sum_k_pdf n a b ha hb]
  have hab : a + b ≠ 0 := ne_of_gt (add_pos ha hb)
  have hab1 : a + b + 1 ≠ 0 := ne_of_gt (by linarith)
  have hab2 : a + b + 2 ≠ 0 := ne_of_gt (by linarith)
  have hab2' : a + b + (1 + 1) ≠ 0 := ne_of_gt (by linarith)
  field_simp
  ring

/-- **skewness**: the square of `skew = t1·sqrt(t2²)` is the squared third standardised moment of the pdf:
    `skew² · var³ = μ₃²`; with `bb_third_central_moment` (`μ₃ = var·t1/(a+b)`, `var > 0`) the sign of `skew`
    — the sign of `t1` — is the sign of `μ₃`. The square root itself is not modelled. -/
theorem bb_skew_sq (n : ℕ) (hn : 0 < n) (a b : K) (ha : 0 < a) (hb : 0 < b) :
    bbSkewSq n a b * bbVar n a b ^ 3 = (bbVar n a b * bbSkewT1 n a b / (a + b)) ^ 2 := by
  unfold bbSkewSq bbSkewT2sq bbVar bbSkewT1
  have hnK : (0 : K) < (n : K) := by exact_mod_cast hn
  have hab : a + b ≠ 0 := ne_of_gt (add_pos ha hb)
  have hab1 : a + b + 1 ≠ 0 := ne_of_gt (by linarith)
  have hab2 : a + b + (1 + 1) ≠ 0 := ne_of_gt (by linarith)
  have hn0 : (n : K) ≠ 0 := ne_of_gt hnK
  have ha0 : a ≠ 0 := ne_of_gt ha
  have hb0 : b ≠ 0 := ne_of_gt hb
  have hnab : (n : K) + a + b ≠ 0 := ne_of_gt (by linarith)
  field_simp
  ring

example : bbSkewSq 5 (1/2 : ℚ) 2 = 175 / 108 := by decide +kernel

example : bbPdfList 5 (1/2 : ℚ) 2 = [512/1001, 640/3003, 128/1001, 80/1001, 20/429, 3/143] := by decide +kernel
example : bbMoment 5 (1/2 : ℚ) 2 1 = 1 ∧ bbVar 5 (1/2 : ℚ) 2 = 12/7 := by decide +kernel

end bb

/-! ## spectral density: real and non-negative -/

section specOrdered
variable {K : Type} [Field K] [LinearOrder K] [IsStrictOrderedRing K]

/-- **the spectral density is non-negative** at every point, for every `φ, θ, σ` (it is `σ²|θ|²/|φ|²`) -/
theorem spectral_density_nonneg (φ θ : List K) (σ c s : K) : 0 ≤ specDens φ θ σ c s := by
  unfold specDens normSq
  apply div_nonneg
  · apply mul_nonneg (mul_self_nonneg σ)
    exact add_nonneg (mul_self_nonneg _) (mul_self_nonneg _)
  · exact add_nonneg (mul_self_nonneg _) (mul_self_nonneg _)

/-- … and strictly positive wherever neither polynomial vanishes and `σ ≠ 0` -/
theorem spectral_density_pos (φ θ : List K) (σ c s : K) (hσ : σ ≠ 0)
    (hθ : normSq (polyEvalC (1 :: θ) (c, -s)) ≠ 0) (hφ : normSq (polyEvalC (1 :: φ.map fun x => -x) (c, -s)) ≠ 0) :
    0 < specDens φ θ σ c s := by
  rw [spectral_density_formula]
  have h1 : 0 < σ * σ := mul_self_pos.mpr hσ
  have hn : ∀ z : K × K, 0 ≤ normSq z := fun z => add_nonneg (mul_self_nonneg _) (mul_self_nonneg _)
  have h2 : 0 < normSq (polyEvalC (1 :: θ) (c, -s)) := lt_of_le_of_ne (hn _) (Ne.symm hθ)
  have h3 : 0 < normSq (polyEvalC (1 :: φ.map fun x => -x) (c, -s)) := lt_of_le_of_ne (hn _) (Ne.symm hφ)
  exact div_pos (mul_pos h1 h2) h3

example : (0 : ℚ) < specDens [(1/2 : ℚ)] [1/4, 1/2, 1] 1 (3/5) (4/5) := by decide +kernel

end specOrdered

/-! ## the ARMA object: histories of re-parameterisations and queries -/

section history
variable {K : Type} [Field K]

/-- queries (operations that return something) leave the object unchanged -/
theorem armaUpd_query (o : ArmaObj K) (op : ArmaOp K) (h : (armaAns o op).isSome) : armaUpd o op = o := by
  cases op <;> first | rfl | (simp [armaAns] at h)

/-- re-parameterisations return nothing; `set_params()` alone changes nothing -/
theorem armaUpd_setParams (o : ArmaObj K) : armaUpd o .setParams = o ∧ armaAns o (.setParams : ArmaOp K) = none :=
  ⟨rfl, rfl⟩

theorem armaRun_append (o : ArmaObj K) (pre post : List (ArmaOp K)) :
    armaRun o (pre ++ post) = armaRun o pre ++ armaRun (pre.foldl armaUpd o) post := by
  induction pre generalizing o with
  | nil => rfl
  | cons op ops ih =>
    show (armaAns o op).toList ++ armaRun (armaUpd o op) (ops ++ post) = _
    rw [ih (armaUpd o op)]
    simp [armaRun, List.append_assoc]

/-- **history theorem**: in any history `pre ++ q :: post` on one object, the answer to `q` is the answer a
    *fresh* object with the current parameters `(φ, θ, σ)` — the last values assigned through any route — would
    give; nothing else of the past (earlier queries, earlier parameter values, the order of assignments to
    different fields) matters, and the later answers are computed from the same state. -/
theorem arma_history (o : ArmaObj K) (pre post : List (ArmaOp K)) (q : ArmaOp K) :
    armaRun o (pre ++ q :: post)
      = armaRun o pre ++ (armaAns (pre.foldl armaUpd o) q).toList
          ++ armaRun (armaUpd (pre.foldl armaUpd o) q) post := by
  rw [armaRun_append]
  simp [armaRun, List.append_assoc]

/-- two histories that end in the same parameters answer every query identically -/
theorem arma_history_independent (o₁ o₂ : ArmaObj K) (h₁ h₂ : List (ArmaOp K)) (q : ArmaOp K)
    (hφ : (h₁.foldl armaUpd o₁).phi = (h₂.foldl armaUpd o₂).phi)
    (hθ : (h₁.foldl armaUpd o₁).theta = (h₂.foldl armaUpd o₂).theta)
    (hσ : (h₁.foldl armaUpd o₁).sigma = (h₂.foldl armaUpd o₂).sigma) :
    armaAns (h₁.foldl armaUpd o₁) q = armaAns (h₂.foldl armaUpd o₂) q := by
  generalize h₁.foldl armaUpd o₁ = a at hφ hθ hσ ⊢
  generalize h₂.foldl armaUpd o₂ = b at hφ hθ hσ ⊢
  cases a; cases b
  simp only at hφ hθ hσ
  subst hφ hθ hσ
  rfl

/-- assigning `sigma` re-scales the spectral density of the *same* object: the second query after
    `sigma = σ'` is the fresh value with `σ'` (a stale memo of the first answer would keep `σ`) -/
theorem arma_history_sigma_spec (o : ArmaObj K) (σ' : K) (cs ss : List K) :
    armaRun o [.spec cs ss, .setSigma σ', .spec cs ss]
      = [(cs.zip ss).map fun p => specDens o.phi o.theta o.sigma p.1 p.2,
         (cs.zip ss).map fun p => specDens o.phi o.theta σ' p.1 p.2] := by
  simp [armaRun, armaAns, armaUpd]

example : armaRun (⟨[1/2], [1/4], 1⟩ : ArmaObj ℚ) [.spec [1] [0], .setSigma 2, .spec [1] [0], .setPhi [1/4], .impulse 3]
    = [[25/4], [25], [1, 1/2, 1/8]] := by decide +kernel

end history

/-! ## Hamilton filter -/

section hamilton
variable {K : Type} [Field K]
open Finset QE.MatAlg

/-- **lag matrix**: `X[t,0] = 1`, `X[t,j] = y[p−j+t]` for `1 ≤ j ≤ p`, and every such read is inside the data
    (so the totalised `getD` never supplies a value). -/
theorem hamilton_lag_matrix (y : List K) (h p t j : ℕ) (ht : t < y.length + 1 - p - h) (hj1 : 1 ≤ j) (hj : j ≤ p) :
    (hamX y h p).get t 0 = 1 ∧ (hamX y h p).get t j = y.getD (p - j + t) 0 ∧ p - j + t < y.length := by
  refine ⟨?_, ?_, by omega⟩
  · rw [hamX_get y h p t 0 ht (by omega)]; simp
  · rw [hamX_get y h p t j ht (by omega), if_neg (by omega)]

/-- the regressand is `y[p+h−1+t]`, inside the data -/
theorem hamilton_target (y : List K) (h p t : ℕ) (hph : 1 ≤ p + h) (ht : t < y.length + 1 - p - h) :
    (hamTarget y h p).get t 0 = y.getD (p + h - 1 + t) 0 ∧ p + h - 1 + t < y.length :=
  ⟨hamTarget_get y h p t ht, by omega⟩

theorem hamiltonP_length (y : List K) (h p : ℕ) (b : M K) (hph : 1 ≤ p + h) (hT : p + h ≤ y.length + 1) :
    (hamiltonP y h p b).1.length = y.length ∧ (hamiltonP y h p b).2.length = y.length := by
  unfold hamiltonP
  refine ⟨by simp, ?_⟩
  simp only [List.length_map, List.length_append, List.length_replicate, hamFit_length]
  omega

/-- **with `p`: nan prefix** of length `p+h−1` in both outputs -/
theorem hamiltonP_nan_prefix (y : List K) (h p : ℕ) (b : M K) (t : ℕ) (ht : t < p + h - 1) (htT : t < y.length) :
    (hamiltonP y h p b).1.getD t (some 0) = none ∧ (hamiltonP y h p b).2.getD t (some 0) = none := by
  unfold hamiltonP
  simp only
  constructor
  · rw [List.getD_eq_getElem _ _ (by simp; exact htT)]
    simp only [List.getElem_map, List.getElem_range]
    rw [getD_replicate_append_lt _ _ _ _ _ ht]
  · rw [getD_replicate_append_lt _ _ _ _ _ ht]

/-- **with `p`: `cycle + trend = data`** from period `p+h−1` on, for *any* coefficient vector `b`, and the trend
    there is the fitted value `(X b)[t−(p+h−1)]`. -/
theorem hamiltonP_decomposition (y : List K) (h p : ℕ) (b : M K) (hph : 1 ≤ p + h) (t : ℕ)
    (ht1 : p + h - 1 ≤ t) (ht : t < y.length) :
    ∃ c v, (hamiltonP y h p b).1.getD t none = some c ∧ (hamiltonP y h p b).2.getD t none = some v ∧
      c + v = y.getD t 0 ∧ v = (hamFit y h p b).getD (t - (p + h - 1)) 0 := by
  have hidx : t - (p + h - 1) < (hamFit y h p b).length := by rw [hamFit_length]; omega
  have htrend : (List.replicate (p + h - 1) (none : Option K) ++ (hamFit y h p b).map some).getD t none
      = some ((hamFit y h p b).getD (t - (p + h - 1)) 0) := by
    rw [getD_replicate_append_ge _ _ _ _ _ ht1, List.getD_eq_getElem _ _ (by simp; exact hidx),
      List.getD_eq_getElem _ _ hidx]
    simp
  refine ⟨y.getD t 0 - (hamFit y h p b).getD (t - (p + h - 1)) 0, (hamFit y h p b).getD (t - (p + h - 1)) 0, ?_, ?_, ?_, rfl⟩
  · unfold hamiltonP
    simp only
    rw [List.getD_eq_getElem _ _ (by simp; exact ht)]
    simp only [List.getElem_map, List.getElem_range]
    rw [htrend]
  · unfold hamiltonP
    simp only
    exact htrend
  · ring

/-- **without `p`**: `cycle_t = y_t − y_{t−h}` and `trend_t = y_{t−h}` for `t ≥ h`, `nan` before -/
theorem hamiltonNoP_spec (y : List K) (h : ℕ) (hh : h ≤ y.length) (t : ℕ) (ht : t < y.length) :
    (hamiltonNoP y h).1.length = y.length ∧ (hamiltonNoP y h).2.length = y.length ∧
    (t < h → (hamiltonNoP y h).1.getD t (some 0) = none ∧ (hamiltonNoP y h).2.getD t (some 0) = none) ∧
    (h ≤ t → (hamiltonNoP y h).1.getD t none = some (y.getD t 0 - y.getD (t - h) 0) ∧
             (hamiltonNoP y h).2.getD t none = some (y.getD (t - h) 0)) := by
  have hlen : (List.replicate h (none : Option K) ++
      (List.range (y.length - h)).map fun t => some (y.getD (h + t) 0 - y.getD t 0)).length = y.length := by
    simp; omega
  refine ⟨?_, ?_, ?_, ?_⟩
  · exact hlen
  · unfold hamiltonNoP; simp only [List.length_map, List.length_range]; exact hlen
  · intro hlt
    unfold hamiltonNoP
    simp only
    constructor
    · exact getD_replicate_append_lt _ _ _ _ _ hlt
    · rw [List.getD_eq_getElem _ _ (by rw [List.length_map, List.length_range, hlen]; exact ht)]
      simp only [List.getElem_map, List.getElem_range]
      rw [getD_replicate_append_lt _ _ _ _ _ hlt]
  · intro hge
    have hc : (List.replicate h (none : Option K) ++
        (List.range (y.length - h)).map fun t => some (y.getD (h + t) 0 - y.getD t 0)).getD t none
        = some (y.getD t 0 - y.getD (t - h) 0) := by
      rw [getD_replicate_append_ge _ _ _ _ _ hge, List.getD_eq_getElem _ _ (by simp; omega)]
      simp only [List.getElem_map, List.getElem_range]
      rw [show h + (t - h) = t by omega]
    unfold hamiltonNoP
    simp only
    refine ⟨hc, ?_⟩
    rw [List.getD_eq_getElem _ _ (by rw [List.length_map, List.length_range, hlen]; exact ht)]
    simp only [List.getElem_map, List.getElem_range]
    rw [hc]
    simp

/-- **OLS projection**: if `b` solves the normal equations `(XᵀX) b = Xᵀ y₊` (what `np.linalg.solve` is asked for),
    the residual `y₊ − X b` — the cycle on the defined range — is orthogonal to every regressor: the constant
    (`j = 0`, so the cycle sums to zero) and each of the `p` lags. -/
theorem hamilton_ols_orthogonal (y : List K) (h p : ℕ) (b : M K) (hb : b.nc = 1)
    (hne : ∀ j, j < p + 1 →
      (mmul (mmul (mT (hamX y h p)) (hamX y h p)) b).get j 0 = (mmul (mT (hamX y h p)) (hamTarget y h p)).get j 0)
    (j : ℕ) (hj : j < p + 1) :
    ∑ t ∈ range (y.length + 1 - p - h),
      (hamX y h p).get t j * ((hamTarget y h p).get t 0 - (hamFit y h p b).getD t 0) = 0 := by
  have hE := hne j hj
  rw [mmul_get _ _ _ _ (by simp [hamX_nc]; omega) (by rw [hb]; omega),
    mmul_get _ _ _ _ (by simp [hamX_nc]; omega) (by rw [hamTarget_nc]; omega)] at hE
  simp only [mmul_nc, mT_nc, hamX_nc, hamX_nr] at hE
  have h1 : ∀ k ∈ range (p + 1), (mmul (mT (hamX y h p)) (hamX y h p)).get j k * b.get k 0
      = ∑ t ∈ range (y.length + 1 - p - h), (hamX y h p).get t j * ((hamX y h p).get t k * b.get k 0) := by
    intro k hk
    rw [mmul_get _ _ _ _ (by simp [hamX_nc]; omega) (by rw [hamX_nc]; exact mem_range.mp hk)]
    simp only [mT_nc, hamX_nr]
    rw [sum_mul]
    apply sum_congr rfl
    intro t ht
    rw [mT_get _ _ _ (by rw [hamX_nc]; exact hj) (by rw [hamX_nr]; exact mem_range.mp ht)]
    ring
  rw [sum_congr rfl h1, sum_comm] at hE
  have h2 : ∀ t ∈ range (y.length + 1 - p - h), (mT (hamX y h p)).get j t * (hamTarget y h p).get t 0
      = (hamX y h p).get t j * (hamTarget y h p).get t 0 := by
    intro t ht
    rw [mT_get _ _ _ (by rw [hamX_nc]; exact hj) (by rw [hamX_nr]; exact mem_range.mp ht)]
  rw [sum_congr rfl h2] at hE
  have h3 : ∀ t ∈ range (y.length + 1 - p - h),
      (hamX y h p).get t j * ((hamTarget y h p).get t 0 - (hamFit y h p b).getD t 0)
      = (hamX y h p).get t j * (hamTarget y h p).get t 0
        - ∑ k ∈ range (p + 1), (hamX y h p).get t j * ((hamX y h p).get t k * b.get k 0) := by
    intro t ht
    rw [hamFit_getD y h p b t (mem_range.mp ht),
      mmul_get _ _ _ _ (by rw [hamX_nr]; exact mem_range.mp ht) (by rw [hb]; omega)]
    simp only [hamX_nc]
    rw [mul_sub, mul_sum]
  rw [sum_congr rfl h3, sum_sub_distrib, ← hE, sub_self]

/-- the same statement on the **returned cycle**: under the normal equations, the defined part of `cycle`
    (`cycle[p+h−1+t]`, `t < T−p−h+1`) is orthogonal to every column of the lag matrix; with `j = 0` the cycle
    sums to zero. -/
theorem hamilton_cycle_orthogonal (y : List K) (h p : ℕ) (b : M K) (hb : b.nc = 1) (hph : 1 ≤ p + h)
    (hne : ∀ j, j < p + 1 →
      (mmul (mmul (mT (hamX y h p)) (hamX y h p)) b).get j 0 = (mmul (mT (hamX y h p)) (hamTarget y h p)).get j 0)
    (j : ℕ) (hj : j < p + 1) :
    ∑ t ∈ range (y.length + 1 - p - h),
      (hamX y h p).get t j * (((hamiltonP y h p b).1.getD (p + h - 1 + t) none).getD 0) = 0 := by
  rw [← hamilton_ols_orthogonal y h p b hb hne j hj]
  apply sum_congr rfl
  intro t ht
  have ht' : t < y.length + 1 - p - h := mem_range.mp ht
  obtain ⟨c, v, hc, _, hcv, hv⟩ := hamiltonP_decomposition y h p b hph (p + h - 1 + t) (by omega) (by omega)
  rw [hc, Option.getD_some, hamTarget_get y h p t ht']
  rw [show p + h - 1 + t - (p + h - 1) = t by omega] at hv
  rw [← hv, ← hcv]
  ring

/-- non-vacuity: the exact Gauss–Jordan solution of the driver satisfies the normal equations of
    `hamilton_ols_orthogonal` on a concrete series (`y_t = t²`, `h = 2`, `p = 1`) -/
example : (match hamOLS [(0 : ℚ), 1, 4, 9, 16, 25, 36, 49, 64, 81] 2 1 with
    | some b =>
      let y : List ℚ := [0, 1, 4, 9, 16, 25, 36, 49, 64, 81]
      b.nc == 1 && (List.range 2).all fun j =>
        (mmul (mmul (mT (hamX y 2 1)) (hamX y 2 1)) b).get j 0 == (mmul (mT (hamX y 2 1)) (hamTarget y 2 1)).get j 0
    | none => false) = true := by
  decide +kernel

end hamilton

/-! ## periodogram index set and `smooth` -/

section spectral

/-- **kept Fourier frequencies**: for `n ≥ 1`, `periodogram` keeps exactly the indices `j` with `2πj/n ≤ π`,
    i.e. `2j ≤ n`: `j = 0..⌊n/2⌋`. -/
theorem periodogram_index (n j : ℕ) (hn : 0 < n) : j ∈ pgramIdx n ↔ 2 * j ≤ n := by
  unfold pgramIdx
  rw [List.mem_range]
  omega

theorem periodogram_count (n : ℕ) (hn : 0 < n) : (pgramIdx n).length = n / 2 + 1 := by
  unfold pgramIdx
  rw [List.length_range]
  omega

example : pgramIdx 5 = [0, 1, 2] ∧ pgramIdx 4 = [0, 1, 2] := by decide

variable {K : Type} [Field K]

/-- `smooth` raises exactly when the series is shorter than the window (first test) or the window is shorter
    than 3 (second test) … -/
theorem smooth_error_iff (win : ℕ → List K) (x : List K) (wl : ℕ) :
    (smooth win x wl = .error .tooShort ↔ x.length < wl) ∧
    (smooth win x wl = .error .tooSmall ↔ wl ≤ x.length ∧ wl < 3) := by
  unfold smooth
  by_cases h1 : x.length < wl
  · simp [h1]
  · by_cases h2 : wl < 3
    · simp [h1, h2]; omega
    · simp [h1, h2]

/-- … and otherwise returns a series of the **same length** as the input (the window length is made odd, the
    series is extended by `⌊wl/2⌋` reflected points at each end, `'valid'` convolution). -/
theorem smooth_length (win : ℕ → List K) (hwin : ∀ m, (win m).length = m) (x : List K) (wl : ℕ)
    (h1 : wl ≤ x.length) (h3 : 3 ≤ wl) :
    ∃ l, smooth win x wl = .ok l ∧ l.length = x.length := by
  unfold smooth
  rw [if_neg (by omega), if_neg (by omega)]
  refine ⟨_, rfl, ?_⟩
  unfold convolveValid reflectPad
  simp only [List.length_map, List.length_range, List.length_append, List.length_reverse, List.length_take,
    hwin]
  by_cases hpar : wl % 2 = 0
  · simp only [hpar, if_true]
    rw [if_neg (by omega)]
    simp only [List.length_drop]
    omega
  · simp only [hpar, if_false]
    rw [if_neg (by omega)]
    simp only [List.length_drop]
    omega

theorem sum_map_div (l : List K) (t : K) : (l.map fun v => v / t).sum = l.sum / t := by
  induction l with
  | nil => simp
  | cons x xs ih => simp only [List.map_cons, List.sum_cons, ih]; ring

/-- the weights actually convolved (`w / w.sum`) **sum to one** whenever the window's total is non-zero … -/
theorem smooth_weights_sum_one (w : List K) (h : w.sum ≠ 0) : (w.map fun v => v / w.sum).sum = 1 := by
  rw [sum_map_div, div_self h]

/-- … which holds for the flat window over a field of characteristic zero: total `= m ≠ 0` -/
theorem flatWin_sum [CharZero K] (m : ℕ) (hm : 0 < m) : (flatWin m : List K).sum = (m : K) ∧ (flatWin m : List K).sum ≠ 0 := by
  have h1 : (flatWin m : List K).sum = (m : K) := by
    unfold flatWin
    induction m with
    | zero => simp
    | succ k ih =>
      rw [List.replicate_succ, List.sum_cons]
      by_cases hk : k = 0
      · subst hk; simp
      · rw [ih (by omega)]; push_cast; ring
  refine ⟨h1, ?_⟩
  rw [h1]
  exact_mod_cast (by omega : m ≠ 0)

/-- **the reflected extension** used by `smooth`: for `1 ≤ k ≤ n` the padded series has length `n + 2k` and
    `s[j] = x[k−1−j]` (left mirror, `j < k`), `x[j−k]` (the data), `x[n−1−(j−k−n)]` (right mirror, `j ≥ k+n`);
    every read is inside the data. -/
theorem reflectPad_spec (x : List K) (k : ℕ) (hk1 : 1 ≤ k) (hk : k ≤ x.length) :
    (reflectPad x k).length = x.length + 2 * k ∧
    (∀ j, j < k → (reflectPad x k).getD j 0 = x.getD (k - 1 - j) 0) ∧
    (∀ j, k ≤ j → j < k + x.length → (reflectPad x k).getD j 0 = x.getD (j - k) 0) ∧
    (∀ j, k + x.length ≤ j → j < x.length + 2 * k →
      (reflectPad x k).getD j 0 = x.getD (x.length - 1 - (j - k - x.length)) 0) := by
  unfold reflectPad
  rw [if_neg (by omega)]
  have hl1 : ((x.take k).reverse).length = k := by simp; omega
  have hl3 : ((x.drop (x.length - k)).reverse).length = k := by simp; omega
  refine ⟨by simp; omega, ?_, ?_, ?_⟩
  · intro j hj
    rw [List.append_assoc, List.getD_append _ _ _ _ (by rw [hl1]; exact hj),
      List.getD_reverse _ (by simp; omega)]
    simp only [List.length_take]
    rw [show min k x.length - 1 - j = k - 1 - j by omega]
    rw [List.getD_eq_getElem _ _ (by simp; omega), List.getD_eq_getElem _ _ (by omega)]
    simp
  · intro j hj1 hj2
    rw [List.append_assoc, List.getD_append_right _ _ _ _ (by rw [hl1]; exact hj1), hl1,
      List.getD_append _ _ _ _ (by omega)]
  · intro j hj1 hj2
    rw [List.getD_append_right _ _ _ _ (by simp; omega)]
    simp only [List.length_append, List.length_reverse, List.length_take]
    rw [List.getD_reverse _ (by simp; omega)]
    simp only [List.length_drop]
    rw [List.getD_eq_getElem _ _ (by simp; omega), List.getD_eq_getElem _ _ (by omega)]
    simp only [List.getElem_drop]
    congr 1
    omega

/-- **`smooth` pointwise**: entry `i` of the result is the weighted average
    `Σ_k (w_k / Σw) · s[i + wl' − 1 − k]` of the reflected series `s`, `wl'` the odd window length, and every `s`
    read is in range. -/
theorem smooth_pointwise (win : ℕ → List K) (hwin : ∀ m, (win m).length = m) (x : List K) (wl : ℕ)
    (h1 : wl ≤ x.length) (h3 : 3 ≤ wl) :
    let wl' := if wl % 2 = 0 then wl + 1 else wl
    ∃ l, smooth win x wl = .ok l ∧ ∀ i, i < x.length →
      l.getD i 0 = ((List.range wl').map fun k =>
          ((win wl').getD k 0 / (win wl').sum) * (reflectPad x (wl' / 2)).getD (i + wl' - 1 - k) 0).sum ∧
      ∀ k, k < wl' → i + wl' - 1 - k < (reflectPad x (wl' / 2)).length := by
  intro wl'
  have hodd : wl' % 2 = 1 ∧ wl ≤ wl' ∧ wl' ≤ wl + 1 := by
    simp only [wl']; split <;> omega
  have hk1 : 1 ≤ wl' / 2 := by omega
  have hk : wl' / 2 ≤ x.length := by omega
  have hslen := (reflectPad_spec x (wl' / 2) hk1 hk).1
  unfold smooth
  rw [if_neg (by omega), if_neg (by omega)]
  refine ⟨_, rfl, ?_⟩
  intro i hi
  show (convolveValid ((win wl').map fun v => v / (win wl').sum) (reflectPad x (wl' / 2))).getD i 0 = _ ∧ _
  constructor
  · unfold convolveValid
    rw [List.getD_eq_getElem _ _ (by simp [hwin, hslen]; omega)]
    simp only [List.getElem_map, List.getElem_range, List.length_map, hwin]
    congr 1
    apply List.map_congr_left
    intro k hk'
    have hk'' : k < wl' := List.mem_range.mp hk'
    have e1 : ((win wl').map fun v => v / (win wl').sum).getD k 0 = (win wl').getD k 0 / (win wl').sum := by
      rw [List.getD_eq_getElem _ _ (by simp [hwin]; exact hk''), List.getElem_map,
        List.getD_eq_getElem (win wl') 0 (by rw [hwin]; exact hk'')]
    rw [e1]
  · intro k hk'
    rw [hslen]; omega

theorem flatWin_length (m : ℕ) : (flatWin m : List K).length = m := by simp [flatWin]

theorem bartlett_length (m : ℕ) : (bartlett m : List K).length = m := by
  unfold bartlett
  split
  · rename_i h; subst h; rfl
  · simp

example : (match smooth flatWin [(0 : ℚ), 1, 2, 3, 4, 5, 6, 7] 4 with
    | .ok l => l == [4/5, 6/5, 2, 3, 4, 5, 29/5, 31/5]
    | .error _ => false) = true := by
  decide +kernel

end spectral

section bartlettSec
variable {K : Type} [Field K] [LinearOrder K] [IsStrictOrderedRing K]

/-- the model's two-branch `np.bartlett` is the triangular window `w_i = 1 − |2i − (M−1)|/(M−1)` -/
theorem bartlett_getD (m i : ℕ) (hm : 2 ≤ m) (hi : i < m) :
    (bartlett m : List K).getD i 0 = 1 - |2 * (i : K) - ((m : K) - 1)| / ((m : K) - 1) := by
  unfold bartlett
  rw [if_neg (by omega), List.getD_eq_getElem _ _ (by simp; exact hi)]
  simp only [List.getElem_map, List.getElem_range]
  have hm1 : ((m - 1 : ℕ) : K) = (m : K) - 1 := by
    rw [Nat.cast_sub (by omega)]; simp
  split
  · rename_i h
    have hc : ((m - 1 - 2 * i : ℕ) : K) = (m : K) - 1 - 2 * (i : K) := by
      rw [Nat.cast_sub (by omega), Nat.cast_sub (by omega)]; push_cast; ring
    have hle : 2 * (i : K) - ((m : K) - 1) ≤ 0 := by
      have : (2 * i + 1 : ℕ) ≤ m := h
      have h' : ((2 * i + 1 : ℕ) : K) ≤ (m : K) := by exact_mod_cast this
      push_cast at h'
      linarith
    rw [hc, hm1, abs_of_nonpos hle]
    ring
  · rename_i h
    have hc : ((2 * i + 1 - m : ℕ) : K) = 2 * (i : K) + 1 - (m : K) := by
      rw [Nat.cast_sub (by omega)]; push_cast; ring
    have hge : 0 ≤ 2 * (i : K) - ((m : K) - 1) := by
      have : m ≤ 2 * i + 1 := by omega
      have h' : (m : K) ≤ ((2 * i + 1 : ℕ) : K) := by exact_mod_cast this
      push_cast at h'
      linarith
    rw [hc, hm1, abs_of_nonneg hge]
    ring

/-- the window is symmetric: `w_i = w_{M−1−i}` -/
theorem bartlett_symm (m i : ℕ) (hm : 2 ≤ m) (hi : i < m) :
    (bartlett m : List K).getD i 0 = (bartlett m : List K).getD (m - 1 - i) 0 := by
  rw [bartlett_getD m i hm hi, bartlett_getD m (m - 1 - i) hm (by omega)]
  have hc : ((m - 1 - i : ℕ) : K) = (m : K) - 1 - (i : K) := by
    rw [Nat.cast_sub (by omega), Nat.cast_sub (by omega)]; simp
  rw [hc]
  congr 2
  rw [← abs_neg]
  congr 1
  ring

example : (bartlett 5 : List ℚ) = [0, 1/2, 1, 1/2, 0] := by decide +kernel

end bartlettSec

/-! ## which `hamilton_filter` calls succeed; the windowed periodogram -/

section glue
variable {K : Type} [Field K]
open QE.MatAlg

/-- **without `p`** the call succeeds exactly for `h ≤ T` and raises `ValueError` otherwise -/
theorem hamiltonGuard_none (T h : ℕ) :
    (hamiltonGuard T h none = .ok ↔ h ≤ T) ∧ (hamiltonGuard T h none = .valueError ↔ T < h) := by
  unfold hamiltonGuard
  by_cases hh : h ≤ T
  · simp only [if_pos hh]
    refine ⟨⟨?_, ?_⟩, ⟨?_, ?_⟩⟩ <;> intro hx <;> first | trivial | omega | rfl | (exact hx.elim) | (cases hx) | (exact hh)
  · simp only [if_neg hh]
    refine ⟨⟨?_, ?_⟩, ⟨?_, ?_⟩⟩ <;> intro hx <;> first | trivial | omega | rfl | (exact hx.elim) | (cases hx)

/-- **with `p`**: the regression is reached exactly for `1 ≤ p + h ≤ T` (at least one row), `LinAlgError` exactly
    for `p + h = T + 1 ≥ 1` (zero rows), `ValueError` exactly for `p + h = 0` or `p + h > T + 1`; never `ok` -/
theorem hamiltonGuard_some (T h p : ℕ) :
    (hamiltonGuard T h (some p) = .regress ↔ 1 ≤ p + h ∧ p + h ≤ T) ∧
    (hamiltonGuard T h (some p) = .linAlgError ↔ 1 ≤ p + h ∧ p + h = T + 1) ∧
    (hamiltonGuard T h (some p) = .valueError ↔ p + h = 0 ∨ T + 1 < p + h) ∧
    hamiltonGuard T h (some p) ≠ .ok := by
  unfold hamiltonGuard
  by_cases h0 : p + h = 0
  · simp only [if_pos h0]
    refine ⟨⟨?_, ?_⟩, ⟨?_, ?_⟩, ⟨?_, ?_⟩, ?_⟩ <;> intro hx <;> first | trivial | omega | rfl | (exact hx.elim) | (cases hx) | (exact Or.inl h0)
  · by_cases h1 : T + 1 < p + h
    · simp only [if_neg h0, if_pos h1]
      refine ⟨⟨?_, ?_⟩, ⟨?_, ?_⟩, ⟨?_, ?_⟩, ?_⟩ <;> intro hx <;> first | trivial | omega | rfl | (exact hx.elim) | (cases hx) | (exact Or.inr h1)
    · by_cases h2 : T + 1 = p + h
      · simp only [if_neg h0, if_neg h1, if_pos h2]
        refine ⟨⟨?_, ?_⟩, ⟨?_, ?_⟩, ⟨?_, ?_⟩, ?_⟩ <;> intro hx <;> first | trivial | omega | rfl | (exact hx.elim) | (cases hx)
      · simp only [if_neg h0, if_neg h1, if_neg h2]
        refine ⟨⟨?_, ?_⟩, ⟨?_, ?_⟩, ⟨?_, ?_⟩, ?_⟩ <;> intro hx <;> first | trivial | omega | rfl | (exact hx.elim) | (cases hx)

/-- when the regression is reached, the lag matrix has `T − p − h + 1 ≥ 1` rows and, for **any** coefficient
    vector, both outputs have length `T` with exactly `p + h − 1 < T` leading `nan`s -/
theorem hamilton_regress_shape (y : List K) (h p : ℕ) (b : M K)
    (hg : hamiltonGuard y.length h (some p) = .regress) :
    (hamX y h p).nr = y.length + 1 - p - h ∧ 1 ≤ (hamX y h p).nr ∧ p + h - 1 < y.length ∧
    (hamiltonP y h p b).1.length = y.length ∧ (hamiltonP y h p b).2.length = y.length := by
  have hc := ((hamiltonGuard_some y.length h p).1).mp hg
  have hl := hamiltonP_length y h p b hc.1 (by omega)
  refine ⟨rfl, ?_, by omega, hl.1, hl.2⟩
  rw [hamX_nr]; omega

/-- in the `LinAlgError` branch the lag matrix has no rows, so the matrix `XᵀX` handed to `np.linalg.solve` is
    the zero matrix (hence singular) -/
theorem hamilton_zero_rows (y : List K) (h p : ℕ) (hg : hamiltonGuard y.length h (some p) = .linAlgError) :
    (hamX y h p).nr = 0 ∧ ∀ i j, i < p + 1 → j < p + 1 → (mmul (mT (hamX y h p)) (hamX y h p)).get i j = 0 := by
  have hc := ((hamiltonGuard_some y.length h p).2.1).mp hg
  have hnr : (hamX y h p).nr = 0 := by rw [hamX_nr]; omega
  refine ⟨hnr, ?_⟩
  intro i j hi hj
  rw [mmul_get _ _ _ _ (by simp [hamX_nc]; omega) (by rw [hamX_nc]; exact hj)]
  simp [hnr]

example : hamiltonGuard 6 2 (some 3) = .regress ∧ hamiltonGuard 6 4 (some 3) = .linAlgError ∧
    hamiltonGuard 6 5 (some 3) = .valueError ∧ hamiltonGuard 6 0 (some 0) = .valueError ∧
    hamiltonGuard 6 6 none = .ok ∧ hamiltonGuard 6 7 none = .valueError := by decide

/-- **`periodogram(x, window, window_len)`** on the `m` raw ordinates: it returns `m` smoothed ordinates exactly
    when `3 ≤ window_len ≤ m`, raises the "length" error exactly when `m < window_len`, and the "at least 3"
    error exactly when `window_len ≤ m` and `window_len < 3` (window of the right length) -/
theorem periodogramWindowed_spec (win : ℕ → List K) (hwin : ∀ m, (win m).length = m) (I : List K) (wl : ℕ) :
    ((∃ l, periodogramWindowed win I wl = .ok l ∧ l.length = I.length) ↔ (3 ≤ wl ∧ wl ≤ I.length)) ∧
    (periodogramWindowed win I wl = .error .tooShort ↔ I.length < wl) ∧
    (periodogramWindowed win I wl = .error .tooSmall ↔ wl ≤ I.length ∧ wl < 3) := by
  unfold periodogramWindowed
  have he := smooth_error_iff win I wl
  refine ⟨?_, he.1, he.2⟩
  constructor
  · rintro ⟨l, hl, _⟩
    by_contra hc
    by_cases h1 : I.length < wl
    · rw [he.1.mpr h1] at hl; cases hl
    · have h2 : wl ≤ I.length ∧ wl < 3 := by omega
      rw [he.2.mpr h2] at hl; cases hl
  · rintro ⟨h3, h1⟩
    exact smooth_length win hwin I wl h1 h3

/-- with `|I| = ⌊n/2⌋ + 1` (what `periodogram` keeps): the windowed periodogram of a series of length `n ≥ 1`
    succeeds exactly for `3 ≤ window_len ≤ ⌊n/2⌋ + 1` and then has `⌊n/2⌋ + 1` ordinates -/
theorem periodogram_windowed_count (win : ℕ → List K) (hwin : ∀ m, (win m).length = m) (I : List K) (n wl : ℕ)
    (hn : 0 < n) (hI : I.length = (pgramIdx n).length) :
    (∃ l, periodogramWindowed win I wl = .ok l ∧ l.length = n / 2 + 1) ↔ (3 ≤ wl ∧ wl ≤ n / 2 + 1) := by
  have hc := periodogram_count n hn
  have := (periodogramWindowed_spec win hwin I wl).1
  rw [hI, hc] at this
  exact this

example : (match periodogramWindowed flatWin [(9 : ℚ), 2, 1, 4, 3] 4 with
    | .ok l => l == [23/5, 5, 19/5, 13/5, 3]
    | .error _ => false) = true := by decide +kernel

end glue

/-! ## non-vacuity of the hypotheses used above (concrete instances over ℚ) -/

section nonvacuity

/-- hypotheses of `lorenz_monotone`, `lorenz_convex`, `gini_range`, `gini_eq_lorenz_area`, `gini_eq_mad` -/
example : (∀ v ∈ [(3 : ℚ), 1, 2], 0 ≤ v) ∧ (0 : ℚ) < [(3 : ℚ), 1, 2].sum ∧ [(3 : ℚ), 1, 2] ≠ [] := by
  refine ⟨?_, by norm_num, by simp⟩
  intro v hv
  simp only [List.mem_cons, List.not_mem_nil, or_false] at hv
  rcases hv with rfl | rfl | rfl <;> norm_num

/-- … and the conclusions on that sample: increments `1/6 ≤ 1/3 ≤ 1/2`, `gini = 1 − 2·(7/18)` -/
example : lorenzIncome [(3 : ℚ), 1, 2] = [0, 1/6, 1/2, 1] ∧ gini [(3 : ℚ), 1, 2] = 1 - (1 + 1) * (7 / 18) := by
  decide +kernel

/-- hypotheses of the BetaBinomial theorems (`a, b > 0`, `n > 0`) with an asymmetric, non-uniform instance -/
example : (0 : ℚ) < 1 / 2 ∧ (0 : ℚ) < 2 ∧ 0 < 5 ∧ (bbPdfList 5 (1/2 : ℚ) 2).sum = 1 ∧
    bbMoment 5 (1/2 : ℚ) 2 2 - bbMoment 5 (1/2 : ℚ) 2 1 * bbMoment 5 (1/2 : ℚ) 2 1 = 12 / 7 := by
  refine ⟨by norm_num, by norm_num, by norm_num, ?_, ?_⟩ <;> decide +kernel

/-- hypotheses of `psi_recursion` / `arma_impulse_unpadded_shift` (`0 < j < N`, `q < p`) on the F6 input -/
example : (psi [(1/2 : ℚ), -1/5, 1/10] [2/5] 5).getD 3 0
    = 0 + ((1/2 : ℚ) * (1/4) + (-1/5) * (9/10) + (1/10) * 1) ∧ [(2/5 : ℚ)].length < [(1/2 : ℚ), -1/5, 1/10].length := by
  refine ⟨by decide +kernel, by decide⟩

/-- hypotheses of `smooth_length` (`3 ≤ wl ≤ len x`, a window of the right length) and of `hamiltonNoP_spec` -/
example : (3 ≤ 4 ∧ 4 ≤ [(0 : ℚ), 1, 2, 3, 4, 5, 6, 7].length) ∧
    (hamiltonNoP [(0 : ℚ), 1, 4, 9, 16] 2).1 = [none, none, some 4, some 8, some 12] := by
  refine ⟨by decide, by decide +kernel⟩

end nonvacuity

end QE.C19
