/-
  Property C13 — AR(1) discretisations and chain estimation: theorems about QEModel.C13.

  Rouwenhorst: the recursion `row_build_mat` (as written, with the halving of interior rows)
  gives, for every n ≥ 2 and all p, q, a matrix whose row i is the law of a sum of n-1-i
  Bernoulli(1-p) and i Bernoulli(q) variables; consequences: rows sum to 1, entries are
  non-negative for p, q ∈ [0,1], conditional mean and variance on the code's grid are those of
  the AR(1).  Tauchen: for every Φ the rows telescope to 1 on an evenly spaced grid.
  estimate_mc: exact counting.

  Later rounds: the chain is positive (|ρ| < 1), Binomial(n-1,1/2) is its UNIQUE stationary law,
  k-step conditional mean and variance and the lag-k autocovariance are those of the AR(1) for
  every horizon; Tauchen cells are the mid-point (nearest-point) cells; estimate_mc's row total is
  the number of times the state is left and its entries lie in [0,1]; fit_discrete_mc's state
  values are exactly the nearest grid points (C16 theorems) and its P counts transitions between
  those points (row numbers ↦ grid points is injective on strictly increasing grids).
  discrete_var (its glue: default grid sizes, symmetric linspace grids, call of fit_discrete_mc,
  IndexError / ValueError branches) is modelled and characterised; its simulation and Lyapunov
  solve are external inputs.
  Not proved here: anything about `sqrt`/`erfc` themselves (parameters), floating-point rounding.
-/
import QEModel.C13
import QEProofs.Lemmas.C13Rouw
import QEProofs.Lemmas.C13Grid
import QEProofs.Lemmas.C13Tauchen
import QEProofs.Lemmas.C13Est
import QEProofs.Lemmas.C13Poly
import QEProofs.Lemmas.C13Out
import QEProofs.Lemmas.C13Unique
import QEProofs.Lemmas.C13FitInj
import QEProofs.Lemmas.C13DVar
import QEProofs.Properties.C16
namespace QE.C13
open QE Finset

/-! ## Rouwenhorst: the matrix -/

section rouw
variable {K : Type} [Field K] [LinearOrder K] [IsStrictOrderedRing K]

omit [LinearOrder K] [IsStrictOrderedRing K] in
/-- `row_build_mat(n, p, q)` raises exactly for `n < 2`. -/
theorem rowBuildMat_none_iff (n : ℕ) (p q : K) : rowBuildMat n p q = none ↔ n < 2 := by
  unfold rowBuildMat; split <;> simp_all

/-- **Generating function of every row** (all `n ≥ 2`, all `p, q, x`):
    `Σ_j Θ[i,j] x^j = (p + (1-p)x)^(n-1-i) (1-q+qx)^i`. -/
theorem rouwenhorst_row_genfun (n : ℕ) (p q x : K) (T : M K) (hT : rowBuildMat n p q = some T)
    (i : ℕ) (hi : i < n) :
    ∑ j ∈ range n, T.get i j * x ^ j = (p + (1 - p) * x) ^ (n - 1 - i) * (1 - q + q * x) ^ i := by
  unfold rowBuildMat at hT
  split at hT
  · simp at hT
  · obtain ⟨m, rfl⟩ : ∃ m, n = m + 2 := ⟨n - 2, by omega⟩
    simp only [Option.some.injEq, Nat.add_sub_cancel] at hT
    subst hT
    have h := rowE_genfun p q x m i hi
    have e : m + 2 - 1 - i = m + 1 - i := by omega
    rw [e]; exact h

/-- **Rows sum to one** (all `n ≥ 2`, all `p`, `q`). -/
theorem rouwenhorst_row_sums (n : ℕ) (p q : K) (T : M K) (hT : rowBuildMat n p q = some T)
    (i : ℕ) (hi : i < n) : ∑ j ∈ range n, T.get i j = 1 := by
  have h := rouwenhorst_row_genfun n p q 1 T hT i hi
  simpa using h

/-- **Conditional mean of the index**: `Σ_j Θ[i,j]·j = (n-1)(1-p) + i(p+q-1)`. -/
theorem rouwenhorst_cond_mean_index (n : ℕ) (p q : K) (T : M K) (hT : rowBuildMat n p q = some T)
    (i : ℕ) (hi : i < n) :
    ∑ j ∈ range n, T.get i j * (j : K) = ((n : K) - 1) * (1 - p) + (i : K) * (p + q - 1) := by
  unfold rowBuildMat at hT
  split at hT
  · simp at hT
  · obtain ⟨m, rfl⟩ : ∃ m, n = m + 2 := ⟨n - 2, by omega⟩
    simp only [Option.some.injEq, Nat.add_sub_cancel] at hT
    subst hT
    have h := rowE_id p q m i hi
    unfold rowE rowExp at h
    rw [h]; push_cast; ring

/-- **Conditional variance of the index**: `(n-1-i) p(1-p) + i q(1-q)`. -/
theorem rouwenhorst_cond_var_index (n : ℕ) (p q : K) (T : M K) (hT : rowBuildMat n p q = some T)
    (i : ℕ) (hi : i < n) :
    ∑ j ∈ range n, T.get i j * ((j : K) - (((n : K) - 1) * (1 - p) + (i : K) * (p + q - 1))) ^ 2
      = ((n : K) - 1 - i) * (p * (1 - p)) + (i : K) * (q * (1 - q)) := by
  unfold rowBuildMat at hT
  split at hT
  · simp at hT
  · obtain ⟨m, rfl⟩ : ∃ m, n = m + 2 := ⟨n - 2, by omega⟩
    simp only [Option.some.injEq, Nat.add_sub_cancel] at hT
    subst hT
    have h0 := rowE_one p q m i hi
    have h1 := rowE_id p q m i hi
    have h2 := rowE_sq p q m i hi
    unfold rowE rowExp at h0 h1 h2
    set c : K := (((m + 2 : ℕ) : K) - 1) * (1 - p) + (i : K) * (p + q - 1) with hc
    have e : ∀ j : ℕ, (rouwMat p q m).get i j * ((j : K) - c) ^ 2
        = (rouwMat p q m).get i j * (j : K) ^ 2 - 2 * c * ((rouwMat p q m).get i j * (j : K))
          + c ^ 2 * ((rouwMat p q m).get i j * 1) := by intro j; ring
    simp only [e, sum_add_distrib, sum_sub_distrib, ← mul_sum]
    rw [h0, h1, h2, hc]; push_cast; ring

/-- **Non-negativity** for `p, q ∈ [0,1]` (all `n ≥ 2`). -/
theorem rouwenhorst_nonneg (n : ℕ) (p q : K) (hp0 : 0 ≤ p) (hp1 : p ≤ 1) (hq0 : 0 ≤ q) (hq1 : q ≤ 1)
    (T : M K) (hT : rowBuildMat n p q = some T) (i j : ℕ) (hi : i < n) (hj : j < n) :
    0 ≤ T.get i j := by
  unfold rowBuildMat at hT
  split at hT
  · simp at hT
  · obtain ⟨m, rfl⟩ : ∃ m, n = m + 2 := ⟨n - 2, by omega⟩
    simp only [Option.some.injEq, Nat.add_sub_cancel] at hT
    subst hT
    exact rouwMat_nonneg p q hp0 hp1 hq0 hq1 m i j hi hj

/-- non-vacuity: `row_build_mat(3, 1/3, 3/4)` exists, rows sum to one, middle row is halved -/
example : ∃ T : M ℚ, rowBuildMat 3 (1/3 : ℚ) (3/4) = some T ∧ T.get 1 1 = 5/12 ∧
    T.get 1 0 + T.get 1 1 + T.get 1 2 = 1 := by
  refine ⟨rouwMat (1/3) (3/4) 1, rfl, ?_, ?_⟩
  · rw [rouwMat_get_succ _ _ 0 1 1 (by omega) (by omega)]
    unfold rouwStepFn
    simp [rouwMat_get_zero, rouwBaseFn]; norm_num
  · rw [rouwMat_get_succ _ _ 0 1 0 (by omega) (by omega), rouwMat_get_succ _ _ 0 1 1 (by omega) (by omega),
      rouwMat_get_succ _ _ 0 1 2 (by omega) (by omega)]
    unfold rouwStepFn
    simp [rouwMat_get_zero, rouwBaseFn]; norm_num

/-! ## Rouwenhorst: conditional moments on the code's grid -/

omit [IsStrictOrderedRing K] in
/-- `rouwenhorst` returns the matrix of `row_build_mat(n, (1+ρ)/2, (1+ρ)/2)` and the grid -/
theorem rouwenhorst_eq (sqrt : K → K) (n : ℕ) (rho sigma mu : K) (T : M K) (g : List K)
    (h : rouwenhorst sqrt n rho sigma mu = some (T, g)) :
    rowBuildMat n ((1 + rho) / 2) ((1 + rho) / 2) = some T ∧ g = rouwGrid sqrt n rho sigma mu := by
  unfold rouwenhorst at h
  have h2 : ((1 : K) + 1) = 2 := by norm_num
  simp only [h2] at h
  split at h
  · simp at h
  · rename_i th hth
    simp only [Option.some.injEq, Prod.mk.injEq] at h
    rw [hth, h.1]; exact ⟨rfl, h.2.symm⟩

/-- **Valid stochastic matrix** for every `n ≥ 2` and every `ρ ∈ [-1, 1]` (rows sum to one for
    every `ρ`). -/
theorem rouwenhorst_stochastic (sqrt : K → K) (n : ℕ) (rho sigma mu : K) (h1 : -1 ≤ rho) (h2 : rho ≤ 1)
    (T : M K) (g : List K) (h : rouwenhorst sqrt n rho sigma mu = some (T, g)) (i : ℕ) (hi : i < n) :
    ∑ j ∈ range n, T.get i j = 1 ∧ ∀ j, j < n → 0 ≤ T.get i j := by
  obtain ⟨hT, _⟩ := rouwenhorst_eq sqrt n rho sigma mu T g h
  refine ⟨rouwenhorst_row_sums n _ _ T hT i hi, fun j hj => ?_⟩
  have hp0 : 0 ≤ (1 + rho) / 2 := by linarith
  have hp1 : (1 + rho) / 2 ≤ 1 := by linarith
  exact rouwenhorst_nonneg n _ _ hp0 hp1 hp0 hp1 T hT i j hi hj

/-- **All transition probabilities are strictly positive** for every `n ≥ 2` and `|ρ| < 1`
    (every state reaches every state in one step: the chain is irreducible and aperiodic). -/
theorem rouwenhorst_pos (sqrt : K → K) (n : ℕ) (rho sigma mu : K) (h1 : -1 < rho) (h2 : rho < 1)
    (T : M K) (g : List K) (h : rouwenhorst sqrt n rho sigma mu = some (T, g)) (i j : ℕ)
    (hi : i < n) (hj : j < n) : 0 < T.get i j := by
  obtain ⟨hT, _⟩ := rouwenhorst_eq sqrt n rho sigma mu T g h
  unfold rowBuildMat at hT
  split at hT
  · simp at hT
  · obtain ⟨m, rfl⟩ : ∃ m, n = m + 2 := ⟨n - 2, by omega⟩
    simp only [Option.some.injEq, Nat.add_sub_cancel] at hT
    subst hT
    have hp0 : 0 < (1 + rho) / 2 := by linarith
    have hp1 : (1 + rho) / 2 < 1 := by linarith
    exact rouwMat_pos _ _ hp0 hp1 hp0 hp1 m i j hi hj

/-- non-vacuity: `ρ = 3/5`, `n = 4` (any `sqrt`) -/
example : (-1 : ℚ) < 3/5 ∧ (3/5 : ℚ) < 1 ∧ (rouwenhorst (fun _ : ℚ => 1) 4 (3/5) 1 0).isSome = true := by
  decide +kernel

/-- **Conditional mean is that of the AR(1)** at every grid point, for every `n ≥ 2`, every
    `ρ ≠ 1`, and *whatever* the external `sqrt` returns: `E[y' | y_i] = μ + ρ y_i`. -/
theorem rouwenhorst_cond_mean (sqrt : K → K) (n : ℕ) (rho sigma mu : K) (hrho : rho ≠ 1)
    (T : M K) (g : List K) (h : rouwenhorst sqrt n rho sigma mu = some (T, g)) (i : ℕ) (hi : i < n) :
    ∑ j ∈ range n, T.get i j * g.getD j 0 = mu + rho * g.getD i 0 := by
  obtain ⟨hT, rfl⟩ := rouwenhorst_eq sqrt n rho sigma mu T g h
  have hn : 2 ≤ n := by
    by_contra hc
    rw [(rowBuildMat_none_iff n _ _).mpr (by omega)] at hT; simp at hT
  have h0 := rouwenhorst_row_sums n _ _ T hT i hi
  have h1 := rouwenhorst_cond_mean_index n _ _ T hT i hi
  set ψ : K := ySd sqrt rho sigma * sqrt (((n - 1 : ℕ)) : K) with hψ
  have hne : (n : K) - 1 ≠ 0 := by
    have : (2 : K) ≤ (n : K) := by exact_mod_cast hn
    intro h0; linarith
  have hr : 1 - rho ≠ 0 := fun h => hrho (by linarith)
  have e : ∀ j ∈ range n, T.get i j * (rouwGrid sqrt n rho sigma mu).getD j 0
      = (-ψ + mu / (1 - rho)) * T.get i j + ((ψ - -ψ) / ((n : K) - 1)) * (T.get i j * (j : K)) := by
    intro j hj
    rw [rouwGrid_getD sqrt n hn rho sigma mu j (mem_range.mp hj)]
    ring
  rw [sum_congr rfl e, sum_add_distrib, ← mul_sum, ← mul_sum, h0, h1,
    rouwGrid_getD sqrt n hn rho sigma mu i hi]
  field_simp
  ring

/-- **Conditional variance is `σ²`** at every grid point, given that the external `sqrt`
    returned exact square roots of its two arguments `σ²/(1-ρ²)` and `n-1`. -/
theorem rouwenhorst_cond_var (sqrt : K → K) (n : ℕ) (rho sigma mu : K) (hrho : rho ≠ 1)
    (hrho2 : 1 - rho * rho ≠ 0)
    (hs1 : ySd sqrt rho sigma * ySd sqrt rho sigma = sigma * sigma / (1 - rho * rho))
    (hs2 : sqrt (((n - 1 : ℕ)) : K) * sqrt (((n - 1 : ℕ)) : K) = (((n - 1 : ℕ)) : K))
    (T : M K) (g : List K) (h : rouwenhorst sqrt n rho sigma mu = some (T, g)) (i : ℕ) (hi : i < n) :
    ∑ j ∈ range n, T.get i j * (g.getD j 0 - (mu + rho * g.getD i 0)) ^ 2 = sigma * sigma := by
  obtain ⟨hT, rfl⟩ := rouwenhorst_eq sqrt n rho sigma mu T g h
  have hn : 2 ≤ n := by
    by_contra hc
    rw [(rowBuildMat_none_iff n _ _).mpr (by omega)] at hT; simp at hT
  have h2 := rouwenhorst_cond_var_index n _ _ T hT i hi
  have hc : (((n - 1 : ℕ)) : K) = (n : K) - 1 := by
    rw [Nat.cast_sub (by omega)]; simp
  set ψ : K := ySd sqrt rho sigma * sqrt (((n - 1 : ℕ)) : K) with hψ
  have hψ2 : ψ * ψ = sigma * sigma / (1 - rho * rho) * ((n : K) - 1) := by
    rw [← hc, ← hs1, ← hs2, hψ]; ring
  have hne : (n : K) - 1 ≠ 0 := by
    have : (2 : K) ≤ (n : K) := by exact_mod_cast hn
    intro h0; linarith
  have hr : 1 - rho ≠ 0 := fun h => hrho (by linarith)
  have e : ∀ j ∈ range n, T.get i j * ((rouwGrid sqrt n rho sigma mu).getD j 0
        - (mu + rho * (rouwGrid sqrt n rho sigma mu).getD i 0)) ^ 2
      = ((ψ - -ψ) / ((n : K) - 1)) ^ 2 * (T.get i j * ((j : K) - (((n : K) - 1) * (1 - (1 + rho) / 2)
          + (i : K) * ((1 + rho) / 2 + (1 + rho) / 2 - 1))) ^ 2) := by
    intro j hj
    rw [rouwGrid_getD sqrt n hn rho sigma mu j (mem_range.mp hj),
      rouwGrid_getD sqrt n hn rho sigma mu i hi]
    field_simp
    ring
  rw [sum_congr rfl e, ← mul_sum, h2]
  have hfin : ((ψ - -ψ) / ((n : K) - 1)) ^ 2 * (((n : K) - 1 - i) * ((1 + rho) / 2 * (1 - (1 + rho) / 2))
      + (i : K) * ((1 + rho) / 2 * (1 - (1 + rho) / 2)))
      = (ψ * ψ) * (1 - rho * rho) / ((n : K) - 1) := by
    field_simp
    ring
  have hrho2' : 1 - rho ^ 2 ≠ 0 := by rwa [pow_two]
  rw [hfin, hψ2]
  field_simp

/-- **Grid**: `n` evenly spaced points `μ/(1-ρ) - ψ + 2ψ j/(n-1)` whose half width satisfies
    `ψ² = σ²(n-1)/(1-ρ²)` when the two external square roots are exact. -/
theorem rouwenhorst_grid (sqrt : K → K) (n : ℕ) (hn : 2 ≤ n) (rho sigma mu : K)
    (hs1 : ySd sqrt rho sigma * ySd sqrt rho sigma = sigma * sigma / (1 - rho * rho))
    (hs2 : sqrt (((n - 1 : ℕ)) : K) * sqrt (((n - 1 : ℕ)) : K) = (((n - 1 : ℕ)) : K)) :
    ∃ ψ : K, ψ * ψ = sigma * sigma * ((n : K) - 1) / (1 - rho * rho) ∧
      ∀ j, j < n → (rouwGrid sqrt n rho sigma mu).getD j 0
        = mu / (1 - rho) - ψ + 2 * ψ * (j : K) / ((n : K) - 1) := by
  have hc : (((n - 1 : ℕ)) : K) = (n : K) - 1 := by
    rw [Nat.cast_sub (by omega)]; simp
  refine ⟨ySd sqrt rho sigma * sqrt (((n - 1 : ℕ)) : K), ?_, ?_⟩
  · have : ySd sqrt rho sigma * sqrt (((n - 1 : ℕ)) : K) * (ySd sqrt rho sigma * sqrt (((n - 1 : ℕ)) : K))
        = (ySd sqrt rho sigma * ySd sqrt rho sigma) * (sqrt (((n - 1 : ℕ)) : K) * sqrt (((n - 1 : ℕ)) : K)) := by ring
    rw [this, hs1, hs2, hc]; ring
  · intro j hj
    rw [rouwGrid_getD sqrt n hn rho sigma mu j hj]
    ring

/-! ## Rouwenhorst: stationary law and unconditional variance -/

/-- **Binomial(n-1, 1/2) is stationary** whenever `p = q` (so for every `ρ`), all `n ≥ 2`:
    `Σ_i π_i Θ[i,j] = π_j` with `π_i = C(n-1,i)/2^(n-1)`. -/
theorem rouwenhorst_stationary (n : ℕ) (p : K) (T : M K) (hT : rowBuildMat n p p = some T)
    (j : ℕ) (hj : j < n) :
    ∑ i ∈ range n, ((Nat.choose (n - 1) i : K) / 2 ^ (n - 1)) * T.get i j
      = (Nat.choose (n - 1) j : K) / 2 ^ (n - 1) := by
  unfold rowBuildMat at hT
  split at hT
  · simp at hT
  · obtain ⟨m, rfl⟩ : ∃ m, n = m + 2 := ⟨n - 2, by omega⟩
    simp only [Option.some.injEq, Nat.add_sub_cancel] at hT
    subst hT
    exact rouwMat_stationary p m j hj

/-- **Unconditional mean and variance** of the chain under its stationary law on the code's
    grid: mean `μ/(1-ρ)` (whatever `sqrt` returns) and variance `σ²/(1-ρ²)` (given exact roots). -/
theorem rouwenhorst_uncond_moments (sqrt : K → K) (n : ℕ) (hn : 2 ≤ n) (rho sigma mu : K)
    (hs1 : ySd sqrt rho sigma * ySd sqrt rho sigma = sigma * sigma / (1 - rho * rho))
    (hs2 : sqrt (((n - 1 : ℕ)) : K) * sqrt (((n - 1 : ℕ)) : K) = (((n - 1 : ℕ)) : K)) :
    let g := rouwGrid sqrt n rho sigma mu
    let π := fun j : ℕ => (Nat.choose (n - 1) j : K) / 2 ^ (n - 1)
    ∑ j ∈ range n, π j * g.getD j 0 = mu / (1 - rho) ∧
    ∑ j ∈ range n, π j * (g.getD j 0 - mu / (1 - rho)) ^ 2 = sigma * sigma / (1 - rho * rho) := by
  intro g π
  obtain ⟨m, rfl⟩ : ∃ m, n = m + 2 := ⟨n - 2, by omega⟩
  have hT : rowBuildMat (m + 2) (1 / 2 : K) (1 / 2) = some (rouwMat (1 / 2) (1 / 2) m) := by
    unfold rowBuildMat; simp
  have h0 := rouwenhorst_row_sums (m + 2) _ _ _ hT 0 (by omega)
  have h1 := rouwenhorst_cond_mean_index (m + 2) _ _ _ hT 0 (by omega)
  have h2 := rouwenhorst_cond_var_index (m + 2) _ _ _ hT 0 (by omega)
  have hπ : ∀ j ∈ range (m + 2), π j = (rouwMat (1 / 2 : K) (1 / 2) m).get 0 j := by
    intro j hj
    exact binom_eq_row m 0 j (by omega) (mem_range.mp hj)
  have hc : (((m + 2 - 1 : ℕ)) : K) = ((m + 2 : ℕ) : K) - 1 := by
    rw [Nat.cast_sub (by omega)]; simp
  set ψ : K := ySd sqrt rho sigma * sqrt (((m + 2 - 1 : ℕ)) : K) with hψ
  have hψ2 : ψ * ψ = sigma * sigma / (1 - rho * rho) * (((m + 2 : ℕ) : K) - 1) := by
    rw [← hc, ← hs1, ← hs2, hψ]; ring
  have hne : ((m + 2 : ℕ) : K) - 1 ≠ 0 := by
    have : (2 : K) ≤ ((m + 2 : ℕ) : K) := by exact_mod_cast hn
    intro h0; linarith
  constructor
  · have e : ∀ j ∈ range (m + 2), π j * g.getD j 0
        = (-ψ + mu / (1 - rho)) * (rouwMat (1 / 2 : K) (1 / 2) m).get 0 j
          + ((ψ - -ψ) / (((m + 2 : ℕ) : K) - 1)) * ((rouwMat (1 / 2 : K) (1 / 2) m).get 0 j * (j : K)) := by
      intro j hj
      rw [hπ j hj, rouwGrid_getD sqrt (m + 2) hn rho sigma mu j (mem_range.mp hj)]
      ring
    rw [sum_congr rfl e, sum_add_distrib, ← mul_sum, ← mul_sum, h0, h1]
    field_simp
    ring
  · have e : ∀ j ∈ range (m + 2), π j * (g.getD j 0 - mu / (1 - rho)) ^ 2
        = ((ψ - -ψ) / (((m + 2 : ℕ) : K) - 1)) ^ 2 * ((rouwMat (1 / 2 : K) (1 / 2) m).get 0 j
            * ((j : K) - ((((m + 2 : ℕ) : K) - 1) * (1 - 1 / 2) + ((0 : ℕ) : K) * (1 / 2 + 1 / 2 - 1))) ^ 2) := by
      intro j hj
      rw [hπ j hj, rouwGrid_getD sqrt (m + 2) hn rho sigma mu j (mem_range.mp hj)]
      field_simp
      ring
    rw [sum_congr rfl e, ← mul_sum, h2]
    have hfin : ((ψ - -ψ) / (((m + 2 : ℕ) : K) - 1)) ^ 2 * ((((m + 2 : ℕ) : K) - 1 - ((0 : ℕ) : K)) * (1 / 2 * (1 - 1 / 2))
        + ((0 : ℕ) : K) * (1 / 2 * (1 - 1 / 2)))
        = (ψ * ψ) / (((m + 2 : ℕ) : K) - 1) := by
      field_simp
      ring
    rw [hfin, hψ2]
    field_simp

/-- **Binomial(n-1, 1/2) is THE stationary law** for `|ρ| < 1`: any vector `π` of total mass one
    with `π Θ = π` is the binomial law (positivity of all entries + `rouwenhorst_stationary`);
    no sign condition on `π` is needed. All `n ≥ 2`. -/
theorem rouwenhorst_stationary_unique (sqrt : K → K) (n : ℕ) (rho sigma mu : K) (h1 : -1 < rho)
    (h2 : rho < 1) (T : M K) (g : List K) (h : rouwenhorst sqrt n rho sigma mu = some (T, g))
    (π : ℕ → K) (hπ : ∀ j, j < n → ∑ i ∈ range n, π i * T.get i j = π j)
    (hmass : ∑ i ∈ range n, π i = 1) :
    ∀ i, i < n → π i = (Nat.choose (n - 1) i : K) / 2 ^ (n - 1) := by
  obtain ⟨hT, _⟩ := rouwenhorst_eq sqrt n rho sigma mu T g h
  have hn : 2 ≤ n := by
    by_contra hc
    rw [(rowBuildMat_none_iff n _ _).mpr (by omega)] at hT; simp at hT
  refine stationary_unique n T.get
    (fun i j hi hj => rouwenhorst_pos sqrt n rho sigma mu h1 h2 T g h i j hi hj)
    (fun i hi => rouwenhorst_row_sums n _ _ T hT i hi) π _ hπ
    (fun j hj => rouwenhorst_stationary n _ T hT j hj) ?_
  -- the binomial weights have total mass one
  rw [hmass]
  obtain ⟨m, rfl⟩ : ∃ m, n = m + 2 := ⟨n - 2, by omega⟩
  have hb : ∀ j ∈ range (m + 2), (Nat.choose (m + 2 - 1) j : K) / 2 ^ (m + 2 - 1)
      = (rouwMat (1 / 2 : K) (1 / 2) m).get 0 j := fun j hj =>
    binom_eq_row m 0 j (by omega) (mem_range.mp hj)
  rw [sum_congr rfl hb]
  have hT' : rowBuildMat (m + 2) (1 / 2 : K) (1 / 2) = some (rouwMat (1 / 2) (1 / 2) m) := by
    unfold rowBuildMat; simp
  exact (rouwenhorst_row_sums (m + 2) _ _ _ hT' 0 (by omega)).symm

/-- non-vacuity: for `n = 2`, `ρ = 1/2` the law `(1/2, 1/2)` is stationary with mass one -/
example : ∃ T g, rouwenhorst (fun _ : ℚ => 1) 2 (1/2 : ℚ) 1 0 = some (T, g) ∧
    (1/2 : ℚ) * T.get 0 0 + (1/2) * T.get 1 0 = 1/2 ∧ (1/2 : ℚ) * T.get 0 1 + (1/2) * T.get 1 1 = 1/2 :=
  ⟨_, _, rfl, by decide +kernel, by decide +kernel⟩

/-- `k`-step conditional expectation of the state value under the chain `(T, g)`:
    `kStepMean T g n 0 i = g[i]`, `kStepMean T g n (k+1) i = Σ_j T[i,j] · kStepMean T g n k j` -/
def kStepMean (T : M K) (g : List K) (n : ℕ) : ℕ → ℕ → K
  | 0, i => g.getD i 0
  | k + 1, i => ∑ j ∈ range n, T.get i j * kStepMean T g n k j

/-- **Impulse response at every horizon.** For every `n ≥ 2`, `ρ ≠ 1`, every horizon `k` and
    every grid point: `E[y_{t+k} | y_t = y_i] = m + ρ^k (y_i - m)`, `m = μ/(1-ρ)` — exactly the
    AR(1) forecast (whatever `sqrt` returns). -/
theorem rouwenhorst_k_step_mean (sqrt : K → K) (n : ℕ) (rho sigma mu : K) (hrho : rho ≠ 1)
    (T : M K) (g : List K) (h : rouwenhorst sqrt n rho sigma mu = some (T, g)) (k i : ℕ) (hi : i < n) :
    kStepMean T g n k i = mu / (1 - rho) + rho ^ k * (g.getD i 0 - mu / (1 - rho)) := by
  obtain ⟨hT, _⟩ := rouwenhorst_eq sqrt n rho sigma mu T g h
  have hr : 1 - rho ≠ 0 := fun h => hrho (by linarith)
  induction k generalizing i with
  | zero => simp [kStepMean]
  | succ k ih =>
    have h0 := rouwenhorst_row_sums n _ _ T hT i hi
    have h1 := rouwenhorst_cond_mean sqrt n rho sigma mu hrho T g h i hi
    have e : ∀ j ∈ range n, T.get i j * kStepMean T g n k j
        = (mu / (1 - rho) - rho ^ k * (mu / (1 - rho))) * T.get i j
          + rho ^ k * (T.get i j * g.getD j 0) := by
      intro j hj
      rw [ih j (mem_range.mp hj)]; ring
    show ∑ j ∈ range n, T.get i j * kStepMean T g n k j = _
    rw [sum_congr rfl e, sum_add_distrib, ← mul_sum, ← mul_sum, h0, h1]
    field_simp
    ring

/-- non-vacuity: `n = 2`, `ρ = 1/2`, `σ = 1`, `μ = 0`, `sqrt ≡ 1` (grid `-1, 1`): two steps ahead
    from `y_0 = -1` the forecast is `ρ² y_0 = -1/4` -/
example : ∃ T g, rouwenhorst (fun _ : ℚ => 1) 2 (1/2 : ℚ) 1 0 = some (T, g) ∧ g.getD 0 0 = -1 ∧
    kStepMean T g 2 2 0 = -1/4 :=
  ⟨_, _, rfl, by decide +kernel, by decide +kernel⟩

/-- `k`-step conditional second moment of the state value under the chain `(T, g)` -/
def kStepSq (T : M K) (g : List K) (n : ℕ) : ℕ → ℕ → K
  | 0, i => g.getD i 0 ^ 2
  | k + 1, i => ∑ j ∈ range n, T.get i j * kStepSq T g n k j

/-- one-step conditional second moment: `E[y'² | y_i] = σ² + (μ + ρ y_i)²` -/
theorem rouwenhorst_cond_second_moment (sqrt : K → K) (n : ℕ) (rho sigma mu : K) (hrho : rho ≠ 1)
    (hrho2 : 1 - rho * rho ≠ 0)
    (hs1 : ySd sqrt rho sigma * ySd sqrt rho sigma = sigma * sigma / (1 - rho * rho))
    (hs2 : sqrt (((n - 1 : ℕ)) : K) * sqrt (((n - 1 : ℕ)) : K) = (((n - 1 : ℕ)) : K))
    (T : M K) (g : List K) (h : rouwenhorst sqrt n rho sigma mu = some (T, g)) (i : ℕ) (hi : i < n) :
    ∑ j ∈ range n, T.get i j * g.getD j 0 ^ 2 = sigma * sigma + (mu + rho * g.getD i 0) ^ 2 := by
  obtain ⟨hT, _⟩ := rouwenhorst_eq sqrt n rho sigma mu T g h
  have h0 := rouwenhorst_row_sums n _ _ T hT i hi
  have h1 := rouwenhorst_cond_mean sqrt n rho sigma mu hrho T g h i hi
  have h2 := rouwenhorst_cond_var sqrt n rho sigma mu hrho hrho2 hs1 hs2 T g h i hi
  set c := mu + rho * g.getD i 0 with hc
  have e : ∀ j ∈ range n, T.get i j * (g.getD j 0 - c) ^ 2
      = T.get i j * g.getD j 0 ^ 2 - 2 * c * (T.get i j * g.getD j 0) + c ^ 2 * T.get i j := by
    intro j _; ring
  rw [sum_congr rfl e, sum_add_distrib, sum_sub_distrib, ← mul_sum, ← mul_sum, h0, h1] at h2
  linarith

/-- **Conditional variance at every horizon is that of the AR(1).** For every `n ≥ 2`, every
    horizon `k` and every grid point (given exact square roots):
    `E[y_{t+k}² | y_i] - (E[y_{t+k} | y_i])² = σ² (1 + ρ² + … + ρ^{2(k-1)})`. -/
theorem rouwenhorst_k_step_var (sqrt : K → K) (n : ℕ) (rho sigma mu : K) (hrho : rho ≠ 1)
    (hrho2 : 1 - rho * rho ≠ 0)
    (hs1 : ySd sqrt rho sigma * ySd sqrt rho sigma = sigma * sigma / (1 - rho * rho))
    (hs2 : sqrt (((n - 1 : ℕ)) : K) * sqrt (((n - 1 : ℕ)) : K) = (((n - 1 : ℕ)) : K))
    (T : M K) (g : List K) (h : rouwenhorst sqrt n rho sigma mu = some (T, g)) (k i : ℕ) (hi : i < n) :
    kStepSq T g n k i - kStepMean T g n k i ^ 2
      = sigma * sigma * ∑ l ∈ range k, (rho ^ 2) ^ l := by
  obtain ⟨hT, _⟩ := rouwenhorst_eq sqrt n rho sigma mu T g h
  have hr : 1 - rho ≠ 0 := fun h => hrho (by linarith)
  -- closed form of the second moment, by induction on the horizon
  have key : ∀ k i, i < n → kStepSq T g n k i
      = (mu / (1 - rho) + rho ^ k * (g.getD i 0 - mu / (1 - rho))) ^ 2
        + sigma * sigma * ∑ l ∈ range k, (rho ^ 2) ^ l := by
    intro k
    induction k with
    | zero => intro i _; simp [kStepSq]
    | succ k ih =>
      intro i hi
      have h0 := rouwenhorst_row_sums n _ _ T hT i hi
      have h1 := rouwenhorst_cond_mean sqrt n rho sigma mu hrho T g h i hi
      have h2 := rouwenhorst_cond_second_moment sqrt n rho sigma mu hrho hrho2 hs1 hs2 T g h i hi
      set m := mu / (1 - rho) with hm
      set c := sigma * sigma * ∑ l ∈ range k, (rho ^ 2) ^ l with hc
      have e : ∀ j ∈ range n, T.get i j * kStepSq T g n k j
          = ((m - rho ^ k * m) ^ 2 + c) * T.get i j
            + 2 * (m - rho ^ k * m) * rho ^ k * (T.get i j * g.getD j 0)
            + (rho ^ k) ^ 2 * (T.get i j * g.getD j 0 ^ 2) := by
        intro j hj
        rw [ih j (mem_range.mp hj)]; ring
      show ∑ j ∈ range n, T.get i j * kStepSq T g n k j = _
      rw [sum_congr rfl e, sum_add_distrib, sum_add_distrib, ← mul_sum, ← mul_sum, ← mul_sum,
        h0, h1, h2, sum_range_succ]
      have hmu : mu = m * (1 - rho) := by rw [hm]; field_simp
      rw [hmu]
      ring
  rw [key k i hi, rouwenhorst_k_step_mean sqrt n rho sigma mu hrho T g h k i hi]
  ring

/-- non-vacuity: `n = 2`, `ρ = 3/5`, `σ = 4/5` (`σ²/(1-ρ²) = 1 = n-1`, so `sqrt ≡ 1` is exact): the
    two-step conditional variance is `σ²(1 + ρ²) = 544/625` -/
example : ∃ T g, rouwenhorst (fun _ : ℚ => 1) 2 (3/5 : ℚ) (4/5) 0 = some (T, g) ∧
    ySd (fun _ : ℚ => 1) (3/5) (4/5) * ySd (fun _ : ℚ => 1) (3/5) (4/5) = (4/5) * (4/5) / (1 - (3/5) * (3/5)) ∧
    kStepSq T g 2 2 0 - kStepMean T g 2 2 0 ^ 2 = 544/625 :=
  ⟨_, _, rfl, by decide +kernel, by decide +kernel⟩

/-- **Autocovariance at every lag** under the stationary Binomial law: `ρ^k σ²/(1-ρ²)`. -/
theorem rouwenhorst_autocovariance_lag (sqrt : K → K) (n : ℕ) (rho sigma mu : K) (hrho : rho ≠ 1)
    (hs1 : ySd sqrt rho sigma * ySd sqrt rho sigma = sigma * sigma / (1 - rho * rho))
    (hs2 : sqrt (((n - 1 : ℕ)) : K) * sqrt (((n - 1 : ℕ)) : K) = (((n - 1 : ℕ)) : K))
    (T : M K) (g : List K) (h : rouwenhorst sqrt n rho sigma mu = some (T, g)) (k : ℕ) :
    ∑ i ∈ range n, ((Nat.choose (n - 1) i : K) / 2 ^ (n - 1)) *
        ((g.getD i 0 - mu / (1 - rho)) * (kStepMean T g n k i - mu / (1 - rho)))
      = rho ^ k * (sigma * sigma / (1 - rho * rho)) := by
  obtain ⟨hT, hg⟩ := rouwenhorst_eq sqrt n rho sigma mu T g h
  have hn : 2 ≤ n := by
    by_contra hc
    rw [(rowBuildMat_none_iff n _ _).mpr (by omega)] at hT; simp at hT
  have hinner : ∀ i ∈ range n, ((Nat.choose (n - 1) i : K) / 2 ^ (n - 1)) *
        ((g.getD i 0 - mu / (1 - rho)) * (kStepMean T g n k i - mu / (1 - rho)))
      = rho ^ k * (((Nat.choose (n - 1) i : K) / 2 ^ (n - 1)) * (g.getD i 0 - mu / (1 - rho)) ^ 2) := by
    intro i hi
    rw [rouwenhorst_k_step_mean sqrt n rho sigma mu hrho T g h k i (mem_range.mp hi)]
    ring
  rw [sum_congr rfl hinner, ← mul_sum]
  have hv := (rouwenhorst_uncond_moments sqrt n hn rho sigma mu hs1 hs2).2
  simp only [] at hv
  rw [hg, hv]

/-- **First-order autocovariance (persistence) of the chain is that of the AR(1).** Under the
    stationary Binomial(n-1, 1/2) law, `E[(y_t - m)(y_{t+1} - m)] = ρ σ²/(1-ρ²)` with
    `m = μ/(1-ρ)`; together with `rouwenhorst_uncond_moments` the autocorrelation is exactly `ρ`,
    for every `n ≥ 2`. -/
theorem rouwenhorst_autocovariance (sqrt : K → K) (n : ℕ) (rho sigma mu : K) (hrho : rho ≠ 1)
    (hs1 : ySd sqrt rho sigma * ySd sqrt rho sigma = sigma * sigma / (1 - rho * rho))
    (hs2 : sqrt (((n - 1 : ℕ)) : K) * sqrt (((n - 1 : ℕ)) : K) = (((n - 1 : ℕ)) : K))
    (T : M K) (g : List K) (h : rouwenhorst sqrt n rho sigma mu = some (T, g)) :
    ∑ i ∈ range n, ((Nat.choose (n - 1) i : K) / 2 ^ (n - 1)) *
        ((g.getD i 0 - mu / (1 - rho)) * ∑ j ∈ range n, T.get i j * (g.getD j 0 - mu / (1 - rho)))
      = rho * (sigma * sigma / (1 - rho * rho)) := by
  obtain ⟨hT, hg⟩ := rouwenhorst_eq sqrt n rho sigma mu T g h
  have hn : 2 ≤ n := by
    by_contra hc
    rw [(rowBuildMat_none_iff n _ _).mpr (by omega)] at hT; simp at hT
  have hr : 1 - rho ≠ 0 := fun h => hrho (by linarith)
  have hinner : ∀ i ∈ range n, ((Nat.choose (n - 1) i : K) / 2 ^ (n - 1)) *
        ((g.getD i 0 - mu / (1 - rho)) * ∑ j ∈ range n, T.get i j * (g.getD j 0 - mu / (1 - rho)))
      = rho * (((Nat.choose (n - 1) i : K) / 2 ^ (n - 1)) * (g.getD i 0 - mu / (1 - rho)) ^ 2) := by
    intro i hi
    have hi' := mem_range.mp hi
    have h0 := rouwenhorst_row_sums n _ _ T hT i hi'
    have h1 := rouwenhorst_cond_mean sqrt n rho sigma mu hrho T g h i hi'
    have e : ∑ j ∈ range n, T.get i j * (g.getD j 0 - mu / (1 - rho))
        = (mu + rho * g.getD i 0) - mu / (1 - rho) := by
      simp only [mul_sub, sum_sub_distrib, ← sum_mul, h0, h1, one_mul]
    rw [e]
    field_simp
    ring
  rw [sum_congr rfl hinner, ← mul_sum]
  have hv := (rouwenhorst_uncond_moments sqrt n hn rho sigma mu hs1 hs2).2
  simp only [] at hv
  rw [hg, hv]

/-- non-vacuity of the hypotheses of `rouwenhorst_cond_var` / `rouwenhorst_cond_mean`:
    `ρ = 3/5`, `σ = 4/5` (so `σ²/(1-ρ²) = 1`), `n = 5` (so `n-1 = 4`), `μ = 1`, with a `sqrt`
    that is exact on these two arguments -/
example : (3/5 : ℚ) ≠ 1 ∧ 1 - (3/5 : ℚ) * (3/5) ≠ 0 ∧
    ySd (fun a : ℚ => if a = 1 then 1 else 2) (3/5) (4/5) * ySd (fun a : ℚ => if a = 1 then 1 else 2) (3/5) (4/5)
      = (4/5) * (4/5) / (1 - (3/5) * (3/5)) ∧
    (fun a : ℚ => if a = 1 then 1 else 2) (((5 - 1 : ℕ)) : ℚ) * (fun a : ℚ => if a = 1 then 1 else 2) (((5 - 1 : ℕ)) : ℚ)
      = (((5 - 1 : ℕ)) : ℚ) ∧
    (rouwenhorst (fun a : ℚ => if a = 1 then 1 else 2) 5 (3/5) (4/5) 1).isSome = true := by
  decide +kernel

end rouw

/-! ## Tauchen -/

section tauchen
variable {K : Type} [Field K] [LinearOrder K] [IsStrictOrderedRing K]

omit [IsStrictOrderedRing K] in
theorem tauchen_fst (sqrt erfc : K → K) (n : ℕ) (rho sigma mu : K) (nstd : ℕ) :
    (tauchen sqrt erfc n rho sigma mu nstd).1 =
      fillTauchen (stdNormCdf erfc (sqrt (1 + 1))) (tauchenX sqrt n rho sigma nstd).1 n rho sigma
        (tauchenX sqrt n rho sigma nstd).2 := rfl

omit [IsStrictOrderedRing K] in
theorem tauchen_snd (sqrt erfc : K → K) (n : ℕ) (rho sigma mu : K) (nstd : ℕ) :
    (tauchen sqrt erfc n rho sigma mu nstd).2 =
      (tauchenX sqrt n rho sigma nstd).1.map (· + mu / (1 - rho)) := rfl

omit [IsStrictOrderedRing K] in
/-- **Entry = Φ-mass of the cell, end cells open** (`Φ = std_norm_cdf`, `h` the half step,
    `x` the demeaned grid): column 0 is `Φ((x₀ - ρxᵢ + h)/σ)`, column `n-1` is
    `1 - Φ((x_{n-1} - ρxᵢ - h)/σ)`, interior columns the difference of the two. -/
theorem tauchen_entry (sqrt erfc : K → K) (n : ℕ) (rho sigma mu : K) (nstd : ℕ) (i j : ℕ)
    (hi : i < n) (hj : j < n) :
    let Φ := stdNormCdf erfc (sqrt (1 + 1))
    let x := (tauchenX sqrt n rho sigma nstd).1
    let h := (tauchenX sqrt n rho sigma nstd).2
    (tauchen sqrt erfc n rho sigma mu nstd).1.get i j =
      if j + 1 = n then 1 - Φ ((x.getD j 0 - rho * x.getD i 0 - h) / sigma)
      else if j = 0 then Φ ((x.getD j 0 - rho * x.getD i 0 + h) / sigma)
      else Φ ((x.getD j 0 - rho * x.getD i 0 + h) / sigma)
            - Φ ((x.getD j 0 - rho * x.getD i 0 - h) / sigma) := by
  intro Φ x h
  rw [tauchen_fst]
  unfold fillTauchen
  rw [M.get_tab _ _ _ _ _ hi hj]
  rfl

/-- **Rows sum to exactly one** — for every `n ≥ 2`, all parameters, and whatever the external
    `sqrt` and `erfc` return (pure telescoping on the evenly spaced grid). -/
theorem tauchen_row_sums (sqrt erfc : K → K) (n : ℕ) (hn : 2 ≤ n) (rho sigma mu : K) (nstd : ℕ)
    (i : ℕ) (hi : i < n) :
    ∑ j ∈ range n, (tauchen sqrt erfc n rho sigma mu nstd).1.get i j = 1 := by
  rw [tauchen_fst]
  unfold fillTauchen
  rw [sum_congr rfl (fun j hj => M.get_tab _ _ _ _ _ hi (mem_range.mp hj))]
  exact tauchen_row_sum _ _ n hn rho sigma _ i (fun j hj => tauchenX_spacing sqrt n hn rho sigma nstd j hj)

/-- **Cumulative row sums are the Gaussian cdf at the cell boundaries**: for `k < n-1`,
    `Σ_{j ≤ k} P[i,j] = Φ((x_k + h - ρ x_i)/σ)` exactly (any `Φ`), so each entry is the mass the
    conditional law `N(ρ x_i, σ²)` puts on its cell and the last cell takes the remaining mass. -/
theorem tauchen_cdf (sqrt erfc : K → K) (n : ℕ) (hn : 2 ≤ n) (rho sigma mu : K) (nstd : ℕ)
    (i : ℕ) (hi : i < n) (k : ℕ) (hk : k + 1 < n) :
    ∑ j ∈ range (k + 1), (tauchen sqrt erfc n rho sigma mu nstd).1.get i j
      = stdNormCdf erfc (sqrt (1 + 1))
          (((tauchenX sqrt n rho sigma nstd).1.getD k 0 - rho * (tauchenX sqrt n rho sigma nstd).1.getD i 0
            + (tauchenX sqrt n rho sigma nstd).2) / sigma) := by
  rw [tauchen_fst]
  unfold fillTauchen
  rw [sum_congr rfl (fun j hj => M.get_tab _ _ _ _ _ hi (by have := mem_range.mp hj; omega))]
  exact tauchen_partial_sum _ _ n rho sigma _ i
    (fun j hj => tauchenX_spacing sqrt n hn rho sigma nstd j hj) k hk

/-- **The cells are the nearest-point cells of the grid.** The boundary `x_j + h` used between
    columns `j` and `j+1` is the mid-point `(x_j + x_{j+1})/2` of the two grid points (and equals
    the lower boundary `x_{j+1} - h` of the next cell), so `P[i,j]` is the mass that
    `N(ρ x_i, σ²)` — as evaluated by `Φ` — gives to the set of points nearer to `x_j` than to any
    other grid point; the two end cells are unbounded. All `n ≥ 2`. -/
theorem tauchen_cells_are_midpoints (sqrt : K → K) (n : ℕ) (hn : 2 ≤ n) (rho sigma : K) (nstd : ℕ)
    (j : ℕ) (hj : j + 1 < n) :
    let x := (tauchenX sqrt n rho sigma nstd).1
    let h := (tauchenX sqrt n rho sigma nstd).2
    x.getD j 0 + h = (x.getD j 0 + x.getD (j + 1) 0) / 2 ∧ x.getD j 0 + h = x.getD (j + 1) 0 - h := by
  intro x h
  have hsp := tauchenX_spacing sqrt n hn rho sigma nstd j hj
  constructor
  · show (tauchenX sqrt n rho sigma nstd).1.getD j 0 + (tauchenX sqrt n rho sigma nstd).2 = _
    rw [hsp]; ring
  · show (tauchenX sqrt n rho sigma nstd).1.getD j 0 + (tauchenX sqrt n rho sigma nstd).2 = _
    rw [hsp]; ring

/-- non-vacuity: `n = 3`, `n_std = 2`, `sqrt ≡ 1` gives the demeaned grid `-2, 0, 2`, half step 1 -/
example : (tauchenX (fun _ : ℚ => 1) 3 (1/2) 1 2) = ([-2, 0, 2], 1) := by decide +kernel

/-- **Entries are non-negative** when `erfc` is non-increasing with values in `[0,2]`,
    the two square roots are non-negative resp. positive and `σ > 0`. -/
theorem tauchen_nonneg (sqrt erfc : K → K) (n : ℕ) (hn : 2 ≤ n) (rho sigma mu : K) (nstd : ℕ)
    (hs : 0 < sigma) (hsd : 0 ≤ ySd sqrt rho sigma) (hs2 : 0 < sqrt (1 + 1))
    (hanti : Antitone erfc) (e0 : ∀ z, 0 ≤ erfc z) (e2 : ∀ z, erfc z ≤ 2)
    (i j : ℕ) (hi : i < n) (hj : j < n) :
    0 ≤ (tauchen sqrt erfc n rho sigma mu nstd).1.get i j := by
  rw [tauchen_fst]
  unfold fillTauchen
  rw [M.get_tab _ _ _ _ _ hi hj]
  obtain ⟨hm, h0, h1⟩ := stdNormCdf_props erfc (sqrt (1 + 1)) hs2 hanti e0 e2
  apply tauchen_entry_nonneg _ hm h0 h1 _ n rho sigma _ _ hs
  -- the half step is non-negative
  have hc : (((n - 1 : ℕ)) : K) = (n : K) - 1 := by
    rw [Nat.cast_sub (by omega)]; simp
  have hpos : (0 : K) < (n : K) - 1 := by
    have : (2 : K) ≤ (n : K) := by exact_mod_cast hn
    linarith
  unfold tauchenX
  simp only [hc]
  have hx : 0 ≤ (nstd : K) * ySd sqrt rho sigma := mul_nonneg (Nat.cast_nonneg _) hsd
  apply mul_nonneg (by norm_num)
  apply div_nonneg _ hpos.le
  linarith

/-- **Grid**: `n` evenly spaced points from `-n_std·s` to `n_std·s` (`s` the value returned for
    `sqrt(σ²/(1-ρ²))`), shifted by `μ/(1-ρ)`. -/
theorem tauchen_grid (sqrt erfc : K → K) (n : ℕ) (hn : 2 ≤ n) (rho sigma mu : K) (nstd : ℕ)
    (j : ℕ) (hj : j < n) :
    (tauchen sqrt erfc n rho sigma mu nstd).2.getD j 0 =
      -((nstd : K) * ySd sqrt rho sigma)
        + (j : K) * (2 * ((nstd : K) * ySd sqrt rho sigma) / ((n : K) - 1)) + mu / (1 - rho) := by
  rw [tauchen_snd]
  have hl : j < (tauchenX sqrt n rho sigma nstd).1.length := by
    unfold tauchenX; simp only []; rw [linspace_length]; exact hj
  rw [List.getD_eq_getElem?_getD, List.getElem?_map, List.getElem?_eq_getElem hl]
  simp only [Option.map_some, Option.getD_some]
  have h := linspace_getD (-((nstd : K) * ySd sqrt rho sigma)) ((nstd : K) * ySd sqrt rho sigma) n hn j hj
  have e : (tauchenX sqrt n rho sigma nstd).1 =
      linspace (-((nstd : K) * ySd sqrt rho sigma)) ((nstd : K) * ySd sqrt rho sigma) n := rfl
  rw [List.getD_eq_getElem?_getD, List.getElem?_eq_getElem (by rw [linspace_length]; exact hj)] at h
  simp only [Option.getD_some] at h
  simp only [e]
  rw [h]
  ring

/-- non-vacuity of the hypotheses of `tauchen_nonneg`: a step function is antitone with values
    in `[0,2]` -/
example : Antitone (fun z : ℚ => if z ≤ 0 then (2 : ℚ) else 0) ∧
    (∀ z : ℚ, 0 ≤ (if z ≤ 0 then (2 : ℚ) else 0)) ∧ (∀ z : ℚ, (if z ≤ 0 then (2 : ℚ) else 0) ≤ 2) := by
  refine ⟨?_, ?_, ?_⟩
  · intro a b hab
    by_cases hb : b ≤ 0
    · have ha : a ≤ 0 := le_trans hab hb
      simp [ha, hb]
    · by_cases ha : a ≤ 0 <;> simp [ha, hb]
  · intro z; split_ifs <;> norm_num
  · intro z; split_ifs <;> norm_num

/-- a concrete Tauchen matrix of the model (`n = 3`, `ρ = 1/2`, `σ = 1`, `n_std = 2`, `sqrt ≡ 1`,
    `erfc` the step function): middle row `(0, 1, 0)` -/
example : ((tauchen (fun _ : ℚ => 1) (fun z : ℚ => if z ≤ 0 then (2 : ℚ) else 0) 3 (1/2) 1 0 2).1.toRows.getD 1 [])
    = [0, 1, 0] := by decide +kernel

end tauchen

/-! ## estimate_mc -/

section est
variable {β : Type} [LinearOrder β] {K : Type} [Field K] [CharZero K]

/-- `_count_transition_frequencies` counts consecutive pairs (all index series). -/
theorem count_transition_frequencies (idx : List ℕ) (a b : ℕ) :
    countTransitions idx a b = (idx.zip idx.tail).countP (fun p => p = (a, b)) :=
  countTransitions_spec idx a b

omit [Field K] [CharZero K] in
/-- **Inverse indices** (`np.unique(…, return_inverse=True)` as modelled): the index assigned to
    observation `t` designates its value among the sorted distinct values. -/
theorem estimate_mc_inverse (X : List β) (t : ℕ) (ht : t < X.length) :
    (estimateCounts X).idx[t]? = some (indexIn (uniqueSorted X) X[t]) ∧
    (uniqueSorted X)[indexIn (uniqueSorted X) X[t]]? = some X[t] := by
  refine ⟨?_, getElem?_indexIn _ (uniqueSorted_pairwise X) _
    ((mem_uniqueSorted X _).mpr (List.getElem_mem ht))⟩
  rw [estimateCounts_idx, List.getElem?_map, List.getElem?_eq_getElem ht]
  rfl

/-- **estimate_mc.** If `estimate_mc(X)` returns `(S, P)` then `S` is the strictly increasing
    list of the distinct observed values and, with `N a b` the number of transitions `a → b` in
    `X` and `N_i = Σ_{b ∈ S} N S[i] b` the number of transitions out of `S[i]`: `N_i ≠ 0`,
    `P[i][j] · N_i = N S[i] S[j]`, and every row of `P` has length `|S|` and sums to one. -/
theorem estimate_mc_counts (X : List β) (S : List β) (P : List (List K))
    (h : estimateMc X = some (S, P)) :
    S = uniqueSorted X ∧ S.Pairwise (· < ·) ∧ (∀ b, b ∈ S ↔ b ∈ X) ∧ P.length = S.length ∧
    ∀ i (hi : i < S.length),
      (S.map (transCount X S[i])).sum ≠ 0 ∧ (P.getD i []).length = S.length ∧
      (P.getD i []).sum = 1 ∧
      ∀ j (hj : j < S.length),
        (P.getD i []).getD j 0 * (((S.map (transCount X S[i])).sum : ℕ) : K)
          = (transCount X S[i] S[j] : K) := by
  unfold estimateMc at h
  simp only [] at h
  split at h
  · simp at h
  · rename_i P' hP
    simp only [Option.some.injEq, Prod.mk.injEq] at h
    obtain ⟨hS, rfl⟩ := h
    rw [estimateCounts_states] at hS
    subst hS
    refine ⟨rfl, uniqueSorted_pairwise X, mem_uniqueSorted X, ?_⟩
    -- the counter and the row totals as tabulated functions
    have hP' : estimateP (α := K)
        ((List.range (uniqueSorted X).length).map fun i =>
          (List.range (uniqueSorted X).length).map fun j =>
            countTransitions (X.map (indexIn (uniqueSorted X))) i j)
        ((List.range (uniqueSorted X).length).map fun i =>
          ((List.range (uniqueSorted X).length).map fun j =>
            ((estimateCounts X).counts.getD i []).getD j 0).sum) = some P' := hP
    have ht := estimateP_tab (K := K) (uniqueSorted X).length _ _ P' hP'
    refine ⟨ht.1, ?_⟩
    intro i hi
    obtain ⟨hne, hlen, hent⟩ := ht.2 i hi
    have htot := rowTotal_eq X i hi
    simp only [htot] at hne hent
    have hN : ((((uniqueSorted X).map (transCount X (uniqueSorted X)[i])).sum : ℕ) : K) ≠ 0 :=
      Nat.cast_ne_zero.mpr hne
    refine ⟨hne, hlen, ?_, ?_⟩
    · -- row sum
      rw [list_eq_map_range _ _ hlen _ hent, sum_map_div]
      have hc : ((List.range (uniqueSorted X).length).map fun j =>
          ((countTransitions (X.map (indexIn (uniqueSorted X))) i j : ℕ) : K)).sum
          = ((((uniqueSorted X).map (transCount X (uniqueSorted X)[i])).sum : ℕ) : K) := by
        rw [← htot, Nat.cast_list_sum, List.map_map]
        congr 1
        apply List.map_congr_left
        intro j hj
        simp only [Function.comp]
        rw [estimateCounts_counts_getD X i j hi (List.mem_range.mp hj)]
      rw [hc]
      exact div_self hN
    · intro j hj
      rw [hent j hj]
      have e := counts_getD_eq X i j hi hj
      rw [estimateCounts_counts_getD X i j hi hj] at e
      rw [e]
      exact div_mul_cancel₀ _ hN

omit [CharZero K] in
/-- **When `estimate_mc` raises.** The `ValueError` (model: `none`) occurs exactly when some
    observed value is never left; so on every series in which every occurring state is left at
    least once, `estimate_mc` returns a chain (to which `estimate_mc_counts` applies). -/
theorem estimate_mc_raises_iff (X : List β) :
    estimateMc (α := K) X = none ↔ ∃ a ∈ X, ∀ b, transCount X a b = 0 :=
  estimateMc_none_iff X

omit [CharZero K] in
theorem estimate_mc_defined (X : List β) (h : ∀ a ∈ X, ∃ b, transCount X a b ≠ 0) :
    ∃ S P, estimateMc (α := K) X = some (S, P) := by
  cases hm : estimateMc (α := K) X with
  | none =>
    obtain ⟨a, ha, hz⟩ := (estimateMc_none_iff X).mp hm
    obtain ⟨b, hb⟩ := h a ha
    exact absurd (hz b) hb
  | some r => exact ⟨r.1, r.2, rfl⟩

/-- non-vacuity: a series in which every occurring state is left at least once -/
example : estimateMc (α := ℚ) ([1, 2, 1, 1, 3, 1] : List ℕ)
    = some ([1, 2, 3], [[1/3, 1/3, 1/3], [1, 0, 0], [1, 0, 0]]) := by decide +kernel

/-- a state that is never left (`3`, last observation): the `ValueError` of the validation -/
example : estimateMc (α := ℚ) ([1, 2, 1, 3] : List ℕ) = none := by decide +kernel

/-- **estimate_mc, as documented: `P[i,j] = (transitions i→j) / (transitions out of i)`.**
    With `N_i = outCount X S[i]` the number of positions `t < T-1` with `X[t] = S[i]`
    (= the occurrences of `S[i]` among all observations but the last): `N_i ≠ 0` and
    `P[i][j] · N_i = N(S[i], S[j])` for every returned chain. -/
theorem estimate_mc_out_counts (X : List β) (S : List β) (P : List (List K))
    (h : estimateMc X = some (S, P)) (i : ℕ) (hi : i < S.length) :
    outCount X S[i] = X.dropLast.count S[i] ∧ outCount X S[i] ≠ 0 ∧
    ∀ j (hj : j < S.length),
      (P.getD i []).getD j 0 * ((outCount X S[i] : ℕ) : K) = (transCount X S[i] S[j] : K) := by
  obtain ⟨hS, _, _, _, hrows⟩ := estimate_mc_counts X S P h
  subst hS
  obtain ⟨hne, _, _, hent⟩ := hrows i hi
  rw [sum_transCount_eq_outCount] at hne hent
  exact ⟨outCount_eq_count_dropLast X _, hne, hent⟩

/-- non-vacuity: in `1,2,1,1,3,1` state `1` is left three times (the last `1` is not left) -/
example : outCount ([1, 2, 1, 1, 3, 1] : List ℕ) 1 = 3 ∧ transCount ([1, 2, 1, 1, 3, 1] : List ℕ) 1 2 = 1 := by
  decide

end est

/-! ### estimate_mc returns a stochastic matrix (ordered field) -/

/-- every entry of the estimated matrix lies in `[0, 1]` (with `estimate_mc_counts`: rows sum
    to one) -/
theorem estimate_mc_entries_in_unit_interval {β : Type} [LinearOrder β] {K : Type} [Field K]
    [LinearOrder K] [IsStrictOrderedRing K] (X : List β) (S : List β) (P : List (List K))
    (h : estimateMc X = some (S, P)) (i j : ℕ) (hi : i < S.length) (hj : j < S.length) :
    0 ≤ (P.getD i []).getD j 0 ∧ (P.getD i []).getD j 0 ≤ 1 := by
  obtain ⟨hS, _, _, _, hrows⟩ := estimate_mc_counts X S P h
  subst hS
  obtain ⟨hne, _, _, hent⟩ := hrows i hi
  have he := hent j hj
  set N : ℕ := ((uniqueSorted X).map (transCount X (uniqueSorted X)[i])).sum with hN
  have hNpos : (0 : K) < (N : K) := by
    have : 0 < N := Nat.pos_of_ne_zero hne
    exact_mod_cast this
  have hle : transCount X (uniqueSorted X)[i] (uniqueSorted X)[j] ≤ N := by
    rw [hN]
    exact List.single_le_sum (fun _ _ => Nat.zero_le _) _
      (List.mem_map.mpr ⟨_, List.getElem_mem hj, rfl⟩)
  have hleK : ((transCount X (uniqueSorted X)[i] (uniqueSorted X)[j] : ℕ) : K) ≤ (N : K) := by
    exact_mod_cast hle
  have hval : (P.getD i []).getD j 0
      = ((transCount X (uniqueSorted X)[i] (uniqueSorted X)[j] : ℕ) : K) / (N : K) := by
    rw [← he]; field_simp
  rw [hval]
  exact ⟨div_nonneg (Nat.cast_nonneg _) hNpos.le, (div_le_one hNpos).mpr hleK⟩

/-- non-vacuity: `estimate_mc` returns a chain on `1,2,1,1,3,1` (three states) -/
example : (estimateMc (α := ℚ) ([1, 2, 1, 1, 3, 1] : List ℕ)).map (fun r => r.1.length) = some 3 := by
  decide +kernel

/-! ## fit_discrete_mc -/

/-- **fit_discrete_mc is estimate_mc applied to the nearest-grid-point discretisation**, with
    the visited product indices relabelled by the points of `cartesian(grids, order)`. -/
theorem fit_is_estimate_of_nearest {K : Type} [NatCast K] [Div K] (X grids : List (List Rat))
    (orderF : Bool) :
    fitDiscreteMc (α := K) X grids orderF =
      (estimateMc (α := K) (X.map fun x => QE.C16.nearestIndex grids x orderF)).map
        (fun r => (r.1.map (fun k => (QE.C16.cartesian grids orderF).getD k []), r.2)) := by
  unfold fitDiscreteMc nearestIndices
  cases estimateMc (α := K) (X.map fun x => QE.C16.nearestIndex grids x orderF) <;> rfl


/-! ### the state values are the nearest grid points (uses the C16 theorems `nearest1_is_argmin`,
    `nearestIndex_is_argmin`, which rest on `cartesian_spec` / `cartesianIndex_digits`) -/

/-- the grid point to which `fit_discrete_mc` maps the observation `x`: the row of
    `cartesian(grids, order)` numbered `cartesian_nearest_index(x, grids, order)` -/
def nearestPoint (grids : List (List Rat)) (orderF : Bool) (x : List Rat) : List Rat :=
  (QE.C16.cartesian grids orderF).getD (QE.C16.nearestIndex grids x orderF) []

/-- **The discretisation is nearest-grid-point, in both orders.** For non-empty sorted grids and
    every observation `x`: the point assigned to `x` is a row of the product grid; its `d`-th
    coordinate is `grids[d][nearest1 grids[d] x[d]]`, where that per-dimension index is valid,
    minimises `|x[d] - grids[d][i]|` and — on a strictly increasing grid — is the *lowest* such
    index (ties, e.g. exact mid-points, go down); and no point of the product grid is closer to
    `x` in Euclidean distance. -/
theorem fit_point_is_nearest (grids : List (List Rat)) (o : Bool)
    (hn : ∀ g ∈ grids, g ≠ [] ∧ g.Pairwise (· ≤ ·)) (x : List Rat) :
    QE.C16.nearestIndex grids x o < (QE.C16.cartesian grids o).length ∧
    (∀ d, d < grids.length →
      (nearestPoint grids o x).getD d 0
          = (grids.getD d []).getD (QE.C16.nearest1 (grids.getD d []) (x.getD d 0)) 0 ∧
      QE.C16.nearest1 (grids.getD d []) (x.getD d 0) < (grids.getD d []).length ∧
      (∀ i, i < (grids.getD d []).length →
        |x.getD d 0 - (nearestPoint grids o x).getD d 0| ≤ |x.getD d 0 - (grids.getD d []).getD i 0|) ∧
      ((grids.getD d []).Pairwise (· < ·) →
        ∀ i, i < QE.C16.nearest1 (grids.getD d []) (x.getD d 0) →
          |x.getD d 0 - (nearestPoint grids o x).getD d 0| < |x.getD d 0 - (grids.getD d []).getD i 0|)) ∧
    ∀ r, r < (QE.C16.cartesian grids o).length →
      QE.C16.sqDist grids.length x (nearestPoint grids o x)
        ≤ QE.C16.sqDist grids.length x ((QE.C16.cartesian grids o).getD r []) := by
  obtain ⟨h1, h2, h3⟩ := QE.C16.nearestIndex_is_argmin grids x o hn
  refine ⟨h1, fun d hd => ?_, h3⟩
  have hmem : grids.getD d [] ∈ grids := by
    rw [List.getD_eq_getElem?_getD, List.getElem?_eq_getElem hd]; exact List.getElem_mem hd
  obtain ⟨hne, hs⟩ := hn _ hmem
  obtain ⟨a1, a2, a3⟩ := QE.C16.nearest1_is_argmin (grids.getD d []) (x.getD d 0) hne hs
  have hc := h2 d hd
  unfold nearestPoint
  rw [hc]
  exact ⟨rfl, a1, a2, a3⟩

/-- **fit_discrete_mc: state values, both orders.** If `fit_discrete_mc(X, grids, order)`
    returns `(V, P)` then, with `idx` the sequence of nearest product indices:
    `estimate_mc(idx)` returned `(S, P)` (so `estimate_mc_counts` describes `P`), `S` is the
    strictly increasing list of the visited indices, `V[i]` is the grid point numbered `S[i]`,
    and the state values are **exactly** the nearest grid points of the observations:
    `v ∈ V ↔ ∃ x ∈ X, v = nearestPoint x` (each characterised by `fit_point_is_nearest`). -/
theorem fit_state_values {K : Type} [NatCast K] [Div K] (X grids : List (List Rat)) (o : Bool)
    (V : List (List Rat)) (P : List (List K)) (h : fitDiscreteMc (α := K) X grids o = some (V, P)) :
    let idx := X.map fun x => QE.C16.nearestIndex grids x o
    estimateMc (α := K) idx = some (uniqueSorted idx, P) ∧
    (uniqueSorted idx).Pairwise (· < ·) ∧
    V = (uniqueSorted idx).map (fun k => (QE.C16.cartesian grids o).getD k []) ∧
    (∀ v, v ∈ V ↔ ∃ x ∈ X, v = nearestPoint grids o x) ∧
    ∀ t (ht : t < X.length), ∃ i : ℕ, (uniqueSorted idx)[i]? = some (QE.C16.nearestIndex grids X[t] o) ∧
      V[i]? = some (nearestPoint grids o X[t]) := by
  intro idx
  rw [fit_is_estimate_of_nearest] at h
  cases hm : estimateMc (α := K) (X.map fun x => QE.C16.nearestIndex grids x o) with
  | none => rw [hm] at h; simp at h
  | some r =>
    rw [hm] at h
    simp only [Option.map_some, Option.some.injEq, Prod.mk.injEq] at h
    obtain ⟨hV, hP⟩ := h
    have hS : r.1 = uniqueSorted idx := by
      unfold estimateMc at hm
      simp only [] at hm
      split at hm
      · simp at hm
      · simp only [Option.some.injEq] at hm
        rw [← hm]; rfl
    have hr : r = (uniqueSorted idx, P) := by
      rw [← hS, ← hP]
    refine ⟨by rw [hr], uniqueSorted_pairwise idx, by rw [← hV, hS], ?_, ?_⟩
    · intro v
      rw [← hV, hS, List.mem_map]
      constructor
      · rintro ⟨k, hk, rfl⟩
        obtain ⟨x, hx, rfl⟩ := List.mem_map.mp ((mem_uniqueSorted idx k).mp hk)
        exact ⟨x, hx, rfl⟩
      · rintro ⟨x, hx, rfl⟩
        exact ⟨_, (mem_uniqueSorted idx _).mpr (List.mem_map.mpr ⟨x, hx, rfl⟩), rfl⟩
    · intro t ht
      have hmem : QE.C16.nearestIndex grids X[t] o ∈ uniqueSorted idx :=
        (mem_uniqueSorted idx _).mpr (List.mem_map.mpr ⟨X[t], List.getElem_mem ht, rfl⟩)
      obtain ⟨i, hi, hget⟩ := List.getElem_of_mem hmem
      refine ⟨i, by rw [List.getElem?_eq_getElem hi, hget], ?_⟩
      rw [← hV, hS, List.getElem?_map, List.getElem?_eq_getElem hi, hget]
      rfl

/-- **fit_discrete_mc: transition probabilities.** With `S` the visited product indices (state `i`
    is labelled by the grid point `V[i]` numbered `S[i]`), `N a b` the number of transitions
    `a → b` in the index sequence: `P[i][j] · N_i = N S[i] S[j]`, `N_i ≠ 0`, rows sum to one. -/
theorem fit_counts {K : Type} [Field K] [CharZero K] (X grids : List (List Rat)) (o : Bool)
    (V : List (List Rat)) (P : List (List K)) (h : fitDiscreteMc (α := K) X grids o = some (V, P)) :
    let idx := X.map fun x => QE.C16.nearestIndex grids x o
    let S := uniqueSorted idx
    V.length = S.length ∧ P.length = S.length ∧
    ∀ i (hi : i < S.length),
      (S.map (transCount idx S[i])).sum ≠ 0 ∧ (P.getD i []).sum = 1 ∧
      ∀ j (hj : j < S.length),
        (P.getD i []).getD j 0 * (((S.map (transCount idx S[i])).sum : ℕ) : K)
          = (transCount idx S[i] S[j] : K) := by
  intro idx S
  obtain ⟨he, _, hV, _, _⟩ := fit_state_values X grids o V P h
  obtain ⟨_, _, _, hlen, hrows⟩ := estimate_mc_counts idx S P he
  refine ⟨by rw [hV]; simp [S, idx], hlen, fun i hi => ?_⟩
  obtain ⟨a, _, b, c⟩ := hrows i hi
  exact ⟨a, b, c⟩

/-- **fit_discrete_mc in terms of grid points.** For non-empty strictly increasing grids, if
    `fit_discrete_mc(X, grids, order)` returns `(V, P)` then, with `pts` the sequence of nearest
    grid points of the observations: the state values `V` are pairwise distinct, every `V[i]` is
    left at least once, and `P[i][j] · (number of times pts leaves V[i]) = number of transitions
    V[i] → V[j] in pts` — `fit_discrete_mc` is `estimate_mc` of the discretised series,
    labelled by the grid points themselves (both orders, every dimension and length). -/
theorem fit_point_counts {K : Type} [Field K] [CharZero K] (X grids : List (List Rat)) (o : Bool)
    (hn : ∀ g ∈ grids, g ≠ [] ∧ g.Pairwise (· < ·))
    (V : List (List Rat)) (P : List (List K)) (h : fitDiscreteMc (α := K) X grids o = some (V, P)) :
    let pts := X.map (nearestPoint grids o)
    V.Nodup ∧ P.length = V.length ∧
    ∀ i (hi : i < V.length),
      outCount pts V[i] ≠ 0 ∧
      ∀ j (hj : j < V.length),
        (P.getD i []).getD j 0 * ((outCount pts V[i] : ℕ) : K) = (transCount pts V[i] V[j] : K) := by
  intro pts
  have hn' : ∀ g ∈ grids, g ≠ [] ∧ g.Pairwise (· ≤ ·) :=
    fun g hg => ⟨(hn g hg).1, (hn g hg).2.imp (fun h => le_of_lt h)⟩
  have hns : ∀ g ∈ grids, g.Pairwise (· < ·) := fun g hg => (hn g hg).2
  obtain ⟨he, hSp, hV, _, _⟩ := fit_state_values X grids o V P h
  set idx := X.map fun x => QE.C16.nearestIndex grids x o with hidx
  set S := uniqueSorted idx with hS
  set row : ℕ → List Rat := fun k => (QE.C16.cartesian grids o).getD k [] with hrow
  have hpts : pts = idx.map row := by
    simp only [pts, hidx, List.map_map]; rfl
  -- all indices are row numbers of the product grid
  have hlenprod : (QE.C16.cartesian grids o).length = (grids.map List.length).prod :=
    (QE.C16.cartesian_spec grids).1 o
  have hrange : ∀ k ∈ idx, k < (grids.map List.length).prod := by
    intro k hk
    obtain ⟨x, _, rfl⟩ := List.mem_map.mp hk
    rw [← hlenprod]
    exact (QE.C16.nearestIndex_is_argmin grids x o hn').1
  have hinj : ∀ u v, u ∈ idx → v ∈ idx → row u = row v → u = v := fun u v hu hv huv =>
    cartesian_row_injective grids hns o u v (hrange u hu) (hrange v hv) huv
  have hSmem : ∀ k, k ∈ S → k ∈ idx := fun k hk => (mem_uniqueSorted idx k).mp hk
  have hVlen : V.length = S.length := by rw [hV]; simp
  have hVget : ∀ i (hi : i < V.length), V[i] = row (S[i]'(by omega)) := by
    intro i hi
    simp only [hV, List.getElem_map]
  refine ⟨?_, ?_, ?_⟩
  · rw [hV]
    apply List.Nodup.map_on _ (hSp.imp (fun h => ne_of_lt h))
    intro u hu v hv huv
    exact hinj u v (hSmem u hu) (hSmem v hv) huv
  · obtain ⟨_, _, _, hl, _⟩ := estimate_mc_counts idx S P he
    rw [hl, hVlen]
  · intro i hi
    have hi' : i < S.length := by omega
    obtain ⟨_, hne, hent⟩ := estimate_mc_out_counts idx S P he i hi'
    have hSi : S[i] ∈ idx := hSmem _ (List.getElem_mem hi')
    have hout : outCount pts V[i] = outCount idx S[i] := by
      rw [hVget i hi, hpts]
      apply outCount_map
      intro u v hu hv huv
      have hu' : u ∈ idx := by rcases List.mem_cons.mp hu with rfl | hu; exact hSi; exact hu
      have hv' : v ∈ idx := by rcases List.mem_cons.mp hv with rfl | hv; exact hSi; exact hv
      exact hinj u v hu' hv' huv
    refine ⟨by rw [hout]; exact hne, fun j hj => ?_⟩
    have hj' : j < S.length := by omega
    have hSj : S[j] ∈ idx := hSmem _ (List.getElem_mem hj')
    have htr : transCount pts V[i] V[j] = transCount idx S[i] S[j] := by
      rw [hVget i hi, hVget j hj, hpts]
      apply transCount_map
      intro u v hu hv huv
      have mem : ∀ w, w ∈ S[i] :: S[j] :: idx → w ∈ idx := by
        intro w hw
        rcases List.mem_cons.mp hw with rfl | hw
        · exact hSi
        · rcases List.mem_cons.mp hw with rfl | hw
          · exact hSj
          · exact hw
      exact hinj u v (mem u hu) (mem v hv) huv
    rw [hout, htr]
    exact hent j hj'

/-- non-vacuity: non-empty strictly increasing grids on which `fit_discrete_mc` returns a chain
    (see the examples below for its state values) -/
example : (∀ g ∈ ([[0, 1, 2], [0, 1]] : List (List Rat)), g ≠ [] ∧ g.Pairwise (· < ·)) ∧
    (fitDiscreteMc (α := ℚ) [[-1/10, 6/5], [2, 0], [1/2, 2/5], [1, 1/10], [2, 0]] [[0, 1, 2], [0, 1]] false).isSome = true := by
  decide +kernel

/-- the product index is the mixed-radix code of the per-dimension nearest indices -/
theorem fit_index_is_code (grids : List (List Rat)) (x : List Rat) :
    QE.C16.nearestIndex grids x false =
      QE.C16.cartesianIndex
        ((List.range grids.length).map fun i => QE.C16.nearest1 (grids.getD i []) (x.getD i 0))
        (grids.map List.length) ∧
    QE.C16.nearestIndex grids x true =
      QE.C16.cartesianIndex
        ((List.range grids.length).map fun i => QE.C16.nearest1 (grids.getD i []) (x.getD i 0)).reverse
        (grids.map List.length).reverse := ⟨rfl, rfl⟩

/-- non-vacuity (the docstring example of `fit_discrete_mc`, both orders): sorted non-empty grids,
    a mid-point tie (`1/2` between `0` and `1` goes to `0`), the visited points in product order -/
example : (fitDiscreteMc (α := ℚ) [[-1/10, 6/5], [2, 0], [1/2, 2/5], [1, 1/10], [2, 0]] [[0, 1, 2], [0, 1]] false).map Prod.fst
    = some [[0, 0], [0, 1], [1, 0], [2, 0]] := by
  decide +kernel
example : (fitDiscreteMc (α := ℚ) [[-1/10, 6/5], [2, 0], [1/2, 2/5], [1, 1/10], [2, 0]] [[0, 1, 2], [0, 1]] true).map Prod.fst
    = some [[0, 0], [1, 0], [2, 0], [0, 1]] := by
  decide +kernel
example : ∀ g ∈ ([[0, 1, 2], [0, 1]] : List (List Rat)), g ≠ [] ∧ g.Pairwise (· ≤ ·) := by decide +kernel

/-! ## discrete_var (the glue around fit_discrete_mc) -/

section dvar
variable {K : Type} [Field K] [LinearOrder K] [IsStrictOrderedRing K]

omit [IsStrictOrderedRing K] in
/-- **When `discrete_var` raises `IndexError`** (after the simulation): exactly when `grid_sizes`
    is given with fewer than `m` entries or one of its first `m` entries is `0`; never for the
    default `grid_sizes=None` (which means ten points in every dimension). -/
theorem discreteVar_indexError_iff {α : Type} [NatCast α] [Div α] (sigmaVec : List K) (std : K)
    (gs : Option (List ℕ)) (X : List (List K)) (o : Bool) :
    (discreteVar (α := α) sigmaVec std gs X o = .error "IndexError" ↔
      ∃ s, gs = some s ∧ (s.length < sigmaVec.length ∨ ∃ i, i < sigmaVec.length ∧ s.getD i 0 = 0)) ∧
    dvarSizes sigmaVec.length none = List.replicate sigmaVec.length 10 := by
  refine ⟨?_, rfl⟩
  have key : discreteVar (α := α) sigmaVec std gs X o = .error "IndexError" ↔
      ((dvarSizes sigmaVec.length gs).length < sigmaVec.length ∨
        ∃ i, i < sigmaVec.length ∧ (dvarSizes sigmaVec.length gs).getD i 0 = 0) := by
    unfold discreteVar
    simp only []
    generalize dvarSizes sigmaVec.length gs = sizes
    split_ifs with h1 h2
    · simp [h1]
    · rw [List.any_eq_true] at h2
      obtain ⟨i, hi, h0⟩ := h2
      simp only [true_iff]
      exact Or.inr ⟨i, List.mem_range.mp hi, by simpa using h0⟩
    · have hne : ¬ ∃ i, i < sigmaVec.length ∧ sizes.getD i 0 = 0 := by
        rintro ⟨i, hi, h0⟩
        apply h2
        rw [List.any_eq_true]
        exact ⟨i, List.mem_range.mpr hi, by rw [beq_iff_eq]; exact h0⟩
      constructor
      · intro h; split at h <;> simp at h
      · rintro (h | h)
        · exact absurd h h1
        · exact absurd h hne
  rw [key]
  cases gs with
  | none =>
    simp only [dvarSizes, List.length_replicate, lt_irrefl, false_or]
    constructor
    · rintro ⟨i, hi, h0⟩
      simp [List.getD_eq_getElem?_getD, hi] at h0
    · rintro ⟨s, hs, _⟩; simp at hs
  | some s =>
    simp only [dvarSizes]
    constructor
    · intro h; exact ⟨s, rfl, h⟩
    · rintro ⟨s', hs', h⟩
      have : s' = s := by simpa using hs'.symm
      subst this; exact h

/-- **`discrete_var` discretises onto the symmetric `linspace` grids, nearest point.** If it
    returns `(V, P)` for positive `std_devs` and positive stationary standard deviations, then
    with `sizes` the effective grid sizes (ten each by default): grid `i` is
    `linspace(-std·σ_i, std·σ_i, sizes_i)` with `sizes_i ≥ 1` — non-empty, sorted, strictly
    increasing and evenly spaced `-std·σ_i + 2 std·σ_i j/(sizes_i - 1)` when `sizes_i ≥ 2`;
    `(V, P)` is `fit_discrete_mc` of the path on these grids; and every observation is mapped to
    a row of the product grid made of the per-dimension nearest grid values, at minimal Euclidean
    distance (both orders, every dimension and path length). -/
theorem discreteVar_spec {α : Type} [NatCast α] [Div α] (sigmaVec : List K) (std : K)
    (hstd : 0 < std) (hsig : ∀ i, i < sigmaVec.length → 0 < sigmaVec.getD i 0)
    (gs : Option (List ℕ)) (X : List (List K)) (o : Bool) (V : List (List K)) (P : List (List α))
    (h : discreteVar (α := α) sigmaVec std gs X o = .ok (V, P)) :
    let sizes := dvarSizes sigmaVec.length gs
    let grids := dvarGrids sigmaVec std sizes
    grids.length = sigmaVec.length ∧
    (∀ i, i < sigmaVec.length → 1 ≤ sizes.getD i 0 ∧
      grids.getD i [] = linspace (-(std * sigmaVec.getD i 0)) (std * sigmaVec.getD i 0) (sizes.getD i 0) ∧
      (2 ≤ sizes.getD i 0 → (grids.getD i []).Pairwise (· < ·) ∧
        ∀ j, j < sizes.getD i 0 → (grids.getD i []).getD j 0
          = -(std * sigmaVec.getD i 0) + (j : K) * ((std * sigmaVec.getD i 0 - -(std * sigmaVec.getD i 0))
              / ((sizes.getD i 0 : K) - 1)))) ∧
    (∀ g ∈ grids, g ≠ [] ∧ g.Pairwise (· ≤ ·)) ∧
    fitDiscreteMcG (α := α) X grids o = some (V, P) ∧
    ∀ x : List K,
      QE.C16.nearestIndex grids x o < (QE.C16.cartesian grids o).length ∧
      (∀ d, d < grids.length →
        ((QE.C16.cartesian grids o).getD (QE.C16.nearestIndex grids x o) []).getD d 0
          = (grids.getD d []).getD (QE.C16.nearest1 (grids.getD d []) (x.getD d 0)) 0) ∧
      ∀ r, r < (QE.C16.cartesian grids o).length →
        QE.C16.sqDist grids.length x ((QE.C16.cartesian grids o).getD (QE.C16.nearestIndex grids x o) [])
          ≤ QE.C16.sqDist grids.length x ((QE.C16.cartesian grids o).getD r []) := by
  intro sizes grids
  unfold discreteVar at h
  simp only [] at h
  split at h
  · simp at h
  · rename_i hlen
    split at h
    · simp at h
    · rename_i hzero
      have hsz : ∀ i, i < sigmaVec.length → 1 ≤ sizes.getD i 0 := by
        intro i hi
        by_contra hc
        have hc0 : sizes.getD i 0 = 0 := by omega
        apply hzero
        rw [List.any_eq_true]
        exact ⟨i, List.mem_range.mpr hi, by rw [beq_iff_eq]; exact hc0⟩
      have hub : ∀ i, i < sigmaVec.length → -(std * sigmaVec.getD i 0) < std * sigmaVec.getD i 0 := by
        intro i hi
        have := mul_pos hstd (hsig i hi)
        linarith
      have hg : ∀ i, i < sigmaVec.length → grids.getD i []
          = linspace (-(std * sigmaVec.getD i 0)) (std * sigmaVec.getD i 0) (sizes.getD i 0) :=
        fun i hi => dvarGrids_getD sigmaVec std sizes i hi
      have hsorted : ∀ g ∈ grids, g ≠ [] ∧ g.Pairwise (· ≤ ·) := by
        intro g hgm
        obtain ⟨i, hi, rfl⟩ := List.getElem_of_mem hgm
        have hi' : i < sigmaVec.length := by rw [dvarGrids_length] at hi; exact hi
        have e := hg i hi'
        rw [List.getD_eq_getElem?_getD, List.getElem?_eq_getElem hi] at e
        simp only [Option.getD_some] at e
        rw [e]
        exact linspace_sorted _ _ (hub i hi') _ (hsz i hi')
      have hfit : fitDiscreteMcG (α := α) X grids o = some (V, P) := by
        split at h
        · simp at h
        · rename_i r hr
          simp only [Except.ok.injEq] at h
          rw [← h]; exact hr
      refine ⟨dvarGrids_length sigmaVec std sizes, ?_, hsorted, hfit, ?_⟩
      · intro i hi
        refine ⟨hsz i hi, hg i hi, fun h2 => ?_⟩
        rw [hg i hi]
        exact ⟨linspace_pairwise_lt _ _ (hub i hi) _ h2,
          fun j hj => linspace_getD _ _ _ h2 j hj⟩
      · intro x
        exact QE.C16.nearestIndex_is_argmin grids x o hsorted

omit [Field K] [LinearOrder K] [IsStrictOrderedRing K] in
/-- at `Rat` the generic `fit_discrete_mc` of `discrete_var` is the `fitDiscreteMc` of the
    `fit_*` theorems above (which therefore describe `discrete_var`'s chain as well) -/
theorem fitDiscreteMcG_rat {α : Type} [NatCast α] [Div α] (X grids : List (List Rat)) (o : Bool) :
    fitDiscreteMcG (α := α) X grids o = fitDiscreteMc (α := α) X grids o := rfl

omit [IsStrictOrderedRing K] in
/-- **When `discrete_var` raises `ValueError`** (after the simulation): exactly when the grid
    sizes are acceptable and some visited cell of the product grid is never left by the path. -/
theorem discreteVar_valueError_iff {α : Type} [Field α] (sigmaVec : List K) (std : K)
    (gs : Option (List ℕ)) (X : List (List K)) (o : Bool) :
    discreteVar (α := α) sigmaVec std gs X o = .error "ValueError" ↔
      (¬ (dvarSizes sigmaVec.length gs).length < sigmaVec.length ∧
       (∀ i, i < sigmaVec.length → (dvarSizes sigmaVec.length gs).getD i 0 ≠ 0) ∧
       ∃ a ∈ X.map (fun x => QE.C16.nearestIndex (dvarGrids sigmaVec std (dvarSizes sigmaVec.length gs)) x o),
         ∀ b, transCount (X.map fun x =>
           QE.C16.nearestIndex (dvarGrids sigmaVec std (dvarSizes sigmaVec.length gs)) x o) a b = 0) := by
  unfold discreteVar
  simp only []
  generalize dvarSizes sigmaVec.length gs = sizes
  rw [← estimate_mc_raises_iff (K := α)]
  split_ifs with h1 h2
  · simp [h1]
  · rw [List.any_eq_true] at h2
    obtain ⟨i, hi, h0⟩ := h2
    have h0' : sizes.getD i 0 = 0 := by simpa using h0
    constructor
    · intro h; simp at h
    · rintro ⟨_, hz, _⟩
      exact absurd h0' (hz i (List.mem_range.mp hi))
  · have hz : ∀ i, i < sigmaVec.length → sizes.getD i 0 ≠ 0 := by
      intro i hi h0
      apply h2
      rw [List.any_eq_true]
      exact ⟨i, List.mem_range.mpr hi, by rw [beq_iff_eq]; exact h0⟩
    unfold fitDiscreteMcG
    cases hm : estimateMc (α := α) (X.map fun x => QE.C16.nearestIndex (dvarGrids sigmaVec std sizes) x o) with
    | none => exact ⟨fun _ => ⟨h1, hz, rfl⟩, fun _ => rfl⟩
    | some r => simp

/-- non-vacuity: one dimension, `σ = 1`, `std_devs = 2`, default sizes (ten points on `[-2, 2]`),
    a path that leaves every visited cell -/
example : (0 : ℚ) < 2 ∧ (∀ i, i < ([1] : List ℚ).length → 0 < ([1] : List ℚ).getD i 0) ∧
    (discreteVar (α := ℚ) ([1] : List ℚ) 2 none [[0], [3/2], [-3], [1/5], [7/5]] false).toOption.map Prod.fst
      = some [[-2], [-2/9], [2/9], [14/9]] := by
  refine ⟨by norm_num, ?_, by decide +kernel⟩
  intro i hi; simp at hi; subst hi; norm_num

/-- the two `IndexError` branches and the `ValueError` branch are reachable -/
example : discreteVar (α := ℚ) ([1, 1] : List ℚ) 2 (some [3]) [[0, 0]] false = .error "IndexError" ∧
    discreteVar (α := ℚ) ([1] : List ℚ) 2 (some [0]) [[0]] false = .error "IndexError" ∧
    discreteVar (α := ℚ) ([1] : List ℚ) 2 none [[0], [3/2]] false = .error "ValueError" := by
  decide +kernel

end dvar

/-! ## histories

`tauchen`, `rouwenhorst`, `estimate_mc`, `fit_discrete_mc` are modelled as pure functions of their
arguments (no object state, no cache, no reused buffer). The history statement the harness checks
on the real code (every kept result stays bitwise unchanged; a repeated call returns the same
bits; results never alias inputs or earlier results) is, for the model: -/

/-- **History theorem.** In any history the `k`-th answer is a function of the `k`-th request only,
    and the answers already given are not changed by later requests. -/
theorem run_history (reqs more : List (List String)) (k : ℕ) :
    (run reqs)[k]? = reqs[k]?.map handle ∧ run (reqs ++ more) = run reqs ++ run more ∧
    (k < reqs.length → (run (reqs ++ more))[k]? = (run reqs)[k]?) := by
  refine ⟨by simp [run], by simp [run], fun hk => ?_⟩
  simp only [run, List.map_append]
  rw [List.getElem?_append_left (by simpa using hk)]

/-- identical requests get identical answers wherever they occur in a history -/
theorem run_repeat (reqs : List (List String)) (i j : ℕ) (hi : i < reqs.length) (hj : j < reqs.length)
    (h : reqs[i] = reqs[j]) : (run reqs)[i]? = (run reqs)[j]? := by
  simp [run, List.getElem?_eq_getElem hi, List.getElem?_eq_getElem hj, h]

end QE.C13
