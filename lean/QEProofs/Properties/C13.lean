/-
  Property C13 — theorems about QEModel.C13 (stub; to be filled in).
-/
import QEModel.C13
namespace QE.C13

end QE.C13
