/-
  Property C03 — communication / recurrent / cyclic classes and period:
  theorems about the definitions of QEModel.C03 (the ones `qedriver_c03` executes).

  Vocabulary (QEProofs/Lemmas/C03*.lean): `g.E u v` — `v` is a stored column of row `u`;
  `Walk g u w len` — a directed walk with `len` edges; `WalkV g u w vs` — the same with the list
  of nodes it leaves; `WalkIn g C …` — a walk inside `C`; `Reach g s v` — reflexive-transitive
  closure of `g.E`; `g.wf` — `n` rows and all column indices `< n` (what the driver checks
  before it answers); `IsPartition g Cs` — partition of `{0..n-1}` by mutual reachability.

  Index (statement of properties.jsonl → theorem):
  * classes = strongly connected components: `reach_sound_complete`, `reach_saturates`,
    `sccClasses_total`, `scc_is_partition_by_mutual_reach`, `same_class_iff`,
    `sccClasses_order_independent`
  * recurrent = no edge leaves: `sink_iff_closed`, `sink_classes_spec`, `closed_under_reach`,
    `recurrent_iff_returns`, `transient_iff_escapes`, `every_state_reaches_recurrent_class`,
    `recurrent_class_exists`, `class_count_bounds`, `irreducible_all_recurrent`
  * is_irreducible / counts / labelled variants: `isSC_iff`, `isSC_classes_eq_range`,
    `counts_consistent`, `showClasses_labelled`, `labelled_variants_consistent`, `mc_labelled_variants_consistent`, `labeller_some`,
    `periodDG_notImpl_iff`
  * period = gcd of cycle lengths: `level_loop_correct`, `level_is_distance`, `level_edge_le`, `period_dvd_closed_walk`, `period_is_gcd`,
    `bfs_complete`, `periodDG_never_stuck`, `periodDG_is_gcd`, `periodDG_is_gcd_of_cycles`,
    `periodBFS_eq_all_edges`, `period_order_independent`, `selfLoop_period_one`, `periodBFS_pos`,
    `closed_walks_upto_n_suffice` (justifies the harness oracle), `exists_simple_cycle`, `period_le_n`
  * reducible chain = lcm over recurrent classes: `periodRec_spec`, `class_period_is_gcd`,
    `closed_class_walks`, `period_reducible_spec`, `periodMC_reducible`, `periodMC_irreducible`,
    `subgraph_recurrent_sc`, `periodDG_ok_of_sc`, `periodMC_total`, `lcm_fold_characterisation`
  * cyclic classes: `level_step_mod`, `cyclic_classes_spec`, `cyclic_classes_spec'`,
    `cyclic_classes_nonempty`, `cyclic_classes_unique`, `cyclic_classes_aperiodic`, `walk_class_shift`,
    `cyclic_classes_order_independent`
  * sub-graph: `subgraph_edge_iff`; stored zeros: `elimZeros_spec`
  * constructors / setters (error branches): `checkLabels_ok_iff`, `checkLabels_error`, `dgInit_ok_iff`,
    `dgInit_notSquare`, `closeToOne_iff`, `mcInit_ok_iff`, `mcInit_error_order`; rejected assignments in
    histories: `labelsAfter_badSet`, `dg_history_read_after_rejected`, `mc_history_read_after_rejected`
  * histories on one object (label reassignment interleaved with reads): `dg_history_read`,
    `dg_history_readSub`, `dgRead_indices_label_free`, `mc_coherent_after`, `mc_history_read`,
    `mcRead_indices_label_free`, `reportDG_eq_reads`, `reportMC_eq_reads`
-/
import Mathlib.Data.List.Basic
import QEModel.C03
import Mathlib.Algebra.Order.Field.Rat
import QEProofs.Lemmas.C03Period
import QEProofs.Lemmas.C03Reach
import QEProofs.Lemmas.C03Scc
import QEProofs.Lemmas.C03Sat
import QEProofs.Lemmas.C03Bfs
import QEProofs.Lemmas.C03Sub
import QEProofs.Lemmas.C03Cycle
import QEProofs.Lemmas.C03Dist
import Mathlib.Data.List.Perm.Subperm
namespace QE.C03

/-! ## reachability (`reachFrom`: frontier saturation with explicit saturation test) -/

/-- **T1 (reach, sound and complete).** Whenever the saturation test succeeds, the
    computed list is exactly the set of nodes reachable from `s`
    (`Reach g s v := Relation.ReflTransGen g.E s v`). -/
theorem reach_sound_complete (g : G) (hwf : g.wf = true) (s : Nat) (hs : s < g.n) (T : List Nat)
    (h : reachFrom g s = some T) (v : Nat) : v ∈ T ↔ Reach g s v :=
  reachFrom_spec g hwf s hs T h v

example : reachFrom ⟨4, [[1], [0, 2], [3], []]⟩ 1 = some [0, 1, 2, 3] ∧
    reachFrom ⟨4, [[1], [0, 2], [3], []]⟩ 2 = some [2, 3] := by decide

/-- **T2 (saturation is always reached).** `n` rounds suffice (each unsaturated round adds a
    node, and the lists are sub-lists of `range n`): the model never answers `none`/`stuck`
    for reachability, for any graph and start node. -/
theorem reach_saturates (g : G) (s : Nat) : (reachFrom g s).isSome = true :=
  reachFrom_isSome g s

/-- hence the class computation always answers -/
theorem sccClasses_total (g : G) : sccClasses g = some (sccList (reachTable g) g.n) := by
  unfold sccClasses; rw [reachOK_true g]; rfl

/-! ## communication classes = strongly connected components -/

/-- **T1 (classes are the partition by mutual reachability).** When the model answers
    `some Cs`: every listed class is `{v < n | m ↔ v}` for one of its members `m`
    (`char`), every node `< n` lies in a listed class (`cover`), two listed classes
    sharing a node are equal (`disj`), and no class is listed twice (`nodup`). -/
theorem scc_is_partition_by_mutual_reach (g : G) (hwf : g.wf = true) (Cs : List (List Nat))
    (h : sccClasses g = some Cs) : IsPartition g Cs :=
  sccClasses_partition g hwf Cs h

/-- two nodes are in the same listed class iff each reaches the other -/
theorem same_class_iff (g : G) (hwf : g.wf = true) (Cs : List (List Nat))
    (h : sccClasses g = some Cs) (u v : Nat) (hu : u < g.n) (hv : v < g.n) :
    (∃ C, C ∈ Cs ∧ u ∈ C ∧ v ∈ C) ↔ (Reach g u v ∧ Reach g v u) := by
  have hp := sccClasses_partition g hwf Cs h
  constructor
  · rintro ⟨C, hC, huC, hvC⟩
    obtain ⟨m, _, _, hch⟩ := hp.char C hC
    have h1 := (hch u).1 huC
    have h2 := (hch v).1 hvC
    exact ⟨h1.2.2.trans h2.2.1, h2.2.2.trans h1.2.1⟩
  · rintro ⟨h1, h2⟩
    obtain ⟨C, hC, huC⟩ := hp.cover u hu
    obtain ⟨m, _, _, hch⟩ := hp.char C hC
    have hm := (hch u).1 huC
    exact ⟨C, hC, huC, (hch v).2 ⟨hv, hm.2.1.trans h1, h2.trans hm.2.2⟩⟩

/-- **T1 (`is_irreducible` / `is_strongly_connected`).** The class count is 1 exactly when
    every node reaches every node. -/
theorem isSC_iff (g : G) (hwf : g.wf = true) (hn : 0 < g.n) (Cs : List (List Nat))
    (h : sccClasses g = some Cs) :
    isSC Cs = true ↔ ∀ u v, u < g.n → v < g.n → Reach g u v := by
  have hp := sccClasses_partition g hwf Cs h
  unfold isSC
  rw [beq_iff_eq]
  constructor
  · intro hlen u v hu hv
    obtain ⟨C, hC, huC⟩ := hp.cover u hu
    obtain ⟨C', hC', hvC'⟩ := hp.cover v hv
    have : C = C' := by
      match Cs, hlen with
      | [D], _ =>
        rw [List.mem_singleton] at hC hC'
        rw [hC, hC']
    subst this
    exact ((same_class_iff g hwf Cs h u v hu hv).1 ⟨C, hC, huC, hvC'⟩).1
  · intro hall
    match Cs, hp with
    | [], hp =>
      obtain ⟨C, hC, _⟩ := hp.cover 0 hn
      simp at hC
    | [_], _ => rfl
    | C :: C' :: rest, hp =>
      exfalso
      obtain ⟨m, hm, hmC, _⟩ := hp.char C (by simp)
      obtain ⟨m', hm', hmC', hch'⟩ := hp.char C' (by simp)
      have hmC'' : m ∈ C' := (hch' m).2 ⟨hm, hall m' m hm' hm, hall m m' hm hm'⟩
      have heq := hp.disj C (by simp) C' (by simp) m hmC hmC''
      have hnd := hp.nodup
      rw [heq] at hnd
      simp at hnd

example : sccClasses ⟨4, [[1], [0, 2], [3], []]⟩ = some [[0, 1], [2], [3]] := by decide

/-- **T1 (the `[np.arange(n)]` shortcut is consistent).** When there is exactly one class, the
    class list is `[[0, …, n-1]]` — what the `*_indices` properties return directly in the
    strongly connected case. -/
theorem isSC_classes_eq_range (g : G) (hwf : g.wf = true) (Cs : List (List Nat))
    (h : sccClasses g = some Cs) (hsc : isSC Cs = true) : Cs = [List.range g.n] := by
  have hp := sccClasses_partition g hwf Cs h
  obtain ⟨_, hCs⟩ := sccClasses_some g Cs h
  unfold isSC at hsc
  rw [beq_iff_eq] at hsc
  match Cs, hsc, hp, hCs with
  | [C], _, hp, hCs =>
    have hC : C ∈ sccList (reachTable g) g.n := by rw [← hCs]; simp
    obtain ⟨m, _, _, hCm⟩ := (mem_sccList _ _ _).1 hC
    have hall : ∀ v, v ∈ List.range g.n → comm (reachTable g) m v = true := by
      intro v hv
      obtain ⟨C', hC', hvC'⟩ := hp.cover v (List.mem_range.1 hv)
      rw [List.mem_singleton] at hC'
      subst hC'
      rw [hCm] at hvC'
      exact ((mem_sccOf _ _ _ _).1 hvC').2
    have : C = List.range g.n := by
      rw [hCm]; unfold sccOf
      exact List.filter_eq_self.2 hall
    rw [this]

/-! ## recurrent classes = sink components (`_condensation_lil`, `_find_sink_scc`) -/

/-- **T1 (sink label ⇔ no edge leaves the component)**, on the labels (`scc_proj`):
    the row of label `k` in the condensation built edge by edge is empty exactly when
    every stored edge starting in component `k` ends in component `k`. -/
theorem sink_iff_closed (g : G) (Cs : List (List Nat)) (k : Nat) (hk : k < Cs.length) :
    k ∈ sinkLabels g Cs ↔
      ∀ u v, u < g.n → g.E u v → classIdx Cs u = k → classIdx Cs v = k := by
  rw [mem_sinkLabels]
  exact ⟨fun h => h.2, fun h => ⟨hk, h⟩⟩

/-- **T1 (recurrent classes).** The reported sink classes are exactly the listed classes
    that no stored edge leaves. -/
theorem sink_classes_spec (g : G) (hwf : g.wf = true) (Cs : List (List Nat))
    (h : sccClasses g = some Cs) (C : List Nat) :
    C ∈ sinkClasses g Cs ↔ (C ∈ Cs ∧ ∀ u, u ∈ C → ∀ v, g.E u v → v ∈ C) := by
  have hp := sccClasses_partition g hwf Cs h
  unfold sinkClasses
  rw [List.mem_map]
  constructor
  · rintro ⟨k, hk, rfl⟩
    obtain ⟨hklen, hcl⟩ := (mem_sinkLabels g Cs k).1 hk
    have hget : Cs.getD k [] = Cs[k] := by
      rw [List.getD_eq_getElem?_getD, List.getElem?_eq_getElem hklen]; rfl
    rw [hget]
    refine ⟨List.getElem_mem hklen, ?_⟩
    intro u hu v he
    have hun := (E_lt g hwf he).1
    have hvn := (E_lt g hwf he).2
    have hcu := classIdx_eq_of_mem g Cs hp u k hklen hu
    have hcv := hcl u v hun he hcu
    have hlt := classIdx_lt g Cs hp v hvn
    have := mem_of_classIdx Cs v hlt
    simpa [hcv] using this
  · rintro ⟨hC, hcl⟩
    obtain ⟨k, hklen, rfl⟩ := List.getElem_of_mem hC
    refine ⟨k, (mem_sinkLabels g Cs k).2 ⟨hklen, ?_⟩, ?_⟩
    · intro u v hun he hcu
      have hlt := classIdx_lt g Cs hp u hun
      have hu : u ∈ Cs[k] := by
        have := mem_of_classIdx Cs u hlt
        simpa [hcu] using this
      exact classIdx_eq_of_mem g Cs hp v k hklen (hcl u hu v he)
    · rw [List.getD_eq_getElem?_getD, List.getElem?_eq_getElem hklen]; rfl

/-- **T1 (counts).** `num_*` are the lengths of the reported lists. -/
theorem counts_consistent (g : G) (Cs : List (List Nat)) :
    (sinkClasses g Cs).length = (sinkLabels g Cs).length := by
  unfold sinkClasses; rw [List.length_map]

example : sinkClasses ⟨4, [[1], [0, 2], [3], []]⟩ [[0, 1], [2], [3]] = [[3]] := by decide
example : sinkClasses ⟨5, [[1], [0], [0, 3], [4], [3]]⟩ [[0, 1], [2], [3, 4]] = [[0, 1], [3, 4]] := by decide

/-! ## period: Jarvis–Shier (`_compute_period`) -/

/-- **T1 (the level loop).** `level = zeros(n); for i in 1..: level[node_order[i]] =
    level[predecessors[node_order[i]]] + 1` (`levelArr`/`levelOf`) gives every node of the BFS
    queue the level noted when it was discovered (predecessor's level + 1, root 0): the loop
    never reads a level that has not been written yet. -/
theorem level_loop_correct (g : G) (hwf : g.wf = true) (hn : 0 < g.n)
    (e : Nat × Option Nat × Nat) (he : e ∈ bfs g) : levelOf g.n (bfs g) e.1 = (e.2.2 : Int) :=
  levelArr_spec g (bfs g) (bfs_inv g hwf hn) e he

example : bfs ⟨4, [[1, 2], [3], [3], [0]]⟩ = [(0, none, 0), (1, some 0, 1), (2, some 0, 1), (3, some 1, 2)] ∧
    levelArr 4 (bfs ⟨4, [[1, 2], [3], [3], [0]]⟩) = [0, 1, 1, 2] := by decide

/-- level of a visited node is the length of a walk from the root to it -/
theorem level_is_walk (g : G) (hwf : g.wf = true) (hn : 0 < g.n) (v : Nat)
    (hv : visited (bfs g) v = true) :
    ∃ l : Nat, levelOf g.n (bfs g) v = (l : Int) ∧ Walk g 0 v l := by
  have hinv := bfs_inv g hwf hn
  unfold visited at hv
  cases hl : visLookup (bfs g) v with
  | none => rw [hl] at hv; simp at hv
  | some e =>
    obtain ⟨hmem, he⟩ := mem_of_visLookup _ v e hl
    obtain ⟨a, p, l⟩ := e
    simp only at he; subst he
    exact ⟨l, levelArr_spec g (bfs g) hinv _ hmem, hinv.walk a p l hmem⟩

/-- **T1 (period divides every closed walk).** The number computed by the BFS/gcd loop
    divides the length of every closed walk of the graph — for every well-formed graph,
    strongly connected or not (the level table is only used as a potential; edges into
    nodes the BFS did not reach are treated as non-tree edges with level 0, which is why
    no guard on `allVisited` is needed here). -/
theorem period_dvd_closed_walk (g : G) (hwf : g.wf = true) (hn : 0 < g.n)
    (u L : Nat) (hw : Walk g u u L) : periodBFS g (bfs g) ∣ L := by
  have hinv := bfs_inv g hwf hn
  have h := walk_telescope g (levelOf g.n (bfs g)) ((periodBFS g (bfs g) : Nat) : Int)
    (fun a b hab => periodBFS_dvd_edge g (bfs g) hinv a b (E_lt g hwf hab).1 hab) hw
  simp only [sub_self, sub_zero] at h
  exact Int.natCast_dvd_natCast.1 h

/-- **T2 (period is the gcd).** If every node can walk back to node 0 and the BFS
    reached every node (the model's guard `allVisited`, under which alone `periodDG`
    answers), every common divisor of the closed-walk lengths divides the computed
    number.  With T1: the computed number is the gcd of the closed-walk lengths. -/
theorem period_is_gcd (g : G) (hwf : g.wf = true) (hn : 0 < g.n)
    (hall : allVisited g (bfs g) = true)
    (hback : ∀ v, v < g.n → ∃ r, Walk g v 0 r)
    (c : Nat) (hc : ∀ u L, Walk g u u L → c ∣ L) : c ∣ periodBFS g (bfs g) := by
  unfold periodBFS
  apply dvd_foldl_gcdStep _ _ _ _ (Nat.dvd_zero c)
  intro e he
  obtain ⟨u, v⟩ := e
  unfold nonTree at he
  have hmem := (List.mem_filter.1 he).1
  obtain ⟨hu, huv⟩ := (mem_edges g u v).1 hmem
  have hv := (E_lt g hwf huv).2
  unfold allVisited at hall
  rw [List.all_eq_true] at hall
  obtain ⟨lu, hlu, wu⟩ := level_is_walk g hwf hn u (hall u (List.mem_range.2 hu))
  obtain ⟨lv, hlv, wv⟩ := level_is_walk g hwf hn v (hall v (List.mem_range.2 hv))
  obtain ⟨r, wr⟩ := hback v hv
  have h1 : c ∣ lu + 1 + r := hc 0 _ ((wu.snoc huv).append wr)
  have h2 : c ∣ lv + r := hc 0 _ (wv.append wr)
  rw [← Int.natCast_dvd]
  unfold edgeVal
  simp only [hlu, hlv]
  have h1' : (c : Int) ∣ ((lu + 1 + r : Nat) : Int) := Int.natCast_dvd_natCast.2 h1
  have h2' : (c : Int) ∣ ((lv + r : Nat) : Int) := Int.natCast_dvd_natCast.2 h2
  have := Int.dvd_sub h1' h2'
  have heq : ((lu + 1 + r : Nat) : Int) - ((lv + r : Nat) : Int) = (lu : Int) - (lv : Int) + 1 := by
    push_cast; ring
  rw [heq] at this
  exact this

/-- non-vacuity: the directed 3-cycle is well-formed, completely visited, and its period is 3 -/
example : (⟨3, [[1], [2], [0]]⟩ : G).wf = true ∧ allVisited ⟨3, [[1], [2], [0]]⟩ (bfs ⟨3, [[1], [2], [0]]⟩) = true
    ∧ periodBFS ⟨3, [[1], [2], [0]]⟩ (bfs ⟨3, [[1], [2], [0]]⟩) = 3 := by decide

/-- **T1 (what `DiGraph.period` answers divides every closed walk)**, all branches of
    `_compute_period` (single node, self-loop shortcut, BFS). -/
theorem periodDG_dvd_closed_walk (g : G) (hwf : g.wf = true) (hn : 0 < g.n) (Cs : List (List Nat))
    (d : Nat) (proj : Option Vis) (h : periodDG g Cs = .ok (d, proj))
    (u L : Nat) (hw : Walk g u u L) : d ∣ L := by
  unfold periodDG at h
  split at h
  · cases h; exact Nat.one_dvd _
  split at h
  · cases h
  split at h
  · cases h; exact Nat.one_dvd _
  simp only at h
  split at h
  · cases h
  split at h
  · cases h; exact Nat.one_dvd _
  · cases h; exact period_dvd_closed_walk g hwf hn u L hw

/-- the self-loop shortcut is exact: a graph with a loop has a closed walk of length 1,
    so no number other than 1 divides all closed-walk lengths -/
theorem selfLoop_period_one (g : G) (h : hasSelfLoop g = true) (c : Nat)
    (hc : ∀ u L, Walk g u u L → c ∣ L) : c = 1 := by
  unfold hasSelfLoop at h
  rw [List.any_eq_true] at h
  obtain ⟨u, _, hu⟩ := h
  have : g.E u u := by unfold G.E; simpa using hu
  exact Nat.dvd_one.1 (hc u 1 (Walk.cons this (Walk.nil u)))

/-! ## cyclic classes (`cyclic_components_indices`) -/

/-- **T1 (every edge goes from class k to class k+1 mod d)**, stated on the level
    table: `level[v] ≡ level[u] + 1 (mod period)` on every stored edge. -/
theorem level_step_mod (g : G) (hwf : g.wf = true) (hn : 0 < g.n) (u v : Nat) (he : g.E u v) :
    levelOf g.n (bfs g) v % (periodBFS g (bfs g) : Int)
      = (levelOf g.n (bfs g) u + 1) % (periodBFS g (bfs g) : Int) := by
  have hinv := bfs_inv g hwf hn
  have h := periodBFS_dvd_edge g (bfs g) hinv u v (E_lt g hwf he).1 he
  unfold edgeVal at h
  simp only at h
  symm
  apply Int.emod_eq_emod_iff_emod_sub_eq_zero.2
  apply Int.emod_eq_zero_of_dvd
  have heq : levelOf g.n (bfs g) u + 1 - levelOf g.n (bfs g) v = levelOf g.n (bfs g) u - levelOf g.n (bfs g) v + 1 := by ring
  rw [heq]; exact h

theorem cyclicClasses_length (g : G) (d : Nat) (vis : Vis) (hd : d ≠ 1) :
    (cyclicClasses g d (some vis)).length = d := by
  unfold cyclicClasses
  have : (d == 1) = false := by simpa using hd
  simp [this]

/-- membership in the `k`-th cyclic class -/
theorem mem_cyclicClasses (g : G) (d : Nat) (vis : Vis) (hd : d ≠ 1) (k : Nat) (hk : k < d) (v : Nat) :
    v ∈ (cyclicClasses g d (some vis))[k]'(by rw [cyclicClasses_length g d vis hd]; exact hk)
      ↔ v < g.n ∧ levelOf g.n vis v % (d : Int) = (k : Int) := by
  unfold cyclicClasses
  have : (d == 1) = false := by simpa using hd
  simp [this]

/-- **T1 (cyclic classes).** When `DiGraph.period` answers `d` with a level table
    (the BFS branch, `d ≠ 1`): there are exactly `d` classes, every node `< n` lies in
    exactly one of them (class `level mod d`), and every stored edge leads from class `k`
    to class `(k+1) mod d`. -/
theorem cyclic_classes_spec (g : G) (hwf : g.wf = true) (hn : 0 < g.n) (Cs : List (List Nat))
    (d : Nat) (vis : Vis) (h : periodDG g Cs = .ok (d, some vis)) (hd0 : 0 < d) :
    ∃ hlen : (cyclicClasses g d (some vis)).length = d,
      (∀ v, v < g.n → ∃ k, ∃ hk : k < d, v ∈ (cyclicClasses g d (some vis))[k] ∧
          ∀ k', ∀ hk' : k' < d, v ∈ (cyclicClasses g d (some vis))[k'] → k' = k) ∧
      (∀ u v k, ∀ hk : k < d, g.E u v → u ∈ (cyclicClasses g d (some vis))[k] →
          v ∈ (cyclicClasses g d (some vis))[(k + 1) % d]'(by rw [hlen]; exact Nat.mod_lt _ hd0)) := by
  -- identify the branch
  have hbr : d ≠ 1 ∧ vis = bfs g ∧ d = periodBFS g (bfs g) := by
    unfold periodDG at h
    split at h
    · cases h
    split at h
    · cases h
    split at h
    · cases h
    simp only at h
    split at h
    · cases h
    split at h
    · cases h
    · rename_i hne
      cases h
      exact ⟨by simpa using hne, rfl, rfl⟩
  obtain ⟨hd1, rfl, hdeq⟩ := hbr
  have hlen := cyclicClasses_length g d (bfs g) hd1
  have hdpos : (0 : Int) < (d : Int) := by exact_mod_cast hd0
  refine ⟨hlen, ?_, ?_⟩
  · intro v hv
    have hnn : 0 ≤ levelOf g.n (bfs g) v % (d : Int) := Int.emod_nonneg _ (by omega)
    have hlt : levelOf g.n (bfs g) v % (d : Int) < (d : Int) := Int.emod_lt_of_pos _ hdpos
    refine ⟨(levelOf g.n (bfs g) v % (d : Int)).toNat, by omega, ?_, ?_⟩
    · rw [mem_cyclicClasses g d (bfs g) hd1 _ (by omega)]
      exact ⟨hv, by omega⟩
    · intro k' hk' hm
      rw [mem_cyclicClasses g d (bfs g) hd1 _ hk'] at hm
      omega
  · intro u v k hk he hu
    rw [mem_cyclicClasses g d (bfs g) hd1 _ hk] at hu
    rw [mem_cyclicClasses g d (bfs g) hd1 _ (Nat.mod_lt _ hd0)]
    refine ⟨(E_lt g hwf he).2, ?_⟩
    have hstep := level_step_mod g hwf hn u v he
    rw [← hdeq] at hstep
    rw [hstep, Int.add_emod, hu.2]
    have : ((k : Int) + 1 % (d : Int)) % (d : Int) = ((k : Int) + 1) % (d : Int) := by
      rw [Int.add_emod, Int.emod_emod_of_dvd _ (dvd_refl _), ← Int.add_emod]
    rw [this]
    push_cast
    rfl

/-- non-vacuity: a 4-cycle with a chord closing a 3-cycle has period 1 (the gcd reaches 1 in the
    loop); a bipartite strongly connected graph has period 2 and classes {0,2}, {1,3} -/
example : periodDG ⟨4, [[1, 2], [2], [3], [0]]⟩ [[0, 1, 2, 3]] = .ok (1, none) := by decide
example : (match periodDG ⟨4, [[1, 3], [0, 2], [1, 3], [0, 2]]⟩ [[0, 1, 2, 3]] with
    | .ok (d, some vis) => (d, cyclicClasses ⟨4, [[1, 3], [0, 2], [1, 3], [0, 2]]⟩ d (some vis))
    | _ => (0, [])) = (2, [[0, 2], [1, 3]]) := by decide

/-! ## the BFS reaches everything; `DiGraph.period` is the gcd of the closed-walk lengths -/

/-- **T2 (BFS completeness).** The queue BFS with fuel `n` visits every node reachable from
    node 0; in a strongly connected graph the guard `allVisited` holds. -/
theorem bfs_complete (g : G) (hwf : g.wf = true) (hn : 0 < g.n)
    (h : ∀ v, v < g.n → Reach g 0 v) : allVisited g (bfs g) = true :=
  bfs_allVisited g hwf hn h

/-- the model's own guard never fires: `periodDG` answers a number or `NotImplementedError` -/
theorem periodDG_never_stuck (g : G) (hwf : g.wf = true) (hn : 0 < g.n) (Cs : List (List Nat))
    (h : sccClasses g = some Cs) : periodDG g Cs ≠ .stuck := by
  intro hst
  unfold periodDG at hst
  split at hst
  · cases hst
  split at hst
  · cases hst
  rename_i hsc
  split at hst
  · cases hst
  simp only at hst
  split at hst
  · rename_i hnot
    have hsc' : isSC Cs = true := by simpa using hsc
    have hall := (isSC_iff g hwf hn Cs h).1 hsc'
    have := bfs_allVisited g hwf hn (fun v hv => hall 0 v hn hv)
    rw [this] at hnot
    simp at hnot
  · split at hst <;> cases hst

/-- in a strongly connected graph on at least two nodes the BFS/gcd value is positive -/
theorem periodBFS_pos (g : G) (hwf : g.wf = true) (hn : 2 ≤ g.n)
    (h01 : Reach g 0 1) (h10 : Reach g 1 0) : 0 < periodBFS g (bfs g) := by
  obtain ⟨a, wa⟩ := reach_walk g h01
  obtain ⟨b, wb⟩ := reach_walk g h10
  have hdvd := period_dvd_closed_walk g hwf (by omega) 0 (a + b) (wa.append wb)
  rcases Nat.eq_zero_or_pos (periodBFS g (bfs g)) with h0 | hpos
  · rw [h0] at hdvd
    have hab : a + b = 0 := Nat.eq_zero_of_zero_dvd hdvd
    have ha : a = 0 := by omega
    subst ha
    have := walk_zero_eq g wa
    omega
  · exact hpos

/-- **T1+T2 (`DiGraph.period` is the gcd of the closed-walk lengths).** For a graph on
    `n ≥ 2` nodes whose classes are `Cs`: whatever number `d` the model of `_compute_period`
    answers (self-loop shortcut, early exit at gcd 1, or full loop), `d` divides the length of
    every closed walk, and every number dividing all closed-walk lengths divides `d`. -/
theorem periodDG_is_gcd (g : G) (hwf : g.wf = true) (hn : 2 ≤ g.n) (Cs : List (List Nat))
    (hCs : sccClasses g = some Cs) (d : Nat) (proj : Option Vis)
    (h : periodDG g Cs = .ok (d, proj)) :
    (∀ u L, Walk g u u L → d ∣ L) ∧ (∀ c, (∀ u L, Walk g u u L → c ∣ L) → c ∣ d) := by
  refine ⟨fun u L hw => periodDG_dvd_closed_walk g hwf (by omega) Cs d proj h u L hw, ?_⟩
  intro c hc
  unfold periodDG at h
  split at h
  · rename_i h1
    have : g.n = 1 := by simpa using h1
    omega
  split at h
  · cases h
  rename_i hsc
  have hsc' : isSC Cs = true := by simpa using hsc
  have hall := (isSC_iff g hwf (by omega) Cs hCs).1 hsc'
  split at h
  · rename_i hloop
    cases h
    rw [selfLoop_period_one g hloop c hc]
  simp only at h
  split at h
  · cases h
  rename_i hvis
  have hvis' : allVisited g (bfs g) = true := by simpa using hvis
  have hgcd := period_is_gcd g hwf (by omega) hvis'
    (fun v hv => reach_walk g (hall v 0 hv (by omega))) c hc
  split at h
  · rename_i hone
    cases h
    have : periodBFS g (bfs g) = 1 := by simpa using hone
    rw [this] at hgcd; exact hgcd
  · cases h; exact hgcd

/-- **T2 (`DiGraph.period` is the gcd of the cycle lengths).** `WalkV g u u vs` is a closed
    walk leaving the nodes `vs` in turn; it is a (simple) cycle when `vs` is non-empty and has no
    repetition.  The answered `d` divides the length of every closed walk, in particular of every
    cycle, and every number dividing the lengths of all cycles divides `d` (closed walks
    decompose into cycles). -/
theorem periodDG_is_gcd_of_cycles (g : G) (hwf : g.wf = true) (hn : 2 ≤ g.n) (Cs : List (List Nat))
    (hCs : sccClasses g = some Cs) (d : Nat) (proj : Option Vis)
    (h : periodDG g Cs = .ok (d, proj)) :
    (∀ u vs, WalkV g u u vs → d ∣ vs.length) ∧
    (∀ c, (∀ u vs, WalkV g u u vs → vs ≠ [] → vs.Nodup → c ∣ vs.length) → c ∣ d) := by
  obtain ⟨h1, h2⟩ := periodDG_is_gcd g hwf hn Cs hCs d proj h
  refine ⟨fun u vs hw => h1 u _ hw.toWalk, ?_⟩
  intro c hc
  apply h2
  intro u L hw
  obtain ⟨vs, hvs, hl⟩ := hw.toWalkV
  rw [← hl]
  exact dvd_closed_of_dvd_cycles g c hc vs.length u vs rfl hvs

/-- non-vacuity: 0 → 1 → 2 → 0 is a simple cycle of the 3-cycle graph -/
example : WalkV ⟨3, [[1], [2], [0]]⟩ 0 0 [0, 1, 2] ∧ [0, 1, 2].Nodup :=
  ⟨WalkV.cons (by unfold G.E; decide) (WalkV.cons (by unfold G.E; decide)
    (WalkV.cons (by unfold G.E; decide) (WalkV.nil 0))), by decide⟩

/-- **T1 (cyclic classes, no side condition).** Same as `cyclic_classes_spec`, the positivity of
    the period being derived from strong connectivity. -/
theorem cyclic_classes_spec' (g : G) (hwf : g.wf = true) (Cs : List (List Nat))
    (hCs : sccClasses g = some Cs) (d : Nat) (vis : Vis) (h : periodDG g Cs = .ok (d, some vis)) :
    0 < d ∧ (cyclicClasses g d (some vis)).length = d ∧
      (∀ v, v < g.n → ∃ k, k < d ∧ v ∈ (cyclicClasses g d (some vis)).getD k [] ∧
          ∀ k', k' < d → v ∈ (cyclicClasses g d (some vis)).getD k' [] → k' = k) ∧
      (∀ u v k, k < d → g.E u v → u ∈ (cyclicClasses g d (some vis)).getD k [] →
          v ∈ (cyclicClasses g d (some vis)).getD ((k + 1) % d) []) := by
  -- identify the branch: n ≠ 1, strongly connected, d = periodBFS
  have hbr : g.n ≠ 1 ∧ isSC Cs = true ∧ d = periodBFS g (bfs g) := by
    unfold periodDG at h
    split at h
    · cases h
    rename_i hn1
    split at h
    · cases h
    rename_i hsc
    split at h
    · cases h
    simp only at h
    split at h
    · cases h
    split at h
    · cases h
    · cases h
      exact ⟨by simpa using hn1, by simpa using hsc, rfl⟩
  obtain ⟨hn1, hsc, hdeq⟩ := hbr
  have hn0 : 0 < g.n := by
    by_contra hc
    have hz : g.n = 0 := by omega
    have hp := sccClasses_partition g hwf Cs hCs
    unfold isSC at hsc
    rw [beq_iff_eq] at hsc
    match Cs, hsc, hp with
    | [C], _, hp =>
      obtain ⟨m, hm, _⟩ := hp.char C (by simp)
      omega
  have hn2 : 2 ≤ g.n := by omega
  have hall := (isSC_iff g hwf hn0 Cs hCs).1 hsc
  have hd0 : 0 < d := by
    rw [hdeq]; exact periodBFS_pos g hwf hn2 (hall 0 1 hn0 (by omega)) (hall 1 0 (by omega) hn0)
  obtain ⟨hlen, hpart, hedge⟩ := cyclic_classes_spec g hwf hn0 Cs d vis h hd0
  have hget : ∀ k, ∀ hk : k < d, (cyclicClasses g d (some vis)).getD k []
      = (cyclicClasses g d (some vis))[k]'(by rw [hlen]; exact hk) := by
    intro k hk
    rw [List.getD_eq_getElem?_getD, List.getElem?_eq_getElem (by rw [hlen]; exact hk)]; rfl
  refine ⟨hd0, hlen, ?_, ?_⟩
  · intro v hv
    obtain ⟨k, hk, hm, huniq⟩ := hpart v hv
    refine ⟨k, hk, by rw [hget k hk]; exact hm, ?_⟩
    intro k' hk' hm'
    rw [hget k' hk'] at hm'
    exact huniq k' hk' hm'
  · intro u v k hk he hu
    rw [hget k hk] at hu
    rw [hget _ (Nat.mod_lt _ hd0)]
    exact hedge u v k hk he hu

/-- the only branch of `_compute_period` that keeps a level table -/
theorem periodDG_bfs_branch (g : G) (Cs : List (List Nat)) (d : Nat) (vis : Vis)
    (h : periodDG g Cs = .ok (d, some vis)) :
    g.n ≠ 1 ∧ isSC Cs = true ∧ vis = bfs g ∧ d = periodBFS g (bfs g) ∧ d ≠ 1 := by
  unfold periodDG at h
  split at h
  · cases h
  rename_i hn1
  split at h
  · cases h
  rename_i hsc
  split at h
  · cases h
  simp only at h
  split at h
  · cases h
  split at h
  · cases h
  · rename_i hne
    cases h
    exact ⟨by simpa using hn1, by simpa using hsc, rfl, rfl, by simpa using hne⟩

/-- in a strongly connected graph every residue `k < period` is the level (mod period) of some
    node: walk once around a closed walk through node 0 -/
theorem level_residues_all (g : G) (hwf : g.wf = true) (hn : 2 ≤ g.n)
    (h01 : Reach g 0 1) (h10 : Reach g 1 0) (k : Nat) (hk : k < periodBFS g (bfs g)) :
    ∃ v, v < g.n ∧ levelOf g.n (bfs g) v % (periodBFS g (bfs g) : Int) = (k : Int) := by
  have hn0 : 0 < g.n := by omega
  obtain ⟨a, wa⟩ := reach_walk g h01
  obtain ⟨b, wb⟩ := reach_walk g h10
  have hW := wa.append wb
  have ha : a ≠ 0 := by
    intro h0; subst h0
    have := walk_zero_eq g wa
    omega
  have hdvd := period_dvd_closed_walk g hwf hn0 0 (a + b) hW
  have hle : periodBFS g (bfs g) ≤ a + b := Nat.le_of_dvd (by omega) hdvd
  obtain ⟨x, hx⟩ := walk_prefix g hW k (by omega)
  refine ⟨x, walk_end_lt g hwf hx hn0, ?_⟩
  have hinv := bfs_inv g hwf hn0
  have ht := walk_telescope g (levelOf g.n (bfs g)) ((periodBFS g (bfs g) : Nat) : Int)
    (fun p q hpq => periodBFS_dvd_edge g (bfs g) hinv p q (E_lt g hwf hpq).1 hpq) hx
  rw [bfs_root g hwf hn0, sub_zero] at ht
  have h1 := (Int.emod_eq_emod_iff_emod_sub_eq_zero).2 (Int.emod_eq_zero_of_dvd ht)
  rw [← h1]
  exact Int.emod_eq_of_lt (by omega) (by exact_mod_cast hk)

/-- **T1 (no cyclic class is empty).** Together with `cyclic_classes_spec'`: the `period` lists
    reported by `cyclic_components_indices` form a partition of the nodes into non-empty classes. -/
theorem cyclic_classes_nonempty (g : G) (hwf : g.wf = true) (Cs : List (List Nat))
    (hCs : sccClasses g = some Cs) (d : Nat) (vis : Vis) (h : periodDG g Cs = .ok (d, some vis))
    (k : Nat) (hk : k < d) : ∃ v, v ∈ (cyclicClasses g d (some vis)).getD k [] := by
  obtain ⟨hn1, hsc, rfl, hdeq, hd1⟩ := periodDG_bfs_branch g Cs d vis h
  obtain ⟨hd0, hlen, _, _⟩ := cyclic_classes_spec' g hwf Cs hCs d (bfs g) h
  have hn0 : 0 < g.n := by
    by_contra hc
    have hz : g.n = 0 := by omega
    have hp := sccClasses_partition g hwf Cs hCs
    unfold isSC at hsc
    rw [beq_iff_eq] at hsc
    match Cs, hsc, hp with
    | [C], _, hp =>
      obtain ⟨m, hm, _⟩ := hp.char C (by simp)
      omega
  have hn2 : 2 ≤ g.n := by omega
  have hall := (isSC_iff g hwf hn0 Cs hCs).1 hsc
  obtain ⟨v, hv, hres⟩ := level_residues_all g hwf hn2 (hall 0 1 hn0 (by omega)) (hall 1 0 (by omega) hn0)
    k (by rw [← hdeq]; exact hk)
  refine ⟨v, ?_⟩
  rw [List.getD_eq_getElem?_getD, List.getElem?_eq_getElem (by rw [hlen]; exact hk)]
  simp only [Option.getD_some]
  rw [mem_cyclicClasses g d (bfs g) hd1 k hk]
  exact ⟨hv, by rw [hdeq]; exact hres⟩

/-! ## reducible chains: lcm over the recurrent classes -/

/-- one step of the loop of `MarkovChain.period` is the least common multiple -/
theorem lcmStep_eq_lcm (d p : Nat) : lcmStep d p = Nat.lcm d p := rfl

/-- **T1 (period of a reducible chain = lcm over the recurrent classes).** When the loop of
    `MarkovChain.period` answers `d`, there is one period `p` per class in the list — the answer
    of `DiGraph.period` on the class's sub-graph — and `d` is the fold of `lcm` over them. -/
theorem periodRec_spec (g : G) (Cls : List (List Nat)) (d0 d : Nat) (h : periodRec g Cls d0 = .ok d) :
    ∃ ps : List Nat,
      List.Forall₂ (fun C p => ∃ Cs' proj, sccClasses (subgraph g C) = some Cs' ∧
          periodDG (subgraph g C) Cs' = .ok (p, proj)) Cls ps ∧
      d = ps.foldl Nat.lcm d0 := by
  induction Cls generalizing d0 with
  | nil =>
    unfold periodRec at h
    cases h
    exact ⟨[], List.Forall₂.nil, rfl⟩
  | cons C rest ih =>
    unfold periodRec at h
    simp only at h
    split at h
    · cases h
    · rename_i Cs' hCs'
      split at h
      · rename_i p proj hp
        obtain ⟨ps, hfa, hd⟩ := ih _ h
        exact ⟨p :: ps, List.Forall₂.cons ⟨Cs', proj, hCs', hp⟩ hfa, by rw [hd]; rfl⟩
      · cases h
      · cases h

/-- `MarkovChain.period` of a reducible chain runs that loop over the sink classes from 1 -/
theorem periodMC_reducible (g : G) (Cs : List (List Nat)) (h : isSC Cs = false) :
    periodMC g Cs = periodRec g (sinkClasses g Cs) 1 := by
  unfold periodMC; simp [h]

/-- **T1+T2 (the period of a class is the gcd of the closed walks inside it).** For a class `C`
    with at least two nodes: the number `p` that `DiGraph.period` answers on `subgraph(C)` divides
    the length of every closed walk of `g` that stays inside `C`, and every number dividing all
    those lengths divides `p`. -/
theorem class_period_is_gcd (g : G) (C : List Nat) (hC : 2 ≤ C.length) (Cs' : List (List Nat))
    (hCs' : sccClasses (subgraph g C) = some Cs') (p : Nat) (proj : Option Vis)
    (h : periodDG (subgraph g C) Cs' = .ok (p, proj)) :
    (∀ u L, WalkIn g C u u L → p ∣ L) ∧ (∀ c, (∀ u L, WalkIn g C u u L → c ∣ L) → c ∣ p) := by
  have hn : 2 ≤ (subgraph g C).n := by simpa [subgraph] using hC
  obtain ⟨h1, h2⟩ := periodDG_is_gcd (subgraph g C) (subgraph_wf g C) hn Cs' hCs' p proj h
  refine ⟨fun u L hw => h1 _ L (sub_walk_from g C hw), ?_⟩
  intro c hc
  apply h2
  intro i L hw
  by_cases hi : i < C.length
  · exact hc _ L (sub_walk_to g C hw hi).2
  · cases hw with
    | nil => exact Nat.dvd_zero c
    | cons e _ =>
      exfalso
      unfold G.E at e
      rw [subgraph_out_ge g C i (by omega)] at e
      simp at e

/-- in a recurrent (closed) class the closed walks inside the class are all the closed walks
    through its nodes -/
theorem closed_class_walks (g : G) (C : List Nat) (hcl : ∀ u, u ∈ C → ∀ v, g.E u v → v ∈ C)
    (u L : Nat) (hu : u ∈ C) : WalkIn g C u u L ↔ Walk g u u L :=
  ⟨fun h => h.toWalk, fun h => h.toWalkIn hcl hu⟩

/-- single-node class: `DiGraph.period` answers 1 (both the loop and the no-edge case) -/
theorem class_period_singleton (g : G) (u : Nat) (Cs' : List (List Nat)) :
    periodDG (subgraph g [u]) Cs' = .ok (1, none) := by
  unfold periodDG; simp [subgraph]

theorem forall₂_and_left {α β : Type} (P : α → Prop) (R : α → β → Prop) (l : List α) (ps : List β)
    (h : List.Forall₂ R l ps) (hP : ∀ a, a ∈ l → P a) : List.Forall₂ (fun a b => P a ∧ R a b) l ps := by
  induction h with
  | nil => exact List.Forall₂.nil
  | cons hab _ ih =>
    exact List.Forall₂.cons ⟨hP _ (by simp), hab⟩ (ih (fun a ha => hP a (by simp [ha])))

/-- **T1+T2 (`MarkovChain.period` of a reducible chain).** If the chain's classes are `Cs`
    (more than one) and the model of `MarkovChain.period` answers `d`, then `d` is the lcm
    (fold from 1) of one number `p` per recurrent class `C` — the classes no edge leaves — where
    for a class with at least two states `p` is the gcd of the lengths of the closed walks through
    the states of `C` (it divides them all, and every common divisor divides it), and `p = 1` for
    a single-state class. -/
theorem period_reducible_spec (g : G) (hwf : g.wf = true) (Cs : List (List Nat))
    (hCs : sccClasses g = some Cs) (hred : isSC Cs = false) (d : Nat) (h : periodMC g Cs = .ok d) :
    ∃ ps : List Nat,
      List.Forall₂ (fun C p =>
        (C ∈ Cs ∧ ∀ u, u ∈ C → ∀ v, g.E u v → v ∈ C) ∧
        (2 ≤ C.length → (∀ u L, u ∈ C → Walk g u u L → p ∣ L) ∧
            ∀ c, (∀ u L, u ∈ C → Walk g u u L → c ∣ L) → c ∣ p) ∧
        (C.length = 1 → p = 1)) (sinkClasses g Cs) ps ∧
      d = ps.foldl Nat.lcm 1 := by
  rw [periodMC_reducible g Cs hred] at h
  obtain ⟨ps, hfa, hd⟩ := periodRec_spec g _ 1 d h
  refine ⟨ps, ?_, hd⟩
  have hfa' := forall₂_and_left (fun C => C ∈ Cs ∧ ∀ u, u ∈ C → ∀ v, g.E u v → v ∈ C) _ _ _ hfa
    (fun C hC => (sink_classes_spec g hwf Cs hCs C).1 hC)
  refine hfa'.imp ?_
  rintro C p ⟨⟨hC, hcl⟩, Cs', proj, hCs', hp⟩
  refine ⟨⟨hC, hcl⟩, ?_, ?_⟩
  · intro h2
    obtain ⟨h1, h3⟩ := class_period_is_gcd g C h2 Cs' hCs' p proj hp
    refine ⟨fun u L hu hw => h1 u L ((closed_class_walks g C hcl u L hu).2 hw), ?_⟩
    intro c hc
    apply h3
    intro u L hw
    exact hc u L hw.start_mem hw.toWalk
  · intro h1
    match C, h1 with
    | [u], _ =>
      rw [class_period_singleton g u Cs'] at hp
      cases hp; rfl

/-- non-vacuity: two recurrent classes of periods 2 and 3 and a transient node feeding both -/
example : periodMC ⟨6, [[1], [0], [3], [4], [2], [0, 2]]⟩ [[0, 1], [2, 3, 4], [5]] = .ok 6 := by decide
example : (⟨6, [[1], [0], [3], [4], [2], [0, 2]]⟩ : G).wf = true ∧
    sccClasses ⟨6, [[1], [0], [3], [4], [2], [0, 2]]⟩ = some [[0, 1], [2, 3, 4], [5]] ∧
    isSC [[0, 1], [2, 3, 4], [5]] = false ∧
    sinkClasses ⟨6, [[1], [0], [3], [4], [2], [0, 2]]⟩ [[0, 1], [2, 3, 4], [5]] = [[0, 1], [2, 3, 4]] := by decide
example : sccClasses (subgraph ⟨6, [[1], [0], [3], [4], [2], [0, 2]]⟩ [2, 3, 4]) = some [[0, 1, 2]] := by decide
example : (match periodDG (subgraph ⟨6, [[1], [0], [3], [4], [2], [0, 2]]⟩ [2, 3, 4]) [[0, 1, 2]] with
    | .ok (p, _) => p | _ => 0) = 3 := by decide

/-! ## labelled variants (`annotate_nodes`) -/

/-- the labelled lists are the index lists mapped through the labels, class by class -/
theorem showClasses_labelled (lab : Nat → String) (Cs : List (List Nat)) :
    showClasses lab Cs = showMat lab Cs := rfl

/-! ## the oracle's bound on the walk length -/

theorem walkV_nodes_lt (g : G) (hwf : g.wf = true) {u w : Nat} {vs : List Nat} (h : WalkV g u w vs) :
    ∀ x, x ∈ vs → x < g.n := by
  induction h with
  | nil u => intro x hx; simp at hx
  | cons e _ ih =>
    intro x hx
    rcases List.mem_cons.1 hx with rfl | hx'
    · exact (E_lt g hwf e).1
    · exact ih x hx'

/-- **T2 (closed walks of length ≤ n decide the period).** A number dividing the length of every
    closed walk with at most `n` edges divides the length of every closed walk: closed walks split
    into simple cycles, and a simple cycle leaves pairwise different nodes `< n`.  (This is the fact
    the harness' independent oracle relies on: it takes the gcd of the lengths `k ≤ n` with
    `trace(A^k) > 0`.) -/
theorem closed_walks_upto_n_suffice (g : G) (hwf : g.wf = true) (c : Nat)
    (hc : ∀ u L, L ≤ g.n → Walk g u u L → c ∣ L) : ∀ u L, Walk g u u L → c ∣ L := by
  intro u L hw
  obtain ⟨vs, hvs, hl⟩ := hw.toWalkV
  rw [← hl]
  apply dvd_closed_of_dvd_cycles g c ?_ vs.length u vs rfl hvs
  intro u' vs' hw' _ hnd
  apply hc u' vs'.length ?_ hw'.toWalk
  have hsub : vs' ⊆ List.range g.n := fun x hx => List.mem_range.2 (walkV_nodes_lt g hwf hw' x hx)
  have := (List.subperm_of_subset hnd hsub).length_le
  simpa using this


/-! ## uniqueness of the cyclic classes, degenerate branches -/

/-- **T2 (the cyclic classes are unique up to rotation).** Any assignment `c` of integers to the
    nodes that advances by one (mod `d`) along every edge differs from the level table by the
    constant `c 0` (mod `d`) on every node the BFS visited — so the list reported by
    `cyclic_components_indices` is the only partition with the "class k → class k+1" property, up to
    the rotation fixed by putting node 0 in class 0. -/
theorem cyclic_classes_unique (g : G) (hwf : g.wf = true) (hn : 0 < g.n) (d : Int) (c : Nat → Int)
    (hc : ∀ u v, g.E u v → d ∣ c u - c v + 1) (v : Nat) (hv : visited (bfs g) v = true) :
    d ∣ (c v - c 0) - levelOf g.n (bfs g) v := by
  obtain ⟨l, hl, hw⟩ := level_is_walk g hwf hn v hv
  have h := walk_telescope g c d hc hw
  rw [hl]
  have : (l : Int) - (c v - c 0) = -((c v - c 0) - (l : Int)) := by ring
  rw [this] at h
  exact (Int.dvd_neg).1 h

/-- single node: `DiGraph.period` is 1 by convention (no edge) or because of the loop -/
theorem periodDG_single_node (g : G) (hn : g.n = 1) (Cs : List (List Nat)) :
    periodDG g Cs = .ok (1, none) := by
  unfold periodDG; simp [hn]

/-- irreducible chain: `MarkovChain.period` is `DiGraph.period` -/
theorem periodMC_irreducible (g : G) (Cs : List (List Nat)) (hsc : isSC Cs = true) (d : Nat)
    (proj : Option Vis) (h : periodDG g Cs = .ok (d, proj)) : periodMC g Cs = .ok d := by
  unfold periodMC; simp [hsc, h]

/-- period 1 (`is_aperiodic`): the single cyclic class is the whole node set -/
theorem cyclic_classes_aperiodic (g : G) (proj : Option Vis) :
    cyclicClasses g 1 proj = [List.range g.n] := by
  unfold cyclicClasses
  cases proj <;> simp


/-! ## sub-graphs, and independence of the storage order -/

/-- **T1 (`DiGraph.subgraph`).** For a node list without repetition, position `i` has an edge to
    position `j` in the sub-graph exactly when `nodes[i] → nodes[j]` is an edge of the graph. -/
theorem subgraph_edge_iff (g : G) (nodes : List Nat) (hnd : nodes.Nodup) (i j : Nat) :
    (subgraph g nodes).E i j ↔
      ∃ hi : i < nodes.length, ∃ hj : j < nodes.length, g.E nodes[i] nodes[j] := by
  rw [subgraph_E]
  constructor
  · rintro ⟨hi, v, hv, hvC, hidx⟩
    have hj : j < nodes.length := by rw [← hidx]; exact List.idxOf_lt_length_of_mem hvC
    refine ⟨hi, hj, ?_⟩
    have : nodes[j] = v := by subst hidx; exact List.getElem_idxOf hj
    rw [this]; exact hv
  · rintro ⟨hi, hj, he⟩
    exact ⟨hi, nodes[j], he, List.getElem_mem hj, List.Nodup.idxOf_getElem hnd j hj⟩



/-- **T1 (skipping the tree edges changes nothing).** The gcd over the non-tree edges (what the
    loop over `self.csgraph - bfs_tree_csr` computes, early exit included) equals the gcd of
    `level[u] - level[v] + 1` over all stored edges. -/
theorem periodBFS_eq_all_edges (g : G) (hwf : g.wf = true) (hn : 0 < g.n) :
    periodBFS g (bfs g) = g.edges.foldl (fun d e => Nat.gcd d (edgeVal (levelOf g.n (bfs g)) e).natAbs) 0 := by
  have hinv := bfs_inv g hwf hn
  have hfold : ∀ (es : List (Nat × Nat)) (d : Nat),
      es.foldl (fun d e => Nat.gcd d (edgeVal (levelOf g.n (bfs g)) e).natAbs) d
        = es.foldl (gcdStep (levelOf g.n (bfs g))) d := by
    intro es
    induction es with
    | nil => intro d; rfl
    | cons e es ih => intro d; simp only [List.foldl_cons]; rw [gcdStep_eq]; exact ih _
  rw [hfold]
  apply Nat.dvd_antisymm
  · apply dvd_foldl_gcdStep _ _ _ _ (Nat.dvd_zero _)
    intro e he
    obtain ⟨u, v⟩ := e
    obtain ⟨hu, huv⟩ := (mem_edges g u v).1 he
    rw [← Int.natCast_dvd]
    exact periodBFS_dvd_edge g (bfs g) hinv u v hu huv
  · unfold periodBFS
    apply dvd_foldl_gcdStep _ _ _ _ (Nat.dvd_zero _)
    intro e he
    apply foldl_gcdStep_dvd_mem
    unfold nonTree at he
    exact (List.mem_filter.1 he).1

theorem walk_congr (g g' : G) (hE : ∀ u v, g.E u v ↔ g'.E u v) {u w L : Nat} (h : Walk g u w L) :
    Walk g' u w L := by
  induction h with
  | nil u => exact Walk.nil u
  | cons e _ ih => exact Walk.cons ((hE _ _).1 e) ih

/-- **T1 (the period does not depend on the storage order / on the BFS tree).** Two well-formed
    graphs on the same `n ≥ 2` nodes with the same edge relation (e.g. the same CSR matrix with the
    column indices of each row stored in a different order) get the same `DiGraph.period`. -/
theorem period_order_independent (g g' : G) (hwf : g.wf = true) (hwf' : g'.wf = true)
    (hn : g.n = g'.n) (hn2 : 2 ≤ g.n) (hE : ∀ u v, g.E u v ↔ g'.E u v)
    (Cs Cs' : List (List Nat)) (hCs : sccClasses g = some Cs) (hCs' : sccClasses g' = some Cs')
    (d d' : Nat) (proj proj' : Option Vis)
    (h : periodDG g Cs = .ok (d, proj)) (h' : periodDG g' Cs' = .ok (d', proj')) : d = d' := by
  obtain ⟨h1, h2⟩ := periodDG_is_gcd g hwf hn2 Cs hCs d proj h
  obtain ⟨h1', h2'⟩ := periodDG_is_gcd g' hwf' (by omega) Cs' hCs' d' proj' h'
  apply Nat.dvd_antisymm
  · exact h2' d (fun u L hw => h1 u L (walk_congr g' g (fun a b => (hE a b).symm) hw))
  · exact h2 d' (fun u L hw => h1' u L (walk_congr g g' hE hw))

theorem reach_congr (g g' : G) (hE : ∀ u v, g.E u v ↔ g'.E u v) {u v : Nat} (h : Reach g u v) :
    Reach g' u v := by
  induction h with
  | refl => exact Relation.ReflTransGen.refl
  | tail _ e ih => exact Relation.ReflTransGen.tail ih ((hE _ _).1 e)

/-- **T1 (the classes do not depend on the storage order).** -/
theorem sccClasses_order_independent (g g' : G) (hwf : g.wf = true) (hwf' : g'.wf = true)
    (hn : g.n = g'.n) (hE : ∀ u v, g.E u v ↔ g'.E u v) : sccClasses g = sccClasses g' := by
  rw [sccClasses_total g, sccClasses_total g', ← hn]
  have hcomm : ∀ u v, u < g.n → v < g.n → comm (reachTable g) u v = comm (reachTable g') u v := by
    intro u v hu hv
    rw [Bool.eq_iff_iff, comm_iff g hwf (reachOK_true g) u v hu hv,
      comm_iff g' hwf' (reachOK_true g') u v (by omega) (by omega)]
    constructor
    · rintro ⟨a, b⟩; exact ⟨reach_congr g g' hE a, reach_congr g g' hE b⟩
    · rintro ⟨a, b⟩
      exact ⟨reach_congr g' g (fun x y => (hE x y).symm) a, reach_congr g' g (fun x y => (hE x y).symm) b⟩
  have hscc : ∀ u, u < g.n → sccOf (reachTable g) g.n u = sccOf (reachTable g') g.n u := by
    intro u hu
    unfold sccOf
    apply List.filter_congr
    intro v hv
    exact hcomm u v hu (List.mem_range.1 hv)
  congr 1
  unfold sccList
  have hfil : (List.range g.n).filter (fun u => (sccOf (reachTable g) g.n u).head? == some u)
      = (List.range g.n).filter (fun u => (sccOf (reachTable g') g.n u).head? == some u) := by
    apply List.filter_congr
    intro u hu
    rw [hscc u (List.mem_range.1 hu)]
  rw [hfil]
  apply List.map_congr_left
  intro u hu
  exact hscc u (List.mem_range.1 (List.mem_filter.1 hu).1)


/-- non-vacuity: the same graph with row 0 stored as `1,2` and as `2,1` -/
example : (∀ u v, (⟨3, [[1, 2], [0], [0]]⟩ : G).E u v ↔ (⟨3, [[2, 1], [0], [0]]⟩ : G).E u v) := by
  intro u v
  unfold G.E G.out
  match u with
  | 0 => simp; omega
  | 1 => simp
  | 2 => simp
  | (k + 3) => simp

/-! ## explicitly stored zeros -/

/-- **T1 (stored zeros are not edges).** After `elimZeros`, `v` is a column of a row exactly when
    the row stores `v` at some position whose value flag is non-zero; the length is unchanged. -/
theorem elimZeros_spec (stored nz : List (List Nat)) :
    (elimZeros stored nz).length = min stored.length nz.length ∧
    ∀ row flags, (row, flags) ∈ stored.zip nz → ∀ v,
      v ∈ ((row.zip flags).filter fun p => p.2 != 0).map Prod.fst ↔ ∃ f, (v, f) ∈ row.zip flags ∧ f ≠ 0 := by
  refine ⟨by simp [elimZeros], ?_⟩
  intro row flags _ v
  simp only [List.mem_map, List.mem_filter, bne_iff_ne, ne_eq, Prod.exists, exists_and_right, exists_eq_right]

example : elimZeros [[1, 0], [1, 0]] [[1, 0], [1, 1]] = [[1], [1, 0]] := by decide


/-! ## recurrent and transient states -/

/-- a set of nodes that no edge leaves contains everything reachable from its members -/
theorem closed_under_reach (g : G) (C : List Nat) (hcl : ∀ u, u ∈ C → ∀ v, g.E u v → v ∈ C)
    {u v : Nat} (hu : u ∈ C) (h : Reach g u v) : v ∈ C := by
  induction h with
  | refl => exact hu
  | tail _ e ih => exact hcl _ ih _ e

/-- **T1 (recurrent state ⇔ every reachable state leads back).** A state lies in one of the
    reported recurrent classes exactly when it is recurrent in the textbook sense for a finite
    chain: from whatever state it can reach, it can be reached again. -/
theorem recurrent_iff_returns (g : G) (hwf : g.wf = true) (Cs : List (List Nat))
    (h : sccClasses g = some Cs) (u : Nat) (hu : u < g.n) :
    (∃ C, C ∈ sinkClasses g Cs ∧ u ∈ C) ↔ ∀ v, Reach g u v → Reach g v u := by
  have hp := sccClasses_partition g hwf Cs h
  constructor
  · rintro ⟨C, hC, huC⟩ v huv
    obtain ⟨hCs, hcl⟩ := (sink_classes_spec g hwf Cs h C).1 hC
    have hvC := closed_under_reach g C hcl huC huv
    have hv : v < g.n := reach_lt g hwf hu huv
    exact ((same_class_iff g hwf Cs h u v hu hv).1 ⟨C, hCs, huC, hvC⟩).2
  · intro hret
    obtain ⟨C, hC, huC⟩ := hp.cover u hu
    refine ⟨C, (sink_classes_spec g hwf Cs h C).2 ⟨hC, ?_⟩, huC⟩
    intro w hw x hwx
    obtain ⟨m, _, _, hch⟩ := hp.char C hC
    have hwn := ((hch w).1 hw).1
    have hxn := (E_lt g hwf hwx).2
    -- u ↔ w, w → x, hence u ⟶ x and (recurrence) x ⟶ u ⟶ w
    have huw := (same_class_iff g hwf Cs h u w hu hwn).1 ⟨C, hC, huC, hw⟩
    have hux : Reach g u x := Relation.ReflTransGen.tail huw.1 hwx
    have hxu := hret x hux
    obtain ⟨C', hC', huC', hxC'⟩ := (same_class_iff g hwf Cs h u x hu hxn).2 ⟨hux, hxu⟩
    have : C' = C := hp.disj C' hC' C hC u huC' huC
    rw [← this]; exact hxC'

/-- **T1 (transient state).** A state outside every recurrent class can reach a state from which
    there is no way back. -/
theorem transient_iff_escapes (g : G) (hwf : g.wf = true) (Cs : List (List Nat))
    (h : sccClasses g = some Cs) (u : Nat) (hu : u < g.n) :
    (¬ ∃ C, C ∈ sinkClasses g Cs ∧ u ∈ C) ↔ ∃ v, Reach g u v ∧ ¬ Reach g v u := by
  rw [recurrent_iff_returns g hwf Cs h u hu]
  constructor
  · intro hn
    by_contra hc
    exact hn (fun v huv => by
      by_contra hvu
      exact hc ⟨v, huv, hvu⟩)
  · rintro ⟨v, huv, hvu⟩ hall
    exact hvu (hall v huv)


open Classical in
/-- number of states reachable from `u` (proof-side measure) -/
noncomputable def reachCount (g : G) (u : Nat) : Nat :=
  ((List.range g.n).filter fun v => decide (Reach g u v)).length

open Classical in
theorem reachCount_lt (g : G) (u x : Nat) (hu : u < g.n) (hux : Reach g u x) (hxu : ¬ Reach g x u) :
    reachCount g x < reachCount g u := by
  unfold reachCount
  have hsub : List.Sublist ((List.range g.n).filter fun v => decide (Reach g x v))
      ((List.range g.n).filter fun v => decide (Reach g u v)) := by
    apply List.monotone_filter_right
    intro a ha
    simp only [decide_eq_true_eq] at ha ⊢
    exact hux.trans ha
  have hle := hsub.length_le
  rcases Nat.lt_or_eq_of_le hle with hlt | heq
  · exact hlt
  · exfalso
    have hEq := hsub.eq_of_length heq
    have hmem : u ∈ (List.range g.n).filter fun v => decide (Reach g u v) := by
      simp [hu, Relation.ReflTransGen.refl]
    rw [← hEq] at hmem
    simp only [List.mem_filter, decide_eq_true_eq] at hmem
    exact hxu hmem.2

/-- **T1 (every state leads to a recurrent class).** From every state some state of a reported
    recurrent class can be reached; a recurrent state reaches its own class in 0 steps. -/
theorem every_state_reaches_recurrent_class (g : G) (hwf : g.wf = true) (Cs : List (List Nat))
    (h : sccClasses g = some Cs) (u : Nat) (hu : u < g.n) :
    ∃ C, C ∈ sinkClasses g Cs ∧ ∃ v, v ∈ C ∧ Reach g u v := by
  have key : ∀ k u, u < g.n → reachCount g u = k →
      ∃ C, C ∈ sinkClasses g Cs ∧ ∃ v, v ∈ C ∧ Reach g u v := by
    intro k
    induction k using Nat.strong_induction_on with
    | _ k ih =>
      intro u hu hk
      by_cases hret : ∀ v, Reach g u v → Reach g v u
      · obtain ⟨C, hC, huC⟩ := (recurrent_iff_returns g hwf Cs h u hu).2 hret
        exact ⟨C, hC, u, huC, Relation.ReflTransGen.refl⟩
      · have hex : ∃ x, Reach g u x ∧ ¬ Reach g x u := by
          by_contra hc
          exact hret (fun v huv => by
            by_contra hvu
            exact hc ⟨v, huv, hvu⟩)
        obtain ⟨x, hux, hxu⟩ := hex
        have hlt := reachCount_lt g u x hu hux hxu
        obtain ⟨C, hC, v, hvC, hxv⟩ := ih (reachCount g x) (by omega) x (reach_lt g hwf hu hux) rfl
        exact ⟨C, hC, v, hvC, hux.trans hxv⟩
  exact key _ u hu rfl


/-- **T1 (count bounds).** `num_recurrent_classes ≤ num_communication_classes ≤ n`. -/
theorem class_count_bounds (g : G) (Cs : List (List Nat)) (h : sccClasses g = some Cs) :
    (sinkLabels g Cs).length ≤ Cs.length ∧ Cs.length ≤ g.n := by
  constructor
  · unfold sinkLabels
    calc ((List.range Cs.length).filter _).length ≤ (List.range Cs.length).length := List.length_filter_le _ _
      _ = Cs.length := List.length_range
  · obtain ⟨_, rfl⟩ := sccClasses_some g Cs h
    unfold sccList
    rw [List.length_map]
    calc ((List.range g.n).filter _).length ≤ (List.range g.n).length := List.length_filter_le _ _
      _ = g.n := List.length_range

theorem classIdx_single (n u : Nat) (hu : u < n) : classIdx [List.range n] u = 0 := by
  unfold classIdx
  simp [List.findIdx_cons, hu]

/-- **T1 (irreducible ⇒ the one recurrent class is the whole state space).** When there is a
    single class, the sink computation on the condensation returns exactly that class — the
    `[np.arange(n)]` shortcut of `sink_strongly_connected_components_indices` changes nothing. -/
theorem irreducible_all_recurrent (g : G) (hwf : g.wf = true) (Cs : List (List Nat))
    (h : sccClasses g = some Cs) (hsc : isSC Cs = true) :
    sinkClasses g Cs = [List.range g.n] ∧ (sinkLabels g Cs).length = 1 := by
  have hCs := isSC_classes_eq_range g hwf Cs h hsc
  subst hCs
  have hcond : condEdges g [List.range g.n] = [] := by
    rw [List.eq_nil_iff_forall_not_mem]
    rintro ⟨a, b⟩ hm
    obtain ⟨u, v, hu, he, hne, _, _⟩ := (mem_condEdges g _ a b).1 hm
    rw [classIdx_single g.n u hu, classIdx_single g.n v (E_lt g hwf he).2] at hne
    exact hne rfl
  have hlab : sinkLabels g [List.range g.n] = [0] := by
    unfold sinkLabels
    rw [hcond]
    simp [List.range_succ]
  unfold sinkClasses
  rw [hlab]
  simp


/-- **T1 (a recurrent class exists).** A chain / graph on at least one node has at least one
    recurrent class (`num_recurrent_classes ≥ 1`). -/
theorem recurrent_class_exists (g : G) (hwf : g.wf = true) (hn : 0 < g.n) (Cs : List (List Nat))
    (h : sccClasses g = some Cs) : 1 ≤ (sinkLabels g Cs).length := by
  obtain ⟨C, hC, _⟩ := every_state_reaches_recurrent_class g hwf Cs h 0 hn
  rw [← counts_consistent g Cs]
  exact List.length_pos_of_mem hC

/-- non-vacuity: in 0 → 1 ⇄ 2, 3 → 3 (plus 0 → 3) state 0 is transient, {1,2} and {3} are recurrent -/
example : sccClasses ⟨4, [[1, 3], [2], [1], [3]]⟩ = some [[0], [1, 2], [3]] ∧
    sinkClasses ⟨4, [[1, 3], [2], [1], [3]]⟩ [[0], [1, 2], [3]] = [[1, 2], [3]] ∧
    (⟨4, [[1, 3], [2], [1], [3]]⟩ : G).wf = true := by decide
example : isSC [[0, 1, 2]] = true ∧ sccClasses ⟨3, [[1], [2], [0]]⟩ = some [[0, 1, 2]] ∧
    sinkClasses ⟨3, [[1], [2], [0]]⟩ [[0, 1, 2]] = [[0, 1, 2]] := by decide

/-! ## `MarkovChain.period` never raises -/

theorem class_nodup (g : G) (Cs : List (List Nat)) (h : sccClasses g = some Cs) (C : List Nat)
    (hC : C ∈ Cs) : C.Nodup := by
  obtain ⟨_, rfl⟩ := sccClasses_some g Cs h
  obtain ⟨m, _, _, rfl⟩ := (mem_sccList _ _ _).1 hC
  unfold sccOf
  exact List.Nodup.filter _ List.nodup_range

/-- the sub-graph on a recurrent class is strongly connected -/
theorem subgraph_recurrent_sc (g : G) (hwf : g.wf = true) (Cs : List (List Nat))
    (h : sccClasses g = some Cs) (C : List Nat) (hC : C ∈ Cs)
    (hcl : ∀ u, u ∈ C → ∀ v, g.E u v → v ∈ C) (i j : Nat) (hi : i < C.length) (hj : j < C.length) :
    Reach (subgraph g C) i j := by
  have hp := sccClasses_partition g hwf Cs h
  have hnd := class_nodup g Cs h C hC
  obtain ⟨m, _, _, hch⟩ := hp.char C hC
  have hui : C[i] ∈ C := List.getElem_mem hi
  have huj : C[j] ∈ C := List.getElem_mem hj
  have hr := ((same_class_iff g hwf Cs h C[i] C[j] ((hch _).1 hui).1 ((hch _).1 huj).1).1
    ⟨C, hC, hui, huj⟩).1
  obtain ⟨L, hw⟩ := reach_walk g hr
  have hw' := sub_walk_from g C (hw.toWalkIn hcl hui)
  rw [List.Nodup.idxOf_getElem hnd i hi, List.Nodup.idxOf_getElem hnd j hj] at hw'
  exact walk_reach _ hw'

/-- `DiGraph.period` answers a positive number on every strongly connected graph -/
theorem periodDG_ok_of_sc (g : G) (hwf : g.wf = true) (hn : 0 < g.n) (Cs : List (List Nat))
    (h : sccClasses g = some Cs) (hall : ∀ u v, u < g.n → v < g.n → Reach g u v) :
    ∃ d proj, periodDG g Cs = .ok (d, proj) ∧ 0 < d := by
  have hsc : isSC Cs = true := (isSC_iff g hwf hn Cs h).2 hall
  have hvis := bfs_allVisited g hwf hn (fun v hv => hall 0 v hn hv)
  unfold periodDG
  by_cases h1 : g.n = 1
  · exact ⟨1, none, by simp [h1], by decide⟩
  · have hn2 : 2 ≤ g.n := by omega
    have hpos := periodBFS_pos g hwf hn2 (hall 0 1 hn (by omega)) (hall 1 0 (by omega) hn)
    by_cases hloop : hasSelfLoop g = true
    · exact ⟨1, none, by simp [h1, hsc, hloop], by decide⟩
    · by_cases hone : periodBFS g (bfs g) = 1
      · exact ⟨1, none, by simp [h1, hsc, hloop, hvis, hone], by decide⟩
      · exact ⟨periodBFS g (bfs g), some (bfs g), by simp [h1, hsc, hloop, hvis, hone], hpos⟩

theorem periodRec_total (g : G) (Cls : List (List Nat)) (d0 : Nat) (hd0 : 0 < d0)
    (hgood : ∀ C, C ∈ Cls → ∃ Cs' p proj, sccClasses (subgraph g C) = some Cs' ∧
      periodDG (subgraph g C) Cs' = .ok (p, proj) ∧ 0 < p) :
    ∃ d, periodRec g Cls d0 = .ok d ∧ 0 < d := by
  induction Cls generalizing d0 with
  | nil => exact ⟨d0, rfl, hd0⟩
  | cons C rest ih =>
    obtain ⟨Cs', p, proj, h1, h2, hp⟩ := hgood C (by simp)
    unfold periodRec
    simp only [h1, h2]
    apply ih
    · rw [lcmStep_eq_lcm]; exact Nat.lcm_pos hd0 hp
    · intro C' hC'; exact hgood C' (by simp [hC'])

/-- **T1 (`MarkovChain.period` is total and positive).** For every well-formed graph on at least
    one node — irreducible or not, whatever its classes — the model of `MarkovChain.period` answers
    a positive number: the `NotImplementedError` of `DiGraph.period` can never surface through
    `MarkovChain.period`, because the sub-graph on a recurrent class is strongly connected. -/
theorem periodMC_total (g : G) (hwf : g.wf = true) (hn : 0 < g.n) (Cs : List (List Nat))
    (h : sccClasses g = some Cs) : ∃ d, periodMC g Cs = .ok d ∧ 0 < d := by
  by_cases hsc : isSC Cs = true
  · have hall := (isSC_iff g hwf hn Cs h).1 hsc
    obtain ⟨d, proj, hd, hpos⟩ := periodDG_ok_of_sc g hwf hn Cs h hall
    exact ⟨d, periodMC_irreducible g Cs hsc d proj hd, hpos⟩
  · have hred : isSC Cs = false := by simpa using hsc
    rw [periodMC_reducible g Cs hred]
    apply periodRec_total g _ 1 (by decide)
    intro C hC
    obtain ⟨hCs, hcl⟩ := (sink_classes_spec g hwf Cs h C).1 hC
    have hp := sccClasses_partition g hwf Cs h
    obtain ⟨m, _, hmC, _⟩ := hp.char C hCs
    have hlen : 0 < C.length := List.length_pos_of_mem hmC
    have hn' : 0 < (subgraph g C).n := by simpa [subgraph] using hlen
    have hall : ∀ u v, u < (subgraph g C).n → v < (subgraph g C).n → Reach (subgraph g C) u v := by
      intro u v hu hv
      exact subgraph_recurrent_sc g hwf Cs h C hCs hcl u v (by simpa [subgraph] using hu) (by simpa [subgraph] using hv)
    obtain ⟨d, proj, hd, hpos⟩ := periodDG_ok_of_sc (subgraph g C) (subgraph_wf g C) hn' _
      (sccClasses_total (subgraph g C)) hall
    exact ⟨_, d, proj, sccClasses_total (subgraph g C), hd, hpos⟩

example : periodMC ⟨4, [[1, 3], [2], [1], [3]]⟩ [[0], [1, 2], [3]] = .ok 2 := by decide


/-! ## error kind of `DiGraph.period`; labelled variants -/

/-- **T1 (`DiGraph.period` raises `NotImplementedError` exactly on graphs with more than one node
    that are not strongly connected)** -/
theorem periodDG_notImpl_iff (g : G) (Cs : List (List Nat)) :
    periodDG g Cs = .notImpl ↔ (g.n ≠ 1 ∧ isSC Cs = false) := by
  constructor
  · intro hni
    unfold periodDG at hni
    split at hni
    · cases hni
    rename_i h1
    split at hni
    · rename_i hsc
      exact ⟨by simpa using h1, by simpa using hsc⟩
    split at hni
    · cases hni
    simp only at hni
    split at hni
    · cases hni
    split at hni <;> cases hni
  · rintro ⟨h1, hsc⟩
    unfold periodDG
    simp [h1, hsc]

example : periodDG ⟨2, [[1], [1]]⟩ [[0], [1]] = .notImpl := by decide

/-- **T1 (labelled variants annotate the very same lists).** For each of the three pairs
    (`*_components_indices`, `*_components`) there is one list of classes that both reads print —
    the indices variant with the node numbers, the labelled variant with `node_labels[u]` in place
    of every `u`. -/
theorem labelled_variants_consistent (g : G) (hwf : g.wf = true) (hn : 0 < g.n) (L : Option (List Int)) :
    (∃ Cl, dgRead g L "scc" = showClasses (labeller none) Cl ∧ dgRead g L "scclab" = showClasses (labeller L) Cl) ∧
    (∃ Cl, dgRead g L "sink" = showClasses (labeller none) Cl ∧ dgRead g L "sinklab" = showClasses (labeller L) Cl) ∧
    ((∃ Cl, dgRead g L "cyc" = showClasses (labeller none) Cl ∧ dgRead g L "cyclab" = showClasses (labeller L) Cl) ∨
      (dgRead g L "cyc" = "ERR:NotImplementedError" ∧ dgRead g L "cyclab" = "ERR:NotImplementedError")) := by
  unfold dgRead
  rw [sccClasses_total g]
  simp only
  refine ⟨⟨_, rfl, rfl⟩, ⟨_, rfl, rfl⟩, ?_⟩
  cases hper : periodDG g (sccList (reachTable g) g.n) with
  | ok a => exact Or.inl ⟨_, rfl, rfl⟩
  | notImpl => exact Or.inr ⟨rfl, rfl⟩
  | stuck =>
    exact absurd hper (periodDG_never_stuck g hwf hn _ (sccClasses_total g))

/-- the label printed for node `u` is the `u`-th entry of the label list -/
theorem labeller_some (L : List Int) (u : Nat) (hu : u < L.length) :
    labeller (some L) u = toString L[u] := by
  unfold labeller
  simp [hu]


example : dgRead ⟨3, [[1], [0], [0]]⟩ (some [7, 8, 9]) "scc" = "0,1;2" ∧
    dgRead ⟨3, [[1], [0], [0]]⟩ (some [7, 8, 9]) "scclab" = "7,8;9" ∧
    dgRead ⟨3, [[1], [0], [0]]⟩ (some [7, 8, 9]) "sinklab" = "7,8" ∧
    dgRead ⟨3, [[1], [0], [0]]⟩ (some [7, 8, 9]) "cyclab" = "ERR:NotImplementedError" := by decide

/-! ## bounds on the period -/

/-- every non-empty closed walk contains a simple cycle -/
theorem exists_simple_cycle (g : G) :
    ∀ n u vs, vs.length = n → vs ≠ [] → WalkV g u u vs →
      ∃ u' vs', WalkV g u' u' vs' ∧ vs' ≠ [] ∧ vs'.Nodup := by
  intro n
  induction n using Nat.strong_induction_on with
  | _ n ih =>
    intro u vs hlen hne hw
    by_cases hnd : vs.Nodup
    · exact ⟨u, vs, hw, hne, hnd⟩
    · obtain ⟨p, x, m, s, hl⟩ := not_nodup_split vs hnd
      subst hl
      have h1 := WalkV.split (p ++ x :: m) s hw
      have h2 := WalkV.split p m h1.1
      exact ih (x :: m).length (by rw [← hlen]; simp; omega) x (x :: m) rfl (by simp) h2.2

/-- **T1 (`1 ≤ period ≤ n`).** On a strongly connected graph with at least two nodes the answer of
    `DiGraph.period` is at least 1 and at most the number of nodes (it divides the length of a
    simple cycle, which visits pairwise different nodes). -/
theorem period_le_n (g : G) (hwf : g.wf = true) (hn : 2 ≤ g.n) (Cs : List (List Nat))
    (hCs : sccClasses g = some Cs) (d : Nat) (proj : Option Vis)
    (h : periodDG g Cs = .ok (d, proj)) : 1 ≤ d ∧ d ≤ g.n := by
  have hn0 : 0 < g.n := by omega
  -- the branch that answers is the strongly connected one
  have hsc : isSC Cs = true := by
    by_contra hc
    have hred : isSC Cs = false := by simpa using hc
    have := (periodDG_notImpl_iff g Cs).2 ⟨by omega, hred⟩
    rw [this] at h; cases h
  have hall := (isSC_iff g hwf hn0 Cs hCs).1 hsc
  obtain ⟨a, wa⟩ := reach_walk g (hall 0 1 hn0 (by omega))
  obtain ⟨b, wb⟩ := reach_walk g (hall 1 0 (by omega) hn0)
  have ha : a ≠ 0 := by
    intro h0; subst h0
    have := walk_zero_eq g wa
    omega
  obtain ⟨vs, hvs, hl⟩ := (wa.append wb).toWalkV
  have hne : vs ≠ [] := by
    intro hc; rw [hc] at hl; simp at hl; omega
  obtain ⟨u', vs', hw', hne', hnd'⟩ := exists_simple_cycle g vs.length 0 vs rfl hne hvs
  have hdvd := (periodDG_is_gcd_of_cycles g hwf hn Cs hCs d proj h).1 u' vs' hw'
  have hpos : 0 < vs'.length := List.length_pos_iff.2 hne'
  have hsub : vs' ⊆ List.range g.n := fun x hx => List.mem_range.2 (walkV_nodes_lt g hwf hw' x hx)
  have hle : vs'.length ≤ g.n := by
    have := (List.subperm_of_subset hnd' hsub).length_le
    simpa using this
  have hd0 : 0 < d := Nat.pos_of_dvd_of_pos hdvd hpos
  exact ⟨hd0, le_trans (Nat.le_of_dvd hpos hdvd) hle⟩


/-- non-vacuity: the bound is attained by the directed 4-cycle -/
example : (match periodDG ⟨4, [[1], [2], [3], [0]]⟩ [[0, 1, 2, 3]] with | .ok (d, _) => d | _ => 0) = 4 := by decide

/-! ## walks across cyclic classes; the lcm of the class periods -/

/-- **T1 (after `L` steps the chain is `L` classes further).** Along any walk of length `L` the
    level (mod period) advances by `L`: a walk from cyclic class `k` ends in class `(k + L) mod d`;
    in particular every return to the same class takes a multiple of `d` steps. -/
theorem walk_class_shift (g : G) (hwf : g.wf = true) (hn : 0 < g.n) (u w L : Nat) (hw : Walk g u w L) :
    levelOf g.n (bfs g) w % (periodBFS g (bfs g) : Int)
      = (levelOf g.n (bfs g) u + (L : Int)) % (periodBFS g (bfs g) : Int) := by
  have hinv := bfs_inv g hwf hn
  have ht := walk_telescope g (levelOf g.n (bfs g)) ((periodBFS g (bfs g) : Nat) : Int)
    (fun p q hpq => periodBFS_dvd_edge g (bfs g) hinv p q (E_lt g hwf hpq).1 hpq) hw
  symm
  apply Int.emod_eq_emod_iff_emod_sub_eq_zero.2
  apply Int.emod_eq_zero_of_dvd
  have heq : levelOf g.n (bfs g) u + (L : Int) - levelOf g.n (bfs g) w
      = (L : Int) - (levelOf g.n (bfs g) w - levelOf g.n (bfs g) u) := by ring
  rw [heq]; exact ht

theorem dvd_foldl_lcm_init (ps : List Nat) (d0 : Nat) : d0 ∣ ps.foldl Nat.lcm d0 := by
  induction ps generalizing d0 with
  | nil => exact dvd_refl _
  | cons p ps ih => exact Nat.dvd_trans (Nat.dvd_lcm_left d0 p) (ih _)

theorem dvd_foldl_lcm_mem (ps : List Nat) (d0 p : Nat) (hp : p ∈ ps) : p ∣ ps.foldl Nat.lcm d0 := by
  induction ps generalizing d0 with
  | nil => simp at hp
  | cons q ps ih =>
    rcases List.mem_cons.1 hp with rfl | h
    · exact Nat.dvd_trans (Nat.dvd_lcm_right d0 p) (dvd_foldl_lcm_init ps _)
    · exact ih _ h

theorem foldl_lcm_dvd (ps : List Nat) (d0 m : Nat) (h0 : d0 ∣ m) (hps : ∀ p, p ∈ ps → p ∣ m) :
    ps.foldl Nat.lcm d0 ∣ m := by
  induction ps generalizing d0 with
  | nil => exact h0
  | cons q ps ih =>
    exact ih _ (Nat.lcm_dvd h0 (hps q (by simp))) (fun p hp => hps p (by simp [hp]))

/-- **T1 (the period of a reducible chain is the least common multiple).** With `ps` the periods
    of the recurrent classes (as in `period_reducible_spec`): every class period divides the chain's
    period, the chain's period divides every common multiple of them, and the chain is aperiodic
    (`period = 1`) exactly when every recurrent class is. -/
theorem lcm_fold_characterisation (ps : List Nat) :
    (∀ p, p ∈ ps → p ∣ ps.foldl Nat.lcm 1) ∧
    (∀ m, (∀ p, p ∈ ps → p ∣ m) → ps.foldl Nat.lcm 1 ∣ m) ∧
    (ps.foldl Nat.lcm 1 = 1 ↔ ∀ p, p ∈ ps → p = 1) := by
  refine ⟨fun p hp => dvd_foldl_lcm_mem ps 1 p hp, fun m hm => foldl_lcm_dvd ps 1 m (Nat.one_dvd _) hm, ?_⟩
  constructor
  · intro h1 p hp
    have := dvd_foldl_lcm_mem ps 1 p hp
    rw [h1] at this
    exact Nat.dvd_one.1 this
  · intro hall
    apply Nat.dvd_one.1
    exact foldl_lcm_dvd ps 1 1 (dvd_refl _) (fun p hp => by rw [hall p hp])

example : [2, 3, 1].foldl Nat.lcm 1 = 6 := by decide



/-- **T1 (labelled variants of the chain annotate the very same lists).** -/
theorem mc_labelled_variants_consistent (g : G) (hwf : g.wf = true) (hn : 0 < g.n) (L : Option (List Int)) :
    (∃ Cl, mcRead g L "comm" = showClasses (labeller none) Cl ∧ mcRead g L "commlab" = showClasses (labeller L) Cl) ∧
    (∃ Cl, mcRead g L "rec" = showClasses (labeller none) Cl ∧ mcRead g L "reclab" = showClasses (labeller L) Cl) ∧
    ((∃ Cl, mcRead g L "cyc" = showClasses (labeller none) Cl ∧ mcRead g L "cyclab" = showClasses (labeller L) Cl) ∨
      (mcRead g L "cyc" = "ERR:NotImplementedError" ∧ mcRead g L "cyclab" = "ERR:NotImplementedError")) := by
  unfold mcRead
  rw [sccClasses_total g]
  simp only
  refine ⟨⟨_, rfl, rfl⟩, ⟨_, rfl, rfl⟩, ?_⟩
  by_cases hsc : isSC (sccList (reachTable g) g.n) = true
  · cases hper : periodDG g (sccList (reachTable g) g.n) with
    | ok a => exact Or.inl ⟨cyclicClasses g a.1 a.2, by simp [hsc], by simp [hsc]⟩
    | notImpl => exact Or.inr ⟨by simp [hsc], by simp [hsc]⟩
    | stuck => exact absurd hper (periodDG_never_stuck g hwf hn _ (sccClasses_total g))
  · have : isSC (sccList (reachTable g) g.n) = false := by simpa using hsc
    exact Or.inr ⟨by simp [this], by simp [this]⟩


example : mcRead ⟨3, [[1], [0], [0]]⟩ (some [7, 8, 9]) "commlab" = "7,8;9" ∧
    mcRead ⟨3, [[1], [0], [0]]⟩ (some [7, 8, 9]) "rec" = "0,1" ∧
    mcRead ⟨3, [[1], [0], [0]]⟩ (some [7, 8, 9]) "cyclab" = "ERR:NotImplementedError" ∧
    mcRead ⟨2, [[1], [0]]⟩ (some [7, 8]) "cyclab" = "7;8" := by decide

/-! ## object histories: reads depend only on the graph and the labels in force -/

/-- the labels in force after a history (`node_labels` / `state_values` as last assigned) -/
def labelsAfter (L : Option (List Int)) : List Step → Option (List Int)
  | [] => L
  | .setLabels L' :: rest => labelsAfter L' rest
  | .read _ :: rest => labelsAfter L rest
  | .readSub _ :: rest => labelsAfter L rest
  | .badSet _ :: rest => labelsAfter L rest

theorem dgRun_append (s : DGState) (a b : List Step) :
    dgRun s (a ++ b) = dgRun s a ++ dgRun ⟨s.g, labelsAfter s.labels a⟩ b := by
  induction a generalizing s with
  | nil => simp [dgRun, labelsAfter]
  | cons st a ih =>
    cases st with
    | setLabels L => simp only [List.cons_append, dgRun, dgStep, labelsAfter]; exact ih _
    | read w => simp only [List.cons_append, dgRun, dgStep, labelsAfter, List.cons.injEq, true_and]; exact ih _
    | readSub nodes => simp only [List.cons_append, dgRun, dgStep, labelsAfter, List.cons.injEq, true_and]; exact ih _
    | badSet a => simp only [List.cons_append, dgRun, dgStep, labelsAfter, List.cons.injEq, true_and]; exact ih _

/-- **History theorem (`DiGraph`).** Whatever was read or assigned before, a read answers what a
    fresh object with the same graph and the labels assigned last would answer: no read leaves a
    trace, and only the last assignment of `node_labels` counts. -/
theorem dg_history_read (s : DGState) (pre : List Step) (w : String) :
    dgRun s (pre ++ [.read w]) = dgRun s pre ++ [dgRead s.g (labelsAfter s.labels pre) w] := by
  rw [dgRun_append]; rfl

theorem dg_history_readSub (s : DGState) (pre : List Step) (nodes : List Nat) :
    dgRun s (pre ++ [.readSub nodes]) = dgRun s pre ++ [dgReadSub s.g (labelsAfter s.labels pre) nodes] := by
  rw [dgRun_append]; rfl

/-- index variants, counts and period do not depend on the labels at all -/
theorem dgRead_indices_label_free (g : G) (L L' : Option (List Int)) (w : String)
    (hw : w ≠ "scclab" ∧ w ≠ "sinklab" ∧ w ≠ "cyclab") : dgRead g L w = dgRead g L' w := by
  obtain ⟨h1, h2, h3⟩ := hw
  unfold dgRead
  cases sccClasses g with
  | none => rfl
  | some Cs =>
    simp only
    split <;> first | rfl | (exfalso; simp_all)

/-! MarkovChain: the digraph is built lazily and relabelled by the `state_values` setter -/

def mcStateAfter (s : MCState) : List Step → MCState
  | [] => s
  | st :: rest => mcStateAfter (mcStep s st).1 rest

theorem mcRun_append (s : MCState) (a b : List Step) :
    mcRun s (a ++ b) = mcRun s a ++ mcRun (mcStateAfter s a) b := by
  induction a generalizing s with
  | nil => simp [mcRun, mcStateAfter]
  | cons st a ih =>
    cases st with
    | setLabels L => simp only [List.cons_append, mcRun, mcStep, mcStateAfter]; exact ih _
    | read w => simp only [List.cons_append, mcRun, mcStep, mcStateAfter, List.cons.injEq, true_and]; exact ih _
    | readSub nodes => simp only [List.cons_append, mcRun, mcStep, mcStateAfter, List.cons.injEq, true_and]; exact ih _
    | badSet a => simp only [List.cons_append, mcRun, mcStep, mcStateAfter, List.cons.injEq, true_and]; exact ih _

/-- the object invariant: a built digraph carries the chain's current `state_values` -/
def MCState.Coherent (s : MCState) : Prop := s.digraph = none ∨ s.digraph = some s.values

theorem mcStep_coherent (s : MCState) (h : s.Coherent) (st : Step) : (mcStep s st).1.Coherent := by
  cases st with
  | setLabels L =>
    rcases h with h | h <;> simp [mcStep, MCState.Coherent, h]
  | read w =>
    rcases h with h | h <;> simp [mcStep, MCState.Coherent, h]
  | readSub nodes => exact h
  | badSet a => exact h

/-- **T1 (the invariant is kept by every history)**; a fresh chain (`digraph = none`) satisfies it -/
theorem mc_coherent_after (s : MCState) (h : s.Coherent) (l : List Step) :
    (mcStateAfter s l).Coherent ∧ (mcStateAfter s l).g = s.g ∧
      (mcStateAfter s l).values = labelsAfter s.values l := by
  induction l generalizing s with
  | nil => exact ⟨h, rfl, rfl⟩
  | cons st l ih =>
    obtain ⟨h1, h2, h3⟩ := ih (mcStep s st).1 (mcStep_coherent s h st)
    refine ⟨h1, ?_, ?_⟩
    · rw [show mcStateAfter s (st :: l) = mcStateAfter (mcStep s st).1 l from rfl, h2]
      cases st <;> rfl
    · rw [show mcStateAfter s (st :: l) = mcStateAfter (mcStep s st).1 l from rfl, h3]
      cases st <;> rfl

/-- **History theorem (`MarkovChain`).** Same statement as for `DiGraph`: whatever was read or
    assigned before — before or after the digraph was built — a read of the chain answers what a
    fresh chain with the `state_values` assigned last would answer. -/
theorem mc_history_read (s : MCState) (h : s.Coherent) (pre : List Step) (w : String) :
    mcRun s (pre ++ [.read w]) = mcRun s pre ++ [mcRead s.g (labelsAfter s.values pre) w] := by
  rw [mcRun_append]
  obtain ⟨hc, hg, hv⟩ := mc_coherent_after s h pre
  simp only [mcRun, mcStep]
  rcases hc with hc | hc <;> simp [hc, hg, hv]

/-- index variants, counts and period of a chain do not depend on the labels at all -/
theorem mcRead_indices_label_free (g : G) (L L' : Option (List Int)) (w : String)
    (hw : w ≠ "commlab" ∧ w ≠ "reclab" ∧ w ≠ "cyclab") : mcRead g L w = mcRead g L' w := by
  obtain ⟨h1, h2, h3⟩ := hw
  unfold mcRead
  cases sccClasses g with
  | none => rfl
  | some Cs =>
    simp only
    split <;> first | rfl | (exfalso; simp_all)

example : dgRun ⟨⟨2, [[1], [1]]⟩, some [10, 20]⟩ [.read "scclab", .setLabels (some [7, 8]), .read "scclab"]
    = ["10;20", "7;8"] := by decide
example : mcRun ⟨⟨2, [[0, 1], [1]]⟩, some [10, 20], none⟩ [.read "commlab", .setLabels (some [7, 8]), .read "commlab",
    .setLabels none, .read "commlab"] = ["10;20", "7;8", "0;1"] := by decide


/-! ## cyclic classes and the storage order -/

theorem periodDG_none_one (g : G) (Cs : List (List Nat)) (d : Nat)
    (h : periodDG g Cs = .ok (d, none)) : d = 1 := by
  unfold periodDG at h
  split at h
  · cases h; rfl
  split at h
  · cases h
  split at h
  · cases h; rfl
  simp only at h
  split at h
  · cases h
  split at h
  · cases h; rfl
  · cases h

/-- **T1 (the cyclic classes do not depend on the storage order / on the BFS tree).** Two
    well-formed graphs on the same nodes with the same edge relation get the same list of cyclic
    classes, class by class (not merely up to rotation: node 0 is in class 0 in both). -/
theorem cyclic_classes_order_independent (g g' : G) (hwf : g.wf = true) (hwf' : g'.wf = true)
    (hn : g.n = g'.n) (hn2 : 2 ≤ g.n) (hE : ∀ u v, g.E u v ↔ g'.E u v)
    (Cs Cs' : List (List Nat)) (hCs : sccClasses g = some Cs) (hCs' : sccClasses g' = some Cs')
    (d d' : Nat) (proj proj' : Option Vis)
    (h : periodDG g Cs = .ok (d, proj)) (h' : periodDG g' Cs' = .ok (d', proj')) :
    cyclicClasses g d proj = cyclicClasses g' d' proj' := by
  have hdd : d = d' := period_order_independent g g' hwf hwf' hn hn2 hE Cs Cs' hCs hCs' d d' proj proj' h h'
  subst hdd
  by_cases hd1 : d = 1
  · subst hd1
    rw [cyclic_classes_aperiodic, cyclic_classes_aperiodic, hn]
  · -- both answers carry a level table
    cases proj with
    | none => exact absurd (periodDG_none_one g Cs d h) hd1
    | some vis =>
    cases proj' with
    | none => exact absurd (periodDG_none_one g' Cs' d h') hd1
    | some vis' =>
    obtain ⟨_, hsc, rfl, hdeq, _⟩ := periodDG_bfs_branch g Cs d vis h
    obtain ⟨_, hsc', rfl, hdeq', _⟩ := periodDG_bfs_branch g' Cs' d vis' h'
    have hn0 : 0 < g.n := by omega
    have hn0' : 0 < g'.n := by omega
    have hall := (isSC_iff g hwf hn0 Cs hCs).1 hsc
    have hvis := bfs_allVisited g hwf hn0 (fun v hv => hall 0 v hn0 hv)
    have hinv' := bfs_inv g' hwf' hn0'
    -- the other graph's level table advances by one along the edges of `g`
    have hc : ∀ u v, g.E u v → (d : Int) ∣ levelOf g'.n (bfs g') u - levelOf g'.n (bfs g') v + 1 := by
      intro u v he
      have he' := (hE u v).1 he
      have := periodBFS_dvd_edge g' (bfs g') hinv' u v (E_lt g' hwf' he').1 he'
      rw [← hdeq'] at this
      exact this
    have hcong : ∀ v, v < g.n →
        levelOf g.n (bfs g) v % (d : Int) = levelOf g'.n (bfs g') v % (d : Int) := by
      intro v hv
      unfold allVisited at hvis
      rw [List.all_eq_true] at hvis
      have hu := cyclic_classes_unique g hwf hn0 (d : Int) (levelOf g'.n (bfs g')) hc v
        (hvis v (List.mem_range.2 hv))
      rw [bfs_root g' hwf' hn0', sub_zero] at hu
      symm
      apply Int.emod_eq_emod_iff_emod_sub_eq_zero.2
      exact Int.emod_eq_zero_of_dvd hu
    unfold cyclicClasses
    have hb : (d == 1) = false := by simpa using hd1
    simp only [hb, Bool.false_eq_true, if_false]
    apply List.map_congr_left
    intro k _
    have hr : List.range g'.n = List.range g.n := by rw [hn]
    rw [hr]
    apply List.filter_congr
    intro v hv
    rw [hcong v (List.mem_range.1 hv)]


/-- non-vacuity: the bipartite graph 0 → {1,3}, 1 → {0,2}, … with the rows stored in two orders -/
example : (match periodDG ⟨4, [[1, 3], [0, 2], [1, 3], [0, 2]]⟩ [[0, 1, 2, 3]], periodDG ⟨4, [[3, 1], [2, 0], [3, 1], [2, 0]]⟩ [[0, 1, 2, 3]] with
    | .ok (d, p), .ok (d', p') => (d, d', cyclicClasses ⟨4, [[1, 3], [0, 2], [1, 3], [0, 2]]⟩ d p,
        cyclicClasses ⟨4, [[3, 1], [2, 0], [3, 1], [2, 0]]⟩ d' p')
    | _, _ => (0, 0, [], [])) = (2, 2, [[0, 2], [1, 3]], [[0, 2], [1, 3]]) := by decide

/-! ## BFS levels are distances -/

/-- **T1 (`level` is the distance from node 0).** For every node the BFS visited, `level[v]` is the
    length of a walk from node 0 to `v` and no walk from node 0 to `v` is shorter — the array the
    code comments as "Distance to 0" is exactly that, for every graph (strongly connected or not). -/
theorem level_is_distance (g : G) (hwf : g.wf = true) (hn : 0 < g.n) (v : Nat)
    (hv : visited (bfs g) v = true) :
    (∃ l : Nat, levelOf g.n (bfs g) v = (l : Int) ∧ Walk g 0 v l) ∧
      ∀ L, Walk g 0 v L → levelOf g.n (bfs g) v ≤ (L : Int) := by
  refine ⟨level_is_walk g hwf hn v hv, ?_⟩
  intro L hw
  have hinv := bfs_inv g hwf hn
  obtain ⟨t, ht⟩ := hinv.root
  have hroot : ((0, none, 0) : Nat × Option Nat × Nat) ∈ bfs g := by rw [ht]; simp
  obtain ⟨e', he', hev, hle⟩ := bfs_level_le_walk g hwf hn hw _ hroot rfl
  have := levelArr_spec g (bfs g) hinv e' he'
  rw [hev] at this
  rw [this]
  have : e'.2.2 ≤ L := by simpa using hle
  exact_mod_cast this

/-- on every stored edge between visited nodes the level grows by at most one -/
theorem level_edge_le (g : G) (hwf : g.wf = true) (hn : 0 < g.n) (u v : Nat)
    (hu : visited (bfs g) u = true) (he : g.E u v) :
    visited (bfs g) v = true ∧ levelOf g.n (bfs g) v ≤ levelOf g.n (bfs g) u + 1 := by
  have hinv := bfs_inv g hwf hn
  unfold visited at hu
  cases hl : visLookup (bfs g) u with
  | none => rw [hl] at hu; simp at hu
  | some e =>
    obtain ⟨hmem, heu⟩ := mem_of_visLookup _ u e hl
    obtain ⟨e', he', hev, hle⟩ := bfs_edge_level g hwf hn e hmem v (by rw [heu]; exact he)
    have h1 := levelArr_spec g (bfs g) hinv e hmem
    have h2 := levelArr_spec g (bfs g) hinv e' he'
    rw [heu] at h1
    rw [hev] at h2
    refine ⟨by rw [← hev]; exact visited_of_mem (bfs g) e' he', ?_⟩
    rw [h1, h2]
    exact_mod_cast hle

example : levelArr 5 (bfs ⟨5, [[1, 2], [3], [3, 4], [0], [0]]⟩) = [0, 1, 1, 2, 2] := by decide


/-! ## the one-shot reports are the single reads -/

/-- **T1 (the one-shot report is the concatenation of the single reads).** What the `dg` request
    prints for a graph with labels `L` is, field by field, what the single reads of a history print
    — so every theorem about `dgRead` (and the history theorems) speaks about the `dg` / `sub`
    lines of the correspondence as well. -/
theorem reportDG_eq_reads (g : G) (hwf : g.wf = true) (hn : 0 < g.n) (L : Option (List Int)) :
    reportDG g (labeller L) =
      "sc=" ++ dgRead g L "sc" ++ " nscc=" ++ dgRead g L "nscc" ++ " nsink=" ++ dgRead g L "nsink"
        ++ " scc=" ++ dgRead g L "scclab" ++ " sink=" ++ dgRead g L "sinklab"
        ++ " period=" ++ dgRead g L "period" ++ " aper=" ++ dgRead g L "aper" ++ " cyc=" ++ dgRead g L "cyclab" := by
  unfold reportDG dgRead
  rw [sccClasses_total g]
  simp only
  cases hper : periodDG g (sccList (reachTable g) g.n) with
  | ok a =>
    simp [String.append_assoc]
    have hs : " period=" = " " ++ "period=" := by decide
    rw [hs, String.append_assoc]
  | notImpl =>
    simp [String.append_assoc]
  | stuck => exact absurd hper (periodDG_never_stuck g hwf hn _ (sccClasses_total g))



/-- **T1 (the chain's one-shot report is the concatenation of the single reads).** -/
theorem reportMC_eq_reads (g : G) (hwf : g.wf = true) (hn : 0 < g.n) (L : Option (List Int)) :
    reportMC g (labeller L) =
      "irr=" ++ mcRead g L "irr" ++ " ncomm=" ++ mcRead g L "ncomm" ++ " nrec=" ++ mcRead g L "nrec"
        ++ " comm=" ++ mcRead g L "commlab" ++ " rec=" ++ mcRead g L "reclab"
        ++ " period=" ++ mcRead g L "period" ++ " aper=" ++ mcRead g L "aper" ++ " cyc=" ++ mcRead g L "cyclab" := by
  obtain ⟨d, hd, _⟩ := periodMC_total g hwf hn _ (sccClasses_total g)
  unfold reportMC mcRead
  rw [sccClasses_total g]
  simp only [hd]
  have h1 : ∀ X : String, " period=" ++ X = " " ++ ("period=" ++ X) := by
    intro X
    have hs : " period=" = " " ++ "period=" := by decide
    rw [hs, String.append_assoc]
  have h2 : ∀ X : String, " cyc=" ++ X = " " ++ ("cyc=" ++ X) := by
    intro X
    have hc : " cyc=" = " " ++ "cyc=" := by decide
    rw [hc, String.append_assoc]
  by_cases hsc : isSC (sccList (reachTable g) g.n) = true
  · cases hper : periodDG g (sccList (reachTable g) g.n) with
    | ok a => simp [hsc, String.append_assoc]; rw [h1, h2]
    | notImpl => simp [hsc, String.append_assoc]; rw [h1]
    | stuck => exact absurd hper (periodDG_never_stuck g hwf hn _ (sccClasses_total g))
  · have hf : isSC (sccList (reachTable g) g.n) = false := by simpa using hsc
    simp [hf, String.append_assoc]; rw [h1]


example : reportDG ⟨2, [[1], [0]]⟩ (labeller (some [7, 8])) = "sc=1 nscc=1 nsink=1 scc=7,8 sink=7,8 period=2 aper=0 cyc=7;8" := by decide
example : reportMC ⟨3, [[1], [0], [0]]⟩ (labeller none) =
    "irr=0 ncomm=2 nrec=1 comm=0,1;2 rec=0,1 period=2 aper=0 cyc=ERR:NotImplementedError" := by decide

/-! ## constructors and label setters: argument validation -/

/-- **T1 (label setter).** An array is accepted as `node_labels` / `state_values` of an object with
    `n` nodes exactly when it has at least one dimension, first axis of length `n`, and a
    non-object dtype; the length test is made first. -/
theorem checkLabels_ok_iff (n : Nat) (a : LabelArg) :
    checkLabels n (some a) = none ↔ (1 ≤ a.ndim ∧ a.len0 = n ∧ a.isObject = false) := by
  unfold checkLabels
  by_cases h1 : a.ndim < 1 ∨ a.len0 ≠ n
  · simp only [h1, if_true]
    constructor
    · intro h; cases h
    · rintro ⟨h2, h3, _⟩; rcases h1 with h | h <;> omega
  · simp only [h1, if_false]
    have h1' : 1 ≤ a.ndim ∧ a.len0 = n := by
      constructor
      · by_contra hc; exact h1 (Or.inl (by omega))
      · by_contra hc; exact h1 (Or.inr hc)
    cases hob : a.isObject <;> simp [h1']

theorem checkLabels_error (n : Nat) (a : LabelArg) :
    (checkLabels n (some a) = some .labelsLength ↔ (a.ndim < 1 ∨ a.len0 ≠ n)) ∧
    (checkLabels n (some a) = some .labelsObject ↔ (¬ (a.ndim < 1 ∨ a.len0 ≠ n) ∧ a.isObject = true)) := by
  unfold checkLabels
  simp only
  by_cases h1 : a.ndim < 1 ∨ a.len0 ≠ n
  · rw [if_pos h1]
    exact ⟨⟨fun _ => h1, fun _ => rfl⟩, ⟨fun h => (by cases h), fun h => absurd h1 h.1⟩⟩
  · rw [if_neg h1]
    cases hob : a.isObject
    · simp only [Bool.false_eq_true, if_false]
      exact ⟨⟨fun h => (by cases h), fun h => absurd h h1⟩, ⟨fun h => (by cases h), fun h => (by cases h.2)⟩⟩
    · simp only [if_true]
      exact ⟨⟨fun h => (by cases h), fun h => absurd h h1⟩, ⟨fun _ => ⟨h1, trivial⟩, fun _ => trivial⟩⟩

/-- **T1 (`DiGraph.__init__`).** Construction succeeds exactly for a square matrix with acceptable
    labels; a non-square matrix is reported before the labels are looked at. -/
theorem dgInit_ok_iff (m k : Nat) (lab : Option LabelArg) :
    dgInit m k lab = none ↔ (k = m ∧ checkLabels k lab = none) := by
  unfold dgInit
  by_cases h : k = m
  · simp [h]
  · simp [h]

theorem dgInit_notSquare (m k : Nat) (lab : Option LabelArg) (h : k ≠ m) :
    dgInit m k lab = some .notSquare := by
  unfold dgInit; simp [h]

/-- `np.allclose(s, 1)` with the default tolerances is `|s − 1| ≤ 1.0001e-5` -/
theorem closeToOne_iff (s : Rat) :
    closeToOne s = true ↔ (1 - (10001 : Rat) / 1000000000 ≤ s ∧ s ≤ 1 + (10001 : Rat) / 1000000000) := by
  unfold closeToOne
  simp only [decide_eq_true_eq]
  split
  · rename_i h
    constructor
    · intro h2; constructor <;> linarith
    · rintro ⟨h2, h3⟩; linarith
  · rename_i h
    constructor
    · intro h2; constructor <;> linarith
    · rintro ⟨h2, h3⟩; linarith

/-- **T1 (`MarkovChain.__init__`).** Construction succeeds exactly when `P` is two-dimensional and
    square, has no negative entry, every row sum is within the `allclose` tolerance of 1, and the
    `state_values` are acceptable. -/
theorem mcInit_ok_iff (shape : List Nat) (P : List (List Rat)) (vals : Option LabelArg) :
    mcInit shape P vals = none ↔
      ∃ n, shape = [n, n] ∧ (∀ row, row ∈ P → ∀ x, x ∈ row → 0 ≤ x) ∧
        (∀ row, row ∈ P → closeToOne (row.foldl (· + ·) 0) = true) ∧ checkLabels n vals = none := by
  unfold mcInit
  match shape with
  | [] => simp
  | [_] => simp
  | _ :: _ :: _ :: _ => simp
  | [m, k] =>
    simp only
    by_cases hmk : m = k
    · subst hmk
      by_cases hneg : (P.any fun row => row.any fun x => decide (x < 0)) = true
      · simp only [hneg, ne_eq, not_true_eq_false, if_false, if_true]
        constructor
        · intro h; cases h
        · rintro ⟨n, hn, hnn, _⟩
          rw [List.any_eq_true] at hneg
          obtain ⟨row, hrow, hx⟩ := hneg
          rw [List.any_eq_true] at hx
          obtain ⟨x, hxm, hxneg⟩ := hx
          have := hnn row hrow x hxm
          simp only [decide_eq_true_eq] at hxneg
          linarith
      · have hnn : ∀ row, row ∈ P → ∀ x, x ∈ row → 0 ≤ x := by
          intro row hrow x hx
          by_contra hc
          apply hneg
          rw [List.any_eq_true]
          exact ⟨row, hrow, List.any_eq_true.2 ⟨x, hx, by simpa using hc⟩⟩
        by_cases hsum : (P.any fun row => !closeToOne (row.foldl (· + ·) 0)) = true
        · simp only [hneg, hsum, ne_eq, not_true_eq_false, if_false, if_true, Bool.false_eq_true]
          constructor
          · intro h; cases h
          · rintro ⟨n, _, _, hcl, _⟩
            rw [List.any_eq_true] at hsum
            obtain ⟨row, hrow, hx⟩ := hsum
            rw [hcl row hrow] at hx
            simp at hx
        · have hcl : ∀ row, row ∈ P → closeToOne (row.foldl (· + ·) 0) = true := by
            intro row hrow
            by_contra hc
            apply hsum
            rw [List.any_eq_true]
            exact ⟨row, hrow, by simpa using hc⟩
          simp only [hneg, hsum, ne_eq, not_true_eq_false, if_false, Bool.false_eq_true]
          constructor
          · intro h; exact ⟨m, rfl, hnn, hcl, h⟩
          · rintro ⟨n, hn, _, _, hl⟩
            have : n = m := by simpa using (List.cons.inj hn).1.symm
            subst this; exact hl
    · simp only [ne_eq, hmk, not_false_eq_true, if_true]
      constructor
      · intro h; cases h
      · rintro ⟨n, hn, _⟩
        simp only [List.cons.injEq, and_true] at hn
        omega

/-- the order of the tests: shape first, then signs, then row sums, then `state_values` -/
theorem mcInit_error_order (n : Nat) (P : List (List Rat)) (vals : Option LabelArg) :
    ((P.any fun row => row.any fun x => decide (x < 0)) = true → mcInit [n, n] P vals = some .negative) ∧
    ((P.any fun row => row.any fun x => decide (x < 0)) = false →
      (P.any fun row => !closeToOne (row.foldl (· + ·) 0)) = true → mcInit [n, n] P vals = some .rowSums) := by
  unfold mcInit
  constructor
  · intro h; simp [h]
  · intro h1 h2; simp [h1, h2]

example : mcInit [2, 2] [[1/2, 1/2], [0, 1]] (some ⟨1, 2, false⟩) = none := by decide +kernel
example : mcInit [2, 2] [[1/2, 1/2], [-1/2, 3/2]] none = some .negative := by decide +kernel
example : mcInit [2, 2] [[1/2, 1/2], [1/2, 9/16]] none = some .rowSums := by decide +kernel
example : mcInit [2, 3] [[1/2, 1/2, 0], [0, 1, 0]] none = some .notSquare := by decide +kernel
example : dgInit 3 3 (some ⟨1, 2, false⟩) = some .labelsLength ∧ dgInit 3 3 (some ⟨1, 3, true⟩) = some .labelsObject
    ∧ dgInit 3 3 (some ⟨2, 3, false⟩) = none ∧ dgInit 2 3 (some ⟨1, 2, false⟩) = some .notSquare := by decide

/-! a rejected assignment leaves no trace -/

theorem labelsAfter_badSet (L : Option (List Int)) (pre post : List Step) (a : LabelArg) :
    labelsAfter L (pre ++ .badSet a :: post) = labelsAfter L (pre ++ post) := by
  induction pre generalizing L with
  | nil => rfl
  | cons st pre ih => cases st <;> simp [labelsAfter, ih]

/-- **History theorem with failures.** An assignment the setter rejects (`ValueError`) changes
    nothing: every later read answers as if the rejected assignment had never been attempted. -/
theorem dg_history_read_after_rejected (s : DGState) (pre post : List Step) (a : LabelArg) (w : String) :
    dgRun s (pre ++ .badSet a :: post ++ [.read w])
      = dgRun s (pre ++ .badSet a :: post) ++ [dgRead s.g (labelsAfter s.labels (pre ++ post)) w] := by
  rw [dg_history_read, labelsAfter_badSet]

theorem mc_history_read_after_rejected (s : MCState) (h : s.Coherent) (pre post : List Step)
    (a : LabelArg) (w : String) :
    mcRun s (pre ++ .badSet a :: post ++ [.read w])
      = mcRun s (pre ++ .badSet a :: post) ++ [mcRead s.g (labelsAfter s.values (pre ++ post)) w] := by
  rw [mc_history_read s h, labelsAfter_badSet]

example : dgRun ⟨⟨2, [[1], [0]]⟩, some [3, 4]⟩ [.read "scclab", .badSet ⟨1, 3, false⟩, .read "scclab", .badSet ⟨1, 2, true⟩]
    = ["3,4", "ERR:ValueError:labels-length", "3,4", "ERR:ValueError:labels-object"] := by decide


end QE.C03
