/-
  Property C03 — theorems about QEModel.C03 (stub; to be filled in).
-/
import QEModel.C03
namespace QE.C03

end QE.C03
