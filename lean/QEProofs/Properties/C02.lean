/-
  Property C02 — theorems about QEModel.C02 (stub; to be filled in).
-/
import QEModel.C02
namespace QE.C02

end QE.C02
