/-
  Property C02 — stationary distributions / GTH: theorems about QEModel.C02
  (the definitions executed by `qedriver_c02`).

  Reading guide (properties.jsonl, C02):
  * "each row is a probability vector that is invariant under the transition matrix":
      `gthSolve_stationary`, `gthSolve_invariant` (exact arithmetic, every `n`, every Metzler /
      stochastic matrix, reducible or not), `scatter_invariant` (restriction to a closed class and
      scatter into a zero row keep invariance, support inside the class).
  * "gth_solve gives the same answer for stochastic and generator matrices": `gth_ignores_diag`
      (for every scalar type, `Float` included), `gthSolve_scale` (rate factor `c > 0`, exact
      arithmetic), `gthSolve_generator` (`x G = 0`).
  * "for a reducible matrix, the exact stationary vector of one of its recurrent classes (zero
      elsewhere)": `gthSolve_stationary` (it is a stationary vector) + `gth_support_partial`
      (where the support lies); that the support is exactly one recurrent class is tested only.
  * "stationary_distributions … each row is a probability vector, invariant, supported on its
      class": `class_row_stationary`, `stationaryDists_row` (closedness of the class enters as a
      certificate `closedB` that the driver evaluates on every reported class).
  * "to high relative accuracy in every component": only the structural reason is proved
      (`gth_subtraction_free`: on non-negative off-diagonals every stored quantity is ≥ 0; the model is
      typed without `Sub`/`Neg`, so no subtraction exists in it); the rounding analysis is not.
  * the driver's two-phase program = the recursion the proofs are about: `gthRaw_eq_gthRec`.
  Not proved here (tested by the correspondence / spec run): support = exactly one recurrent class,
  number of rows = number of recurrent classes, floating-point accuracy, NumPy copy semantics.
-/
import QEModel.C02
import QEProofs.Lemmas.C02Gth
import QEProofs.Lemmas.C02Scatter
import QEProofs.Lemmas.C02Class
namespace QE.C02
open Finset

/-! ## the program the driver runs is the recursion the proofs are about -/

/-- For every scalar type (so also for `Float`): reducing completely and then substituting back
    (`gthRaw`, the code's two loops) yields exactly the list of the structural recursion `gthRec`. -/
theorem gthRaw_eq_gthRec {α : Type} [Zero α] [One α] [Add α] [Mul α] [Div α] [LE α] [DecidableLE α]
    (n : ℕ) (hn : 1 ≤ n) (A : M α) : gthRaw n A = gthRec n (n - 1) 0 A :=
  gthRaw_eq_rec n hn A

section field
variable {K : Type} [Field K] [LinearOrder K] [IsStrictOrderedRing K]

/-! ## T1 — lift lemma (inductive step), restated on the model's reduction step -/

/-- One elimination step, on the model's own `redStep`/`rowScale`/`dotCol`: if `xs` (as a vector on
    `(k,n)`) is a left null vector of the generator of the reduced matrix, then `dotCol … :: xs` is a
    left null vector of the generator of the current matrix on `[k,n)`. Hypothesis `hs` is the
    code's "no break" condition `scale > 0`. -/
theorem gth_step_lift_model (n : ℕ) (A : M K) (k : ℕ) (hk : k < n) (hs : 0 < rowScale n A k)
    (xs : List K) (hlen : xs.length ≤ n - (k+1))
    (hxs : ∀ j ∈ Ico (k+1) n, ∑ i ∈ Ico (k+1) n, xs.getD (i - (k+1)) 0 *
        Qm (fun a b => (redStep n A k (rowScale n A k)).get a b) (k+1) n i j = 0) :
    ∀ j ∈ Ico k n, ∑ i ∈ Ico k n,
      (dotCol (redStep n A k (rowScale n A k)) k xs :: xs).getD (i - k) 0 *
        Qm (fun a b => A.get a b) k n i j = 0 :=
  step_lift_model n A k hk hs xs hlen hxs

/-! ## T1 — `gth_solve` returns a stationary vector (all Metzler matrices, reducible included) -/

/-- **x (A − D) = 0, x ≥ 0, Σ x = 1.** For every `n ≥ 1` and every `n × n` matrix with non-negative
    off-diagonal entries (stochastic, generator or general Metzler; irreducible or not; whatever the
    diagonal), the list returned by the model of `gth_solve` has length `n`, is non-negative, sums to
    one and is a left null vector of `Q = A − diag(off-diagonal row sums)`
    (`Qm A 0 n i j = A i j` for `i ≠ j`, `= −Σ_{l≠i} A i l` for `i = j`). -/
theorem gthSolve_stationary (n : ℕ) (hn : 1 ≤ n) (A : M K) (hA : OffNonneg n A) :
    (gthSolve n A).length = n
    ∧ (∀ i, 0 ≤ (gthSolve n A).getD i 0)
    ∧ ∑ i ∈ range n, (gthSolve n A).getD i 0 = 1
    ∧ ∀ j, j < n → ∑ i ∈ range n, (gthSolve n A).getD i 0 * Qm (fun a b => A.get a b) 0 n i j = 0 :=
  gthSolve_stationary_aux n hn A hA

/-- **x P = x** for a (row-)stochastic matrix: rows sum to one, entries off the diagonal ≥ 0. -/
theorem gthSolve_invariant (n : ℕ) (hn : 1 ≤ n) (P : M K) (hP : OffNonneg n P)
    (hrow : ∀ i, i < n → ∑ j ∈ range n, P.get i j = 1) :
    ∀ j, j < n → ∑ i ∈ range n, (gthSolve n P).getD i 0 * P.get i j = (gthSolve n P).getD j 0 :=
  gthSolve_invariant_aux n hn P hP hrow

/-- **x G = 0** for a generator (rate) matrix: off-diagonals ≥ 0, rows summing to zero. -/
theorem gthSolve_generator (n : ℕ) (hn : 1 ≤ n) (G : M K) (hG : OffNonneg n G)
    (hrow : ∀ i, i < n → ∑ j ∈ range n, G.get i j = 0) :
    ∀ j, j < n → ∑ i ∈ range n, (gthSolve n G).getD i 0 * G.get i j = 0 :=
  gthSolve_generator_aux n hn G hG hrow

/-- **Same answer for a stochastic matrix and its generators.** If the off-diagonal entries of `B`
    are `c` times those of `A` for some `c > 0` (e.g. `B = c (P − I)`, `A = P`; the diagonals are
    unconstrained), the two results are equal — in exact arithmetic, reducible matrices included. -/
theorem gthSolve_scale (n : ℕ) (hn : 1 ≤ n) (c : K) (hc : 0 < c) (A B : M K)
    (h : ∀ i j, i < n → j < n → i ≠ j → B.get i j = c * A.get i j) :
    gthSolve n B = gthSolve n A :=
  gthSolve_scale_aux n hn c hc A B h

/-! ## T1 — only the off-diagonal entries are read -/

/-- `gth_solve` never reads the diagonal: two matrices with the same off-diagonal entries give the
    same result, for every scalar type (`Float` included). In particular a stochastic matrix `P` and
    the generator `P − I` give identical answers. -/
theorem gth_ignores_diag {α : Type} [Zero α] [One α] [Add α] [Mul α] [Div α] [LE α] [DecidableLE α]
    (n : ℕ) (hn : 1 ≤ n) (A B : M α)
    (h : ∀ i j, i < n → j < n → i ≠ j → A.get i j = B.get i j) :
    gthSolve n A = gthSolve n B :=
  gthSolve_congr_offdiag n hn A B h

/-! ## T1 — no subtraction, nothing negative -/

/-- On non-negative off-diagonals every matrix the reduction stores keeps non-negative
    off-diagonal entries (whatever the number of steps and wherever it breaks). Together with the
    typing of the model (`gthSolve` is defined from `0 1 + * / ≤` only: there is no `Sub`/`Neg`
    instance it could call) this is the "GTH performs no subtraction" fact. -/
theorem gth_subtraction_free (n : ℕ) (A : M K) (hA : OffNonneg n A) (fuel k : ℕ) :
    OffNonneg n (reduce n fuel k A).1 :=
  reduce_offNonneg n fuel k A hA

/-! ## T2 (partial) — where the support lies on a reducible matrix -/

/-- With `m` the effective size computed by the reduction (`n`, or `k+1` at the first pivot `k` whose
    active row sum is `≤ 0`): `1 ≤ m ≤ n`, the result is positive at index `m-1` and zero at every
    index `≥ m`.
    *Partial*: the property says the support is exactly one recurrent class of the matrix; what is
    missing is that (i) the indices `< m-1` with a non-zero entry are exactly the states communicating
    with `m-1`, and (ii) that this set is a recurrent class of the *original* matrix (it needs the
    reachability reading of the reduced matrices). Both are checked on every case by the spec run. -/
theorem gth_support_partial (n : ℕ) (hn : 1 ≤ n) (A : M K) (hA : OffNonneg n A) :
    1 ≤ (reduce n (n - 1) 0 A).2 ∧ (reduce n (n - 1) 0 A).2 ≤ n
    ∧ 0 < (gthSolve n A).getD ((reduce n (n - 1) 0 A).2 - 1) 0
    ∧ ∀ i, (reduce n (n - 1) 0 A).2 ≤ i → (gthSolve n A).getD i 0 = 0 :=
  gth_support_aux n hn A hA

/-! ## T1 — every reported row is a stationary distribution of the whole chain -/

/-- For a non-empty duplicate-free list `C` of states that is closed under the stochastic matrix `P`
    (entries ≥ 0, rows summing to one), the row `scatter n C (gthSolve |C| P[C,C])` computed by
    `_compute_stationary` is invariant under `P`, non-negative, sums to one and vanishes outside `C`. -/
theorem class_row_stationary (n : ℕ) (P : M K) (C : List ℕ)
    (hnd : C.Nodup) (hC : ∀ c ∈ C, c < n) (hne : C ≠ [])
    (hnn : ∀ i j, i < n → j < n → 0 ≤ P.get i j)
    (hrow : ∀ i, i < n → ∑ j ∈ range n, P.get i j = 1)
    (hclosed : ∀ c ∈ C, ∀ j, j < n → j ∉ C → P.get c j = 0) :
    (∀ j, j < n → ∑ i ∈ range n,
        (scatter n C (gthSolve C.length (restrict P C))).getD i 0 * P.get i j
          = (scatter n C (gthSolve C.length (restrict P C))).getD j 0)
    ∧ (∀ i, 0 ≤ (scatter n C (gthSolve C.length (restrict P C))).getD i 0)
    ∧ ∑ i ∈ range n, (scatter n C (gthSolve C.length (restrict P C))).getD i 0 = 1
    ∧ (∀ i, i ∉ C → (scatter n C (gthSolve C.length (restrict P C))).getD i 0 = 0) :=
  class_row_stationary_aux n P C hnd hC hne hnn hrow hclosed

/-- **`stationaryDists`, row by row.** Every pair `(C, r)` the model of
    `MarkovChain.stationary_distributions` returns for a stochastic matrix, and for which the
    closedness certificate `closedB` (evaluated by the driver on every reported class) holds, is a
    stationary distribution: `r P = r`, `r ≥ 0`, `Σ r = 1`, `r = 0` outside `C`.
    (That `C` is duplicate-free, non-empty and inside `[0,n)` is proved, not assumed. That the classes
    are exactly the recurrent classes is not proved here — the correspondence compares them with the
    code's and the spec run with an independent closure computation.) -/
theorem stationaryDists_row (n : ℕ) (P : M K)
    (hnn : ∀ i j, i < n → j < n → 0 ≤ P.get i j)
    (hrow : ∀ i, i < n → ∑ j ∈ range n, P.get i j = 1)
    (Cr : List ℕ × List K) (hmem : Cr ∈ stationaryDists n P) (hcert : closedB n P Cr.1 = true) :
    (∀ j, j < n → ∑ i ∈ range n, Cr.2.getD i 0 * P.get i j = Cr.2.getD j 0)
    ∧ (∀ i, 0 ≤ Cr.2.getD i 0)
    ∧ ∑ i ∈ range n, Cr.2.getD i 0 = 1
    ∧ (∀ i, i ∉ Cr.1 → Cr.2.getD i 0 = 0) := by
  unfold stationaryDists at hmem
  obtain ⟨C, hCmem, rfl⟩ := List.mem_map.1 hmem
  obtain ⟨hnd, hC, hne⟩ := recClasses_mem n _ C hCmem
  exact class_row_stationary_aux n P C hnd hC hne hnn hrow (closedB_sound n P C hcert hnn hC)

end field

section scatter
variable {K : Type} [Field K]

/-! ## T1 — restriction to a closed class and scatter -/

/-- If `C` (distinct states `< n`) is closed under `P` (no mass leaves `C`) and `x` is invariant
    for the restricted matrix `P[C,C]`, then the scattered row is invariant under `P` and vanishes
    outside `C` (core.py:398-408). -/
theorem scatter_invariant (n : ℕ) (P : M K) (C : List ℕ) (x : List K)
    (hnd : C.Nodup) (hC : ∀ c ∈ C, c < n)
    (hclosed : ∀ c ∈ C, ∀ j, j < n → j ∉ C → P.get c j = 0)
    (hx : ∀ b, b < C.length →
      ∑ a ∈ range C.length, x.getD a 0 * (restrict P C).get a b = x.getD b 0) :
    (∀ j, j < n → ∑ i ∈ range n, (scatter n C x).getD i 0 * P.get i j = (scatter n C x).getD j 0)
    ∧ (∀ i, i ∉ C → (scatter n C x).getD i 0 = 0)
    ∧ (∀ a, a < C.length → (scatter n C x).getD (C.getD a 0) 0 = x.getD a 0) :=
  scatter_invariant_aux n P C x hnd hC hclosed hx

end scatter

/-! ## non-vacuity: concrete instances of the hypotheses, and the values the driver prints -/

/-- a 3-state irreducible chain -/
def exP : M ℚ := M.ofRows [[1/2, 1/4, 1/4], [1/2, 0, 1/2], [1/4, 1/2, 1/4]]

/-- a reducible chain: 0 absorbing, 1 transient, {2,3} recurrent -/
def exR : M ℚ := M.ofRows [[1, 0, 0, 0], [1/2, 0, 1/2, 0], [0, 0, 1/2, 1/2], [0, 0, 1/4, 3/4]]

example : OffNonneg 3 exP := by
  intro i j hi hj _
  have : ∀ i < 3, ∀ j < 3, (0 : ℚ) ≤ exP.get i j := by decide +kernel
  exact this i hi j hj
example : ∀ i, i < 3 → ∑ j ∈ range 3, exP.get i j = 1 := by decide +kernel
example : gthSolve 3 exP = [8/19, 5/19, 6/19] := by decide +kernel
example : gthSolve 4 exR = [1, 0, 0, 0] := by decide +kernel      -- break at k = 0
example : (reduce 4 3 0 exR).2 = 1 := by decide +kernel
example : 0 < rowScale 3 exP 0 := by decide +kernel
/-- generator `3 (P − I)` of `exP`: rows sum to zero, same answer -/
def exG : M ℚ := M.ofRows [[-3/2, 3/4, 3/4], [3/2, -3, 3/2], [3/4, 3/2, -9/4]]
example : ∀ i, i < 3 → ∑ j ∈ range 3, exG.get i j = 0 := by decide +kernel
example : ∀ i < 3, ∀ j < 3, i ≠ j → exG.get i j = 3 * exP.get i j := by decide +kernel
example : gthSolve 3 exG = [8/19, 5/19, 6/19] := by decide +kernel
example : (stationaryDists 4 exR).map (·.2) = [[1, 0, 0, 0], [0, 0, 1/3, 2/3]] := by decide +kernel
example : (stationaryDists 4 exR).all (fun Cr => closedB 4 exR Cr.1) = true := by decide +kernel
example : ∀ i < 4, ∀ j < 4, (0 : ℚ) ≤ exR.get i j := by decide +kernel
example : ∀ i, i < 4 → ∑ j ∈ range 4, exR.get i j = 1 := by decide +kernel
/-- hypotheses of `scatter_invariant` on the class `{2,3}` of `exR` -/
example : ([2, 3] : List ℕ).Nodup ∧ (∀ c ∈ ([2, 3] : List ℕ), c < 4)
    ∧ (∀ c ∈ ([2, 3] : List ℕ), ∀ j, j < 4 → j ∉ ([2, 3] : List ℕ) → exR.get c j = 0) := by
  decide +kernel

end QE.C02
