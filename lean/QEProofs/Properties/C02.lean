/-
  Property C02 — stationary distributions / GTH: theorems about QEModel.C02
  (the definitions executed by `qedriver_c02`).

  Reading guide (properties.jsonl, C02):
  * "each row is a probability vector that is invariant under the transition matrix":
      `gthSolve_stationary`, `gthSolve_invariant` (exact arithmetic, every `n`, every Metzler /
      stochastic matrix, reducible or not), `scatter_invariant` (restriction to a closed class and
      scatter into a zero row keep invariance, support inside the class).
  * "gth_solve gives the same answer for stochastic and generator matrices": `gth_ignores_diag`
      (for every scalar type, `Float` included), `gthSolve_scale` (rate factor `c > 0`, exact
      arithmetic), `gthSolve_generator` (`x G = 0`).
  * "for a reducible matrix, the exact stationary vector of one of its recurrent classes (zero
      elsewhere)": `gthSolve_stationary` (it is a stationary vector) + `gth_support`,
      `gth_support_is_recClass` (support = exactly one recurrent class, positive on it; round 2).
  * "agrees with the exact stationary distribution of that class": it IS that distribution in exact
      arithmetic, and that distribution is unique — `gth_unique`, `class_row_unique` (round 2).
  * "stationary_distributions … each row is a probability vector, invariant, supported on its
      class": `class_row_stationary`, `stationaryDists_row` (closedness of the class enters as a
      certificate `closedB` that the driver evaluates on every reported class).
  * "to high relative accuracy in every component, however small": round 3 —
      `gthSolve_accuracy` (standard model of rounded arithmetic: relative error of every component
      ≤ (1+u)^{E(n)} − 1, independent of the entries), `gthSolve_accuracy_double` (u ≤ 2⁻⁵³, n ≤ 8:
      inside the harness's 1e-12·n³), `gth_rounded_same_break`; structural reason:
      `gth_subtraction_free` (no `Sub`/`Neg` in the model's typing). Round 5: the same for EVERY
      evaluation order of the sums and dot products (`gthSolveAnyOrder_accuracy`, `sum_any_tree`,
      `dot_fma`, `gthSolveNp_accuracy` for the use_jit=False twin). Growth round: the clause for the
      rows of `stationary_distributions` themselves (`stationaryDists_rounded_same_classes`,
      `stationaryDists_accuracy`, `stationaryDists_accuracy_double`).
  * the driver's two-phase program = the recursion the proofs are about: `gthRaw_eq_gthRec`.
  * "exactly one row per recurrent class": `reachMat_correct`, `recClasses_exact`,
      `stationaryDists_one_row_per_class`, `closedB_holds` (round 2).
  * "leaves its argument untouched unless overwrite is requested": `gthCall_spec`,
      `gthCalls_untouched`, `overwrite_false_untouched`, `argAfter_first_row`, `gthCalls_every_history`
      (the NumPy rule "no copy iff C-contiguous float64 ndarray" is the model's `worksInPlace`, tied to
      the code by the `gthow` correspondence).
  Not proved here (tested by the correspondence / spec run): SciPy's component labelling (the model
  computes the classes itself), results aliasing module state (harness histories).
-/
import QEModel.C02
import QEProofs.Lemmas.C02Gth
import QEProofs.Lemmas.C02Scatter
import QEProofs.Lemmas.C02Class
import QEProofs.Lemmas.C02Support
import QEProofs.Lemmas.C02Unique
import QEProofs.Lemmas.C02Round
import QEProofs.Lemmas.C02Acc
import QEProofs.Lemmas.C02Order
import QEProofs.Lemmas.C02OrderInst
import QEProofs.Lemmas.C02StatAcc
import QEProofs.Lemmas.C02Copy
namespace QE.C02
open Finset

/-! ## the program the driver runs is the recursion the proofs are about -/

/-- For every scalar type (so also for `Float`): reducing completely and then substituting back
    (`gthRaw`, the code's two loops) yields exactly the list of the structural recursion `gthRec`. -/
theorem gthRaw_eq_gthRec {α : Type} [Zero α] [One α] [Add α] [Mul α] [Div α] [LE α] [DecidableLE α]
    (n : ℕ) (hn : 1 ≤ n) (A : M α) : gthRaw n A = gthRec n (n - 1) 0 A :=
  gthRaw_eq_rec n hn A

/-! ## T1 (round 2) — the model's closure computes reachability and the recurrent classes, every n -/

/-- `reachMat` (n rounds of `reachStep` from the identity) is reachability in the digraph
    `E n adj` (`Rch` = reflexive-transitive closure), for every `n` and every adjacency predicate. -/
theorem reachMat_correct (n : ℕ) (adj : ℕ → ℕ → Bool) (i j : ℕ) (hi : i < n) (hj : j < n) :
    (reachMat n adj).get i j = 1 ↔ Rch n adj i j :=
  reachMat_iff n adj i j hi hj

/-- **`recClasses` is exactly the set of recurrent (closed communicating) classes**: the list has no
    repetition; every member is the communication class `{j | i ⇄ j}` of a recurrent state `i`
    (`Recurrent`: everything reachable from `i` leads back) and is closed under the edges; every
    recurrent state lies in a member; two members sharing a state are equal. -/
theorem recClasses_exact (n : ℕ) (adj : ℕ → ℕ → Bool) :
    (recClasses n (reachMat n adj)).Nodup
    ∧ (∀ C ∈ recClasses n (reachMat n adj), ∃ i, i < n ∧ Recurrent n adj i ∧
          ∀ j, j ∈ C ↔ (Rch n adj i j ∧ Rch n adj j i))
    ∧ (∀ C ∈ recClasses n (reachMat n adj), ∀ c j, c ∈ C → E n adj c j → j ∈ C)
    ∧ (∀ i, i < n → Recurrent n adj i → ∃ C ∈ recClasses n (reachMat n adj), i ∈ C)
    ∧ (∀ C1 ∈ recClasses n (reachMat n adj), ∀ C2 ∈ recClasses n (reachMat n adj),
          ∀ j, j ∈ C1 → j ∈ C2 → C1 = C2) := by
  refine ⟨recClasses_nodup n adj, ?_, ?_, ?_, ?_⟩
  · intro C hC
    obtain ⟨i, hi, hr, _, _, hm⟩ := recClasses_sound n adj C hC
    exact ⟨i, hi, hr, hm⟩
  · intro C hC c j hc hcj
    exact recClasses_closed n adj C hC c j hc hcj
  · intro i hi hr
    exact recClasses_complete n adj i hi hr
  · intro C1 h1 C2 h2 j hj1 hj2
    exact recClasses_disjoint n adj C1 C2 h1 h2 j hj1 hj2

/-- **exactly one row per recurrent class**: the class labels of the rows of `stationaryDists`
    are the list `recClasses` (duplicate-free by `recClasses_exact`), in the same order. -/
theorem stationaryDists_one_row_per_class {α : Type} [Zero α] [One α] [Add α] [Mul α] [Div α]
    [LE α] [DecidableLE α] (n : ℕ) (P : M α) :
    (stationaryDists n P).map (·.1) = recClasses n (reachMat n (adjB P)) := by
  unfold stationaryDists
  rw [List.map_map]
  exact List.map_id'' (fun _ => rfl) _

section field
variable {K : Type} [Field K] [LinearOrder K] [IsStrictOrderedRing K]

/-! ## T1 — lift lemma (inductive step), restated on the model's reduction step -/

/-- One elimination step, on the model's own `redStep`/`rowScale`/`dotCol`: if `xs` (as a vector on
    `(k,n)`) is a left null vector of the generator of the reduced matrix, then `dotCol … :: xs` is a
    left null vector of the generator of the current matrix on `[k,n)`. Hypothesis `hs` is the
    code's "no break" condition `scale > 0`. -/
theorem gth_step_lift_model (n : ℕ) (A : M K) (k : ℕ) (hk : k < n) (hs : 0 < rowScale n A k)
    (xs : List K) (hlen : xs.length ≤ n - (k+1))
    (hxs : ∀ j ∈ Ico (k+1) n, ∑ i ∈ Ico (k+1) n, xs.getD (i - (k+1)) 0 *
        Qm (fun a b => (redStep n A k (rowScale n A k)).get a b) (k+1) n i j = 0) :
    ∀ j ∈ Ico k n, ∑ i ∈ Ico k n,
      (dotCol (redStep n A k (rowScale n A k)) k xs :: xs).getD (i - k) 0 *
        Qm (fun a b => A.get a b) k n i j = 0 :=
  step_lift_model n A k hk hs xs hlen hxs

/-! ## T1 — `gth_solve` returns a stationary vector (all Metzler matrices, reducible included) -/

/-- **x (A − D) = 0, x ≥ 0, Σ x = 1.** For every `n ≥ 1` and every `n × n` matrix with non-negative
    off-diagonal entries (stochastic, generator or general Metzler; irreducible or not; whatever the
    diagonal), the list returned by the model of `gth_solve` has length `n`, is non-negative, sums to
    one and is a left null vector of `Q = A − diag(off-diagonal row sums)`
    (`Qm A 0 n i j = A i j` for `i ≠ j`, `= −Σ_{l≠i} A i l` for `i = j`). -/
theorem gthSolve_stationary (n : ℕ) (hn : 1 ≤ n) (A : M K) (hA : OffNonneg n A) :
    (gthSolve n A).length = n
    ∧ (∀ i, 0 ≤ (gthSolve n A).getD i 0)
    ∧ ∑ i ∈ range n, (gthSolve n A).getD i 0 = 1
    ∧ ∀ j, j < n → ∑ i ∈ range n, (gthSolve n A).getD i 0 * Qm (fun a b => A.get a b) 0 n i j = 0 :=
  gthSolve_stationary_aux n hn A hA

/-- **x P = x** for a (row-)stochastic matrix: rows sum to one, entries off the diagonal ≥ 0. -/
theorem gthSolve_invariant (n : ℕ) (hn : 1 ≤ n) (P : M K) (hP : OffNonneg n P)
    (hrow : ∀ i, i < n → ∑ j ∈ range n, P.get i j = 1) :
    ∀ j, j < n → ∑ i ∈ range n, (gthSolve n P).getD i 0 * P.get i j = (gthSolve n P).getD j 0 :=
  gthSolve_invariant_aux n hn P hP hrow

/-- **x G = 0** for a generator (rate) matrix: off-diagonals ≥ 0, rows summing to zero. -/
theorem gthSolve_generator (n : ℕ) (hn : 1 ≤ n) (G : M K) (hG : OffNonneg n G)
    (hrow : ∀ i, i < n → ∑ j ∈ range n, G.get i j = 0) :
    ∀ j, j < n → ∑ i ∈ range n, (gthSolve n G).getD i 0 * G.get i j = 0 :=
  gthSolve_generator_aux n hn G hG hrow

/-- **Same answer for a stochastic matrix and its generators.** If the off-diagonal entries of `B`
    are `c` times those of `A` for some `c > 0` (e.g. `B = c (P − I)`, `A = P`; the diagonals are
    unconstrained), the two results are equal — in exact arithmetic, reducible matrices included. -/
theorem gthSolve_scale (n : ℕ) (hn : 1 ≤ n) (c : K) (hc : 0 < c) (A B : M K)
    (h : ∀ i j, i < n → j < n → i ≠ j → B.get i j = c * A.get i j) :
    gthSolve n B = gthSolve n A :=
  gthSolve_scale_aux n hn c hc A B h

/-! ## T1 — only the off-diagonal entries are read -/

/-- `gth_solve` never reads the diagonal: two matrices with the same off-diagonal entries give the
    same result, for every scalar type (`Float` included). In particular a stochastic matrix `P` and
    the generator `P − I` give identical answers. -/
theorem gth_ignores_diag {α : Type} [Zero α] [One α] [Add α] [Mul α] [Div α] [LE α] [DecidableLE α]
    (n : ℕ) (hn : 1 ≤ n) (A B : M α)
    (h : ∀ i j, i < n → j < n → i ≠ j → A.get i j = B.get i j) :
    gthSolve n A = gthSolve n B :=
  gthSolve_congr_offdiag n hn A B h

/-! ## T1 — no subtraction, nothing negative -/

/-- On non-negative off-diagonals every matrix the reduction stores keeps non-negative
    off-diagonal entries (whatever the number of steps and wherever it breaks). Together with the
    typing of the model (`gthSolve` is defined from `0 1 + * / ≤` only: there is no `Sub`/`Neg`
    instance it could call) this is the "GTH performs no subtraction" fact. -/
theorem gth_subtraction_free (n : ℕ) (A : M K) (hA : OffNonneg n A) (fuel k : ℕ) :
    OffNonneg n (reduce n fuel k A).1 :=
  reduce_offNonneg n fuel k A hA

/-! ## T2 (round 2) — the support is exactly one recurrent class, positive on it -/

/-- **Support of `gth_solve` on any Metzler matrix (reducible included).** Let `c = m − 1`, `m` the
    effective size computed by the reduction (`n`, or `k+1` at the first pivot `k` whose active row
    sum is `≤ 0`). Then in the digraph of positive entries (`Rch` = reachability, `edge_iff`):
    `c` is a recurrent state, and for every state `j`: `x_j > 0 ⇔ c ⇝ j`. Since `c` is recurrent,
    `{j | c ⇝ j}` is its communication class — a recurrent class; elsewhere `x_j = 0` (`x ≥ 0` by
    `gthSolve_stationary`). Replaces round 1's `gth_support_partial`. -/
theorem gth_support (n : ℕ) (hn : 1 ≤ n) (A : M K) (hA : OffNonneg n A) :
    (reduce n (n - 1) 0 A).2 - 1 < n
    ∧ Recurrent n (adjB A) ((reduce n (n - 1) 0 A).2 - 1)
    ∧ ∀ j, j < n →
        (0 < (gthSolve n A).getD j 0 ↔ Rch n (adjB A) ((reduce n (n - 1) 0 A).2 - 1) j) :=
  gth_support_full n hn A hA

/-- the same, in terms of the model's class list: the support of `gthSolve n A` is exactly one of
    the lists of `recClasses` (which are exactly the recurrent classes, `recClasses_exact`), and the
    solution is strictly positive on it. -/
theorem gth_support_is_recClass (n : ℕ) (hn : 1 ≤ n) (A : M K) (hA : OffNonneg n A) :
    ∃ C, C ∈ recClasses n (reachMat n (adjB A)) ∧
      ∀ j, j < n → (0 < (gthSolve n A).getD j 0 ↔ j ∈ C) :=
  gth_support_recClass n hn A hA

/-! ## T2 (round 2) — uniqueness: "the" exact stationary distribution -/

/-- **Uniqueness for an irreducible matrix.** If every state reaches every state, any `y` with
    `y (A − D) = 0` and `Σ y = 1` (no sign assumption) is the vector `gthSolve` returns. -/
theorem gth_unique (n : ℕ) (hn : 1 ≤ n) (A : M K) (hA : OffNonneg n A)
    (hirr : ∀ i j, i < n → j < n → Rch n (adjB A) i j)
    (y : ℕ → K)
    (hy : ∀ b, b < n → ∑ i ∈ range n, y i * Qm (fun a b => A.get a b) 0 n i b = 0)
    (hsum : ∑ i ∈ range n, y i = 1) :
    ∀ i, i < n → y i = (gthSolve n A).getD i 0 :=
  null_unique n hn A hA hirr y hy hsum

/-- **Each row is THE stationary distribution of its class.** For a stochastic matrix `P` and a
    class `C` of the model's `recClasses`, the restricted matrix `P[C,C]` has exactly one probability
    vector `y` with `y P[C,C] = y`, namely `gthSolve |C| P[C,C]` — the vector `stationaryDists`
    scatters into the row of `C`. -/
theorem class_row_unique (n : ℕ) (P : M K)
    (hnn : ∀ i j, i < n → j < n → 0 ≤ P.get i j)
    (hrow : ∀ i, i < n → ∑ j ∈ range n, P.get i j = 1)
    (C : List ℕ) (hC : C ∈ recClasses n (reachMat n (adjB P)))
    (y : ℕ → K)
    (hy : ∀ b, b < C.length → ∑ a ∈ range C.length, y a * (restrict P C).get a b = y b)
    (hsum : ∑ a ∈ range C.length, y a = 1) :
    ∀ a, a < C.length → y a = (gthSolve C.length (restrict P C)).getD a 0 :=
  class_row_unique_aux n P hnn hrow C hC y hy hsum

/-! ## T1 — every reported row is a stationary distribution of the whole chain -/

/-- For a non-empty duplicate-free list `C` of states that is closed under the stochastic matrix `P`
    (entries ≥ 0, rows summing to one), the row `scatter n C (gthSolve |C| P[C,C])` computed by
    `_compute_stationary` is invariant under `P`, non-negative, sums to one and vanishes outside `C`. -/
theorem class_row_stationary (n : ℕ) (P : M K) (C : List ℕ)
    (hnd : C.Nodup) (hC : ∀ c ∈ C, c < n) (hne : C ≠ [])
    (hnn : ∀ i j, i < n → j < n → 0 ≤ P.get i j)
    (hrow : ∀ i, i < n → ∑ j ∈ range n, P.get i j = 1)
    (hclosed : ∀ c ∈ C, ∀ j, j < n → j ∉ C → P.get c j = 0) :
    (∀ j, j < n → ∑ i ∈ range n,
        (scatter n C (gthSolve C.length (restrict P C))).getD i 0 * P.get i j
          = (scatter n C (gthSolve C.length (restrict P C))).getD j 0)
    ∧ (∀ i, 0 ≤ (scatter n C (gthSolve C.length (restrict P C))).getD i 0)
    ∧ ∑ i ∈ range n, (scatter n C (gthSolve C.length (restrict P C))).getD i 0 = 1
    ∧ (∀ i, i ∉ C → (scatter n C (gthSolve C.length (restrict P C))).getD i 0 = 0) :=
  class_row_stationary_aux n P C hnd hC hne hnn hrow hclosed

/-- **`stationaryDists`, row by row.** Every pair `(C, r)` the model of
    `MarkovChain.stationary_distributions` returns for a stochastic matrix is a stationary
    distribution supported in `C`: `r P = r`, `r ≥ 0`, `Σ r = 1`, `r = 0` outside `C`.
    (Round 2: the closedness of `C` is no longer a run-time certificate — `closedB_holds`.) -/
theorem stationaryDists_row (n : ℕ) (P : M K)
    (hnn : ∀ i j, i < n → j < n → 0 ≤ P.get i j)
    (hrow : ∀ i, i < n → ∑ j ∈ range n, P.get i j = 1)
    (Cr : List ℕ × List K) (hmem : Cr ∈ stationaryDists n P) :
    (∀ j, j < n → ∑ i ∈ range n, Cr.2.getD i 0 * P.get i j = Cr.2.getD j 0)
    ∧ (∀ i, 0 ≤ Cr.2.getD i 0)
    ∧ ∑ i ∈ range n, Cr.2.getD i 0 = 1
    ∧ (∀ i, i ∉ Cr.1 → Cr.2.getD i 0 = 0) := by
  unfold stationaryDists at hmem
  obtain ⟨C, hCmem, rfl⟩ := List.mem_map.1 hmem
  obtain ⟨hnd, hC, hne⟩ := recClasses_mem n _ C hCmem
  exact class_row_stationary_aux n P C hnd hC hne hnn hrow
    (closedB_sound n P C (closedB_recClasses n P C hCmem) hnn hC)

/-- **The whole clause about `stationary_distributions`, row by row (exact arithmetic).** For a
    stochastic matrix, every pair `(C, r)` of `stationaryDists`:
    * `C` is one of the recurrent classes (`recClasses_exact`; one row per class by
      `stationaryDists_one_row_per_class`);
    * `r` is a probability vector invariant under `P`;
    * `r` is supported *exactly* on `C` (`r_i > 0 ⇔ i ∈ C`);
    * `r` is *the* stationary distribution of `C`: any `y` with `y P = y`, `Σ y = 1`, `y = 0`
      outside `C` coincides with `r`. -/
theorem stationaryDists_row_exact (n : ℕ) (P : M K)
    (hnn : ∀ i j, i < n → j < n → 0 ≤ P.get i j)
    (hrow : ∀ i, i < n → ∑ j ∈ range n, P.get i j = 1)
    (Cr : List ℕ × List K) (hmem : Cr ∈ stationaryDists n P) :
    Cr.1 ∈ recClasses n (reachMat n (adjB P))
    ∧ (∀ j, j < n → ∑ i ∈ range n, Cr.2.getD i 0 * P.get i j = Cr.2.getD j 0)
    ∧ (∀ i, 0 ≤ Cr.2.getD i 0)
    ∧ ∑ i ∈ range n, Cr.2.getD i 0 = 1
    ∧ (∀ i, 0 < Cr.2.getD i 0 ↔ i ∈ Cr.1)
    ∧ (∀ y : ℕ → K, (∀ j, j < n → ∑ i ∈ range n, y i * P.get i j = y j) →
          ∑ i ∈ range n, y i = 1 → (∀ i, i < n → i ∉ Cr.1 → y i = 0) →
          ∀ i, i < n → y i = Cr.2.getD i 0) := by
  obtain ⟨h1, h2, h3, _⟩ := stationaryDists_row n P hnn hrow Cr hmem
  unfold stationaryDists at hmem
  obtain ⟨C, hCmem, rfl⟩ := List.mem_map.1 hmem
  exact ⟨hCmem, h1, h2, h3, class_row_support n P hnn hrow C hCmem,
    fun y hy hs ho => class_row_unique_full n P hnn hrow C hCmem y hy hs ho⟩

/-- the certificate `closedB` printed by the driver (`closed=1`) holds for every class the model
    computes, for every matrix -/
theorem closedB_holds (n : ℕ) (P : M K) (C : List ℕ)
    (h : C ∈ recClasses n (reachMat n (adjB P))) : closedB n P C = true :=
  closedB_recClasses n P C h

/-- the digraph the classes refer to: an edge is a positive entry -/
theorem edge_iff (n : ℕ) (P : M K) (a b : ℕ) :
    E n (adjB P) a b ↔ (a < n ∧ b < n ∧ 0 < P.get a b) := by
  unfold E; rw [adjB_iff]

/-! ## T3 (round 3) — component-wise relative accuracy in the standard model of rounded arithmetic

  `RoundedOps K` (Lemmas/C02Round): a unit roundoff `u ≥ 0` and operations `fadd fmul fdiv` that, on
  non-negative operands (positive divisor), return the exact result times a factor in
  `[1/(1+u), 1+u]` (`Apx u 1`). IEEE-754 round-to-nearest satisfies this with `u = 2⁻⁵³` while no
  underflow / overflow occurs (both standard forms `z(1+ε)` and `z/(1+ε')` hold). `Fl R` is the
  wrapper type whose `+ * /` are these operations; the model's own generic `gthSolve` is run at
  `Fl R` (`liftM R n A` reads the input exactly) and compared with the same definition at `K`.
  `Apx u e xt x` : `x/(1+u)^e ≤ xt ≤ x(1+u)^e`.  `errBound n` (= `E(n)`, QEModel/C02.lean) :
  `E(n) = 2·xerr (n−1) 0 + n + 1`, `xerr (f+1) e = xerr f (3e+f+4) + 2e + 2f + 5`, `xerr 0 _ = 0`;
  `E(1..8) = 2, 11, 44, 157, 542, 1847, 6232, 20825`.
  Outside these theorems: underflow/overflow/subnormals; the NumPy twin's pairwise `np.sum` and BLAS
  `dot` (other, shallower summation orders — the sequential analysis covers the Numba kernel). -/

/-- the calculus: `e` factors are monotone in `e`, add (same `e`), multiply and divide
    (`e₁+e₂`), and compose with one rounding (`+1`) — for non-negative data -/
theorem apx_calculus (u : K) (hu : 0 ≤ u) :
    (∀ e e' xt x, e ≤ e' → 0 ≤ x → Apx u e xt x → Apx u e' xt x)
    ∧ (∀ e a' a b' b, Apx u e a' a → Apx u e b' b → Apx u e (a' + b') (a + b))
    ∧ (∀ e1 e2 a' a b' b, 0 ≤ a → 0 ≤ b → Apx u e1 a' a → Apx u e2 b' b → Apx u (e1 + e2) (a' * b') (a * b))
    ∧ (∀ e1 e2 a' a b' b, 0 ≤ a → 0 < b → Apx u e1 a' a → Apx u e2 b' b → Apx u (e1 + e2) (a' / b') (a / b))
    ∧ (∀ e xt x, 0 ≤ x → Apx u e xt x → (xt ≤ 0 ↔ x ≤ 0)) :=
  ⟨fun _ _ _ _ h hx ha => apx_mono hu h hx ha,
   fun _ _ _ _ _ ha hb => apx_add ha hb,
   fun _ _ _ _ _ _ ha0 hb0 ha hb => apx_mul hu ha0 hb0 ha hb,
   fun _ _ _ _ _ _ ha0 hb0 ha hb => apx_div hu ha0 hb0 ha hb,
   fun _ _ _ hx ha => apx_le_zero_iff hu ha hx⟩

/-- **The `scale ≤ 0` test is exact**: the rounded run has the same effective size (breaks at the
    same pivot, or not at all) as the exact run, for every Metzler matrix. -/
theorem gth_rounded_same_break (R : RoundedOps K) (n : ℕ) (hn : 1 ≤ n) (A : M K) (hA : OffNonneg n A) :
    (reduce n (n - 1) 0 (liftM R n A)).2 = (reduce n (n - 1) 0 A).2 :=
  rounded_same_size R n hn A hA

/-- **Accuracy, factor form.** Every component of the rounded result carries at most `E(n)`
    rounding factors relative to the exact result — all `n ≥ 1`, all matrices with non-negative
    off-diagonals (reducible / breaking runs included), any size of the entries. -/
theorem gthSolve_accuracy_factors (R : RoundedOps K) (n : ℕ) (hn : 1 ≤ n) (A : M K) (hA : OffNonneg n A) :
    ∀ i, Apx R.u (errBound n) ((gthSolve n (liftM R n A)).getD i 0).val ((gthSolve n A).getD i 0) :=
  gthSolve_apx R n hn A hA

/-- **Headline: component-wise relative error ≤ (1+u)^{E(n)} − 1**, independent of the entries
    (nearly decomposable chains included): `|x̃_i − x_i| ≤ ((1+u)^{E(n)} − 1)·x_i` for every `i`. -/
theorem gthSolve_accuracy (R : RoundedOps K) (n : ℕ) (hn : 1 ≤ n) (A : M K) (hA : OffNonneg n A) (i : ℕ) :
    |((gthSolve n (liftM R n A)).getD i 0).val - (gthSolve n A).getD i 0|
      ≤ ((1 + R.u) ^ errBound n - 1) * (gthSolve n A).getD i 0 :=
  gthSolve_rel_err R n hn A hA i

/-- first-order form: if `E(n)·u < 1` the relative error is at most `E(n)u / (1 − E(n)u)` -/
theorem gthSolve_accuracy_linear (R : RoundedOps K) (n : ℕ) (hn : 1 ≤ n) (A : M K) (hA : OffNonneg n A)
    (hEu : (errBound n : K) * R.u < 1) (i : ℕ) :
    |((gthSolve n (liftM R n A)).getD i 0).val - (gthSolve n A).getD i 0|
      ≤ ((errBound n : K) * R.u / (1 - (errBound n : K) * R.u)) * (gthSolve n A).getD i 0 :=
  gthSolve_rel_err_linear R n hn A hA hEu i

/-- the values of `E(n)` for `n = 0..8` -/
theorem errBound_values :
    (List.range 9).map errBound = [1, 2, 11, 44, 157, 542, 1847, 6232, 20825] :=
  errBound_table

/-- **Double precision, the property's domain `n ≤ 8`: the harness's envelope `1e-12·n³` is implied.**
    For any rounded arithmetic with `u ≤ 2⁻⁵³`, every component's relative error is `≤ 1e-12·n³`
    (in fact `≤ 2.4e-12` at `n = 8`, against the envelope's `5.1e-10`). -/
theorem gthSolve_accuracy_double (R : RoundedOps K) (hR : R.u ≤ 1 / 2 ^ 53) (n : ℕ) (hn : 1 ≤ n)
    (hn8 : n ≤ 8) (A : M K) (hA : OffNonneg n A) (i : ℕ) :
    |((gthSolve n (liftM R n A)).getD i 0).val - (gthSolve n A).getD i 0|
      ≤ ((n : K) ^ 3 / 10 ^ 12) * (gthSolve n A).getD i 0 :=
  gthSolve_rel_err_double R hR n hn hn8 A hA i

/-! ## T3 (round 5) — the same accuracy for EVERY evaluation order of the sums and dot products

  `Ord α` (QEModel/C02.lean) leaves open how the pivot-row sum, the back-substitution dot product and
  the normalising sum are evaluated; `gthSolveO o` is the algorithm with these three as parameters.
  `OrdSpec R n o` is what the analysis needs from `o`, relative to the exact sum of the values handed
  to it: sum of `m` non-negative terms ≤ `m` factors, dot product of `m` non-negative pairs ≤ `m+1`,
  normalising sum ≤ `n+1`.  Any binary tree over any permutation needs only `m−1` (`sum_any_tree`), a
  product-then-tree dot `m`, an FMA chain `m` (`dot_fma`): every BLAS blocking / unrolling / FMA use,
  NumPy's pairwise sum and the Numba loops are inside `OrdSpec`, as long as each single operation
  obeys the standard model (extended-precision accumulators do: they round at least as finely).
  Under/overflow and subnormals remain outside. -/

/-- **Order-independent summation.** A rounded sum of non-negative terms along ANY binary tree whose
    leaves are a permutation of `0..m−1` carries at most `m − 1` factors. -/
theorem sum_any_tree (R : RoundedOps K) (ft : ℕ → Fl R) (hnn : ∀ i, 0 ≤ (ft i).val) (T : SumTree) (m : ℕ)
    (hperm : T.leaves.Perm (List.range m)) :
    Apx R.u (m - 1) (T.eval ft).val (sumUpTo (fun i => (ft i).val) m) :=
  tree_apx_perm R ft hnn T m hperm

/-- **FMA.** A dot product accumulated by fused multiply-adds (`ffma` : one rounding of `a·b + c`)
    carries at most `m` factors — fewer than the two-rounding evaluation. -/
theorem dot_fma (R : RoundedOps K) (ffma : K → K → K → K)
    (hfma : ∀ a b c, 0 ≤ a → 0 ≤ b → 0 ≤ c → Apx R.u 1 (ffma a b c) (a * b + c))
    (a b : ℕ → K) (ha : ∀ t, 0 ≤ a t) (hb : ∀ t, 0 ≤ b t) (m : ℕ) :
    Apx R.u m (fmaAcc ffma a b m) (sumUpTo (fun t => a t * b t) m) :=
  (fmaDot_apx R ffma hfma a b ha hb m).2

/-- arbitrary trees (one per length, any bracketing of any permutation) are an admissible order -/
theorem ordSpec_tree (R : RoundedOps K) (n : ℕ) (T : ℕ → SumTree)
    (hT : ∀ m, 1 ≤ m → (T m).leaves.Perm (List.range m)) : OrdSpec R n (treeOrd T : Ord (Fl R)) :=
  treeOrd_spec R n T hT

/-- the left-to-right order of the Numba kernel is admissible -/
theorem ordSpec_seq (R : RoundedOps K) (n : ℕ) : OrdSpec R n (seqOrd : Ord (Fl R)) := seqOrd_spec R n

/-- NumPy's pairwise normalising sum (8 accumulators, balanced combination, sequential remainder,
    started from the reduction identity) is admissible -/
theorem ordSpec_np (R : RoundedOps K) (n : ℕ) : OrdSpec R n (npOrd n : Ord (Fl R)) := npOrd_spec R n

/-- any dot-product routine within `m+1` factors of the exact dot product of its arguments may
    replace the one of an admissible order (FMA chains by `dot_fma`, any BLAS kernel built from
    standard-model operations) -/
theorem ordSpec_any_dot (R : RoundedOps K) (n : ℕ) (o : Ord (Fl R)) (ho : OrdSpec R n o)
    (d : List (Fl R) → List (Fl R) → Fl R)
    (hd : ∀ a b : List (Fl R), (∀ t, 0 ≤ (a.getD t 0).val) → (∀ t, 0 ≤ (b.getD t 0).val) →
      Apx R.u (a.length + 1) (d a b).val (sumUpTo (fun t => (a.getD t 0).val * (b.getD t 0).val) a.length)) :
    OrdSpec R n ⟨o.sumRow, d, o.norm⟩ :=
  ordSpec_replace_dot R n o ho d hd

/-- **Headline, every evaluation order**: `|x̃_i − x_i| ≤ ((1+u)^{E(n)+1} − 1)·x_i` for every
    component, every `n ≥ 1`, every Metzler matrix (breaking runs included), every admissible order
    of the sums and dot products. (`E(n)+1`: one more addition is allowed in the normalising sum than
    the sequential kernel performs.) -/
theorem gthSolveAnyOrder_accuracy (R : RoundedOps K) (n : ℕ) (hn : 1 ≤ n) (o : Ord (Fl R))
    (ho : OrdSpec R n o) (A : M K) (hA : OffNonneg n A) (i : ℕ) :
    |((gthSolveO o n (liftM R n A)).getD i 0).val - (gthSolve n A).getD i 0|
      ≤ ((1 + R.u) ^ (errBound n + 1) - 1) * (gthSolve n A).getD i 0 :=
  gthSolveO_rel_err R n hn o ho A hA i

/-- factor form of the same -/
theorem gthSolveAnyOrder_accuracy_factors (R : RoundedOps K) (n : ℕ) (hn : 1 ≤ n) (o : Ord (Fl R))
    (ho : OrdSpec R n o) (A : M K) (hA : OffNonneg n A) :
    ∀ i, Apx R.u (errBound n + 1) ((gthSolveO o n (liftM R n A)).getD i 0).val ((gthSolve n A).getD i 0) :=
  gthSolveO_apx R n hn o ho A hA

/-- double precision, `n ≤ 8`, every order: inside `1e-12·n³` -/
theorem gthSolveAnyOrder_accuracy_double (R : RoundedOps K) (hR : R.u ≤ 1 / 2 ^ 53) (n : ℕ) (hn : 1 ≤ n)
    (hn8 : n ≤ 8) (o : Ord (Fl R)) (ho : OrdSpec R n o) (A : M K) (hA : OffNonneg n A) (i : ℕ) :
    |((gthSolveO o n (liftM R n A)).getD i 0).val - (gthSolve n A).getD i 0|
      ≤ ((n : K) ^ 3 / 10 ^ 12) * (gthSolve n A).getD i 0 :=
  gthSolveO_rel_err_double R hR n hn hn8 o ho A hA i

/-- **The NumPy twin** (`gthSolveNp`, the program the driver runs for `use_jit=False`), at rounded
    arithmetic: every component within `(1+u)^{E(n)+1} − 1` of the exact solution. -/
theorem gthSolveNp_accuracy (R : RoundedOps K) (n : ℕ) (hn : 1 ≤ n) (A : M K) (hA : OffNonneg n A) (i : ℕ) :
    |((gthSolveNp n (liftM R n A)).getD i 0).val - (gthSolve n A).getD i 0|
      ≤ ((1 + R.u) ^ (errBound n + 1) - 1) * (gthSolve n A).getD i 0 := by
  rw [gthSolveNp_eq_npOrd' n hn (liftM R n A)]
  exact gthSolveO_rel_err R n hn (npOrd n) (npOrd_spec R n) A hA i

/-! ## T3 (growth round) — the accuracy clause for `MarkovChain.stationary_distributions` itself

  Rounds 3/5 proved the accuracy of `gth_solve`.  The property states it for every ROW of
  `stationary_distributions` (reducible chains: one `gth_solve` per recurrent class, scattered into a
  zero row).  Here the model's own `stationaryDists` is run at rounded arithmetic (`liftM`: the input
  is read exactly) and compared with its exact run. -/

/-- **The rounded run finds the same recurrent classes** (the class computation only tests entries
    against 0, which rounding cannot change): same list, same order, for every matrix. -/
theorem stationaryDists_rounded_same_classes (R : RoundedOps K) (n : ℕ) (P : M K) :
    (stationaryDists n (liftM R n P)).map (·.1) = (stationaryDists n P).map (·.1) := by
  unfold stationaryDists
  rw [List.map_map, List.map_map, recClasses_liftM R n P]
  rfl

/-- **Accuracy of every row of `stationary_distributions`.** For every matrix with non-negative
    entries and every recurrent class `C` of the model: the pair `(C, row)` is in the rounded and in
    the exact result, and every component of the rounded row is within `(1+u)^{E(|C|)} − 1`
    (relative) of the exact row — zeros outside `C` exactly, components inside `C` however small. -/
theorem stationaryDists_accuracy (R : RoundedOps K) (n : ℕ) (P : M K)
    (hnn : ∀ i j, i < n → j < n → 0 ≤ P.get i j)
    (C : List ℕ) (hC : C ∈ recClasses n (reachMat n (adjB P))) :
    (C, scatter n C (gthSolve C.length (restrict (liftM R n P) C))) ∈ stationaryDists n (liftM R n P)
    ∧ (C, scatter n C (gthSolve C.length (restrict P C))) ∈ stationaryDists n P
    ∧ ∀ i, |((scatter n C (gthSolve C.length (restrict (liftM R n P) C))).getD i 0).val
              - (scatter n C (gthSolve C.length (restrict P C))).getD i 0|
            ≤ ((1 + R.u) ^ errBound C.length - 1)
              * (scatter n C (gthSolve C.length (restrict P C))).getD i 0 :=
  (stationaryDists_apx R n P hnn).2 C hC

/-- `E` is monotone, so `E(n)` bounds every class of an `n`-state chain -/
theorem errBound_monotone {m n : ℕ} (h : m ≤ n) : errBound m ≤ errBound n := errBound_mono h

/-- **Double precision, at most 8 states**: every component of every row of
    `stationary_distributions` is within `1e-12·n³` (relative) of the exact row. -/
theorem stationaryDists_accuracy_double (R : RoundedOps K) (hR : R.u ≤ 1 / 2 ^ 53) (n : ℕ) (hn8 : n ≤ 8)
    (P : M K) (hnn : ∀ i j, i < n → j < n → 0 ≤ P.get i j)
    (C : List ℕ) (hC : C ∈ recClasses n (reachMat n (adjB P))) (i : ℕ) :
    |((scatter n C (gthSolve C.length (restrict (liftM R n P) C))).getD i 0).val
        - (scatter n C (gthSolve C.length (restrict P C))).getD i 0|
      ≤ ((n : K) ^ 3 / 10 ^ 12) * (scatter n C (gthSolve C.length (restrict P C))).getD i 0 :=
  stationaryDists_apx_double R hR n hn8 P hnn C hC i

/-- **Support in rounded arithmetic.** For a stochastic matrix and every recurrent class `C`, the
    row computed with rounded operations is strictly positive exactly on `C` and exactly 0 outside
    it (no underflow in the standard model): "supported exactly on its recurrent class" holds for
    the floating-point result, not only for the exact one. -/
theorem stationaryDists_rounded_support (R : RoundedOps K) (n : ℕ) (P : M K)
    (hnn : ∀ i j, i < n → j < n → 0 ≤ P.get i j)
    (hrow : ∀ i, i < n → ∑ j ∈ range n, P.get i j = 1)
    (C : List ℕ) (hC : C ∈ recClasses n (reachMat n (adjB P))) (i : ℕ) :
    (0 < ((scatter n C (gthSolve C.length (restrict (liftM R n P) C))).getD i 0).val ↔ i ∈ C)
    ∧ (i ∉ C → ((scatter n C (gthSolve C.length (restrict (liftM R n P) C))).getD i 0).val = 0) :=
  class_row_support_rounded R n P hnn hrow C hC i

end field

/-- **What `MarkovChain.__init__` accepts, as the model decides it** (`stat` answers
    `ERR:ValueError` otherwise): every entry `≥ 0` and every row sum within `1e-8 + 1e-5` of 1
    (`np.allclose`'s `atol + rtol·1`), in exact arithmetic. -/
theorem validStochastic_iff (n : ℕ) (P : M ℚ) :
    validStochastic n P = true ↔
      ∀ i, i < n → (∀ j, j < n → 0 ≤ P.get i j)
        ∧ |sumUpTo (fun j => P.get i j) n - 1| ≤ 1 / 100000000 + 1 / 100000 :=
  validStochastic_iff' n P

/-! ## Copy semantics of `gth_solve` (growth round 2): `worksInPlace`, `argAfter`, `gthCalls`

  "…independently of its overwrite/use_jit options, and leaves its argument untouched unless
  overwrite is requested."  The model now carries the state of the caller's array (op `gthow`,
  compared bit for bit with the array after the real call, over argument forms × options × histories). -/

/-- the routine works on the caller's memory exactly when `overwrite=True` and the argument is a
    C-contiguous float64 ndarray -/
theorem worksInPlace_iff (ow : Bool) (f : ArgForm) :
    worksInPlace ow f = true ↔ (ow = true ∧ f.ndarray = true ∧ f.float64 = true ∧ f.cContig = true) :=
  worksInPlace_iff' ow f

/-- **Characterisation of the argument after one call** (any scalar type): the reduced matrix if the
    routine worked in place, the argument itself otherwise; the returned vector is `gthSolve n A`
    whatever the options and the form of the argument. -/
theorem gthCall_spec {α : Type} [Zero α] [One α] [Add α] [Mul α] [Div α] [LE α] [DecidableLE α]
    (n : ℕ) (A : M α) (ow : Bool) (f : ArgForm) :
    (gthCall n A ow f).1 = gthSolve n A
    ∧ (worksInPlace ow f = true → (gthCall n A ow f).2 = (reduce n (n - 1) 0 A).1)
    ∧ (worksInPlace ow f = false → (gthCall n A ow f).2 = A) :=
  ⟨rfl, fun h => argAfter_of_inplace n A ow f h, fun h => argAfter_of_not n A ow f h⟩

/-- **`overwrite=False` leaves the argument untouched — along every history.** After any number `r`
    of calls with `overwrite=False` (any argument form, any scalar type) the array is what it was,
    and every call returned the solution for it. More generally this holds whenever the routine does
    not work in place (`overwrite=True` on a list, another dtype, a non-contiguous view …). -/
theorem gthCalls_untouched {α : Type} [Zero α] [One α] [Add α] [Mul α] [Div α] [LE α] [DecidableLE α]
    (n : ℕ) (ow : Bool) (f : ArgForm) (h : worksInPlace ow f = false) (r : ℕ) (A : M α) :
    (gthCalls n ow f r A).2 = A ∧ (1 ≤ r → (gthCalls n ow f r A).1 = gthSolve n A) :=
  gthCalls_of_not n ow f h r A

theorem overwrite_false_untouched {α : Type} [Zero α] [One α] [Add α] [Mul α] [Div α] [LE α] [DecidableLE α]
    (n : ℕ) (f : ArgForm) (r : ℕ) (A : M α) :
    (gthCalls n false f r A).2 = A ∧ (1 ≤ r → (gthCalls n false f r A).1 = gthSolve n A) :=
  gthCalls_of_not n false f rfl r A

/-- **What an in-place call keeps**: the first row of the array is never written (more generally the
    reduction from pivot `k` on never writes into a row `i ≤ k`), for any scalar type. -/
theorem argAfter_first_row {α : Type} [Zero α] [One α] [Add α] [Mul α] [Div α] [LE α] [DecidableLE α]
    (n : ℕ) (A : M α) (ow : Bool) (f : ArgForm) (j : ℕ) (hn : 0 < n) (hj : j < n) :
    (argAfter n A ow f).get 0 j = A.get 0 j := by
  unfold argAfter
  split
  · exact reduce_row n (n - 1) 0 A 0 j hn hj (le_refl 0)
  · rfl

/-- **Every history of calls is sound** (exact arithmetic): starting from a matrix with non-negative
    off-diagonals, after any number of calls — in place or not — the array still has non-negative
    off-diagonals and every call returns a probability vector of length `n`. (An in-place call does
    change the matrix: a later call solves the reduced one — see the example below.) -/
theorem gthCalls_every_history {K : Type} [Field K] [LinearOrder K] [IsStrictOrderedRing K]
    (n : ℕ) (hn : 1 ≤ n) (ow : Bool) (f : ArgForm) (r : ℕ) (A : M K) (hA : OffNonneg n A) :
    OffNonneg n (gthCalls n ow f r A).2
    ∧ (1 ≤ r → (gthCalls n ow f r A).1.length = n
        ∧ (∀ i, 0 ≤ (gthCalls n ow f r A).1.getD i 0)
        ∧ ∑ i ∈ range n, (gthCalls n ow f r A).1.getD i 0 = 1) :=
  gthCalls_sound n hn ow f r A hA

/-- the driver's Numba-order program is the instance `seqOrd` of `gthSolveO` (any scalar type) -/
theorem gthSolve_eq_seqOrd {α : Type} [Zero α] [One α] [Add α] [Mul α] [Div α] [LE α] [DecidableLE α]
    (n : ℕ) (hn : 1 ≤ n) (A : M α) : gthSolve n A = gthSolveO seqOrd n A :=
  gthSolve_eq_seqOrd' n hn A

/-- the driver's NumPy-twin program is the instance `npOrd n` of `gthSolveO` (any scalar type) -/
theorem gthSolveNp_eq_npOrd {α : Type} [Zero α] [One α] [Add α] [Mul α] [Div α] [LE α] [DecidableLE α]
    (n : ℕ) (hn : 1 ≤ n) (A : M α) : gthSolveNp n A = gthSolveO (npOrd n) n A :=
  gthSolveNp_eq_npOrd' n hn A

section scatter
variable {K : Type} [Field K]

/-! ## T1 — restriction to a closed class and scatter -/

/-- If `C` (distinct states `< n`) is closed under `P` (no mass leaves `C`) and `x` is invariant
    for the restricted matrix `P[C,C]`, then the scattered row is invariant under `P` and vanishes
    outside `C` (core.py:398-408). -/
theorem scatter_invariant (n : ℕ) (P : M K) (C : List ℕ) (x : List K)
    (hnd : C.Nodup) (hC : ∀ c ∈ C, c < n)
    (hclosed : ∀ c ∈ C, ∀ j, j < n → j ∉ C → P.get c j = 0)
    (hx : ∀ b, b < C.length →
      ∑ a ∈ range C.length, x.getD a 0 * (restrict P C).get a b = x.getD b 0) :
    (∀ j, j < n → ∑ i ∈ range n, (scatter n C x).getD i 0 * P.get i j = (scatter n C x).getD j 0)
    ∧ (∀ i, i ∉ C → (scatter n C x).getD i 0 = 0)
    ∧ (∀ a, a < C.length → (scatter n C x).getD (C.getD a 0) 0 = x.getD a 0) :=
  scatter_invariant_aux n P C x hnd hC hclosed hx

end scatter

/-! ## non-vacuity: concrete instances of the hypotheses, and the values the driver prints -/

/-- a 3-state irreducible chain -/
def exP : M ℚ := M.ofRows [[1/2, 1/4, 1/4], [1/2, 0, 1/2], [1/4, 1/2, 1/4]]

/-- a reducible chain: 0 absorbing, 1 transient, {2,3} recurrent -/
def exR : M ℚ := M.ofRows [[1, 0, 0, 0], [1/2, 0, 1/2, 0], [0, 0, 1/2, 1/2], [0, 0, 1/4, 3/4]]

example : OffNonneg 3 exP := by
  intro i j hi hj _
  have : ∀ i < 3, ∀ j < 3, (0 : ℚ) ≤ exP.get i j := by decide +kernel
  exact this i hi j hj
example : ∀ i, i < 3 → ∑ j ∈ range 3, exP.get i j = 1 := by decide +kernel
example : gthSolve 3 exP = [8/19, 5/19, 6/19] := by decide +kernel
example : gthSolve 4 exR = [1, 0, 0, 0] := by decide +kernel      -- break at k = 0
example : (reduce 4 3 0 exR).2 = 1 := by decide +kernel
example : 0 < rowScale 3 exP 0 := by decide +kernel
/-- `exP` is irreducible (hypothesis of `gth_unique`), read off the proved-correct closure -/
example : ∀ i j, i < 3 → j < 3 → Rch 3 (adjB exP) i j := by
  intro i j hi hj
  have h : ∀ i < 3, ∀ j < 3, (reachMat 3 (adjB exP)).get i j = 1 := by decide +kernel
  exact (reachMat_iff 3 (adjB exP) i j hi hj).1 (h i hi j hj)
example : recClasses 4 (reachMat 4 (adjB exR)) = [[0], [2, 3]] := by decide +kernel
example : (reduce 3 2 0 exP).2 - 1 = 2 := by decide +kernel
/-- generator `3 (P − I)` of `exP`: rows sum to zero, same answer -/
def exG : M ℚ := M.ofRows [[-3/2, 3/4, 3/4], [3/2, -3, 3/2], [3/4, 3/2, -9/4]]
example : ∀ i, i < 3 → ∑ j ∈ range 3, exG.get i j = 0 := by decide +kernel
example : ∀ i < 3, ∀ j < 3, i ≠ j → exG.get i j = 3 * exP.get i j := by decide +kernel
example : gthSolve 3 exG = [8/19, 5/19, 6/19] := by decide +kernel
example : (stationaryDists 4 exR).map (·.2) = [[1, 0, 0, 0], [0, 0, 1/3, 2/3]] := by decide +kernel
example : (stationaryDists 4 exR).all (fun Cr => closedB 4 exR Cr.1) = true := by decide +kernel
example : ∀ i < 4, ∀ j < 4, (0 : ℚ) ≤ exR.get i j := by decide +kernel
example : ∀ i, i < 4 → ∑ j ∈ range 4, exR.get i j = 1 := by decide +kernel
/-- the exact instance reproduces the exact model … -/
example : (gthSolve 3 (liftM (RoundedOps.exact ℚ) 3 exP)).map (·.val) = [8/19, 5/19, 6/19] := by
  decide +kernel
/-- … and a genuinely lossy instance (`u = 1/8`: sums inflated, products deflated) does not, yet
    stays inside the theorem's factors (`E(3) = 44`), and breaks where the exact run breaks -/
example : (gthSolve 3 (liftM (RoundedOps.biased (1/8 : ℚ) (by norm_num)) 3 exP)).map (·.val)
    ≠ [8/19, 5/19, 6/19] := by decide +kernel
example : (reduce 4 3 0 (liftM (RoundedOps.biased (1/8 : ℚ) (by norm_num)) 4 exR)).2 = 1 := by
  decide +kernel
example : errBound 3 = 44 := by decide
/-- a non-sequential tree: ((2+0)+1) for three terms, pairs reversed for two; `hT` of `ordSpec_tree` -/
def exTree : ℕ → SumTree
  | 2 => .node (.leaf 1) (.leaf 0)
  | 3 => .node (.node (.leaf 2) (.leaf 0)) (.leaf 1)
  | _ => .leaf 0
example : (exTree 3).leaves.Perm (List.range 3) := by decide
example : (exTree 2).leaves.Perm (List.range 2) := by decide
/-- with the lossy arithmetic the tree order gives another result than the sequential order … -/
example : (gthSolveO (treeOrd exTree) 3 (liftM (RoundedOps.biased (1/8 : ℚ) (by norm_num)) 3 exP)).map (·.val)
    ≠ (gthSolveO seqOrd 3 (liftM (RoundedOps.biased (1/8 : ℚ) (by norm_num)) 3 exP)).map (·.val) := by
  decide +kernel
/-- … and with exact arithmetic the same -/
example : (gthSolveO (treeOrd exTree) 3 (liftM (RoundedOps.exact ℚ) 3 exP)).map (·.val) = [8/19, 5/19, 6/19] := by
  decide +kernel

/-- non-vacuity of `stationaryDists_accuracy` on the reducible chain `exR` with the lossy arithmetic
    (`u = 1/8`): the class `[2,3]` is in `recClasses`, the rounded row differs from the exact one
    (1/3, 2/3 on the class), the classes are the same, and zeros outside the class are exact -/
example : ([2, 3] : List ℕ) ∈ recClasses 4 (reachMat 4 (adjB exR)) := by decide +kernel
example : (stationaryDists 4 (liftM (RoundedOps.biased (1/8 : ℚ) (by norm_num)) 4 exR)).map (·.1)
    = [[0], [2, 3]] := by decide +kernel
example : ((stationaryDists 4 (liftM (RoundedOps.biased (1/8 : ℚ) (by norm_num)) 4 exR)).map
      (fun Cr => Cr.2.map (·.val))).getD 1 [] ≠ [0, 0, 1/3, 2/3] := by decide +kernel
example : (((stationaryDists 4 (liftM (RoundedOps.biased (1/8 : ℚ) (by norm_num)) 4 exR)).map
      (fun Cr => Cr.2.map (·.val))).getD 1 []).take 2 = [0, 0] := by decide +kernel
example : errBound 2 ≤ errBound 4 := by decide
/-- `exR` is stochastic (hypothesis of `stationaryDists_rounded_support`) and accepted; a matrix with
    a negative entry or a row sum 5/4 is rejected -/
example : validStochastic 4 exR = true := by decide +kernel
example : validStochastic 2 (M.ofRows [[1/2, 1/2], [-1/4, 5/4]] : M ℚ) = false := by decide +kernel
example : validStochastic 2 (M.ofRows [[1/2, 3/4], [0, 1]] : M ℚ) = false := by decide +kernel

/-- copy semantics, non-vacuity: the in-place form, what one in-place call leaves in the array, a
    form that is copied, and a history of two in-place calls (the second solves the reduced matrix
    and returns another vector than the first) -/
def inPlaceForm : ArgForm := ⟨true, true, true⟩
example : worksInPlace true inPlaceForm = true ∧ worksInPlace false inPlaceForm = false
    ∧ worksInPlace true ⟨true, false, true⟩ = false ∧ worksInPlace true ⟨false, true, true⟩ = false := by decide
example : (argAfter 3 exP true inPlaceForm).toRows = [[1/2, 1/4, 1/4], [1, 1/4, 3/4], [1/2, 5/6, 1]] := by
  decide +kernel
example : (argAfter 3 exP true ⟨true, true, false⟩).toRows = exP.toRows := by decide +kernel
example : (gthCalls 3 true inPlaceForm 1 exP).1 = [8/19, 5/19, 6/19] := by decide +kernel
example : (gthCalls 3 true inPlaceForm 2 exP).1 ≠ [8/19, 5/19, 6/19] := by decide +kernel
example : (gthCalls 3 false inPlaceForm 3 exP).1 = [8/19, 5/19, 6/19] := by decide +kernel

/-- hypotheses of `scatter_invariant` on the class `{2,3}` of `exR` -/
example : ([2, 3] : List ℕ).Nodup ∧ (∀ c ∈ ([2, 3] : List ℕ), c < 4)
    ∧ (∀ c ∈ ([2, 3] : List ℕ), ∀ j, j < 4 → j ∉ ([2, 3] : List ℕ) → exR.get c j = 0) := by
  decide +kernel

end QE.C02
