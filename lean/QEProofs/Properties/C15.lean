/-
  Property C15 — approximate solvers deliver the accuracy they report:
  theorems about QEModel.C15 (the definitions the driver `qedriver_c15` executes).

  Reading guide (properties.jsonl, C15):
    * "compute_fixed_point returns a point v with max|T(v)-v| <= error_tol unless it signals
      non-convergence … iteration":   `fp_iterate_contract`, `fp_iterate_supnorm`,
      `fp_iterate_contraction` (+ `_metric`), `fp_iterate_residual_nonexpansive` (+ the witness
      that an expansive map escapes: the code tests the step, not the residual)
    * "… and the imitation-game method":   `ig_flag_sound`, `ig_accuracy`, `ig_buffers_irrelevant`,
      `ig_not_converged_uses_max_iter`, `ig_invariant`, `dotRows_box`, `ig_box_invariant_partial`,
      `ig_tableau_payoffs_ge_one`
    * "for a contraction it lies within error_tol/(1-modulus) of the true fixed point":
      `fp_iterate_contraction`, `fp_iterate_contraction_metric`, `fp_iterate_affine_contraction`
      (all hypotheses discharged for the maps of the correspondence), `ig_contraction_distance`
    * "whenever polym_lcp_solver reports convergence, the profile is a Nash equilibrium of the
      polymatrix game":   `howson_init_state`, `howson_rows_equiv` (every tableau row-equivalent to
      the initial system, canonical basis), `howson_converged_complementary` (label invariant through
      levels and back-tracking), `howson_feasible` (tolerances 0), `howson_system_matrix_form`,
      `howson_converged_lcp_solution`, `howson_lcp_solution_is_nash` (Howson's algebraic step, complete),
      `howson_converged_nash_partial` (converged ⇒ probability vectors and Nash; partial only in the
      two ghost flags of the run), `howson_converged_lcp_solution_partial` (any tolerance)
    * "whenever mclennan_tourky reports convergence, the returned profile … is an epsilon-Nash
      equilibrium":   `isNashTol_iff`, `mt_converged_eps_nash`;  "consists of probability vectors":
      `dotRows_blocks_prob`, `unflatten_prob`, `brSelection_block_prob`, `mt_profile_prob_lh_partial` (rho from
      Lemke–Howson as a certificate; `mt_profile_prob_partial` is its general form);
      in exact arithmetic with the real rule: `ig_rho_prob_or_zero`, `mt_profile_prob_or_zero`,
      `ig_box_invariant` (no hypothesis), `ig_lh_never_artificial` (a converged inner run never
      stops with Σy = 0: C05's path argument ported to the imitation game's tableaux),
      `ig_rho_prob_of_converged`, `mt_profile_prob_of_inner_convergence`,
      `ig_box_of_inner_convergence` (assume only that the inner runs converge within max_piv).
-/
import Mathlib.Topology.MetricSpace.Contracting
import QEModel.C15
import QEProofs.Lemmas.C15Loops
import QEProofs.Lemmas.C15Nash
import QEProofs.Lemmas.C15Convex
import QEProofs.Lemmas.C15Affine
import QEProofs.Lemmas.C15Blocks
import QEProofs.Lemmas.C15Howson
import QEProofs.Lemmas.C15HowsonLabels
import QEProofs.Lemmas.C15HowsonInit
import QEProofs.Lemmas.C15HowsonSol
import QEProofs.Lemmas.C15HowsonNash
import QEProofs.Lemmas.C15IgLH
import QEProofs.Lemmas.C15IgArt
namespace QE.C15

/-! ## compute_fixed_point, method = 'iteration' -/

section iteration
variable {V K : Type} [LinearOrder K]

/-- **Contract of the iteration method**, for every map `T`, every error functional and every
    `max_iter ≥ 1`: the loop makes `k+1 ≤ max_iter` evaluations and returns the *new* iterate
    `T (T^k v)` together with the last step `err (T (T^k v)) (T^k v)`; every earlier step was
    `> tol`; the warning is issued iff the last step is `> tol`; a run that stopped before
    `max_iter` is never flagged. -/
theorem fp_iterate_contract (T : V → V) (err : V → V → K) (tol : K) (maxIter : Nat)
    (hm : 1 ≤ maxIter) (v : V) :
    ∃ k, k < maxIter ∧
      (fpIterate T err tol maxIter v).iterate = k + 1 ∧
      (fpIterate T err tol maxIter v).v = T (T^[k] v) ∧
      (fpIterate T err tol maxIter v).error = err (T (T^[k] v)) (T^[k] v) ∧
      (iterWarn tol (fpIterate T err tol maxIter v) = false ↔
        err (T (T^[k] v)) (T^[k] v) ≤ tol) ∧
      ((fpIterate T err tol maxIter v).iterate < maxIter →
        iterWarn tol (fpIterate T err tol maxIter v) = false) ∧
      (∀ j, j < k → tol < err (T (T^[j] v)) (T^[j] v)) := by
  obtain ⟨k, hk, h1, h2, h3, h4, h5⟩ := fpIterLoop_spec T err tol (maxIter - 1) v 0
  have hwarn : iterWarn tol (fpIterate T err tol maxIter v) = false ↔
      err (T (T^[k] v)) (T^[k] v) ≤ tol := by
    unfold iterWarn fpIterate
    rw [h3, Function.iterate_succ_apply']
    simp
  refine ⟨k, by omega, ?_, ?_, ?_, hwarn, ?_, ?_⟩
  · unfold fpIterate; rw [h1]; omega
  · unfold fpIterate; rw [h2, Function.iterate_succ_apply']
  · unfold fpIterate; rw [h3, Function.iterate_succ_apply']
  · intro hlt
    rw [hwarn]
    have : k < maxIter - 1 := by
      unfold fpIterate at hlt; rw [h1] at hlt; omega
    have := h4 this
    rwa [Function.iterate_succ_apply'] at this
  · intro j hj
    have := h5 j hj
    rw [Function.iterate_succ_apply'] at this
    exact not_le.mp this

/-- non-vacuity / sanity: on `T x = x/2 + 1` from `0` with `tol = 1/4`, the loop stops after 3
    evaluations at `7/4` with error `1/4` and no warning; with `max_iter = 2` it is flagged -/
example : let o := fpIterate (fun x : Rat => x / 2 + 1) (fun a b => absv (a - b)) (1/4) 10 0
    (o.v, o.error, o.iterate, iterWarn (1/4 : Rat) o) = (7/4, 1/4, 3, false) := by decide +kernel
example : let o := fpIterate (fun x : Rat => x / 2 + 1) (fun a b => absv (a - b)) (1/4) 2 0
    (o.v, o.error, o.iterate, iterWarn (1/4 : Rat) o) = (3/2, 1/2, 2, true) := by decide +kernel

end iteration

section contraction
variable {V K : Type} [Field K] [LinearOrder K] [IsStrictOrderedRing K]

/-- **Accuracy for a contraction** (all that is used of `err`: symmetry and the triangle
    inequality on a domain `D` closed under `T`; `κ < 1` a Lipschitz modulus of `T` on `D`).
    If no warning is issued, the returned point `v'` satisfies, for every fixed point `x*` in `D`,
    `err v' x* ≤ κ/(1-κ)·tol` (hence `≤ tol/(1-κ)`), and its own residual is `err (T v') v' ≤ κ·tol`
    (hence `≤ tol`). -/
theorem fp_iterate_contraction (T : V → V) (err : V → V → K) (D : V → Prop)
    (hT : ∀ x, D x → D (T x))
    (symm : ∀ x y, D x → D y → err x y = err y x)
    (tri : ∀ x y z, D x → D y → D z → err x z ≤ err x y + err y z)
    (κ : K) (h0 : 0 ≤ κ) (h1 : κ < 1)
    (lip : ∀ x y, D x → D y → err (T x) (T y) ≤ κ * err x y)
    (xs : V) (hxs : D xs) (hfix : T xs = xs)
    (tol : K) (maxIter : Nat) (hm : 1 ≤ maxIter) (v : V) (hv : D v)
    (hw : iterWarn tol (fpIterate T err tol maxIter v) = false) :
    err (fpIterate T err tol maxIter v).v xs ≤ κ / (1 - κ) * tol ∧
    err (fpIterate T err tol maxIter v).v xs ≤ tol / (1 - κ) ∧
    err (T (fpIterate T err tol maxIter v).v) (fpIterate T err tol maxIter v).v ≤ κ * tol ∧
    (0 ≤ tol → err (T (fpIterate T err tol maxIter v).v) (fpIterate T err tol maxIter v).v ≤ tol) := by
  have hDall : ∀ k, D (T^[k] v) := by
    intro k
    induction k with
    | zero => exact hv
    | succ k ih => rw [Function.iterate_succ_apply']; exact hT _ ih
  obtain ⟨k, _, _, hv', _, hwarn, _, _⟩ := fp_iterate_contract T err tol maxIter hm v
  have hstep := hwarn.mp hw
  have hDw : D (T^[k] v) := hDall k
  set w := T^[k] v with hw_def
  rw [hv']
  have hDTw := hT w hDw
  have hpos : 0 < 1 - κ := by linarith
  -- d(Tw, x*) ≤ κ d(w, x*) ≤ κ (d(w, Tw) + d(Tw, x*))
  have e1 : err (T w) xs ≤ κ * err w xs := by
    have := lip w xs hDw hxs; rwa [hfix] at this
  have e2 : err w xs ≤ err w (T w) + err (T w) xs := tri w (T w) xs hDw hDTw hxs
  have e3 : err w (T w) = err (T w) w := symm w (T w) hDw hDTw
  have e4 : (1 - κ) * err (T w) xs ≤ κ * tol := by
    have : κ * err w xs ≤ κ * (err (T w) w + err (T w) xs) := by
      apply mul_le_mul_of_nonneg_left _ h0; linarith
    have : κ * (err (T w) w) ≤ κ * tol := mul_le_mul_of_nonneg_left hstep h0
    nlinarith
  have r1 : err (T w) xs ≤ κ / (1 - κ) * tol := by
    rw [div_mul_eq_mul_div, le_div_iff₀ hpos]; linarith
  have r3 : err (T (T w)) (T w) ≤ κ * tol :=
    le_trans (lip (T w) w hDTw hDw) (mul_le_mul_of_nonneg_left hstep h0)
  refine ⟨r1, ?_, r3, ?_⟩
  · -- (1-κ) d ≤ κ tol ≤ tol needs tol ≥ 0, which follows from 0 ≤ d(Tw,Tw) … ; use e4 directly
    rw [le_div_iff₀ hpos]
    by_cases ht : 0 ≤ tol
    · nlinarith
    · -- tol < 0: then err (T w) w ≤ tol < 0, so err w xs ≤ … still fine via e4 and e1,e2
      have hneg : tol < 0 := not_le.mp ht
      -- 0 ≤ 2 * err (T w) w by triangle+symmetry: err (Tw)(Tw) ≤ err (Tw) w + err w (Tw)
      have t0 : err (T w) (T w) ≤ err (T w) w + err w (T w) := tri _ _ _ hDTw hDw hDTw
      have t1 : err (T w) (T w) ≤ err (T w) (T w) + err (T w) (T w) := tri _ _ _ hDTw hDTw hDTw
      nlinarith
  · intro ht
    nlinarith

omit [Field K] [IsStrictOrderedRing K] in
/-- **Residual for a non-expansive map** (`κ = 1` allowed; no fixed point needed): no warning ⇒
    the returned point `v'` has `err (T v') v' ≤ tol`. This is the first clause of the property
    ("returns a point v with max|T(v)-v| ≤ error_tol unless it signals non-convergence") for the
    iteration method; it does *not* hold for expansive maps, see the witness below: the code tests
    the step `‖v' − v‖`, not the residual of the point it returns. -/
theorem fp_iterate_residual_nonexpansive (T : V → V) (err : V → V → K) (D : V → Prop)
    (hT : ∀ x, D x → D (T x))
    (lip : ∀ x y, D x → D y → err (T x) (T y) ≤ err x y)
    (tol : K) (maxIter : Nat) (hm : 1 ≤ maxIter) (v : V) (hv : D v)
    (hw : iterWarn tol (fpIterate T err tol maxIter v) = false) :
    err (T (fpIterate T err tol maxIter v).v) (fpIterate T err tol maxIter v).v ≤ tol := by
  have hDall : ∀ k, D (T^[k] v) := by
    intro k
    induction k with
    | zero => exact hv
    | succ k ih => rw [Function.iterate_succ_apply']; exact hT _ ih
  obtain ⟨k, _, _, hv', _, hwarn, _, _⟩ := fp_iterate_contract T err tol maxIter hm v
  rw [hv']
  exact le_trans (lip _ _ (hT _ (hDall k)) (hDall k)) (hwarn.mp hw)

/-- witness that the hypothesis cannot be dropped: `T x = 3x − 1` (fixed point `1/2`), start `5/8`,
    `tol = 1/4`: the first step is `1/4 ≤ tol`, no warning, the point returned is `7/8` whose
    residual `|T(7/8) − 7/8| = 3/4 > tol`. (Kept as a test of the model, not as a finding: the
    docstring promises accuracy for contractions "or similar".) -/
example : let T := fun x : Rat => 3 * x - 1
    let o := fpIterate T (fun a b => absv (a - b)) (1/4 : Rat) 10 (5/8)
    (iterWarn (1/4 : Rat) o, o.v, absv (T o.v - o.v)) = (false, 7/8, 3/4) := by decide +kernel

/-- The same in Mathlib's terms: `V` a metric space, `err = dist`, `T` a `ContractingWith κ`. -/
theorem fp_iterate_contraction_metric {V : Type} [MetricSpace V] {κ : NNReal} {T : V → V}
    (hT : ContractingWith κ T) (xs : V) (hfix : Function.IsFixedPt T xs)
    (tol : ℝ) (maxIter : Nat) (hm : 1 ≤ maxIter) (v : V)
    (hw : iterWarn tol (fpIterate T dist tol maxIter v) = false) :
    dist (fpIterate T dist tol maxIter v).v xs ≤ κ / (1 - κ) * tol ∧
    dist (fpIterate T dist tol maxIter v).v xs ≤ tol / (1 - κ) ∧
    dist (T (fpIterate T dist tol maxIter v).v) (fpIterate T dist tol maxIter v).v ≤ κ * tol ∧
    dist (T (fpIterate T dist tol maxIter v).v) (fpIterate T dist tol maxIter v).v ≤ tol := by
  have h := fp_iterate_contraction T dist (fun _ => True) (fun _ _ => trivial)
    (fun x y _ _ => dist_comm x y) (fun x y z _ _ _ => dist_triangle x y z) (κ : ℝ) κ.2 hT.1
    (fun x y _ _ => hT.dist_le_mul x y) xs trivial hfix tol maxIter hm v trivial hw
  obtain ⟨k, _, _, _, he, hwarn, _, _⟩ := fp_iterate_contract T dist tol maxIter hm v
  have ht : 0 ≤ tol := le_trans dist_nonneg (hwarn.mp hw)
  exact ⟨h.1, h.2.1, h.2.2.1, h.2.2.2 ht⟩

/-- non-vacuity of the hypotheses of `fp_iterate_contraction`: `T x = x/2 + 1` on `ℚ` with
    `err = |·−·|`, `κ = 1/2`, fixed point `2`, `tol = 1/4`: no warning, the point returned is
    `7/4`, at distance `1/4 = κ/(1-κ)·tol` (the bound is attained) -/
example : let T := fun x : Rat => x / 2 + 1
    iterWarn (1/4 : Rat) (fpIterate T (fun a b => absv (a - b)) (1/4) 10 0) = false ∧
    absv ((fpIterate T (fun a b => absv (a - b)) (1/4 : Rat) 10 0).v - 2) = (1/2) / (1 - 1/2) * (1/4) := by
  decide +kernel

end contraction

section supnorm
variable {K : Type} [Field K] [LinearOrder K] [IsStrictOrderedRing K]

/-- With the error functional the code uses on arrays (`np.max(np.abs(new_v - v))`, the model's
    `maxAbsDiff`): no warning ⇒ every coordinate of the returned point differs from the previous
    iterate by at most `tol` (and `tol ≥ 0`). -/
theorem fp_iterate_supnorm (T : List K → List K) (tol : K) (maxIter : Nat) (hm : 1 ≤ maxIter)
    (v : List K) (hw : iterWarn tol (fpIterate T maxAbsDiff tol maxIter v) = false) :
    ∃ w : List K, (fpIterate T maxAbsDiff tol maxIter v).v = T w ∧ 0 ≤ tol ∧
      ∀ i, i < (T w).length → i < w.length → |(T w).getD i 0 - w.getD i 0| ≤ tol := by
  obtain ⟨k, _, _, hv, _, hwarn, _, _⟩ := fp_iterate_contract T maxAbsDiff tol maxIter hm v
  have h := hwarn.mp hw
  have ht : 0 ≤ tol := le_trans (maxAbsDiff_nonneg _ _) h
  exact ⟨T^[k] v, hv, ht, (maxAbsDiff_le_iff _ _ _ ht).mp h⟩

/-- **End to end on the maps the correspondence runs** (`affClip A b box`: `x ↦ clip(A x + b)`,
    vectors of length `n`, the code's error functional `maxAbsDiff`): if every absolute row sum of
    `A` is `≤ κ < 1`, then whenever the iteration method issues no warning, the point returned is
    within `tol/(1-κ)` of every fixed point, coordinate by coordinate, and its own residual is
    `≤ κ·tol` — the instance of `fp_iterate_contraction` whose hypotheses (metric axioms for
    `maxAbsDiff`, Lipschitz modulus of `affClip`) are all proved. -/
theorem fp_iterate_affine_contraction (A : List (List K)) (b : List K) (box : Option (K × K)) (n : Nat)
    (hA : A.length = n) (hb : b.length = n)
    (κ : K) (h0 : 0 ≤ κ) (h1 : κ < 1) (hrows : ∀ row ∈ A, fsum (row.map fun a => |a|) ≤ κ)
    (xs : List K) (hxs : xs.length = n) (hfix : affClip A b box xs = xs)
    (tol : K) (maxIter : Nat) (hm : 1 ≤ maxIter) (v : List K) (hv : v.length = n)
    (hw : iterWarn tol (fpIterate (affClip A b box) maxAbsDiff tol maxIter v) = false) :
    (∀ i, i < n → |(fpIterate (affClip A b box) maxAbsDiff tol maxIter v).v.getD i 0 - xs.getD i 0|
        ≤ tol / (1 - κ)) ∧
    (∀ i, i < n → |(affClip A b box (fpIterate (affClip A b box) maxAbsDiff tol maxIter v).v).getD i 0
        - (fpIterate (affClip A b box) maxAbsDiff tol maxIter v).v.getD i 0| ≤ κ * tol) := by
  have hlenT : ∀ x : List K, (affClip A b box x).length = n := by
    intro x; rw [affClip_length, hA, hb]; simp
  have h := fp_iterate_contraction (affClip A b box) maxAbsDiff (fun x => x.length = n)
    (fun x _ => hlenT x)
    (fun x y _ _ => maxAbsDiff_symm x y)
    (fun x y z hx hy hz => maxAbsDiff_triangle x y z (by rw [hx, hy]) (by rw [hy, hz]))
    κ h0 h1 (fun x y hx hy => affClip_lip A b box κ h0 hrows x y (by rw [hx, hy]))
    xs hxs hfix tol maxIter hm v hv hw
  obtain ⟨k, _, _, hv', _, _, _, _⟩ := fp_iterate_contract (affClip A b box) maxAbsDiff tol maxIter hm v
  have hlen : (fpIterate (affClip A b box) maxAbsDiff tol maxIter v).v.length = n := by
    rw [hv']; exact hlenT _
  constructor
  · intro i hi
    exact le_trans (maxAbsDiff_coord _ _ i (by omega) (by omega)) h.2.1
  · intro i hi
    exact le_trans (maxAbsDiff_coord _ _ i (by rw [hlenT]; exact hi) (by omega)) h.2.2.1

/-- non-vacuity: `A = [[0, 1/2], [1/4, 0]]`, `b = (1, 0)`, `κ = 1/2`, fixed point `(8/7, 2/7)` -/
example : (∀ row ∈ ([[0, 1/2], [1/4, 0]] : List (List Rat)), fsum (row.map fun a => |a|) ≤ 1/2) ∧
    affClip ([[0, 1/2], [1/4, 0]] : List (List Rat)) [1, 0] none [8/7, 2/7] = [8/7, 2/7] ∧
    iterWarn (1/100 : Rat) (fpIterate (affClip [[0, 1/2], [1/4, 0]] [1, 0] none) maxAbsDiff (1/100) 50 [0, 0]) = false := by
  refine ⟨?_, by decide +kernel, by decide +kernel⟩
  intro row hrow
  simp only [List.mem_cons, List.not_mem_nil, or_false] at hrow
  rcases hrow with rfl | rfl <;> norm_num [fsum]

end supnorm

/-! ## compute_fixed_point, method = 'imitation_game' -/

section imitation
variable {V : Type}

/-- **Flag soundness**, for every `T`, every predicate and *every* rule for the next point
    (Lemke–Howson may return anything): the flag returned is `is_approx_fp` evaluated at the
    point returned — in particular `converged ⇒ is_approx_fp(x_returned)`. -/
theorem ig_flag_sound (T : V → V) (isFp : V → Bool) (next : List V → List V → V) (maxIter : Nat)
    (v : V) :
    (fixedPointIG T isFp next maxIter v).converged = isFp (fixedPointIG T isFp next maxIter v).x := by
  unfold fixedPointIG
  split
  · rfl
  · exact igLoop_flag T isFp next maxIter _ _ _ _ _

/-- a run that is not flagged as converged made exactly `max_iter` iterations; every run makes
    between 1 and `max_iter` -/
theorem ig_not_converged_uses_max_iter (T : V → V) (isFp : V → Bool) (next : List V → List V → V)
    (maxIter : Nat) (hm : 1 ≤ maxIter) (v : V) :
    1 ≤ (fixedPointIG T isFp next maxIter v).iterate ∧
    (fixedPointIG T isFp next maxIter v).iterate ≤ maxIter ∧
    ((fixedPointIG T isFp next maxIter v).converged = false →
      (fixedPointIG T isFp next maxIter v).iterate = maxIter) := by
  unfold fixedPointIG
  split
  · rename_i hc
    refine ⟨Nat.le_refl _, hm, fun hconv => ?_⟩
    rcases hc with hc | hc
    · simp only at hconv; rw [hc] at hconv; exact absurd hconv (by decide)
    · show 1 = maxIter; omega
  · rename_i hc
    have hlt : 1 < maxIter := by
      by_contra hcon; exact hc (Or.inr (by omega))
    obtain ⟨a, b, c⟩ := igLoop_iterate T isFp next maxIter (maxIter - 1) [v] [T v] (T v) 1 (by omega) hlt
    exact ⟨by omega, a, c⟩

/-- **The buffers do not matter**: with the X/Y arrays of the code (initial capacity
    `min(max_iter, buff0)`, doubled on `IndexError`, uninitialised rows filled with an arbitrary
    `junk`), the routine computes exactly what it computes on unbounded lists: no stored point is
    ever lost or read from an uninitialised row. -/
theorem ig_buffers_irrelevant (junk : V) (buff0 : Nat) (hb : 1 ≤ buff0) (T : V → V) (isFp : V → Bool)
    (next : List V → List V → V) (maxIter : Nat) (v : V) :
    fixedPointIGBuf junk buff0 T isFp next maxIter v = fixedPointIG T isFp next maxIter v :=
  fixedPointIGBuf_eq junk buff0 hb T isFp next maxIter v

/-- **Invariant along every history**: if a set `P` of points contains the start, is mapped
    into itself by whatever `next` builds from stored points of `P` and their images, then the
    point returned lies in `P`. (`next` always sees `Y = X.map T`: the images stored are the
    images of the points stored.) -/
theorem ig_invariant (T : V → V) (isFp : V → Bool) (next : List V → List V → V) (maxIter : Nat)
    (P : V → Prop) (hT : ∀ x, P x → P (T x))
    (hnext : ∀ X : List V, X ≠ [] → (∀ x ∈ X, P x) → P (next X (X.map T)))
    (v : V) (hv : P v) : P (fixedPointIG T isFp next maxIter v).x := by
  unfold fixedPointIG
  split
  · exact hv
  · have := igLoop_history T isFp next maxIter P hnext (maxIter - 1) [v] (T v) 1 rfl
      (by intro z hz; rw [List.mem_singleton.mp hz]; exact hv) (hT v hv)
    simpa using this

/-- **Distance to the fixed point of a contraction, imitation-game method**: with
    `is_approx_fp x = (err (T x) x ≤ tol)`, `T` a `κ`-contraction on a domain `D` that the rule for
    the next point does not leave (convex combinations of stored images stay in a convex `D`),
    a converged run returns a point within `tol/(1-κ)` of every fixed point in `D`. -/
theorem ig_contraction_distance {K : Type} [Field K] [LinearOrder K] [IsStrictOrderedRing K]
    (T : V → V) (err : V → V → K) (D : V → Prop)
    (hT : ∀ x, D x → D (T x))
    (symm : ∀ x y, D x → D y → err x y = err y x)
    (tri : ∀ x y z, D x → D y → D z → err x z ≤ err x y + err y z)
    (κ : K) (h1 : κ < 1)
    (lip : ∀ x y, D x → D y → err (T x) (T y) ≤ κ * err x y)
    (xs : V) (hxs : D xs) (hfix : T xs = xs) (tol : K)
    (next : List V → List V → V)
    (hnext : ∀ X : List V, X ≠ [] → (∀ x ∈ X, D x) → D (next X (X.map T)))
    (maxIter : Nat) (v : V) (hv : D v)
    (hc : (fixedPointIG T (fun x => decide (err (T x) x ≤ tol)) next maxIter v).converged = true) :
    err (fixedPointIG T (fun x => decide (err (T x) x ≤ tol)) next maxIter v).x xs ≤ tol / (1 - κ) := by
  have hD := ig_invariant T (fun x => decide (err (T x) x ≤ tol)) next maxIter D hT hnext v hv
  rw [ig_flag_sound] at hc
  generalize (fixedPointIG T (fun x => decide (err (T x) x ≤ tol)) next maxIter v).x = x at hc hD
  have hres : err (T x) x ≤ tol := of_decide_eq_true hc
  have hpos : 0 < 1 - κ := by linarith
  have e1 : err x xs ≤ err x (T x) + err (T x) xs := tri x (T x) xs hD (hT x hD) hxs
  have e2 : err x (T x) = err (T x) x := symm x (T x) hD (hT x hD)
  have e3 : err (T x) xs ≤ κ * err x xs := by
    have := lip x xs hD hxs; rwa [hfix] at this
  rw [le_div_iff₀ hpos]
  nlinarith

end imitation

section imitation_accuracy
variable {K : Type} [Field K] [LinearOrder K] [IsStrictOrderedRing K]

/-- **Accuracy of the imitation-game method** as `compute_fixed_point` instantiates it
    (`is_approx_fp v = (max|T v − v| ≤ error_tol)`): if the run is not flagged (converged), the
    point returned satisfies `|T(x)_i − x_i| ≤ tol` in every coordinate — whatever Lemke–Howson
    returned on the way, with the code's buffers. -/
theorem ig_accuracy (junk : List K) (buff0 : Nat) (hb : 1 ≤ buff0) (T : List K → List K) (tol : K)
    (next : List (List K) → List (List K) → List K) (maxIter : Nat) (v : List K)
    (hc : (fixedPointIGBuf junk buff0 T (isApproxFp T tol) next maxIter v).converged = true) :
    0 ≤ tol ∧
    ∀ i, i < (T (fixedPointIGBuf junk buff0 T (isApproxFp T tol) next maxIter v).x).length →
      i < (fixedPointIGBuf junk buff0 T (isApproxFp T tol) next maxIter v).x.length →
      |(T (fixedPointIGBuf junk buff0 T (isApproxFp T tol) next maxIter v).x).getD i 0
        - (fixedPointIGBuf junk buff0 T (isApproxFp T tol) next maxIter v).x.getD i 0| ≤ tol := by
  rw [ig_buffers_irrelevant junk buff0 hb] at hc ⊢
  rw [ig_flag_sound] at hc
  have h : maxAbsDiff (T (fixedPointIG T (isApproxFp T tol) next maxIter v).x)
      (fixedPointIG T (isApproxFp T tol) next maxIter v).x ≤ tol := by
    generalize (fixedPointIG T (isApproxFp T tol) next maxIter v).x = x at hc
    unfold isApproxFp at hc
    exact of_decide_eq_true hc
  have ht : 0 ≤ tol := le_trans (maxAbsDiff_nonneg _ _) h
  exact ⟨ht, (maxAbsDiff_le_iff _ _ _ ht).mp h⟩

/-- non-vacuity: the routine does converge on a concrete contraction of `ℚ²`
    (`T(x,y) = (y/2 + 1, x/4)`, start `(0,0)`, `tol = 1/100`) with the real Lemke–Howson rule -/
example : (fixedPointIGBuf [] 2 (affClip [[0, 1/2], [1/4, 0]] [1, 0] none)
    (isApproxFp (affClip [[0, 1/2], [1/4, 0]] [1, 0] none) (1/100 : Rat))
    (igNext 1000000 tolPivQ tolDiffQ) 20 [0, 0]).converged = true := by decide +kernel

/-- **Imitation-game tableaux are admissible for Lemke–Howson** (`_initialize_tableaux_ig`): for
    every history, every entry of the imitator's payoff block `−‖X_i − Y_j‖² − min_j + 1` is `≥ 1`
    (strictly positive payoffs), whatever the stored points are. -/
theorem ig_tableau_payoffs_ge_one (m : Nat) (X Y : List (List K)) (i j : Nat) (hi : i < m) (hj : j < m) :
    1 ≤ (igT1 m X Y).get i (m + j) := igT1_payoff_ge_one m X Y i j hi hj

example : (igT1 2 [[0, 0], [1, 1]] [[1, 1], [0, 3]]).toRows
    = [[1, 0, 1, 1, 1], [0, 1, 3, 5, 1]] := by decide +kernel

end imitation_accuracy

/-! ## mclennan_tourky -/

section nash
variable {K : Type} [Field K] [LinearOrder K] [IsStrictOrderedRing K]

/-- the payoff vectors `players[i].payoff_vector(profile[i+1:] + profile[:i])` of a profile -/
def pvOf (nums : List Nat) (pays : List (List K)) (prof : List (List K)) (i : Nat) : List K :=
  payoffVector nums (pays.getD i []) i prof

/-- **ε-Nash, declaratively.** `prof` is an `ε`-Nash equilibrium when no player `i` has a pure
    action whose payoff against the others' mixed actions exceeds the payoff `x_i · pv_i` of his
    own mixed action by more than `ε`. -/
def IsEpsNashProfile (nums : List Nat) (pays : List (List K)) (eps : K) (prof : List (List K)) : Prop :=
  ∀ i, i < nums.length → ∀ p ∈ pvOf nums pays prof i, p ≤ dot (prof.getD i []) (pvOf nums pays prof i) + eps

/-- `NormalFormGame.is_nash(profile, tol)` (the model's `isNashTol`) decides exactly the
    declarative notion; the guard is that every player's payoff vector is non-empty (he has at
    least one action) — for an empty vector `max()` raises in the code. -/
theorem isNashTol_iff (nums : List Nat) (pays : List (List K)) (tol : K) (prof : List (List K))
    (hne : ∀ i, i < nums.length → pvOf nums pays prof i ≠ []) :
    isNashTol nums pays tol prof = true ↔ IsEpsNashProfile nums pays tol prof := by
  unfold isNashTol IsEpsNashProfile
  rw [List.all_eq_true]
  constructor
  · intro h i hi p hp
    have := h i (List.mem_range.mpr hi)
    unfold isBestResponse at this
    have h2 := of_decide_eq_true this
    have h3 : vecMax (pvOf nums pays prof i) ≤ dot (prof.getD i []) (pvOf nums pays prof i) + tol := by
      unfold pvOf; linarith
    exact (vecMax_le_iff _ (hne i hi) _).mp h3 p hp
  · intro h i hi
    have hi' := List.mem_range.mp hi
    unfold isBestResponse
    apply decide_eq_true
    have h3 := (vecMax_le_iff _ (hne i hi') _).mpr (h i hi')
    unfold pvOf at h3; linarith

/-- **mclennan_tourky: converged ⇒ ε-Nash**, for every game, start, `ε`, `max_iter`, and whatever
    the imitation-game step (`next`: tableaux, Lemke–Howson, convex combination) produced along the
    way: if the routine reports convergence, the un-flattened profile it returns is an `ε`-Nash
    equilibrium in the declarative sense. -/
theorem mt_converged_eps_nash (nums : List Nat) (pays : List (List K)) (eps tolBR : K)
    (next : List (List K) → List (List K) → List K) (maxIter : Nat) (x0 : List K)
    (hne : ∀ i, i < nums.length → pvOf nums pays
      (unflatten nums (mclennanTourky nums pays eps tolBR next maxIter x0).x) i ≠ [])
    (hc : (mclennanTourky nums pays eps tolBR next maxIter x0).converged = true) :
    IsEpsNashProfile nums pays eps
      (unflatten nums (mclennanTourky nums pays eps tolBR next maxIter x0).x) := by
  unfold mclennanTourky at hc hne ⊢
  rw [ig_flag_sound] at hc
  unfold isEpsNash at hc
  exact (isNashTol_iff nums pays eps _ hne).mp hc

/-- and conversely the flag is exact: not converged ⇒ the profile returned is *not* ε-Nash (the
    routine never gives up on a point that already passes the test) and `max_iter` iterations
    were used -/
theorem mt_not_converged (nums : List Nat) (pays : List (List K)) (eps tolBR : K)
    (next : List (List K) → List (List K) → List K) (maxIter : Nat) (hm : 1 ≤ maxIter) (x0 : List K)
    (hne : ∀ i, i < nums.length → pvOf nums pays
      (unflatten nums (mclennanTourky nums pays eps tolBR next maxIter x0).x) i ≠ [])
    (hc : (mclennanTourky nums pays eps tolBR next maxIter x0).converged = false) :
    ¬ IsEpsNashProfile nums pays eps
      (unflatten nums (mclennanTourky nums pays eps tolBR next maxIter x0).x) ∧
    (mclennanTourky nums pays eps tolBR next maxIter x0).iterate = maxIter := by
  unfold mclennanTourky at hc hne ⊢
  refine ⟨?_, (ig_not_converged_uses_max_iter _ _ _ _ hm _).2.2 hc⟩
  rw [ig_flag_sound] at hc
  intro h
  have h2 := (isNashTol_iff nums pays eps _ hne).mpr h
  have h3 : isEpsNash nums pays eps
      (fixedPointIG (brSelection nums pays tolBR) (isEpsNash nums pays eps) next maxIter x0).x = true := h2
  rw [h3] at hc
  exact absurd hc (by decide)

/-- **`best_response(…, tie_breaking='smallest')`** (the map whose fixed points are sought):
    for a non-empty payoff vector and `tol ≥ 0` the action selected exists, is a `tol`-best
    response, and no action with a smaller index is one. -/
theorem bestResponse_spec (tol : K) (ht : 0 ≤ tol) (pv : List K) (hne : pv ≠ []) :
    ∃ h : bestResponse tol pv < pv.length,
      vecMax pv - tol ≤ pv[bestResponse tol pv] ∧
      ∀ j (hj : j < bestResponse tol pv), pv[j]'(Nat.lt_trans hj h) < vecMax pv - tol := by
  have hex : ∃ p ∈ pv, decide (vecMax pv - tol ≤ p) = true :=
    ⟨vecMax pv, vecMax_mem pv hne, decide_eq_true (by linarith)⟩
  have hlt : bestResponse tol pv < pv.length := List.findIdx_lt_length_of_exists hex
  refine ⟨hlt, ?_, ?_⟩
  · have := List.findIdx_getElem (w := hlt)
    exact of_decide_eq_true this
  · intro j hj
    have := List.not_of_lt_findIdx hj
    exact not_le.mp (of_decide_eq_false this)

omit [LinearOrder K] [IsStrictOrderedRing K] in
/-- `pure2mixed(n, a)` has `n` entries, all `0` except a `1` at `a` -/
theorem pure2mixed_spec (n a : Nat) :
    (pure2mixed n a : List K).length = n ∧
    ∀ k, k < n → (pure2mixed n a : List K).getD k 0 = if k = a then 1 else 0 := by
  unfold pure2mixed
  refine ⟨by simp, fun k hk => ?_⟩
  rw [List.getD_eq_getElem?_getD, List.getElem?_map, List.getElem?_eq_getElem (by simpa using hk)]
  simp

example : bestResponse (1/10 : Rat) [1, 3, 29/10, 3] = 1 ∧ bestResponse (1/5 : Rat) [14/5, 3, 3] = 0 := by
  decide +kernel

omit [LinearOrder K] [IsStrictOrderedRing K] in
/-- for two players the payoff vector is the matrix–vector product `A y` -/
theorem payoffVector_two (n0 n1 : Nat) (pay : List K) (x0 x1 : List K) :
    payoffVector [n0, n1] pay 0 [x0, x1] = reduceLast pay n1 x1 ∧
    payoffVector [n0, n1] pay 1 [x0, x1] = reduceLast pay n0 x0 := by
  constructor <;> simp [payoffVector, rot]

/-- non-vacuity: matching pennies, the uniform profile is a 0-Nash equilibrium, a pure profile is
    not even a 1-Nash equilibrium; mclennan_tourky started at the uniform profile converges at once,
    started at a pure profile with `ε = 1/100` it converges (real Lemke–Howson rule) -/
example : isNashTol [2, 2] [[1, -1, -1, 1], [-1, 1, 1, -1]] (0 : Rat) [[1/2, 1/2], [1/2, 1/2]] = true ∧
    isNashTol [2, 2] [[1, -1, -1, 1], [-1, 1, 1, -1]] (1 : Rat) [[1, 0], [1, 0]] = false := by
  decide +kernel
example : (mclennanTourky [2, 2] [[1, -1, -1, 1], [-1, 1, 1, -1]] (1/100 : Rat) (1/100000000)
    (igNext 1000000 tolPivQ tolDiffQ) 30 [1, 0, 1, 0]).converged = true := by decide +kernel

end nash

/-! ## the returned profile consists of probability vectors -/

section convex
variable {K : Type} [Field K] [LinearOrder K] [IsStrictOrderedRing K]

/-- `Σ` of player `i`'s block `x[indptr[i] : indptr[i+1]]` of a flattened profile -/
def blockSum (nums : List Nat) (x : List K) (i : Nat) : K :=
  fsum ((List.range' (indptr nums i) (nums.getD i 0)).map fun k => x.getD k 0)

/-- every coordinate is `≥ 0` and every player's block sums to one -/
def IsBlockProb (nums : List Nat) (x : List K) : Prop :=
  (∀ k, 0 ≤ x.getD k 0) ∧ ∀ i, i < nums.length → blockSum nums x i = 1

/-- a probability vector: non-negative entries summing to one -/
def IsProbVec (rho : List K) : Prop := (∀ r ∈ rho, 0 ≤ r) ∧ fsum rho = 1

/-- **`rho.dot(Y[:m])` is a convex combination.** If `rho` is a probability vector with one weight
    per stored image, and every stored image is a profile of probability vectors, so is the next
    point. (`n` = length of the rows; the blocks must lie inside the rows.) -/
theorem dotRows_blocks_prob (nums : List Nat) (rho : List K) (Y : List (List K))
    (hρ : IsProbVec rho) (hlen : rho.length = Y.length)
    (hY : ∀ y ∈ Y, IsBlockProb nums y)
    (hn : ∀ i, i < nums.length → indptr nums i + nums.getD i 0 ≤ (Y.headD []).length) :
    IsBlockProb nums (dotRows rho Y) := by
  constructor
  · intro k
    rw [dotRows_getD]
    split_ifs
    · exact fsum_zipWith_nonneg (fun y => y.getD k 0) rho Y hρ.1 (fun y hy => (hY y hy).1 k)
    · exact le_refl _
  · intro i hi
    unfold blockSum
    have hmap : ((List.range' (indptr nums i) (nums.getD i 0)).map fun k => (dotRows rho Y).getD k 0)
        = (List.range' (indptr nums i) (nums.getD i 0)).map fun k =>
            fsum (List.zipWith (fun r y => r * y.getD k 0) rho Y) := by
      apply List.map_congr_left
      intro k hk
      rw [dotRows_getD, if_pos]
      have := List.mem_range'_1.mp hk
      have := hn i hi
      omega
    rw [hmap, fsum_zipWith_swap]
    rw [fsum_zipWith_const (fun y => fsum ((List.range' (indptr nums i) (nums.getD i 0)).map fun k => y.getD k 0))
      rho Y (le_of_eq hlen) (fun y hy => (hY y hy).2 i hi)]
    exact hρ.2

/-- **Convex combinations stay in a box** (`compute_fixed_point` on Brouwer maps of boxes): if
    `rho` is a probability vector with one weight per stored image and every stored image lies in
    `[lo, hi]^n`, so does `rho.dot(Y[:m])`. -/
theorem dotRows_box (lo hi : K) (n : Nat) (rho : List K) (Y : List (List K))
    (hρ : IsProbVec rho) (hlen : rho.length = Y.length) (hn : (Y.headD []).length = n)
    (hY : ∀ y ∈ Y, ∀ k, k < n → lo ≤ y.getD k 0 ∧ y.getD k 0 ≤ hi) :
    ∀ k, k < n → lo ≤ (dotRows rho Y).getD k 0 ∧ (dotRows rho Y).getD k 0 ≤ hi := by
  intro k hk
  rw [dotRows_getD, if_pos (by rw [hn]; exact hk)]
  have h1 := fsum_zipWith_nonneg (fun y => 1 * y.getD k 0 + (-lo)) rho Y hρ.1
    (fun y hy => by have := (hY y hy k hk).1; linarith)
  have h2 := fsum_zipWith_nonneg (fun y => (-1) * y.getD k 0 + hi) rho Y hρ.1
    (fun y hy => by have := (hY y hy k hk).2; linarith)
  rw [fsum_zipWith_affine (fun y => y.getD k 0) 1 (-lo) rho Y (le_of_eq hlen)] at h1
  rw [fsum_zipWith_affine (fun y => y.getD k 0) (-1) hi rho Y (le_of_eq hlen)] at h2
  rw [hρ.2] at h1 h2
  constructor <;> linarith

/-- **compute_fixed_point (imitation game) keeps its iterates in the box** — partial in the same
    sense as `mt_profile_prob_lh_partial` (hypothesis (h3) on the `rho` of Lemke–Howson): for a map
    `T` sending `[lo,hi]^n` into itself and a start in the box, the point returned lies in the box. -/
theorem ig_box_invariant_partial (lo hi : K) (n : Nat) (T : List K → List K) (isFp : List K → Bool)
    (hT : ∀ x : List K, (x.length = n ∧ ∀ k, k < n → lo ≤ x.getD k 0 ∧ x.getD k 0 ≤ hi) →
      ((T x).length = n ∧ ∀ k, k < n → lo ≤ (T x).getD k 0 ∧ (T x).getD k 0 ≤ hi))
    (lh : List (List K) → List (List K) → List K) (maxIter : Nat) (v : List K)
    (hv : v.length = n ∧ ∀ k, k < n → lo ≤ v.getD k 0 ∧ v.getD k 0 ≤ hi)
    (h3 : ∀ X Y : List (List K), X.length = Y.length → X ≠ [] →
      IsProbVec (lh X Y) ∧ (lh X Y).length = Y.length) :
    (fixedPointIG T isFp (igNextWith lh) maxIter v).x.length = n ∧
    ∀ k, k < n → lo ≤ (fixedPointIG T isFp (igNextWith lh) maxIter v).x.getD k 0 ∧
      (fixedPointIG T isFp (igNextWith lh) maxIter v).x.getD k 0 ≤ hi := by
  apply ig_invariant T isFp (igNextWith lh) maxIter
    (fun x => x.length = n ∧ ∀ k, k < n → lo ≤ x.getD k 0 ∧ x.getD k 0 ≤ hi) hT
  · intro X hX hP
    unfold igNextWith
    have hh : ((X.map T).headD []).length = n := by
      cases X with
      | nil => exact absurd rfl hX
      | cons a as => simp [(hT a (hP a (by simp))).1]
    obtain ⟨hp, hl⟩ := h3 X (X.map T) (by simp) hX
    refine ⟨by unfold dotRows; rw [List.length_map, List.length_range, hh], ?_⟩
    apply dotRows_box lo hi n _ _ hp hl hh
    intro y hy
    obtain ⟨a, ha, rfl⟩ := List.mem_map.mp hy
    exact (hT a (hP a ha)).2
  · exact hv

/-- **`_best_response_selection` returns a profile of probability vectors** (pure actions), for
    every well-shaped game (every player has at least one action, player `i`'s payoff array has
    `Π nums` entries), every `tol ≥ 0` and *every* argument `x`: the result has `Σ nums` entries,
    all `≥ 0`, and every player's block sums to one. (Hypothesis (h2) of the partial theorem
    below, discharged.) -/
theorem brSelection_block_prob (nums : List Nat) (hpos : ∀ k ∈ nums, 0 < k) (pays : List (List K))
    (hpays : ∀ i, i < nums.length → (pays.getD i []).length = (rot nums i).prod)
    (tolBR : K) (ht : 0 ≤ tolBR) (x : List K) :
    IsBlockProb nums (brSelection nums pays tolBR x) ∧
    (brSelection nums pays tolBR x).length = nums.sum := by
  obtain ⟨a, hadef⟩ : ∃ a : Nat → Nat, a = fun i =>
    bestResponse tolBR (payoffVector nums (pays.getD i []) i (unflatten nums x)) := ⟨_, rfl⟩
  obtain ⟨ls, hls⟩ : ∃ ls : List (List K),
    ls = (List.range nums.length).map fun i => pure2mixed (nums.getD i 0) (a i) := ⟨_, rfl⟩
  have hbr : brSelection nums pays tolBR x = ls.flatten := by rw [hls, hadef]; rfl
  have hN : ls.length = nums.length := by simp [hls]
  have hget : ∀ i (hi : i < nums.length), ls[i]'(by rw [hN]; exact hi) = pure2mixed (nums.getD i 0) (a i) := by
    intro i hi; simp [hls]
  have ha : ∀ i, i < nums.length → a i < nums.getD i 0 := by
    intro i hi
    have hl := payoffVector_length nums hpos (pays.getD i []) i hi (hpays i hi) (unflatten nums x)
      (by simp [unflatten])
    have hni : 0 < nums.getD i 0 := by
      rw [List.getD_eq_getElem?_getD, List.getElem?_eq_getElem hi, Option.getD_some]
      exact hpos _ (List.getElem_mem hi)
    have hne : payoffVector nums (pays.getD i []) i (unflatten nums x) ≠ [] := by
      intro h
      have : (0 : Nat) = nums.getD i 0 := by rw [← hl, h]; rfl
      omega
    obtain ⟨h, _, _⟩ := bestResponse_spec tolBR ht _ hne
    rw [hadef]
    show bestResponse tolBR _ < _
    rw [← hl]; exact h
  have hlens : ls.map List.length = nums := by
    apply List.ext_getElem
    · simp [hls]
    · intro i h1 h2
      simp [hls, (pure2mixed_spec (K := K) _ _).1, List.getElem?_eq_getElem h2]
  rw [hbr]
  refine ⟨⟨?_, ?_⟩, ?_⟩
  · intro k
    rw [List.getD_eq_getElem?_getD]
    cases hk : ls.flatten[k]? with
    | none => exact le_refl _
    | some z =>
      have hz : z ∈ ls.flatten := List.mem_of_getElem? hk
      obtain ⟨l, hl, hzl⟩ := List.mem_flatten.mp hz
      rw [hls] at hl
      obtain ⟨i, _, rfl⟩ := List.mem_map.mp hl
      unfold pure2mixed at hzl
      obtain ⟨t, _, rfl⟩ := List.mem_map.mp hzl
      simp only [Option.getD_some]
      split_ifs
      · exact zero_le_one
      · exact le_refl _
  · intro i hi
    unfold blockSum
    have hoff : indptr nums i = ((ls.take i).map List.length).sum := by
      rw [indptr_eq_sum, List.map_take, hlens]
    have hmap : ((List.range' (indptr nums i) (nums.getD i 0)).map fun k => ls.flatten.getD k 0)
        = (List.range (nums.getD i 0)).map fun t => if t = a i then (1 : K) else 0 := by
      rw [List.range'_eq_map_range, List.map_map]
      apply List.map_congr_left
      intro t ht'
      have htn : t < nums.getD i 0 := List.mem_range.mp ht'
      simp only [Function.comp]
      rw [hoff, flatten_getD_block ls i (by rw [hN]; exact hi) t
        (by rw [hget i hi, (pure2mixed_spec _ _).1]; exact htn), hget i hi]
      exact (pure2mixed_spec _ _).2 t htn
    rw [hmap, fsum_indicator, if_pos (ha i hi)]
  · rw [List.length_flatten, hlens]

/-- **mclennan_tourky returns a profile of probability vectors** — partial: two facts about
    sub-routines enter as hypotheses (both are checked on the real code on every recorded pass by
    the correspondence run: counters `lh:*` for (h3), spec key `mt_image_pure` for (h2)):
    (h2) `_best_response_selection` returns a profile of (pure, hence) probability vectors with
         `n` entries — true as soon as every player's payoff vector has one entry per action;
    (h3) the `rho` extracted from the Lemke–Howson tableaux of the imitation game is a probability
         vector with one weight per stored point (a theorem about Lemke–Howson with the code's
         tolerances, not attempted).
    Given these, for every game, start in the product of simplices, `ε`, `max_iter`: the point
    returned (converged or not) is a profile of probability vectors. -/
theorem mt_profile_prob_partial (nums : List Nat) (pays : List (List K)) (eps tolBR : K) (n : Nat)
    (lh : List (List K) → List (List K) → List K) (maxIter : Nat) (x0 : List K)
    (hn : ∀ i, i < nums.length → indptr nums i + nums.getD i 0 ≤ n)
    (h1 : IsBlockProb nums x0 ∧ x0.length = n)
    (h2 : ∀ x, IsBlockProb nums (brSelection nums pays tolBR x) ∧ (brSelection nums pays tolBR x).length = n)
    (h3 : ∀ X Y : List (List K), X.length = Y.length → X ≠ [] →
      IsProbVec (lh X Y) ∧ (lh X Y).length = Y.length) :
    IsBlockProb nums (mclennanTourky nums pays eps tolBR (igNextWith lh) maxIter x0).x ∧
    (mclennanTourky nums pays eps tolBR (igNextWith lh) maxIter x0).x.length = n := by
  unfold mclennanTourky
  apply ig_invariant (brSelection nums pays tolBR) (isEpsNash nums pays eps) (igNextWith lh) maxIter
    (fun x => IsBlockProb nums x ∧ x.length = n)
  · intro x _; exact h2 x
  · intro X hX hP
    unfold igNextWith
    have hh : ((X.map (brSelection nums pays tolBR)).headD []).length = n := by
      cases X with
      | nil => exact absurd rfl hX
      | cons a as => simp [(h2 a).2]
    obtain ⟨hp, hl⟩ := h3 X (X.map (brSelection nums pays tolBR)) (by simp) hX
    refine ⟨dotRows_blocks_prob nums _ _ hp hl ?_ ?_, ?_⟩
    · intro y hy
      obtain ⟨a, _, rfl⟩ := List.mem_map.mp hy
      exact (h2 a).1
    · intro i hi; rw [hh]; exact hn i hi
    · unfold dotRows; rw [List.length_map, List.length_range, hh]
  · exact h1

/-- **mclennan_tourky returns a profile of probability vectors** — partial only in (h3): for
    every well-shaped game (every player has `≥ 1` action, payoff arrays of `Π nums` entries),
    `tol ≥ 0` for best responses, every start in the product of simplices, every `ε`, `max_iter`:
    if the `rho` extracted from the Lemke–Howson tableaux is a probability vector with one weight
    per stored point at every pass (examined on the real code on every recorded pass, counters
    `lh:*` of the evidence: it held on every pass of every mclennan_tourky run and every short
    compute_fixed_point run, and is known to FAIL on long runs whose stored points accumulate within
    ~1e-6 of each other — there Lemke–Howson returns weights like (−4.85, 5.85); a theorem about
    Lemke–Howson with the code's tolerances is not attempted), then
    the point returned — converged or not — is a profile of probability vectors. -/
theorem mt_profile_prob_lh_partial (nums : List Nat) (hpos : ∀ k ∈ nums, 0 < k) (pays : List (List K))
    (hpays : ∀ i, i < nums.length → (pays.getD i []).length = (rot nums i).prod)
    (eps tolBR : K) (ht : 0 ≤ tolBR)
    (lh : List (List K) → List (List K) → List K) (maxIter : Nat) (x0 : List K)
    (h1 : IsBlockProb nums x0 ∧ x0.length = nums.sum)
    (h3 : ∀ X Y : List (List K), X.length = Y.length → X ≠ [] →
      IsProbVec (lh X Y) ∧ (lh X Y).length = Y.length) :
    IsBlockProb nums (mclennanTourky nums pays eps tolBR (igNextWith lh) maxIter x0).x ∧
    (mclennanTourky nums pays eps tolBR (igNextWith lh) maxIter x0).x.length = nums.sum :=
  mt_profile_prob_partial nums pays eps tolBR nums.sum lh maxIter x0
    (fun i hi => indptr_block_le nums i hi) h1
    (fun x => brSelection_block_prob nums hpos pays hpays tolBR ht x) h3

omit [LinearOrder K] [IsStrictOrderedRing K] in
/-- `_get_action_profile`: player `i`'s action in the un-flattened profile is his block -/
theorem unflatten_block (nums : List Nat) (x : List K) (hx : x.length = nums.sum) (i : Nat)
    (hi : i < nums.length) :
    (unflatten nums x).getD i [] =
      (List.range' (indptr nums i) (nums.getD i 0)).map fun k => x.getD k 0 := by
  have hle := indptr_block_le nums i hi
  have hgd : nums[i]?.getD 0 = nums.getD i 0 := by rw [List.getD_eq_getElem?_getD]
  unfold unflatten
  rw [List.getD_eq_getElem?_getD, List.getElem?_map, List.getElem?_eq_getElem (by simpa using hi)]
  simp only [List.getElem_range, Option.map_some, Option.getD_some]
  apply List.ext_getElem
  · simp; omega
  · intro t h1 h2
    have ht : t < nums.getD i 0 := by simp at h2; exact h2
    simp only [List.getElem_take, List.getElem_drop, List.getElem_map, List.getElem_range']
    have hlt : indptr nums i + 1 * t < x.length := by omega
    have e : x.getD (indptr nums i + 1 * t) 0 = x[indptr nums i + 1 * t] := by
      rw [List.getD_eq_getElem?_getD, List.getElem?_eq_getElem hlt]; rfl
    rw [e]
    congr 1; omega

omit [IsStrictOrderedRing K] in
/-- **the profile returned consists of probability vectors**: if the flattened point is
    block-wise a probability vector (conclusion of `mt_profile_prob_lh_partial`), every action of
    the tuple `NE = _get_action_profile(x_star, indptr)` has non-negative entries summing to one -/
theorem unflatten_prob (nums : List Nat) (x : List K) (hx : x.length = nums.sum)
    (h : IsBlockProb nums x) (i : Nat) (hi : i < nums.length) :
    IsProbVec ((unflatten nums x).getD i []) ∧ ((unflatten nums x).getD i []).length = nums.getD i 0 := by
  rw [unflatten_block nums x hx i hi]
  refine ⟨⟨?_, h.2 i hi⟩, by simp⟩
  intro r hr
  obtain ⟨k, _, rfl⟩ := List.mem_map.mp hr
  exact h.1 k

/-- non-vacuity of the shape hypotheses of `brSelection_block_prob` / `mt_profile_prob_lh_partial`
    (a 2×3×2 game with arbitrary payoffs): they are decidable facts about `nums` and the lengths -/
example : (∀ k ∈ [2, 3, 2], 0 < k) ∧
    (∀ i, i < [2, 3, 2].length →
      (([List.replicate 12 (1 : Rat), List.replicate 12 2, List.replicate 12 3] : List (List Rat)).getD i []).length
        = (rot [2, 3, 2] i).prod) := by
  refine ⟨by decide, ?_⟩
  intro i hi
  have : i = 0 ∨ i = 1 ∨ i = 2 := by simp at hi; omega
  rcases this with rfl | rfl | rfl <;> decide

/-- non-vacuity of `dotRows_blocks_prob`: 2×2 game, two stored pure profiles, `rho = (1/3, 2/3)` -/
example : IsProbVec ([1/3, 2/3] : List Rat) ∧
    (∀ y ∈ ([[1, 0, 0, 1], [0, 1, 0, 1]] : List (List Rat)), IsBlockProb [2, 2] y) ∧
    dotRows ([1/3, 2/3] : List Rat) [[1, 0, 0, 1], [0, 1, 0, 1]] = [1/3, 2/3, 0, 1] := by
  refine ⟨⟨by decide +kernel, by decide +kernel⟩, ?_, by decide +kernel⟩
  intro y hy
  have hk : ∀ (z : List Rat), (∀ k, k < 4 → 0 ≤ z.getD k 0) → z.length = 4 → ∀ k, 0 ≤ z.getD k 0 := by
    intro z h hl k
    by_cases hk : k < 4
    · exact h k hk
    · rw [List.getD_eq_getElem?_getD, List.getElem?_eq_none (by omega)]; exact le_refl _
  simp only [List.mem_cons, List.not_mem_nil, or_false] at hy
  rcases hy with rfl | rfl
  · refine ⟨hk _ (by decide +kernel) rfl, ?_⟩
    intro i hi
    have : i = 0 ∨ i = 1 := by simp at hi; omega
    rcases this with rfl | rfl <;> decide +kernel
  · refine ⟨hk _ (by decide +kernel) rfl, ?_⟩
    intro i hi
    have : i = 0 ∨ i = 1 := by simp at hi; omega
    rcases this with rfl | rfl <;> decide +kernel

end convex

/-! ## polym_lcp_solver (Howson's LCP)

`n = Σ nums + N`; columns `k < n` are the slacks `w_k`, columns `n + k` the variables `z_k`
(`z = (x, v)`), column `2n` the right-hand side; the *label* of a variable column `k` is `k % n`.
`allFound`, `negP` are ghost flags of the model (the code computes neither): every ratio test found
a unique row with a positive pivot; a back-tracking step was taken at level 0. -/

section howson
open QE.Pivot
variable {K : Type} [Field K] [LinearOrder K] [IsStrictOrderedRing K]

/-- **State after the `N` initial pivots** (lines 137-143), for every well-formed start: the tableau
    is row-equivalent to `[I | -M | q]`, the basic columns are unit vectors, and the labels of the
    basis are those of level 0 (every label once, except that for each player the label of
    `x_{q,start_q}` occurs twice and that of `v_q` not at all). -/
theorem howson_init_state (nums start : List Nat) (A : Nat → Nat → Nat → Nat → K) (pcm : K)
    (hstart : ∀ q, q < nums.length → start.getD q 0 < nums.getD q 0) :
    HInv (nums.foldl (· + ·) 0 + nums.length) (hTableau nums A pcm)
      (hInit nums start (hTableau nums A pcm)).1 (hInit nums start (hTableau nums A pcm)).2 ∧
    ∀ L, L < nums.foldl (· + ·) 0 + nums.length →
      cnt (nums.foldl (· + ·) 0 + nums.length) (hInit nums start (hTableau nums A pcm)).2 L
        + Dn (nums.foldl (· + ·) 0) nums.length 0 L = 1 + Un nums start 0 L := by
  obtain ⟨h1, _, h3⟩ := hInitK_inv nums start A pcm hstart nums.length (le_refl _)
  rw [hInit_eq]
  refine ⟨h1, ?_⟩
  intro L hL
  have := h3 L hL
  unfold Dn Un
  rw [Nat.sub_zero, ← List.range_eq_range']
  unfold ind at this
  simpa using this

/-- **Every tableau of the run is row-equivalent to the initial system** `[I | -M | q]` — and in
    canonical form with respect to the basis kept by the code — for every game, start, `max_iter`,
    tolerance `tol_piv ≥ 0`, through all levels and back-tracking steps, as long as every ratio
    test has found a row (ghost flag `allFound`; when it fails the code divides by a non-positive
    pivot). `HInv` spells out: shape `n × (2n+1)`, same solution set of the `n` equations as the
    initial tableau, `T[i, basis[j]] = δ_ij`, all basic variables are variable columns. -/
theorem howson_rows_equiv (nums start : List Nat) (A : Nat → Nat → Nat → Nat → K) (pcm : K)
    (maxIter : Int) (tp td : K) (htp : 0 ≤ tp) (fuel : Nat)
    (hstart : ∀ q, q < nums.length → start.getD q 0 < nums.getD q 0)
    (haf : (polymLcp nums start A pcm maxIter tp td fuel).allFound = true) :
    HInv (nums.foldl (· + ·) 0 + nums.length) (hTableau nums A pcm)
      (polymLcp nums start A pcm maxIter tp td fuel).T
      (polymLcp nums start A pcm maxIter tp td fuel).basis := by
  unfold polymLcp at haf ⊢
  exact hRun_hinv nums start maxIter tp td htp (hTableau nums A pcm) fuel _ none
    (fun _ => (howson_init_state nums start A pcm hstart).1) haf

/-- **The basis stays complementary up to the duplicated labels of the unfinished players**, and a
    converged run ends with a complementary basis: if the run converged (and the ghost flags are
    clean, the fuel of the model sufficed), the level is `N` and every label `L < n` occurs exactly
    once among the basic variables. (`hRun_linv` is the invariant at every point of the run: at
    level `p` the label of `x_{q,start_q}` occurs twice and that of `v_q` not at all for the players
    `q ≥ p`, the entering column standing for the missing occurrence inside a level; the proof never
    looks at the numbers in the tableau.) -/
theorem howson_converged_complementary (nums start : List Nat) (A : Nat → Nat → Nat → Nat → K) (pcm : K)
    (maxIter : Int) (tp td : K) (fuel : Nat)
    (hstart : ∀ q, q < nums.length → start.getD q 0 < nums.getD q 0)
    (hconv : (polymLcp nums start A pcm maxIter tp td fuel).converging = true)
    (haf : (polymLcp nums start A pcm maxIter tp td fuel).allFound = true)
    (hneg : (polymLcp nums start A pcm maxIter tp td fuel).negP = false)
    (herr : (polymLcp nums start A pcm maxIter tp td fuel).err = false)
    (hfuel : (polymLcp nums start A pcm maxIter tp td fuel).outOfFuel = false) :
    (polymLcp nums start A pcm maxIter tp td fuel).p = nums.length ∧
    (polymLcp nums start A pcm maxIter tp td fuel).basis.length = nums.foldl (· + ·) 0 + nums.length ∧
    ∀ L, L < nums.foldl (· + ·) 0 + nums.length →
      cnt (nums.foldl (· + ·) 0 + nums.length) (polymLcp nums start A pcm maxIter tp td fuel).basis L = 1 := by
  have hlx : ∀ q, q < nums.length → labX nums start q < nums.foldl (· + ·) 0 := by
    intro q hq
    have := indptr_block_le nums q hq
    have := hstart q hq
    rw [foldl_add_eq_sum]; unfold labX; omega
  obtain ⟨hi1, hi2⟩ := howson_init_state nums start A pcm hstart
  obtain ⟨S, hS⟩ : ∃ S : HState K, S = ⟨(hInit nums start (hTableau nums A pcm)).1,
      (hInit nums start (hTableau nums A pcm)).2, 0, 0, false, true, [], true, 0, 0, 0, 0, false, false, false⟩ :=
    ⟨_, rfl⟩
  have h0 : LInv nums start S none := by
    rw [hS]
    unfold LInv
    right; right
    refine ⟨hi1.nr, le_refl _, by simp, hi1.blen, ?_⟩
    intro _
    exact ⟨fun _ => hi2, fun hc => absurd hc (by simp)⟩
  have hpl : polymLcp nums start A pcm maxIter tp td fuel = hRun nums start maxIter tp td fuel S none := by
    rw [hS]; rfl
  rw [hpl] at hconv haf hneg herr hfuel ⊢
  have hr := hRun_linv nums start maxIter tp td hlx fuel S none h0
  generalize hRun nums start maxIter tp td fuel S none = R at hconv haf hneg herr hfuel hr ⊢
  rcases hr with hr | hr | ⟨hL, hexit⟩
  · rw [hr] at hfuel; exact absurd hfuel (by simp)
  · rw [hr] at herr; exact absurd herr (by simp)
  · unfold LInv at hL
    rcases hL with hL | hL | ⟨_, hp0, hpN, hbl, hm⟩
    · rw [hL] at hneg; exact absurd hneg (by simp)
    · rw [hL] at haf; exact absurd haf (by simp)
    · have hpe : R.p = (nums.length : Int) := by
        by_contra hne
        exact hexit ⟨by omega, hconv⟩
      have hm' := hm hconv
      refine ⟨hpe, hbl, ?_⟩
      intro L hL
      by_cases hret : R.retro = true
      · have := (hm'.2 hret).1; omega
      · have hq := hm'.1 (by simpa using hret) L hL
        rw [hpe] at hq
        have e : ((nums.length : Int)).toNat = nums.length := by simp
        rw [e] at hq
        unfold Dn Un at hq
        have hD : ¬ (nums.foldl (· + ·) 0 + nums.length ≤ L ∧ L < nums.foldl (· + ·) 0 + nums.length) := by omega
        rw [if_neg hD, Nat.sub_self] at hq
        simpa using hq

/-- **What "solves all rows of `[I | -M | q]`" says**: with `w_i = u_i`, `z_j = u_{n+j}` it is the
    system `w = M z + q` of the linear complementarity problem, `M` the matrix of lines 87-110
    (`hM`: costs `positive_cost_maker - A[p,p2][a,b]` between different players, `-1` against the
    player's own `v`, the sum constraints in the last `N` rows), `q = (0,…,0,-1,…,-1)`. -/
theorem howson_system_matrix_form (nums : List Nat) (A : Nat → Nat → Nat → Nat → K) (pcm : K) (u : Nat → K) :
    RowsSat (hTableau nums A pcm) u (nums.foldl (· + ·) 0 + nums.length) ↔
    ∀ i, i < nums.foldl (· + ·) 0 + nums.length →
      u i = (∑ j ∈ Finset.range (nums.foldl (· + ·) 0 + nums.length),
              hM nums A pcm (nums.foldl (· + ·) 0) i j * u (nums.foldl (· + ·) 0 + nums.length + j))
            + (if i < nums.foldl (· + ·) 0 then 0 else -(1 : K)) := by
  unfold RowsSat
  constructor
  · intro h i hi
    have := (hTableau_rowSat_iff nums A pcm u i hi).mp (h i hi)
    linarith
  · intro h i hi
    rw [hTableau_rowSat_iff nums A pcm u i hi]
    have := h i hi
    linarith

/-- **Soundness up to feasibility (partial).** If the run reports convergence, the ghost flags are
    clean and the right-hand side of the final tableau is non-negative (checked on the final state;
    that the minimum-ratio rule preserves it from the start is not proved here), then the basic
    solution `(w, z)` read off the final tableau solves the linear complementarity problem the
    code set up (lines 87-118): `w - M z = q` (all rows of `[I | -M | q]`), `w, z ≥ 0` and
    `w_k z_k = 0` for every `k`; and the `x`-part of `z` is exactly the profile the code returns
    (`_get_solution`, `hNE`). Row equivalence and complementarity are the inductive invariants above.
    What is missing for "the returned profile is a Nash equilibrium": feasibility as an invariant,
    and the (purely algebraic) passage from a solution of this LCP to probability vectors and best
    responses of the polymatrix game; both are covered by the exact spec oracle on every run. -/
theorem howson_converged_lcp_solution_partial (nums start : List Nat) (A : Nat → Nat → Nat → Nat → K) (pcm : K)
    (maxIter : Int) (tp td : K) (htp : 0 ≤ tp) (fuel : Nat)
    (hstart : ∀ q, q < nums.length → start.getD q 0 < nums.getD q 0)
    (hconv : (polymLcp nums start A pcm maxIter tp td fuel).converging = true)
    (haf : (polymLcp nums start A pcm maxIter tp td fuel).allFound = true)
    (hneg : (polymLcp nums start A pcm maxIter tp td fuel).negP = false)
    (herr : (polymLcp nums start A pcm maxIter tp td fuel).err = false)
    (hfuel : (polymLcp nums start A pcm maxIter tp td fuel).outOfFuel = false)
    (hfeas : ∀ i, i < nums.foldl (· + ·) 0 + nums.length →
      0 ≤ (polymLcp nums start A pcm maxIter tp td fuel).T.get i
        ((polymLcp nums start A pcm maxIter tp td fuel).T.nc - 1)) :
    let st := polymLcp nums start A pcm maxIter tp td fuel
    let n := nums.foldl (· + ·) 0 + nums.length
    let u := uSol st.T st.basis n
    RowsSat (hTableau nums A pcm) u n ∧ (∀ j, 0 ≤ u j) ∧ (∀ k, k < n → u k * u (k + n) = 0) ∧
    (∀ k, k < nums.foldl (· + ·) 0 → (hNE nums st).getD k 0 = u (k + n)) := by
  intro st n u
  have hinv := howson_rows_equiv nums start A pcm maxIter tp td htp fuel hstart haf
  obtain ⟨_, hbl, hcnt⟩ := howson_converged_complementary nums start A pcm maxIter tp td fuel hstart
    hconv haf hneg herr hfuel
  refine ⟨uSol_rowsSat n _ _ _ hinv, fun j => uSol_nonneg _ _ _ hfeas j,
    fun k hk => uSol_complementary _ _ _ hbl k hk (hcnt k hk), ?_⟩
  intro k hk
  unfold hNE
  rw [List.getD_eq_getElem?_getD, List.getElem?_map, List.getElem?_range hk]
  simp only [Option.map_some, Option.getD_some]
  exact hZ_eq_uSol n _ _ _ hinv k

/-- **Feasibility is an invariant at tolerances 0**: when all costs of the LCP are non-negative
    (`M[i,j] ≥ 0` for `i, j < ta`: what `positive_cost_maker` achieves), the right-hand side is
    non-negative after the initial pivots and stays so through every pivot of the run chosen by the
    minimum-ratio rule with `tol_piv = tol_ratio_diff = 0`. -/
theorem howson_feasible (nums start : List Nat) (A : Nat → Nat → Nat → Nat → K) (pcm : K)
    (maxIter : Int) (fuel : Nat)
    (hstart : ∀ q, q < nums.length → start.getD q 0 < nums.getD q 0)
    (hcost : ∀ i j, i < nums.foldl (· + ·) 0 → j < nums.foldl (· + ·) 0 →
      0 ≤ hM nums A pcm (nums.foldl (· + ·) 0) i j)
    (haf : (polymLcp nums start A pcm maxIter 0 0 fuel).allFound = true) :
    ∀ i, i < nums.foldl (· + ·) 0 + nums.length →
      0 ≤ (polymLcp nums start A pcm maxIter 0 0 fuel).T.get i
        ((polymLcp nums start A pcm maxIter 0 0 fuel).T.nc - 1) := by
  have hi := (howson_init_state nums start A pcm hstart).1
  have hf := hInit_feas nums start A pcm hstart hcost
  unfold polymLcp at haf ⊢
  apply hRun_feas nums start maxIter (nums.foldl (· + ·) 0 + nums.length) fuel _ none _ haf
  intro _
  refine ⟨hi.nr, by rw [hi.nc]; omega, ?_⟩
  intro i hin
  have e : (hInit nums start (hTableau nums A pcm)).1.nc - 1 = 2 * (nums.foldl (· + ·) 0 + nums.length) := by
    rw [hi.nc]; omega
  show 0 ≤ (hInit nums start (hTableau nums A pcm)).1.get i ((hInit nums start (hTableau nums A pcm)).1.nc - 1)
  rw [e]; exact hf i hin

/-- **Soundness at tolerances 0, LCP form** (no certificate on the final state): for every polymatrix
    game with non-negative LCP costs, every well-formed start and `max_iter`, if the run reports
    convergence (ghost flags clean, model fuel sufficient), the basic solution `(w, z)` of the final
    tableau solves the LCP of lines 87-118 — `w - M z = q`, `w, z ≥ 0`, `w_k z_k = 0` — and its
    `x`-part is the returned profile. -/
theorem howson_converged_lcp_solution (nums start : List Nat) (A : Nat → Nat → Nat → Nat → K) (pcm : K)
    (maxIter : Int) (fuel : Nat)
    (hstart : ∀ q, q < nums.length → start.getD q 0 < nums.getD q 0)
    (hcost : ∀ i j, i < nums.foldl (· + ·) 0 → j < nums.foldl (· + ·) 0 →
      0 ≤ hM nums A pcm (nums.foldl (· + ·) 0) i j)
    (hconv : (polymLcp nums start A pcm maxIter 0 0 fuel).converging = true)
    (haf : (polymLcp nums start A pcm maxIter 0 0 fuel).allFound = true)
    (hneg : (polymLcp nums start A pcm maxIter 0 0 fuel).negP = false)
    (herr : (polymLcp nums start A pcm maxIter 0 0 fuel).err = false)
    (hfuel : (polymLcp nums start A pcm maxIter 0 0 fuel).outOfFuel = false) :
    let st := polymLcp nums start A pcm maxIter 0 0 fuel
    let n := nums.foldl (· + ·) 0 + nums.length
    let u := uSol st.T st.basis n
    RowsSat (hTableau nums A pcm) u n ∧ (∀ j, 0 ≤ u j) ∧ (∀ k, k < n → u k * u (k + n) = 0) ∧
    (∀ k, k < nums.foldl (· + ·) 0 → (hNE nums st).getD k 0 = u (k + n)) :=
  howson_converged_lcp_solution_partial nums start A pcm maxIter 0 0 (le_refl _) fuel hstart hconv haf hneg herr
    hfuel (howson_feasible nums start A pcm maxIter fuel hstart hcost haf)

/-- **Howson's step (complete): a solution of the code's LCP is a Nash equilibrium of the polymatrix
    game.** For the model's layout (`hM`, `hTableau`): if `u = (w, z)` satisfies all rows of
    `[I | -M | q]`, is non-negative and complementary (`w_k z_k = 0`), there are at least two players
    and the cost `positive_cost_maker - A[p,p2][a,b]` between different players is positive, then with
    `x_j = z_j` (`j < ta` a flat action index, `plOf j` its player, `acOf j` its action): every player's
    block of `x` sums to one (the `v_i` rows and `v_i > 0` force `Σ_a x_{i,a} = 1`), and no pure action
    `i` of any player earns more against `x` than that player's mixed action does (complementarity
    gives best responses) — a Nash equilibrium of the polymatrix game, in exact arithmetic. -/
theorem howson_lcp_solution_is_nash (nums : List Nat) (A : Nat → Nat → Nat → Nat → K) (pcm : K) (u : Nat → K)
    (hN : 2 ≤ nums.length)
    (hcost : ∀ i j, i < nums.foldl (· + ·) 0 → j < nums.foldl (· + ·) 0 → plOf nums j ≠ plOf nums i →
      0 < pcm - A (plOf nums i) (plOf nums j) (acOf nums i) (acOf nums j))
    (hrows : RowsSat (hTableau nums A pcm) u (nums.foldl (· + ·) 0 + nums.length))
    (hpos : ∀ j, 0 ≤ u j)
    (hcompl : ∀ k, k < nums.foldl (· + ·) 0 + nums.length →
      u k * u (k + (nums.foldl (· + ·) 0 + nums.length)) = 0) :
    (∀ q, q < nums.length →
      ∑ j ∈ Finset.range (nums.foldl (· + ·) 0),
        (if plOf nums j = q then u (nums.foldl (· + ·) 0 + nums.length + j) else 0) = 1) ∧
    (∀ i, i < nums.foldl (· + ·) 0 →
      (∑ j ∈ Finset.range (nums.foldl (· + ·) 0),
        (if plOf nums j = plOf nums i then 0
          else A (plOf nums i) (plOf nums j) (acOf nums i) (acOf nums j))
          * u (nums.foldl (· + ·) 0 + nums.length + j))
      ≤ ∑ i' ∈ Finset.range (nums.foldl (· + ·) 0),
          (if plOf nums i' = plOf nums i then
            u (nums.foldl (· + ·) 0 + nums.length + i') *
              ∑ j ∈ Finset.range (nums.foldl (· + ·) 0),
                (if plOf nums j = plOf nums i' then 0
                  else A (plOf nums i') (plOf nums j) (acOf nums i') (acOf nums j))
                  * u (nums.foldl (· + ·) 0 + nums.length + j)
           else 0)) :=
  lcp_solution_nash nums A pcm u hN hcost ((howson_system_matrix_form nums A pcm u).mp hrows) hpos hcompl

/-- **polym_lcp_solver: converged ⇒ the returned profile consists of probability vectors and is a
    Nash equilibrium of the polymatrix game** (exact arithmetic, tolerances 0; every game with `N ≥ 2`
    players and positive costs, every well-formed start, every `max_iter`). With `x_j` the `j`-th entry
    of the returned flattened profile: `x ≥ 0`, every player's block sums to one, and no pure action
    earns more than the player's mixed action. What remains (why the name says partial): the two ghost
    flags of the model run are hypotheses, not theorems — `allFound` (every ratio test of the run, at
    tolerances 0, singled out one row; the code ignores `found`) and `¬negP` (no back-tracking step at
    level 0, which Howson's argument excludes); they held on every converged exact run of the
    correspondence (counters `howson:tol0-*`). `err`/`outOfFuel` only say that the model run finished. -/
theorem howson_converged_nash_partial (nums start : List Nat) (A : Nat → Nat → Nat → Nat → K) (pcm : K)
    (maxIter : Int) (fuel : Nat) (hN : 2 ≤ nums.length)
    (hstart : ∀ q, q < nums.length → start.getD q 0 < nums.getD q 0)
    (hcost : ∀ i j, i < nums.foldl (· + ·) 0 → j < nums.foldl (· + ·) 0 → plOf nums j ≠ plOf nums i →
      0 < pcm - A (plOf nums i) (plOf nums j) (acOf nums i) (acOf nums j))
    (hconv : (polymLcp nums start A pcm maxIter 0 0 fuel).converging = true)
    (haf : (polymLcp nums start A pcm maxIter 0 0 fuel).allFound = true)
    (hneg : (polymLcp nums start A pcm maxIter 0 0 fuel).negP = false)
    (herr : (polymLcp nums start A pcm maxIter 0 0 fuel).err = false)
    (hfuel : (polymLcp nums start A pcm maxIter 0 0 fuel).outOfFuel = false) :
    let x : Nat → K := fun j => (hNE nums (polymLcp nums start A pcm maxIter 0 0 fuel)).getD j 0
    (∀ j, j < nums.foldl (· + ·) 0 → 0 ≤ x j) ∧
    (∀ q, q < nums.length →
      ∑ j ∈ Finset.range (nums.foldl (· + ·) 0), (if plOf nums j = q then x j else 0) = 1) ∧
    (∀ i, i < nums.foldl (· + ·) 0 →
      (∑ j ∈ Finset.range (nums.foldl (· + ·) 0),
        (if plOf nums j = plOf nums i then 0
          else A (plOf nums i) (plOf nums j) (acOf nums i) (acOf nums j)) * x j)
      ≤ ∑ i' ∈ Finset.range (nums.foldl (· + ·) 0),
          (if plOf nums i' = plOf nums i then
            x i' * ∑ j ∈ Finset.range (nums.foldl (· + ·) 0),
                (if plOf nums j = plOf nums i' then 0
                  else A (plOf nums i') (plOf nums j) (acOf nums i') (acOf nums j)) * x j
           else 0)) := by
  intro x
  have hcost0 : ∀ i j, i < nums.foldl (· + ·) 0 → j < nums.foldl (· + ·) 0 →
      0 ≤ hM nums A pcm (nums.foldl (· + ·) 0) i j := by
    intro i j hi hj
    rw [hM_aa nums A pcm i j hi hj]
    split_ifs with h
    · exact le_refl _
    · exact le_of_lt (hcost i j hi hj h)
  obtain ⟨hrows, hpos, hcompl, hne⟩ := howson_converged_lcp_solution nums start A pcm maxIter fuel hstart hcost0
    hconv haf hneg herr hfuel
  obtain ⟨h1, h2⟩ := howson_lcp_solution_is_nash nums A pcm _ hN hcost hrows hpos hcompl
  have hx : ∀ j, j < nums.foldl (· + ·) 0 →
      x j = uSol (polymLcp nums start A pcm maxIter 0 0 fuel).T (polymLcp nums start A pcm maxIter 0 0 fuel).basis
        (nums.foldl (· + ·) 0 + nums.length) (nums.foldl (· + ·) 0 + nums.length + j) := by
    intro j hj
    show (hNE nums _).getD j 0 = _
    rw [hne j hj, Nat.add_comm j]
  refine ⟨fun j hj => by rw [hx j hj]; exact hpos _, ?_, ?_⟩
  · intro q hq
    rw [← h1 q hq]
    apply Finset.sum_congr rfl
    intro j hj
    rw [hx j (Finset.mem_range.mp hj)]
  · intro i hi
    have key : ∀ i', i' < nums.foldl (· + ·) 0 →
        (∑ j ∈ Finset.range (nums.foldl (· + ·) 0),
          (if plOf nums j = plOf nums i' then 0
            else A (plOf nums i') (plOf nums j) (acOf nums i') (acOf nums j)) * x j)
        = ∑ j ∈ Finset.range (nums.foldl (· + ·) 0),
          (if plOf nums j = plOf nums i' then 0
            else A (plOf nums i') (plOf nums j) (acOf nums i') (acOf nums j))
            * uSol (polymLcp nums start A pcm maxIter 0 0 fuel).T (polymLcp nums start A pcm maxIter 0 0 fuel).basis
              (nums.foldl (· + ·) 0 + nums.length) (nums.foldl (· + ·) 0 + nums.length + j) := by
      intro i' _
      apply Finset.sum_congr rfl
      intro j hj
      rw [hx j (Finset.mem_range.mp hj)]
    rw [key i hi]
    refine le_trans (h2 i hi) (le_of_eq ?_)
    apply Finset.sum_congr rfl
    intro i' hi'
    have hi'' := Finset.mem_range.mp hi'
    rw [key i' hi'', hx i' hi'']

/-- non-vacuity: matching pennies from the start `(0, 0)` at exact rationals with tolerances 0 —
    the run converges in 4 pivots, the ghost flags are clean, the final right-hand side is
    non-negative, and the profile is `((1/2, 1/2), (1/2, 1/2))` -/
def mpState : HState Rat :=
  polymLcp [2, 2] [0, 0] (polyA [2, 2] [[1, -1, -1, 1], [-1, 1, 1, -1]]) (hPcm [1, -1, -1, 1, -1, 1, 1, -1]) (-1) 0 0 100

example : mpState.converging = true ∧ mpState.allFound = true ∧ mpState.negP = false ∧ mpState.err = false ∧
    mpState.outOfFuel = false ∧ mpState.numIter = 4 ∧ hCert [2, 2] mpState = true ∧
    hNE [2, 2] mpState = [1/2, 1/2, 1/2, 1/2] := by decide +kernel

/-- non-vacuity of the cost hypothesis (`positive_cost_maker = max + 2 = 3` here) and of the start
    hypothesis for the same game -/
example : (∀ i, i < 4 → ∀ j, j < 4 →
      0 ≤ hM [2, 2] (polyA [2, 2] ([[1, -1, -1, 1], [-1, 1, 1, -1]] : List (List Rat)))
        (hPcm [1, -1, -1, 1, -1, 1, 1, -1]) 4 i j) ∧
    (∀ q, q < [2, 2].length → ([0, 0] : List Nat).getD q 0 < [2, 2].getD q 0) := by
  constructor
  · decide +kernel
  · decide

end howson

/-! ## the inner Lemke–Howson run in exact arithmetic

The pivoting loop and the read-out of the imitation game are QEModel.C05's `lhLoop` / `mixedOf`,
but C05's theorems (`lh_tbl_invariant`, `lh_never_artificial`, `lh_sound`) are stated for tableaux
built by `_initialize_tableaux` from a game, whose payoff blocks are strictly positive after the
shift; `_initialize_tableaux_ig` leaves the mover's block as the identity, so `[I | I | 1]` is not
`initT0 m m B` for any `B` and those theorems do not apply literally. What transfers unchanged is
C05's single-tableau layer (stated for any reference tableau satisfying `TInit`); the two-tableau
layer is re-proved for a pair of such tableaux (Lemmas/C15IgPath.lean, C15IgArt.lean). -/

section iglh
open QE.C05
variable {K : Type} [Field K] [LinearOrder K] [IsStrictOrderedRing K]

/-- **`rho` is a probability vector or the zero vector** — exact arithmetic (`tol_piv =
    tol_ratio_diff = 0`), every non-empty history, every `max_piv`, and *whether or not the inner
    run converged*: the code ignores `_lemke_howson_tbl`'s flag (it is overwritten at the next
    pass) and reads `rho` off whatever tableau the run stopped at; that tableau is feasible and
    canonical (`igLH_base`), so the weights are non-negative, one per stored point, and sum to one
    unless the basic values of the `y` variables sum to 0, in which case the code skips the
    normalisation and `rho = 0`. (The real code's doubles violate this on long, nearly converged
    runs — weights like −4.85 / 5.85 — which stays recorded in the evidence, counters `lh:*`.) -/
theorem ig_rho_prob_or_zero (X Y : List (List K)) (hX : X ≠ []) (maxPiv : Nat) :
    (igRho X Y maxPiv 0 0).length = X.length ∧
    (IsProbVec (igRho X Y maxPiv 0 0) ∨ ∀ r ∈ igRho X Y maxPiv 0 0, r = 0) ∧
    (basicSum (igLH X Y maxPiv 0 0).2.T1 (igLH X Y maxPiv 0 0).2.b1 X.length (2 * X.length) ≠ 0 →
      IsProbVec (igRho X Y maxPiv 0 0)) := by
  obtain ⟨h1, h2, h3, h4⟩ := igRho_spec X Y hX maxPiv
  refine ⟨h1, ?_, fun hne => ⟨h2, h3 hne⟩⟩
  by_cases h0 : basicSum (igLH X Y maxPiv 0 0).2.T1 (igLH X Y maxPiv 0 0).2.b1 X.length (2 * X.length) = 0
  · exact Or.inr (h4 h0)
  · exact Or.inl ⟨h2, h3 h0⟩

theorem dotRows_zero (rho : List K) (Y : List (List K)) (h0 : ∀ r ∈ rho, r = 0) (k : Nat) :
    (dotRows rho Y).getD k 0 = 0 := by
  rw [dotRows_getD]
  split_ifs
  · have hz : ∀ (rho : List K) (Y : List (List K)), (∀ r ∈ rho, r = 0) →
        fsum (List.zipWith (fun r y => r * y.getD k 0) rho Y) = 0 := by
      intro rho
      induction rho with
      | nil => intro Y _; simp [fsum_nil]
      | cons r rs ih =>
        intro Y h
        cases Y with
        | nil => simp [fsum_nil]
        | cons y ys =>
          simp only [List.zipWith_cons_cons, fsum_cons]
          rw [h r (by simp), ih ys (fun z hz => h z (List.mem_cons_of_mem _ hz))]; ring
    exact hz rho Y h0
  · rfl

/-- **mclennan_tourky in exact arithmetic: the point returned is a profile of probability vectors
    or the zero vector** — no hypothesis on Lemke–Howson left: every well-shaped game, `tol ≥ 0` for
    best responses, every start in the product of simplices, every `ε`, `max_iter`, `max_piv`, with
    the real rule for the next point (imitation-game tableaux, C05's pivoting loop at tolerances 0,
    `rho.dot(Y)`). The zero vector can only arise from an inner run that stopped with the `y`
    variables summing to 0 (`ig_rho_prob_or_zero`). -/
theorem mt_profile_prob_or_zero (nums : List Nat) (hpos : ∀ k ∈ nums, 0 < k) (pays : List (List K))
    (hpays : ∀ i, i < nums.length → (pays.getD i []).length = (rot nums i).prod)
    (eps tolBR : K) (ht : 0 ≤ tolBR) (maxPiv maxIter : Nat) (x0 : List K)
    (h1 : IsBlockProb nums x0 ∧ x0.length = nums.sum) :
    (mclennanTourky nums pays eps tolBR (igNext maxPiv 0 0) maxIter x0).x.length = nums.sum ∧
    (IsBlockProb nums (mclennanTourky nums pays eps tolBR (igNext maxPiv 0 0) maxIter x0).x ∨
     ∀ k, (mclennanTourky nums pays eps tolBR (igNext maxPiv 0 0) maxIter x0).x.getD k 0 = 0) := by
  unfold mclennanTourky
  apply ig_invariant (brSelection nums pays tolBR) (isEpsNash nums pays eps) (igNext maxPiv 0 0) maxIter
    (fun x => x.length = nums.sum ∧ (IsBlockProb nums x ∨ ∀ k, x.getD k 0 = 0))
  · intro x _
    have := brSelection_block_prob nums hpos pays hpays tolBR ht x
    exact ⟨this.2, Or.inl this.1⟩
  · intro X hX _
    have hh : ((X.map (brSelection nums pays tolBR)).headD []).length = nums.sum := by
      cases X with
      | nil => exact absurd rfl hX
      | cons a as => simp [(brSelection_block_prob nums hpos pays hpays tolBR ht a).2]
    obtain ⟨hl, hor, _⟩ := ig_rho_prob_or_zero X (X.map (brSelection nums pays tolBR)) hX maxPiv
    show (dotRows (igRho X (X.map (brSelection nums pays tolBR)) maxPiv 0 0)
        (X.map (brSelection nums pays tolBR))).length = nums.sum ∧ _
    refine ⟨by unfold dotRows; rw [List.length_map, List.length_range, hh], ?_⟩
    rcases hor with hp | hz
    · left
      apply dotRows_blocks_prob nums _ _ hp (by rw [hl]; simp)
      · intro y hy
        obtain ⟨a, _, rfl⟩ := List.mem_map.mp hy
        exact (brSelection_block_prob nums hpos pays hpays tolBR ht a).1
      · intro i hi; rw [hh]; exact indptr_block_le nums i hi
    · right
      exact fun k => dotRows_zero _ _ hz k
  · exact ⟨h1.2, Or.inl h1.1⟩

/-- **… and a profile of probability vectors when no inner run ends at the artificial equilibrium**
    (general form, kept for inner runs that do not converge): if no inner Lemke–Howson run on a
    history the routine can build stops with the `y` variables summing to 0, the point returned is a
    profile of probability vectors. For converged inner runs the hypothesis is the theorem
    `ig_lh_never_artificial` below; see `mt_profile_prob_of_inner_convergence`. -/
theorem mt_profile_prob_exact_partial (nums : List Nat) (hpos : ∀ k ∈ nums, 0 < k) (pays : List (List K))
    (hpays : ∀ i, i < nums.length → (pays.getD i []).length = (rot nums i).prod)
    (eps tolBR : K) (ht : 0 ≤ tolBR) (maxPiv maxIter : Nat) (x0 : List K)
    (h1 : IsBlockProb nums x0 ∧ x0.length = nums.sum)
    (hna : ∀ X Y : List (List K), X.length = Y.length → X ≠ [] →
      basicSum (igLH X Y maxPiv 0 0).2.T1 (igLH X Y maxPiv 0 0).2.b1 X.length (2 * X.length) ≠ 0) :
    IsBlockProb nums (mclennanTourky nums pays eps tolBR (igNext maxPiv 0 0) maxIter x0).x ∧
    (mclennanTourky nums pays eps tolBR (igNext maxPiv 0 0) maxIter x0).x.length = nums.sum :=
  mt_profile_prob_lh_partial nums hpos pays hpays eps tolBR ht (fun X Y => igRho X Y maxPiv 0 0) maxIter x0 h1
    (fun X Y hl hX => by
      obtain ⟨h1, _, h3⟩ := ig_rho_prob_or_zero X Y hX maxPiv
      exact ⟨h3 (hna X Y hl hX), by rw [h1, hl]⟩)

/-- **compute_fixed_point (imitation game) keeps its iterates in a box containing 0** — exact
    arithmetic, no hypothesis on Lemke–Howson: for `lo ≤ 0 ≤ hi`, a map `T` sending `[lo,hi]^n`
    into itself and a start in the box, the point returned lies in the box (a convex combination of
    stored images, or the zero vector when an inner run ends with `rho = 0`). -/
theorem ig_box_invariant (lo hi : K) (hlo : lo ≤ 0) (hhi : 0 ≤ hi) (n : Nat) (T : List K → List K)
    (isFp : List K → Bool)
    (hT : ∀ x : List K, (x.length = n ∧ ∀ k, k < n → lo ≤ x.getD k 0 ∧ x.getD k 0 ≤ hi) →
      ((T x).length = n ∧ ∀ k, k < n → lo ≤ (T x).getD k 0 ∧ (T x).getD k 0 ≤ hi))
    (maxPiv maxIter : Nat) (v : List K)
    (hv : v.length = n ∧ ∀ k, k < n → lo ≤ v.getD k 0 ∧ v.getD k 0 ≤ hi) :
    (fixedPointIG T isFp (igNext maxPiv 0 0) maxIter v).x.length = n ∧
    ∀ k, k < n → lo ≤ (fixedPointIG T isFp (igNext maxPiv 0 0) maxIter v).x.getD k 0 ∧
      (fixedPointIG T isFp (igNext maxPiv 0 0) maxIter v).x.getD k 0 ≤ hi := by
  apply ig_invariant T isFp (igNext maxPiv 0 0) maxIter
    (fun x => x.length = n ∧ ∀ k, k < n → lo ≤ x.getD k 0 ∧ x.getD k 0 ≤ hi) hT
  · intro X hX hP
    have hh : ((X.map T).headD []).length = n := by
      cases X with
      | nil => exact absurd rfl hX
      | cons a as => simp [(hT a (hP a (by simp))).1]
    obtain ⟨hl, hor, _⟩ := ig_rho_prob_or_zero X (X.map T) hX maxPiv
    show (dotRows (igRho X (X.map T) maxPiv 0 0) (X.map T)).length = n ∧ _
    refine ⟨by unfold dotRows; rw [List.length_map, List.length_range, hh], ?_⟩
    rcases hor with hp | hz
    · apply dotRows_box lo hi n _ _ hp (by rw [hl]; simp) hh
      intro y hy
      obtain ⟨a, ha, rfl⟩ := List.mem_map.mp hy
      exact (hT a (hP a ha)).2
    · intro k _
      have e : (igNext maxPiv 0 0 X (X.map T)).getD k 0 = 0 := dotRows_zero _ _ hz k
      rw [e]; exact ⟨hlo, hhi⟩
  · exact hv

/-- **A converged inner Lemke–Howson run never stops at the artificial equilibrium** (imitation
    game of any non-empty history, any `max_piv`; exact arithmetic, tolerances 0): if
    `_lemke_howson_tbl` reports convergence, the basic values of the `y` variables do not sum to 0.
    This is QE.C05's `lh_never_artificial` for the tableaux `[I | I | 1]`, `[I | P | 1]` of
    `_initialize_tableaux_ig`: C05's single-tableau layer (lexicographic positivity, reversibility
    and row-order independence of the exact step, `tsim_init`) is stated for any reference tableau
    with an identity slack block, non-negative entries and a positive entry in every column
    (`TInit`: `ig0_tinit`, `ig1_tinit`); the two-tableau layer (mirror path, no return) is re-proved
    for a pair of such tableaux in Lemmas/C15IgPath.lean, the artificial-equilibrium step for the
    `y` side in Lemmas/C15IgArt.lean. -/
theorem ig_lh_never_artificial (X Y : List (List K)) (hX : X ≠ []) (maxPiv : Nat)
    (hconv : (igLH X Y maxPiv 0 0).1 = true) :
    basicSum (igLH X Y maxPiv 0 0).2.T1 (igLH X Y maxPiv 0 0).2.b1 X.length (2 * X.length) ≠ 0 :=
  igLH_nonzero X Y hX maxPiv hconv

/-- **`rho` of a converged inner run is a probability vector** — no hypothesis left for converged
    inner runs. (For a run that used up `max_piv` without converging the code does exactly the same
    thing — it never looks at the flag — and `ig_rho_prob_or_zero` applies: `rho` is then a
    probability vector or 0, the next point `rho.dot(Y)` a convex combination of the stored images or
    the zero vector, and the outer loop goes on with its own test `is_approx_fp`.) -/
theorem ig_rho_prob_of_converged (X Y : List (List K)) (hX : X ≠ []) (maxPiv : Nat)
    (hconv : (igLH X Y maxPiv 0 0).1 = true) :
    IsProbVec (igRho X Y maxPiv 0 0) ∧ (igRho X Y maxPiv 0 0).length = X.length := by
  obtain ⟨h1, _, h3⟩ := ig_rho_prob_or_zero X Y hX maxPiv
  exact ⟨h3 (ig_lh_never_artificial X Y hX maxPiv hconv), h1⟩

/-- **mclennan_tourky returns a profile of probability vectors** (exact arithmetic; converged or not)
    whenever the inner Lemke–Howson runs converge within `max_piv` — the only thing assumed; that a
    converged inner run yields a probability vector `rho` is now a theorem. (Termination of
    Lemke–Howson within the code's `max_piv = 10**6` is not proved; without it
    `mt_profile_prob_or_zero` still holds.) -/
theorem mt_profile_prob_of_inner_convergence (nums : List Nat) (hpos : ∀ k ∈ nums, 0 < k)
    (pays : List (List K)) (hpays : ∀ i, i < nums.length → (pays.getD i []).length = (rot nums i).prod)
    (eps tolBR : K) (ht : 0 ≤ tolBR) (maxPiv maxIter : Nat) (x0 : List K)
    (h1 : IsBlockProb nums x0 ∧ x0.length = nums.sum)
    (hinner : ∀ X Y : List (List K), X.length = Y.length → X ≠ [] → (igLH X Y maxPiv 0 0).1 = true) :
    IsBlockProb nums (mclennanTourky nums pays eps tolBR (igNext maxPiv 0 0) maxIter x0).x ∧
    (mclennanTourky nums pays eps tolBR (igNext maxPiv 0 0) maxIter x0).x.length = nums.sum :=
  mt_profile_prob_exact_partial nums hpos pays hpays eps tolBR ht maxPiv maxIter x0 h1
    (fun X Y hl hX => ig_lh_never_artificial X Y hX maxPiv (hinner X Y hl hX))

/-- **compute_fixed_point (imitation game) keeps its iterates in any box** that `T` maps into itself,
    whenever the inner Lemke–Howson runs converge within `max_piv` (exact arithmetic). -/
theorem ig_box_of_inner_convergence (lo hi : K) (n : Nat) (T : List K → List K) (isFp : List K → Bool)
    (hT : ∀ x : List K, (x.length = n ∧ ∀ k, k < n → lo ≤ x.getD k 0 ∧ x.getD k 0 ≤ hi) →
      ((T x).length = n ∧ ∀ k, k < n → lo ≤ (T x).getD k 0 ∧ (T x).getD k 0 ≤ hi))
    (maxPiv maxIter : Nat) (v : List K)
    (hv : v.length = n ∧ ∀ k, k < n → lo ≤ v.getD k 0 ∧ v.getD k 0 ≤ hi)
    (hinner : ∀ X Y : List (List K), X.length = Y.length → X ≠ [] → (igLH X Y maxPiv 0 0).1 = true) :
    (fixedPointIG T isFp (igNext maxPiv 0 0) maxIter v).x.length = n ∧
    ∀ k, k < n → lo ≤ (fixedPointIG T isFp (igNext maxPiv 0 0) maxIter v).x.getD k 0 ∧
      (fixedPointIG T isFp (igNext maxPiv 0 0) maxIter v).x.getD k 0 ≤ hi :=
  ig_box_invariant_partial lo hi n T isFp hT (fun X Y => igRho X Y maxPiv 0 0) maxIter v hv
    (fun X Y hl hX => by
      obtain ⟨hp, hlen⟩ := ig_rho_prob_of_converged X Y hX maxPiv (hinner X Y hl hX)
      exact ⟨hp, by rw [hlen, hl]⟩)

/-- non-vacuity: on a concrete history the inner run converges, the `y` values do not sum to 0 and
    `rho` is the probability vector `(1/3, 2/3)`… here for two stored points of the plane -/
example : (igLH ([[0, 0], [1, 1]] : List (List Rat)) [[1, 1], [0, 3]] 1000000 0 0).1 = true ∧
    basicSum (igLH ([[0, 0], [1, 1]] : List (List Rat)) [[1, 1], [0, 3]] 1000000 0 0).2.T1
      (igLH ([[0, 0], [1, 1]] : List (List Rat)) [[1, 1], [0, 3]] 1000000 0 0).2.b1 2 4 ≠ 0 ∧
    fsum (igRho ([[0, 0], [1, 1]] : List (List Rat)) [[1, 1], [0, 3]] 1000000 0 0) = 1 := by
  decide +kernel

end iglh

/-! ## PolymatrixGame.range_of_payoffs -/

section range
variable {K : Type} [Field K] [LinearOrder K] [IsStrictOrderedRing K]

theorem foldl_min_ge_iff (l : List K) (a t : K) :
    t ≤ l.foldl (fun acc x => if x < acc then x else acc) a ↔ t ≤ a ∧ ∀ v ∈ l, t ≤ v := by
  induction l generalizing a with
  | nil => simp
  | cons v l ih =>
    rw [List.foldl_cons, ih]
    have h : t ≤ (if v < a then v else a) ↔ t ≤ a ∧ t ≤ v := by
      split_ifs with hc
      · exact ⟨fun h => ⟨le_trans h (le_of_lt hc), h⟩, fun h => h.2⟩
      · exact ⟨fun h => ⟨h, le_trans h (not_lt.mp hc)⟩, fun h => h.1⟩
    rw [h]
    simp only [List.mem_cons, forall_eq_or_imp]
    tauto

theorem foldl_min_mem (l : List K) (a : K) :
    l.foldl (fun acc x => if x < acc then x else acc) a = a ∨
    l.foldl (fun acc x => if x < acc then x else acc) a ∈ l := by
  induction l generalizing a with
  | nil => simp
  | cons v l ih =>
    rw [List.foldl_cons]
    rcases ih (if v < a then v else a) with h | h
    · rw [h]
      split_ifs
      · right; simp
      · left; rfl
    · right; exact List.mem_cons_of_mem _ h

/-- **`range_of_payoffs()` is the exact range**: for a non-empty list of entries, the first
    component is a lower bound of all entries and is one of them, the second an upper bound and one of
    them — the global minimum and the global maximum, whichever matrices they sit in. -/
theorem hRange_spec (e : List K) (hne : e ≠ []) :
    (∀ x ∈ e, (hRange e).1 ≤ x) ∧ (hRange e).1 ∈ e ∧ (∀ x ∈ e, x ≤ (hRange e).2) ∧ (hRange e).2 ∈ e := by
  cases e with
  | nil => exact absurd rfl hne
  | cons a as =>
    have hmax : (hRange (a :: as)).2 = vecMax (a :: as) := rfl
    refine ⟨?_, ?_, ?_, ?_⟩
    · have := (foldl_min_ge_iff as a (hRange (a :: as)).1).mp (le_refl _)
      intro x hx
      rcases List.mem_cons.mp hx with rfl | h
      · exact this.1
      · exact this.2 x h
    · show as.foldl (fun acc x => if x < acc then x else acc) a ∈ a :: as
      rcases foldl_min_mem as a with h | h
      · rw [h]; simp
      · exact List.mem_cons_of_mem _ h
    · rw [hmax]; exact (vecMax_le_iff _ (by simp) _).mp (le_refl _)
    · rw [hmax]; exact vecMax_mem _ (by simp)

omit [IsStrictOrderedRing K] in
/-- `positive_cost_maker = range_of_payoffs()[1] + LOW_AVOIDER` -/
theorem hPcm_eq_range_max (e : List K) : hPcm e = (hRange e).2 + (1 + 1) := rfl

example : hRange ([3, 1, 5, 0, 99, 7] : List Rat) = (0, 99) := by decide +kernel

end range

/-! ## polym_lcp_solver: starting_player_actions -/

/-- **The start is accepted iff it is well formed** (iff-characterisation of the `assert`): an
    explicit list is accepted exactly when it has one entry per player and every entry is a valid
    action index — which is precisely the hypothesis `hstart` of the Howson theorems above, plus
    the length; and then it is used unchanged. -/
theorem polymStart_some_iff (nums st : List Nat) :
    polymStart nums (some st) = some st ↔
      (st.length = nums.length ∧ ∀ q, q < nums.length → st.getD q 0 < nums.getD q 0) := by
  unfold polymStart
  constructor
  · intro h
    by_cases hc : st.length = nums.length ∧
        (List.range nums.length).all (fun q => decide (st.getD q 0 < nums.getD q 0)) = true
    · refine ⟨hc.1, fun q hq => ?_⟩
      have := List.all_eq_true.mp hc.2 q (List.mem_range.mpr hq)
      exact of_decide_eq_true this
    · simp only [hc, if_false] at h
      exact absurd h (by simp)
  · intro h
    have : (List.range nums.length).all (fun q => decide (st.getD q 0 < nums.getD q 0)) = true := by
      rw [List.all_eq_true]
      intro q hq
      exact decide_eq_true (h.2 q (List.mem_range.mp hq))
    simp only [h.1, this, and_self, if_true]

/-- a rejected start raises, it is never silently replaced: the result is `none` or the list given -/
theorem polymStart_none_or_same (nums st : List Nat) :
    polymStart nums (some st) = none ∨ polymStart nums (some st) = some st := by
  unfold polymStart
  simp only
  split_ifs
  · right; rfl
  · left; rfl

/-- the default (`None`) start is every player's first action, and it is well formed whenever every
    player has at least one action -/
theorem polymStart_default (nums : List Nat) (hpos : ∀ k ∈ nums, 0 < k) :
    polymStart nums none = some (List.replicate nums.length 0) ∧
    polymStart nums (some (List.replicate nums.length 0)) = some (List.replicate nums.length 0) := by
  refine ⟨rfl, (polymStart_some_iff nums _).mpr ⟨by simp, ?_⟩⟩
  intro q hq
  have h0 : (List.replicate nums.length 0).getD q 0 = 0 := by
    simp [List.getD_eq_getElem?_getD]
  rw [h0, List.getD_eq_getElem?_getD, List.getElem?_eq_getElem hq, Option.getD_some]
  exact hpos _ (List.getElem_mem hq)

example : polymStart [2, 3, 2] (some [1, 2, 0]) = some [1, 2, 0] ∧ polymStart [2, 3, 2] (some [1, 3, 0]) = none ∧
    polymStart [2, 3, 2] (some [1, 2]) = none ∧ polymStart [2, 3, 2] none = some [0, 0, 0] := by decide

end QE.C15
