/-
  Property C15 — theorems about QEModel.C15 (stub; to be filled in).
-/
import QEModel.C15
namespace QE.C15

end QE.C15
