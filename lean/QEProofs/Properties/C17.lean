/-
  Property C17 — root finders and maximisers honour their tolerance and status contracts:
  theorems about the definitions of QEModel.C17 (the ones the driver executes), over an
  arbitrary linearly ordered field `K` and an ARBITRARY function `f : K → K` (no continuity is
  needed: "a sign change" is a pair of points with `f y · f x < 0`).
-/
import QEModel.C17
import QEProofs.Lemmas.C17Basic
import QEProofs.Lemmas.C17Open
import QEProofs.Lemmas.C17Bracket
import QEProofs.Lemmas.C17BrentMax
import QEProofs.Lemmas.C17NM
namespace QE.C17
set_option linter.unusedSectionVars false

section
variable {K : Type} [Field K] [LinearOrder K] [IsStrictOrderedRing K]

/-! ## `disp` : raising instead of reporting -/

/-- `finish` never produces a `ValueError`; with `disp = true` it raises exactly when the run with
    `disp = false` reports `converged = False`, and otherwise returns the same result. -/
theorem finish_contract (R : Res K) :
    (finish false R = .ok R) ∧
    (R.conv = false → finish true R = .runtimeError) ∧
    (R.conv = true → finish true R = .ok R) := by
  unfold finish
  refine ⟨by simp, fun h => by simp [h], fun h => by simp [h]⟩

/-! ## newton / newton_halley / newton_secant : status contracts -/

/-- `newton` raises `ValueError` exactly for `tol ≤ 0` or `maxiter < 1`. -/
theorem newton_valueError_iff (f fp : K → K) (x0 tol : K) (maxiter : Int) (disp : Bool) :
    newton f fp x0 tol maxiter disp = .valueError ↔ (tol ≤ 0 ∨ maxiter < 1) := by
  unfold newton finish
  by_cases h1 : tol ≤ 0
  · simp [h1]
  · by_cases h2 : maxiter < 1
    · simp [h2]
    · simp only [h1, h2, if_false, false_or, iff_false]
      split <;> simp

/-- **newton, status contract.** For valid parameters the result with `disp = false` is `ok r` where
    * `converged = True` only through one of the two stopping criteria: `f root = 0`, or the last
      Newton step `root = q − f q / f' q` was shorter than `tol`;
    * `converged = False` only after all `maxiter` passes, or at a point with `f' = 0 ≠ f`;
    * `iterations ≤ maxiter`, `function_calls ∈ {2·iterations, 2·iterations + 1}`;
    and with `disp = true` the call raises `RuntimeError` iff that `r` has `converged = False`
    (otherwise it returns the same `r`). -/
theorem newton_status (f fp : K → K) (x0 tol : K) (maxiter : Int)
    (htol : 0 < tol) (hmi : 1 ≤ maxiter) :
    ∃ r, newton f fp x0 tol maxiter false = .ok r ∧
      (r.conv = true → f r.root = 0 ∨
        ∃ q, f q ≠ 0 ∧ fp q ≠ 0 ∧ r.root = q - f q / fp q ∧ |r.root - q| < tol) ∧
      (r.conv = false → r.iters = maxiter.toNat ∨ (fp r.root = 0 ∧ f r.root ≠ 0)) ∧
      r.iters ≤ maxiter.toNat ∧ 2 * r.iters ≤ r.calls ∧ r.calls ≤ 2 * r.iters + 1 ∧
      (r.conv = false → newton f fp x0 tol maxiter true = .runtimeError) ∧
      (r.conv = true → newton f fp x0 tol maxiter true = .ok r) := by
  have h := newtonLoop_spec f fp tol maxiter.toNat 0 x0 0
  simp only at h
  obtain ⟨a, b, _, d, e, g⟩ := h
  have hf := finish_contract (newtonLoop f fp tol maxiter.toNat 0 x0 0)
  refine ⟨newtonLoop f fp tol maxiter.toNat 0 x0 0, ?_, a, ?_, by omega, by omega, by omega, ?_, ?_⟩
  · unfold newton; rw [if_neg (not_le.mpr htol), if_neg (by omega)]; exact hf.1
  · intro hc; rcases b hc with h | h
    · left; omega
    · right; exact h
  · intro hc; unfold newton; rw [if_neg (not_le.mpr htol), if_neg (by omega)]; exact hf.2.1 hc
  · intro hc; unfold newton; rw [if_neg (not_le.mpr htol), if_neg (by omega)]; exact hf.2.2 hc

/-- non-vacuity: Newton on `x² − 2` from 2 converges through the step criterion in 4 passes,
    and reports failure after 2 -/
example : (match newton (fun x : Rat => x * x - 2) (fun x => 2 * x) 2 (1 / 1000) 50 true with
    | .ok r => r.conv && r.iters == 4 && r.calls == 8 | _ => false) = true := by decide +kernel
example : (match newton (fun x : Rat => x * x - 2) (fun x => 2 * x) 2 (1 / 1000) 2 false with
    | .ok r => !r.conv && r.iters == 2 | _ => false) = true := by decide +kernel
example : (match newton (fun x : Rat => x * x - 2) (fun x => 2 * x) 2 (1 / 1000) 2 true with
    | .runtimeError => true | _ => false) = true := by decide +kernel
/-- the `f' = 0` exit -/
example : (match newton (fun x : Rat => x * x - 2) (fun x => 2 * x) 0 (1 / 1000) 50 false with
    | .ok r => !r.conv && r.iters == 1 && r.calls == 2 | _ => false) = true := by decide +kernel

theorem halley_valueError_iff (f fp fpp : K → K) (x0 tol : K) (maxiter : Int) (disp : Bool) :
    halley f fp fpp x0 tol maxiter disp = .valueError ↔ (tol ≤ 0 ∨ maxiter < 1) := by
  unfold halley finish
  by_cases h1 : tol ≤ 0
  · simp [h1]
  · by_cases h2 : maxiter < 1
    · simp [h2]
    · simp only [h1, h2, if_false, false_or, iff_false]
      split <;> simp

/-- **newton_halley, status contract** (as `newton_status`, with Halley's step). -/
theorem halley_status (f fp fpp : K → K) (x0 tol : K) (maxiter : Int)
    (htol : 0 < tol) (hmi : 1 ≤ maxiter) :
    ∃ r, halley f fp fpp x0 tol maxiter false = .ok r ∧
      (r.conv = true → f r.root = 0 ∨
        ∃ q, f q ≠ 0 ∧ fp q ≠ 0 ∧
          r.root = q - (f q / fp q) / (1 - 1 / 2 * (f q / fp q) * fpp q / fp q) ∧ |r.root - q| < tol) ∧
      (r.conv = false → r.iters = maxiter.toNat ∨ (fp r.root = 0 ∧ f r.root ≠ 0)) ∧
      r.iters ≤ maxiter.toNat ∧ 2 * r.iters ≤ r.calls ∧ r.calls ≤ 2 * r.iters + 1 ∧
      (r.conv = false → halley f fp fpp x0 tol maxiter true = .runtimeError) ∧
      (r.conv = true → halley f fp fpp x0 tol maxiter true = .ok r) := by
  have h := halleyLoop_spec f fp fpp tol maxiter.toNat 0 x0 0
  simp only at h
  obtain ⟨a, b, _, d, e, g⟩ := h
  have hf := finish_contract (halleyLoop f fp fpp tol maxiter.toNat 0 x0 0)
  refine ⟨halleyLoop f fp fpp tol maxiter.toNat 0 x0 0, ?_, a, ?_, by omega, by omega, by omega, ?_, ?_⟩
  · unfold halley; rw [if_neg (not_le.mpr htol), if_neg (by omega)]; exact hf.1
  · intro hc; rcases b hc with h | h
    · left; omega
    · right; exact h
  · intro hc; unfold halley; rw [if_neg (not_le.mpr htol), if_neg (by omega)]; exact hf.2.1 hc
  · intro hc; unfold halley; rw [if_neg (not_le.mpr htol), if_neg (by omega)]; exact hf.2.2 hc

example : (match halley (fun x : Rat => x * x - 2) (fun x => 2 * x) (fun _ => 2) 2 (1 / 1000) 50 true with
    | .ok r => r.conv && r.iters == 3 | _ => false) = true := by decide +kernel

theorem secant_valueError_iff (f : K → K) (k1 k2 x0 tol : K) (maxiter : Int) (disp : Bool) :
    secant f k1 k2 x0 tol maxiter disp = .valueError ↔ (tol ≤ 0 ∨ maxiter < 1) := by
  unfold secant finish
  by_cases h1 : tol ≤ 0
  · simp [h1]
  · by_cases h2 : maxiter < 1
    · simp [h2]
    · simp only [h1, h2, if_false, false_or, iff_false]
      split <;> simp

/-- **newton_secant, status contract.** `converged = True` is reported through exactly one of
    * the secant step from `(a, b)` to `root` was shorter than `tol`, or
    * the code's third exit: two successive iterates with **equal function values** `f a = f b`,
      in which case the mid-point `(a+b)/2` is returned as "converged" — whether or not it is
      anywhere near a root (for a non-zero constant `f` this exit is always taken; see the example);
    `converged = False` only after all `maxiter` passes; `function_calls = iterations + 1` on the
    converged exits and `maxiter + 2` otherwise; `disp = true` raises iff not converged. -/
theorem secant_status (f : K → K) (k1 k2 x0 tol : K) (maxiter : Int)
    (htol : 0 < tol) (hmi : 1 ≤ maxiter) :
    ∃ r, secant f k1 k2 x0 tol maxiter false = .ok r ∧
      (r.conv = true →
        (∃ a b, f a = f b ∧ r.root = (a + b) / 2) ∨
        (∃ a b, f b ≠ f a ∧ r.root = b - f b * (b - a) / (f b - f a) ∧ |r.root - b| < tol)) ∧
      (r.conv = false → r.iters = maxiter.toNat ∧ r.calls = maxiter.toNat + 2) ∧
      (r.conv = true → r.iters ≤ maxiter.toNat ∧ r.calls = r.iters + 1) ∧
      (r.conv = false → secant f k1 k2 x0 tol maxiter true = .runtimeError) ∧
      (r.conv = true → secant f k1 k2 x0 tol maxiter true = .ok r) := by
  have h := secantLoop_spec f tol maxiter.toNat 0 x0 (secantP1 k1 k2 x0) 2
  simp only at h
  obtain ⟨a, b, _, d, e, g⟩ := h
  have hf := finish_contract
    (secantLoop f tol maxiter.toNat 0 x0 (secantP1 k1 k2 x0) (f x0) (f (secantP1 k1 k2 x0)) 2)
  refine ⟨_, ?_, a, ?_, ?_, ?_, ?_⟩
  · unfold secant; rw [if_neg (not_le.mpr htol), if_neg (by omega)]; exact hf.1
  · intro hc; have := b hc; have := g hc; omega
  · intro hc; have := e hc; omega
  · intro hc; unfold secant; rw [if_neg (not_le.mpr htol), if_neg (by omega)]; exact hf.2.1 hc
  · intro hc; unfold secant; rw [if_neg (not_le.mpr htol), if_neg (by omega)]; exact hf.2.2 hc

/-- the equal-values exit on a constant non-zero function: "converged" at the mid-point of the two
    starting points although there is no root at all -/
example : (match secant (fun _ : Rat => 5) (10001 / 10000) (1 / 10000) 1 (1 / 1000) 50 true with
    | .ok r => r.conv && r.iters == 1 && r.calls == 2 | _ => false) = true := by decide +kernel
example : (match secant (fun x : Rat => x * x - 2) (10001 / 10000) (1 / 10000) 1 (1 / 1000) 50 true with
    | .ok r => r.conv && r.iters == 4 && r.calls == 5 | _ => false) = true := by decide +kernel

/-! ## bisect -/

/-- parameter errors and the same-sign test: `ValueError` exactly when `xtol ≤ 0`, `maxiter < 1`
    or `f a · f b > 0`. -/
theorem bisect_valueError_iff (f : K → K) (a b xtol rtol : K) (maxiter : Int) (disp : Bool) :
    bisect f a b xtol rtol maxiter disp = .valueError ↔ (xtol ≤ 0 ∨ maxiter < 1 ∨ 0 < f a * f b) := by
  unfold bisect finish
  by_cases h1 : xtol ≤ 0
  · simp [h1]
  · by_cases h2 : maxiter < 1
    · simp [h2]
    · by_cases h3 : 0 < f a * f b
      · simp [h3]
      · simp only [h1, h2, h3, if_false, false_or, iff_false]
        split <;> split <;> simp

/-- an end point with `f = 0` is returned at once (`b` wins when both are zeros): 0 iterations,
    2 function calls, converged, also with `disp = true`. -/
theorem bisect_endpoint (f : K → K) (a b xtol rtol : K) (maxiter : Int) (disp : Bool)
    (hx : 0 < xtol) (hmi : 1 ≤ maxiter) (h0 : f a = 0 ∨ f b = 0) :
    bisect f a b xtol rtol maxiter disp = .ok ⟨if f b = 0 then b else a, 2, 0, true⟩ := by
  unfold bisect
  have hs : ¬ 0 < f a * f b := by rcases h0 with h | h <;> simp [h]
  rw [if_neg (not_le.mpr hx), if_neg (by omega)]
  simp only [hs, if_false]
  unfold bisectInterval finish
  by_cases hb : f b = 0
  · simp [hb]
  · have ha : f a = 0 := by rcases h0 with h | h; exact h; exact absurd h hb
    simp [hb, ha]

/-- **bisect, bracket contract.** Valid parameters, `f a ≠ 0`, `f b ≠ 0`, `f a · f b ≤ 0`, `f` arbitrary.
    With `disp = false` the call returns `ok r` and
    * `converged = True` ⇒ `f root = 0`, or `root` is the mid-point of a bracket
      `[root − d, root + d]` with a strict sign change and `|d| < xtol + rtol·|root|`; moreover
      `root` lies between `a` and `b`, `1 ≤ iterations ≤ maxiter`, `function_calls = iterations + 2`;
    * `converged = False` ⇒ all `maxiter` passes were used (`function_calls = maxiter + 2`) and the
      tuple is the code's literal `(0.0, …, maxiter − 1, False)`;
    * `disp = true` raises `RuntimeError` iff not converged, else returns the same `r`. -/
theorem bisect_bracket (f : K → K) (a b xtol rtol : K) (maxiter : Int)
    (hx : 0 < xtol) (hmi : 1 ≤ maxiter) (ha : f a ≠ 0) (hb : f b ≠ 0) (hs : f a * f b ≤ 0) :
    ∃ r, bisect f a b xtol rtol maxiter false = .ok r ∧
      (r.conv = true →
        (f r.root = 0 ∨ ∃ d, |d| < xtol + rtol * |r.root| ∧ f (r.root - d) * f (r.root + d) < 0) ∧
        (∃ t, 0 ≤ t ∧ t ≤ 1 ∧ r.root = a + t * (b - a)) ∧
        1 ≤ r.iters ∧ r.iters ≤ maxiter.toNat ∧ r.calls = r.iters + 2) ∧
      (r.conv = false → r.iters = maxiter.toNat - 1 ∧ r.root = 0 ∧ r.calls = maxiter.toNat + 2) ∧
      (r.conv = false → bisect f a b xtol rtol maxiter true = .runtimeError) ∧
      (r.conv = true → bisect f a b xtol rtol maxiter true = .ok r) := by
  have hlt : f a * f b < 0 := lt_of_le_of_ne hs (mul_ne_zero ha hb)
  have h := bisectLoop_spec f xtol rtol (f a) maxiter.toNat 0 a (b - a) 2
    (mul_self_pos.mpr ha) (by rw [add_sub_cancel, mul_comm]; exact hlt)
  simp only at h
  obtain ⟨A, B⟩ := h
  have hf := finish_contract (bisectLoop f xtol rtol (f a) maxiter.toNat 0 a (b - a) 2)
  have hun : ∀ disp, bisect f a b xtol rtol maxiter disp
      = finish disp (bisectLoop f xtol rtol (f a) maxiter.toNat 0 a (b - a) 2) := by
    intro disp
    unfold bisect
    rw [if_neg (not_le.mpr hx), if_neg (by omega)]
    simp only [not_lt.mpr hs, if_false]
    unfold bisectInterval
    simp [ha, hb]
  refine ⟨_, by rw [hun]; exact hf.1, ?_, ?_, ?_, ?_⟩
  · intro hc
    obtain ⟨a1, a2, a3, a4, a5⟩ := A hc
    exact ⟨a1, a2, by omega, by omega, by omega⟩
  · intro hc
    obtain ⟨b1, b2, b3⟩ := B hc
    exact ⟨by omega, b2, by omega⟩
  · intro hc; rw [hun]; exact hf.2.1 hc
  · intro hc; rw [hun]; exact hf.2.2 hc

/-- non-vacuity: `x² − 2` on `[0, 2]`, `xtol = 1/100`: converged after 8 passes at 181/128;
    three passes are not enough -/
example : (match bisect (fun x : Rat => x * x - 2) 0 2 (1 / 100) 0 100 true with
    | .ok r => r.conv && r.iters == 8 && r.calls == 10 && r.root == 181 / 128 | _ => false) = true := by
  decide +kernel
example : (match bisect (fun x : Rat => x * x - 2) 0 2 (1 / 100) 0 3 false with
    | .ok r => !r.conv && r.iters == 2 && r.calls == 5 && r.root == 0 | _ => false) = true := by
  decide +kernel
example : (match bisect (fun x : Rat => x * x + 2) 0 2 (1 / 100) 0 100 true with
    | .valueError => true | _ => false) = true := by decide +kernel

/-! ## brentq -/

theorem brentq_valueError_iff (f : K → K) (a b xtol rtol : K) (maxiter : Int) (disp : Bool) :
    brentq f a b xtol rtol maxiter disp = .valueError ↔ (xtol ≤ 0 ∨ maxiter < 1 ∨ 0 < f a * f b) := by
  unfold brentq finish
  by_cases h1 : xtol ≤ 0
  · simp [h1]
  · by_cases h2 : maxiter < 1
    · simp [h2]
    · by_cases h3 : 0 < f a * f b
      · simp [h3]
      · simp only [h1, h2, h3, if_false, false_or, iff_false]
        split <;> split <;> simp

theorem brentq_endpoint (f : K → K) (a b xtol rtol : K) (maxiter : Int) (disp : Bool)
    (hx : 0 < xtol) (hmi : 1 ≤ maxiter) (h0 : f a = 0 ∨ f b = 0) :
    brentq f a b xtol rtol maxiter disp = .ok ⟨if f b = 0 then b else a, 2, 0, true⟩ := by
  unfold brentq
  have hs : ¬ 0 < f a * f b := by rcases h0 with h | h <;> simp [h]
  rw [if_neg (not_le.mpr hx), if_neg (by omega)]
  simp only [hs, if_false]
  unfold bisectInterval finish
  by_cases hb : f b = 0
  · simp [hb]
  · have ha : f a = 0 := by rcases h0 with h | h; exact h; exact absurd h hb
    simp [hb, ha]

/-- **brentq, bracket contract.** Valid parameters, `f a ≠ 0`, `f b ≠ 0`, `f a · f b ≤ 0`, `f` arbitrary
    (the invariant behind it — `[xcur, xblk]` always brackets a sign change and the stored values
    are values of `f` — holds whatever interpolation step is chosen, see `brentqLoop_spec`).
    With `disp = false` the call returns `ok r` and
    * `converged = True` ⇒ `f root = 0`, or there is a point `y` with `f y · f root < 0`,
      `|f root| ≤ |f y|` and `|y − root| < xtol + rtol·|root|`;
      `1 ≤ iterations ≤ maxiter` and `function_calls = iterations + 1`
      (the convergence test sits at the top of the pass, so `iterations` counts one more than
      the evaluations made inside the loop);
    * `converged = False` ⇒ all passes were used: `(0.0, maxiter + 2, maxiter − 1, False)`;
    * `disp = true` raises `RuntimeError` iff not converged, else returns the same `r`. -/
theorem brentq_bracket (f : K → K) (a b xtol rtol : K) (maxiter : Int)
    (hx : 0 < xtol) (hmi : 1 ≤ maxiter) (ha : f a ≠ 0) (hb : f b ≠ 0) (hs : f a * f b ≤ 0) :
    ∃ r, brentq f a b xtol rtol maxiter false = .ok r ∧
      (r.conv = true →
        (f r.root = 0 ∨
          ∃ y, f y * f r.root < 0 ∧ |f r.root| ≤ |f y| ∧ |y - r.root| < xtol + rtol * |r.root|) ∧
        1 ≤ r.iters ∧ r.iters ≤ maxiter.toNat ∧ r.calls = r.iters + 1) ∧
      (r.conv = false → r.iters = maxiter.toNat - 1 ∧ r.root = 0 ∧ r.calls = maxiter.toNat + 2) ∧
      (r.conv = false → brentq f a b xtol rtol maxiter true = .runtimeError) ∧
      (r.conv = true → brentq f a b xtol rtol maxiter true = .ok r) := by
  have hlt : f a * f b < 0 := lt_of_le_of_ne hs (mul_ne_zero ha hb)
  have hinv : BQInv f (⟨a, b, 0, f a, f b, 0, 0, 0⟩ : BQ K) := ⟨rfl, rfl, Or.inl hlt⟩
  have h := brentqLoop_spec f xtol rtol maxiter.toNat 0 _ 2 hinv
  simp only at h
  obtain ⟨A, B⟩ := h
  have hf := finish_contract (brentqLoop f xtol rtol maxiter.toNat 0 ⟨a, b, 0, f a, f b, 0, 0, 0⟩ 2)
  have hun : ∀ disp, brentq f a b xtol rtol maxiter disp
      = finish disp (brentqLoop f xtol rtol maxiter.toNat 0 ⟨a, b, 0, f a, f b, 0, 0, 0⟩ 2) := by
    intro disp
    unfold brentq
    rw [if_neg (not_le.mpr hx), if_neg (by omega)]
    simp only [not_lt.mpr hs, if_false]
    unfold bisectInterval
    simp [ha, hb]
  refine ⟨_, by rw [hun]; exact hf.1, ?_, ?_, ?_, ?_⟩
  · intro hc
    obtain ⟨a1, a3, a4, a5⟩ := A hc
    exact ⟨a1, by omega, by omega, by omega⟩
  · intro hc
    obtain ⟨b1, b2, b3⟩ := B hc
    exact ⟨by omega, b2, by omega⟩
  · intro hc; rw [hun]; exact hf.2.1 hc
  · intro hc; rw [hun]; exact hf.2.2 hc

example : (match brentq (fun x : Rat => x * x - 2) 0 2 (1 / 100) 0 100 true with
    | .ok r => r.conv && r.iters == 5 && r.calls == 6 && r.root == 5939 / 4200 | _ => false) = true := by
  decide +kernel
example : (match brentq (fun x : Rat => x * x - 2) 0 2 (1 / 100) 0 2 false with
    | .ok r => !r.conv && r.iters == 1 && r.calls == 4 && r.root == 0 | _ => false) = true := by
  decide +kernel

/-! ## brent_max -/

/-- `brent_max` raises (`none`) exactly when `a < b` fails. -/
theorem brentMax_none_iff (f : K → K) (sqrtEps gm xtol a b : K) (maxiter : Int) :
    brentMax f sqrtEps gm xtol a b maxiter = none ↔ ¬ a < b := by
  unfold brentMax
  split <;> simp_all

/-- **brent_max on a strictly unimodal function** (mode `m ∈ [a, b]`, `xtol > 0`, `√ε ≥ 0`; the
    golden-section constant is arbitrary). The call returns `(xf, fval, status_flag, num)` with
    * `fval = f xf` (the reported value is the function value at the reported point);
    * `status_flag = 0` ⇒ `|xf − m| ≤ tol2 = 2·(√ε·|xf| + xtol/3)`: the returned point is within
      `tol2` of the maximiser (this is what the loop test delivers; it is `≤ xtol` only when
      `√ε·|xf| ≤ xtol/6`, so "within xtol" in the property is read as "within tol2");
    * `status_flag ∈ {0, 1}`, and `status_flag = 1` ⇒ `num ≥ maxiter` (for `maxiter ≥ 2`);
    * `1 ≤ num ≤ max maxiter 2`. -/
theorem brentMax_unimodal (f : K → K) (sqrtEps gm xtol a b m : K) (maxiter : Int)
    (hu : Unimodal f m) (hse : 0 ≤ sqrtEps) (hx : 0 < xtol) (hab : a < b) (ham : a ≤ m) (hmb : m ≤ b) :
    ∃ xf fval flag num, brentMax f sqrtEps gm xtol a b maxiter = some (xf, fval, flag, num) ∧
      fval = f xf ∧
      (flag = 0 → |xf - m| ≤ 2 * (sqrtEps * |xf| + xtol / 3)) ∧
      (flag = 0 ∨ flag = 1) ∧
      (flag = 1 → 2 ≤ maxiter → maxiter ≤ (num : Int)) ∧
      1 ≤ num ∧ (num : Int) ≤ max maxiter 2 := by
  have hinit : BMInv f sqrtEps xtol m (bmInit f sqrtEps gm xtol a b) :=
    ⟨rfl, ham, hmb, by simp [bmInit, absv_eq_abs, three_eq], by simp [bmInit, two_eq], by simp [bmInit, half_eq]⟩
  have h := bmLoop_spec f sqrtEps gm xtol m maxiter hu hse hx (max (maxiter - 1).toNat 1) _ hinit
  simp only at h
  obtain ⟨hinv, h0, h01, h1, hlo, hhi, hmx⟩ := h
  have hn1 : (bmInit f sqrtEps gm xtol a b).num = 1 := rfl
  refine ⟨_, _, _, _, by unfold brentMax; rw [if_pos hab], ?_, ?_, h01, ?_, by omega, ?_⟩
  · rw [hinv.hfx]; ring
  · intro hf
    have hb := h0 hf
    rw [hinv.htol2, hinv.htol1, hinv.hxm] at hb
    have h1' := (abs_le.mp hb).1
    have h2' := (abs_le.mp hb).2
    have := hinv.ham
    have := hinv.hmb
    rw [abs_le]
    constructor <;> linarith
  · intro hf h2
    rcases h1 hf with h | h
    · exact h
    · rw [h, hn1]
      have : max (maxiter - 1).toNat 1 = (maxiter - 1).toNat := max_eq_left (by omega)
      rw [this]; omega
  · by_cases he : (bmLoop f sqrtEps gm xtol maxiter (max (maxiter - 1).toNat 1) (bmInit f sqrtEps gm xtol a b)).1.num
        = (bmInit f sqrtEps gm xtol a b).num
    · rw [he, hn1]; exact le_trans (by norm_num) (le_max_right _ _)
    · have := hmx he
      rw [hn1] at this
      simpa using this

/-- non-vacuity: `−(x−1)²` is strictly unimodal with mode 1, and the model run on `[-2, 3]`
    (with rational stand-ins 1/67108864 for √ε and 3/8 for the golden-section constant) ends
    normally within `tol2` of 1 -/
example : Unimodal (fun x : Rat => -((x - 1) * (x - 1))) 1 := by
  constructor
  · intro u v h1 h2; nlinarith
  · intro u v h1 h2; nlinarith
example : (match brentMax (fun x : Rat => -((x - 1) * (x - 1))) (1 / 67108864) (3 / 8) (1 / 1000) (-2) 3 500 with
    | some (xf, _, flag, num) => flag == 0 && decide (absv (xf - 1) ≤ 1 / 1000) && num == 6
    | none => false) = true := by decide +kernel

end

/-! ## nelder_mead : bookkeeping (any scalar type, any objective, any bounds) -/

section nm
variable {α : Type} [Zero α] [One α] [Add α] [Sub α] [Mul α] [Div α] [Neg α]
  [LT α] [LE α] [DecidableLT α] [DecidableLE α] [BEq α]

/-- **nelder_mead, bookkeeping contract.** Whatever the objective, bounds, tolerances and
    iteration cap: the result is read off a final state `s` whose `f_val` array holds
    `_neg_bounded_fun` of every current vertex (`-f(v)` inside the bounds, `+inf` outside) and whose
    simplex still has `n+1` rows; the returned `x` is row `b = sort_ind[0]` of the returned
    `final_simplex`, and the returned `fun` is `-f_val[b]`, i.e. (when `b` is a valid row)
    `-_neg_bounded_fun(x)` — the function value at `x` if `x` is inside the bounds.
    (This is the part of the property that survives the literal re-sorting rule of the shrink step,
    `sort_ind[1:] = f_val[sort_ind[1:]].argsort() + 1`, which stores positions, not vertex indices;
    that `sort_ind` stays a sorting permutation is NOT claimed.) -/
theorem nelderMead_bookkeeping (f : List α → α) (P : NMP α) (k105 zdelt : α)
    (bounds : List (α × α)) (x0 : List α) (maxIter : Nat) :
    ∃ (s : NM α) (b : Nat) (fail : Bool),
      nelderMead f P k105 zdelt bounds x0 maxIter
        = (s.verts.getD b [], -(s.fval.getD b 0), !fail, s.nit, s.verts) ∧
      s.fval = s.verts.map (negF f P.pinf bounds) ∧
      s.verts.length = x0.length + 1 ∧
      (b < s.verts.length → s.fval.getD b 0 = negF f P.pinf bounds (s.verts.getD b [])) := by
  have h := nmLoop_ok f P bounds _ maxIter (maxIter + 1) _
    (nmInit_ok f P bounds (initSimplex k105 zdelt x0))
  rw [initSimplex_length] at h
  refine ⟨_, _, _, rfl, h.1, h.2, ?_⟩
  intro hb
  rw [h.1]
  exact getD_map_of_lt _ _ _ _ _ hb

/-- non-vacuity / the reported finding as a model run: on `f(x) = −1/2 − (49/16)(x − 9/4)²` from
    `x0 = 5/8` the exact-arithmetic model stops with `success` after 8 passes at `71/32 = 2.21875`,
    the two vertices being symmetric about the maximiser `9/4` -/
example : (match nelderMead (quadObj [[(49 / 16 : Rat)]] [9 / 4] (-1 / 2))
      ⟨1, 2, 1 / 2, 1 / 2, 1 / 10000000000, 1 / 10000000000, 1000000⟩ (21 / 20) (1 / 4000) [] [5 / 8] 1000 with
    | (x, _, ok, nit, verts) => ok && nit == 8 && x == [71 / 32] && verts == [[71 / 32], [73 / 32]]) = true := by
  decide +kernel

end nm

end QE.C17
