/-
  Property C17 — theorems about QEModel.C17 (stub; to be filled in).
-/
import QEModel.C17
namespace QE.C17

end QE.C17
