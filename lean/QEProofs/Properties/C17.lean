/-
  Property C17 — root finders and maximisers honour their tolerance and status contracts:
  theorems about the definitions of QEModel.C17 (the ones the driver executes), over an
  arbitrary linearly ordered field `K` and an ARBITRARY function `f : K → K` (no continuity is
  needed: "a sign change" is a pair of points with `f y · f x < 0`).
-/
import QEModel.C17
import QEProofs.Lemmas.C17Basic
import QEProofs.Lemmas.C17Open
import QEProofs.Lemmas.C17Convex
import QEProofs.Lemmas.C17SecantBasin
import QEProofs.Lemmas.C17Bracket
import QEProofs.Lemmas.C17Total
import QEProofs.Lemmas.C17BrentMax
import QEProofs.Lemmas.C17BrentBox
import QEProofs.Lemmas.C17NM
import QEProofs.Lemmas.C17NMStatus
namespace QE.C17
set_option linter.unusedSectionVars false

section
variable {K : Type} [Field K] [LinearOrder K] [IsStrictOrderedRing K]

/-! ## `disp` : raising instead of reporting -/

/-- `finish` never produces a `ValueError`; with `disp = true` it raises exactly when the run with
    `disp = false` reports `converged = False`, and otherwise returns the same result. -/
theorem finish_contract (R : Res K) :
    (finish false R = .ok R) ∧
    (R.conv = false → finish true R = .runtimeError) ∧
    (R.conv = true → finish true R = .ok R) := by
  unfold finish
  refine ⟨by simp, fun h => by simp [h], fun h => by simp [h]⟩

/-! ## newton / newton_halley / newton_secant : status contracts -/

/-- `newton` raises `ValueError` exactly for `tol ≤ 0` or `maxiter < 1`. -/
theorem newton_valueError_iff (f fp : K → K) (x0 tol : K) (maxiter : Int) (disp : Bool) :
    newton f fp x0 tol maxiter disp = .valueError ↔ (tol ≤ 0 ∨ maxiter < 1) := by
  unfold newton finish
  by_cases h1 : tol ≤ 0
  · simp [h1]
  · by_cases h2 : maxiter < 1
    · simp [h2]
    · simp only [h1, h2, if_false, false_or, iff_false]
      split <;> simp

/-- **newton, status contract.** For valid parameters the result with `disp = false` is `ok r` where
    * `converged = True` only through one of the two stopping criteria: `f root = 0`, or the last
      Newton step `root = q − f q / f' q` was shorter than `tol`;
    * `converged = False` only after all `maxiter` passes, or at a point with `f' = 0 ≠ f`;
    * `iterations ≤ maxiter`, `function_calls ∈ {2·iterations, 2·iterations + 1}`;
    and with `disp = true` the call raises `RuntimeError` iff that `r` has `converged = False`
    (otherwise it returns the same `r`). -/
theorem newton_status (f fp : K → K) (x0 tol : K) (maxiter : Int)
    (htol : 0 < tol) (hmi : 1 ≤ maxiter) :
    ∃ r, newton f fp x0 tol maxiter false = .ok r ∧
      (r.conv = true → f r.root = 0 ∨
        ∃ q, f q ≠ 0 ∧ fp q ≠ 0 ∧ r.root = q - f q / fp q ∧ |r.root - q| < tol) ∧
      (r.conv = false → r.iters = maxiter.toNat ∨ (fp r.root = 0 ∧ f r.root ≠ 0)) ∧
      r.iters ≤ maxiter.toNat ∧ 2 * r.iters ≤ r.calls ∧ r.calls ≤ 2 * r.iters + 1 ∧
      (r.conv = false → newton f fp x0 tol maxiter true = .runtimeError) ∧
      (r.conv = true → newton f fp x0 tol maxiter true = .ok r) := by
  have h := newtonLoop_spec f fp tol maxiter.toNat 0 x0 0
  simp only at h
  obtain ⟨a, b, _, d, e, g⟩ := h
  have hf := finish_contract (newtonLoop f fp tol maxiter.toNat 0 x0 0)
  refine ⟨newtonLoop f fp tol maxiter.toNat 0 x0 0, ?_, a, ?_, by omega, by omega, by omega, ?_, ?_⟩
  · unfold newton; rw [if_neg (not_le.mpr htol), if_neg (by omega)]; exact hf.1
  · intro hc; rcases b hc with h | h
    · left; omega
    · right; exact h
  · intro hc; unfold newton; rw [if_neg (not_le.mpr htol), if_neg (by omega)]; exact hf.2.1 hc
  · intro hc; unfold newton; rw [if_neg (not_le.mpr htol), if_neg (by omega)]; exact hf.2.2 hc

/-- non-vacuity: Newton on `x² − 2` from 2 converges through the step criterion in 4 passes,
    and reports failure after 2 -/
example : (match newton (fun x : Rat => x * x - 2) (fun x => 2 * x) 2 (1 / 1000) 50 true with
    | .ok r => r.conv && r.iters == 4 && r.calls == 8 | _ => false) = true := by decide +kernel
example : (match newton (fun x : Rat => x * x - 2) (fun x => 2 * x) 2 (1 / 1000) 2 false with
    | .ok r => !r.conv && r.iters == 2 | _ => false) = true := by decide +kernel
example : (match newton (fun x : Rat => x * x - 2) (fun x => 2 * x) 2 (1 / 1000) 2 true with
    | .runtimeError => true | _ => false) = true := by decide +kernel
/-- the `f' = 0` exit -/
example : (match newton (fun x : Rat => x * x - 2) (fun x => 2 * x) 0 (1 / 1000) 50 false with
    | .ok r => !r.conv && r.iters == 1 && r.calls == 2 | _ => false) = true := by decide +kernel

/-- **newton from a start in the monotone basin** ("for a function with a simple root and a start in
    its basin, the result is within the requested accuracy of the root" — proved for the textbook
    basin). Let `f` be convex with positive derivative `fp` on `[r, ∞)` (tangent-line inequality,
    `ConvexRight`), `f r = 0`, and start at `x0 ≥ r`. Then for `tol > 0`, `maxiter ≥ 1`:
    * the call (with `disp = false`) returns `ok res` with `r ≤ res.root ≤ x0` — the iteration never
      leaves `[r, x0]`, in particular the `f' = 0` exit cannot occur;
    * `converged = False` only after all `maxiter` passes;
    * `converged = True` ⇒ `f root = 0`, or the last step `q → root` satisfies `root ≤ q ≤ x0`,
      `q − root < tol` and `(root − r)·f'(r) ≤ (f'(q) − f'(root))·(q − root)`;
    * hence, if the derivative varies by at most `f'(r)` over `[r, x0]`
      (`r ≤ x ≤ y ≤ x0 → fp y − fp x ≤ fp r`), `converged = True` ⇒ `0 ≤ root − r < tol`:
      the result is within the requested accuracy of the root. -/
theorem newton_convex_basin (f fp : K → K) (r x0 tol : K) (maxiter : Int)
    (h : ConvexRight f fp r) (hx0 : r ≤ x0) (htol : 0 < tol) (hmi : 1 ≤ maxiter) :
    ∃ res, newton f fp x0 tol maxiter false = .ok res ∧
      r ≤ res.root ∧ res.root ≤ x0 ∧
      (res.conv = false → res.iters = maxiter.toNat) ∧
      (res.conv = true → f res.root = 0 ∨
        ∃ q, res.root ≤ q ∧ q ≤ x0 ∧ q - res.root < tol ∧
          (res.root - r) * fp r ≤ (fp q - fp res.root) * (q - res.root)) ∧
      ((∀ x y, r ≤ x → x ≤ y → y ≤ x0 → fp y - fp x ≤ fp r) → res.conv = true → res.root - r < tol) := by
  have hl := newtonLoop_convex f fp r x0 tol h maxiter.toNat 0 x0 0 hx0 (le_refl _)
  obtain ⟨a1, a2, a3, a4⟩ := hl
  refine ⟨newtonLoop f fp tol maxiter.toNat 0 x0 0, ?_, a1, a2, fun hf => by have := a3 hf; omega, ?_, ?_⟩
  · unfold newton; rw [if_neg (not_le.mpr htol), if_neg (by omega)]; exact (finish_contract _).1
  · intro hc
    rcases a4 hc with h0 | ⟨q, q1, q2, q3, _, q5⟩
    · exact Or.inl h0
    · exact Or.inr ⟨q, q1, q2, q3, q5⟩
  · intro hvar hc
    have hpos := h.pos r (le_refl _)
    rcases a4 hc with h0 | ⟨q, q1, q2, q3, _, q5⟩
    · have t := h.tangent r _ (le_refl _) a1
      rw [h.root, h0] at t
      have : (newtonLoop f fp tol maxiter.toNat 0 x0 0).root - r ≤ 0 := by
        by_contra hcon
        have := mul_pos hpos (not_le.mp hcon)
        linarith
      linarith
    · have hv := hvar _ q a1 q1 q2
      have hd : 0 ≤ q - (newtonLoop f fp tol maxiter.toNat 0 x0 0).root := sub_nonneg.mpr q1
      have h2 : (fp q - fp (newtonLoop f fp tol maxiter.toNat 0 x0 0).root) * (q - (newtonLoop f fp tol maxiter.toNat 0 x0 0).root)
          ≤ fp r * (q - (newtonLoop f fp tol maxiter.toNat 0 x0 0).root) := mul_le_mul_of_nonneg_right hv hd
      have h3 : ((newtonLoop f fp tol maxiter.toNat 0 x0 0).root - r) * fp r
          ≤ (q - (newtonLoop f fp tol maxiter.toNat 0 x0 0).root) * fp r := by linarith
      have := le_of_mul_le_mul_right h3 hpos
      linarith

/-- non-vacuity: `x² − 4` with derivative `2x` is convex-increasing to the right of its root 2, the
    derivative varies by `2 ≤ f'(2) = 4` over `[2, 3]`, and the model run from 3 converges inside `[2, 3]` -/
example : ConvexRight (fun x : Rat => x * x - 4) (fun x => 2 * x) 2 :=
  ⟨by norm_num, fun x y _ _ => by nlinarith [sq_nonneg (y - x)], fun x hx => by linarith⟩
example : ∀ x y : Rat, 2 ≤ x → x ≤ y → y ≤ 3 → (fun x => 2 * x) y - (fun x => 2 * x) x ≤ (fun x : Rat => 2 * x) 2 := by
  intro x y h1 h2 h3; simp only; linarith
example : (match newton (fun x : Rat => x * x - 4) (fun x => 2 * x) 3 (1 / 1000) 50 true with
    | .ok r => r.conv && decide (2 ≤ r.root) && decide (r.root - 2 < 1 / 1000) && r.iters == 4 | _ => false) = true := by
  decide +kernel

/-- **newton, total correctness in the monotone basin.** Same setting as `newton_convex_basin`
    (`f` convex with positive derivative right of its root `r`, start `x0 ≥ r`, `tol > 0`). Every pass
    that does not stop moves the iterate down by at least `tol` and keeps it `≥ r`, so any `N` with
    `x0 − r < N·tol` bounds the number of passes: for `maxiter ≥ N` the call returns — with `disp`
    either way, no exception — `converged = True` after at most `N` passes, at a point of `[r, x0]`;
    and if the derivative varies by at most `f'(r)` over `[r, x0]` that point is within `tol` of the root. -/
theorem newton_convex_total (f fp : K → K) (r x0 tol : K) (maxiter : Int) (N : Nat)
    (h : ConvexRight f fp r) (hx0 : r ≤ x0) (htol : 0 < tol)
    (hN : x0 - r < N * tol) (hmi : (N : Int) ≤ maxiter) (disp : Bool) :
    ∃ res, newton f fp x0 tol maxiter disp = .ok res ∧ res.conv = true ∧ res.iters ≤ N ∧
      r ≤ res.root ∧ res.root ≤ x0 ∧
      ((∀ x y, r ≤ x → x ≤ y → y ≤ x0 → fp y - fp x ≤ fp r) → res.root - r < tol) := by
  have hN1 : 1 ≤ N := by
    rcases Nat.eq_zero_or_pos N with h0 | h0
    · rw [h0] at hN; simp at hN; linarith
    · exact h0
  have hmi1 : 1 ≤ maxiter := by omega
  have ht := newtonLoop_convex_terminates f fp r tol h N maxiter.toNat 0 x0 0 hx0 hN (by omega)
  obtain ⟨res, hres, b1, b2, _, _, b5⟩ := newton_convex_basin f fp r x0 tol maxiter h hx0 htol hmi1
  have hun : ∀ d, newton f fp x0 tol maxiter d = finish d (newtonLoop f fp tol maxiter.toNat 0 x0 0) := by
    intro d; unfold newton; rw [if_neg (not_le.mpr htol), if_neg (by omega)]
  rw [hun, (finish_contract _).1] at hres
  have hrl : newtonLoop f fp tol maxiter.toNat 0 x0 0 = res := by injection hres
  rw [hrl] at ht
  refine ⟨res, ?_, ht.1, by have := ht.2; omega, b1, b2, fun hv => b5 hv ht.1⟩
  rw [hun, hrl]
  cases disp with
  | false => exact (finish_contract res).1
  | true => exact (finish_contract res).2.2 ht.1

/-- non-vacuity: `x² − 4` from 3 with `tol = 1/1000`: `3 − 2 < 1001·tol`, and the model converges (in 4 passes) -/
example : ((3 : Rat) - 2 < (1001 : Nat) * (1 / 1000)) := by norm_num

/-- over an Archimedean field such an `N` always exists: in the monotone basin `newton` converges for
    every sufficiently large `maxiter` -/
theorem newton_convex_total_archimedean [Archimedean K] (f fp : K → K) (r x0 tol : K)
    (h : ConvexRight f fp r) (hx0 : r ≤ x0) (htol : 0 < tol) :
    ∃ N : Nat, ∀ (maxiter : Int) (disp : Bool), (N : Int) ≤ maxiter →
      ∃ res, newton f fp x0 tol maxiter disp = .ok res ∧ res.conv = true ∧ res.iters ≤ N ∧
        r ≤ res.root ∧ res.root ≤ x0 := by
  obtain ⟨N, hN⟩ := exists_nat_gt ((x0 - r) / tol)
  have hN' : x0 - r < N * tol := by rwa [div_lt_iff₀ htol] at hN
  refine ⟨N, fun maxiter disp hm => ?_⟩
  obtain ⟨res, a, b, c, d, e, _⟩ := newton_convex_total f fp r x0 tol maxiter N h hx0 htol hN' hm disp
  exact ⟨res, a, b, c, d, e⟩

theorem halley_valueError_iff (f fp fpp : K → K) (x0 tol : K) (maxiter : Int) (disp : Bool) :
    halley f fp fpp x0 tol maxiter disp = .valueError ↔ (tol ≤ 0 ∨ maxiter < 1) := by
  unfold halley finish
  by_cases h1 : tol ≤ 0
  · simp [h1]
  · by_cases h2 : maxiter < 1
    · simp [h2]
    · simp only [h1, h2, if_false, false_or, iff_false]
      split <;> simp

/-- **newton_halley, status contract** (as `newton_status`, with Halley's step). -/
theorem halley_status (f fp fpp : K → K) (x0 tol : K) (maxiter : Int)
    (htol : 0 < tol) (hmi : 1 ≤ maxiter) :
    ∃ r, halley f fp fpp x0 tol maxiter false = .ok r ∧
      (r.conv = true → f r.root = 0 ∨
        ∃ q, f q ≠ 0 ∧ fp q ≠ 0 ∧
          r.root = q - (f q / fp q) / (1 - 1 / 2 * (f q / fp q) * fpp q / fp q) ∧ |r.root - q| < tol) ∧
      (r.conv = false → r.iters = maxiter.toNat ∨ (fp r.root = 0 ∧ f r.root ≠ 0)) ∧
      r.iters ≤ maxiter.toNat ∧ 2 * r.iters ≤ r.calls ∧ r.calls ≤ 2 * r.iters + 1 ∧
      (r.conv = false → halley f fp fpp x0 tol maxiter true = .runtimeError) ∧
      (r.conv = true → halley f fp fpp x0 tol maxiter true = .ok r) := by
  have h := halleyLoop_spec f fp fpp tol maxiter.toNat 0 x0 0
  simp only at h
  obtain ⟨a, b, _, d, e, g⟩ := h
  have hf := finish_contract (halleyLoop f fp fpp tol maxiter.toNat 0 x0 0)
  refine ⟨halleyLoop f fp fpp tol maxiter.toNat 0 x0 0, ?_, a, ?_, by omega, by omega, by omega, ?_, ?_⟩
  · unfold halley; rw [if_neg (not_le.mpr htol), if_neg (by omega)]; exact hf.1
  · intro hc; rcases b hc with h | h
    · left; omega
    · right; exact h
  · intro hc; unfold halley; rw [if_neg (not_le.mpr htol), if_neg (by omega)]; exact hf.2.1 hc
  · intro hc; unfold halley; rw [if_neg (not_le.mpr htol), if_neg (by omega)]; exact hf.2.2 hc

example : (match halley (fun x : Rat => x * x - 2) (fun x => 2 * x) (fun _ => 2) 2 (1 / 1000) 50 true with
    | .ok r => r.conv && r.iters == 3 | _ => false) = true := by decide +kernel

theorem secant_valueError_iff (f : K → K) (k1 k2 x0 tol : K) (maxiter : Int) (disp : Bool) :
    secant f k1 k2 x0 tol maxiter disp = .valueError ↔ (tol ≤ 0 ∨ maxiter < 1) := by
  unfold secant finish
  by_cases h1 : tol ≤ 0
  · simp [h1]
  · by_cases h2 : maxiter < 1
    · simp [h2]
    · simp only [h1, h2, if_false, false_or, iff_false]
      split <;> simp

/-- **newton_secant, status contract.** `converged = True` is reported through exactly one of
    * the secant step from `(a, b)` to `root` was shorter than `tol`, or
    * the code's third exit: two successive iterates with **equal function values** `f a = f b`,
      in which case the mid-point `(a+b)/2` is returned as "converged" — whether or not it is
      anywhere near a root (for a non-zero constant `f` this exit is always taken; see the example);
    `converged = False` only after all `maxiter` passes; `function_calls = iterations + 1` on the
    converged exits and `maxiter + 2` otherwise; `disp = true` raises iff not converged. -/
theorem secant_status (f : K → K) (k1 k2 x0 tol : K) (maxiter : Int)
    (htol : 0 < tol) (hmi : 1 ≤ maxiter) :
    ∃ r, secant f k1 k2 x0 tol maxiter false = .ok r ∧
      (r.conv = true →
        (∃ a b, f a = f b ∧ r.root = (a + b) / 2) ∨
        (∃ a b, f b ≠ f a ∧ r.root = b - f b * (b - a) / (f b - f a) ∧ |r.root - b| < tol)) ∧
      (r.conv = false → r.iters = maxiter.toNat ∧ r.calls = maxiter.toNat + 2) ∧
      (r.conv = true → r.iters ≤ maxiter.toNat ∧ r.calls = r.iters + 1) ∧
      (r.conv = false → secant f k1 k2 x0 tol maxiter true = .runtimeError) ∧
      (r.conv = true → secant f k1 k2 x0 tol maxiter true = .ok r) := by
  have h := secantLoop_spec f tol maxiter.toNat 0 x0 (secantP1 k1 k2 x0) 2
  simp only at h
  obtain ⟨a, b, _, d, e, g⟩ := h
  have hf := finish_contract
    (secantLoop f tol maxiter.toNat 0 x0 (secantP1 k1 k2 x0) (f x0) (f (secantP1 k1 k2 x0)) 2)
  refine ⟨_, ?_, a, ?_, ?_, ?_, ?_⟩
  · unfold secant; rw [if_neg (not_le.mpr htol), if_neg (by omega)]; exact hf.1
  · intro hc; have := b hc; have := g hc; omega
  · intro hc; have := e hc; omega
  · intro hc; unfold secant; rw [if_neg (not_le.mpr htol), if_neg (by omega)]; exact hf.2.1 hc
  · intro hc; unfold secant; rw [if_neg (not_le.mpr htol), if_neg (by omega)]; exact hf.2.2 hc

/-- the equal-values exit on a constant non-zero function: "converged" at the mid-point of the two
    starting points although there is no root at all -/
example : (match secant (fun _ : Rat => 5) (10001 / 10000) (1 / 10000) 1 (1 / 1000) 50 true with
    | .ok r => r.conv && r.iters == 1 && r.calls == 2 | _ => false) = true := by decide +kernel
example : (match secant (fun x : Rat => x * x - 2) (10001 / 10000) (1 / 10000) 1 (1 / 1000) 50 true with
    | .ok r => r.conv && r.iters == 4 && r.calls == 5 | _ => false) = true := by decide +kernel

/-- **newton_secant from a start in the monotone basin.** Let `f` be strictly increasing and convex on
    `[r, ∞)` (chord form, `ConvexChord`) with `f r = 0`, and let both starting points — `x0` and the
    code's second point `p1 = secantP1 k1 k2 x0` (`x0·(1+1e-4) ± 1e-4`) — lie in `[r, X]`. Then for
    `tol > 0`, `maxiter ≥ 1`:
    * every iterate lies in `[r, min(previous two)]`; the call with `disp = false` returns `ok res` with
      `r ≤ res.root ≤ X`, and `converged = False` only after all `maxiter` passes;
    * each pass that does not stop moves down by at least `tol`, so for any `N` with
      `p1 − r < N·tol` and `maxiter ≥ N` the call returns — `disp` either way, no exception —
      `converged = True` after at most `N` passes. -/
theorem secant_convex_total (f : K → K) (k1 k2 r X x0 tol : K) (maxiter : Int)
    (h : ConvexChord f r) (h1 : r ≤ x0) (h2 : x0 ≤ X)
    (h3 : r ≤ secantP1 k1 k2 x0) (h4 : secantP1 k1 k2 x0 ≤ X) (htol : 0 < tol) (hmi : 1 ≤ maxiter) :
    (∃ res, secant f k1 k2 x0 tol maxiter false = .ok res ∧ r ≤ res.root ∧ res.root ≤ X ∧
      (res.conv = false → res.iters = maxiter.toNat)) ∧
    (∀ (N : Nat) (disp : Bool), secantP1 k1 k2 x0 - r < N * tol → (N : Int) ≤ maxiter →
      ∃ res, secant f k1 k2 x0 tol maxiter disp = .ok res ∧ res.conv = true ∧ res.iters ≤ N ∧
        r ≤ res.root ∧ res.root ≤ X) := by
  have hl := secantLoop_convex f r X tol h maxiter.toNat 0 x0 (secantP1 k1 k2 x0) 2 h1 h2 h3 h4
  obtain ⟨a1, a2, a3, a4⟩ := hl
  have hun : ∀ d, secant f k1 k2 x0 tol maxiter d = finish d
      (secantLoop f tol maxiter.toNat 0 x0 (secantP1 k1 k2 x0) (f x0) (f (secantP1 k1 k2 x0)) 2) := by
    intro d; unfold secant; rw [if_neg (not_le.mpr htol), if_neg (by omega)]
  constructor
  · exact ⟨_, by rw [hun]; exact (finish_contract _).1, a1, a2, fun hf => by have := a3 hf; omega⟩
  · intro N disp hN hNm
    obtain ⟨c1, c2⟩ := a4 N hN (by omega)
    refine ⟨_, ?_, c1, by omega, a1, a2⟩
    rw [hun]
    cases disp with
    | false => exact (finish_contract _).1
    | true => exact (finish_contract _).2.2 c1

/-- non-vacuity: `x² − 4` is strictly increasing and convex (chord form) right of its root 2; from
    `x0 = 3` the second point is `3.0004`, both in `[2, 4]`, `p1 − 2 < 1001·(1/1000)`, and the model run
    converges inside `[2, 4]` -/
example : ConvexChord (fun x : Rat => x * x - 4) 2 :=
  ⟨by norm_num, fun x y hx hxy => by nlinarith, fun z a b hz hza hab => by nlinarith [mul_nonneg (sub_nonneg.mpr hza) (sub_pos.mpr hab).le, mul_nonneg (mul_nonneg (sub_nonneg.mpr hza) (sub_pos.mpr hab).le) (sub_nonneg.mpr (le_trans hza hab.le))]⟩
example : secantP1 (10001 / 10000 : Rat) (1 / 10000) 3 = 30004 / 10000 := by decide +kernel
example : (match secant (fun x : Rat => x * x - 4) (10001 / 10000) (1 / 10000) 3 (1 / 1000) 50 true with
    | .ok r => r.conv && decide (2 ≤ r.root) && decide (r.root ≤ 4) && decide (r.iters ≤ 1001) | _ => false) = true := by
  decide +kernel

/-! ## bisect -/

/-- parameter errors and the same-sign test: `ValueError` exactly when `xtol ≤ 0`, `maxiter < 1`
    or `f a · f b > 0`. -/
theorem bisect_valueError_iff (f : K → K) (a b xtol rtol : K) (maxiter : Int) (disp : Bool) :
    bisect f a b xtol rtol maxiter disp = .valueError ↔ (xtol ≤ 0 ∨ maxiter < 1 ∨ 0 < f a * f b) := by
  unfold bisect finish
  by_cases h1 : xtol ≤ 0
  · simp [h1]
  · by_cases h2 : maxiter < 1
    · simp [h2]
    · by_cases h3 : 0 < f a * f b
      · simp [h3]
      · simp only [h1, h2, h3, if_false, false_or, iff_false]
        split <;> split <;> simp

/-- an end point with `f = 0` is returned at once (`b` wins when both are zeros): 0 iterations,
    2 function calls, converged, also with `disp = true`. -/
theorem bisect_endpoint (f : K → K) (a b xtol rtol : K) (maxiter : Int) (disp : Bool)
    (hx : 0 < xtol) (hmi : 1 ≤ maxiter) (h0 : f a = 0 ∨ f b = 0) :
    bisect f a b xtol rtol maxiter disp = .ok ⟨if f b = 0 then b else a, 2, 0, true⟩ := by
  unfold bisect
  have hs : ¬ 0 < f a * f b := by rcases h0 with h | h <;> simp [h]
  rw [if_neg (not_le.mpr hx), if_neg (by omega)]
  simp only [hs, if_false]
  unfold bisectInterval finish
  by_cases hb : f b = 0
  · simp [hb]
  · have ha : f a = 0 := by rcases h0 with h | h; exact h; exact absurd h hb
    simp [hb, ha]

/-- **bisect, bracket contract.** Valid parameters, `f a ≠ 0`, `f b ≠ 0`, `f a · f b ≤ 0`, `f` arbitrary.
    With `disp = false` the call returns `ok r` and
    * `converged = True` ⇒ `f root = 0`, or `root` is the mid-point of a bracket
      `[root − d, root + d]` with a strict sign change and `|d| < xtol + rtol·|root|`; moreover
      `root` lies between `a` and `b`, `1 ≤ iterations ≤ maxiter`, `function_calls = iterations + 2`;
    * `converged = False` ⇒ all `maxiter` passes were used (`function_calls = maxiter + 2`) and the
      tuple is the code's literal `(0.0, …, maxiter − 1, False)`;
    * `disp = true` raises `RuntimeError` iff not converged, else returns the same `r`. -/
theorem bisect_bracket (f : K → K) (a b xtol rtol : K) (maxiter : Int)
    (hx : 0 < xtol) (hmi : 1 ≤ maxiter) (ha : f a ≠ 0) (hb : f b ≠ 0) (hs : f a * f b ≤ 0) :
    ∃ r, bisect f a b xtol rtol maxiter false = .ok r ∧
      (r.conv = true →
        (f r.root = 0 ∨ ∃ d, |d| < xtol + rtol * |r.root| ∧ f (r.root - d) * f (r.root + d) < 0) ∧
        (∃ t, 0 ≤ t ∧ t ≤ 1 ∧ r.root = a + t * (b - a)) ∧
        1 ≤ r.iters ∧ r.iters ≤ maxiter.toNat ∧ r.calls = r.iters + 2) ∧
      (r.conv = false → r.iters = maxiter.toNat - 1 ∧ r.root = 0 ∧ r.calls = maxiter.toNat + 2) ∧
      (r.conv = false → bisect f a b xtol rtol maxiter true = .runtimeError) ∧
      (r.conv = true → bisect f a b xtol rtol maxiter true = .ok r) := by
  have hlt : f a * f b < 0 := lt_of_le_of_ne hs (mul_ne_zero ha hb)
  have h := bisectLoop_spec f xtol rtol (f a) maxiter.toNat 0 a (b - a) 2
    (mul_self_pos.mpr ha) (by rw [add_sub_cancel, mul_comm]; exact hlt)
  simp only at h
  obtain ⟨A, B⟩ := h
  have hf := finish_contract (bisectLoop f xtol rtol (f a) maxiter.toNat 0 a (b - a) 2)
  have hun : ∀ disp, bisect f a b xtol rtol maxiter disp
      = finish disp (bisectLoop f xtol rtol (f a) maxiter.toNat 0 a (b - a) 2) := by
    intro disp
    unfold bisect
    rw [if_neg (not_le.mpr hx), if_neg (by omega)]
    simp only [not_lt.mpr hs, if_false]
    unfold bisectInterval
    simp [ha, hb]
  refine ⟨_, by rw [hun]; exact hf.1, ?_, ?_, ?_, ?_⟩
  · intro hc
    obtain ⟨a1, a2, a3, a4, a5⟩ := A hc
    exact ⟨a1, a2, by omega, by omega, by omega⟩
  · intro hc
    obtain ⟨b1, b2, b3⟩ := B hc
    exact ⟨by omega, b2, by omega⟩
  · intro hc; rw [hun]; exact hf.2.1 hc
  · intro hc; rw [hun]; exact hf.2.2 hc

/-- non-vacuity: `x² − 2` on `[0, 2]`, `xtol = 1/100`: converged after 8 passes at 181/128;
    three passes are not enough -/
example : (match bisect (fun x : Rat => x * x - 2) 0 2 (1 / 100) 0 100 true with
    | .ok r => r.conv && r.iters == 8 && r.calls == 10 && r.root == 181 / 128 | _ => false) = true := by
  decide +kernel
example : (match bisect (fun x : Rat => x * x - 2) 0 2 (1 / 100) 0 3 false with
    | .ok r => !r.conv && r.iters == 2 && r.calls == 5 && r.root == 0 | _ => false) = true := by
  decide +kernel
example : (match bisect (fun x : Rat => x * x + 2) 0 2 (1 / 100) 0 100 true with
    | .valueError => true | _ => false) = true := by decide +kernel

/-! ## bisect : termination and total correctness -/

/-- with valid parameters and a bracket without end-point zeros, `bisect` is the loop -/
theorem bisect_unfold (f : K → K) (a b xtol rtol : K) (maxiter : Int) (disp : Bool)
    (hx : 0 < xtol) (hmi : 1 ≤ maxiter) (ha : f a ≠ 0) (hb : f b ≠ 0) (hs : f a * f b ≤ 0) :
    bisect f a b xtol rtol maxiter disp
      = finish disp (bisectLoop f xtol rtol (f a) maxiter.toNat 0 a (b - a) 2) := by
  unfold bisect
  rw [if_neg (not_le.mpr hx), if_neg (by omega)]
  simp only [not_lt.mpr hs, if_false]
  unfold bisectInterval
  simp [ha, hb]

/-- **the iteration bound `bisectK` is the least number of halvings.** `bisectK a b xtol cap = some k`
    means `1 ≤ k ≤ cap`, `|b−a|/2^k < xtol` and no smaller `k ≥ 1` does. -/
theorem bisectK_spec (a b xtol : K) (cap k : Nat) (h : bisectK a b xtol cap = some k) :
    1 ≤ k ∧ k ≤ cap ∧ |(b - a) * (1 / 2) ^ k| < xtol ∧
    ∀ i, 1 ≤ i → i < k → ¬ |(b - a) * (1 / 2) ^ i| < xtol := by
  obtain ⟨j, j1, j2, j3, j4, j5⟩ := halvingsAux_some xtol cap (b - a) 0 k h
  have : k = j := by omega
  subst this
  exact ⟨j1, j2, j4, j5⟩

/-- **bisect terminates** (every `f`, `rtol ≥ 0`): if `k = bisectK a b xtol cap` halvings bring the
    width below `xtol` and `maxiter ≥ k`, the call returns — with `disp` either way —
    `converged = True` after at most `k` passes, and the returned point is an exact zero or the
    mid-point of a strict sign change of half-width `< xtol + rtol·|root|`. -/
theorem bisect_terminates (f : K → K) (a b xtol rtol : K) (maxiter : Int) (cap k : Nat)
    (hx : 0 < xtol) (hr : 0 ≤ rtol) (ha : f a ≠ 0) (hb : f b ≠ 0) (hs : f a * f b ≤ 0)
    (hk : bisectK a b xtol cap = some k) (hkm : (k : Int) ≤ maxiter) :
    ∃ r, (∀ disp, bisect f a b xtol rtol maxiter disp = .ok r) ∧ r.conv = true ∧
      1 ≤ r.iters ∧ r.iters ≤ k ∧ r.calls = r.iters + 2 ∧
      (f r.root = 0 ∨ ∃ d, |d| < xtol + rtol * |r.root| ∧ f (r.root - d) * f (r.root + d) < 0) := by
  obtain ⟨k1, _, kw, _⟩ := bisectK_spec a b xtol cap k hk
  have hmi : 1 ≤ maxiter := by omega
  have hterm := bisectLoop_terminates f xtol rtol (f a) hr k maxiter.toNat 0 a (b - a) 2 k1 (by omega) kw
  obtain ⟨r, hr0, hconv, _, _, htrue⟩ := bisect_bracket f a b xtol rtol maxiter hx hmi ha hb hs
  have hun := bisect_unfold f a b xtol rtol maxiter false hx hmi ha hb hs
  rw [hun, (finish_contract _).1] at hr0
  have hrl : bisectLoop f xtol rtol (f a) maxiter.toNat 0 a (b - a) 2 = r := by
    injection hr0
  rw [hrl] at hterm
  obtain ⟨c1, _, c3, _, c5⟩ := hconv hterm.1
  refine ⟨r, fun disp => ?_, hterm.1, c3, by have := hterm.2; omega, c5, c1⟩
  cases disp with
  | false => rw [hun, hrl]; exact (finish_contract r).1
  | true => exact htrue hterm.1

/-- **bisect, total correctness** over an Archimedean ordered field: for EVERY `f` (no continuity)
    with `f a · f b ≤ 0`, every `xtol > 0` and `rtol ≥ 0` there is a bound `K0 ≥ 1` — the least number of
    halvings with `|b−a|/2^K0 < xtol`, computed by `bisectK` for every cap `≥ K0` — such that every
    call with `maxiter ≥ K0` returns (no exception, `disp` either way) `converged = True` after at
    most `K0` passes at a point that is an exact zero of `f` or within `xtol + rtol·|root|` of a
    strict sign change. -/
theorem bisect_total_correct [Archimedean K] (f : K → K) (a b xtol rtol : K)
    (hx : 0 < xtol) (hr : 0 ≤ rtol) (hs : f a * f b ≤ 0) :
    ∃ K0 : Nat, 1 ≤ K0 ∧ (∀ cap, K0 ≤ cap → bisectK a b xtol cap = some K0) ∧
      ∀ (maxiter : Int) (disp : Bool), (K0 : Int) ≤ maxiter →
        ∃ r, bisect f a b xtol rtol maxiter disp = .ok r ∧ r.conv = true ∧ r.iters ≤ K0 ∧
          (f r.root = 0 ∨ ∃ d, |d| < xtol + rtol * |r.root| ∧ f (r.root - d) * f (r.root + d) < 0) := by
  obtain ⟨j, j1, jw⟩ := exists_halvings (b - a) xtol hx
  obtain ⟨k, hk, _⟩ := halvingsAux_complete xtol j (b - a) 0 j j1 (le_refl _) jw
  have hspec := bisectK_spec a b xtol j k hk
  obtain ⟨k1, _, kw, kleast⟩ := hspec
  have hcap : ∀ cap, k ≤ cap → bisectK a b xtol cap = some k := by
    intro cap hc
    obtain ⟨r2, h2, h2le⟩ := halvingsAux_complete xtol cap (b - a) 0 k k1 hc kw
    have s2 := bisectK_spec a b xtol cap r2 h2
    have : r2 = k := by
      by_contra hne
      have hlt : r2 < k := by omega
      exact kleast r2 s2.1 hlt s2.2.2.1
    unfold bisectK; rw [h2, this]
  refine ⟨k, k1, hcap, fun maxiter disp hm => ?_⟩
  have hmi : 1 ≤ maxiter := by omega
  by_cases h0 : f a = 0 ∨ f b = 0
  · refine ⟨_, bisect_endpoint f a b xtol rtol maxiter disp hx hmi h0, rfl, by simp, Or.inl ?_⟩
    simp only
    by_cases hb : f b = 0
    · rw [if_pos hb]; exact hb
    · rw [if_neg hb]; rcases h0 with h | h
      · exact h
      · exact absurd h hb
  · rw [not_or] at h0
    obtain ⟨r, hall, hc, _, hi, _, hroot⟩ :=
      bisect_terminates f a b xtol rtol maxiter k k hx hr h0.1 h0.2 hs (hcap k (le_refl _)) hm
    exact ⟨r, hall disp, hc, hi, hroot⟩

/-- non-vacuity: `[0, 2]`, `xtol = 1/100`: 8 halvings (2/2^8 = 1/128 < 1/100 ≤ 2/2^7), the bound is
    attained by `x² − 2`, and 7 passes are not enough -/
example : bisectK (0 : Rat) 2 (1 / 100) 100 = some 8 := by decide +kernel
example : (match bisect (fun x : Rat => x * x - 2) 0 2 (1 / 100) 0 8 true with
    | .ok r => r.conv && r.iters == 8 | _ => false) = true := by decide +kernel
example : (match bisect (fun x : Rat => x * x - 2) 0 2 (1 / 100) 0 7 false with
    | .ok r => !r.conv | _ => false) = true := by decide +kernel

/-! ## brentq -/

theorem brentq_valueError_iff (f : K → K) (a b xtol rtol : K) (maxiter : Int) (disp : Bool) :
    brentq f a b xtol rtol maxiter disp = .valueError ↔ (xtol ≤ 0 ∨ maxiter < 1 ∨ 0 < f a * f b) := by
  unfold brentq finish
  by_cases h1 : xtol ≤ 0
  · simp [h1]
  · by_cases h2 : maxiter < 1
    · simp [h2]
    · by_cases h3 : 0 < f a * f b
      · simp [h3]
      · simp only [h1, h2, h3, if_false, false_or, iff_false]
        split <;> split <;> simp

theorem brentq_endpoint (f : K → K) (a b xtol rtol : K) (maxiter : Int) (disp : Bool)
    (hx : 0 < xtol) (hmi : 1 ≤ maxiter) (h0 : f a = 0 ∨ f b = 0) :
    brentq f a b xtol rtol maxiter disp = .ok ⟨if f b = 0 then b else a, 2, 0, true⟩ := by
  unfold brentq
  have hs : ¬ 0 < f a * f b := by rcases h0 with h | h <;> simp [h]
  rw [if_neg (not_le.mpr hx), if_neg (by omega)]
  simp only [hs, if_false]
  unfold bisectInterval finish
  by_cases hb : f b = 0
  · simp [hb]
  · have ha : f a = 0 := by rcases h0 with h | h; exact h; exact absurd h hb
    simp [hb, ha]

/-- **brentq, bracket contract.** Valid parameters, `f a ≠ 0`, `f b ≠ 0`, `f a · f b ≤ 0`, `f` arbitrary
    (the invariant behind it — `[xcur, xblk]` always brackets a sign change and the stored values
    are values of `f` — holds whatever interpolation step is chosen, see `brentqLoop_spec`).
    With `disp = false` the call returns `ok r` and
    * `converged = True` ⇒ `f root = 0`, or there is a point `y` with `f y · f root < 0`,
      `|f root| ≤ |f y|` and `|y − root| < xtol + rtol·|root|`;
      `1 ≤ iterations ≤ maxiter` and `function_calls = iterations + 1`
      (the convergence test sits at the top of the pass, so `iterations` counts one more than
      the evaluations made inside the loop);
    * `converged = False` ⇒ all passes were used: `(0.0, maxiter + 2, maxiter − 1, False)`;
    * `disp = true` raises `RuntimeError` iff not converged, else returns the same `r`. -/
theorem brentq_bracket (f : K → K) (a b xtol rtol : K) (maxiter : Int)
    (hx : 0 < xtol) (hmi : 1 ≤ maxiter) (ha : f a ≠ 0) (hb : f b ≠ 0) (hs : f a * f b ≤ 0) :
    ∃ r, brentq f a b xtol rtol maxiter false = .ok r ∧
      (r.conv = true →
        (f r.root = 0 ∨
          ∃ y, f y * f r.root < 0 ∧ |f r.root| ≤ |f y| ∧ |y - r.root| < xtol + rtol * |r.root|) ∧
        1 ≤ r.iters ∧ r.iters ≤ maxiter.toNat ∧ r.calls = r.iters + 1) ∧
      (r.conv = false → r.iters = maxiter.toNat - 1 ∧ r.root = 0 ∧ r.calls = maxiter.toNat + 2) ∧
      (r.conv = false → brentq f a b xtol rtol maxiter true = .runtimeError) ∧
      (r.conv = true → brentq f a b xtol rtol maxiter true = .ok r) := by
  have hlt : f a * f b < 0 := lt_of_le_of_ne hs (mul_ne_zero ha hb)
  have hinv : BQInv f (⟨a, b, 0, f a, f b, 0, 0, 0⟩ : BQ K) := ⟨rfl, rfl, Or.inl hlt⟩
  have h := brentqLoop_spec f xtol rtol maxiter.toNat 0 _ 2 hinv
  simp only at h
  obtain ⟨A, B⟩ := h
  have hf := finish_contract (brentqLoop f xtol rtol maxiter.toNat 0 ⟨a, b, 0, f a, f b, 0, 0, 0⟩ 2)
  have hun : ∀ disp, brentq f a b xtol rtol maxiter disp
      = finish disp (brentqLoop f xtol rtol maxiter.toNat 0 ⟨a, b, 0, f a, f b, 0, 0, 0⟩ 2) := by
    intro disp
    unfold brentq
    rw [if_neg (not_le.mpr hx), if_neg (by omega)]
    simp only [not_lt.mpr hs, if_false]
    unfold bisectInterval
    simp [ha, hb]
  refine ⟨_, by rw [hun]; exact hf.1, ?_, ?_, ?_, ?_⟩
  · intro hc
    obtain ⟨a1, a3, a4, a5⟩ := A hc
    exact ⟨a1, by omega, by omega, by omega⟩
  · intro hc
    obtain ⟨b1, b2, b3⟩ := B hc
    exact ⟨by omega, b2, by omega⟩
  · intro hc; rw [hun]; exact hf.2.1 hc
  · intro hc; rw [hun]; exact hf.2.2 hc

/-- **brentq, progress of one pass** (what the step-acceptance rule of the code guarantees; Brent's
    iteration bound itself is NOT proved). In a pass that does not exit, with
    `delta = (xtol + rtol·|xcur|)/2 > 0` and `sbis = (xblk − xcur)/2`, the next evaluation point
    `xnew` (accepted interpolation / extrapolation step, bisection step or minimal step `±delta`)
    satisfies `delta ≤ |xnew − xcur| ≤ 3/4·|xblk − xcur|`: two successive evaluation points are never
    closer than `delta`, and never further apart than three quarters of the current bracket. -/
theorem brentq_step_bounds (s : BQ K) (delta : K) (hd : 0 < delta)
    (hne : ¬ |(s.xblk - s.xcur) / 2| < delta) :
    delta ≤ |bqNext s.xcur (bqTry s delta ((s.xblk - s.xcur) / two)).2 delta ((s.xblk - s.xcur) / two) - s.xcur| ∧
    |bqNext s.xcur (bqTry s delta ((s.xblk - s.xcur) / two)).2 delta ((s.xblk - s.xcur) / two) - s.xcur|
      ≤ 3 / 4 * |s.xblk - s.xcur| :=
  bqStep_bounds s delta hd hne

example : (match brentq (fun x : Rat => x * x - 2) 0 2 (1 / 100) 0 100 true with
    | .ok r => r.conv && r.iters == 5 && r.calls == 6 && r.root == 5939 / 4200 | _ => false) = true := by
  decide +kernel
example : (match brentq (fun x : Rat => x * x - 2) 0 2 (1 / 100) 0 2 false with
    | .ok r => !r.conv && r.iters == 1 && r.calls == 4 && r.root == 0 | _ => false) = true := by
  decide +kernel

/-! ## brent_max -/

/-- `brent_max` raises (`none`) exactly when `a < b` fails. -/
theorem brentMax_none_iff (f : K → K) (sqrtEps gm xtol a b : K) (maxiter : Int) :
    brentMax f sqrtEps gm xtol a b maxiter = none ↔ ¬ a < b := by
  unfold brentMax
  split <;> simp_all

/-- **brent_max, argument checks** (the entry point with `np.isfinite` as the parameter `fin`):
    `ValueError` exactly when `a` is not finite, `b` is not finite, or `a < b` fails; otherwise the call is
    the checked routine `brentMax`. -/
theorem brentMaxEntry_none_iff (fin : K → Bool) (f : K → K) (sqrtEps gm xtol a b : K) (maxiter : Int) :
    (brentMaxEntry fin f sqrtEps gm xtol a b maxiter = none ↔ (fin a = false ∨ fin b = false ∨ ¬ a < b)) ∧
    (fin a = true → fin b = true →
      brentMaxEntry fin f sqrtEps gm xtol a b maxiter = brentMax f sqrtEps gm xtol a b maxiter) := by
  unfold brentMaxEntry
  constructor
  · cases ha : fin a <;> cases hb : fin b <;> simp [brentMax_none_iff]
  · intro ha hb; simp [ha, hb]

example : brentMaxEntry (fun _ : Rat => true) (fun x => -((x - 1) * (x - 1))) (1 / 67108864) (3 / 8) (1 / 1000) 2 1 500 = none := by
  decide +kernel
example : (brentMaxEntry (fun x : Rat => decide (x < 1000)) (fun x => -((x - 1) * (x - 1))) (1 / 67108864) (3 / 8) (1 / 1000) 0 1000 500).isNone
    = true := by decide +kernel

/-- **brent_max on a strictly unimodal function** (mode `m ∈ [a, b]`, `xtol > 0`, `√ε ≥ 0`; the
    golden-section constant is arbitrary). The call returns `(xf, fval, status_flag, num)` with
    * `fval = f xf` (the reported value is the function value at the reported point);
    * `status_flag = 0` ⇒ `|xf − m| ≤ tol2 = 2·(√ε·|xf| + xtol/3)`: the returned point is within
      `tol2` of the maximiser (this is what the loop test delivers; it is `≤ xtol` only when
      `√ε·|xf| ≤ xtol/6`, so "within xtol" in the property is read as "within tol2");
    * `status_flag ∈ {0, 1}`, and `status_flag = 1` ⇒ `num ≥ maxiter` (for `maxiter ≥ 2`);
    * `1 ≤ num ≤ max maxiter 2`. -/
theorem brentMax_unimodal (f : K → K) (sqrtEps gm xtol a b m : K) (maxiter : Int)
    (hu : Unimodal f m) (hse : 0 ≤ sqrtEps) (hx : 0 < xtol) (hab : a < b) (ham : a ≤ m) (hmb : m ≤ b) :
    ∃ xf fval flag num, brentMax f sqrtEps gm xtol a b maxiter = some (xf, fval, flag, num) ∧
      fval = f xf ∧
      (flag = 0 → |xf - m| ≤ 2 * (sqrtEps * |xf| + xtol / 3)) ∧
      (flag = 0 ∨ flag = 1) ∧
      (flag = 1 → 2 ≤ maxiter → maxiter ≤ (num : Int)) ∧
      1 ≤ num ∧ (num : Int) ≤ max maxiter 2 := by
  have hinit : BMInv f sqrtEps xtol m (bmInit f sqrtEps gm xtol a b) :=
    ⟨rfl, ham, hmb, by simp [bmInit, absv_eq_abs, three_eq], by simp [bmInit, two_eq], by simp [bmInit, half_eq]⟩
  have h := bmLoop_spec f sqrtEps gm xtol m maxiter hu hse hx (max (maxiter - 1).toNat 1) _ hinit
  simp only at h
  obtain ⟨hinv, h0, h01, h1, hlo, hhi, hmx⟩ := h
  have hn1 : (bmInit f sqrtEps gm xtol a b).num = 1 := rfl
  refine ⟨_, _, _, _, by unfold brentMax; rw [if_pos hab], ?_, ?_, h01, ?_, by omega, ?_⟩
  · rw [hinv.hfx]; ring
  · intro hf
    have hb := h0 hf
    rw [hinv.htol2, hinv.htol1, hinv.hxm] at hb
    have h1' := (abs_le.mp hb).1
    have h2' := (abs_le.mp hb).2
    have := hinv.ham
    have := hinv.hmb
    rw [abs_le]
    constructor <;> linarith
  · intro hf h2
    rcases h1 hf with h | h
    · exact h
    · rw [h, hn1]
      have : max (maxiter - 1).toNat 1 = (maxiter - 1).toNat := max_eq_left (by omega)
      rw [this]; omega
  · by_cases he : (bmLoop f sqrtEps gm xtol maxiter (max (maxiter - 1).toNat 1) (bmInit f sqrtEps gm xtol a b)).1.num
        = (bmInit f sqrtEps gm xtol a b).num
    · rw [he, hn1]; exact le_trans (by norm_num) (le_max_right _ _)
    · have := hmx he
      rw [hn1] at this
      simpa using this

/-- `fx = −f xf` is kept by the loop for every `f` -/
theorem bmLoop_fx (f : K → K) (sqrtEps gm xtol : K) (maxfun : Int) :
    ∀ (fuel : Nat) (s : BM K), s.fx = -f s.xf →
      (bmLoop f sqrtEps gm xtol maxfun fuel s).1.fx = -f (bmLoop f sqrtEps gm xtol maxfun fuel s).1.xf := by
  intro fuel
  induction fuel with
  | zero => intro s h; exact h
  | succ fuel ih =>
    intro s h
    unfold bmLoop
    split
    · simp only
      have hu : (bmUpdate sqrtEps xtol s (bmChoose gm s).1 (bmChoose gm s).2 (bmPoint s (bmChoose gm s).1)
          (-f (bmPoint s (bmChoose gm s).1))).fx
          = -f (bmUpdate sqrtEps xtol s (bmChoose gm s).1 (bmChoose gm s).2 (bmPoint s (bmChoose gm s).1)
          (-f (bmPoint s (bmChoose gm s).1))).xf := by
        rw [bmUpdate_fx, bmUpdate_xf]; split <;> simp [h]
      split
      · exact hu
      · exact ih _ hu
    · exact h

/-- **brent_max, for EVERY objective `f`** (`a < b`, `xtol > 0`, `√ε ≥ 0`, golden-section constant
    in `(0,1)`): the call returns `(xf, fval, status_flag, num)` with
    * `a < xf < b` and `fval = f xf`;
    * `f` is only ever evaluated strictly inside `(a, b)`: any `g` that agrees with `f` on the open
      interval produces the identical result (in particular the end points are never evaluated);
    * `status_flag ∈ {0,1}`; `status_flag = 1` ⇒ `num = max maxiter 2` exactly (the cap is hit the
      first time `num ≥ maxiter`, and one pass is always made before the cap is looked at);
      `status_flag = 0` ⇒ `num = 1` (no pass) or `num < maxiter`. In all cases `1 ≤ num ≤ max maxiter 2`. -/
theorem brentMax_box (f g : K → K) (sqrtEps gm xtol a b : K) (maxiter : Int)
    (hse : 0 ≤ sqrtEps) (hx : 0 < xtol) (hg0 : 0 < gm) (hg1 : gm < 1) (hab : a < b)
    (hfg : ∀ y, a < y → y < b → f y = g y) :
    ∃ xf fval flag num, brentMax f sqrtEps gm xtol a b maxiter = some (xf, fval, flag, num) ∧
      brentMax g sqrtEps gm xtol a b maxiter = some (xf, fval, flag, num) ∧
      a < xf ∧ xf < b ∧ fval = f xf ∧
      (flag = 0 ∨ flag = 1) ∧
      (flag = 1 → (num : Int) = max maxiter 2) ∧
      (flag = 0 → num = 1 ∨ (num : Int) < maxiter) ∧
      1 ≤ num ∧ (num : Int) ≤ max maxiter 2 := by
  have hbox := bmInit_box f sqrtEps gm xtol a b hab hg0 hg1
  have hn1 : (bmInit f sqrtEps gm xtol a b).num = 1 := rfl
  have hinit : bmInit g sqrtEps gm xtol a b = bmInit f sqrtEps gm xtol a b := by
    have := hfg (a + gm * (b - a)) hbox.haxf hbox.hxfb
    unfold bmInit
    simp only [this]
  have h := bmLoop_box f g sqrtEps gm xtol a b maxiter hse hx hg0 hg1 hfg
    (max (maxiter - 1).toNat 1) _ hbox (by rw [hn1]) (Or.inl hn1) (by rw [hn1]; omega)
  simp only at h
  obtain ⟨heq, hb2, h01, h1, h0, hle⟩ := h
  have hfx := bmLoop_fx f sqrtEps gm xtol maxiter (max (maxiter - 1).toNat 1) _
    (show (bmInit f sqrtEps gm xtol a b).fx = -f (bmInit f sqrtEps gm xtol a b).xf from rfl)
  rw [hn1] at hle
  refine ⟨_, _, _, _, by unfold brentMax; rw [if_pos hab], ?_, ?_, ?_, ?_, h01, h1, fun h => (h0 h).1, hle, ?_⟩
  · unfold brentMax; rw [if_pos hab, hinit, heq]
  · exact lt_of_le_of_lt hb2.ha0 hb2.haxf
  · exact lt_of_lt_of_le hb2.hxfb hb2.hb0
  · rw [hfx]; ring
  · rcases h01 with hz | ho
    · rcases (h0 hz).1 with h | h
      · rw [h]; exact le_trans (by norm_num) (le_max_right _ _)
      · exact le_trans h.le (le_max_left _ _)
    · exact (h1 ho).le

/-- non-vacuity on a NON-unimodal objective: `x³ − 3x` on `[−3, 3]` (local max at −1, global max at
    the right end) — the model stays inside and stops normally -/
example : (match brentMax (fun x : Rat => x * x * x - 3 * x) (1 / 67108864) (3 / 8) (1 / 100) (-3) 3 500 with
    | some (xf, fval, flag, num) => decide (-3 < xf) && decide (xf < 3) && flag == 0 && decide (num < 500)
        && fval == xf * xf * xf - 3 * xf
    | none => false) = true := by decide +kernel

/-- non-vacuity: `−(x−1)²` is strictly unimodal with mode 1, and the model run on `[-2, 3]`
    (with rational stand-ins 1/67108864 for √ε and 3/8 for the golden-section constant) ends
    normally within `tol2` of 1 -/
example : Unimodal (fun x : Rat => -((x - 1) * (x - 1))) 1 := by
  constructor
  · intro u v h1 h2; nlinarith
  · intro u v h1 h2; nlinarith
example : (match brentMax (fun x : Rat => -((x - 1) * (x - 1))) (1 / 67108864) (3 / 8) (1 / 1000) (-2) 3 500 with
    | some (xf, _, flag, num) => flag == 0 && decide (absv (xf - 1) ≤ 1 / 1000) && num == 6
    | none => false) = true := by decide +kernel

end

/-! ## nelder_mead : bookkeeping (any scalar type, any objective, any bounds) -/

section nm
variable {α : Type} [Zero α] [One α] [Add α] [Sub α] [Mul α] [Div α] [Neg α]
  [LT α] [LE α] [DecidableLT α] [DecidableLE α] [BEq α]

/-- **nelder_mead, bookkeeping contract.** Whatever the objective, bounds, tolerances and
    iteration cap: the result is read off a final state `s` whose `f_val` array holds
    `_neg_bounded_fun` of every current vertex (`-f(v)` inside the bounds, `+inf` outside), whose
    simplex still has `n+1` rows and whose `sort_ind` still has `n+1` entries, all of them valid row
    numbers; the returned `x` is row `b = sort_ind[0] < n+1` of the returned `final_simplex`, and the
    returned `fun` is `-f_val[b] = -_neg_bounded_fun(x)` — the function value at `x` when `x` is
    inside the bounds. (That `sort_ind` is moreover a permutation sorting `f_val` needs an ordered
    field: `nm_sort_ind_sorting_permutation` below.) -/
theorem nelderMead_bookkeeping (f : List α → α) (P : NMP α) (k105 zdelt : α)
    (bounds : List (α × α)) (x0 : List α) (maxIter : Nat) :
    ∃ (s : NM α) (b : Nat) (fail : Bool),
      nelderMead f P k105 zdelt bounds x0 maxIter
        = (s.verts.getD b [], -(s.fval.getD b 0), !fail, s.nit, s.verts) ∧
      s.fval = s.verts.map (negF f P.pinf bounds) ∧
      s.verts.length = x0.length + 1 ∧
      s.sind.length = x0.length + 1 ∧ (∀ j ∈ s.sind, j < x0.length + 1) ∧
      b = s.sind.getD 0 0 ∧ b < x0.length + 1 ∧
      s.fval.getD b 0 = negF f P.pinf bounds (s.verts.getD b []) := by
  have h := nmLoop_gen f P bounds (initSimplex k105 zdelt x0).length maxIter
    (by rw [initSimplex_length]; omega) (maxIter + 1) _
    (nmInit_ok f P bounds (initSimplex k105 zdelt x0)) (nmInit_sind f P bounds (initSimplex k105 zdelt x0))
  rw [initSimplex_length] at h
  have hb := h.2.head_lt (by simp)
  refine ⟨_, _, _, rfl, h.1.1, h.1.2, h.2.1, h.2.2, rfl, hb, ?_⟩
  rw [h.1.1]
  exact getD_map_of_lt _ _ _ _ _ (by rw [h.1.2]; exact hb)

/-- **nelder_mead, status contract** (any scalar type, objective, bounds, tolerances, `max_iter`).
    The result is read off the state `s` at which the loop stopped, and
    * `nit = s.nit ≤ max_iter` (one count per pass);
    * `success = True ⇔ nit < max_iter`; in particular `success = False ⇒ nit = max_iter`
      (a run that meets a tolerance exactly in pass `max_iter` is still reported as a failure);
    * `success = True ⇒` one of the two stopping criteria holds at `s`: `LV_ratio < tol_x`, or
      `f_val[sort_ind[n]] − f_val[sort_ind[0]] < tol_f` (by `nm_sort_ind_sorting_permutation` these are the
      true worst and best rows over an ordered field). -/
theorem nelderMead_status (f : List α → α) (P : NMP α) (k105 zdelt : α)
    (bounds : List (α × α)) (x0 : List α) (maxIter : Nat) :
    ∃ (s : NM α) (ok : Bool),
      nelderMead f P k105 zdelt bounds x0 maxIter
        = (s.verts.getD (s.sind.getD 0 0) [], -(s.fval.getD (s.sind.getD 0 0) 0), ok, s.nit, s.verts) ∧
      s.nit ≤ maxIter ∧
      (ok = true ↔ s.nit < maxIter) ∧
      (ok = false → s.nit = maxIter) ∧
      (ok = true → s.lv < P.tolx ∨
        s.fval.getD (s.sind.getD (s.verts.length - 1) 0) 0 - s.fval.getD (s.sind.getD 0 0) 0 < P.tolf) := by
  have h := nmLoop_status f P bounds maxIter (maxIter + 1) (nmInit f P bounds (initSimplex k105 zdelt x0))
    (Nat.zero_le _) (by show maxIter < 0 + (maxIter + 1); omega)
  obtain ⟨hstop, hle, _, hfail⟩ := h
  generalize hr : nmLoop f P bounds maxIter (maxIter + 1) (nmInit f P bounds (initSimplex k105 zdelt x0)) = r
    at hstop hle hfail
  have hok : (!r.2) = true ↔ r.1.nit < maxIter := by
    rw [hfail]; simp
  refine ⟨r.1, !r.2, by unfold nelderMead; simp only [hr], hle, hok, ?_, ?_⟩
  · intro hf
    have : ¬ r.1.nit < maxIter := by
      intro hlt; have := hok.mpr hlt; rw [hf] at this; exact Bool.false_ne_true this
    omega
  · intro ht
    have hlt := hok.mp ht
    unfold nmStop at hstop
    simp only [Bool.or_eq_true, decide_eq_true_eq] at hstop
    rcases hstop with (h | h) | h
    · exact Or.inl h
    · exact Or.inr h
    · omega

/-- non-vacuity: a run that stops on `tol_f` with `success` (8 < 1000 passes), and the same run capped at
    8 passes, which meets the tolerance in its last pass and is reported as a failure -/
example : (match nelderMead (quadObj [[(49 / 16 : Rat)]] [9 / 4] (-1 / 2))
      ⟨1, 2, 1 / 2, 1 / 2, 1 / 10000000000, 1 / 10000000000, 1000000⟩ (21 / 20) (1 / 4000) [] [5 / 8] 1000 with
    | (_, _, ok, nit, _) => ok && nit == 8) = true := by decide +kernel
example : (match nelderMead (quadObj [[(49 / 16 : Rat)]] [9 / 4] (-1 / 2))
      ⟨1, 2, 1 / 2, 1 / 2, 1 / 10000000000, 1 / 10000000000, 1000000⟩ (21 / 20) (1 / 4000) [] [5 / 8] 8 with
    | (_, _, ok, nit, _) => !ok && nit == 8) = true := by decide +kernel

/-- non-vacuity / the reported finding as a model run: on `f(x) = −1/2 − (49/16)(x − 9/4)²` from
    `x0 = 5/8` the exact-arithmetic model stops with `success` after 8 passes at `71/32 = 2.21875`,
    the two vertices being symmetric about the maximiser `9/4` -/
example : (match nelderMead (quadObj [[(49 / 16 : Rat)]] [9 / 4] (-1 / 2))
      ⟨1, 2, 1 / 2, 1 / 2, 1 / 10000000000, 1 / 10000000000, 1000000⟩ (21 / 20) (1 / 4000) [] [5 / 8] 1000 with
    | (x, _, ok, nit, verts) => ok && nit == 8 && x == [71 / 32] && verts == [[71 / 32], [73 / 32]]) = true := by
  decide +kernel

end nm

/-! ## nelder_mead : the reported value never gets worse; bounds -/

section nmfield
variable {K : Type} [Field K] [LinearOrder K] [IsStrictOrderedRing K]

/-- **nelder_mead, monotonicity.** For every objective `f`, bounds and `tol_f > 0`
    (`+inf` is any scalar `pinf`): along the run `f_val[sort_ind[0]]` never increases
    (`nmLoop_inv`), and `argsort` starts it at the minimum; hence the returned
    `fun = −_neg_bounded_fun(x)` is at least `−_neg_bounded_fun(v)` for EVERY vertex `v` of the
    initial simplex: the result is never below the best initial vertex. -/
theorem nelderMead_not_below_initial (f : List K → K) (P : NMP K) (k105 zdelt : K)
    (bounds : List (K × K)) (x0 : List K) (maxIter : Nat) (htol : 0 < P.tolf) :
    ∃ x fv ok nit verts, nelderMead f P k105 zdelt bounds x0 maxIter = (x, fv, ok, nit, verts) ∧
      fv = -(negF f P.pinf bounds x) ∧
      ∀ i, i < x0.length + 1 →
        -(negF f P.pinf bounds ((initSimplex k105 zdelt x0).getD i [])) ≤ fv := by
  have hl := initSimplex_length k105 zdelt x0
  have h := nmLoop_inv f P bounds (initSimplex k105 zdelt x0).length maxIter
    (by rw [initSimplex_length]; omega) htol (maxIter + 1) _
    (nmInit_ok f P bounds (initSimplex k105 zdelt x0)) (nmInit_sind f P bounds (initSimplex k105 zdelt x0))
    (nmInit_sortedPerm f P bounds (initSimplex k105 zdelt x0))
  rw [hl] at h
  obtain ⟨hok, hsi, _, hbest⟩ := h
  have hb := hsi.head_lt (by simp)
  refine ⟨_, _, _, _, _, rfl, ?_, ?_⟩
  · rw [hok.1]
    rw [getD_map_of_lt _ _ _ _ [] (by rw [hok.2]; exact hb)]
  · intro i hi
    have h0 : bestVal (nmInit f P bounds (initSimplex k105 zdelt x0))
        ≤ negF f P.pinf bounds ((initSimplex k105 zdelt x0).getD i []) := by
      unfold bestVal nmInit
      simp only
      have := argsort_head_min ((initSimplex k105 zdelt x0).map (negF f P.pinf bounds)) i (by simp [hl, hi])
      rw [getD_map_of_lt _ _ i _ [] (by rw [hl]; exact hi)] at this
      exact this
    have := le_trans hbest h0
    unfold bestVal at this
    exact neg_le_neg this

/-- **nelder_mead, bounds.** If some vertex `v` of the initial simplex is inside the bounds (and its
    value is below the penalty, `−f v < pinf`), the returned `x` is inside the bounds, the
    returned `fun` is exactly `f x`, and `f x ≥ f v`. -/
theorem nelderMead_feasible (f : List K → K) (P : NMP K) (k105 zdelt : K)
    (bounds : List (K × K)) (x0 : List K) (maxIter : Nat) (htol : 0 < P.tolf)
    (i : Nat) (hi : i < x0.length + 1)
    (hin : inBounds bounds ((initSimplex k105 zdelt x0).getD i []) = true)
    (hpen : -(f ((initSimplex k105 zdelt x0).getD i [])) < P.pinf) :
    ∃ x fv ok nit verts, nelderMead f P k105 zdelt bounds x0 maxIter = (x, fv, ok, nit, verts) ∧
      inBounds bounds x = true ∧ fv = f x ∧ f ((initSimplex k105 zdelt x0).getD i []) ≤ f x := by
  obtain ⟨x, fv, ok, nit, verts, he, hfv, hall⟩ :=
    nelderMead_not_below_initial f P k105 zdelt bounds x0 maxIter htol
  have h1 := hall i hi
  have hvi : negF f P.pinf bounds ((initSimplex k105 zdelt x0).getD i [])
      = -(f ((initSimplex k105 zdelt x0).getD i [])) := by unfold negF; rw [if_pos hin]
  rw [hvi, hfv] at h1
  have hx : inBounds bounds x = true := by
    by_contra hc
    have : negF f P.pinf bounds x = P.pinf := by unfold negF; rw [if_neg hc]
    rw [this] at h1
    linarith
  have hnx : negF f P.pinf bounds x = -(f x) := by unfold negF; rw [if_pos hx]
  refine ⟨x, fv, ok, nit, verts, he, hx, by rw [hfv, hnx, neg_neg], ?_⟩
  rw [hnx] at h1
  linarith

/-- **per pass: the reported best value never gets worse.** In any state in which `f_val` is
    consistent with the vertices, `sort_ind` lists `n+1` valid rows, and the loop test let the pass
    run (`tol_f > 0`, so the worst and best slots hold different rows), one pass — reflection,
    expansion, contraction or shrink — does not increase `f_val[sort_ind[0]]` (the negated
    objective). -/
theorem nm_best_never_worse (f : List K → K) (P : NMP K) (bounds : List (K × K)) (s : NM K)
    (hcons : s.fval = s.verts.map (negF f P.pinf bounds)) (htol : 0 < P.tolf)
    (h1 : 1 ≤ s.verts.length) (hlen : s.sind.length = s.verts.length)
    (hrows : ∀ j ∈ s.sind, j < s.verts.length)
    (hrun : ¬ (s.fval.getD (s.sind.getD (s.verts.length - 1) 0) 0 - s.fval.getD (s.sind.getD 0 0) 0 < P.tolf)) :
    bestVal (nmIter f P bounds s) ≤ bestVal s := by
  refine nmIter_best f P bounds s.verts.length s hcons h1 ⟨hlen, hrows⟩ ?_
  intro heq
  apply hrun
  rw [heq, sub_self]; exact htol

/-- **`sort_ind` is a permutation of `0..n` that sorts `f_val`, after every pass of every branch**
    (the invariant the pre-repair shrink rule violated, see `sort_ind_not_a_permutation_old_rule`).
    * the initial `argsort` is duplicate-free and sorts `f_val`;
    * one pass (`nmIter`: reflection / expansion / contraction via the insertion rule, or shrink via the
      stable re-sort of the vertex indices) maps a state with `n+1` valid, duplicate-free rows
      sorting `f_val` to another such state;
    * hence for the state `s` at which `nelder_mead` stops: `sort_ind` is a permutation of
      `0..n`, sorted by `f_val`, so `f_val[sort_ind[0]] ≤ f_val[i] ≤ f_val[sort_ind[n]]` for every row
      `i` — the termination test compares the true best and the true worst row, and the returned
      `fun = −f_val[sort_ind[0]]` is the best value over ALL rows of `final_simplex`. -/
theorem nm_sort_ind_sorting_permutation (f : List K → K) (P : NMP K) (k105 zdelt : K)
    (bounds : List (K × K)) (x0 : List K) (maxIter : Nat) :
    (∀ (N : Nat) (s : NM K), s.verts.length = N → 1 ≤ N → s.sind.length = N → (∀ j ∈ s.sind, j < N) →
      s.sind.Nodup → List.Pairwise (fun a b => s.fval.getD a 0 ≤ s.fval.getD b 0) s.sind →
      (nmIter f P bounds s).sind.Nodup ∧ (nmIter f P bounds s).sind.length = N ∧
      (∀ j ∈ (nmIter f P bounds s).sind, j < N) ∧
      List.Pairwise (fun a b => (nmIter f P bounds s).fval.getD a 0 ≤ (nmIter f P bounds s).fval.getD b 0)
        (nmIter f P bounds s).sind) ∧
    (∃ (s : NM K) (fail : Bool),
      nelderMead f P k105 zdelt bounds x0 maxIter
        = (s.verts.getD (s.sind.getD 0 0) [], -(s.fval.getD (s.sind.getD 0 0) 0), !fail, s.nit, s.verts) ∧
      s.fval = s.verts.map (negF f P.pinf bounds) ∧ s.verts.length = x0.length + 1 ∧
      s.sind.Perm (List.range (x0.length + 1)) ∧
      List.Pairwise (fun a b => s.fval.getD a 0 ≤ s.fval.getD b 0) s.sind ∧
      (∀ i, i < x0.length + 1 →
        s.fval.getD (s.sind.getD 0 0) 0 ≤ s.fval.getD i 0 ∧
        s.fval.getD i 0 ≤ s.fval.getD (s.sind.getD x0.length 0) 0) ∧
      (∀ i, i < x0.length + 1 →
        -(negF f P.pinf bounds (s.verts.getD i [])) ≤ -(s.fval.getD (s.sind.getD 0 0) 0))) := by
  constructor
  · intro N s hN h1N hl hm hnd hso
    have h2 := nmIter_sind f P bounds N s hN h1N ⟨hl, hm⟩
    have h3 := nmIter_sortedPerm f P bounds N s hN h1N ⟨hl, hm⟩ ⟨hnd, hso⟩
    exact ⟨h3.1, h2.1, h2.2, h3.2⟩
  · have hl := initSimplex_length k105 zdelt x0
    have h := nmLoop_sortedPerm f P bounds (initSimplex k105 zdelt x0).length maxIter
      (by rw [initSimplex_length]; omega) (maxIter + 1) _
      (nmInit_ok f P bounds (initSimplex k105 zdelt x0)) (nmInit_sind f P bounds (initSimplex k105 zdelt x0))
      (nmInit_sortedPerm f P bounds (initSimplex k105 zdelt x0))
    rw [hl] at h
    obtain ⟨hok, hsi, hsp⟩ := h
    generalize hr : (nmLoop f P bounds maxIter (maxIter + 1) (nmInit f P bounds (initSimplex k105 zdelt x0))) = r
      at hok hsi hsp
    have hperm := perm_range_of_nodup r.1.sind _ hsi.1 hsi.2 hsp.1
    have hne : r.1.sind ≠ [] := by
      intro h0; have := hsi.1; rw [h0] at this; simp at this
    have hall : ∀ i, i < x0.length + 1 →
        r.1.fval.getD (r.1.sind.getD 0 0) 0 ≤ r.1.fval.getD i 0 ∧
        r.1.fval.getD i 0 ≤ r.1.fval.getD (r.1.sind.getD x0.length 0) 0 := by
      intro i hi
      have him : i ∈ r.1.sind := (hperm.mem_iff).mpr (List.mem_range.mpr hi)
      constructor
      · cases hs : r.1.sind with
        | nil => exact absurd hs hne
        | cons a t =>
          rw [hs] at him
          have hp := hsp.2; rw [hs, List.pairwise_cons] at hp
          simp only [List.getD_cons_zero]
          rcases List.mem_cons.mp him with h | h
          · rw [h]
          · exact hp.1 i h
      · have hlast : r.1.sind.getD x0.length 0 = r.1.sind.getLast hne := by
          have := getD_last r.1.sind hne
          rw [hsi.1] at this; simpa using this
        rw [hlast]
        have hsplit := List.dropLast_concat_getLast hne
        have hp := hsp.2
        rw [← hsplit, List.pairwise_append] at hp
        rw [← hsplit] at him
        rcases List.mem_append.mp him with h | h
        · exact hp.2.2 i h _ (by simp)
        · have : i = r.1.sind.getLast hne := by simpa using h
          rw [← this]
    refine ⟨r.1, r.2, by unfold nelderMead; simp only [hr], hok.1, hok.2, hperm, hsp.2, hall, ?_⟩
    intro i hi
    have := (hall i hi).1
    have hrow : r.1.fval.getD i 0 = negF f P.pinf bounds (r.1.verts.getD i []) := by
      rw [hok.1]; exact getD_map_of_lt _ _ _ _ _ (by rw [hok.2]; exact hi)
    rw [← hrow]
    exact neg_le_neg this

/-- **nelder_mead, what `success` means for the returned simplex** (ordered field, any objective and
    bounds). With `x`, `fun`, `success`, `nit`, `final_simplex` the returned tuple:
    `success = True` ⇒ `LV_ratio < tol_x` at the stopping state, or EVERY row `v` of `final_simplex` has
    a (penalised, negated) value within `tol_f` of the best one:
    `_neg_bounded_fun(v) − _neg_bounded_fun(x) < tol_f`, i.e. for feasible rows `fun − f(v) < tol_f`;
    and always `_neg_bounded_fun(x) ≤ _neg_bounded_fun(v)` (`x` is the best row). -/
theorem nelderMead_success_spread (f : List K → K) (P : NMP K) (k105 zdelt : K)
    (bounds : List (K × K)) (x0 : List K) (maxIter : Nat) :
    ∃ x fv ok nit verts lv, nelderMead f P k105 zdelt bounds x0 maxIter = (x, fv, ok, nit, verts) ∧
      verts.length = x0.length + 1 ∧ fv = -(negF f P.pinf bounds x) ∧
      (∀ i, i < x0.length + 1 → negF f P.pinf bounds x ≤ negF f P.pinf bounds (verts.getD i [])) ∧
      (ok = true → lv < P.tolx ∨
        ∀ i, i < x0.length + 1 → negF f P.pinf bounds (verts.getD i []) - negF f P.pinf bounds x < P.tolf) := by
  have hl := initSimplex_length k105 zdelt x0
  have h := nmLoop_sortedPerm f P bounds (initSimplex k105 zdelt x0).length maxIter
    (by rw [initSimplex_length]; omega) (maxIter + 1) _
    (nmInit_ok f P bounds (initSimplex k105 zdelt x0)) (nmInit_sind f P bounds (initSimplex k105 zdelt x0))
    (nmInit_sortedPerm f P bounds (initSimplex k105 zdelt x0))
  have hst := nmLoop_status f P bounds maxIter (maxIter + 1) (nmInit f P bounds (initSimplex k105 zdelt x0))
    (Nat.zero_le _) (by show maxIter < 0 + (maxIter + 1); omega)
  rw [hl] at h
  obtain ⟨hok, hsi, hsp⟩ := h
  obtain ⟨hstop, hle, _, hfail⟩ := hst
  generalize hr : (nmLoop f P bounds maxIter (maxIter + 1) (nmInit f P bounds (initSimplex k105 zdelt x0))) = r
    at hok hsi hsp hstop hle hfail
  have hperm := perm_range_of_nodup r.1.sind _ hsi.1 hsi.2 hsp.1
  have hne : r.1.sind ≠ [] := by
    intro h0; have := hsi.1; rw [h0] at this; simp at this
  have hb := hsi.head_lt (by omega : 1 ≤ x0.length + 1)
  have hrow : ∀ i, i < x0.length + 1 → r.1.fval.getD i 0 = negF f P.pinf bounds (r.1.verts.getD i []) := by
    intro i hi; rw [hok.1]; exact getD_map_of_lt _ _ _ _ _ (by rw [hok.2]; exact hi)
  have hall : ∀ i, i < x0.length + 1 →
      r.1.fval.getD (r.1.sind.getD 0 0) 0 ≤ r.1.fval.getD i 0 ∧
      r.1.fval.getD i 0 ≤ r.1.fval.getD (r.1.sind.getD x0.length 0) 0 := by
    intro i hi
    have him : i ∈ r.1.sind := (hperm.mem_iff).mpr (List.mem_range.mpr hi)
    constructor
    · cases hs : r.1.sind with
      | nil => exact absurd hs hne
      | cons a t =>
        rw [hs] at him
        have hp := hsp.2; rw [hs, List.pairwise_cons] at hp
        simp only [List.getD_cons_zero]
        rcases List.mem_cons.mp him with h | h
        · rw [h]
        · exact hp.1 i h
    · have hlast : r.1.sind.getD x0.length 0 = r.1.sind.getLast hne := by
        have := getD_last r.1.sind hne
        rw [hsi.1] at this; simpa using this
      rw [hlast]
      have hsplit := List.dropLast_concat_getLast hne
      have hp := hsp.2
      rw [← hsplit, List.pairwise_append] at hp
      rw [← hsplit] at him
      rcases List.mem_append.mp him with h | h
      · exact hp.2.2 i h _ (by simp)
      · have : i = r.1.sind.getLast hne := by simpa using h
        rw [← this]
  refine ⟨r.1.verts.getD (r.1.sind.getD 0 0) [], -(r.1.fval.getD (r.1.sind.getD 0 0) 0), !r.2, r.1.nit, r.1.verts,
    r.1.lv, by unfold nelderMead; simp only [hr], hok.2, ?_, ?_, ?_⟩
  · rw [hrow _ hb]
  · intro i hi
    rw [← hrow _ hb, ← hrow i hi]; exact (hall i hi).1
  · intro hokt
    have hlt : r.1.nit < maxIter := by
      rw [hfail] at hokt; simpa using hokt
    unfold nmStop at hstop
    simp only [Bool.or_eq_true, decide_eq_true_eq] at hstop
    rcases hstop with (h1 | h1) | h1
    · exact Or.inl h1
    · right
      intro i hi
      rw [← hrow _ hb, ← hrow i hi]
      have := (hall i hi).2
      rw [hok.2] at h1
      simp only [Nat.add_sub_cancel] at h1
      linarith
    · omega

/-- non-vacuity: the 1-D run that stops with `success` on `tol_f` — both rows of the final simplex have
    the same objective value (spread `0 < tol_f`) while `LV_ratio = 1/4·… ` is nowhere near `tol_x` -/
example : (match nelderMead (quadObj [[(49 / 16 : Rat)]] [9 / 4] (-1 / 2))
      ⟨1, 2, 1 / 2, 1 / 2, 1 / 10000000000, 1 / 10000000000, 1000000⟩ (21 / 20) (1 / 4000) [] [5 / 8] 1000 with
    | (x, fv, ok, _, verts) => ok && verts.all (fun v => quadObj [[(49 / 16 : Rat)]] [9 / 4] (-1 / 2) v == fv)
        && (x == [71 / 32])) = true := by decide +kernel

/-- **the shrink re-sort is stable at the front.** With the repaired rule the new `sort_ind` is a
    duplicate-free list sorting the new `f_val` (whatever it was before, given no duplicates), and if
    no row is strictly better than the old best row after the shrink, the old best stays in front
    ("the best vertex stays in front on ties"). -/
theorem nm_shrink_resort_stable (fv : List K) (sind : List Nat) (hnd : sind.Nodup) (hne : sind ≠ []) :
    (shrinkResort fv sind).Nodup ∧
    List.Pairwise (fun a b => fv.getD a 0 ≤ fv.getD b 0) (shrinkResort fv sind) ∧
    ((∀ j ∈ sind, fv.getD (sind.getD 0 0) 0 ≤ fv.getD j 0) →
      (shrinkResort fv sind).getD 0 0 = sind.getD 0 0) :=
  ⟨(shrinkResort_sorted fv sind hnd).1, (shrinkResort_sorted fv sind hnd).2,
   shrinkResort_head_of_tie fv sind hne⟩

example : shrinkResort [(3 : Rat), 1, 1, 2] [1, 2, 3, 0] = [1, 2, 3, 0] ∧
    shrinkResort [(3 : Rat), 1, 1, 2] [2, 1, 0, 3] = [2, 1, 3, 0] := by decide +kernel

/-- non-vacuity of the hypotheses of `nm_best_never_worse` (initial state of the witness problem:
    consistent `f_val`, loop test lets the pass run — and that pass is a shrink) and a 1-D state whose
    pass is not a shrink (both branches of `nm_sort_ind_sorting_permutation` are exercised) -/
example :
    let A : List (List Rat) := [[29 / 16, 3 / 4], [3 / 4, 13 / 2]]
    let P : NMP Rat := ⟨1, 2, 1 / 2, 1 / 2, 1 / 10000000000, 1 / 10000000000, 1000000000⟩
    let bounds : List (Rat × Rat) := [(12 / 5, 2501 / 1000), (-69 / 40, -61 / 40)]
    let s0 := nmInit (quadObj A [3 / 4, -4] 0) P bounds (initSimplex (21 / 20) (1 / 4000) [5 / 2, -13 / 8])
    s0.fval = s0.verts.map (negF (quadObj A [3 / 4, -4] 0) P.pinf bounds) ∧
    ¬ (s0.fval.getD (s0.sind.getD (s0.verts.length - 1) 0) 0 - s0.fval.getD (s0.sind.getD 0 0) 0 < P.tolf) ∧
    (nmChoice (quadObj A [3 / 4, -4] 0) P bounds s0).isNone = true := by
  decide +kernel
example :
    let P : NMP Rat := ⟨1, 2, 1 / 2, 1 / 2, 1 / 10000000000, 1 / 10000000000, 1000000000⟩
    let s0 := nmInit (quadObj [[(49 / 16 : Rat)]] [9 / 4] (-1 / 2)) P [] (initSimplex (21 / 20) (1 / 4000) [5 / 8])
    s0.sind = [1, 0] ∧ (nmChoice (quadObj [[(49 / 16 : Rat)]] [9 / 4] (-1 / 2)) P [] s0).isSome = true := by
  decide +kernel

/-- non-vacuity (2-D, active bound, penalty 10⁹): the start is feasible, so is the result, and the
    reported value 10·… is the objective there -/
example : (match nelderMead (quadObj [[(2 : Rat), 0], [0, 1]] [0, 0] 0)
      ⟨1, 2, 1 / 2, 1 / 2, 1 / 1000, 1 / 1000, 1000000000⟩ (21 / 20) (1 / 4000) [(1, 3), (-1, 1)] [2, 1 / 2] 40 with
    | (x, fv, _, _, _) => inBounds [((1 : Rat), (3 : Rat)), (-1, 1)] x && fv == quadObj [[(2 : Rat), 0], [0, 1]] [0, 0] 0 x
        && decide (quadObj [[(2 : Rat), 0], [0, 1]] [0, 0] 0 [2, 1 / 2] ≤ fv)) = true := by
  decide +kernel

/-- **the PRE-repair shrink rule did not keep `sort_ind` a permutation** (documentation of the
    defect repaired in /repo commit eb9b5d4; `nmLoopOld` / `shrinkResortOld` are the old rule
    `sort_ind[1:] = f_val[sort_ind[1:]].argsort() + 1`, not what the driver runs).
    Concave quadratic `f(x) = −(x−c)ᵀA(x−c)`, `A = [[29/16, 3/4], [3/4, 13/2]]`, `c = (3/4, −4)`,
    `x0 = (5/2, −13/8)`, bounds `[[12/5, 2501/1000], [−69/40, −61/40]]`. The initial order is
    `sort_ind = [2, 0, 1]`; the first pass shrinks, and the old rule produced `[2, 1, 2]`: row 0
    lost, row 2 both "best" and "worst", so `f_val[worst] − f_val[best] = 0 < tol_f` and the run
    stopped with `success` after ONE pass. With the repaired rule (`nmLoop`) the same first pass
    yields the permutation `[2, 0, 1]` and the run goes on. -/
theorem sort_ind_not_a_permutation_old_rule :
    let A : List (List Rat) := [[29 / 16, 3 / 4], [3 / 4, 13 / 2]]
    let P : NMP Rat := ⟨1, 2, 1 / 2, 1 / 2, 1 / 10000000000, 1 / 10000000000, 1000000000⟩
    let bounds : List (Rat × Rat) := [(12 / 5, 2501 / 1000), (-69 / 40, -61 / 40)]
    let s0 := nmInit (quadObj A [3 / 4, -4] 0) P bounds (initSimplex (21 / 20) (1 / 4000) [5 / 2, -13 / 8])
    let r := nmLoopOld (quadObj A [3 / 4, -4] 0) P bounds 1000 1001 s0
    s0.sind = [2, 0, 1] ∧ r.1.sind = [2, 1, 2] ∧ r.1.nit = 1 ∧ r.2 = false ∧
    (nmIter (quadObj A [3 / 4, -4] 0) P bounds s0).sind = [2, 0, 1] := by
  decide +kernel

/-! ## `_check_params` and `_nelder_mead_algorithm` (caller-supplied simplex and coefficients) -/

/-- **`_check_params`, exact characterisation.** The combination is accepted iff
    `0 ≤ ρ`, `1 ≤ χ`, `ρ ≤ χ`, `0 ≤ γ ≤ 1`, `0 ≤ σ ≤ 1`, the bounds array has shape `(0,2)` or `(n,2)` and
    no row has `lower > upper` — all inequalities WEAK, as in the code (its messages say "strictly"). -/
theorem checkParams_iff (P : NMP K) (r c : Nat) (bounds : List (List K)) (n : Nat) :
    checkParams P r c bounds n = true ↔
      (0 ≤ P.ρ ∧ 1 ≤ P.χ ∧ P.ρ ≤ P.χ ∧ 0 ≤ P.γ ∧ P.γ ≤ 1 ∧ 0 ≤ P.σ ∧ P.σ ≤ 1 ∧
       ((r = 0 ∧ c = 2) ∨ (r = n ∧ c = 2)) ∧ ∀ b ∈ bounds, b.getD 0 0 ≤ b.getD 1 0) := by
  unfold checkParams
  simp only [Bool.and_eq_true, Bool.not_eq_true', decide_eq_false_iff_not, not_lt, Bool.or_eq_false_iff,
    Bool.or_eq_true, beq_iff_eq, List.any_eq_false, decide_eq_true_eq]
  tauto

example : checkParams (⟨1, 2, 1 / 2, 1 / 2, 0, 0, 0⟩ : NMP Rat) 2 2 [[0, 1], [-1, 1]] 2 = true := by decide +kernel
example : checkParams (⟨0, 1, 0, 1, 0, 0, 0⟩ : NMP Rat) 0 2 [] 3 = true := by decide +kernel   -- all on the boundary
example : checkParams (⟨1, 2, 1 / 2, 1 / 2, 0, 0, 0⟩ : NMP Rat) 2 2 [[0, 1], [1, -1]] 2 = false := by decide +kernel
example : checkParams (⟨1, 2, 1 / 2, 1 / 2, 0, 0, 0⟩ : NMP Rat) 2 3 [[0, 1, 2], [0, 1, 2]] 2 = false := by decide +kernel

/-- **`_nelder_mead_algorithm`, for every coefficient choice and every starting simplex.** `ValueError`
    exactly when `_check_params` rejects; otherwise, for a starting simplex with `N ≥ 1` rows and `tol_f > 0`
    (`B` = the bounds list, `F = _neg_bounded_fun`), the returned `(x, fun, success, nit, final_simplex)` satisfies
    * `final_simplex` has `N` rows, `fun = −F(x)`, and `x` is its best row: `F(x) ≤ F(row)` for every row;
    * `fun` is not below any row of the STARTING simplex: `−F(start row) ≤ fun`;
    * `nit ≤ max_iter` and `success = True ⇔ nit < max_iter`.
    (All the invariants proved for `nelder_mead` — consistent `f_val`, `sort_ind` a sorting permutation,
    monotone best value — hold from an arbitrary start and for arbitrary `ρ, χ, γ, σ`: the loop lemmas never
    use the default coefficients.) -/
theorem nmAlgorithm_contract (f : List K → K) (P : NMP K) (r c : Nat) (boundsRows : List (List K))
    (verts : List (List K)) (maxIter : Nat) :
    (nmAlgorithm f P r c boundsRows verts maxIter = none ↔
      checkParams P r c boundsRows (verts.headD []).length = false) ∧
    (checkParams P r c boundsRows (verts.headD []).length = true → 1 ≤ verts.length → 0 < P.tolf →
      let B : List (K × K) := if r = 0 then [] else boundsRows.map fun b => (b.getD 0 0, b.getD 1 0)
      ∃ x fv ok nit vs, nmAlgorithm f P r c boundsRows verts maxIter = some (x, fv, ok, nit, vs) ∧
        vs.length = verts.length ∧ fv = -(negF f P.pinf B x) ∧
        (∀ i, i < verts.length → negF f P.pinf B x ≤ negF f P.pinf B (vs.getD i [])) ∧
        (∀ i, i < verts.length → -(negF f P.pinf B (verts.getD i [])) ≤ fv) ∧
        nit ≤ maxIter ∧ (ok = true ↔ nit < maxIter)) := by
  constructor
  · unfold nmAlgorithm
    cases hc : checkParams P r c boundsRows (verts.headD []).length <;> simp
  · intro hv hN htol B
    have h := nmLoop_inv f P B verts.length maxIter hN htol (maxIter + 1) _
      (nmInit_ok f P B verts) (nmInit_sind f P B verts) (nmInit_sortedPerm f P B verts)
    have hst := nmLoop_status f P B maxIter (maxIter + 1) (nmInit f P B verts)
      (Nat.zero_le _) (by show maxIter < 0 + (maxIter + 1); omega)
    obtain ⟨hok, hsi, hsp, hbest⟩ := h
    obtain ⟨_, hle, _, hfail⟩ := hst
    generalize hr : nmLoop f P B maxIter (maxIter + 1) (nmInit f P B verts) = res at hok hsi hsp hbest hle hfail
    have hperm := perm_range_of_nodup res.1.sind _ hsi.1 hsi.2 hsp.1
    have hne : res.1.sind ≠ [] := by
      intro h0; have := hsi.1; rw [h0] at this; simp at this; omega
    have hb := hsi.head_lt hN
    have hrow : ∀ i, i < verts.length → res.1.fval.getD i 0 = negF f P.pinf B (res.1.verts.getD i []) := by
      intro i hi; rw [hok.1]; exact getD_map_of_lt _ _ _ _ _ (by rw [hok.2]; exact hi)
    have hmin : ∀ i, i < verts.length → res.1.fval.getD (res.1.sind.getD 0 0) 0 ≤ res.1.fval.getD i 0 := by
      intro i hi
      have him : i ∈ res.1.sind := (hperm.mem_iff).mpr (List.mem_range.mpr hi)
      cases hs : res.1.sind with
      | nil => exact absurd hs hne
      | cons a t =>
        rw [hs] at him
        have hp := hsp.2; rw [hs, List.pairwise_cons] at hp
        simp only [List.getD_cons_zero]
        rcases List.mem_cons.mp him with h | h
        · rw [h]
        · exact hp.1 i h
    refine ⟨res.1.verts.getD (res.1.sind.getD 0 0) [], -(res.1.fval.getD (res.1.sind.getD 0 0) 0), !res.2, res.1.nit,
      res.1.verts, ?_, hok.2, by rw [hrow _ hb], ?_, ?_, hle, by rw [hfail]; simp⟩
    · unfold nmAlgorithm; rw [if_pos hv]; simp only [B] at hr ⊢; rw [hr]
    · intro i hi; rw [← hrow _ hb, ← hrow i hi]; exact hmin i hi
    · intro i hi
      have h0 : bestVal (nmInit f P B verts) ≤ negF f P.pinf B (verts.getD i []) := by
        unfold bestVal nmInit
        simp only
        have := argsort_head_min (verts.map (negF f P.pinf B)) i (by simpa using hi)
        rw [getD_map_of_lt _ _ i _ [] hi] at this
        exact this
      have := le_trans hbest h0
      unfold bestVal at this
      exact neg_le_neg this

/-- non-vacuity: a 1-D run from a caller-supplied simplex with non-default coefficients
    (`ρ = 3/2`, `χ = 5/2`, `γ = 1/4`, `σ = 3/4`), bounds `[0, 3]` -/
example : (match nmAlgorithm (quadObj [[(2 : Rat)]] [1] 0) ⟨3 / 2, 5 / 2, 1 / 4, 3 / 4, 1 / 1000, 1 / 1000, 1000000⟩ 1 2 [[0, 3]]
      [[2], [5 / 2]] 50 with
    | some (x, fv, _, nit, vs) => decide (0 ≤ fv + 2) && fv == quadObj [[(2 : Rat)]] [1] 0 x && vs.length == 2 && decide (nit ≤ 50)
    | none => false) = true := by decide +kernel
example : nmAlgorithm (quadObj [[(2 : Rat)]] [1] 0) ⟨-1, 5 / 2, 1 / 4, 3 / 4, 1 / 1000, 1 / 1000, 1000000⟩ 1 2 [[0, 3]]
    [[2], [5 / 2]] 50 = none := by decide +kernel

end nmfield

end QE.C17
