/-
  Property C05 — theorems about QEModel.C05 (stub; to be filled in).
-/
import QEModel.C05
namespace QE.C05

end QE.C05
