/-
  Property C05 — two-player Nash solvers are sound; pure_nash_brute is exact.
  Theorems about the definitions of QEModel.C05 (the ones the driver executes),
  over an arbitrary linearly ordered field `K` (exact arithmetic).

  The model's solvers (`lhCapping`, `supportEnum`, `vertexEnum`, `pureNashBrute`) are pure
  functions of the payoff matrices they are given: there is no game object and no state
  between calls. That the code's solvers behave the same way on ONE `NormalFormGame` object
  over a history (solve, change payoffs in place through `g[profile] = …` or
  `players[i].payoff_array`, fill a shape-created game in stages, `delete_action`, solve again)
  is outside these theorems and is checked by the harness (`history_run`): every answer is
  judged against the payoffs read fresh from the object, compared bit for bit with a freshly
  built game with the same payoffs and with a second call, and the stored payoffs must be
  untouched.

  Specification (Lemmas/C05Nash.lean): `IsProb n x`, `IsNash m n A B x y`,
  `IsNashTol tol m n A B x y`, written with the model's own `payoffVec` / `dotTo`.
-/
import QEModel.C05
import QEProofs.Lemmas.C05Nash
import QEProofs.Lemmas.C05Support
import QEProofs.Lemmas.C05Pure
import QEProofs.Lemmas.C05KSub
import QEProofs.Lemmas.C05Vertex
import QEProofs.Lemmas.C05LHOut
import QEProofs.Lemmas.C05Complete
import QEProofs.Lemmas.C05Enum
import QEProofs.Lemmas.C05Gauss
import QEProofs.Lemmas.C05Example
import QEProofs.Lemmas.C05VeComplete
import QEProofs.Lemmas.C05Final
import QEProofs.Lemmas.C05Bits
import QEProofs.Lemmas.C05Cap
import QEProofs.Lemmas.C05PureMixed
import QEProofs.Lemmas.C05Brp
namespace QE.C05
open QE QE.MatAlg Finset

set_option linter.unusedSectionVars false
variable {K : Type} [Field K] [LinearOrder K] [IsStrictOrderedRing K]

/-! ## the support criterion -/

/-- **Supports inside the best-response sets ⇒ Nash.** If `x`, `y` are probability vectors,
    every pure payoff of player 0 against `y` is at most `v` with equality on the support of `x`,
    and likewise for player 1 with `w`, then `(x, y)` is a Nash equilibrium. -/
theorem support_br_nash (m n : ℕ) (A B : ℕ → ℕ → K) (x y : ℕ → K) (v w : K)
    (hx : IsProb m x) (hy : IsProb n y)
    (hA : ∀ i, i < m → payoffVec n A y i ≤ v)
    (hAs : ∀ i, i < m → x i ≠ 0 → payoffVec n A y i = v)
    (hB : ∀ j, j < n → payoffVec m B x j ≤ w)
    (hBs : ∀ j, j < n → y j ≠ 0 → payoffVec m B x j = w) :
    IsNash m n A B x y :=
  support_br_nash' m n A B x y v w hx hy hA hAs hB hBs

/-- the specification is the usual one: in a Nash equilibrium (no profitable *pure* deviation,
    as `IsNash` is written) no *mixed* deviation is profitable either -/
theorem isNash_no_mixed_deviation (m n : ℕ) (A B : ℕ → ℕ → K) (x y : ℕ → K)
    (h : IsNash m n A B x y) :
    (∀ x', IsProb m x' → dotTo m x' (payoffVec n A y) ≤ dotTo m x (payoffVec n A y)) ∧
    (∀ y', IsProb n y' → dotTo n y' (payoffVec m B x) ≤ dotTo n y (payoffVec m B x)) :=
  ⟨fun x' hx' => dot_le_of_le m x' _ _ hx' h.2.2.1, fun y' hy' => dot_le_of_le n y' _ _ hy' h.2.2.2⟩

/-! ## support enumeration -/

/-- a support as the enumeration produces it: distinct action indices below `m` -/
def ValidSupp (m : ℕ) (s : List ℕ) : Prop := s.Nodup ∧ ∀ a, a ∈ s → a < m

/-- one player's half: from a `True` answer of `_indiff_mixed_action` for `(P, own, opp)` the
    scattered opponent action `y` is a probability vector against which every own action earns
    at most `z k`, with equality on `own`. -/
theorem indiff_half (solve : M K → M K → Option (M K)) (hs : SolveSound solve)
    (P : ℕ → ℕ → K) (mOwn nOpp : ℕ) (own opp : List ℕ) (z : ℕ → K)
    (hlen : own.length = opp.length) (hown : ValidSupp mOwn own) (hopp : ValidSupp nOpp opp)
    (h : indiff solve P mOwn own opp = some z) :
    IsProb nOpp (scatter opp z) ∧
    (∀ i, i < mOwn → payoffVec nOpp P (scatter opp z) i ≤ z own.length) ∧
    (∀ i, i ∈ own → payoffVec nOpp P (scatter opp z) i = z own.length) := by
  obtain ⟨hpos, hsum, hrows, hbr⟩ := indiff_some solve hs P mOwn own opp z h
  have hoppb : ∀ t, t < opp.length → opp.getD t 0 < nOpp := by
    intro t ht
    rw [getD_of_lt _ _ ht]
    exact hopp.2 _ (List.getElem_mem _)
  have hpay : ∀ i, payoffVec nOpp P (scatter opp z) i
      = ∑ t ∈ range own.length, P i (opp.getD t 0) * z t := by
    intro i
    rw [payoffVec_eq, sum_mul_scatter nOpp opp z (fun j => P i j) hoppb, hlen]
  have heq : ∀ i, i ∈ own → payoffVec nOpp P (scatter opp z) i = z own.length := by
    intro i hi
    obtain ⟨r, hr, he⟩ := mem_getD own i hi
    rw [hpay, ← he]
    exact hrows r hr
  refine ⟨⟨?_, ?_⟩, ?_, heq⟩
  · intro j _
    apply scatter_nonneg
    intro t ht
    exact le_of_lt (hpos t (by omega))
  · rw [sumRange_eq_sum, sum_scatter nOpp opp z hoppb, ← hlen]
    exact hsum
  · intro i hi
    by_cases hmem : i ∈ own
    · exact le_of_eq (heq i hmem)
    · rcases hbr with hk | hbr
      · exact absurd (mem_of_nodup_full own mOwn hown.1 hk hown.2 i hi) hmem
      · rw [hpay]
        exact hbr i hi hmem

/-- **Every pair yielded for a pair of supports is a Nash equilibrium** (model of the body of
    the inner `while` of `_support_enumeration_gen`, both `_indiff_mixed_action` calls and the
    scatter `out[p][supp] = action[:-1]`), for any sound linear solver. -/
theorem tryPair_sound (solve : M K → M K → Option (M K)) (hs : SolveSound solve)
    (m n : ℕ) (A B : ℕ → ℕ → K) (s0 s1 : List ℕ) (x y : ℕ → K)
    (hlen : s0.length = s1.length) (h0 : ValidSupp m s0) (h1 : ValidSupp n s1)
    (h : tryPair solve m n A B s0 s1 = some (x, y)) :
    IsNash m n A B x y := by
  unfold tryPair at h
  generalize ha : indiff solve A m s0 s1 = oa at h
  cases oa with
  | none => simp at h
  | some zy =>
    dsimp only at h
    generalize hb : indiff solve B n s1 s0 = ob at h
    cases ob with
    | none => simp at h
    | some zx =>
      dsimp only at h
      have hxy : scatter s0 zx = x ∧ scatter s1 zy = y := by simpa using h
      obtain ⟨hx, hy⟩ := hxy
      subst hx; subst hy
      obtain ⟨py, hAle, hAeq⟩ := indiff_half solve hs A m n s0 s1 zy hlen h0 h1 ha
      obtain ⟨px, hBle, hBeq⟩ := indiff_half solve hs B n m s1 s0 zx hlen.symm h1 h0 hb
      exact support_br_nash m n A B _ _ (zy s0.length) (zx s1.length) px py hAle
        (fun i _ hne => hAeq i (scatter_ne_zero_mem s0 zx i hne)) hBle
        (fun j _ hne => hBeq j (scatter_ne_zero_mem s1 zy j hne))

/-- **support_enumeration is sound**: every element of the model's output list whose
    support pair is well-formed is a Nash equilibrium. (That every enumerated pair *is*
    well-formed is `supportPairs_valid` below.) -/
theorem support_enum_sound_of_valid (solve : M K → M K → Option (M K)) (hs : SolveSound solve)
    (m n : ℕ) (A B : ℕ → ℕ → K)
    (e : (List ℕ × List ℕ) × ((ℕ → K) × (ℕ → K)))
    (he : e ∈ supportEnum solve m n A B)
    (hv : e.1.1.length = e.1.2.length ∧ ValidSupp m e.1.1 ∧ ValidSupp n e.1.2) :
    IsNash m n A B e.2.1 e.2.2 := by
  unfold supportEnum at he
  rw [List.mem_filterMap] at he
  obtain ⟨p, _, hp⟩ := he
  cases htp : tryPair solve m n A B p.1 p.2 with
  | none => rw [htp] at hp; simp at hp
  | some xy =>
    rw [htp] at hp
    have : (p, xy) = e := by simpa using hp
    subst this
    exact tryPair_sound solve hs m n A B p.1 p.2 xy.1 xy.2 hv.1 hv.2.1 hv.2.2 htp

/-- every pair of supports visited by the three nested loops of `_support_enumeration_gen`
    (driven by `next_k_array`) consists of two duplicate-free lists of valid action indices of
    the same length -/
theorem supportPairs_valid (m n : ℕ) (p : List ℕ × List ℕ) (hp : p ∈ supportPairs m n) :
    p.1.length = p.2.length ∧ ValidSupp m p.1 ∧ ValidSupp n p.2 := by
  unfold supportPairs at hp
  rw [List.mem_flatMap] at hp
  obtain ⟨k, _, hp⟩ := hp
  rw [List.mem_flatMap] at hp
  obtain ⟨s0, hs0, hp⟩ := hp
  rw [List.mem_map] at hp
  obtain ⟨s1, hs1, rfl⟩ := hp
  obtain ⟨l0, n0, b0⟩ := kSubsets_mem m k s0 hs0
  obtain ⟨l1, n1, b1⟩ := kSubsets_mem n k s1 hs1
  exact ⟨by rw [l0, l1], ⟨n0, b0⟩, ⟨n1, b1⟩⟩

/-- **support_enumeration is sound** (all `m`, `n`, all payoffs): every pair in the model's
    output list is a Nash equilibrium, for any sound linear solver. -/
theorem support_enum_sound (solve : M K → M K → Option (M K)) (hs : SolveSound solve)
    (m n : ℕ) (A B : ℕ → ℕ → K)
    (e : (List ℕ × List ℕ) × ((ℕ → K) × (ℕ → K)))
    (he : e ∈ supportEnum solve m n A B) :
    IsNash m n A B e.2.1 e.2.2 := by
  have he' := he
  unfold supportEnum at he'
  rw [List.mem_filterMap] at he'
  obtain ⟨p, hp, hpe⟩ := he'
  have hv := supportPairs_valid m n p hp
  cases htp : tryPair solve m n A B p.1 p.2 with
  | none => rw [htp] at hpe; simp at hpe
  | some xy =>
    rw [htp] at hpe
    have : (p, xy) = e := by simpa using hpe
    subst this
    exact support_enum_sound_of_valid solve hs m n A B _ he hv

/-- **support_enumeration is sound, as executed by the driver** (no hypothesis left): with
    the residual-checked exact solver every yielded pair is a Nash equilibrium. -/
theorem support_enum_sound_exact (m n : ℕ) (A B : ℕ → ℕ → K)
    (e : (List ℕ × List ℕ) × ((ℕ → K) × (ℕ → K)))
    (he : e ∈ supportEnum solveChecked m n A B) :
    IsNash m n A B e.2.1 e.2.2 :=
  support_enum_sound solveChecked solveChecked_sound m n A B e he

/-- non-vacuity: on von Stengel's 3×2 example the exact solver yields three equilibria -/
example : (supportEnum solveChecked 3 2 (fnOfMat [[3, 3], [2, 5], [0, 6]])
    (fnOfMat [[3, 2, 3], [2, 6, 1]]) : List ((List ℕ × List ℕ) × ((ℕ → ℚ) × (ℕ → ℚ)))).length = 3 := by
  decide +kernel

/-- **support_enumeration is complete** (all `m`, `n`; T2): an
    equilibrium `(x, y)` whose supports `s0`, `s1` (as increasing lists) have the same size and
    whose two indifference systems have at most one solution — both are consequences of
    non-degeneracy — is in the output, for its own pair of supports, with exactly its
    probabilities. `solve` is any sound solver that does not fail on uniquely solvable systems.
    With `support_enum_once` (no support pair is visited twice) it is there exactly once.
    That the `next_k_array` walk visits every `k`-subset exactly once, for all `n` and `k`
    (`kSubsets_complete`, `supportPairs_nodup`), comes from C16's theorems on the walk
    (`walk_enumerates`, `walk_range_spec`, `walk_range_injective`). -/
theorem support_enum_complete (solve : M K → M K → Option (M K)) (hs : SolveSound solve)
    (hr : SolveRegular solve) (m n : ℕ) (A B : ℕ → ℕ → K) (x y : ℕ → K)
    (hN : IsNash m n A B x y) (s0 s1 : List ℕ)
    (h0s : s0.Pairwise (· < ·)) (h1s : s1.Pairwise (· < ·))
    (h0 : ∀ i, i ∈ s0 ↔ i < m ∧ x i ≠ 0) (h1 : ∀ j, j ∈ s1 ↔ j < n ∧ y j ≠ 0)
    (hlen : s0.length = s1.length)
    (hu0 : ∀ z' z'', Solves (indiffSys A s0 s1) (indiffRhs s0.length) z' →
      Solves (indiffSys A s0 s1) (indiffRhs s0.length) z'' → ∀ t, t < s0.length + 1 → z' t = z'' t)
    (hu1 : ∀ z' z'', Solves (indiffSys B s1 s0) (indiffRhs s1.length) z' →
      Solves (indiffSys B s1 s0) (indiffRhs s1.length) z'' → ∀ t, t < s1.length + 1 → z' t = z'' t) :
    ∃ e, e ∈ supportEnum solve m n A B ∧ e.1 = (s0, s1) ∧
      (∀ i, i < m → e.2.1 i = x i) ∧ (∀ j, j < n → e.2.2 j = y j) := by
  obtain ⟨hx, hy, hA, hB⟩ := hN
  have nd0 : s0.Nodup := h0s.imp (fun h => Nat.ne_of_lt h)
  have nd1 : s1.Nodup := h1s.imp (fun h => Nat.ne_of_lt h)
  have b0 : ∀ a, a ∈ s0 → a < m := fun a ha => ((h0 a).mp ha).1
  have b1 : ∀ a, a ∈ s1 → a < n := fun a ha => ((h1 a).mp ha).1
  have z0 : ∀ i, i < m → i ∉ s0 → x i = 0 := by
    intro i hi hni; by_contra hne; exact hni ((h0 i).mpr ⟨hi, hne⟩)
  have z1 : ∀ j, j < n → j ∉ s1 → y j = 0 := by
    intro j hj hnj; by_contra hne; exact hnj ((h1 j).mpr ⟨hj, hne⟩)
  -- the supports are not empty
  have hk : 1 ≤ s0.length := by
    have hsum : ∑ i ∈ range m, x i ≠ 0 := by
      have := hx.2; rw [sumRange_eq_sum] at this; rw [this]; exact one_ne_zero
    obtain ⟨i, hi, hne⟩ := exists_ne_zero_of_sum_ne_zero hsum
    exact List.length_pos_of_mem ((h0 i).mpr ⟨mem_range.mp hi, hne⟩)
  -- both `_indiff_mixed_action` calls succeed with the equilibrium's weights
  obtain ⟨zy, hzy, hzyv, _⟩ := indiff_complete solve hs hr A m n s0 s1 y
    (dotTo m x (payoffVec n A y)) hlen ⟨nd1, b1⟩ hy
    (fun j hj => ⟨fun h => ((h1 j).mp h).2, fun h => (h1 j).mpr ⟨hj, h⟩⟩) hA
    (fun i hi => nash_support_eq m x _ hx hA i (b0 i hi) ((h0 i).mp hi).2) hu0
  obtain ⟨zx, hzx, hzxv, _⟩ := indiff_complete solve hs hr B n m s1 s0 x
    (dotTo n y (payoffVec m B x)) hlen.symm ⟨nd0, b0⟩ hx
    (fun i hi => ⟨fun h => ((h0 i).mp h).2, fun h => (h0 i).mpr ⟨hi, h⟩⟩) hB
    (fun j hj => nash_support_eq n y _ hy hB j (b1 j hj) ((h1 j).mp hj).2) hu1
  have htp : tryPair solve m n A B s0 s1 = some (scatter s0 zx, scatter s1 zy) := by
    unfold tryPair; rw [hzy]; dsimp only; rw [hzx]
  -- the pair of supports is visited
  obtain ⟨hm0, hle0⟩ := mem_kSubsets m s0 h0s b0 hk
  obtain ⟨hm1, hle1⟩ := mem_kSubsets n s1 h1s b1 (by omega)
  have hpair : (s0, s1) ∈ supportPairs m n := by
    unfold supportPairs
    rw [List.mem_flatMap]
    refine ⟨s0.length, List.mem_range'_1.mpr ⟨hk, by omega⟩, ?_⟩
    rw [List.mem_flatMap]
    refine ⟨s0, hm0, ?_⟩
    rw [List.mem_map]
    exact ⟨s1, by rw [hlen]; exact hm1, rfl⟩
  refine ⟨((s0, s1), (scatter s0 zx, scatter s1 zy)), ?_, rfl, ?_, ?_⟩
  · unfold supportEnum
    rw [List.mem_filterMap]
    exact ⟨(s0, s1), hpair, by simp [htp]⟩
  · intro i hi
    show scatter s0 zx i = x i
    rw [scatter_congr s0 zx (fun t => x (s0.getD t 0)) (fun t ht => hzxv t (by omega)) i]
    exact scatter_restrict m s0 x nd0 z0 i hi
  · intro j hj
    show scatter s1 zy j = y j
    rw [scatter_congr s1 zy (fun t => y (s1.getD t 0)) (fun t ht => hzyv t (by omega)) j]
    exact scatter_restrict n s1 y nd1 z1 j hj

/-- **completeness, as executed by the driver** (no hypothesis on the solver left): with the
    exact residual-checked Gauss-Jordan solver, whose soundness and regularity are proved
    (`solveChecked_sound`, `solveChecked_regular`). -/
theorem support_enum_complete_exact (m n : ℕ) (A B : ℕ → ℕ → K)
    (x y : ℕ → K) (hN : IsNash m n A B x y) (s0 s1 : List ℕ)
    (h0s : s0.Pairwise (· < ·)) (h1s : s1.Pairwise (· < ·))
    (h0 : ∀ i, i ∈ s0 ↔ i < m ∧ x i ≠ 0) (h1 : ∀ j, j ∈ s1 ↔ j < n ∧ y j ≠ 0)
    (hlen : s0.length = s1.length)
    (hu0 : ∀ z' z'', Solves (indiffSys A s0 s1) (indiffRhs s0.length) z' →
      Solves (indiffSys A s0 s1) (indiffRhs s0.length) z'' → ∀ t, t < s0.length + 1 → z' t = z'' t)
    (hu1 : ∀ z' z'', Solves (indiffSys B s1 s0) (indiffRhs s1.length) z' →
      Solves (indiffSys B s1 s0) (indiffRhs s1.length) z'' → ∀ t, t < s1.length + 1 → z' t = z'' t) :
    ∃ e, e ∈ supportEnum solveChecked m n A B ∧ e.1 = (s0, s1) ∧
      (∀ i, i < m → e.2.1 i = x i) ∧ (∀ j, j < n → e.2.2 j = y j) :=
  support_enum_complete solveChecked solveChecked_sound solveChecked_isRegular m n A B x y hN
    s0 s1 h0s h1s h0 h1 hlen hu0 hu1

/-- non-vacuity of `support_enum_complete_exact`: the mixed equilibrium of the 2×2
    coordination game satisfies every hypothesis -/
example : ∃ e, e ∈ supportEnum solveChecked 2 2 exA exA ∧ e.1 = ([0, 1], [0, 1]) ∧
    (∀ i, i < 2 → e.2.1 i = exx i) ∧ (∀ j, j < 2 → e.2.2 j = exx j) :=
  support_enum_complete_exact 2 2 exA exA exx exx (by unfold IsNash IsProb; decide +kernel)
    [0, 1] [0, 1] (by decide) (by decide) ex_supp ex_supp rfl ex_uniq ex_uniq


/-- … exactly once: the loops never visit a pair of supports twice (all `m`, `n`), so the
    output of `supportEnum` has no two entries with the same supports -/
theorem support_enum_once (solve : M K → M K → Option (M K)) (m n : ℕ)
    (A B : ℕ → ℕ → K) : ((supportEnum solve m n A B).map (·.1)).Nodup := by
  have hsub : ((supportEnum solve m n A B).map (·.1)).Sublist (supportPairs m n) := by
    unfold supportEnum
    generalize supportPairs m n = l
    induction l with
    | nil => simp
    | cons p ps ih =>
      rw [List.filterMap_cons]
      cases htp : tryPair solve m n A B p.1 p.2 with
      | none => simp only [Option.map_none]; exact ih.cons p
      | some xy => simp only [Option.map_some, List.map_cons]; exact ih.cons_cons p
  exact hsub.nodup (supportPairs_nodup m n)

/-! ## completely labelled pairs, vertex enumeration -/

/-- **A completely labelled pair of non-zero points of the best-response polytopes,
    normalised, is a Nash equilibrium.** `x ≥ 0`, `B x ≤ c0`; `y ≥ 0`, `A y ≤ c1`; every label
    binding for one of the two points. -/
theorem completely_labelled_nash (m n : ℕ) (A B : ℕ → ℕ → K) (x y : ℕ → K) (c0 c1 : K)
    (hx0 : ∀ i, i < m → 0 ≤ x i) (hy0 : ∀ j, j < n → 0 ≤ y j)
    (hP : ∀ j, j < n → payoffVec m B x j ≤ c0) (hQ : ∀ i, i < m → payoffVec n A y i ≤ c1)
    (hl0 : ∀ i, i < m → x i = 0 ∨ payoffVec n A y i = c1)
    (hl1 : ∀ j, j < n → y j = 0 ∨ payoffVec m B x j = c0)
    (hsx : ∑ i ∈ range m, x i ≠ 0) (hsy : ∑ j ∈ range n, y j ≠ 0) :
    IsNash m n A B (fun i => x i / ∑ i ∈ range m, x i) (fun j => y j / ∑ j ∈ range n, y j) :=
  completely_labelled_nash' m n A B x y c0 c1 hx0 hy0 hP hQ hl0 hl1 hsx hsy

/-- **The payoff shifts of the solvers do not change the equilibria**: adding `s j` to player
    0's payoffs in column `j` and `r i` to player 1's payoffs against action `i`
    (`_initialize_tableaux` adds one constant per player, `_BestResponsePolytope` one per
    opponent action) leaves the set of Nash equilibria unchanged. -/
theorem nash_shift (m n : ℕ) (A B A' B' : ℕ → ℕ → K) (s r : ℕ → K) (x y : ℕ → K)
    (hA : ∀ i j, A' i j = A i j + s j) (hB : ∀ j i, B' j i = B j i + r i)
    (h : IsNash m n A' B' x y) : IsNash m n A B x y :=
  nash_shift' m n A B A' B' s r x y hA hB h

/-- **vertex_enumeration is sound, given Qhull's output describes the polytopes**
    (model of `_ints_arr_to_bits`, the XOR matching with the skip of the zero vertex and the
    `break`, and `_get_mixed_actions`; the labellings are `Nat` bit masks — the code's `uint64`
    masks for `m + n ≤ 63`). If every supplied vertex of either polytope satisfies
    `Vertex0OK` / `Vertex1OK` (non-negative raw coordinates, the payoff inequalities with the
    labelled ones binding, zero only for the zero labelling) for the shifted payoff matrices
    `A'`, `B'`, then every yielded pair is a Nash equilibrium of the original game `(A, B)`. -/
theorem ve_sound (m n : ℕ) (A B A' B' : ℕ → ℕ → K) (s r : ℕ → K)
    (hA : ∀ i j, A' i j = A i j + s j) (hB : ∀ j i, B' j i = B j i + r i)
    (lab0 lab1 : List (List ℕ)) (eqs0 eqs1 : List (List K)) (t0 t1 : K)
    (h0 : ∀ i, i < lab0.length →
      Vertex0OK m n B' ((lab0.map intsToBits).getD i 0) (eqs0.getD i []) t0)
    (h1 : ∀ j, j < lab1.length →
      Vertex1OK m n A' ((lab1.map intsToBits).getD j 0) (eqs1.getD j []) t1)
    (e : List K × List K) (he : e ∈ vertexEnum m n lab0 lab1 eqs0 eqs1 t0 t1) :
    IsNash m n A B (fun i => e.1.getD i 0) (fun j => e.2.getD j 0) := by
  unfold vertexEnum at he
  dsimp only at he
  rw [List.mem_map] at he
  obtain ⟨ij, hij, rfl⟩ := he
  obtain ⟨hi, hj, hnz, hxor⟩ := veMatch_mem m n _ _ ij.1 ij.2 hij
  apply nash_shift m n A B A' B' s r _ _ hA hB
  exact veMixedActions_nash m n A' B' _ _ _ _ t0 t1 hxor hnz
    (h0 ij.1 (by simpa using hi)) (h1 ij.2 (by simpa using hj))

/-- **vertex_enumeration is complete, given Qhull returns the vertices** (all `m`, `n`; T2).
    Let `(x, y)` be a Nash equilibrium of `(A, B)`, `(A', B')` the shifted matrices of
    `_BestResponsePolytope`, `u`, `v` the equilibrium payoffs there. Hypotheses:
    * non-degeneracy at this equilibrium: no label is binding for both points (`hnd`);
    * Qhull's list for `P` contains, at some index `i`, a vertex whose raw coordinates are a
      non-zero multiple of `x` and whose labelling is exactly the set of binding labels of `x`
      (`hr0`, `hm0`, `hh0`); likewise index `j` for `Q` and `y`; and no other vertex of `Q` carries
      the same labelling (`hinj`).
    Then the pair `(x, y)` itself is in the output of `vertexEnum` (matching with skip of the
    zero vertex and `break`, read-out and normalisation included). -/
theorem ve_complete (m n : ℕ) (A B A' B' : ℕ → ℕ → K) (s r : ℕ → K)
    (hA : ∀ i j, A' i j = A i j + s j) (hB : ∀ j i, B' j i = B j i + r i)
    (x y : ℕ → K) (hN : IsNash m n A B x y)
    (lab0 lab1 : List (List ℕ)) (eqs0 eqs1 : List (List K)) (t0 t1 : K)
    (hnd : ∀ k, k < m + n →
      ¬ (LabX m B' x (dotTo n y (payoffVec m B' x)) k ∧ LabY m n A' y (dotTo m x (payoffVec n A' y)) k))
    (i : ℕ) (hi : i < lab0.length) (c0 : K) (hc0 : c0 ≠ 0)
    (hr0 : ∀ t, t < m → rawCoord (eqs0.getD i []) t0 m t = c0 * x t)
    (hm0 : ∀ k, k < m + n → (((lab0.map intsToBits).getD i 0).testBit k = true ↔
      LabX m B' x (dotTo n y (payoffVec m B' x)) k))
    (hh0 : (lab0.map intsToBits).getD i 0 < 2 ^ (m + n))
    (j : ℕ) (hj : j < lab1.length) (c1 : K) (hc1 : c1 ≠ 0)
    (hr1 : ∀ t, t < n → rawCoord (eqs1.getD j []) t1 n t = c1 * y t)
    (hm1 : ∀ k, k < m + n → (((lab1.map intsToBits).getD j 0).testBit k = true ↔
      LabY m n A' y (dotTo m x (payoffVec n A' y)) k))
    (hh1 : (lab1.map intsToBits).getD j 0 < 2 ^ (m + n))
    (hinj : ∀ j', j' < lab1.length →
      (lab1.map intsToBits).getD j' 0 = (lab1.map intsToBits).getD j 0 → j' = j) :
    ∃ e, e ∈ vertexEnum m n lab0 lab1 eqs0 eqs1 t0 t1 ∧
      (∀ t, t < m → e.1.getD t 0 = x t) ∧ (∀ t, t < n → e.2.getD t 0 = y t) := by
  -- the equilibrium of the shifted game
  have hN' : IsNash m n A' B' x y :=
    nash_shift' m n A' B' A B (fun j => - s j) (fun i => - r i) x y
      (fun i j => by rw [hA]; ring) (fun j i => by rw [hB]; ring) hN
  obtain ⟨hx, hy, hAle, hBle⟩ := hN'
  -- every label is binding for at least one of the two points
  have hone : ∀ k, k < m + n → LabX m B' x (dotTo n y (payoffVec m B' x)) k ∨
      LabY m n A' y (dotTo m x (payoffVec n A' y)) k := by
    intro k hk
    by_cases hkm : k < m
    · by_cases h0 : x k = 0
      · exact Or.inl (Or.inl ⟨hkm, h0⟩)
      · exact Or.inr (Or.inl ⟨hkm, nash_support_eq m x _ hx hAle k hkm h0⟩)
    · by_cases h0 : y (k - m) = 0
      · exact Or.inr (Or.inr ⟨by omega, h0⟩)
      · exact Or.inl (Or.inr ⟨by omega, nash_support_eq n y _ hy hBle (k - m) (by omega) h0⟩)
  -- so the two masks are complementary
  have hcomp : ∀ k, k < m + n → ((lab0.map intsToBits).getD i 0).testBit k
      = !((lab1.map intsToBits).getD j 0).testBit k := by
    intro k hk
    by_cases hX : LabX m B' x (dotTo n y (payoffVec m B' x)) k
    · have hb0 := (hm0 k hk).mpr hX
      have hY : ¬ LabY m n A' y (dotTo m x (payoffVec n A' y)) k := fun h => hnd k hk ⟨hX, h⟩
      have hb1 : ((lab1.map intsToBits).getD j 0).testBit k = false := by
        rw [Bool.eq_false_iff]; exact fun h => hY ((hm1 k hk).mp h)
      rw [hb0, hb1]; rfl
    · have hb0 : ((lab0.map intsToBits).getD i 0).testBit k = false := by
        rw [Bool.eq_false_iff]; exact fun h => hX ((hm0 k hk).mp h)
      have hY := (hone k hk).resolve_left hX
      rw [hb0, (hm1 k hk).mpr hY]; rfl
  have hxor := xor_eq_complete (m + n) _ _ hh0 hh1 hcomp
  -- `x` is not the zero vertex
  have hnz : (lab0.map intsToBits).getD i 0 ≠ 2 ^ m - 1 := by
    intro he
    have hsum : ∑ t ∈ range m, x t ≠ 0 := by
      have := hx.2; rw [sumRange_eq_sum] at this; rw [this]; exact one_ne_zero
    obtain ⟨t, ht, hne⟩ := exists_ne_zero_of_sum_ne_zero hsum
    have ht' := mem_range.mp ht
    have hbit : ((lab0.map intsToBits).getD i 0).testBit t = true := by
      rw [he, Nat.testBit_two_pow_sub_one]; simpa using ht'
    rcases (hm0 t (by omega)).mp hbit with ⟨_, h0⟩ | ⟨hge, _⟩
    · exact hne h0
    · omega
  have hmatch := veMatch_complete m n (lab0.map intsToBits) (lab1.map intsToBits) i j
    (by simpa using hi) (by simpa using hj) hnz hxor
    (fun j' hj' h => hinj j' (by simpa using hj') h)
  refine ⟨veMixedActions m n ((lab0.map intsToBits).getD i 0) (eqs0.getD i []) (eqs1.getD j []) t0 t1,
    ?_, ?_⟩
  · unfold vertexEnum
    dsimp only
    rw [List.mem_map]
    exact ⟨(i, j), hmatch, rfl⟩
  · apply veMixedActions_eq m n _ _ _ t0 t1 x y c0 c1 hc0 hc1 hx hy hr0 hr1
    · intro t ht
      rw [hm0 t (by omega)]
      constructor
      · rintro (⟨_, h0⟩ | ⟨hge, _⟩)
        · exact h0
        · omega
      · intro h0; exact Or.inl ⟨ht, h0⟩
    · intro t ht
      have hc := hcomp (m + t) (by omega)
      have hiff : ((lab0.map intsToBits).getD i 0).testBit (m + t) = false ↔
          ((lab1.map intsToBits).getD j 0).testBit (m + t) = true := by
        rw [hc]; cases ((lab1.map intsToBits).getD j 0).testBit (m + t) <;> decide
      rw [hiff, hm1 (m + t) (by omega)]
      constructor
      · rintro (⟨hlt, _⟩ | ⟨_, h0⟩)
        · omega
        · have : m + t - m = t := by omega
          rwa [this] at h0
      · intro h0
        refine Or.inr ⟨by omega, ?_⟩
        have : m + t - m = t := by omega
        rw [this]; exact h0

/-! ### `_BestResponsePolytope.__init__`: what is handed to Qhull (all sizes)

`Bm` is the opponent's `r × c` payoff array. These theorems discharge, from the code's own
preprocessing, what `ve_sound` / `ve_complete` assume about the shifted matrices: they differ
from the payoffs by one constant per own action (`brpShifted r Bm i j = Bm i j + brpShift r Bm j`
by definition), are non-negative and have no zero column. -/

/-- "Shift the payoffs to be nonnegative …" -/
theorem brp_shifted_nonneg (r : ℕ) (Bm : ℕ → ℕ → K) (i j : ℕ) (hi : i < r) :
    0 ≤ brpShifted r Bm i j := brpShifted_nonneg' r Bm i j hi

/-- "… and have no zero column": every column of the shifted array has a positive entry -/
theorem brp_shifted_col_pos (r : ℕ) (hr : 0 < r) (Bm : ℕ → ℕ → K) (j : ℕ) :
    ∃ i, i < r ∧ 0 < brpShifted r Bm i j := brpShifted_col_pos' r hr Bm j

/-- the translation is well defined: `trans_recip > 0` and no division by zero or by a negative
    number in `D[…] /= (trans_recip - row_sums)` -/
theorem brp_denominators_pos (r c : ℕ) (hr : 0 < r) (hc : 0 < c) (Bm : ℕ → ℕ → K) :
    0 < brpTransRecip r c Bm ∧ ∀ i, i < r → 0 < brpTransRecip r c Bm - brpRowSum r c Bm i :=
  brp_denominators_pos' r c hr hc Bm

/-- **The points given to Qhull describe the best-response polytope translated by
    `1/trans_recip`** (class docstring: `z = x − 1/trans_recip`), for both players' layouts
    (`idx = 0`: non-negativity rows first; `idx = 1`: payoff rows first): `z` satisfies
    `D z ≤ 1` row by row iff `x = z + 1/trans_recip` satisfies `x ≥ 0` and `B̂ x ≤ 1` for the
    shifted payoffs `B̂`. -/
theorem brp_points_polytope (idx r c : ℕ) (hidx : idx ≤ 1) (hr : 0 < r) (hc : 0 < c)
    (Bm : ℕ → ℕ → K) (z : ℕ → K) :
    (∀ k, k < r + c → ∑ j ∈ range c, (brpPoints idx r c Bm).get k j * z j ≤ 1) ↔
      (∀ j, j < c → 0 ≤ z j + 1 / brpTransRecip r c Bm) ∧
      (∀ i, i < r → ∑ j ∈ range c, brpShifted r Bm i j * (z j + 1 / brpTransRecip r c Bm) ≤ 1) := by
  have hget : ∀ k j, k < r + c → j < c → (brpPoints idx r c Bm).get k j =
      if (if idx = 0 then c else 0) ≤ k ∧ k < (if idx = 0 then c else 0) + r then
        (brpShifted r Bm (k - (if idx = 0 then c else 0)) j * brpTransRecip r c Bm) /
          (brpTransRecip r c Bm - brpRowSum r c Bm (k - (if idx = 0 then c else 0)))
      else if k - (if idx = 0 then 0 else r) = j then - brpTransRecip r c Bm else 0 := by
    intro k j hk hj
    unfold brpPoints
    exact M.get_tab _ _ _ _ _ hk hj
  -- the two kinds of rows
  have hpay : ∀ k i, k < r + c → i < r →
      ((if idx = 0 then c else 0) ≤ k ∧ k < (if idx = 0 then c else 0) + r) →
      k - (if idx = 0 then c else 0) = i →
      ((∑ j ∈ range c, (brpPoints idx r c Bm).get k j * z j ≤ 1) ↔
        ∑ j ∈ range c, brpShifted r Bm i j * (z j + 1 / brpTransRecip r c Bm) ≤ 1) := by
    intro k i hk hi hcond hki
    rw [← brp_pay_row r c hr hc Bm z i hi]
    have : ∀ j ∈ range c, (brpPoints idx r c Bm).get k j * z j
        = (brpShifted r Bm i j * brpTransRecip r c Bm) / (brpTransRecip r c Bm - brpRowSum r c Bm i) * z j := by
      intro j hj
      rw [hget k j hk (mem_range.mp hj), if_pos hcond, hki]
    rw [sum_congr rfl this]
  have hnn : ∀ k j0, k < r + c → j0 < c →
      ¬ ((if idx = 0 then c else 0) ≤ k ∧ k < (if idx = 0 then c else 0) + r) →
      k - (if idx = 0 then 0 else r) = j0 →
      ((∑ j ∈ range c, (brpPoints idx r c Bm).get k j * z j ≤ 1) ↔
        0 ≤ z j0 + 1 / brpTransRecip r c Bm) := by
    intro k j0 hk hj0 hcond hkj
    rw [← brp_nn_row r c hr hc Bm z j0 hj0]
    have : ∀ j ∈ range c, (brpPoints idx r c Bm).get k j * z j
        = (if j0 = j then - brpTransRecip r c Bm else 0) * z j := by
      intro j hj
      rw [hget k j hk (mem_range.mp hj), if_neg hcond, hkj]
    rw [sum_congr rfl this]
  rcases (by omega : idx = 0 ∨ idx = 1) with rfl | rfl
  · simp only [if_true] at hpay hnn
    constructor
    · intro h
      refine ⟨fun j hj => (hnn j j (by omega) hj (by omega) (by omega)).mp (h j (by omega)),
        fun i hi => (hpay (c + i) i (by omega) hi (by omega) (by omega)).mp (h (c + i) (by omega))⟩
    · rintro ⟨h1, h2⟩ k hk
      by_cases hkc : k < c
      · exact (hnn k k hk hkc (by omega) (by omega)).mpr (h1 k hkc)
      · exact (hpay k (k - c) hk (by omega) (by omega) rfl).mpr (h2 (k - c) (by omega))
  · simp only [if_neg (by omega : ¬ (1 = 0))] at hpay hnn
    constructor
    · intro h
      refine ⟨fun j hj => (hnn (r + j) j (by omega) hj (by omega) (by omega)).mp (h (r + j) (by omega)),
        fun i hi => (hpay i i (by omega) hi (by omega) (by omega)).mp (h i (by omega))⟩
    · rintro ⟨h1, h2⟩ k hk
      by_cases hkr : k < r
      · exact (hpay k k hk hkr (by omega) (by omega)).mpr (h2 k hkr)
      · exact (hnn k (k - r) hk (by omega) (by omega) rfl).mpr (h1 (k - r) (by omega))

/-- the argument checks of `_BestResponsePolytope.__init__`: accepted iff the input has a
    `num_opponents` attribute equal to 1 -/
theorem brp_arg_check_iff (has : Bool) (k : ℕ) : brpArgCheck has k = "ok" ↔ has = true ∧ k = 1 := by
  unfold brpArgCheck
  cases has <;> by_cases hk : k = 1 <;> simp [hk]

/-- non-vacuity (player 1's payoffs of von Stengel's game, and a matrix with a negative and a
    constant non-positive column): shifts, `trans_recip`, one entry of `D` -/
example : brpTransRecip 2 3 (fnOfMat [[3, 2, 3], [2, 6, 1]] : ℕ → ℕ → ℚ) = 18 ∧
    (brpPoints 0 2 3 (fnOfMat [[3, 2, 3], [2, 6, 1]] : ℕ → ℕ → ℚ)).get 3 0 = 27 / 5 ∧
    (List.range 3).map (brpShift 2 (fnOfMat [[-1, 0, 2], [3, 0, 2]] : ℕ → ℕ → ℚ)) = [1, 1, 0] := by
  decide +kernel

/-! ### the bit masks of `_vertex_enumeration_gen`, read as label sets (all `m + n`) -/

/-- `_ints_arr_to_bits`: bit `k` of the mask is set iff `k` is one of the labels -/
theorem intsToBits_testBit (l : List ℕ) (k : ℕ) : (intsToBits l).testBit k = true ↔ k ∈ l :=
  intsToBits_testBit' l k

/-- labels below `N` give a mask below `2^N` (for `N ≤ 64` it fits the code's `uint64`) -/
theorem intsToBits_lt (l : List ℕ) (N : ℕ) (h : ∀ k, k ∈ l → k < N) : intsToBits l < 2 ^ N :=
  intsToBits_lt' l N h

/-- the test `labelings_bits_tup[0][i] == ZERO_LABELING0_BITS` skips exactly the vertices whose
    label set is `{0, …, m-1}` (the zero vertex of `P`) -/
theorem ve_zero_labelling_iff (m : ℕ) (lab : List ℕ) :
    intsToBits lab = 2 ^ m - 1 ↔ ∀ k, k ∈ lab ↔ k < m := by
  constructor
  · intro h k
    rw [← intsToBits_testBit, h, Nat.testBit_two_pow_sub_one]
    simp
  · intro h
    apply Nat.eq_of_testBit_eq
    intro k
    rw [Nat.testBit_two_pow_sub_one, Bool.eq_iff_iff, intsToBits_testBit, h k]
    simp

/-- the test `xor == COMPLETE_LABELING_BITS` holds exactly when the two label sets are
    complementary in `{0, …, m+n-1}`: every label belongs to exactly one of them -/
theorem ve_xor_complete_iff (N : ℕ) (l0 l1 : List ℕ) (h0 : ∀ k, k ∈ l0 → k < N)
    (h1 : ∀ k, k ∈ l1 → k < N) :
    intsToBits l0 ^^^ intsToBits l1 = 2 ^ N - 1 ↔ ∀ k, k < N → (k ∈ l0 ↔ k ∉ l1) := by
  constructor
  · intro h k hk
    have hc := xor_complete N _ _ h k hk
    rw [← intsToBits_testBit, ← intsToBits_testBit, hc]
    cases (intsToBits l1).testBit k <;> simp
  · intro h
    apply xor_eq_complete N _ _ (intsToBits_lt l0 N h0) (intsToBits_lt l1 N h1)
    intro k hk
    have := h k hk
    rw [← intsToBits_testBit, ← intsToBits_testBit] at this
    cases hb1 : (intsToBits l1).testBit k <;> cases hb0 : (intsToBits l0).testBit k <;>
      simp [hb0, hb1] at this ⊢

example : intsToBits [2, 0, 1] = 2 ^ 3 - 1 ∧ intsToBits [0, 3, 4] ^^^ intsToBits [1, 2] = 2 ^ 5 - 1 := by
  decide

/-- … at most once per vertex of `P`: the `break` makes every vertex of the first list
    contribute at most one pair, so with a duplicate-free vertex list no equilibrium is yielded
    twice -/
theorem ve_once (m n : ℕ) (bits0 bits1 : List ℕ) : ((veMatch m n bits0 bits1).map (·.1)).Nodup :=
  veMatch_fst_nodup m n bits0 bits1

/-- non-vacuity of `ve_complete`: the 1×1 game with payoffs 1 (vertices `0` and `1` of
    `P = Q = [0,1]`, labellings `{0},{1}` and `{1},{0}`) -/
example : ∃ e, e ∈ vertexEnum 1 1 [[0], [1]] [[1], [0]] [[0, 0], [1, 0]] [[0, 0], [1, 0]] (1 : ℚ) 1 ∧
    (∀ t, t < 1 → e.1.getD t 0 = (fun _ => (1 : ℚ)) t) ∧ (∀ t, t < 1 → e.2.getD t 0 = (fun _ => (1 : ℚ)) t) :=
  ve_complete 1 1 (fun _ _ => 1) (fun _ _ => 1) (fun _ _ => 1) (fun _ _ => 1) (fun _ => 0) (fun _ => 0)
    (by intro _ _; norm_num) (by intro _ _; norm_num) (fun _ => 1) (fun _ => 1)
    (by unfold IsNash IsProb; decide +kernel)
    [[0], [1]] [[1], [0]] [[0, 0], [1, 0]] [[0, 0], [1, 0]] 1 1
    (by unfold LabX LabY; decide +kernel)
    1 (by decide) 1 one_ne_zero (by unfold rawCoord; decide +kernel)
    (by unfold LabX; decide +kernel) (by decide)
    1 (by decide) 1 one_ne_zero (by unfold rawCoord; decide +kernel)
    (by unfold LabY; decide +kernel) (by decide)
    (by decide)

/-- non-vacuity of the hypotheses of `ve_sound`: the 1×1 game with payoffs 1, polytopes
    `P = Q = [0, 1]`, vertices `0` (labelled by its own non-negativity constraint) and `1`
    (labelled by the payoff constraint) -/
example : Vertex0OK 1 1 (fun _ _ => (1 : ℚ)) 2 [1, 0] 1 :=
  ⟨1, by decide +kernel, by decide +kernel, by decide +kernel, by decide +kernel,
    by intro _; simp [rawCoord]⟩
example : Vertex1OK 1 1 (fun _ _ => (1 : ℚ)) 1 [1, 0] 1 :=
  ⟨1, by decide +kernel, by decide +kernel, by decide +kernel, by decide +kernel,
    by intro _; simp [rawCoord]⟩
example : vertexEnum 1 1 [[0], [1]] [[1], [0]] [[0, 0], [1, 0]] [[0, 0], [1, 0]] (1 : ℚ) 1
    = [([1], [1])] := by decide +kernel

/-! ## Lemke-Howson -/

/-- **Invariant of the complementary pivoting loop** (all `m, n ≥ 1`, all payoffs, all initial
    pivots, all iteration bounds, i.e. all histories; exact idealisation
    `tol_piv = tol_ratio_diff = 0`): after `_lemke_howson_tbl` both tableaux are in canonical
    form for their bases, have non-negative right-hand sides and the same solution sets as the
    initial tableaux `B̂x + s = 1`, `r + Ây = 1`; and if the run reports convergence, every
    label `k` is non-basic in at least one tableau (the pair of basic solutions is completely
    labelled). Part of the proof: the polytopes are bounded, so every ratio test returns a legal
    pivot row — also when the code's `found` flag, which the code ignores, is `False` because
    the lexicographic tie-breaking left several rows (`col_has_pos`, `lexMinRatio_row`). -/
theorem lh_tbl_invariant (m n : ℕ) (hm : 1 ≤ m) (hn : 1 ≤ n) (A B : ℕ → ℕ → K) (ip maxIter : ℕ)
    (hip : ip < m + n) :
    LHBase m n A B (lhTbl m n A B ip maxIter 0 0).2 ∧
    ((lhTbl m n A B ip maxIter 0 0).1 = true →
      ∀ k, ¬ InB (lhTbl m n A B ip maxIter 0 0).2.b0 k ∨ ¬ InB (lhTbl m n A B ip maxIter 0 0).2.b1 k) :=
  lhTbl_inv m n hm hn A B ip maxIter hip

/-- **A converged run never ends at the artificial equilibrium** (all `m, n ≥ 1`, all payoffs,
    every initial pivot, every iteration bound; tolerances 0): when `_lemke_howson_tbl` reports
    convergence, the basic values of player 0's action variables do not sum to 0, i.e. the
    returned `x` was normalised and is not the zero vector. Proof (Lemmas C05Lex … C05Final):
    every tableau keeps its rows in the span of the initial rows and lexicographically positive
    along `rhs, slack_start, slack_start+1, …`; hence the lexicographic ratio test always reports
    `found` and returns the unique strict lexicographic minimiser (`tinv_step`); the step is
    reversible (`trev_row`, `trev_tab`) and independent of the order of the rows (`tsim_step`);
    a final state with `x = 0` is the initial state up to the order of the rows (`art_ssim`);
    and a path that came back to its start would, read backwards, be the path read forwards,
    which is impossible in the middle (odd length) or at the last step (even length)
    (`mirror`, `no_return`). -/
theorem lh_never_artificial (m n : ℕ) (hm : 1 ≤ m) (hn : 1 ≤ n) (A B : ℕ → ℕ → K)
    (ip maxIter : ℕ) (hip : ip < m + n) (hconv : (lhTbl m n A B ip maxIter 0 0).1 = true) :
    basicSum (lhTbl m n A B ip maxIter 0 0).2.T0 (lhTbl m n A B ip maxIter 0 0).2.b0 0 m ≠ 0 :=
  lhTbl_nonzero m n hm hn A B ip maxIter hip hconv

/-- **lemke_howson is sound** (every game with `m, n ≥ 1`, every initial pivot, with or without
    capping, any `max_iter`; exact arithmetic, tolerances 0): whenever the routine reports
    convergence, the returned pair is a Nash equilibrium of the given game `(A, B)` — not only
    of the shifted one in the tableaux. No further hypothesis: that no ratio test fails
    (boundedness, no unresolved lexicographic tie) and that the run does not end at the
    artificial equilibrium (`lh_never_artificial`) are proved. With capping every capped run
    starts from freshly initialised tableaux, so the per-run argument applies to the run whose
    state is returned. -/
theorem lh_sound (m n : ℕ) (hm : 1 ≤ m) (hn : 1 ≤ n) (A B : ℕ → ℕ → K)
    (initPivot maxIter capping : ℕ) (hip : initPivot < m + n)
    (hconv : (lhCapping m n A B initPivot maxIter capping 0 0).converged = true) :
    IsNash m n A B
      (fun i => (lhMixedActions m n (lhCapping m n A B initPivot maxIter capping 0 0).st).1.getD i 0)
      (fun j => (lhMixedActions m n (lhCapping m n A B initPivot maxIter capping 0 0).st).2.getD j 0) := by
  unfold lhCapping at hconv ⊢
  obtain ⟨ip, mi, hipl, hc, hst⟩ :=
    lhCapLoop_is_tbl m n A B maxIter capping (0 : K) 0 (m + n - 1) initPivot maxIter 0 hip
  rw [hc] at hconv
  rw [hst]
  obtain ⟨hbase, hlab⟩ := lhTbl_inv m n hm hn A B ip mi hipl
  exact lhFinal_nash m n A B _ hbase (hlab hconv) (lhTbl_nonzero m n hm hn A B ip mi hipl hconv)

/-! ### the step counter and the capping loop (every scalar type, every tolerance) -/

/-- `_lemke_howson_tbl` makes at least one pivoting step, at most `max(max_iter, 1)`, and at
    least `max_iter` when it does not report convergence -/
theorem lh_num_iter_bounds (m n : ℕ) (A B : ℕ → ℕ → K) (ip maxIter : ℕ) (tp td : K) :
    1 ≤ (lhTbl m n A B ip maxIter tp td).2.numIter ∧
    (lhTbl m n A B ip maxIter tp td).2.numIter ≤ max maxIter 1 ∧
    ((lhTbl m n A B ip maxIter tp td).1 = false →
      maxIter ≤ (lhTbl m n A B ip maxIter tp td).2.numIter) :=
  lhTbl_numIter m n A B ip maxIter tp td

/-- **`capping=None` is the standard Lemke-Howson algorithm** (docstring: "If set equal to
    `max_iter`, then the routine is equivalent to the standard Lemke-Howson algorithm"): for
    every `capping ≥ max_iter` the capping loop performs exactly one run from the given initial
    pivot with the bound `max_iter`, and reports that run's flag, state, counter and pivot. -/
theorem lh_capping_none_is_plain (m n : ℕ) (hm : 1 ≤ m) (hn : 1 ≤ n) (A B : ℕ → ℕ → K)
    (ip maxIter capping : ℕ) (hcap : maxIter ≤ capping) (tp td : K) :
    (lhCapping m n A B ip maxIter capping tp td).converged = (lhTbl m n A B ip maxIter tp td).1 ∧
    (lhCapping m n A B ip maxIter capping tp td).st = (lhTbl m n A B ip maxIter tp td).2 ∧
    (lhCapping m n A B ip maxIter capping tp td).init = ip ∧
    (lhCapping m n A B ip maxIter capping tp td).numIter = (lhTbl m n A B ip maxIter tp td).2.numIter :=
  lhCapping_of_ge m n hm hn A B ip maxIter capping hcap tp td

/-- with any capping the reported initial pivot `res.init` is a valid label `< m + n` -/
theorem lh_capping_init_lt (m n : ℕ) (A B : ℕ → ℕ → K) (ip maxIter capping : ℕ) (hip : ip < m + n)
    (tp td : K) : (lhCapping m n A B ip maxIter capping tp td).init < m + n := by
  unfold lhCapping
  exact lhCapLoop_init_lt m n A B maxIter capping tp td _ ip maxIter 0 hip

/-- non-vacuity: with `capping = 1` the loop does move on (von Stengel's game, pivot 1:
    four capped runs fail, the fifth from pivot 0 converges), with `capping = max_iter` it does not -/
example :
    (lhCapping 3 2 (fnOfMat [[3, 3], [2, 5], [0, 6]]) (fnOfMat [[3, 2, 3], [2, 6, 1]])
      1 1000 1 (0 : ℚ) 0).init = 0 ∧
    (lhCapping 3 2 (fnOfMat [[3, 3], [2, 5], [0, 6]]) (fnOfMat [[3, 2, 3], [2, 6, 1]])
      1 1000 1000 (0 : ℚ) 0).init = 1 := by
  decide +kernel

/-! ### histories on one game object -/

/-- a history of payoff writes keeps the numbers of actions -/
theorem game_run_dims (g : Game K) (ops : List (GOp K)) : (g.run ops).m = g.m ∧ (g.run ops).n = g.n := by
  unfold Game.run
  induction ops generalizing g with
  | nil => exact ⟨rfl, rfl⟩
  | cons o os ih =>
    rw [List.foldl_cons]
    obtain ⟨h1, h2⟩ := ih (g.apply o)
    cases o <;> exact ⟨h1, h2⟩

/-- solving in the middle of a history is solving the object as it then is: the state is the
    current payoffs and nothing else -/
theorem game_run_append (g : Game K) (ops1 ops2 : List (GOp K)) :
    g.run (ops1 ++ ops2) = (g.run ops1).run ops2 := by
  unfold Game.run; rw [List.foldl_append]

/-- a write is seen by the next read, and only at the written entry -/
theorem game_setItem_read (g : Game K) (i j : ℕ) (a b : K) (i' j' : ℕ) :
    (g.apply (.setItem i j a b)).A i' j' = (if i' = i ∧ j' = j then a else g.A i' j') ∧
    (g.apply (.setItem i j a b)).B j' i' = (if j' = j ∧ i' = i then b else g.B j' i') := ⟨rfl, rfl⟩

/-- **History theorem for Lemke-Howson**: after ANY history of payoff writes on one game
    object (`g[i,j] = …`, in-place edits of either player's array), in any order and interleaved
    with any number of earlier solves (which, being pure, do not appear in the state), a
    converged `lemke_howson` returns a Nash equilibrium of the CURRENT payoffs. The same holds
    verbatim for `support_enum_sound_exact`, `ve_sound`, `pure_nash_brute_exact`: each is stated
    for arbitrary payoff functions and therefore for `(g.run ops).A`, `(g.run ops).B`. -/
theorem lh_sound_history (g : Game K) (ops : List (GOp K)) (hm : 1 ≤ g.m) (hn : 1 ≤ g.n)
    (initPivot maxIter capping : ℕ) (hip : initPivot < g.m + g.n)
    (hconv : ((g.run ops).lemkeHowson initPivot maxIter capping 0 0).converged = true) :
    IsNash g.m g.n (g.run ops).A (g.run ops).B
      (fun i => (lhMixedActions g.m g.n ((g.run ops).lemkeHowson initPivot maxIter capping 0 0).st).1.getD i 0)
      (fun j => (lhMixedActions g.m g.n ((g.run ops).lemkeHowson initPivot maxIter capping 0 0).st).2.getD j 0) := by
  obtain ⟨e1, e2⟩ := game_run_dims g ops
  unfold Game.lemkeHowson at hconv ⊢
  rw [e1, e2] at hconv ⊢
  exact lh_sound g.m g.n hm hn _ _ initPivot maxIter capping hip hconv

/-- non-vacuity: von Stengel's example, initial pivot 1: converged after 4 pivots, no failed
    ratio test, and the result `((0,1/3,2/3),(1/3,2/3))` is normalised -/
example :
    let o := lhCapping 3 2 (fnOfMat [[3, 3], [2, 5], [0, 6]]) (fnOfMat [[3, 2, 3], [2, 6, 1]])
      1 1000 1000 (0 : ℚ) 0
    o.converged = true ∧ o.numIter = 4 ∧ basicSum o.st.T0 o.st.b0 0 3 = 3/8 ∧
      lhMixedActions 3 2 o.st = ([0, 1/3, 2/3], [1/3, 2/3]) := by
  decide +kernel

/-! ## pure_nash_brute -/

/-- **pure_nash_brute returns exactly the pure equilibria** (any number of players, any
    numbers of actions): a list `a` is in the output iff it is an action profile and no player
    gains more than `tol` by a unilateral deviation. (`payoffAt nums pay i a b` is player `i`'s
    payoff when he plays `b` against the others' actions in `a`.) -/
theorem pure_nash_brute_exact (nums : List ℕ) (pay : List (List K)) (tol : K) (a : List ℕ) :
    a ∈ pureNashBrute nums pay tol ↔
      IsProfile nums a ∧
      ∀ i, i < nums.length → ∀ b, b < nums.getD i 0 →
        payoffAt nums pay i a b ≤ payoffAt nums pay i a (a.getD i 0) + tol := by
  unfold pureNashBrute
  rw [List.mem_filter, mem_profiles]
  constructor
  · rintro ⟨hp, hn⟩
    refine ⟨hp, ?_⟩
    intro i hi
    unfold isNashPure at hn
    rw [List.all_eq_true] at hn
    have hbr := hn i (List.mem_range.mpr hi)
    have hpos : 0 < nums.getD i 0 := Nat.lt_of_le_of_lt (Nat.zero_le _) (hp.2 i hi)
    exact (isBR_iff nums pay tol a i hpos).mp hbr
  · rintro ⟨hp, hdev⟩
    refine ⟨hp, ?_⟩
    unfold isNashPure
    rw [List.all_eq_true]
    intro i hi
    have hi' := List.mem_range.mp hi
    have hpos : 0 < nums.getD i 0 := Nat.lt_of_le_of_lt (Nat.zero_le _) (hp.2 i hi')
    exact (isBR_iff nums pay tol a i hpos).mpr (hdev i hi')

/-- … and each of them exactly once. -/
theorem pure_nash_brute_nodup (nums : List ℕ) (pay : List (List K)) (tol : K) :
    (pureNashBrute nums pay tol).Nodup :=
  (profiles_nodup nums).filter _

/-- **pure_nash_brute agrees with the mixed-equilibrium specification** (two players, all
    `m`, `n`, exact test `tol = 0`): with the two payoff arrays flattened in C order as
    `NormalFormGame` stores them (`A` is `m × n`, `B` is `n × m`, own action first), the profile
    `(i, j)` is returned iff it is a valid profile and the pair of degenerate mixed actions
    `(δ_i, δ_j)` is a Nash equilibrium in the sense `IsNash` used for `lemke_howson`,
    `support_enumeration` and `vertex_enumeration`. -/
theorem pure_nash_brute_two_player (m n : ℕ) (A B : ℕ → ℕ → K) (i j : ℕ) :
    [i, j] ∈ pureNashBrute [m, n] [flat m n A, flat n m B] 0 ↔
      i < m ∧ j < n ∧ IsNash m n A B (delta i) (delta j) := by
  rw [pure_nash_brute_exact]
  constructor
  · rintro ⟨⟨_, hb⟩, hdev⟩
    have hi : i < m := by simpa using hb 0 (by simp)
    have hj : j < n := by simpa using hb 1 (by simp)
    refine ⟨hi, hj, (isNash_delta_iff m n A B i j hi hj).mpr ⟨?_, ?_⟩⟩
    · intro i' hi'
      have := hdev 0 (by simp) i' (by simpa using hi')
      rw [payoffAt_two_0, payoffAt_two_0, add_zero] at this
      simp only [List.getD_cons_zero] at this
      rwa [flat_getD m n A i' j hi' hj, flat_getD m n A i j hi hj] at this
    · intro j' hj'
      have := hdev 1 (by simp) j' (by simpa using hj')
      rw [payoffAt_two_1, payoffAt_two_1, add_zero] at this
      simp only [List.getD_cons_succ, List.getD_cons_zero] at this
      rwa [flat_getD n m B j' i hj' hi, flat_getD n m B j i hj hi] at this
  · rintro ⟨hi, hj, hN⟩
    obtain ⟨h0, h1⟩ := (isNash_delta_iff m n A B i j hi hj).mp hN
    refine ⟨⟨rfl, ?_⟩, ?_⟩
    · intro k hk
      have hk' : k < 2 := by simpa using hk
      rcases (by omega : k = 0 ∨ k = 1) with rfl | rfl
      · simpa using hi
      · simpa using hj
    · intro k hk b hb
      have hk' : k < 2 := by simpa using hk
      rcases (by omega : k = 0 ∨ k = 1) with rfl | rfl
      · have hb' : b < m := by simpa using hb
        rw [payoffAt_two_0, payoffAt_two_0, add_zero]
        simp only [List.getD_cons_zero]
        rw [flat_getD m n A b j hb' hj, flat_getD m n A i j hi hj]
        exact h0 b hb'
      · have hb' : b < n := by simpa using hb
        rw [payoffAt_two_1, payoffAt_two_1, add_zero]
        simp only [List.getD_cons_succ, List.getD_cons_zero]
        rw [flat_getD n m B b i hb' hi, flat_getD n m B j i hj hi]
        exact h1 b hb'

/-- the same with the code's tolerance (`tol` of `Player` / the `tol=` argument): `(i, j)` is
    returned iff it is a valid profile and an ε-equilibrium `IsNashTol tol` -/
theorem pure_nash_brute_two_player_tol (tol : K) (m n : ℕ) (A B : ℕ → ℕ → K) (i j : ℕ) :
    [i, j] ∈ pureNashBrute [m, n] [flat m n A, flat n m B] tol ↔
      i < m ∧ j < n ∧ IsNashTol tol m n A B (delta i) (delta j) := by
  rw [pure_nash_brute_exact]
  constructor
  · rintro ⟨⟨_, hb⟩, hdev⟩
    have hi : i < m := by simpa using hb 0 (by simp)
    have hj : j < n := by simpa using hb 1 (by simp)
    refine ⟨hi, hj, (isNashTol_delta_iff tol m n A B i j hi hj).mpr ⟨?_, ?_⟩⟩
    · intro i' hi'
      have := hdev 0 (by simp) i' (by simpa using hi')
      rw [payoffAt_two_0, payoffAt_two_0] at this
      simp only [List.getD_cons_zero] at this
      rwa [flat_getD m n A i' j hi' hj, flat_getD m n A i j hi hj] at this
    · intro j' hj'
      have := hdev 1 (by simp) j' (by simpa using hj')
      rw [payoffAt_two_1, payoffAt_two_1] at this
      simp only [List.getD_cons_succ, List.getD_cons_zero] at this
      rwa [flat_getD n m B j' i hj' hi, flat_getD n m B j i hj hi] at this
  · rintro ⟨hi, hj, hN⟩
    obtain ⟨h0, h1⟩ := (isNashTol_delta_iff tol m n A B i j hi hj).mp hN
    refine ⟨⟨rfl, ?_⟩, ?_⟩
    · intro k hk
      have hk' : k < 2 := by simpa using hk
      rcases (by omega : k = 0 ∨ k = 1) with rfl | rfl
      · simpa using hi
      · simpa using hj
    · intro k hk b hb
      have hk' : k < 2 := by simpa using hk
      rcases (by omega : k = 0 ∨ k = 1) with rfl | rfl
      · have hb' : b < m := by simpa using hb
        rw [payoffAt_two_0, payoffAt_two_0]
        simp only [List.getD_cons_zero]
        rw [flat_getD m n A b j hb' hj, flat_getD m n A i j hi hj]
        exact h0 b hb'
      · have hb' : b < n := by simpa using hb
        rw [payoffAt_two_1, payoffAt_two_1]
        simp only [List.getD_cons_succ, List.getD_cons_zero]
        rw [flat_getD n m B b i hb' hi, flat_getD n m B j i hj hi]
        exact h1 b hb'

/-- non-vacuity: with `tol = 1` the profile `(0, 1)` of this game is returned although player 1
    could gain 1 by deviating; with `tol = 0` it is not -/
example : ([0, 1] ∈ pureNashBrute [2, 2] [flat 2 2 (fnOfMat [[0, 0], [0, 0]]), flat 2 2 (fnOfMat [[1, 0], [0, 0]])] (1 : ℚ)) ∧
    ¬ ([0, 1] ∈ pureNashBrute [2, 2] [flat 2 2 (fnOfMat [[0, 0], [0, 0]]), flat 2 2 (fnOfMat [[1, 0], [0, 0]])] (0 : ℚ)) := by
  decide +kernel

/-- non-vacuity: the Prisoners' Dilemma through `flat` -/
example : pureNashBrute [2, 2] [flat 2 2 (fnOfMat [[1, -2], [3, 0]]), flat 2 2 (fnOfMat [[1, -2], [3, 0]])]
    (0 : ℚ) = [[1, 1]] := by decide +kernel

/-- non-vacuity: in the Prisoners' Dilemma `(1,1)` is returned and `(0,0)` is not -/
example : pureNashBrute [2, 2] [[1, -2, 3, 0], [1, -2, 3, 0]] (0 : ℚ) = [[1, 1]] := by decide +kernel

end QE.C05
