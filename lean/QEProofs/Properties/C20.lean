/-
  Property C20 — learning dynamics keep a valid state along every history.
  Theorems about the definitions of QEModel.C20 (the ones `qedriver_c20` executes).

  Reading guide.  Every random choice of the code is an explicit input of the model:
  `inp.p` (revising player index), `inp.u` (KMR coin), `inp.sample` (SamplingBRD sample),
  payoff perturbations, logit uniforms, and the on-demand stream `ri` of scalar `randint` draws.
  The theorems quantify over *all* such inputs, so they hold along every history.

  Totalised reads.  `pick` reads `s.getD r 0` for a drawn index `r`; for `r ≥ len s` (which
  `randint(len s)` never returns) the model answers action 0.  The *validity* theorems
  (`states_valid`, `fpStates_prob`, `liStates_range`, …) do not need to exclude this — any in-range
  action keeps the state valid — and are stated for every stream (entries `< n` where KMR's
  `randint(n)` is concerned, see the counter-example in the examples section).  The theorems that
  say *which* action is chosen (`*_is_best_response`) carry the guard `r < len s` explicitly, and
  the `tie_breaking='smallest'` theorems do not touch the stream.  Reads of payoff rows /
  adjacency rows (`adj.getD i []`) are in range whenever `i < N = adj.length`, as in the code
  (which raises `IndexError` otherwise); the time-series model `series` returns `none` exactly
  where the code raises (`series_isSome`, `series_none_of_oob`).

  Sections: BRD/KMR/SamplingBRD (T1 `brd_invariant` = `locate_spec` + `stepK_valid` +
  `states_valid` + `brd_smallest_exact` + `kmr_step_cases` + `sbrd_step`), fictitious play
  (T1 `fp_beliefs_simplex` = `fpStep_prob`/`fpStates_prob`/`fpStep_smallest_exact`, N players:
  `fpStatesN_prob`), local interaction (`liStates_range`, `li_uses_old_profile`,
  `li_async_changes_only_revisers`), logit dynamics (`logitStep_range`, `logitStates_inRange`),
  the search model (`locate_is_searchsorted`), determinism (`stepK_smallest_stream_indep`).
  Growth round: `payoffVecN_expected` / `payoffVecN_three_players` (the N-player `payoff_vector` IS the
  expected payoff; previously listed as not proved), `fpStepN_smallest_expected_best_response`,
  `fpStepN_random_expected_best_response` (guard `BrsGuard`), `fp_empirical_frequency` (decreasing
  gain: beliefs are running averages along every history), `logitChoice_eq_iff` (inverse CDF:
  action `a` iff `cdf[a-1] ≤ u·cdf[-1] < cdf[a]`), `stepK_l1` (ℓ¹ distance 0 or 2 per period).
  Growth round 2 (model growth): the entry points `LocalInteraction.play` / `time_series` with their own
  argument handling (`playSchedule`, `tsArgAt`, `tsPeriod`, `tsSchedule`, `liRun`, `liPlayE`, `liRows`,
  `liTimeSeriesE`; driver op `lientry`): `liPlayE_error_iff`, `playSchedule_simultaneous`,
  `playSchedule_asynchronous_seq`, `liPlayE_range`, `tsSchedule_ok_iff`, `liTimeSeriesE_rows`,
  `list_entry_sequential_vs_simultaneous`.
-/
import QEModel.C20
import QEProofs.Lemmas.C20Brd
import QEProofs.Lemmas.C20Br
import QEProofs.Lemmas.C20Fp
import QEProofs.Lemmas.C20FpN
import QEProofs.Lemmas.C20Exp
import QEProofs.Lemmas.C20Li
import QEProofs.Lemmas.C20Entry
import QEProofs.Lemmas.C20Logit
import QEProofs.Lemmas.C20Search
import Mathlib.Data.List.Forall2
import Mathlib.Algebra.Order.Field.Basic
import Mathlib.Tactic.FieldSimp
import Mathlib.Tactic.LinearCombination
import Mathlib.Algebra.Order.Ring.Int
import Mathlib.Algebra.Order.Ring.Rat
namespace QE.C20

variable {K : Type} [CommRing K] [LinearOrder K] [IsStrictOrderedRing K]

/-- (used by the history example) the coordination game with payoffs (2, 1) -/
def exG0 : Game Int := ⟨[[2, 0], [0, 1]], 0, false⟩

/-! ## What "best response" means in the model -/

omit [LinearOrder K] [IsStrictOrderedRing K] in
/-- entry `i` of the payoff vector is the expected payoff `Σ_j A[i][j]·x[j]` of own action `i` -/
theorem payoffVec_spec (A : List (List K)) (x : List K) (i : Nat) (hi : i < A.length) :
    (payoffVec A x).length = A.length ∧
    (payoffVec A x).getD i 0 = (List.zipWith (· * ·) (A.getD i []) x).sum := by
  have hdot : ∀ (r y : List K), dot r y = (List.zipWith (· * ·) r y).sum := by
    intro r
    induction r with
    | nil => intro y; simp [dot]
    | cons a t ih =>
      intro y
      cases y with
      | nil => simp [dot]
      | cons b u => simp [dot, ih]
  refine ⟨by simp [payoffVec], ?_⟩
  simp [payoffVec, List.getD_eq_getElem?_getD, hi, hdot]

omit [IsStrictOrderedRing K] in
/-- `maxL` is the maximum of a non-empty payoff vector: attained, and an upper bound -/
theorem maxL_is_max (pv : List K) (h : pv ≠ []) : maxL pv ∈ pv ∧ ∀ v ∈ pv, v ≤ maxL pv :=
  ⟨maxL_mem pv h, fun v hv => le_maxL pv v hv⟩

omit [IsStrictOrderedRing K] in
/-- the set of best responses: exactly the own actions whose payoff is within `tol` of the maximum
    (`np.where(payoff_vector >= payoff_vector.max() - tol)[0]`), listed in increasing order -/
theorem brSet_spec (pv : List K) (tol : K) :
    (∀ i, i ∈ brSet pv tol ↔ i < pv.length ∧ maxL pv - tol ≤ pv.getD i 0) ∧
    (brSet pv tol).Pairwise (· < ·) := by
  refine ⟨fun i => by simp [brSet], ?_⟩
  unfold brSet
  exact List.Pairwise.filter _ List.pairwise_lt_range

/-! ## BRD / KMR / SamplingBRD -/

/-- **The revising player's action.** On a valid state (non-negative counts of length `n` summing to
    `N`) and a player index `0 ≤ p < N`, `searchsorted(cumsum, p, side='right')` returns an action
    `a < n` whose count is positive (so the decrement never goes below 0), namely the action of the
    `p`-th player when players are ordered by action. -/
theorem locate_spec (N : Int) (n : Nat) (d : List Int) (p : Int) (hv : Valid N n d)
    (h0 : 0 ≤ p) (hp : p < N) :
    locate d p < n ∧ 0 < d.getD (locate d p) 0 ∧
      (d.take (locate d p)).sum ≤ p ∧ p < (d.take (locate d p + 1)).sum := by
  obtain ⟨hl, hnn, hs⟩ := hv
  have := searchRight_cumsumFrom d 0 p hnn h0 (by omega)
  simp only [Int.zero_add] at this
  unfold locate cumsum
  exact ⟨by omega, this.2.1, this.2.2.1, this.2.2.2⟩

/-- a player index `p ≥ N` makes the search run off the end: `action = num_actions`
    (in the code: `IndexError` at `action_dist[action] -= 1`) -/
theorem locate_oob (N : Int) (n : Nat) (d : List Int) (p : Int) (hv : Valid N n d) (hp : N ≤ p) :
    locate d p = d.length := by
  obtain ⟨_, hnn, hs⟩ := hv
  exact searchRight_cumsumFrom_ge d 0 p hnn (by omega)

example : Valid 5 3 [2, 0, 3] := by
  refine ⟨rfl, ?_, rfl⟩
  intro j hj
  have : j = 0 ∨ j = 1 ∨ j = 2 := by simp at hj; omega
  rcases this with rfl | rfl | rfl <;> decide
example : locate [2, 0, 3] 2 = 2 := by decide   -- skips the empty action 1
example : locate [2, 0, 3] 5 = 3 := by decide   -- off the end

/-- **Every variant of `play` moves exactly one player**: for an in-range action `a`, the result of
    `BRD.play`, `KMR.play` (mutation or not) and `SamplingBRD.play` is `move d a b` (one player
    removed from `a`, one added to `b`) for some action `b < n`; and it consumes a prefix of the
    `randint` stream.  Holds for every tie-breaking mode, coin, sample and stream whose entries are
    `< n` (what `randint(len)`/`randint(n)` return). -/
theorem playK_is_move (ι : Int → K) (G : Game K) (k : Kind K) (inp : Inp K) (a : Nat) (d : List Int)
    (ri : List Nat) (hA : G.A.length = d.length) (hn : 0 < d.length) (hri : ∀ r ∈ ri, r < d.length) :
    ∃ b, b < d.length ∧ (playK ι G k inp a d ri).1 = move d a b ∧
      ∀ r ∈ (playK ι G k inp a d ri).2, r ∈ ri := by
  have hn' : 0 < G.A.length := by omega
  cases k with
  | brd =>
    exact ⟨_, by rw [← hA]; exact brPick_fst_lt G _ none ri hn', rfl, brPick_snd_sub G _ none ri⟩
  | sbrd =>
    exact ⟨_, by rw [← hA]; exact brPick_fst_lt G _ none ri hn', rfl, brPick_snd_sub G _ none ri⟩
  | kmr eps =>
    by_cases hu : inp.u < eps
    · refine ⟨(randomAction G.A.length ri).1, ?_, ?_, ?_⟩
      · rw [← hA]; exact randomAction_fst_lt _ _ hn' (by rw [hA]; exact hri)
      · simp [playK, kmrPlay, hu, move]
      · simp only [playK, kmrPlay, hu, if_true]; exact randomAction_snd_sub _ _
    · refine ⟨(brPick G ((bump d a (-1)).map ι) none ri).1, by rw [← hA]; exact brPick_fst_lt G _ none ri hn', ?_, ?_⟩
      · simp only [playK, kmrPlay, hu, if_false]; rfl
      · simp only [playK, kmrPlay, hu, if_false]; exact brPick_snd_sub G _ none ri

/-- **One period keeps the state valid** and moves at most one player: with `a` the located action,
    the next state is `move d a b` for some `b < n`, i.e. entrywise
    `next[j] = d[j] − [j = a] + [j = b]`. -/
theorem stepK_valid (ι : Int → K) (G : Game K) (k : Kind K) (inp : Inp K) (N : Int) (n : Nat)
    (d : List Int) (ri : List Nat) (hA : G.A.length = n) (hv : Valid N n d)
    (h0 : 0 ≤ inp.p) (hp : inp.p < N) (hri : ∀ r ∈ ri, r < n) :
    Valid N n (stepK ι G k inp (d, ri)).1 ∧ (∀ r ∈ (stepK ι G k inp (d, ri)).2, r < n) ∧
    ∃ b, b < n ∧ ∀ j, (stepK ι G k inp (d, ri)).1.getD j 0 =
      d.getD j 0 - (if j = locate d inp.p then 1 else 0) + (if j = b then 1 else 0) := by
  obtain ⟨ha, hpos, _, _⟩ := locate_spec N n d inp.p hv h0 hp
  have hl : d.length = n := hv.1
  obtain ⟨b, hb, hmove, hsub⟩ := playK_is_move ι G k inp (locate d inp.p) d ri (by omega) (by omega)
    (by rw [hl]; exact hri)
  refine ⟨?_, fun r hr => hri r (hsub r hr), b, by omega, ?_⟩
  · show Valid N n (playK ι G k inp (locate d inp.p) d ri).1
    rw [hmove]; exact move_valid N n d _ b hv ha hpos (by omega)
  · intro j
    show (playK ι G k inp (locate d inp.p) d ri).1.getD j 0 = _
    rw [hmove]; exact move_getD d _ b j (by omega) (by omega)

/-- **Invariant along every history (BRD, KMR, SamplingBRD).**  For every sequence of per-period
    inputs whose player indices lie in `[0, N)`, every tie-breaking mode, every coin sequence,
    every sample sequence and every `randint` stream with entries `< n`: all states visited
    (`out[0..T-1]` and the final state) are vectors of `n` non-negative integers summing to `N`. -/
theorem states_valid (ι : Int → K) (G : Game K) (k : Kind K) (N : Int) (n : Nat) (hA : G.A.length = n) :
    ∀ (inps : List (Inp K)) (s : List Int × List Nat),
      (∀ inp ∈ inps, 0 ≤ inp.p ∧ inp.p < N) → Valid N n s.1 → (∀ r ∈ s.2, r < n) →
      ∀ t ∈ states ι G k inps s, Valid N n t.1 := by
  intro inps
  induction inps with
  | nil => intro s _ hv _ t ht; simp [states] at ht; rw [ht]; exact hv
  | cons inp rest ih =>
    intro s hin hv hri t ht
    simp only [states, List.mem_cons] at ht
    rcases ht with rfl | ht
    · exact hv
    · obtain ⟨h0, hp⟩ := hin inp (by simp)
      obtain ⟨hv', hri', _⟩ := stepK_valid ι G k inp N n s.1 s.2 hA hv h0 hp hri
      exact ih _ (fun i hi => hin i (List.mem_cons_of_mem _ hi)) hv' hri' t ht

/-- **At most one player moves per period, in ℓ¹ terms, along every history** (BRD, KMR with or
    without mutation, SamplingBRD; any tie-breaking, coin, sample, stream with entries `< n`): on a
    valid state and a player index in `[0, N)`, the next state is at ℓ¹ distance `0` (the reviser
    keeps its action) or exactly `2` (one player moved) from the current one. -/
theorem stepK_l1 (ι : Int → K) (G : Game K) (k : Kind K) (inp : Inp K) (N : Int) (n : Nat)
    (d : List Int) (ri : List Nat) (hA : G.A.length = n) (hv : Valid N n d)
    (h0 : 0 ≤ inp.p) (hp : inp.p < N) (hri : ∀ r ∈ ri, r < n) :
    l1dist (stepK ι G k inp (d, ri)).1 d = 0 ∨ l1dist (stepK ι G k inp (d, ri)).1 d = 2 := by
  obtain ⟨ha, _, _, _⟩ := locate_spec N n d inp.p hv h0 hp
  have hl : d.length = n := hv.1
  obtain ⟨b, hb, hmove, _⟩ := playK_is_move ι G k inp (locate d inp.p) d ri (by omega) (by omega)
    (by rw [hl]; exact hri)
  have : (stepK ι G k inp (d, ri)).1 = move d (locate d inp.p) b := hmove
  rw [this, l1dist_move d _ b (by omega) hb]
  split
  · exact Or.inl rfl
  · exact Or.inr rfl

/-- **`init_action_dist=None`**: the initial condition the code draws for itself
    (`_set_action_dist` of one in-range action per player) is valid, hence — by `states_valid` — so
    is every state of the run. -/
theorem states_valid_from_drawn_init (ι : Int → K) (G : Game K) (k : Kind K) (n : Nat) (hA : G.A.length = n)
    (acts : List Nat) (hacts : ∀ a ∈ acts, a < n) (inps : List (Inp K)) (ri : List Nat)
    (hin : ∀ inp ∈ inps, 0 ≤ inp.p ∧ inp.p < (acts.length : Int)) (hri : ∀ r ∈ ri, r < n) :
    ∀ t ∈ states ι G k inps (setActionDist n acts, ri), Valid (acts.length : Int) n t.1 :=
  states_valid ι G k _ n hA inps (setActionDist n acts, ri) hin (setActionDist_valid n acts hacts) hri

omit [IsStrictOrderedRing K] in
/-- `time_series` (with its `IndexError` branch) returns exactly the visited states -/
theorem series_some_states (ι : Int → K) (G : Game K) (k : Kind K) :
    ∀ (inps : List (Inp K)) (s : List Int × List Nat) (rows : List (List Int)) (fin : List Int × List Nat),
      series ι G k inps s = some (rows, fin) →
      (states ι G k inps s).map Prod.fst = rows ++ [fin.1] ∧ rows.length = inps.length := by
  intro inps
  induction inps with
  | nil => intro s rows fin h; simp [series] at h; obtain ⟨rfl, rfl⟩ := h; simp [states]
  | cons inp rest ih =>
    intro s rows fin h
    simp only [series] at h
    split at h
    · split at h
      · rename_i rows' fin' heq
        simp only [Option.some.injEq, Prod.mk.injEq] at h
        obtain ⟨rfl, rfl⟩ := h
        obtain ⟨h1, h2⟩ := ih _ _ _ heq
        simp [states, h1, h2]
      · simp at h
    · simp at h

/-- **No `IndexError` on valid histories**: under the hypotheses of `states_valid`, `time_series`
    returns (is `some`). -/
theorem series_isSome (ι : Int → K) (G : Game K) (k : Kind K) (N : Int) (n : Nat) (hA : G.A.length = n) :
    ∀ (inps : List (Inp K)) (s : List Int × List Nat),
      (∀ inp ∈ inps, 0 ≤ inp.p ∧ inp.p < N) → Valid N n s.1 → (∀ r ∈ s.2, r < n) →
      (series ι G k inps s).isSome = true := by
  intro inps
  induction inps with
  | nil => intro s _ _ _; simp [series]
  | cons inp rest ih =>
    intro s hin hv hri
    obtain ⟨h0, hp⟩ := hin inp (by simp)
    obtain ⟨ha, _, _, _⟩ := locate_spec N n s.1 inp.p hv h0 hp
    obtain ⟨hv', hri', _⟩ := stepK_valid ι G k inp N n s.1 s.2 hA hv h0 hp hri
    have := ih (stepK ι G k inp s) (fun i hi => hin i (List.mem_cons_of_mem _ hi)) hv' hri'
    simp only [series]
    rw [if_pos (by rw [hv.1]; exact ha)]
    cases hser : series ι G k rest (stepK ι G k inp s) with
    | none => rw [hser] at this; simp at this
    | some v => simp

/-- **What `time_series` returns** (the function the driver executes, error branch included):
    under the hypotheses of `states_valid` it returns `T` rows, every row and the final state
    (the working copy after the last period) being a valid action distribution. -/
theorem series_rows_valid (ι : Int → K) (G : Game K) (k : Kind K) (N : Int) (n : Nat) (hA : G.A.length = n)
    (inps : List (Inp K)) (s : List Int × List Nat)
    (hin : ∀ inp ∈ inps, 0 ≤ inp.p ∧ inp.p < N) (hv : Valid N n s.1) (hri : ∀ r ∈ s.2, r < n) :
    ∃ rows fin, series ι G k inps s = some (rows, fin) ∧ rows.length = inps.length ∧
      (∀ r ∈ rows, Valid N n r) ∧ Valid N n fin.1 := by
  have hsome := series_isSome ι G k N n hA inps s hin hv hri
  cases hser : series ι G k inps s with
  | none => rw [hser] at hsome; simp at hsome
  | some v =>
    obtain ⟨rows, fin⟩ := v
    obtain ⟨h1, h2⟩ := series_some_states ι G k inps s rows fin hser
    have hall : ∀ r ∈ rows ++ [fin.1], Valid N n r := by
      intro r hr
      rw [← h1] at hr
      obtain ⟨t, ht, rfl⟩ := List.mem_map.1 hr
      exact states_valid ι G k N n hA inps s hin hv hri t ht
    exact ⟨rows, fin, rfl, h2, fun r hr => hall r (List.mem_append_left _ hr),
      hall fin.1 (List.mem_append_right _ (by simp))⟩

omit [IsStrictOrderedRing K] in
/-- … and conversely a player index `≥ N` on a valid state is the `IndexError` -/
theorem series_none_of_oob (ι : Int → K) (G : Game K) (k : Kind K) (N : Int) (n : Nat)
    (inp : Inp K) (rest : List (Inp K)) (s : List Int × List Nat) (hv : Valid N n s.1) (hp : N ≤ inp.p) :
    series ι G k (inp :: rest) s = none := by
  simp [series, locate_oob N n s.1 inp.p hv hp]

/-- **Exact transition with `tie_breaking='smallest'` (BRD).**  The next state is "remove the
    revising player (action `a`), add the smallest best response `b` to the others":
    with `pv = A · (d − e_a)`, `b` satisfies `pv[b] ≥ max pv − tol` and no smaller index does;
    the `randint` stream is not touched. -/
theorem brd_smallest_exact (ι : Int → K) (G : Game K) (inp : Inp K) (N : Int) (n : Nat)
    (d : List Int) (ri : List Nat) (hA : G.A.length = n) (hv : Valid N n d)
    (h0 : 0 ≤ inp.p) (hp : inp.p < N) (hrnd : G.rnd = false) (htol : 0 ≤ G.tol) :
    let a := locate d inp.p
    let pv := payoffVec G.A ((bump d a (-1)).map ι)
    ∃ b, stepK ι G .brd inp (d, ri) = (move d a b, ri) ∧ b < n ∧
      maxL pv - G.tol ≤ pv.getD b 0 ∧ ∀ j, j < b → ¬ (maxL pv - G.tol ≤ pv.getD j 0) := by
  intro a pv
  obtain ⟨ha, _, _, _⟩ := locate_spec N n d inp.p hv h0 hp
  have hpv : pv ≠ [] := by
    intro h
    have := payoffVec_length G.A ((bump d a (-1)).map ι)
    rw [show payoffVec G.A ((bump d a (-1)).map ι) = pv from rfl, h] at this
    simp at this; omega
  cases hs : brSet pv G.tol with
  | nil => exact absurd hs (brSet_ne_nil pv G.tol hpv htol)
  | cons b rest =>
    obtain ⟨⟨hb1, hb2⟩, hb3⟩ := brSet_head_min pv G.tol b rest hs
    refine ⟨b, ?_, ?_, hb2, hb3⟩
    · show brdPlay ι G a d ri = _
      unfold brdPlay brPick
      simp only [addPert, hrnd, pick_smallest]
      rw [show payoffVec G.A ((bump d a (-1)).map ι) = pv from rfl, hs]
      rfl
    · have := payoffVec_length G.A ((bump d a (-1)).map ι)
      rw [show payoffVec G.A ((bump d a (-1)).map ι) = pv from rfl] at this
      omega

omit [IsStrictOrderedRing K] in
/-- **KMR transition**: a mutation (`u < ε`) moves the reviser to the drawn random action, otherwise
    the period is a BRD period. -/
theorem kmr_step_cases (ι : Int → K) (G : Game K) (eps : K) (inp : Inp K) (d : List Int) (ri : List Nat) :
    (inp.u < eps → stepK ι G (.kmr eps) inp (d, ri) =
        (move d (locate d inp.p) (randomAction G.A.length ri).1, (randomAction G.A.length ri).2)) ∧
    (¬ inp.u < eps → stepK ι G (.kmr eps) inp (d, ri) = stepK ι G .brd inp (d, ri)) := by
  constructor
  · intro hu; simp [stepK, playK, kmrPlay, hu, move]
  · intro hu; simp [stepK, playK, kmrPlay, hu]

omit [IsStrictOrderedRing K] in
/-- **Determinism.**  The model's step is a *function* of (state, injected inputs) — equal seeds give
    equal recorded inputs and hence equal histories — and with `tie_breaking='smallest'` BRD and
    SamplingBRD do not read the `randint` stream at all: the next state is the same for every
    stream, which is returned untouched. -/
theorem stepK_smallest_stream_indep (ι : Int → K) (G : Game K) (inp : Inp K) (d : List Int)
    (ri ri' : List Nat) (hrnd : G.rnd = false) :
    (stepK ι G .brd inp (d, ri)).1 = (stepK ι G .brd inp (d, ri')).1 ∧ (stepK ι G .brd inp (d, ri)).2 = ri ∧
    (stepK ι G .sbrd inp (d, ri)).1 = (stepK ι G .sbrd inp (d, ri')).1 ∧ (stepK ι G .sbrd inp (d, ri)).2 = ri := by
  simp [stepK, playK, brdPlay, sbrdPlay, brPick, hrnd, pick_smallest]

omit [IsStrictOrderedRing K] in
/-- **SamplingBRD transition**: the reviser best-responds to the *sample's* action counts. -/
theorem sbrd_step (ι : Int → K) (G : Game K) (inp : Inp K) (d : List Int) (ri : List Nat) :
    stepK ι G .sbrd inp (d, ri) =
      (move d (locate d inp.p) (brPick G ((bincount G.A.length inp.sample).map ι) none ri).1,
       (brPick G ((bincount G.A.length inp.sample).map ι) none ri).2) := rfl

/-! ### Histories on one object -/

omit [IsStrictOrderedRing K] in
/-- **History theorem.**  Along any history of attribute reassignments / in-place edits (`Op.set`) and
    `time_series` calls on one instance, every answer is a function of the state current at the call
    and of the call's arguments only: it equals `series` evaluated on exactly that state — earlier
    calls, earlier states and later operations have no influence. -/
theorem runOps_history (ι : Int → K) :
    ∀ (ops : List (Op K)) (o : Obj K),
      runOps ι o ops = (callsWithState o ops).map (fun c => series ι c.1.G c.1.kind c.2.1 c.2.2) := by
  intro ops
  induction ops with
  | nil => intro o; rfl
  | cons op rest ih =>
    intro o
    cases op with
    | set o' => simpa [runOps, callsWithState] using ih o'
    | series inps s => simp [runOps, callsWithState, ih o]

omit [IsStrictOrderedRing K] in
/-- consequence: an answer is unaffected by what was done to the object before the last `set` -/
theorem runOps_forgets_prefix (ι : Int → K) (pre : List (Op K)) (o o' : Obj K) (ops : List (Op K)) :
    (runOps ι o (pre ++ .set o' :: ops)).drop (runOps ι o pre).length = runOps ι o' ops := by
  induction pre generalizing o with
  | nil => simp [runOps]
  | cons op rest ih =>
    cases op with
    | set o'' => simpa [runOps] using ih o''
    | series inps s => simpa [runOps] using ih o

/-- … and every answer of a history is valid whenever the call's own inputs are (`series_rows_valid`
    applied to the state current at the call) -/
theorem runOps_valid (ι : Int → K) (ops : List (Op K)) (o : Obj K) (N : Int) (n : Nat) :
    ∀ c ∈ callsWithState o ops, c.1.G.A.length = n → (∀ inp ∈ c.2.1, 0 ≤ inp.p ∧ inp.p < N) →
      Valid N n c.2.2.1 → (∀ r ∈ c.2.2.2, r < n) →
      ∃ rows fin, series ι c.1.G c.1.kind c.2.1 c.2.2 = some (rows, fin) ∧
        (∀ r ∈ rows, Valid N n r) ∧ Valid N n fin.1 := by
  intro c _ hA hin hv hri
  obtain ⟨rows, fin, h1, _, h3, h4⟩ := series_rows_valid ι c.1.G c.1.kind N n hA c.2.1 c.2.2 hin hv hri
  exact ⟨rows, fin, h1, h3, h4⟩

example : runOps (fun z => z) ⟨exG0, .brd⟩
    [.series [⟨0, 0, []⟩] ([2, 1], []), .set ⟨⟨[[0, 0], [0, 5]], 0, false⟩, .brd⟩, .series [⟨0, 0, []⟩] ([2, 1], [])]
    = [some ([[2, 1]], ([2, 1], [])), some ([[2, 1]], ([1, 2], []))] := by decide

/-! ## FictitiousPlay / StochasticFictitiousPlay (two players) -/

/-- the shape invariant of a belief profile: each belief has one entry per action of its owner and
    is a probability vector -/
def FpOK (G0 G1 : Game K) (x : List K × List K) : Prop :=
  x.1.length = G0.A.length ∧ x.2.length = G1.A.length ∧ 0 < G0.A.length ∧ 0 < G1.A.length ∧
  IsProb x.1 ∧ IsProb x.2

/-- **One period of (stochastic) fictitious play**, any tie-breaking mode, any perturbations, any
    `randint` stream, any step size `γ ∈ [0,1]`: each belief moves to `(1−γ)·x + γ·e_b` for an
    in-range action `b`, hence stays a probability vector. Entrywise form of the update included. -/
theorem fpStep_prob (G0 G1 : Game K) (inp : FpInp K) (s : (List K × List K) × List Nat)
    (h0 : 0 ≤ inp.γ) (h1 : inp.γ ≤ 1) (hs : FpOK G0 G1 s.1) :
    FpOK G0 G1 (fpStep G0 G1 inp s).1 ∧
    ∃ b0 b1, b0 < G0.A.length ∧ b1 < G1.A.length ∧
      (∀ j, (fpStep G0 G1 inp s).1.1.getD j 0 = s.1.1.getD j 0 * (1 - inp.γ) + (if j = b0 then inp.γ else 0)) ∧
      (∀ j, (fpStep G0 G1 inp s).1.2.getD j 0 = s.1.2.getD j 0 * (1 - inp.γ) + (if j = b1 then inp.γ else 0)) := by
  obtain ⟨hl0, hl1, hn0, hn1, hp0, hp1⟩ := hs
  have hb0 := brPick_fst_lt G0 s.1.2 inp.pert0 s.2 hn0
  have hb1 := brPick_fst_lt G1 s.1.1 inp.pert1 (brPick G0 s.1.2 inp.pert0 s.2).2 hn1
  refine ⟨⟨?_, ?_, hn0, hn1, ?_, ?_⟩, _, _, hb0, hb1, ?_, ?_⟩
  · simp [fpStep, scaleAdd_length, hl0]
  · simp [fpStep, scaleAdd_length, hl1]
  · exact scaleAdd_prob _ _ _ (by omega) h0 h1 hp0
  · exact scaleAdd_prob _ _ _ (by omega) h0 h1 hp1
  · intro j; exact scaleAdd_getD _ _ _ j (by omega)
  · intro j; exact scaleAdd_getD _ _ _ j (by omega)

/-- **Beliefs stay probability vectors along every history** (FictitiousPlay and
    StochasticFictitiousPlay): for every sequence of step sizes in `[0,1]`, perturbations,
    tie-breaking mode and `randint` stream, every recorded belief profile is a pair of
    probability vectors of the right lengths. -/
theorem fpStates_prob (G0 G1 : Game K) :
    ∀ (inps : List (FpInp K)) (s : (List K × List K) × List Nat),
      (∀ inp ∈ inps, 0 ≤ inp.γ ∧ inp.γ ≤ 1) → FpOK G0 G1 s.1 →
      ∀ t ∈ fpStates G0 G1 inps s, FpOK G0 G1 t.1 := by
  intro inps
  induction inps with
  | nil => intro s _ hs t ht; simp [fpStates] at ht; rw [ht]; exact hs
  | cons inp rest ih =>
    intro s hin hs t ht
    simp only [fpStates, List.mem_cons] at ht
    rcases ht with rfl | ht
    · exact hs
    · obtain ⟨h0, h1⟩ := hin inp (by simp)
      exact ih _ (fun i hi => hin i (List.mem_cons_of_mem _ hi)) (fpStep_prob G0 G1 inp s h0 h1 hs).1 t ht

/-- **Exact transition with `tie_breaking='smallest'`: simultaneous update towards best responses
    to the *previous* beliefs.**  With `pv0 = A0·x1_old (+ pert0)` and `pv1 = A1·x0_old (+ pert1)`
    — both computed from the old profile — the new profile is
    `(scaleAdd x0_old γ b0, scaleAdd x1_old γ b1)` where `b_i` is the smallest index with
    `pv_i[b_i] ≥ max pv_i − tol`; no `randint` is consumed. -/
theorem fpStep_smallest_exact (G0 G1 : Game K) (inp : FpInp K) (s : (List K × List K) × List Nat)
    (hr0 : G0.rnd = false) (hr1 : G1.rnd = false) (ht0 : 0 ≤ G0.tol) (ht1 : 0 ≤ G1.tol)
    (hpv0 : addPert (payoffVec G0.A s.1.2) inp.pert0 ≠ [])
    (hpv1 : addPert (payoffVec G1.A s.1.1) inp.pert1 ≠ []) :
    let pv0 := addPert (payoffVec G0.A s.1.2) inp.pert0
    let pv1 := addPert (payoffVec G1.A s.1.1) inp.pert1
    ∃ b0 b1, fpStep G0 G1 inp s = ((scaleAdd s.1.1 inp.γ b0, scaleAdd s.1.2 inp.γ b1), s.2) ∧
      (maxL pv0 - G0.tol ≤ pv0.getD b0 0 ∧ ∀ j, j < b0 → ¬ (maxL pv0 - G0.tol ≤ pv0.getD j 0)) ∧
      (maxL pv1 - G1.tol ≤ pv1.getD b1 0 ∧ ∀ j, j < b1 → ¬ (maxL pv1 - G1.tol ≤ pv1.getD j 0)) := by
  intro pv0 pv1
  obtain ⟨b0, e0, ⟨_, hb0⟩, hm0⟩ := brPick_smallest G0 s.1.2 inp.pert0 s.2 hr0 hpv0 ht0
  obtain ⟨b1, e1, ⟨_, hb1⟩, hm1⟩ := brPick_smallest G1 s.1.1 inp.pert1 s.2 hr1 hpv1 ht1
  refine ⟨b0, b1, ?_, ⟨hb0, hm0⟩, ⟨hb1, hm1⟩⟩
  simp only [fpStep, e0, e1]

/-! ### N players (general `Player.payoff_vector`) -/

/-- one belief per player, of the right length, each a probability vector -/
def FpNOK (nums : List Nat) (xs : List (List K)) : Prop :=
  xs.map List.length = nums ∧ ∀ x ∈ xs, IsProb x

/-- **One period of N-player (stochastic) fictitious play keeps every belief a probability vector**
    (any tie-breaking, perturbations, stream, step size in `[0,1]`), provided the payoff arrays have
    the shapes `nums[i] × ∏ (opponents' action counts)` and every player has an action. -/
theorem fpStepN_prob (Gs : List (GameN K)) (nums : List Nat) (γ : K) (perts : List (Option (List K)))
    (s : List (List K) × List Nat) (hN : Gs.length = nums.length) (hsh : ShapeFrom nums 0 Gs)
    (hpos : ∀ m ∈ nums, 0 < m) (h0 : 0 ≤ γ) (h1 : γ ≤ 1) (hs : FpNOK nums s.1) :
    FpNOK nums (fpStepN Gs γ perts s).1 := by
  obtain ⟨hxs, hprob⟩ := hs
  obtain ⟨hbl, hbr⟩ := brsN_range nums s.1 perts hxs hpos Gs 0 s.2 hsh
  have hxl : s.1.length = nums.length := by rw [← hxs]; simp
  have hlen : ∀ k (hk : k < s.1.length), (s.1[k]).length = nums.getD k 0 := by
    intro k hk
    have : (s.1.map List.length)[k]'(by simpa using hk) = nums[k]'(by omega) := by simp [hxs]
    rw [List.getD_eq_getElem?_getD, List.getElem?_eq_getElem (by omega), Option.getD_some, ← this]
    simp
  refine ⟨?_, ?_⟩
  · rw [← hxs]
    apply List.ext_getElem
    · simp [fpStepN, hbl, hN, hxl]
    · intro k hk1 hk2
      simp [fpStepN, scaleAdd_length]
  · intro x hx
    obtain ⟨k, hk, rfl⟩ := List.mem_iff_getElem.1 hx
    have hk' : k < s.1.length ∧ k < (brsN s.1 perts 0 Gs s.2).1.length := by
      simpa [fpStepN] using hk
    simp only [fpStepN, List.getElem_zipWith]
    apply scaleAdd_prob _ _ _ _ h0 h1 (hprob _ (List.getElem_mem hk'.1))
    rw [hlen k hk'.1]
    simpa using hbr k hk'.2

omit [IsStrictOrderedRing K] in
/-- **Exact N-player transition with `tie_breaking='smallest'`**: every player `k` moves its belief
    to `(1−γ)·x_k + γ·e_b` where `b` is the first element of the best-response set against the
    *previous* beliefs of the others (in the order `k+1, …, N-1, 0, …, k-1`), all best responses being
    computed before any belief changes; the stream is untouched. -/
theorem fpStepN_smallest_exact (Gs : List (GameN K)) (γ : K) (perts : List (Option (List K)))
    (s : List (List K) × List Nat) (hr : ∀ G ∈ Gs, G.rnd = false) (hN : Gs.length = s.1.length) :
    (fpStepN Gs γ perts s).2 = s.2 ∧ (fpStepN Gs γ perts s).1.length = s.1.length ∧
    ∀ k (h : k < (fpStepN Gs γ perts s).1.length) (hx : k < s.1.length) (hG : k < Gs.length),
      (fpStepN Gs γ perts s).1[k] = scaleAdd s.1[k] γ
        ((brSet (addPert (payoffVecN Gs[k].flat (rot k s.1)) (perts.getD k none)) Gs[k].tol).headD 0) := by
  obtain ⟨h1, h2, h3⟩ := brsN_smallest s.1 perts Gs 0 s.2 hr
  refine ⟨h1, by simp [fpStepN, h2, hN], ?_⟩
  intro k h hx hG
  have hk : k < (brsN s.1 perts 0 Gs s.2).1.length := by rw [h2]; exact hG
  simp only [fpStepN, List.getElem_zipWith]
  rw [h3 k hk hG]
  simp

omit [LinearOrder K] [IsStrictOrderedRing K] in
/-- **What `Player.payoff_vector` computes for N players** (the clause the earlier rounds listed as
    not proved).  For a C-order payoff array with axes (own, opp₁, …, opp_k) of shape
    `n × |x₁| × … × |x_k|` and mixed actions `x₁, …, x_k` with at least one entry each, entry `a < n` of
    `payoff_vector` is the expected payoff of own action `a` against independent opponents:
    `expPayoff flat [x₁,…,x_k] a = Σ_{j₁} ( … Σ_{j_k} flat[(…(a·|x₁|+j₁)…)·|x_k|+j_k] · x_k[j_k] … ) · x₁[j₁]`. -/
theorem payoffVecN_expected (flat : List K) (opps : List (List K)) (n a : Nat)
    (hpos : ∀ o ∈ opps, 0 < o.length) (hshape : flat.length = n * (opps.map List.length).prod) (ha : a < n) :
    (payoffVecN flat opps).length = n ∧ (payoffVecN flat opps).getD a 0 = expPayoff flat opps a :=
  ⟨payoffVecN_length flat opps hpos n hshape, payoffVecN_getD flat opps hpos n a hshape ha⟩

omit [LinearOrder K] [IsStrictOrderedRing K] in
/-- the three-player case written out: two opponents, a double sum over their actions with the
    C-order index `(a·m₁ + j₁)·m₂ + j₂` and the product weight `x₁[j₁]·x₂[j₂]` -/
theorem payoffVecN_three_players (flat x1 x2 : List K) (n a : Nat) (h1 : 0 < x1.length) (h2 : 0 < x2.length)
    (hshape : flat.length = n * (x1.length * x2.length)) (ha : a < n) :
    (payoffVecN flat [x1, x2]).getD a 0 =
      sumRange x1.length (fun j1 => sumRange x2.length (fun j2 =>
        flat.getD ((a * x1.length + j1) * x2.length + j2) 0 * (x1.getD j1 0 * x2.getD j2 0))) := by
  rw [(payoffVecN_expected flat [x1, x2] n a (by intro o ho; simp at ho; rcases ho with rfl | rfl <;> assumption)
    (by simpa using hshape) ha).2]
  simp only [expPayoff]
  apply sumRange_congr
  intro j1 _
  rw [sumRange_mul]
  apply sumRange_congr
  intro j2 _
  ring

/-- **N-player fictitious play moves towards a best response in EXPECTED payoff** (smallest
    tie-breaking, no perturbation for player `k`): the action `b` towards which player `k`'s belief
    moves satisfies `E[u_k(a, x₋ₖ)] − tol ≤ E[u_k(b, x₋ₖ)]` for every own action `a`, the expectation
    being taken over the *previous* beliefs of the others, and no smaller action has that property
    against the maximum. -/
theorem fpStepN_smallest_expected_best_response (Gs : List (GameN K)) (γ : K)
    (perts : List (Option (List K))) (s : List (List K) × List Nat) (nums : List Nat)
    (hr : ∀ G ∈ Gs, G.rnd = false) (hN : Gs.length = s.1.length) (hxs : s.1.map List.length = nums)
    (hpos : ∀ m ∈ nums, 0 < m) (k : Nat) (hk : k < Gs.length)
    (hshape : Gs[k].flat.length = nums.getD k 0 * (rot k nums).prod) (hnk : 0 < nums.getD k 0)
    (htol : 0 ≤ Gs[k].tol) (hpert : perts.getD k none = none) :
    ∃ b, b < nums.getD k 0 ∧
      (fpStepN Gs γ perts s).1[k]? = some (scaleAdd (s.1.getD k []) γ b) ∧
      ∀ a, a < nums.getD k 0 →
        expPayoff Gs[k].flat (rot k s.1) a - Gs[k].tol ≤ expPayoff Gs[k].flat (rot k s.1) b := by
  obtain ⟨_, hlen, hex⟩ := fpStepN_smallest_exact Gs γ perts s hr hN
  have hkx : k < s.1.length := by omega
  have hopp : ∀ o ∈ rot k s.1, 0 < o.length := by
    intro o ho
    have : o.length ∈ (rot k s.1).map List.length := List.mem_map_of_mem ho
    rw [rot_map_length, hxs] at this
    have hm : o.length ∈ nums := by
      simp only [rot, List.mem_append] at this
      rcases this with h | h
      · exact List.mem_of_mem_drop h
      · exact List.mem_of_mem_take h
    exact hpos _ hm
  have hsh : Gs[k].flat.length = nums.getD k 0 * ((rot k s.1).map List.length).prod := by
    rw [rot_map_length, hxs]; exact hshape
  have hpvlen := payoffVecN_length Gs[k].flat (rot k s.1) hopp _ hsh
  have hne : payoffVecN Gs[k].flat (rot k s.1) ≠ [] := by
    intro h
    have h0 : (payoffVecN Gs[k].flat (rot k s.1)).length = 0 := by rw [h]; rfl
    omega
  have hstep := hex k (by rw [hlen]; exact hkx) hkx hk
  rw [hpert] at hstep
  simp only [addPert] at hstep
  cases hs : brSet (payoffVecN Gs[k].flat (rot k s.1)) Gs[k].tol with
  | nil => exact absurd hs (brSet_ne_nil _ _ hne htol)
  | cons b rest =>
    obtain ⟨⟨hb1, hb2⟩, _⟩ := brSet_head_min _ _ b rest hs
    refine ⟨b, by omega, ?_, ?_⟩
    · rw [List.getElem?_eq_getElem (by omega), hstep, hs]
      simp [List.getD_eq_getElem?_getD, hkx]
    · intro a ha
      have hmem : (payoffVecN Gs[k].flat (rot k s.1)).getD a 0 ∈ payoffVecN Gs[k].flat (rot k s.1) := by
        rw [List.getD_eq_getElem?_getD, List.getElem?_eq_getElem (by omega), Option.getD_some]
        exact List.getElem_mem _
      have hle := le_maxL _ _ hmem
      rw [← payoffVecN_getD Gs[k].flat (rot k s.1) hopp _ a hsh ha,
        ← payoffVecN_getD Gs[k].flat (rot k s.1) hopp _ b hsh (by omega)]
      exact le_trans (sub_le_sub_right hle _) hb2

/-- **N-player fictitious play, any tie-breaking mode**: if every index drawn in the first loop of
    `_play` is a valid index into the then-current best-response set (`BrsGuard`, the stream threaded
    as the loop does) then player `k` (unperturbed) moves towards an action `b` that is a best
    response in expected payoff against the previous beliefs: `E[u_k(a,x₋ₖ)] − tol ≤ E[u_k(b,x₋ₖ)]`
    for every own action `a`. -/
theorem fpStepN_random_expected_best_response (Gs : List (GameN K)) (γ : K)
    (perts : List (Option (List K))) (s : List (List K) × List Nat) (nums : List Nat)
    (hN : Gs.length = s.1.length) (hxs : s.1.map List.length = nums) (hpos : ∀ m ∈ nums, 0 < m)
    (hg : BrsGuard s.1 perts 0 Gs s.2)
    (hne : ∀ j (h : j < Gs.length),
      addPert (payoffVecN Gs[j].flat (rot j s.1)) (perts.getD j none) ≠ [] ∧ 0 ≤ Gs[j].tol)
    (k : Nat) (hk : k < Gs.length)
    (hshape : Gs[k].flat.length = nums.getD k 0 * (rot k nums).prod) (hpert : perts.getD k none = none) :
    ∃ b, b < nums.getD k 0 ∧
      (fpStepN Gs γ perts s).1[k]? = some (scaleAdd (s.1.getD k []) γ b) ∧
      ∀ a, a < nums.getD k 0 →
        expPayoff Gs[k].flat (rot k s.1) a - Gs[k].tol ≤ expPayoff Gs[k].flat (rot k s.1) b := by
  obtain ⟨hbl, hbm⟩ := brsN_mem s.1 perts Gs 0 s.2 hg (by
    intro j hj; simpa using hne j hj)
  have hkx : k < s.1.length := by omega
  have hkb : k < (brsN s.1 perts 0 Gs s.2).1.length := by omega
  have hmem := hbm k hkb hk
  simp only [Nat.zero_add, hpert, addPert] at hmem
  have hopp : ∀ o ∈ rot k s.1, 0 < o.length := by
    intro o ho
    have : o.length ∈ (rot k s.1).map List.length := List.mem_map_of_mem ho
    rw [rot_map_length, hxs] at this
    have hm : o.length ∈ nums := by
      simp only [rot, List.mem_append] at this
      rcases this with h | h
      · exact List.mem_of_mem_drop h
      · exact List.mem_of_mem_take h
    exact hpos _ hm
  have hsh : Gs[k].flat.length = nums.getD k 0 * ((rot k s.1).map List.length).prod := by
    rw [rot_map_length, hxs]; exact hshape
  have hpvlen := payoffVecN_length Gs[k].flat (rot k s.1) hopp _ hsh
  obtain ⟨hb1, hb2⟩ := (mem_brSet _ _ _).1 hmem
  refine ⟨(brsN s.1 perts 0 Gs s.2).1[k], by omega, ?_, ?_⟩
  · simp [fpStepN, hkx, hkb, List.getD_eq_getElem?_getD]
  · intro a ha
    have hmem' : (payoffVecN Gs[k].flat (rot k s.1)).getD a 0 ∈ payoffVecN Gs[k].flat (rot k s.1) := by
      rw [List.getD_eq_getElem?_getD, List.getElem?_eq_getElem (by omega), Option.getD_some]
      exact List.getElem_mem _
    have hle := le_maxL _ _ hmem'
    rw [← payoffVecN_getD Gs[k].flat (rot k s.1) hopp _ a hsh ha,
      ← payoffVecN_getD Gs[k].flat (rot k s.1) hopp _ _ hsh (by omega)]
    exact le_trans (sub_le_sub_right hle _) hb2

omit [IsStrictOrderedRing K] in
/-- **The N-player model specialises to the 2-player model**: on flattened payoff matrices with
    well-shaped rows, one period of `fpStepN` with two players is one period of `fpStep`. -/
theorem fpStepN_two_players (G0 G1 : Game K) (inp : FpInp K) (x0 x1 : List K) (ri : List Nat)
    (h0 : 0 < x0.length) (h1 : 0 < x1.length)
    (hr0 : ∀ r ∈ G0.A, r.length = x1.length) (hr1 : ∀ r ∈ G1.A, r.length = x0.length) :
    fpStepN [⟨G0.A.flatten, G0.tol, G0.rnd⟩, ⟨G1.A.flatten, G1.tol, G1.rnd⟩] inp.γ [inp.pert0, inp.pert1]
        ([x0, x1], ri) =
      ([(fpStep G0 G1 inp ((x0, x1), ri)).1.1, (fpStep G0 G1 inp ((x0, x1), ri)).1.2],
       (fpStep G0 G1 inp ((x0, x1), ri)).2) := by
  have e0 : payoffVecN G0.A.flatten [x1] = payoffVec G0.A x1 := payoffVecN_flatten G0.A x1 h1 hr0
  have e1 : payoffVecN G1.A.flatten [x0] = payoffVec G1.A x0 := payoffVecN_flatten G1.A x0 h0 hr1
  simp [fpStepN, fpStep, brsN, brPickN, brPick, rot, e0, e1]

/-- **N-player beliefs stay probability vectors along every history.** -/
theorem fpStatesN_prob (Gs : List (GameN K)) (nums : List Nat) (hN : Gs.length = nums.length)
    (hsh : ShapeFrom nums 0 Gs) (hpos : ∀ m ∈ nums, 0 < m) :
    ∀ (inps : List (K × List (Option (List K)))) (s : List (List K) × List Nat),
      (∀ inp ∈ inps, 0 ≤ inp.1 ∧ inp.1 ≤ 1) → FpNOK nums s.1 →
      ∀ t ∈ fpStatesN Gs inps s, FpNOK nums t.1 := by
  intro inps
  induction inps with
  | nil => intro s _ hs t ht; simp [fpStatesN] at ht; rw [ht]; exact hs
  | cons inp rest ih =>
    intro s hin hs t ht
    simp only [fpStatesN, List.mem_cons] at ht
    rcases ht with rfl | ht
    · exact hs
    · obtain ⟨h0, h1⟩ := hin inp (by simp)
      exact ih _ (fun i hi => hin i (List.mem_cons_of_mem _ hi))
        (fpStepN_prob Gs nums inp.1 inp.2 s hN hsh hpos h0 h1 hs) t ht

section field
variable {F : Type} [Field F] [LinearOrder F] [IsStrictOrderedRing F]

/-- the documented step sizes lie in `(0, 1]`: `1/(t+2)` for the decreasing-gain model -/
theorem stepSize_decreasing (t : Nat) :
    stepSize (fun n : Nat => (n : F)) none t = 1 / ((t : F) + 2) ∧
    0 < stepSize (fun n : Nat => (n : F)) none t ∧ stepSize (fun n : Nat => (n : F)) none t ≤ 1 := by
  have hpos : (0 : F) < (t : F) + 2 := by positivity
  refine ⟨by simp [stepSize], ?_, ?_⟩
  · simp only [stepSize, Nat.cast_add, Nat.cast_ofNat]; positivity
  · simp only [stepSize, Nat.cast_add, Nat.cast_ofNat]
    rw [div_le_one hpos]
    have : (0 : F) ≤ (t : F) := Nat.cast_nonneg t
    linarith

/-- **Decreasing gain = running average**: with the documented step `1/(t+2)` the update
    `(1−γ)x + γ e_b` is `(t+2)·x_new = (t+1)·x_old + e_b`, i.e. the recorded vector is the running
    average of the player's past best responses (the initial vector entering with weight `t₀+1`). -/
theorem scaleAdd_decreasing_gain (x : List F) (t b j : Nat) (hb : b < x.length) :
    ((t : F) + 2) * (scaleAdd x (stepSize (fun n : Nat => (n : F)) none t) b).getD j 0 =
      ((t : F) + 1) * x.getD j 0 + (if j = b then 1 else 0) := by
  have hpos : (0 : F) < (t : F) + 2 := by positivity
  have hne : (t : F) + 2 ≠ 0 := ne_of_gt hpos
  rw [(stepSize_decreasing (F := F) t).1, scaleAdd_getD x _ b j hb]
  split <;> field_simp <;> ring

/-- the belief profile after all periods (the last row of `time_series` / the result of `play`) -/
def fpFinal (G0 G1 : Game F) (inps : List (FpInp F)) (s : (List F × List F) × List Nat) :
    (List F × List F) × List Nat :=
  inps.foldl (fun st inp => fpStep G0 G1 inp st) s

/-- the pairs of actions `(b₀, b₁)` the two beliefs moved towards, period by period -/
def fpTargets (G0 G1 : Game F) : List (FpInp F) → (List F × List F) × List Nat → List (Nat × Nat)
  | [], _ => []
  | inp :: rest, s =>
    ((brPick G0 s.1.2 inp.pert0 s.2).1, (brPick G1 s.1.1 inp.pert1 (brPick G0 s.1.2 inp.pert0 s.2).2).1) ::
      fpTargets G0 G1 rest (fpStep G0 G1 inp s)

omit [IsStrictOrderedRing F] in
theorem fpStates_getLast (G0 G1 : Game F) : ∀ (inps : List (FpInp F)) (s : (List F × List F) × List Nat),
    (fpStates G0 G1 inps s).getLast? = some (fpFinal G0 G1 inps s) := by
  intro inps
  induction inps with
  | nil => intro s; simp [fpStates, fpFinal]
  | cons inp rest ih =>
    intro s
    have := ih (fpStep G0 G1 inp s)
    cases hst : fpStates G0 G1 rest (fpStep G0 G1 inp s) with
    | nil => rw [hst] at this; simp at this
    | cons a l =>
      rw [hst] at this
      simp only [fpStates, hst, fpFinal, List.foldl_cons]
      simpa [List.getLast?_cons_cons, fpFinal] using this

/-- **Fictitious play with decreasing gain: beliefs are empirical frequencies, along every history.**
    If period `j` uses the documented step `1/(t₀+j+2)`, then after `T` periods (any tie-breaking, any
    perturbations, any stream) each belief is the running average of the initial belief (weight
    `t₀+1`) and the actions it moved towards:
    `(t₀+T+1) · x_T[i] = (t₀+1) · x_0[i] + #{periods whose target was i}`, for both players. -/
theorem fp_empirical_frequency (G0 G1 : Game F) :
    ∀ (inps : List (FpInp F)) (t0 : Nat) (s : (List F × List F) × List Nat),
      FpOK G0 G1 s.1 →
      (∀ j (h : j < inps.length), inps[j].γ = stepSize (fun n : Nat => (n : F)) none (t0 + j)) →
      ∀ i,
        (((t0 + inps.length + 1 : Nat) : F) * (fpFinal G0 G1 inps s).1.1.getD i 0 =
          ((t0 + 1 : Nat) : F) * s.1.1.getD i 0 + (((fpTargets G0 G1 inps s).map Prod.fst).count i : F)) ∧
        (((t0 + inps.length + 1 : Nat) : F) * (fpFinal G0 G1 inps s).1.2.getD i 0 =
          ((t0 + 1 : Nat) : F) * s.1.2.getD i 0 + (((fpTargets G0 G1 inps s).map Prod.snd).count i : F)) := by
  intro inps
  induction inps with
  | nil => intro t0 s _ _ i; simp [fpFinal, fpTargets]
  | cons inp rest ih =>
    intro t0 s hs hγ i
    have hγ0 : inp.γ = stepSize (fun n : Nat => (n : F)) none t0 := by
      have := hγ 0 (by simp)
      simp only [List.getElem_cons_zero, Nat.add_zero] at this
      exact this
    obtain ⟨_, hgpos, hgle⟩ := stepSize_decreasing (F := F) t0
    have hs' := (fpStep_prob G0 G1 inp s (by rw [hγ0]; exact le_of_lt hgpos) (by rw [hγ0]; exact hgle) hs).1
    have hrest : ∀ j (h : j < rest.length), rest[j].γ = stepSize (fun n : Nat => (n : F)) none (t0 + 1 + j) := by
      intro j hj
      have := hγ (j + 1) (by simpa using hj)
      have e : t0 + (j + 1) = t0 + 1 + j := by omega
      simpa [e] using this
    obtain ⟨ih0, ih1⟩ := ih (t0 + 1) (fpStep G0 G1 inp s) hs' hrest i
    obtain ⟨hl0, hl1, hn0, hn1, _, _⟩ := hs
    have hb0 : (brPick G0 s.1.2 inp.pert0 s.2).1 < s.1.1.length := by
      rw [hl0]; exact brPick_fst_lt G0 _ _ _ hn0
    have hb1 : (brPick G1 s.1.1 inp.pert1 (brPick G0 s.1.2 inp.pert0 s.2).2).1 < s.1.2.length := by
      rw [hl1]; exact brPick_fst_lt G1 _ _ _ hn1
    have e0 := scaleAdd_decreasing_gain (F := F) s.1.1 t0 _ i hb0
    have e1 := scaleAdd_decreasing_gain (F := F) s.1.2 t0 _ i hb1
    rw [← hγ0] at e0 e1
    have hf0 : (fpStep G0 G1 inp s).1.1 = scaleAdd s.1.1 inp.γ (brPick G0 s.1.2 inp.pert0 s.2).1 := rfl
    have hf1 : (fpStep G0 G1 inp s).1.2 =
        scaleAdd s.1.2 inp.γ (brPick G1 s.1.1 inp.pert1 (brPick G0 s.1.2 inp.pert0 s.2).2).1 := rfl
    rw [hf0] at ih0
    rw [hf1] at ih1
    have hfin : fpFinal G0 G1 (inp :: rest) s = fpFinal G0 G1 rest (fpStep G0 G1 inp s) := rfl
    simp only [hfin, fpTargets, List.map_cons, List.count_cons, List.length_cons]
    push_cast at ih0 ih1 e0 e1 ⊢
    constructor
    · by_cases hc : i = (brPick G0 s.1.2 inp.pert0 s.2).1
      · have hbeq : ((brPick G0 s.1.2 inp.pert0 s.2).1 == i) = true := by simp [hc]
        rw [if_pos hc] at e0
        simp only [hbeq, if_true]
        linear_combination ih0 + e0
      · have hbeq : ((brPick G0 s.1.2 inp.pert0 s.2).1 == i) = false := by
          simpa using fun h : (brPick G0 s.1.2 inp.pert0 s.2).1 = i => hc h.symm
        rw [if_neg hc] at e0
        simp only [hbeq]
        push_cast
        linear_combination ih0 + e0
    · by_cases hc : i = (brPick G1 s.1.1 inp.pert1 (brPick G0 s.1.2 inp.pert0 s.2).2).1
      · have hbeq : ((brPick G1 s.1.1 inp.pert1 (brPick G0 s.1.2 inp.pert0 s.2).2).1 == i) = true := by simp [hc]
        rw [if_pos hc] at e1
        simp only [hbeq, if_true]
        linear_combination ih1 + e1
      · have hbeq : ((brPick G1 s.1.1 inp.pert1 (brPick G0 s.1.2 inp.pert0 s.2).2).1 == i) = false := by
          simpa using fun h : (brPick G1 s.1.1 inp.pert1 (brPick G0 s.1.2 inp.pert0 s.2).2).1 = i => hc h.symm
        rw [if_neg hc] at e1
        simp only [hbeq]
        push_cast
        linear_combination ih1 + e1

omit [LinearOrder F] [IsStrictOrderedRing F] in
/-- constant gain: the step size is the gain -/
theorem stepSize_constant (g : F) (t : Nat) : stepSize (fun n : Nat => (n : F)) (some g) t = g := rfl

end field

/-! ## LocalInteraction -/

omit [LinearOrder K] [IsStrictOrderedRing K] in
/-- entry `c` of the neighbour-count vector of a player with adjacency row `row`: the total weight of
    the neighbours currently playing `c` (`adj_matrix[i].dot(one-hot(actions))[c]`) -/
theorem nbrCounts_spec (row : List K) (actions : List Nat) (n c : Nat) (hc : c < n) :
    (nbrCounts row actions n).length = n ∧
    (nbrCounts row actions n).getD c 0 =
      (List.zipWith (fun w a => if a = c then w else 0) row actions).sum := by
  have hw : ∀ (r : List K) (as : List Nat), wsum r as c = (List.zipWith (fun w a => if a = c then w else 0) r as).sum := by
    intro r
    induction r with
    | nil => intro as; simp [wsum]
    | cons w t ih =>
      intro as
      cases as with
      | nil => simp [wsum]
      | cons a u => simp [wsum, ih]
  refine ⟨by simp [nbrCounts], ?_⟩
  simp [nbrCounts, List.getD_eq_getElem?_getD, hc, hw]

/-- **Actions stay inside the action set** after one call of `_play`, for any set/sequence of
    revisers, any tie-breaking mode and stream. -/
theorem liPlay_range (G : Game K) (adj : List (List K)) (revs old ri : List Nat)
    (hn : 0 < G.A.length) (hold : ∀ v ∈ old, v < G.A.length) :
    (liPlay G adj revs old ri).1.length = old.length ∧
    ∀ v ∈ (liPlay G adj revs old ri).1, v < G.A.length := by
  rw [liPlay_eq_foldl]
  exact ⟨liFold_length G adj old revs (old, ri), liFold_range G adj old hn revs (old, ri) hold⟩

omit [IsStrictOrderedRing K] in
/-- **Asynchronous revision changes only the revisers**: a player not among the revisers keeps
    its action. -/
theorem li_async_changes_only_revisers (G : Game K) (adj : List (List K)) (revs old ri : List Nat)
    (i : Nat) (hi : i ∉ revs) : (liPlay G adj revs old ri).1[i]? = old[i]? := by
  rw [liPlay_eq_foldl]; exact liFold_untouched G adj old i revs (old, ri) hi

/-- **Every reviser best-responds to the OLD profile** (`tie_breaking='smallest'`), for simultaneous
    (`revs = range N`) and asynchronous revision alike: the new action of reviser `i` is the smallest
    index `b` with `pv[b] ≥ max pv − tol`, where `pv = A · (neighbour weights per action in the profile
    before the period)`; players updated earlier in the same period do not influence it. -/
theorem li_uses_old_profile (G : Game K) (adj : List (List K)) (revs old ri : List Nat) (i : Nat)
    (hrnd : G.rnd = false) (htol : 0 ≤ G.tol) (hn : 0 < G.A.length) (hi : i ∈ revs) (hil : i < old.length) :
    let pv := payoffVec G.A (nbrCounts (adj.getD i []) old G.A.length)
    ∃ b, (liPlay G adj revs old ri).1[i]? = some b ∧ (liPlay G adj revs old ri).2 = ri ∧
      b < G.A.length ∧ maxL pv - G.tol ≤ pv.getD b 0 ∧ ∀ j, j < b → ¬ (maxL pv - G.tol ≤ pv.getD j 0) := by
  intro pv
  have hpv : pv ≠ [] := by
    intro h
    have := payoffVec_length G.A (nbrCounts (adj.getD i []) old G.A.length)
    rw [show payoffVec G.A (nbrCounts (adj.getD i []) old G.A.length) = pv from rfl, h] at this
    simp at this; omega
  cases hs : brSet pv G.tol with
  | nil => exact absurd hs (brSet_ne_nil pv G.tol hpv htol)
  | cons b rest =>
    obtain ⟨⟨hb1, hb2⟩, hb3⟩ := brSet_head_min pv G.tol b rest hs
    refine ⟨b, ?_, ?_, ?_, hb2, hb3⟩
    · rw [liPlay_eq_foldl, liFold_smallest G adj old i hrnd revs (old, ri) hi hil]
      rw [show payoffVec G.A (nbrCounts (adj.getD i []) old G.A.length) = pv from rfl, hs]; rfl
    · rw [liPlay_eq_foldl]; exact liFold_stream_smallest G adj old hrnd revs (old, ri)
    · have := payoffVec_length G.A (nbrCounts (adj.getD i []) old G.A.length)
      rw [show payoffVec G.A (nbrCounts (adj.getD i []) old G.A.length) = pv from rfl] at this
      omega

/-- the simultaneous case spelled out: with `revs = range N` every player `i < N` is a reviser -/
example (N i : Nat) (h : i < N) : i ∈ List.range N := List.mem_range.2 h

/-- **Along every history** of simultaneous / asynchronous revisions (any reviser lists, any
    tie-breaking, any stream) all recorded action profiles have `N` entries inside the action set. -/
theorem liStates_range (G : Game K) (adj : List (List K)) (N : Nat) (hn : 0 < G.A.length) :
    ∀ (revss : List (List Nat)) (s : List Nat × List Nat),
      s.1.length = N → (∀ v ∈ s.1, v < G.A.length) →
      ∀ t ∈ liStates G adj revss s, t.1.length = N ∧ ∀ v ∈ t.1, v < G.A.length := by
  intro revss
  induction revss with
  | nil => intro s hl hr t ht; simp [liStates] at ht; rw [ht]; exact ⟨hl, hr⟩
  | cons revs rest ih =>
    intro s hl hr t ht
    simp only [liStates, List.mem_cons] at ht
    rcases ht with rfl | ht
    · exact ⟨hl, hr⟩
    · obtain ⟨h1, h2⟩ := liPlay_range G adj revs s.1 s.2 hn hr
      exact ih _ (by rw [h1]; exact hl) h2 t ht

/-! ## LocalInteraction: the public entry points with their own argument handling -/

omit [IsStrictOrderedRing K] in
/-- **`play` raises exactly for an invalid `revision`, and then a `ValueError`**; in particular no
    `player_ind_seq` form, `num_reps` or drawn sequence makes it fail. -/
theorem liPlayE_error_iff (G : Game K) (adj : List (List K)) (N numReps : Nat) (rev : Revision)
    (arg : SeqArg) (drawn : List Nat) (s : List Nat × List Nat) (e : Err) :
    liPlayE G adj N numReps rev arg drawn s = .error e ↔ rev = .other ∧ e = .valueError := by
  cases rev <;> cases arg <;> simp [liPlayE, playSchedule, eq_comm]

omit [CommRing K] [LinearOrder K] [IsStrictOrderedRing K] in
/-- with `revision='simultaneous'` the `player_ind_seq` argument and the drawn sequence are ignored:
    `num_reps` periods in which everybody revises -/
theorem playSchedule_simultaneous (N numReps : Nat) (arg : SeqArg) (drawn : List Nat) :
    playSchedule N numReps .simultaneous arg drawn = .ok (List.replicate numReps (List.range N)) := rfl

omit [CommRing K] [LinearOrder K] [IsStrictOrderedRing K] in
/-- with `revision='asynchronous'` and a given sequence, `num_reps` is ignored: one period per entry -/
theorem playSchedule_asynchronous_seq (N numReps : Nat) (es : List Entry) (drawn : List Nat) :
    playSchedule N numReps .asynchronous (.seq es) drawn = .ok (es.map entrySet) := rfl

/-- **Every successful `play` call keeps the profile valid**, whatever the revision mode, the form of
    `player_ind_seq`, `num_reps` and the drawn players: same number of players, every action inside
    the action set. -/
theorem liPlayE_range (G : Game K) (adj : List (List K)) (N numReps : Nat) (rev : Revision)
    (arg : SeqArg) (drawn : List Nat) (s r : List Nat × List Nat) (hn : 0 < G.A.length)
    (hs : ∀ v ∈ s.1, v < G.A.length) (h : liPlayE G adj N numReps rev arg drawn s = .ok r) :
    r.1.length = s.1.length ∧ ∀ v ∈ r.1, v < G.A.length := by
  unfold liPlayE at h
  cases hsch : playSchedule N numReps rev arg drawn with
  | error e => rw [hsch] at h; cases h
  | ok sch =>
    rw [hsch] at h
    cases h
    exact liRun_range G adj hn sch s hs

omit [CommRing K] [LinearOrder K] [IsStrictOrderedRing K] in
/-- **When `time_series` succeeds and when it raises** (iff): it returns iff `revision` is valid,
    `ts_length ≥ 1`, and — for asynchronous revision — `player_ind_seq` is omitted, or a sequence with
    at least `ts_length − 1` entries, or (degenerate) an integer with `ts_length ≤ 1`. -/
theorem tsSchedule_ok_iff (N T : Nat) (rev : Revision) (arg : SeqArg) (drawn : List Nat) :
    (∃ p, tsSchedule N T rev arg drawn = .ok p) ↔
      rev ≠ .other ∧ T ≠ 0 ∧
        (rev = .asynchronous → match arg with
          | .none => True
          | .int _ => T ≤ 1
          | .seq es => T - 1 ≤ es.length) := by
  unfold tsSchedule
  by_cases hro : rev = .other
  · simp [hro]
  by_cases hT : T = 0
  · simp [hro, hT]
  simp only [hro, hT, if_false, ne_eq, not_false_eq_true, true_and]
  cases rev with
  | other => exact absurd rfl hro
  | simultaneous =>
    simp only [reduceCtorEq, false_implies, iff_true]
    apply mapM_except_ok_of_all
    intro t _
    exact ⟨_, rfl⟩
  | asynchronous =>
    simp only [true_implies]
    cases arg with
    | none =>
      simp only [iff_true]
      apply mapM_except_ok_of_all
      intro t _
      exact ⟨_, rfl⟩
    | int p =>
      constructor
      · rintro ⟨r, hr⟩
        by_contra hc
        obtain ⟨e, he⟩ := mapM_except_error (tsPeriod N .asynchronous (.int p) drawn) (List.range (T - 1))
          ⟨0, List.mem_range.2 (by omega), .typeError, rfl⟩
        rw [he] at hr; cases hr
      · intro h
        have : T - 1 = 0 := by omega
        rw [this]
        exact ⟨[], rfl⟩
    | seq es =>
      constructor
      · rintro ⟨r, hr⟩
        by_contra hc
        obtain ⟨e, he⟩ := mapM_except_error (tsPeriod N .asynchronous (.seq es) drawn) (List.range (T - 1))
          ⟨es.length, List.mem_range.2 (by omega), .indexError, by simp [tsPeriod, tsArgAt]⟩
        rw [he] at hr; cases hr
      · intro h
        apply mapM_except_ok_of_all
        intro t ht
        have htl : t < es.length := by have := List.mem_range.1 ht; omega
        simp only [tsPeriod, tsArgAt, List.getElem?_eq_getElem htl]
        cases es[t] with
        | one p => exact ⟨_, rfl⟩
        | many ps => exact ⟨_, rfl⟩

/-- **What a successful `time_series` returns**: exactly `ts_length` rows, the first being the initial
    profile, every row with one in-range action per player — for every revision mode and every form of
    `player_ind_seq`. -/
theorem liTimeSeriesE_rows (G : Game K) (adj : List (List K)) (N T : Nat) (rev : Revision) (arg : SeqArg)
    (drawn : List Nat) (s : List Nat × List Nat) (rows : List (List Nat × List Nat)) (hn : 0 < G.A.length)
    (hs : ∀ v ∈ s.1, v < G.A.length) (h : liTimeSeriesE G adj N T rev arg drawn s = .ok rows) :
    rows.length = T ∧ rows.head? = some s ∧
      ∀ t ∈ rows, t.1.length = s.1.length ∧ ∀ v ∈ t.1, v < G.A.length := by
  unfold liTimeSeriesE at h
  cases hsch : tsSchedule N T rev arg drawn with
  | error e => rw [hsch] at h; cases h
  | ok periods =>
    rw [hsch] at h
    cases h
    have hT : T ≠ 0 := ((tsSchedule_ok_iff N T rev arg drawn).1 ⟨periods, hsch⟩).2.1
    have hro : rev ≠ .other := ((tsSchedule_ok_iff N T rev arg drawn).1 ⟨periods, hsch⟩).1
    have hlen : periods.length = T - 1 := by
      unfold tsSchedule at hsch
      rw [if_neg hro, if_neg hT] at hsch
      have := (mapM_except_ok _ _ _ hsch).1
      simpa using this
    obtain ⟨h1, h2, h3⟩ := liRows_spec G adj hn periods s hs
    exact ⟨by rw [h1, hlen]; omega, h2, h3⟩

omit [CommRing K] [LinearOrder K] [IsStrictOrderedRing K] in
/-- **A list entry `[i, j]` means different things at the two entry points** (what the code does;
    the documentation does not settle it): through `time_series` the two players revise one after the
    other inside the period, through `play(player_ind_seq=[[i, j]])` they revise simultaneously. -/
theorem list_entry_sequential_vs_simultaneous (N numReps i j : Nat) (drawn : List Nat) :
    tsSchedule N 2 .asynchronous (.seq [.many [i, j]]) drawn = .ok [[[i], [j]]] ∧
    playSchedule N numReps .asynchronous (.seq [.many [i, j]]) drawn = .ok [[i, j]] := by
  constructor <;> rfl

/-! ## LogitDynamics -/

omit [IsStrictOrderedRing K] in
/-- only the revising player's entry can change -/
theorem logitStep_untouched (nums : List Nat) (tables : List (List (List K))) (iu : Nat × K)
    (actions : List Nat) (j : Nat) (hj : j ≠ iu.1) :
    (logitStep nums tables iu actions)[j]? = actions[j]? := by
  simp [logitStep, List.getElem?_set_ne (Ne.symm hj)]

/-- the cdf row the code reads for player `i` at profile `actions` -/
def logitRow (nums : List Nat) (tables : List (List (List K))) (i : Nat) (actions : List Nat) : List K :=
  (tables.getD i []).getD (flatIdx (rot i nums) (rot i actions)) []

/-- **The logit choice stays inside the action set**: if the row read is a genuine cdf row of player
    `i` (length `nums[i]`, positive last entry — `exp(·) > 0` summed) and `0 ≤ u < 1`, the new action of
    player `i` is `< nums[i]`; it is the inverse-CDF choice: every cdf entry before it is `≤ u·cdf[-1]`
    and the entry at it is `> u·cdf[-1]`. -/
theorem logitStep_range (nums : List Nat) (tables : List (List (List K))) (i : Nat) (u : K)
    (actions : List Nat) (hi : i < actions.length)
    (hrow : logitRow nums tables i actions ≠ [])
    (hlen : (logitRow nums tables i actions).length = nums.getD i 0)
    (hpos : 0 < (logitRow nums tables i actions).getLast hrow) (hu : u < 1) :
    ∃ a, (logitStep nums tables (i, u) actions)[i]? = some a ∧ a < nums.getD i 0 ∧
      (∀ j, j < a → (logitRow nums tables i actions).getD j 0 ≤ u * (logitRow nums tables i actions).getLastD 0) ∧
      u * (logitRow nums tables i actions).getLastD 0 < (logitRow nums tables i actions).getD a 0 := by
  have hlt := logitChoice_lt (logitRow nums tables i actions) u hrow hpos hu
  have hsp := searchRight_spec (logitRow nums tables i actions) (u * (logitRow nums tables i actions).getLastD 0)
  refine ⟨logitChoice (logitRow nums tables i actions) u, ?_, by omega, hsp.1, hsp.2 hlt⟩
  simp [logitStep, logitRow, hi]

omit [IsStrictOrderedRing K] in
/-- **The logit choice is the inverse CDF** (which uniforms lead to which action).  For a
    non-decreasing cdf row and `v = u·cdf[-1]`, the chosen action is `a` **iff**
    `cdf[a-1] ≤ v < cdf[a]` (with no lower condition for `a = 0`): action `a` is chosen exactly on an
    interval of uniforms of length `(cdf[a] − cdf[a-1]) / cdf[-1]`, its logit probability. -/
theorem logitChoice_eq_iff (cdf : List K) (u : K) (hs : cdf.Pairwise (· ≤ ·)) (a : Nat) (ha : a < cdf.length) :
    logitChoice cdf u = a ↔
      (a = 0 ∨ cdf.getD (a - 1) 0 ≤ u * cdf.getLastD 0) ∧ u * cdf.getLastD 0 < cdf.getD a 0 := by
  have hmono : ∀ i j, i ≤ j → j < cdf.length → cdf.getD i 0 ≤ cdf.getD j 0 := by
    intro i j hij hj
    rw [List.getD_eq_getElem?_getD, List.getD_eq_getElem?_getD, List.getElem?_eq_getElem (by omega),
      List.getElem?_eq_getElem hj, Option.getD_some, Option.getD_some]
    rcases Nat.lt_or_eq_of_le hij with h | h
    · exact List.pairwise_iff_getElem.1 hs i j (by omega) hj h
    · subst h; exact le_refl _
  have hsp := searchRight_spec cdf (u * cdf.getLastD 0)
  constructor
  · intro h
    unfold logitChoice at h
    refine ⟨?_, ?_⟩
    · by_cases h0 : a = 0
      · exact Or.inl h0
      · exact Or.inr (hsp.1 (a - 1) (by omega))
    · have := hsp.2 (by omega)
      rw [h] at this; exact this
  · rintro ⟨h1, h2⟩
    unfold logitChoice
    symm
    apply searchRight_unique cdf _ a (by omega)
    · intro j hj
      rcases h1 with h0 | h1
      · omega
      · exact le_trans (hmono j (a - 1) (by omega) (by omega)) h1
    · intro j hj hjl
      exact lt_of_lt_of_le h2 (hmono a j hj hjl)

/-- every action lies inside its player's action set: `actions[j] < nums[j]` for all `j`,
    and there is one action per player -/
def InRange (nums actions : List Nat) : Prop := List.Forall₂ (fun m a => a < m) nums actions

theorem inRange_set (nums actions : List Nat) (h : InRange nums actions) :
    ∀ (i v : Nat), v < nums.getD i 0 → InRange nums (actions.set i v) := by
  unfold InRange at h ⊢
  induction h with
  | nil => intro i v _; simp
  | cons hab _ ih =>
    intro i v hv
    cases i with
    | zero => exact List.Forall₂.cons (by simpa using hv) (by assumption)
    | succ i => exact List.Forall₂.cons hab (ih i v (by simpa using hv))

/-- well-formed cdf tables: player `i`'s table has one row per opponent profile (C-order over the
    opponents `i+1, …, N-1, 0, …, i-1`), each row has one entry per own action and a positive last
    entry (it is a running sum of `exp(·) > 0`) -/
def LogitOK (nums : List Nat) (tables : List (List (List K))) : Prop :=
  ∀ i, i < nums.length → (tables.getD i []).length = (rot i nums).prod ∧
    ∀ row ∈ tables.getD i [], row.length = nums.getD i 0 ∧ ∃ h : row ≠ [], 0 < row.getLast h

omit [IsStrictOrderedRing K] in
/-- the row the code reads is a genuine row of the table (the flat index never leaves it) -/
theorem logitRow_mem (nums : List Nat) (tables : List (List (List K))) (i : Nat) (actions : List Nat)
    (hok : LogitOK nums tables) (hi : i < nums.length) (hr : InRange nums actions) :
    logitRow nums tables i actions ∈ tables.getD i [] := by
  have hrot : List.Forall₂ (fun m a => a < m) (rot i nums) (rot i actions) :=
    List.rel_append (List.forall₂_drop (i + 1) hr) (List.forall₂_take i hr)
  have hlt := flatIdx_lt (rot i nums) (rot i actions) hrot.length_eq
    (fun p hp => List.forall₂_zip hrot (a := p.1) (b := p.2) hp)
  rw [← (hok i hi).1] at hlt
  have key : ∀ (tab : List (List K)) (k : Nat), k < tab.length → tab.getD k [] ∈ tab := by
    intro tab k hk
    rw [List.getD_eq_getElem?_getD, List.getElem?_eq_getElem hk, Option.getD_some]
    exact List.getElem_mem hk
  exact key _ _ hlt

/-- **One logit revision keeps every action inside the action set** (any revising player `i < N`,
    any uniform `u < 1`). -/
theorem logitStep_inRange (nums : List Nat) (tables : List (List (List K))) (i : Nat) (u : K)
    (actions : List Nat) (hok : LogitOK nums tables) (hi : i < nums.length) (hu : u < 1)
    (hr : InRange nums actions) : InRange nums (logitStep nums tables (i, u) actions) := by
  have hmem := logitRow_mem nums tables i actions hok hi hr
  obtain ⟨hlen, hne, hpos⟩ := (hok i hi).2 _ hmem
  have := logitChoice_lt (logitRow nums tables i actions) u hne hpos hu
  exact inRange_set nums actions hr i _ (by rw [← hlen]; exact this)

/-- **LogitDynamics keeps every action inside the action set along every history**: for every
    sequence of revising players `< N` and uniforms `< 1`, every recorded profile is in range. -/
theorem logitStates_inRange (nums : List Nat) (tables : List (List (List K))) (hok : LogitOK nums tables) :
    ∀ (ius : List (Nat × K)) (s : List Nat), (∀ iu ∈ ius, iu.1 < nums.length ∧ iu.2 < 1) →
      InRange nums s → ∀ t ∈ logitStates nums tables ius s, InRange nums t := by
  intro ius
  induction ius with
  | nil => intro s _ hs t ht; simp [logitStates] at ht; rw [ht]; exact hs
  | cons iu rest ih =>
    intro s hin hs t ht
    simp only [logitStates, List.mem_cons] at ht
    rcases ht with rfl | ht
    · exact hs
    · obtain ⟨h1, h2⟩ := hin iu (by simp)
      exact ih _ (fun q hq => hin q (List.mem_cons_of_mem _ hq))
        (logitStep_inRange nums tables iu.1 iu.2 s hok h1 h2 hs) t ht

/-! ## The search model is NumPy's `searchsorted(side='right')` -/

/-- On a state with non-negative counts the running sums are sorted, `locate d p` satisfies the
    documented post-condition of `np.searchsorted(cumsum, p, side='right')`, and it is the only
    index that does. -/
theorem locate_is_searchsorted (d : List Int) (p : Int) (hnn : ∀ j, j < d.length → 0 ≤ d.getD j 0) :
    (cumsum d).Pairwise (· ≤ ·) ∧
    (∀ j, j < locate d p → (cumsum d).getD j 0 ≤ p) ∧
    (∀ j, locate d p ≤ j → j < (cumsum d).length → p < (cumsum d).getD j 0) ∧
    ∀ r, r ≤ (cumsum d).length → (∀ j, j < r → (cumsum d).getD j 0 ≤ p) →
      (∀ j, r ≤ j → j < (cumsum d).length → p < (cumsum d).getD j 0) → r = locate d p := by
  have hs := (cumsumFrom_sorted d 0 hnn).1
  exact ⟨hs, (searchRight_spec (cumsum d) p).1, searchRight_sorted (cumsum d) p hs,
    fun r hr h1 h2 => searchRight_unique (cumsum d) p r hr h1 h2⟩

/-! ## Random tie-breaking: the chosen action is a best response (guarded by valid draws) -/

/-- **Random tie-breaking picks a best response** (BRD): if the drawn index is a valid index into
    the set of best responses (what `randint(len)` returns), the reviser moves to an action `b`
    with `pv[b] ≥ max pv − tol`, `pv = A · (d − e_a)`. -/
theorem brd_random_is_best_response (ι : Int → K) (G : Game K) (inp : Inp K) (N : Int) (n : Nat)
    (d : List Int) (ri : List Nat) (hA : G.A.length = n) (hv : Valid N n d)
    (h0 : 0 ≤ inp.p) (hp : inp.p < N) (htol : 0 ≤ G.tol) :
    let a := locate d inp.p
    let pv := payoffVec G.A ((bump d a (-1)).map ι)
    (G.rnd = true → (brSet pv G.tol).length ≠ 1 → ri.headD 0 < (brSet pv G.tol).length) →
    ∃ b, (stepK ι G .brd inp (d, ri)).1 = move d a b ∧ b < n ∧ maxL pv - G.tol ≤ pv.getD b 0 := by
  intro a pv hr
  obtain ⟨ha, _, _, _⟩ := locate_spec N n d inp.p hv h0 hp
  have hlen : pv.length = n := by rw [← hA]; exact payoffVec_length G.A _
  have hpv : addPert (payoffVec G.A ((bump d a (-1)).map ι)) none ≠ [] := by
    intro h
    have : pv = [] := h
    rw [this] at hlen; simp at hlen; omega
  have hmem := brPick_mem_brSet G ((bump d a (-1)).map ι) none ri hpv htol hr
  have := (mem_brSet pv G.tol _).1 hmem
  exact ⟨(brPick G ((bump d a (-1)).map ι) none ri).1, rfl, by omega, this.2⟩

/-- **Random tie-breaking picks a best response (SamplingBRD)**: same guard; `pv = A · bincount(sample)`. -/
theorem sbrd_random_is_best_response (ι : Int → K) (G : Game K) (inp : Inp K) (d : List Int) (ri : List Nat)
    (hn : 0 < G.A.length) (htol : 0 ≤ G.tol) :
    let pv := payoffVec G.A ((bincount G.A.length inp.sample).map ι)
    (G.rnd = true → (brSet pv G.tol).length ≠ 1 → ri.headD 0 < (brSet pv G.tol).length) →
    ∃ b, (stepK ι G .sbrd inp (d, ri)).1 = move d (locate d inp.p) b ∧ b < G.A.length ∧
      maxL pv - G.tol ≤ pv.getD b 0 := by
  intro pv hr
  have hlen : pv.length = G.A.length := payoffVec_length G.A _
  have hpv : addPert (payoffVec G.A ((bincount G.A.length inp.sample).map ι)) none ≠ [] := by
    intro h
    have : pv = [] := h
    rw [this] at hlen; simp at hlen; omega
  have hmem := brPick_mem_brSet G ((bincount G.A.length inp.sample).map ι) none ri hpv htol hr
  have := (mem_brSet pv G.tol _).1 hmem
  exact ⟨(brPick G ((bincount G.A.length inp.sample).map ι) none ri).1, rfl, by omega, this.2⟩

/-- **Exact SamplingBRD transition with `tie_breaking='smallest'`**: remove the reviser, add the
    smallest best response to the sample's action counts `pv = A · bincount(sample)`. -/
theorem sbrd_smallest_exact (ι : Int → K) (G : Game K) (inp : Inp K) (d : List Int) (ri : List Nat)
    (hn : 0 < G.A.length) (hrnd : G.rnd = false) (htol : 0 ≤ G.tol) :
    let pv := payoffVec G.A ((bincount G.A.length inp.sample).map ι)
    ∃ b, stepK ι G .sbrd inp (d, ri) = (move d (locate d inp.p) b, ri) ∧ b < G.A.length ∧
      maxL pv - G.tol ≤ pv.getD b 0 ∧ ∀ j, j < b → ¬ (maxL pv - G.tol ≤ pv.getD j 0) := by
  intro pv
  have hlen : pv.length = G.A.length := payoffVec_length G.A _
  have hpv : addPert (payoffVec G.A ((bincount G.A.length inp.sample).map ι)) none ≠ [] := by
    intro h
    have : pv = [] := h
    rw [this] at hlen; simp at hlen; omega
  obtain ⟨b, e, ⟨hb1, hb2⟩, hb3⟩ :=
    brPick_smallest G ((bincount G.A.length inp.sample).map ι) none ri hrnd hpv htol
  refine ⟨b, ?_, ?_, hb2, hb3⟩
  · show sbrdPlay ι G inp.sample (locate d inp.p) d ri = _
    simp only [sbrdPlay, e, move]
  · have : (addPert (payoffVec G.A ((bincount G.A.length inp.sample).map ι)) none).length = pv.length := rfl
    omega

omit [IsStrictOrderedRing K] in
/-- KMR with a non-negative coin and `ε = 0` never mutates: it is BRD -/
theorem kmr_eps_zero (ι : Int → K) (G : Game K) (inp : Inp K) (s : List Int × List Nat) (hu : 0 ≤ inp.u) :
    stepK ι G (.kmr 0) inp s = stepK ι G .brd inp s := by
  simp [stepK, playK, kmrPlay, not_lt.2 hu]

/-- **Asynchronous revision by one player with random tie-breaking**: under the same guard on the
    drawn index, the reviser's new action is a best response to the OLD profile. -/
theorem li_async_random_is_best_response (G : Game K) (adj : List (List K)) (i : Nat) (old ri : List Nat)
    (hn : 0 < G.A.length) (htol : 0 ≤ G.tol) (hil : i < old.length) :
    let pv := payoffVec G.A (nbrCounts (adj.getD i []) old G.A.length)
    (G.rnd = true → (brSet pv G.tol).length ≠ 1 → ri.headD 0 < (brSet pv G.tol).length) →
    ∃ b, (liPlay G adj [i] old ri).1[i]? = some b ∧ b < G.A.length ∧ maxL pv - G.tol ≤ pv.getD b 0 := by
  intro pv hr
  have hlen : pv.length = G.A.length := payoffVec_length G.A _
  have hpv : addPert (payoffVec G.A (nbrCounts (adj.getD i []) old G.A.length)) none ≠ [] := by
    intro h
    have : pv = [] := h
    rw [this] at hlen; simp at hlen; omega
  have hmem := brPick_mem_brSet G (nbrCounts (adj.getD i []) old G.A.length) none ri hpv htol hr
  have := (mem_brSet pv G.tol _).1 hmem
  refine ⟨(brPick G (nbrCounts (adj.getD i []) old G.A.length) none ri).1, ?_, by omega, this.2⟩
  simp [liPlay, hil]

/-- **Random tie-breaking, any set of revisers (simultaneous or asynchronous)**: if every index drawn
    during the loop is a valid index into the then-current set of best responses (`LiGuard`, the
    stream threaded exactly as the loop does), every reviser ends on a best response to the OLD
    profile. -/
theorem li_random_is_best_response (G : Game K) (adj : List (List K)) (revs old ri : List Nat) (i : Nat)
    (hn : 0 < G.A.length) (htol : 0 ≤ G.tol) (hg : LiGuard G adj old revs ri) (hi : i ∈ revs)
    (hil : i < old.length) :
    let pv := payoffVec G.A (nbrCounts (adj.getD i []) old G.A.length)
    ∃ b, (liPlay G adj revs old ri).1[i]? = some b ∧ b < G.A.length ∧ maxL pv - G.tol ≤ pv.getD b 0 := by
  intro pv
  obtain ⟨b, hb, hmem⟩ := liFold_random_mem G adj old i hn htol revs (old, ri) hg hi hil
  have := (mem_brSet pv G.tol b).1 hmem
  have hlen : pv.length = G.A.length := payoffVec_length G.A _
  exact ⟨b, by rw [liPlay_eq_foldl]; exact hb, by omega, this.2⟩

/-- **Fictitious play with random tie-breaking**: under the guards on the two drawn indices (the
    second is read from the stream left by the first), both beliefs move towards best responses to
    the *previous* beliefs. -/
theorem fpStep_random_is_best_response (G0 G1 : Game K) (inp : FpInp K) (s : (List K × List K) × List Nat)
    (ht0 : 0 ≤ G0.tol) (ht1 : 0 ≤ G1.tol)
    (hpv0 : addPert (payoffVec G0.A s.1.2) inp.pert0 ≠ [])
    (hpv1 : addPert (payoffVec G1.A s.1.1) inp.pert1 ≠ []) :
    let pv0 := addPert (payoffVec G0.A s.1.2) inp.pert0
    let pv1 := addPert (payoffVec G1.A s.1.1) inp.pert1
    let ri1 := (brPick G0 s.1.2 inp.pert0 s.2).2
    (G0.rnd = true → (brSet pv0 G0.tol).length ≠ 1 → s.2.headD 0 < (brSet pv0 G0.tol).length) →
    (G1.rnd = true → (brSet pv1 G1.tol).length ≠ 1 → ri1.headD 0 < (brSet pv1 G1.tol).length) →
    ∃ b0 b1, (fpStep G0 G1 inp s).1 = (scaleAdd s.1.1 inp.γ b0, scaleAdd s.1.2 inp.γ b1) ∧
      maxL pv0 - G0.tol ≤ pv0.getD b0 0 ∧ maxL pv1 - G1.tol ≤ pv1.getD b1 0 := by
  intro pv0 pv1 ri1 hr0 hr1
  have m0 := brPick_mem_brSet G0 s.1.2 inp.pert0 s.2 hpv0 ht0 hr0
  have m1 := brPick_mem_brSet G1 s.1.1 inp.pert1 ri1 hpv1 ht1 hr1
  exact ⟨_, _, rfl, ((mem_brSet pv0 G0.tol _).1 m0).2, ((mem_brSet pv1 G1.tol _).1 m1).2⟩

/-! ## Non-vacuity: the hypotheses above are satisfiable on non-trivial inputs, and the model
    computes what the statements say (evaluated by the kernel on the same definitions). -/
section examples

/-- a 2-action coordination game with payoffs (2, 1), `tol = 0`, smallest tie-breaking -/
def exG : Game Int := ⟨[[2, 0], [0, 1]], 0, false⟩
def exGr : Game Int := ⟨[[1, 1], [1, 1]], 0, true⟩      -- everything ties, random tie-breaking
def exInps : List (Inp Int) := [⟨0, 0, []⟩, ⟨2, 0, []⟩, ⟨1, 0, []⟩]

example : Valid 3 2 [2, 1] := by
  refine ⟨rfl, ?_, rfl⟩
  intro j hj
  have : j = 0 ∨ j = 1 := by simp at hj; omega
  rcases this with rfl | rfl <;> decide
example : ∀ inp ∈ exInps, 0 ≤ inp.p ∧ inp.p < 3 := by decide
/-- BRD path: the player at index 2 (action 1) switches to action 0 -/
example : (states (fun z => z) exG .brd exInps ([2, 1], [])).map Prod.fst
    = [[2, 1], [2, 1], [3, 0], [3, 0]] := by decide
/-- random tie-breaking consumes the stream: draws 1, 0, 1 select actions 1, 0, 1 -/
example : states (fun z => z) exGr .brd exInps ([2, 1], [1, 0, 1])
    = [([2, 1], [1, 0, 1]), ([1, 2], [0, 1]), ([2, 1], [1]), ([1, 2], [])] := by decide
/-- KMR: `u < ε` mutates to the drawn action -/
example : (states (fun z => z) exG (.kmr 1) [⟨0, 0, []⟩] ([2, 1], [1])).map Prod.fst = [[2, 1], [1, 2]] := by
  decide
/-- SamplingBRD: best response to the sample `[1, 1]` is action 1 -/
example : (states (fun z => z) exG .sbrd [⟨0, 0, [1, 1]⟩] ([2, 1], [])).map Prod.fst = [[2, 1], [1, 2]] := by
  decide
example : setActionDist 3 [2, 0, 2, 2] = [1, 0, 3] := by decide
/-- ℓ¹ distance along the BRD path above: 0 (stay), 2 (one player moved), 0 -/
example : l1dist [2, 1] [2, 1] = 0 ∧ l1dist [3, 0] [2, 1] = 2 := by decide
/-- `IndexError` branch: player index 3 with 3 players -/
example : series (fun z => z) exG .brd [⟨3, 0, []⟩] ([2, 1], []) = none := by decide
/-- the stream hypothesis of `states_valid` is needed for KMR: an out-of-range "random action"
    (which `randint(n)` never returns) would lose a player in the model -/
example : (stepK (fun z => z) exG (.kmr 1) ⟨0, 0, []⟩ ([2, 1], [7])).1 = [1, 1] := by decide

def fG : Game Rat := ⟨[[1, 0], [0, 1]], 0, false⟩

example : FpOK fG fG (([1, 0], [0, 1]) : List Rat × List Rat) := by
  unfold FpOK IsProb; decide +kernel
/-- fictitious play, decreasing gain 1/2, 1/3: both players chase the other's last action -/
example : (fpStates fG fG [⟨1/2, none, none⟩, ⟨1/3, none, none⟩] (([1, 0], [0, 1]), [])).map Prod.fst =
    [([1, 0], [0, 1]), ([1/2, 1/2], [1/2, 1/2]), ([2/3, 1/3], [2/3, 1/3])] := by decide +kernel
/-- a perturbation changes the best response (stochastic fictitious play) -/
example : (fpStep fG fG ⟨1/2, some [0, 2], none⟩ (([1, 0], [1, 0]), [])).1 = ([1/2, 1/2], [1, 0]) := by
  decide +kernel

/-- a 3-player game, 2 actions each: every player wants to match player 0's … own axis order -/
def gN : List (GameN Rat) :=
  [⟨[1, 0, 0, 0, 0, 0, 0, 1], 0, false⟩, ⟨[1, 0, 0, 0, 0, 0, 0, 1], 0, false⟩, ⟨[1, 0, 0, 0, 0, 0, 0, 1], 0, false⟩]

example : ShapeFrom [2, 2, 2] 0 gN := by
  intro k hk
  have : k = 0 ∨ k = 1 ∨ k = 2 := by simp [gN] at hk; omega
  rcases this with rfl | rfl | rfl <;> simp [gN, rot]
example : FpNOK [2, 2, 2] ([[1, 0], [0, 1], [1/2, 1/2]] : List (List Rat)) := by
  unfold FpNOK IsProb; decide +kernel
/-- payoff 1 only if all three coordinate: against (e₁, ½·½) player 0's payoffs are (0, ½) → action 1, … -/
example : (fpStatesN gN [(1/2, [none, none, none])] ([[1, 0], [0, 1], [1/2, 1/2]], [])).map Prod.fst =
    [[[1, 0], [0, 1], [1/2, 1/2]], [[1/2, 1/2], [1/2, 1/2], [3/4, 1/4]]] := by decide +kernel

/-- expected payoff in the 3-player example: against (e₂, ½·½) own action 1 earns 1·½ -/
example : (payoffVecN ([1, 0, 0, 0, 0, 0, 0, 1] : List Rat) [[0, 1], [1/2, 1/2]]) = [0, 1/2] := by decide +kernel
example : expPayoff ([1, 0, 0, 0, 0, 0, 0, 1] : List Rat) [[0, 1], [1/2, 1/2]] 1 = 1/2 := by decide +kernel
/-- the hypotheses of `fpStepN_smallest_expected_best_response` on the game `gN`, player 0 -/
example : (gN[0]'(by decide)).flat.length = ([2, 2, 2] : List Nat).getD 0 0 * (rot 0 [2, 2, 2]).prod := by decide

/-- non-vacuity: all hypotheses of `fpStepN_smallest_expected_best_response` hold for player 0 of `gN`
    at the profile used above, so the theorem yields a concrete best response there -/
example : ∃ b, b < ([2, 2, 2] : List Nat).getD 0 0 ∧
    (fpStepN gN (1/2) [none, none, none] ([[1, 0], [0, 1], [1/2, 1/2]], [])).1[0]? =
      some (scaleAdd (([[1, 0], [0, 1], [1/2, 1/2]] : List (List Rat)).getD 0 []) (1/2) b) ∧
    ∀ a, a < ([2, 2, 2] : List Nat).getD 0 0 →
      expPayoff (gN[0]'(by decide)).flat (rot 0 [[1, 0], [0, 1], [1/2, 1/2]]) a - (gN[0]'(by decide)).tol ≤
        expPayoff (gN[0]'(by decide)).flat (rot 0 [[1, 0], [0, 1], [1/2, 1/2]]) b :=
  fpStepN_smallest_expected_best_response gN (1/2) [none, none, none] ([[1, 0], [0, 1], [1/2, 1/2]], [])
    [2, 2, 2] (by decide) (by decide) (by decide) (by decide) 0 (by decide) (by decide) (by decide)
    (by decide +kernel) rfl

/-- random tie-breaking in the 3-player game where everything ties: the draws 1, 0, 1 satisfy `BrsGuard` -/
def gNr : List (GameN Rat) :=
  [⟨[1, 1, 1, 1, 1, 1, 1, 1], 0, true⟩, ⟨[1, 1, 1, 1, 1, 1, 1, 1], 0, true⟩, ⟨[1, 1, 1, 1, 1, 1, 1, 1], 0, true⟩]
example : BrsGuard ([[1, 0], [0, 1], [1/2, 1/2]] : List (List Rat)) [none, none, none] 0 gNr [1, 0, 1] := by
  simp only [BrsGuard, gNr]; decide +kernel
example : (fpStepN gNr (1/2) [none, none, none] ([[1, 0], [0, 1], [1/2, 1/2]], [1, 0, 1])).1 =
    [[1/2, 1/2], [1/2, 1/2], [1/4, 3/4]] := by decide +kernel

/-- non-vacuity of `fp_empirical_frequency`: the decreasing-gain run above (t₀ = 0, steps 1/2, 1/3)
    satisfies the step-size hypothesis; player 0 moved towards action 1 then action 0, and indeed
    `3 · (2/3) = 1 · 1 + 1` and `3 · (1/3) = 1 · 0 + 1` -/
example : ∀ j (h : j < ([⟨1/2, none, none⟩, ⟨1/3, none, none⟩] : List (FpInp Rat)).length),
    ([⟨1/2, none, none⟩, ⟨1/3, none, none⟩] : List (FpInp Rat))[j].γ =
      stepSize (fun n : Nat => (n : Rat)) none (0 + j) := by
  intro j h
  have : j = 0 ∨ j = 1 := by simp at h; omega
  rcases this with rfl | rfl <;> simp [stepSize]
example : fpTargets fG fG [⟨1/2, none, none⟩, ⟨1/3, none, none⟩] (([1, 0], [0, 1]), []) = [(1, 0), (0, 0)] := by
  decide +kernel
example : (fpFinal fG fG [⟨1/2, none, none⟩, ⟨1/3, none, none⟩] (([1, 0], [0, 1]), [])).1 =
    ([2/3, 1/3], [2/3, 1/3]) := by decide +kernel

/-- local interaction on the directed 3-cycle, simultaneous revision: everyone copies its
    predecessor's action (computed from the OLD profile) -/
example : (liPlay fG [[0, 0, 1], [1, 0, 0], [0, 1, 0]] [0, 1, 2] [0, 1, 1] []).1 = [1, 0, 1] := by
  decide +kernel
/-- asynchronous: only player 0 moves -/
example : (liPlay fG [[0, 0, 1], [1, 0, 0], [0, 1, 0]] [0] [0, 1, 1] []).1 = [1, 1, 1] := by
  decide +kernel

/-- random tie-breaking in the loop: all payoffs tie, the draws 1, 0, 1 are valid indices (`LiGuard`)
    and select the actions 1, 0, 1 -/
def gR : Game Rat := ⟨[[1, 1], [1, 1]], 0, true⟩
example : LiGuard gR [[0, 0, 1], [1, 0, 0], [0, 1, 0]] [0, 1, 1] [0, 1, 2] [1, 0, 1] := by
  simp only [LiGuard]; decide +kernel
example : liPlay gR [[0, 0, 1], [1, 0, 0], [0, 1, 0]] [0, 1, 2] [0, 1, 1] [1, 0, 1] = ([1, 0, 1], []) := by
  decide +kernel

/-- entry points on the 3-cycle: asynchronous `play` over the entries 0, [1, 2]; an invalid revision;
    `time_series` with a sequence that is too short (`IndexError`) and with an integer (`TypeError`) -/
def excErr {β : Type} : Except Err β → Option Err
  | .error e => some e
  | .ok _ => none
example : (liPlayE fG [[0, 0, 1], [1, 0, 0], [0, 1, 0]] 3 7 .asynchronous (.seq [.one 0, .many [1, 2]]) []
    ([0, 1, 1], [])).toOption.map Prod.fst = some [1, 1, 1] := by decide +kernel
example : excErr (liPlayE fG [[0, 0, 1], [1, 0, 0], [0, 1, 0]] 3 1 .other .none [] ([0, 1, 1], [])) = some .valueError := by
  decide +kernel
example : excErr (liTimeSeriesE fG [[0, 0, 1], [1, 0, 0], [0, 1, 0]] 3 3 .asynchronous (.seq [.one 0]) [] ([0, 1, 1], []))
    = some .indexError := by decide +kernel
example : excErr (liTimeSeriesE fG [[0, 0, 1], [1, 0, 0], [0, 1, 0]] 3 2 .asynchronous (.int 1) [] ([0, 1, 1], []))
    = some .typeError := by decide +kernel
example : (liTimeSeriesE fG [[0, 0, 1], [1, 0, 0], [0, 1, 0]] 3 3 .simultaneous (.int 5) [] ([0, 1, 1], [])).toOption.map
    (fun rows => rows.map Prod.fst) = some [[0, 1, 1], [1, 0, 1], [1, 1, 0]] := by decide +kernel

/-- logit choice on the cdf row (1/2, 3/2): `u = 1/3` gives `u·cdf[-1] = 1/2`, hence action 1 -/
example : logitStep [2, 2] [[[1/2, 3/2], [1, 2]], [[1, 2], [1, 3/2]]] (0, (1/3 : Rat)) [0, 0] = [1, 0] := by
  decide +kernel
example : logitRow [2, 2] [[[1/2, 3/2], [1, 2]], [[1, 2], [1, 3/2]]] 0 [0, 0] = [(1/2 : Rat), 3/2] := by
  decide +kernel
example : LogitOK [2, 2] ([[[1/2, 3/2], [1, 2]], [[1, 2], [1, 3/2]]] : List (List (List Rat))) := by
  intro i hi
  have : i = 0 ∨ i = 1 := by simp at hi; omega
  rcases this with rfl | rfl
  · refine ⟨by decide, ?_⟩
    intro row hrow
    have : row = [1/2, 3/2] ∨ row = [1, 2] := by simpa using hrow
    rcases this with rfl | rfl <;> exact ⟨by decide, by simp, by norm_num⟩
  · refine ⟨by decide, ?_⟩
    intro row hrow
    have : row = [1, 2] ∨ row = [1, 3/2] := by simpa using hrow
    rcases this with rfl | rfl <;> exact ⟨by decide, by simp, by norm_num⟩
example : InRange [2, 2] [0, 1] := List.Forall₂.cons (by decide) (List.Forall₂.cons (by decide) List.Forall₂.nil)
/-- `logitChoice_eq_iff` on the row (1/2, 3/2): action 1 is chosen exactly for `1/2 ≤ u·(3/2) < 3/2` -/
example : ([(1/2 : Rat), 3/2]).Pairwise (· ≤ ·) := by decide +kernel
example : logitChoice [(1/2 : Rat), 3/2] (1/3) = 1 ∧ logitChoice [(1/2 : Rat), 3/2] (1/4) = 0 := by decide +kernel
/-- without `u < 1` the choice leaves the action set (the reason for the hypothesis) -/
example : logitChoice [(1/2 : Rat), 3/2] 1 = 2 := by decide +kernel

end examples

end QE.C20
