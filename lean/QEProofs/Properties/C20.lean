/-
  Property C20 — theorems about QEModel.C20 (stub; to be filled in).
-/
import QEModel.C20
namespace QE.C20

end QE.C20
