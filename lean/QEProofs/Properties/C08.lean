/-
  Property C08 — theorems about QEModel.C08 (stub; to be filled in).
-/
import QEModel.C08
namespace QE.C08

end QE.C08
