/-
  Property C08 — quadrature rules integrate exactly what their order promises:
  theorems about QEModel.C08 (the definitions the driver `qedriver_c08` executes).

  `K` is any linearly ordered field (ℚ, ℝ): exact arithmetic.  The floating-point rounding of
  the real code is *not* covered here; it is the rounding envelope of the correspondence run.
-/
import QEModel.C08
import QEProofs.Lemmas.C08Basic
import QEProofs.Lemmas.C08Closed
import QEProofs.Lemmas.C08Tensor
import QEProofs.Lemmas.C08Affine
import QEProofs.Lemmas.C08Product
import QEProofs.Lemmas.C08Rec
import QEProofs.Lemmas.C08Sym
import QEProofs.Lemmas.C08Normal
import QEProofs.Lemmas.C08Deriv
import QEProofs.Lemmas.C08Lag
import QEProofs.Lemmas.C08Herm
import QEProofs.Lemmas.C08Jac
import QEProofs.Lemmas.C08JacDeriv
import QEProofs.Lemmas.C08Gauss
import QEProofs.Lemmas.C08Orth
import QEProofs.Lemmas.C08LagOrth
import QEProofs.Lemmas.C08HermOrth
import QEProofs.Lemmas.C08JacOrth
import Mathlib.Tactic.IntervalCases
import Mathlib.Algebra.Polynomial.Eval.Degree
import Mathlib.Analysis.Real.Sqrt
import Mathlib.Tactic.NormNum
import Mathlib.Tactic.SplitIfs
namespace QE.C08
open Finset

set_option linter.unusedSectionVars false

variable {K : Type} [Field K] [LinearOrder K] [IsStrictOrderedRing K]

/-! ## Trapezoid rule (`_qnwtrap1`) -/

/-- **qnwtrap is exact for degree ≤ 1, for every n ≥ 2 and every interval.**
    `trapRule n a b` succeeds with `n` nodes and `n` weights, and
    `Σ wᵢ (c₀ + c₁ xᵢ) = c₀ (b−a) + c₁ (b²−a²)/2 = ∫ₐᵇ (c₀ + c₁ t) dt`.
    (Induction over the number of panels; no hypothesis `a < b` is needed for exactness.) -/
theorem trap_exact_deg1 (n : Nat) (hn : 2 ≤ n) (a b : K) :
    ∃ nodes weights, trapRule n a b = some (nodes, weights) ∧ nodes.length = n ∧ weights.length = n ∧
      ∀ c0 c1 : K, quadSum weights nodes (fun t => c0 + c1 * t)
        = c0 * (b - a) + c1 * ((b ^ 2 - a ^ 2) / 2) := by
  refine ⟨_, _, trapRule_eq n hn a b, by simp, by simp, ?_⟩
  intro c0 c1
  rw [quadSum_map_range]
  obtain ⟨m, rfl⟩ : ∃ m, n = m + 1 := ⟨n - 1, by omega⟩
  rw [trap_sum_of_panel m (by omega) a b (fun t => c0 + c1 * t) (fun t => c0 * t + c1 * (t ^ 2 / 2))
    (by intro x h; ring)]
  ring

/-- moment form of `trap_exact_deg1`: `Σ wᵢ xᵢᵏ = (b^{k+1} − a^{k+1})/(k+1)` for `k ≤ 1` -/
theorem trap_moments (n : Nat) (hn : 2 ≤ n) (a b : K) (nodes weights : List K)
    (h : trapRule n a b = some (nodes, weights)) (k : Nat) (hk : k ≤ 1) :
    quadSum weights nodes (fun t => t ^ k) = (b ^ (k + 1) - a ^ (k + 1)) / ((k + 1 : Nat) : K) := by
  obtain ⟨x, w, h', _, _, hex⟩ := trap_exact_deg1 n hn a b
  rw [h'] at h
  obtain ⟨rfl, rfl⟩ : x = nodes ∧ w = weights := by simpa using h
  interval_cases k
  · have := hex 1 0
    simp only [zero_mul, add_zero, one_mul] at this
    simpa using this
  · have := hex 0 1
    simp only [zero_mul, zero_add, one_mul] at this
    rw [show (fun t : K => t ^ 1) = fun t => 0 + 1 * t by funext t; ring, hex 0 1]
    push_cast; ring

/-- **qnwtrap: support, positivity, total mass.** For `a < b` and `n ≥ 2`: every node lies in
    `[a, b]`, the first node is `a`, the last is `b`, every weight is positive, and the weights
    sum to `b − a`. -/
theorem trap_support_positive (n : Nat) (hn : 2 ≤ n) (a b : K) (hab : a < b) (nodes weights : List K)
    (h : trapRule n a b = some (nodes, weights)) :
    (∀ x ∈ nodes, a ≤ x ∧ x ≤ b) ∧ nodes.getD 0 0 = a ∧ nodes.getD (n - 1) 0 = b ∧
    (∀ w ∈ weights, 0 < w) ∧ quadSum weights nodes (fun _ => 1) = b - a := by
  rw [trapRule_eq n hn a b] at h
  obtain ⟨rfl, rfl⟩ : (List.range n).map (node n a b) = nodes ∧
      ((List.range n).map fun i => (b - a) / ((n - 1 : Nat) : K) * trapCoef n i) = weights := by
    simpa using h
  have hpos : (0 : K) < ((n - 1 : Nat) : K) := by
    have : 0 < n - 1 := by omega
    exact_mod_cast this
  have hstep : 0 < (b - a) / ((n - 1 : Nat) : K) := div_pos (sub_pos.mpr hab) hpos
  refine ⟨?_, ?_, ?_, ?_, ?_⟩
  · intro x hx
    obtain ⟨i, hi, rfl⟩ := List.mem_map.mp hx
    have hi' : i < n := by simpa using hi
    unfold node
    constructor
    · have : 0 ≤ (i : K) * ((b - a) / ((n - 1 : Nat) : K)) :=
        mul_nonneg (Nat.cast_nonneg i) hstep.le
      linarith
    · have hle : (i : K) ≤ ((n - 1 : Nat) : K) := by
        have : i ≤ n - 1 := by omega
        exact_mod_cast this
      have h1 : (i : K) * ((b - a) / ((n - 1 : Nat) : K)) ≤ ((n - 1 : Nat) : K) * ((b - a) / ((n - 1 : Nat) : K)) :=
        mul_le_mul_of_nonneg_right hle hstep.le
      have h2 : ((n - 1 : Nat) : K) * ((b - a) / ((n - 1 : Nat) : K)) = b - a := by
        field_simp
      linarith
  · simp [List.getD_eq_getElem?_getD, show 0 < n by omega, node_zero]
  · simp [List.getD_eq_getElem?_getD, show n - 1 < n by omega, node_last n a b hn]
  · intro w hw
    obtain ⟨i, _, rfl⟩ := List.mem_map.mp hw
    apply mul_pos hstep
    unfold trapCoef
    split <;> norm_num
  · have := (trap_exact_deg1 n hn a b)
    obtain ⟨x, w, h', _, _, hex⟩ := this
    rw [trapRule_eq n hn a b] at h'
    obtain ⟨rfl, rfl⟩ : (List.range n).map (node n a b) = x ∧
        ((List.range n).map fun i => (b - a) / ((n - 1 : Nat) : K) * trapCoef n i) = w := by
      simpa using h'
    have := hex 1 0
    simpa using this

/-- non-vacuity: the model at `ℚ`, 4 nodes on `[0, 3]` -/
example : trapRule 4 (0 : Rat) 3 = some ([0, 1, 2, 3], [1 / 2, 1, 1, 1 / 2]) := by decide +kernel

/-! ## Simpson rule (`_qnwsimp1`) -/

/-- **qnwsimp is exact for degree ≤ 3, for every requested n ≥ 2 (an even n is rounded up to
    n+1, so at least three nodes) and every interval.**
    `Σ wᵢ p(xᵢ) = ∫ₐᵇ p` for `p(t) = c₀ + c₁ t + c₂ t² + c₃ t³`.
    (Induction over the number of panels; the three-point identity is `ring`.) -/
theorem simp_exact_deg3 (n0 : Nat) (hn : 2 ≤ n0) (a b : K) :
    (simpRule n0 a b).1.length = simpN n0 ∧ (simpRule n0 a b).2.length = simpN n0 ∧
    (simpN n0 % 2 = 1 ∧ n0 ≤ simpN n0 ∧ simpN n0 ≤ n0 + 1) ∧
      ∀ c0 c1 c2 c3 : K,
        quadSum (simpRule n0 a b).2 (simpRule n0 a b).1 (fun t => c0 + c1 * t + c2 * t ^ 2 + c3 * t ^ 3)
          = c0 * (b - a) + c1 * ((b ^ 2 - a ^ 2) / 2) + c2 * ((b ^ 3 - a ^ 3) / 3)
            + c3 * ((b ^ 4 - a ^ 4) / 4) := by
  rw [simpRule_eq n0 hn a b, simpN_eq]
  refine ⟨by simp, by simp, by omega, ?_⟩
  intro c0 c1 c2 c3
  dsimp only
  rw [quadSum_map_range]
  rw [simp_sum_of_panel (n0 / 2) (by omega) a b (fun t => c0 + c1 * t + c2 * t ^ 2 + c3 * t ^ 3)
    (fun t => c0 * t + c1 * (t ^ 2 / 2) + c2 * (t ^ 3 / 3) + c3 * (t ^ 4 / 4)) (by intro x h; ring)]
  ring

/-- moment form of `simp_exact_deg3`: `Σ wᵢ xᵢᵏ = (b^{k+1} − a^{k+1})/(k+1)` for `k ≤ 3` -/
theorem simp_moments (n0 : Nat) (hn : 2 ≤ n0) (a b : K) (k : Nat) (hk : k ≤ 3) :
    quadSum (simpRule n0 a b).2 (simpRule n0 a b).1 (fun t => t ^ k)
      = (b ^ (k + 1) - a ^ (k + 1)) / ((k + 1 : Nat) : K) := by
  obtain ⟨_, _, _, hex⟩ := simp_exact_deg3 n0 hn a b
  interval_cases k
  · rw [show (fun t : K => t ^ 0) = fun t => 1 + 0 * t + 0 * t ^ 2 + 0 * t ^ 3 by funext t; ring, hex]
    push_cast; ring
  · rw [show (fun t : K => t ^ 1) = fun t => 0 + 1 * t + 0 * t ^ 2 + 0 * t ^ 3 by funext t; ring, hex]
    push_cast; ring
  · rw [show (fun t : K => t ^ 2) = fun t => 0 + 0 * t + 1 * t ^ 2 + 0 * t ^ 3 by funext t; ring, hex]
    push_cast; ring
  · rw [show (fun t : K => t ^ 3) = fun t => 0 + 0 * t + 0 * t ^ 2 + 1 * t ^ 3 by funext t; ring, hex]
    push_cast; ring

/-- **qnwsimp: support, positivity, total mass** for `a < b`, requested `n ≥ 2`. -/
theorem simp_support_positive (n0 : Nat) (hn : 2 ≤ n0) (a b : K) (hab : a < b) :
    (∀ x ∈ (simpRule n0 a b).1, a ≤ x ∧ x ≤ b) ∧ (simpRule n0 a b).1.getD 0 0 = a ∧
    (simpRule n0 a b).1.getD (simpN n0 - 1) 0 = b ∧
    (∀ w ∈ (simpRule n0 a b).2, 0 < w) ∧
    quadSum (simpRule n0 a b).2 (simpRule n0 a b).1 (fun _ => 1) = b - a := by
  have hmass := simp_moments n0 hn a b 0 (by omega)
  rw [simpRule_eq n0 hn a b, simpN_eq] at *
  dsimp only at *
  set n := 2 * (n0 / 2) + 1 with hn_def
  have hn2 : 2 ≤ n := by omega
  have hpos : (0 : K) < ((n - 1 : Nat) : K) := by
    have : 0 < n - 1 := by omega
    exact_mod_cast this
  have hstep : 0 < (b - a) / ((n - 1 : Nat) : K) := div_pos (sub_pos.mpr hab) hpos
  refine ⟨?_, ?_, ?_, ?_, ?_⟩
  · intro x hx
    obtain ⟨i, hi, rfl⟩ := List.mem_map.mp hx
    have hi' : i < n := by simpa using hi
    unfold node
    constructor
    · have : 0 ≤ (i : K) * ((b - a) / ((n - 1 : Nat) : K)) :=
        mul_nonneg (Nat.cast_nonneg i) hstep.le
      linarith
    · have hle : (i : K) ≤ ((n - 1 : Nat) : K) := by
        have : i ≤ n - 1 := by omega
        exact_mod_cast this
      have h1 : (i : K) * ((b - a) / ((n - 1 : Nat) : K)) ≤ ((n - 1 : Nat) : K) * ((b - a) / ((n - 1 : Nat) : K)) :=
        mul_le_mul_of_nonneg_right hle hstep.le
      have h2 : ((n - 1 : Nat) : K) * ((b - a) / ((n - 1 : Nat) : K)) = b - a := by
        field_simp
      linarith
  · simp [List.getD_eq_getElem?_getD, show 0 < n by omega, node_zero]
  · simp [List.getD_eq_getElem?_getD, show n - 1 < n by omega, node_last n a b hn2]
  · intro w hw
    obtain ⟨i, _, rfl⟩ := List.mem_map.mp hw
    apply mul_pos (div_pos hstep (by norm_num))
    unfold simpCoef
    split_ifs <;> norm_num
  · simpa using hmass

/-- non-vacuity: an even `n = 4` is rounded up to 5 nodes -/
example : simpRule 4 (0 : Rat) 4 = ([0, 1, 2, 3, 4], [1 / 3, 4 / 3, 2 / 3, 4 / 3, 1 / 3]) := by
  decide +kernel

/-! ## Moments imply exactness on all polynomials (linearity) -/

/-- **moments_imply_exactness.** If a rule `(nodes, weights)` reproduces the moments
    `Σ wᵢ xᵢᵏ = μ k` for all `k ≤ D`, then for every polynomial `p(t) = Σ_{k ≤ D} c k · tᵏ` of
    degree ≤ D it returns `Σ_{k ≤ D} c k · μ k` (the value of the linear functional with those
    moments).  This lifts the finitely many moment conditions checked by the spec run to all
    polynomials up to the degree of the rule. -/
theorem moments_imply_exactness (nodes weights : List K) (hlen : weights.length = nodes.length)
    (D : Nat) (μ : Nat → K)
    (hm : ∀ k, k ≤ D → quadSum weights nodes (fun t => t ^ k) = μ k) (c : Nat → K) :
    quadSum weights nodes (fun t => ∑ k ∈ range (D + 1), c k * t ^ k) = ∑ k ∈ range (D + 1), c k * μ k := by
  have hq : ∀ F : K → K, quadSum weights nodes F
      = ∑ i ∈ range weights.length, weights.getD i 0 * F (nodes.getD i 0) := by
    intro F
    unfold quadSum
    rw [dot_eq_sum _ _ (by simp [hlen])]
    apply Finset.sum_congr rfl
    intro i hi
    have : i < nodes.length := by rw [← hlen]; simpa using hi
    simp [List.getD_eq_getElem?_getD, this]
  rw [hq]
  simp only [Finset.mul_sum]
  rw [Finset.sum_comm]
  apply Finset.sum_congr rfl
  intro k hk
  have hk' : k ≤ D := by have := Finset.mem_range.mp hk; omega
  rw [← hm k hk', hq, Finset.mul_sum]
  apply Finset.sum_congr rfl
  intro i _
  ring

/-- `moments_imply_exactness` for Mathlib polynomials: a rule with the moments `μ k`, `k ≤ D`,
    evaluates every `p : K[X]` of degree ≤ D to `Σ_{k ≤ D} p.coeff k · μ k`. -/
theorem moments_imply_exactness_poly (nodes weights : List K) (hlen : weights.length = nodes.length)
    (D : Nat) (μ : Nat → K)
    (hm : ∀ k, k ≤ D → quadSum weights nodes (fun t => t ^ k) = μ k)
    (p : Polynomial K) (hp : p.natDegree ≤ D) :
    quadSum weights nodes (fun t => p.eval t) = ∑ k ∈ range (D + 1), p.coeff k * μ k := by
  rw [← moments_imply_exactness nodes weights hlen D μ hm (fun k => p.coeff k)]
  congr 1
  funext t
  exact Polynomial.eval_eq_sum_range' (by omega) t

/-- **qnwsimp integrates every polynomial of degree ≤ 3 exactly**, for every requested
    `n ≥ 2` and every interval: `Σ wᵢ p(xᵢ) = Σ_k p_k (b^{k+1} − a^{k+1})/(k+1) = ∫ₐᵇ p`. -/
theorem simp_exact_poly (n0 : Nat) (hn : 2 ≤ n0) (a b : K) (p : Polynomial K) (hp : p.natDegree ≤ 3) :
    quadSum (simpRule n0 a b).2 (simpRule n0 a b).1 (fun t => p.eval t)
      = ∑ k ∈ range 4, p.coeff k * ((b ^ (k + 1) - a ^ (k + 1)) / ((k + 1 : Nat) : K)) := by
  obtain ⟨h1, h2, _, _⟩ := simp_exact_deg3 n0 hn a b
  exact moments_imply_exactness_poly _ _ (by rw [h1, h2]) 3 _
    (fun k hk => simp_moments n0 hn a b k hk) p hp

/-- **qnwtrap integrates every polynomial of degree ≤ 1 exactly**, for every `n ≥ 2`. -/
theorem trap_exact_poly (n : Nat) (hn : 2 ≤ n) (a b : K) (nodes weights : List K)
    (h : trapRule n a b = some (nodes, weights)) (p : Polynomial K) (hp : p.natDegree ≤ 1) :
    quadSum weights nodes (fun t => p.eval t)
      = ∑ k ∈ range 2, p.coeff k * ((b ^ (k + 1) - a ^ (k + 1)) / ((k + 1 : Nat) : K)) := by
  obtain ⟨x, w, h', h1, h2, _⟩ := trap_exact_deg1 n hn a b
  rw [h'] at h
  obtain ⟨rfl, rfl⟩ : x = nodes ∧ w = weights := by simpa using h
  exact moments_imply_exactness_poly _ _ (by rw [h1, h2]) 1 _
    (fun k hk => trap_moments n hn a b x w h' k hk) p hp

/-- non-vacuity of `moments_imply_exactness`: Simpson's 3-point rule on `[0,2]` has the moments
    `2, 2, 8/3, 4` of Lebesgue measure up to degree 3 -/
example : ∀ k, k ≤ 3 → quadSum (simpRule 3 (0 : Rat) 2).2 (simpRule 3 (0 : Rat) 2).1 (fun t => t ^ k)
    = (2 ^ (k + 1) - 0 ^ (k + 1)) / ((k + 1 : Nat) : Rat) :=
  fun k hk => simp_moments 3 (by omega) 0 2 k hk

/-! ## Why a Gauss rule reaches degree 2n − 1 (reduction; the three premises are not proved) -/

/-- **Gauss exactness, reduced to three premises — partial.**  Let `Λ` be any linear functional
    on `K[X]` (the integral against the weight function), `P` a polynomial of degree `n` such that
    (1) every node is a root of `P`, (2) `Λ(P·q) = 0` for every `q` of degree `< n`
    (orthogonality), and (3) the rule reproduces `Λ` on polynomials of degree `< n`
    (interpolatory weights).  Then the rule reproduces `Λ` on **every** polynomial of degree
    `< 2n`.
    *Missing* for qnwlege / qnwnorm / qnwbeta / qnwgamma: (1) that the Newton iteration ends at the
    roots (floating point), (2) orthogonality of the recurrence-defined `legendrePoly`,
    `hermPoly`, `jacobiPoly`, `laguerrePoly` under the Lebesgue / normal / beta / gamma moments,
    (3) that the closed-form weights (`2/((1−z²)pp²)` …) are the interpolatory ones
    (Christoffel-Darboux).  These are covered only by the exact moment check of the spec run. -/
theorem gauss_exactness_reduction_partial (nodes weights : List K) (n : Nat) (P : Polynomial K)
    (hPdeg : P.degree = (n : WithBot Nat)) (Λ : Polynomial K →ₗ[K] K)
    (hroot : ∀ x ∈ nodes, P.eval x = 0)
    (horth : ∀ q : Polynomial K, q.degree < (n : WithBot Nat) → Λ (P * q) = 0)
    (hint : ∀ r : Polynomial K, r.degree < (n : WithBot Nat) →
      quadSum weights nodes (fun t => r.eval t) = Λ r)
    (p : Polynomial K) (hp : p.degree < ((n + n : Nat) : WithBot Nat)) :
    quadSum weights nodes (fun t => p.eval t) = Λ p :=
  gauss_reduction nodes weights n P hPdeg Λ hroot horth hint p hp

/-- non-vacuity: the midpoint rule on `[−1, 1]` (`n = 1`, `P = X`, `Λ` = the Lebesgue moments
    `2, 0, 2/3` on degrees 0, 1, 2) satisfies the three premises -/
example :
    let Λ : Polynomial ℚ →ₗ[ℚ] ℚ := (2 : ℚ) • Polynomial.lcoeff ℚ 0 + (2 / 3 : ℚ) • Polynomial.lcoeff ℚ 2
    (Polynomial.X : Polynomial ℚ).degree = ((1 : Nat) : WithBot Nat) ∧
    (∀ x ∈ [(0 : ℚ)], (Polynomial.X : Polynomial ℚ).eval x = 0) ∧
    (∀ q : Polynomial ℚ, q.degree < ((1 : Nat) : WithBot Nat) → Λ (Polynomial.X * q) = 0) ∧
    (∀ r : Polynomial ℚ, r.degree < ((1 : Nat) : WithBot Nat) →
      quadSum [(2 : ℚ)] [0] (fun t => r.eval t) = Λ r) := by
  intro Λ
  have hC : ∀ q : Polynomial ℚ, q.degree < ((1 : Nat) : WithBot Nat) → q = Polynomial.C (q.coeff 0) := by
    intro q hq
    apply Polynomial.eq_C_of_degree_le_zero
    have : q.degree < 1 := by simpa using hq
    exact Nat.WithBot.lt_one_iff_le_zero.mp this
  refine ⟨by simp, by simp, ?_, ?_⟩
  · intro q hq
    rw [hC q hq]
    simp [Λ]
  · intro r hr
    rw [hC r hr]
    simp [Λ, quadSum, dot]

/-! ## Tensor products: `gridmake(*nodes)` and `ckron(*weights[::-1])` use the same order -/

/-- **tensor_order.** Let `xs`, `ws` be the one-dimensional nodes and weights of `d ≥ 2`
    dimensions with `|x_k| = |w_k| = n_k`.  `tensorRule` (the `d ≥ 2` path of
    `_make_multidim_func`) succeeds with `N = Π n_k` rows and weights, and for **every**
    multi-index `is = (i_k)` with `i_k < n_k`, at the *same* position
    `idx = i₀ + n₀ (i₁ + n₁ (i₂ + …))` (`mixedRadix`, first index fastest)
    the node row is `(x_k[i_k])_k` and the weight is `Π_k w_k[i_k]`. -/
theorem tensor_order (xs ws : List (List K)) (is : List Nat) (hd : 2 ≤ xs.length)
    (hshape : ws.map List.length = xs.map List.length)
    (h : List.Forall₂ (fun i (x : List K) => i < x.length) is xs) :
    ∃ g w, tensorRule xs ws = some (g, w) ∧
      g.length = (xs.map List.length).prod ∧ w.length = (xs.map List.length).prod ∧
      mixedRadix is (xs.map List.length) < (xs.map List.length).prod ∧
      g[mixedRadix is (xs.map List.length)]? = some (List.zipWith (fun (x : List K) i => x.getD i 0) xs is) ∧
      w.getD (mixedRadix is (xs.map List.length)) 0
        = (List.zipWith (fun (w : List K) i => w.getD i 0) ws is).prod := by
  have hxne : xs ≠ [] := by intro h0; subst h0; simp at hd
  have hwne : ws ≠ [] := by
    intro h0; subst h0
    have h1 := congrArg List.length hshape
    simp only [List.map_nil, List.length_nil, List.length_map] at h1
    omega
  have hw : List.Forall₂ (fun i (w : List K) => i < w.length) is ws := by
    have h1 : List.Forall₂ (fun i n => i < n) is (xs.map List.length) :=
      List.forall₂_map_right_iff.mpr h
    rw [← hshape] at h1
    exact List.forall₂_map_right_iff.mp h1
  obtain ⟨g1, g2⟩ := gridRows_index xs is hxne h
  obtain ⟨w1, w2⟩ := ckronRev_index ws is hwne hw
  have hck : ∃ w, ckron ws.reverse = some w := by
    cases hr : ws.reverse with
    | nil => simp at hr; exact absurd hr hwne
    | cons a r => exact ⟨_, rfl⟩
  obtain ⟨w, hw'⟩ := hck
  have hwe : ckronRev ws = w := by simp [ckronRev, hw']
  refine ⟨gridRows xs, w, ?_, g2, ?_, ?_, g1, ?_⟩
  · unfold tensorRule gridmake
    rw [if_neg (by omega), hw']
  · rw [← hwe, w2, hshape]
  · exact mixedRadix_lt _ _ (List.forall₂_map_right_iff.mpr h)
  · rw [← hwe, ← hshape]; exact w1

/-- **The product rule integrates products of univariate integrands exactly when the factors
    do** (corollary of `tensor_order`).  For `d ≥ 2` one-dimensional rules `r = (nodes, weights, f)`
    with `|weights| = |nodes|`, the rule returned by `tensorRule` satisfies
    `Σ_idx W[idx] · Π_k f_k(X[idx][k]) = Π_k (Σ_i w_k[i] f_k(x_k[i]))`.
    With `f_k(t) = t^{m_k}` this says: every mixed moment of the tensor rule is the product of the
    one-dimensional moments, so the tensor rule is exact for every monomial `Π t_k^{m_k}` with
    `m_k` ≤ the degree of rule `k`. -/
theorem tensor_exact_products (rules : List (List K × List K × (K → K))) (hd : 2 ≤ rules.length)
    (hshape : ∀ r ∈ rules, r.2.1.length = r.1.length) :
    ∃ g w, tensorRule (rules.map fun r => r.1) (rules.map fun r => r.2.1) = some (g, w) ∧
      quadSumRows w g (fun row => (List.zipWith (fun r v => r.2.2 v) rules row).prod)
        = (rules.map fun r => quadSum r.2.1 r.1 r.2.2).prod := by
  have hne : rules ≠ [] := by intro h0; subst h0; simp at hd
  have hck : ∃ w, ckron (rules.map fun r => r.2.1).reverse = some w := by
    cases hr : (rules.map fun r => r.2.1).reverse with
    | nil => simp at hr; exact absurd hr hne
    | cons a r => exact ⟨_, rfl⟩
  obtain ⟨w, hw⟩ := hck
  have hwe : ckronRev (rules.map fun r => r.2.1) = w := by simp [ckronRev, hw]
  refine ⟨gridRows (rules.map fun r => r.1), w, ?_, ?_⟩
  · unfold tensorRule gridmake
    rw [if_neg (by simp; omega), hw]
  · rw [← hwe]
    exact tensor_product_sum rules hne hshape

/-- non-vacuity: trapezoid on `[0,2]` (3 nodes) ⊗ Simpson on `[0,2]` (3 nodes) integrates
    `t₀ · t₁³` over the square: `2 · 4 = 8` -/
example :
    let r0 : List Rat × List Rat × (Rat → Rat) := ((trapRule 3 (0 : Rat) 2).get!.1, (trapRule 3 (0 : Rat) 2).get!.2, fun t => t)
    let r1 : List Rat × List Rat × (Rat → Rat) := ((simpRule 3 (0 : Rat) 2).1, (simpRule 3 (0 : Rat) 2).2, fun t => t ^ 3)
    ([r0, r1].map fun r => quadSum r.2.1 r.1 r.2.2).prod = 8 := by
  decide +kernel

/-- every position `idx < Π n_k` of the tensor rule is the position of exactly the multi-index
    `digits idx ns`: `mixedRadix` is onto `[0, Π n_k)` with the explicit inverse `digits`. -/
theorem tensor_order_onto (ns : List Nat) (idx : Nat) (h : idx < ns.prod) :
    List.Forall₂ (fun i n => i < n) (digits idx ns) ns ∧ mixedRadix (digits idx ns) ns = idx :=
  digits_spec ns idx h

/-- non-vacuity / sanity: 2 × 3 nodes, position of the multi-index (1, 2) is 1 + 2·2 = 5 -/
example : tensorRule [[(10 : Rat), 11], [20, 21, 22]] [[1, 2], [3, 5, 7]]
    = some ([[10, 20], [11, 20], [10, 21], [11, 21], [10, 22], [11, 22]], [3, 6, 5, 10, 7, 14]) := by
  decide +kernel
example : mixedRadix [1, 2] [2, 3] = 5 := by decide

/-! ## qnwnorm: the affine image has the requested mean and covariance -/

/-- **qnwnorm_moments (d dimensions).** Let `(Z, W)` be a rule with total mass 1, mean 0 and
    identity second moments (what the tensor product of standard normal rules with `n_k ≥ 2`
    provides), `L` the matrix the code obtains from `la.cholesky` / `la.sqrtm` and `X` the rows
    `nodes.dot(L) + mu` computed by `affineMap`.  Then the rule `(X, W)` has mean `mu` and
    covariance `LᵀL`; in particular covariance `S` whenever `LᵀL = S` (the upper Cholesky factor:
    `UᵀU = S`; the symmetric square root: `R R = S`, `Rᵀ = R`). -/
theorem qnwnorm_moments (W : List K) (Z L : List (List K)) (mu : List K)
    (hlen : W.length = Z.length) (hrows : ∀ z ∈ Z, z.length = L.length)
    (h0 : quadSumRows W Z (fun _ => 1) = 1)
    (h1 : ∀ k, k < L.length → quadSumRows W Z (fun z => z.getD k 0) = 0)
    (h2 : ∀ k k', k < L.length → k' < L.length →
      quadSumRows W Z (fun z => z.getD k 0 * z.getD k' 0) = if k = k' then 1 else 0) :
    (∀ j, j < mu.length → quadSumRows W (affineMap L mu Z) (fun x => x.getD j 0) = mu.getD j 0) ∧
    (∀ j l, j < mu.length → l < mu.length →
      quadSumRows W (affineMap L mu Z) (fun x => (x.getD j 0 - mu.getD j 0) * (x.getD l 0 - mu.getD l 0))
        = ∑ k ∈ range L.length, (L.getD k []).getD j 0 * (L.getD k []).getD l 0) ∧
    (∀ S : Nat → Nat → K,
      (∀ j l, j < mu.length → l < mu.length →
        ∑ k ∈ range L.length, (L.getD k []).getD j 0 * (L.getD k []).getD l 0 = S j l) →
      ∀ j l, j < mu.length → l < mu.length →
        quadSumRows W (affineMap L mu Z) (fun x => (x.getD j 0 - mu.getD j 0) * (x.getD l 0 - mu.getD l 0))
          = S j l) := by
  have hlen' : W.length = (affineMap L mu Z).length := by simp [affineMap, hlen]
  have hrow : ∀ r ∈ range W.length, (Z.getD r []).length = L.length := by
    intro r hr
    have hr' : r < Z.length := by rw [← hlen]; simpa using hr
    apply hrows
    simp [List.getD_eq_getElem?_getD, hr']
  have hX : ∀ r ∈ range W.length, ∀ j, j < mu.length →
      ((affineMap L mu Z).getD r []).getD j 0
        = (∑ k ∈ range L.length, (Z.getD r []).getD k 0 * (L.getD k []).getD j 0) + mu.getD j 0 := by
    intro r hr j hj
    have hr' : r < Z.length := by rw [← hlen]; simpa using hr
    rw [affineMap_getD L mu Z r hr', affineRow_getD L mu _ j hj (hrow r hr)]
  rw [quadSumRows_eq_sum W Z hlen] at h0
  have h0' : ∑ r ∈ range W.length, W.getD r 0 = 1 := by simpa using h0
  have h1' : ∀ k ∈ range L.length, ∑ r ∈ range W.length, W.getD r 0 * (Z.getD r []).getD k 0 = 0 := by
    intro k hk
    rw [← quadSumRows_eq_sum W Z hlen (fun z => z.getD k 0)]
    exact h1 k (by simpa using hk)
  have h2' : ∀ k ∈ range L.length, ∀ k' ∈ range L.length,
      ∑ r ∈ range W.length, W.getD r 0 * ((Z.getD r []).getD k 0 * (Z.getD r []).getD k' 0)
        = if k = k' then 1 else 0 := by
    intro k hk k' hk'
    rw [← quadSumRows_eq_sum W Z hlen (fun z => z.getD k 0 * z.getD k' 0)]
    exact h2 k k' (by simpa using hk) (by simpa using hk')
  have hmean : ∀ j, j < mu.length →
      quadSumRows W (affineMap L mu Z) (fun x => x.getD j 0) = mu.getD j 0 := by
    intro j hj
    rw [quadSumRows_eq_sum W _ hlen']
    rw [Finset.sum_congr rfl (fun r hr => by rw [hX r hr j hj])]
    exact affine_mean_fin W.length L.length (fun r => W.getD r 0)
      (fun r k => (Z.getD r []).getD k 0) (fun k j => (L.getD k []).getD j 0) (mu.getD j 0) j h0' h1'
  have hcov : ∀ j l, j < mu.length → l < mu.length →
      quadSumRows W (affineMap L mu Z) (fun x => (x.getD j 0 - mu.getD j 0) * (x.getD l 0 - mu.getD l 0))
        = ∑ k ∈ range L.length, (L.getD k []).getD j 0 * (L.getD k []).getD l 0 := by
    intro j l hj hl
    rw [quadSumRows_eq_sum W _ hlen']
    rw [Finset.sum_congr rfl (fun r hr => by rw [hX r hr j hj, hX r hr l hl, add_sub_cancel_right,
      add_sub_cancel_right])]
    exact affine_cov_fin W.length L.length (fun r => W.getD r 0)
      (fun r k => (Z.getD r []).getD k 0) (fun k j => (L.getD k []).getD j 0) j l h2'
  exact ⟨hmean, hcov, fun S hS j l hj hl => by rw [hcov j l hj hl, hS j l hj hl]⟩

/-- **Mixed moments of the tensor rule** (`d ≥ 2`): with exponents `e j` for dimension `j`,
    `Σ_idx W[idx] · Π_j X[idx][j]^{e j} = Π_j (Σ_i w_j[i] x_j[i]^{e j})` — every mixed moment is the
    product of the one-dimensional moments, so the tensor rule is exact on `Π t_j^{e j}` whenever
    rule `j` is exact up to degree `e j`. -/
theorem tensor_mixed_moments' (rules1 : List (List K × List K)) (hd : 2 ≤ rules1.length)
    (hshape : ∀ r ∈ rules1, r.2.length = r.1.length) (e : Nat → Nat) :
    ∃ X W, tensorRule (rules1.map fun r => r.1) (rules1.map fun r => r.2) = some (X, W) ∧
      quadSumRows W X (fun row => ∏ j ∈ range rules1.length, (row.getD j 0) ^ (e j))
        = ∏ j ∈ range rules1.length,
            quadSum (rules1.getD j ([], [])).2 (rules1.getD j ([], [])).1 (fun t => t ^ (e j)) := by
  have hne : rules1 ≠ [] := by intro h0; subst h0; simp at hd
  have hck : ∃ w, ckron (rules1.map fun r => r.2).reverse = some w := by
    cases hr : (rules1.map fun r => r.2).reverse with
    | nil => simp at hr; exact absurd hr hne
    | cons a r => exact ⟨_, rfl⟩
  obtain ⟨w, hw⟩ := hck
  have hwe : ckronRev (rules1.map fun r => r.2) = w := by simp [ckronRev, hw]
  refine ⟨gridRows (rules1.map fun r => r.1), w, ?_, ?_⟩
  · unfold tensorRule gridmake
    rw [if_neg (by simp; omega), hw]
  · rw [← hwe]
    exact tensor_mixed_moments rules1 hne hshape e

/-- **qnwnorm, d ≥ 2, end to end in the model.**  Take one-dimensional rules with mass 1, mean 0
    and second moment 1 (what `_qnwnorm1(n_j)`, `n_j ≥ 2`, delivers up to rounding — checked by the
    spec run), form the tensor rule (`gridmake`, `ckron` of the reversed weights) and map the nodes
    by `nodes.dot(L) + mu`.  The resulting rule has mean `mu` and covariance `LᵀL` — hence the
    requested covariance when `L` is the upper Cholesky factor or the symmetric square root. -/
theorem qnwnorm_rule_moments (rules1 : List (List K × List K)) (hd : 2 ≤ rules1.length)
    (hshape : ∀ r ∈ rules1, r.2.length = r.1.length)
    (hm : ∀ r ∈ rules1, quadSum r.2 r.1 (fun t => t ^ 0) = 1 ∧ quadSum r.2 r.1 (fun t => t ^ 1) = 0 ∧
      quadSum r.2 r.1 (fun t => t ^ 2) = 1)
    (L : List (List K)) (mu : List K) (hL : L.length = rules1.length) :
    ∃ Z W, tensorRule (rules1.map fun r => r.1) (rules1.map fun r => r.2) = some (Z, W) ∧
      (∀ j, j < mu.length → quadSumRows W (affineMap L mu Z) (fun x => x.getD j 0) = mu.getD j 0) ∧
      (∀ j l, j < mu.length → l < mu.length →
        quadSumRows W (affineMap L mu Z) (fun x => (x.getD j 0 - mu.getD j 0) * (x.getD l 0 - mu.getD l 0))
          = ∑ k ∈ range L.length, (L.getD k []).getD j 0 * (L.getD k []).getD l 0) := by
  have hne : rules1 ≠ [] := by intro h0; subst h0; simp at hd
  have hxne : (rules1.map fun r => r.1) ≠ [] := by simp [hne]
  have hwne : (rules1.map fun r => r.2) ≠ [] := by simp [hne]
  have hck : ∃ w, ckron (rules1.map fun r => r.2).reverse = some w := by
    cases hr : (rules1.map fun r => r.2).reverse with
    | nil => simp at hr; exact absurd hr hne
    | cons a r => exact ⟨_, rfl⟩
  obtain ⟨w, hw⟩ := hck
  have hwe : ckronRev (rules1.map fun r => r.2) = w := by simp [ckronRev, hw]
  obtain ⟨s0, s1, s2⟩ := tensor_standard rules1 hne hshape hm
  rw [hwe] at s0 s1 s2
  have hsh : (rules1.map fun r => r.2).map List.length = (rules1.map fun r => r.1).map List.length := by
    rw [List.map_map, List.map_map]
    apply List.map_congr_left
    intro r hr
    exact hshape r hr
  have hlen : w.length = (gridRows (rules1.map fun r => r.1)).length := by
    rw [← hwe, ckronRev_length _ hwne, gridRows_length _ hxne, hsh]
  have hrows : ∀ z ∈ gridRows (rules1.map fun r => r.1), z.length = L.length := by
    intro z hz
    rw [gridRows_row_length _ hxne z hz, hL]; simp
  obtain ⟨c1, c2, _⟩ := qnwnorm_moments w (gridRows (rules1.map fun r => r.1)) L mu hlen hrows s0
    (fun k hk => s1 k (by rw [← hL]; exact hk))
    (fun k k' hk hk' => s2 k k' (by rw [← hL]; exact hk) (by rw [← hL]; exact hk'))
  refine ⟨gridRows (rules1.map fun r => r.1), w, ?_, c1, c2⟩
  unfold tensorRule gridmake
  rw [if_neg (by simp; omega), hw]

/-- non-vacuity of the hypotheses of `qnwnorm_rule_moments` / `tensor_mixed_moments'`: the
    two-point rule `±1` with weights `1/2` (this *is* the exact Gauss-Hermite rule for `n = 2`) -/
example : let r : List Rat × List Rat := ([-1, 1], [1 / 2, 1 / 2])
    r.2.length = r.1.length ∧ quadSum r.2 r.1 (fun t => t ^ 0) = 1 ∧ quadSum r.2 r.1 (fun t => t ^ 1) = 0 ∧
      quadSum r.2 r.1 (fun t => t ^ 2) = 1 := by
  refine ⟨by decide, ?_, ?_, ?_⟩ <;> decide +kernel

/-- **Default handling of qnwnorm** (`if mu is None` / `if sig2 is None`): an omitted `mu` is the
    zero vector, an omitted `sig2` is the identity, a size-1 `mu` is repeated `d` times — and the
    nodes of the model are shifted by the *resolved* `mu` in every case, in particular when `sig2`
    is omitted: with the identity factor the nodes are `Z + mu`. -/
theorem qnwnorm_defaults (d : Nat) (hd : 2 ≤ d) (m : K) (mu : List K) (hmu : mu.length = d) :
    resolveMu d (none : Option (List K)) = List.replicate d 0 ∧
    resolveMu d (some [m]) = List.replicate d m ∧
    resolveMu d (some mu) = mu ∧
    (∀ i j, i < d → j < d →
      ((resolveSig2 d (none : Option (List K))).getD i []).getD j 0 = if i = j then 1 else 0) := by
  refine ⟨rfl, ?_, ?_, ?_⟩
  · simp [resolveMu, broadcastTo]
  · have : ¬ (mu.length = 1) := by omega
    simp [resolveMu, broadcastTo, this]
  · intro i j hi hj
    simp [resolveSig2, List.getD_eq_getElem?_getD, hi, hj]

/-- with an omitted `sig2` (identity factor) and a given `mu`, row `r` of the model's nodes is
    `Z[r] + mu` componentwise: the requested mean is not dropped -/
theorem qnwnorm_default_sig2_shift (mu z : List K) (hz : z.length = mu.length) (j : Nat) (hj : j < mu.length) :
    (affineRow (resolveSig2 mu.length (none : Option (List K))) mu z).getD j 0 = z.getD j 0 + mu.getD j 0 := by
  have hL : (resolveSig2 mu.length (none : Option (List K))).length = mu.length := by simp [resolveSig2]
  rw [affineRow_getD _ mu z j hj (by rw [hL, hz]), hL]
  congr 1
  have : ∀ k ∈ range mu.length,
      z.getD k 0 * ((resolveSig2 mu.length (none : Option (List K))).getD k []).getD j 0
        = if k = j then z.getD j 0 else 0 := by
    intro k hk
    have hk' : k < mu.length := by simpa using hk
    simp only [resolveSig2, List.getD_eq_getElem?_getD, List.getElem?_map, List.getElem?_range hk',
      List.getElem?_range hj, Option.map_some, Option.getD_some]
    by_cases h : k = j
    · subst h; simp
    · simp [h]
  rw [Finset.sum_congr rfl this, Finset.sum_ite_eq' (range mu.length) j]
  simp [hj]

example : qnwnormNodes 2 (some [(3 : Rat) / 2]) (resolveSig2 2 none) [[-1, -1], [1, -1], [-1, 1], [1, 1]]
    = [[1 / 2, 1 / 2], [5 / 2, 1 / 2], [1 / 2, 5 / 2], [5 / 2, 5 / 2]] := by decide +kernel

/-- **qnwnorm_moments (d = 1)**: `nodes * s + mu` has mean `mu` and variance `s²`. -/
theorem qnwnorm_moments_1d (w z : List K) (s mu : K) (hlen : w.length = z.length)
    (h0 : quadSum w z (fun _ => 1) = 1) (h1 : quadSum w z (fun t => t) = 0)
    (h2 : quadSum w z (fun t => t ^ 2) = 1) :
    quadSum w (affine1 s mu z) (fun t => t) = mu ∧
    quadSum w (affine1 s mu z) (fun t => (t - mu) ^ 2) = s ^ 2 := by
  have hq : ∀ (x : List K) (F : K → K), w.length = x.length → quadSum w x F
      = ∑ i ∈ range w.length, w.getD i 0 * F (x.getD i 0) := by
    intro x F hx
    unfold quadSum
    rw [dot_eq_sum _ _ (by simp [hx])]
    apply Finset.sum_congr rfl
    intro i hi
    have : i < x.length := by rw [← hx]; simpa using hi
    simp [List.getD_eq_getElem?_getD, this]
  have hl : w.length = (affine1 s mu z).length := by simp [affine1, hlen]
  have hx : ∀ i ∈ range w.length, (affine1 s mu z).getD i 0 = z.getD i 0 * s + mu := by
    intro i hi
    have : i < z.length := by rw [← hlen]; simpa using hi
    simp [affine1, List.getD_eq_getElem?_getD, this]
  rw [hq z _ hlen] at h0 h1 h2
  rw [hq _ _ hl, hq _ _ hl]
  constructor
  · rw [Finset.sum_congr rfl (fun i hi => by rw [hx i hi])]
    have : ∀ i ∈ range w.length, w.getD i 0 * (z.getD i 0 * s + mu)
        = s * (w.getD i 0 * z.getD i 0) + mu * (w.getD i 0 * 1) := by intro i _; ring
    rw [Finset.sum_congr rfl this, Finset.sum_add_distrib, ← Finset.mul_sum, ← Finset.mul_sum, h0, h1]
    ring
  · rw [Finset.sum_congr rfl (fun i hi => by rw [hx i hi])]
    have : ∀ i ∈ range w.length, w.getD i 0 * (z.getD i 0 * s + mu - mu) ^ 2
        = s ^ 2 * (w.getD i 0 * z.getD i 0 ^ 2) := by intro i _; ring
    rw [Finset.sum_congr rfl this, ← Finset.mul_sum, h2]
    ring

/-- non-vacuity: the 2-point rule `±1`, weights `1/2` has mass 1, mean 0, variance 1; mapped with
    `s = 3`, `mu = 5` the nodes are `2, 8` -/
example : quadSum [(1 / 2 : Rat), 1 / 2] [-1, 1] (fun _ => 1) = 1 ∧
    quadSum [(1 / 2 : Rat), 1 / 2] [-1, 1] (fun t => t) = 0 ∧
    quadSum [(1 / 2 : Rat), 1 / 2] [-1, 1] (fun t => t ^ 2) = 1 ∧
    affine1 (3 : Rat) 5 [-1, 1] = [2, 8] := by
  refine ⟨?_, ?_, ?_, ?_⟩ <;> decide +kernel

/-- non-vacuity (d = 2): the tensor rule of two `±1` rules satisfies the hypotheses of
    `qnwnorm_moments`; with the upper factor `L = [[2, 1], [0, 3]]`, `LᵀL = [[4, 2], [2, 10]]` -/
example :
    let W : List Rat := [1 / 4, 1 / 4, 1 / 4, 1 / 4]
    let Z : List (List Rat) := [[-1, -1], [1, -1], [-1, 1], [1, 1]]
    quadSumRows W Z (fun _ => 1) = 1 ∧
    (∀ k, k < 2 → quadSumRows W Z (fun z => z.getD k 0) = 0) ∧
    (∀ k k', k < 2 → k' < 2 →
      quadSumRows W Z (fun z => z.getD k 0 * z.getD k' 0) = if k = k' then 1 else 0) ∧
    affineMap [[2, 1], [0, 3]] [10, 20] Z = [[8, 16], [12, 18], [8, 22], [12, 24]] := by
  refine ⟨by decide +kernel, ?_, ?_, by decide +kernel⟩
  · intro k hk; interval_cases k <;> decide +kernel
  · intro k k' hk hk'; interval_cases k <;> interval_cases k' <;> decide +kernel

/-! ## error paths of the model -/

/-- `qnwtrap` raises exactly for `n < 1`; `gridmake` fails exactly for fewer than two arrays
    (`IndexError`), `ckron` exactly for no array (`TypeError`). -/
theorem error_paths (n : Nat) (a b : K) (arrs : List (List K)) :
    (trapRule n a b = none ↔ n < 1) ∧ (gridmake arrs = none ↔ arrs.length < 2) ∧
    (ckron arrs = none ↔ arrs = []) := by
  refine ⟨?_, ?_, ?_⟩
  · unfold trapRule; split <;> simp_all
  · unfold gridmake; split <;> simp_all
  · cases arrs <;> simp [ckron]

/-! ## qnwunif, qnwequi, quadrect -/

/-- **quadrect equals weights·f(nodes)** (definition of the model, stated for the audit) -/
theorem quadrect_eq (weights nodes : List K) (f : K → K) :
    quadSum weights nodes f = dot weights (nodes.map f) := rfl

/-- **qnwunif**: dividing the Gauss-Legendre weights by the volume of the box divides every
    quadrature sum by that volume (`dn` = number of entries of `n`; `a`, `b` scalars or vectors) … -/
theorem unif_scales (w a b y : List K) (dn : Nat) :
    dot (unifWeights w a b dn) y
      = dot w y / prodL (boxSides (max dn (max a.length b.length)) a b) := by
  unfold unifWeights
  exact dot_map_div w y _

/-- … the volume taken for **scalar bounds and a vector `n`** (`d = len n ≥ 1`) is `(b − a)^d`,
    not `b − a` (the case repaired in /repo by `fix: qnwunif weights must sum to one …`) … -/
theorem unif_volume_scalar_bounds (d : Nat) (hd : 1 ≤ d) (a b : K) :
    prodL (boxSides (max d (max [a].length [b].length)) [a] [b]) = (b - a) ^ d := by
  have hmax : max d (max [a].length [b].length) = d := by simp; omega
  rw [hmax]
  have hb : boxSides d [a] [b] = List.replicate d (b - a) := by
    simp [boxSides, broadcastTo]
  rw [hb]
  unfold prodL
  rw [← List.prod_eq_foldl, List.prod_replicate]

/-- … and for vector bounds it is `Π (b_k − a_k)` -/
theorem unif_volume_vector_bounds (a b : List K) (hlen : a.length = b.length) (h2 : 2 ≤ a.length) :
    boxSides (max a.length (max a.length b.length)) a b = List.zipWith (fun y x => y - x) b a := by
  have h1 : ¬ (a.length = 1) := by omega
  have h1' : ¬ (b.length = 1) := by omega
  simp only [boxSides, broadcastTo, h1, h1', if_false, List.length_zipWith]
  rw [if_neg (by omega)]

/-- … so in one dimension the Lebesgue moments `(b^{k+1} − a^{k+1})/(k+1)` of qnwlege become the
    moments of the uniform law on `[a, b]`, total mass 1 included (`k = 0`). -/
theorem unif_moments (w x : List K) (a b : K) (k : Nat)
    (h : quadSum w x (fun t => t ^ k) = (b ^ (k + 1) - a ^ (k + 1)) / ((k + 1 : Nat) : K)) :
    quadSum (unifWeights w [a] [b] 1) x (fun t => t ^ k)
      = (b ^ (k + 1) - a ^ (k + 1)) / ((k + 1 : Nat) : K) / (b - a) := by
  unfold quadSum at *
  rw [unif_scales, h]
  simp [prodL, boxSides, broadcastTo]

/-- non-vacuity of `unif_moments`: the midpoint rule on `[0, 2]` (one node) has the Lebesgue
    moments of degree 0 and 1; its scaled weights are `[1]` -/
example : quadSum [(2 : Rat)] [1] (fun t => t ^ 1) = ((2 : Rat) ^ (1 + 1) - 0 ^ (1 + 1)) / ((1 + 1 : Nat) : Rat) ∧
    unifWeights [(2 : Rat)] [0] [2] 1 = [1] := by
  constructor <;> decide +kernel

/-- the repaired case at `ℚ`: two dimensions, scalar bounds `0, 2`: the four tensor weights of the
    2 × 2 Gauss-Legendre rule (each 1) are divided by `(2−0)² = 4` and sum to one -/
example : unifWeights [(1 : Rat), 1, 1, 1] [0] [2] 2 = [1 / 4, 1 / 4, 1 / 4, 1 / 4] := by decide +kernel

/-- **qnwequi**: all `n` weights equal `volume / n`, and they sum to the volume. -/
theorem equi_weights (n : Nat) (hn : 0 < n) (a b : List K) :
    (∀ w ∈ equiWeights n a b, w = prodL (List.zipWith (fun y x => y - x) b a) / (n : K)) ∧
    (equiWeights n a b).length = n ∧
    (equiWeights n a b).sum = prodL (List.zipWith (fun y x => y - x) b a) := by
  unfold equiWeights
  refine ⟨?_, by simp, ?_⟩
  · intro w hw
    rw [List.eq_of_mem_replicate hw, mul_one]
  · rw [List.sum_replicate, mul_one, nsmul_eq_mul]
    have : (n : K) ≠ 0 := by
      have : n ≠ 0 := by omega
      exact_mod_cast this
    field_simp

example : equiWeights 4 [(0 : Rat), 1] [2, 4] = [3 / 2, 3 / 2, 3 / 2, 3 / 2] := by decide +kernel

/-- **qnwequi: every node lies inside the box**, for every number of points, every dimension and
    every sequence kind: the routine maps rows `t` of fractional parts (`0 ≤ t_k < 1`; for the N, W, H
    sequences `x − fix(x)` of a non-negative `x`, for R the uniform draws) by `a + t·(b − a)`; if
    `a_k ≤ b_k` the result has one entry per dimension and `a_k ≤ node_k ≤ b_k`, with `node_k < b_k`
    when `a_k < b_k`. -/
theorem equi_nodes_in_box (a b : List K) (T : List (List K))
    (hab : ∀ k, k < a.length → a.getD k 0 ≤ b.getD k 0)
    (hT : ∀ t ∈ T, ∀ k, k < a.length → 0 ≤ t.getD k 0 ∧ t.getD k 0 < 1) :
    (equiNodes a b T).length = T.length ∧
    ∀ row ∈ equiNodes a b T, row.length = a.length ∧
      ∀ k, k < a.length → a.getD k 0 ≤ row.getD k 0 ∧ row.getD k 0 ≤ b.getD k 0 ∧
        (a.getD k 0 < b.getD k 0 → row.getD k 0 < b.getD k 0) := by
  refine ⟨by simp [equiNodes], ?_⟩
  intro row hrow
  unfold equiNodes at hrow
  obtain ⟨t, ht, rfl⟩ := List.mem_map.mp hrow
  refine ⟨by simp, ?_⟩
  intro k hk
  obtain ⟨t0, t1⟩ := hT t ht k hk
  have hd := hab k hk
  simp only [List.getD_eq_getElem?_getD, List.getElem?_map, List.getElem?_range hk, Option.map_some,
    Option.getD_some] at *
  refine ⟨?_, ?_, ?_⟩
  · nlinarith
  · nlinarith
  · intro hlt; nlinarith

/-- non-vacuity: two Weyl-type rows of fractional parts in the box `[0,2] × [1,4]` -/
example : equiNodes [(0 : Rat), 1] [2, 4] [[1 / 2, 1 / 3], [0, 3 / 4]] = [[1, 2], [0, 13 / 4]] := by
  decide +kernel

/-! ## The Legendre recurrence of `_qnwlege1` -/

/-- **The inner loop of `_qnwlege1` computes consecutive Legendre values, for every n.**
    `legendreP` is defined by Bonnet's recurrence; after the `for j in range(1, n+1)` loop the
    state is `(p1, p2) = (P_n(z), P_{n−1}(z))` (and `(1, 0)` for `n = 0`). -/
theorem lege_recurrence_is_legendre (z : K) :
    legeP 0 z = (1, 0) ∧ ∀ n, legeP (n + 1) z = (legendreP z (n + 1), legendreP z n) :=
  ⟨legeP_zero z, legeP_succ z⟩

/-- the Newton update of `_qnwlege1` written with Legendre values:
    `pp = n (z P_n − P_{n−1})/(z² − 1)`, `z ← z − P_n/pp` -/
theorem lege_step_formula (z : K) (n : Nat) :
    legeStep (n + 1) z =
      (z - legendreP z (n + 1) /
          (((n + 1 : Nat) : K) * (z * legendreP z (n + 1) - legendreP z n) / (z * z - 1)),
        ((n + 1 : Nat) : K) * (z * legendreP z (n + 1) - legendreP z n) / (z * z - 1)) := by
  unfold legeStep
  rw [legeP_succ]

/-- **legendre_derivative_formula** (in `K[X]`, `legendrePoly` = Bonnet's recurrence, whose values
    are the `legendreP` the loop computes): `(X² − 1) Pₙ' = n (X Pₙ − Pₙ₋₁)`, every `n ≥ 1`. -/
theorem legendre_derivative_formula (n : Nat) :
    (∀ z : K, (legendrePoly (n + 1)).eval z = legendreP z (n + 1)) ∧
    (Polynomial.X ^ 2 - 1) * Polynomial.derivative (legendrePoly (n + 1) : Polynomial K)
      = ((n + 1 : Nat) : Polynomial K) * (Polynomial.X * legendrePoly (n + 1) - legendrePoly n) :=
  ⟨fun z => legendrePoly_eval z (n + 1), legendrePoly_derivative_formula n⟩

/-- **The iteration of `_qnwlege1` is Newton's method on `Pₙ`.**  Away from `z² = 1` the quantity
    `pp` the code forms is exactly `Pₙ'(z)`, and the update is `z − Pₙ(z)/Pₙ'(z)`, for every `n ≥ 1`. -/
theorem lege_step_is_newton (n : Nat) (z : K) (hz : z * z - 1 ≠ 0) :
    (legeStep (n + 1) z).2 = (Polynomial.derivative (legendrePoly (n + 1) : Polynomial K)).eval z ∧
    (legeStep (n + 1) z).1
      = z - (legendrePoly (n + 1) : Polynomial K).eval z
            / (Polynomial.derivative (legendrePoly (n + 1) : Polynomial K)).eval z := by
  have h := congrArg (Polynomial.eval z) (legendrePoly_derivative_formula (K := K) n)
  simp only [Polynomial.eval_mul, Polynomial.eval_sub, Polynomial.eval_pow, Polynomial.eval_X,
    Polynomial.eval_one, Polynomial.eval_natCast, legendrePoly_eval] at h
  have hd : (Polynomial.derivative (legendrePoly (n + 1) : Polynomial K)).eval z
      = ((n + 1 : Nat) : K) * (z * legendreP z (n + 1) - legendreP z n) / (z * z - 1) := by
    rw [eq_div_iff hz, ← h]; ring
  rw [lege_step_formula, legendrePoly_eval, hd]
  exact ⟨rfl, rfl⟩

/-- **The recurrence-defined Legendre polynomials are orthogonal on `[−1, 1]`.**  `Λ` is any
    linear functional on `K[X]` obeying the fundamental theorem of calculus on `[−1, 1]`
    (`Λ(f') = f(1) − f(−1)` for every polynomial, i.e. `Λ = ∫_{−1}^{1}`).  Then `Pₙ` satisfies
    Legendre's differential equation `((1−X²)Pₙ')' = −n(n+1)Pₙ`, has degree exactly `n`, is
    orthogonal to every `Pₘ`, `m ≠ n`, and to **every** polynomial of degree `< n`. -/
theorem legendre_orthogonality (Λ : Polynomial K →ₗ[K] K)
    (hFTC : ∀ f : Polynomial K, Λ (Polynomial.derivative f) = f.eval 1 - f.eval (-1)) (n : Nat) :
    (legendrePoly n : Polynomial K).degree = (n : WithBot Nat) ∧
    Polynomial.derivative ((1 - Polynomial.X ^ 2) * Polynomial.derivative (legendrePoly n : Polynomial K))
      = -(((n : Polynomial K)) * ((n : Polynomial K) + 1)) * legendrePoly n ∧
    (∀ m, n ≠ m → Λ (legendrePoly n * legendrePoly m) = 0) ∧
    (∀ q : Polynomial K, q.degree < (n : WithBot Nat) → Λ (legendrePoly n * q) = 0) :=
  ⟨legendrePoly_degree n, legendrePoly_ode n, fun m h => legendrePoly_orthogonal Λ hFTC n m h,
    fun q hq => legendrePoly_orth_degree Λ hFTC n q hq⟩

/-- **Gauss-Legendre on `[−1, 1]`: degree `2n − 1` from `n` conditions — partial.**  With the
    orthogonality above, `gauss_exactness_reduction_partial` needs only two premises: if every
    node is a root of the `Pₙ` the code's loop evaluates and the rule integrates polynomials of
    degree `< n` exactly, then it integrates **every** polynomial of degree `< 2n` exactly.
    *Missing*: that the Newton iteration ends at the `n` roots (floating point) and that the
    weights `2/((1−z²)Pₙ'(z)²)` are the interpolatory ones (Christoffel-Darboux); both are covered
    by the exact moment check of the spec run only. -/
theorem lege_gauss_exactness_partial (Λ : Polynomial K →ₗ[K] K)
    (hFTC : ∀ f : Polynomial K, Λ (Polynomial.derivative f) = f.eval 1 - f.eval (-1))
    (nodes weights : List K) (n : Nat)
    (hroot : ∀ x ∈ nodes, (legendrePoly n : Polynomial K).eval x = 0)
    (hint : ∀ r : Polynomial K, r.degree < (n : WithBot Nat) →
      quadSum weights nodes (fun t => r.eval t) = Λ r)
    (p : Polynomial K) (hp : p.degree < ((n + n : Nat) : WithBot Nat)) :
    quadSum weights nodes (fun t => p.eval t) = Λ p :=
  gauss_reduction nodes weights n (legendrePoly n) (legendrePoly_degree n) Λ hroot
    (fun q hq => legendrePoly_orth_degree Λ hFTC n q hq) hint p hp

/-- non-vacuity of the hypothesis `hFTC`: the Lebesgue functional on `[−1, 1]`, i.e. the linear map
    with the moments `Λ(c·Xᵏ) = c·(1^{k+1} − (−1)^{k+1})/(k+1)` that the spec run checks qnwlege
    against (`a = −1`, `b = 1`), obeys the fundamental theorem of calculus. -/
theorem lebesgue_functional_ftc :
    (∀ (k : Nat) (c : K), lebesgue11 (Polynomial.monomial k c)
        = c * ((1 ^ (k + 1) - (-1 : K) ^ (k + 1)) / ((k + 1 : Nat) : K))) ∧
    (∀ f : Polynomial K, lebesgue11 (Polynomial.derivative f) = f.eval 1 - f.eval (-1)) :=
  ⟨lebesgue11_monomial, lebesgue11_ftc⟩

/-- … so `legendre_orthogonality` applies to it: e.g. `∫_{−1}^{1} P₃ P₁ = 0` -/
example : lebesgue11 ((legendrePoly 3 : Polynomial ℚ) * legendrePoly 1) = 0 :=
  (legendre_orthogonality lebesgue11 lebesgue11_ftc 3).2.2.1 1 (by decide)

/-- facts about the recurrence used by the routine, for every `n`: `P_n(1) = 1`, and the parity
    `P_n(−z) = (−1)ⁿ P_n(z)` (roots symmetric about 0 — only half of them are iterated on). -/
theorem legendre_one_and_parity (z : K) (n : Nat) :
    legendreP (1 : K) n = 1 ∧ legendreP (-z) n = (-1) ^ n * legendreP z n :=
  ⟨legendreP_one n, legendreP_neg z n⟩

/-- a root of `P_n` mirrored is a root of `P_n` -/
theorem legendre_root_symm (z : K) (n : Nat) (h : legendreP z n = 0) : legendreP (-z) n = 0 := by
  rw [legendreP_neg, h, mul_zero]

example : legeP 3 (1 / 2 : Rat) = (-7 / 16, -1 / 8) := by decide +kernel

/-- **Mirror indexing of `_qnwlege1`** (`nodes[i]`, `nodes[-i-1]`, `weights[-i-1] = weights[i]`),
    for every `n`, every number of Newton iterations and every starting vector of length
    `m = ⌊(n+1)/2⌋`: whenever the routine returns, it returns `n` nodes and `n` weights, the nodes
    are placed symmetrically about the midpoint (`x_k + x_{n−1−k} = a + b`) and mirrored positions
    carry the same weight — for every position `k` other than the middle one of an odd `n`
    (there the iterate itself is stored; it equals the midpoint only if Newton has converged to
    the root 0, which is floating-point behaviour and not claimed). -/
theorem lege_rule_symmetric (n : Nat) (a b tol : K) (z0 : List K) (hm : z0.length = (n + 1) / 2)
    (nodes weights : List K) (h : legeRule n a b tol z0 = some (nodes, weights))
    (k : Nat) (hk : k < n) (hmid : k ≠ n - 1 - k) :
    nodes.length = n ∧ weights.length = n ∧
    nodes.getD k 0 + nodes.getD (n - 1 - k) 0 = a + b ∧
    weights.getD k 0 = weights.getD (n - 1 - k) 0 :=
  legeRule_symm n a b tol z0 hm nodes weights h k hk hmid

/-- **Gauss-Legendre: support and positivity — partial.**  For `a < b`: if the final Newton
    iterates `z` of the model lie in `(−1, 1)` and the derivative values `pp` are non-zero, then
    every node lies strictly inside `(a, b)` and every weight `2·xl/((1−z²)·pp²)` is positive.
    *Missing* (floating-point behaviour, covered only by the spec run on the real code): that
    Newton's iteration from the tabulated starting values does end inside `(−1, 1)` at the `n`
    distinct roots — and with it the exactness of degree `2n−1` (Christoffel-Darboux). -/
theorem lege_support_positive_partial (n : Nat) (a b tol : K) (hab : a < b) (z0 : List K)
    (hm : z0.length = (n + 1) / 2) (nodes weights : List K)
    (h : legeRule n a b tol z0 = some (nodes, weights))
    (hst : ∀ s ∈ (legeNewton n tol 100 0 z0).1, -1 < s.1 ∧ s.1 < 1 ∧ s.2 ≠ 0) :
    (∀ x ∈ nodes, a < x ∧ x < b) ∧ (∀ w ∈ weights, 0 < w) :=
  legeRule_support n a b tol hab z0 hm nodes weights h hst

/-- non-vacuity of the hypothesis `hst` at `ℚ` (coarse tolerance): the final iterates are
    `(13/15, …), (0, …)` -/
example : ∀ s ∈ (legeNewton 3 (1 / 4 : Rat) 100 0 [4 / 5, 0]).1, -1 < s.1 ∧ s.1 < 1 ∧ s.2 ≠ 0 := by
  decide +kernel

/-- non-vacuity: the model at `ℚ` with a coarse tolerance (two and three nodes on `[0,1]`) -/
example : legeRule 3 (0 : Rat) 1 (1 / 4) [4 / 5, 0]
    = some ([37 / 330, 1 / 2, 293 / 330], [2500 / 10841, 4 / 9, 2500 / 10841]) := by decide +kernel

/-! ## The Laguerre recurrence of `_qnwgamma1` -/

/-- **The inner loop of `_qnwgamma1` computes consecutive generalised Laguerre values, for every
    n**: after `for j in range(1, n+1)` the state is `(p1, p2) = (Lₙ(z), Lₙ₋₁(z))` with
    `laguerreP a` defined by `(n+2) L_{n+2} = (2n+3+a−z) L_{n+1} − (n+1+a) L_n` (`a` = shape − 1). -/
theorem gamma_recurrence_is_laguerre (a z : K) (n : Nat) :
    lagLoop a z (n + 1) 1 1 0 = (laguerreP a z (n + 1), laguerreP a z n) :=
  lagLoop_succ a z n

/-- `X Lₙ' = n Lₙ − (n + a) Lₙ₋₁` in `K[X]` for every `n ≥ 1`, where `laguerrePoly a n` has the values
    `laguerreP a z n`. -/
theorem laguerre_derivative_formula (a : K) (n : Nat) :
    (∀ z : K, (laguerrePoly a (n + 1)).eval z = laguerreP a z (n + 1)) ∧
    Polynomial.X * Polynomial.derivative (laguerrePoly a (n + 1))
      = ((n + 1 : Nat) : Polynomial K) * laguerrePoly a (n + 1)
        - (((n + 1 : Nat) : Polynomial K) + Polynomial.C a) * laguerrePoly a n :=
  ⟨fun z => laguerrePoly_eval a z (n + 1), (laguerrePoly_deriv_pair a n).2⟩

/-- **The iteration of `_qnwgamma1` is Newton's method on `Lₙ`**: for `z ≠ 0` the code's
    `pp = (n p1 − (n+a) p2)/z` equals `Lₙ'(z)` and the update is `z − Lₙ(z)/Lₙ'(z)`; the third
    component is the `p2 = Lₙ₋₁(z)` used in the weight `factor/(pp·n·p2)`. -/
theorem gamma_step_is_newton (a z : K) (n : Nat) (hz : z ≠ 0) :
    lagStep (n + 1) a z =
      (z - (laguerrePoly a (n + 1)).eval z / (Polynomial.derivative (laguerrePoly a (n + 1))).eval z,
       (Polynomial.derivative (laguerrePoly a (n + 1))).eval z,
       (laguerrePoly a n).eval z) := by
  have h := congrArg (Polynomial.eval z) (laguerrePoly_deriv_pair a n).2
  simp only [Polynomial.eval_mul, Polynomial.eval_sub, Polynomial.eval_add, Polynomial.eval_X,
    Polynomial.eval_C, Polynomial.eval_natCast, laguerrePoly_eval] at h
  have hd : (Polynomial.derivative (laguerrePoly a (n + 1))).eval z
      = (((n + 1 : Nat) : K) * laguerreP a z (n + 1) - (((n + 1 : Nat) : K) + a) * laguerreP a z n) / z := by
    rw [eq_div_iff hz, ← h]; ring
  unfold lagStep
  rw [lagLoop_succ, laguerrePoly_eval, laguerrePoly_eval, hd]

example : lagLoop (1 / 2 : Rat) 2 2 1 1 0 = (-9 / 8, -1 / 2) := by decide +kernel

/-- **The recurrence-defined Laguerre polynomials of `_qnwgamma1` are orthogonal for the gamma law.**
    `Λ` is any linear functional on `K[X]` obeying the integration-by-parts rule of the weight
    `x^a e^{−x}` on `[0, ∞)`: `Λ(X f' + (a + 1 − X) f) = 0` for every polynomial `f` (`a` = shape − 1).
    Then `Lₙ` satisfies Laguerre's equation `X Lₙ'' + (a+1−X) Lₙ' + n Lₙ = 0`, has degree exactly `n`, and
    is orthogonal to every `Lₘ`, `m ≠ n`, and to **every** polynomial of degree `< n`. -/
theorem laguerre_orthogonality (a : K) (Λ : Polynomial K →ₗ[K] K)
    (hIBP : ∀ f : Polynomial K,
      Λ (Polynomial.X * Polynomial.derivative f + (Polynomial.C a + 1 - Polynomial.X) * f) = 0) (n : Nat) :
    (laguerrePoly a n).degree = (n : WithBot Nat) ∧
    Polynomial.X * Polynomial.derivative (Polynomial.derivative (laguerrePoly a n))
        + (Polynomial.C a + 1 - Polynomial.X) * Polynomial.derivative (laguerrePoly a n)
        + (n : Polynomial K) * laguerrePoly a n = 0 ∧
    (∀ m, n ≠ m → Λ (laguerrePoly a n * laguerrePoly a m) = 0) ∧
    (∀ q : Polynomial K, q.degree < (n : WithBot Nat) → Λ (laguerrePoly a n * q) = 0) :=
  ⟨laguerrePoly_degree a n, laguerrePoly_ode a n, fun m h => laguerrePoly_orthogonal a Λ hIBP n m h,
    fun q hq => laguerrePoly_orth_degree a Λ hIBP n q hq⟩

/-- non-vacuity of `hIBP`: the moment functional of the gamma law with shape `a + 1`, scale 1 —
    `Λ(c·Xᵏ) = c·Π_{r<k} (a + 1 + r)`, the moments the spec run checks qnwgamma against — obeys it. -/
theorem gamma_functional_ibp (a : K) :
    (∀ (k : Nat) (c : K), gammaFunctional a (Polynomial.monomial k c)
        = c * ∏ r ∈ range k, (a + 1 + (r : K))) ∧
    (∀ f : Polynomial K, gammaFunctional a
        (Polynomial.X * Polynomial.derivative f + (Polynomial.C a + 1 - Polynomial.X) * f) = 0) :=
  ⟨gammaFunctional_monomial a, gammaFunctional_ibp a⟩

/-- … so `laguerre_orthogonality` applies to it: e.g. `E[L₃ L₁] = 0` under gamma(3/2, 1) -/
example : gammaFunctional (1 / 2 : ℚ) (laguerrePoly (1 / 2) 3 * laguerrePoly (1 / 2) 1) = 0 :=
  (laguerre_orthogonality (1 / 2 : ℚ) (gammaFunctional (1 / 2)) (gammaFunctional_ibp (1 / 2)) 3).2.2.1 1 (by decide)

/-- **Gauss-Laguerre (qnwgamma, scale 1): degree `2n − 1` from `n` conditions — partial.**  If every
    node is a root of the `Lₙ` the code's loop evaluates and the rule reproduces `Λ` on polynomials of
    degree `< n`, then it reproduces `Λ` on **every** polynomial of degree `< 2n`.
    *Missing*: that the Newton iteration ends at the `n` roots (floating point) and that the weights
    `factor/(pp·n·p2)` are the interpolatory ones; both are covered by the exact moment check of the
    spec run only. -/
theorem gamma_gauss_exactness_partial (a : K) (Λ : Polynomial K →ₗ[K] K)
    (hIBP : ∀ f : Polynomial K,
      Λ (Polynomial.X * Polynomial.derivative f + (Polynomial.C a + 1 - Polynomial.X) * f) = 0)
    (nodes weights : List K) (n : Nat)
    (hroot : ∀ x ∈ nodes, (laguerrePoly a n).eval x = 0)
    (hint : ∀ r : Polynomial K, r.degree < (n : WithBot Nat) →
      quadSum weights nodes (fun t => r.eval t) = Λ r)
    (p : Polynomial K) (hp : p.degree < ((n + n : Nat) : WithBot Nat)) :
    quadSum weights nodes (fun t => p.eval t) = Λ p :=
  gauss_reduction nodes weights n (laguerrePoly a n) (laguerrePoly_degree a n) Λ hroot
    (fun q hq => laguerrePoly_orth_degree a Λ hIBP n q hq) hint p hp

/-- non-vacuity of the premises: the one-point Gauss-Laguerre rule for the exponential law
    (`a = 0`): node `1` (the root of `L₁ = 1 − X`), weight `1` -/
example : (laguerrePoly (0 : ℚ) 1).eval 1 = 0 ∧
    (∀ r : Polynomial ℚ, r.degree < ((1 : Nat) : WithBot Nat) →
      quadSum [(1 : ℚ)] [1] (fun t => r.eval t) = gammaFunctional 0 r) := by
  constructor
  · simp [laguerrePoly]
  · intro r hr
    have hC : r = Polynomial.C (r.coeff 0) := by
      apply Polynomial.eq_C_of_degree_le_zero
      have : r.degree < 1 := by simpa using hr
      exact Nat.WithBot.lt_one_iff_le_zero.mp this
    rw [hC, ← Polynomial.monomial_zero_left, gammaFunctional_monomial]
    simp [quadSum, dot]

/-! ## The Jacobi recurrence of `_qnwbeta1` -/

/-- **The inner loop of `_qnwbeta1` computes consecutive Jacobi values, for every n** (`a`, `b` =
    the beta parameters minus 1): entered with `p1 = P₁(z) = (a−b+(2+a+b)z)/2`, `p2 = 1`,
    `temp = 2+a+b`, after the `n−1` passes of `for j in range(2, n+1)` the state is
    `(p1, p2, temp) = (Pₙ(z), Pₙ₋₁(z), 2n+a+b)`, with `jacobiP` defined by the code's three-term
    recurrence. -/
theorem beta_recurrence_is_jacobi (a b z : K) (n : Nat) :
    jacLoop a b z n 2 ((a - b + (((2 : Nat) : K) + (a + b)) * z) / ((2 : Nat) : K)) 1
        (((2 : Nat) : K) + (a + b))
      = (jacobiP a b z (n + 1), jacobiP a b z n, ((2 * (n + 1) : Nat) : K) + (a + b)) :=
  jacLoop_succ a b z n

example : jacobiP (0 : Rat) 0 (1 / 2) 3 = -7 / 16 := by decide +kernel  -- = Legendre P₃(1/2)

/-- `(2n+a+b)(1−X²) Pₙ' = n(a−b−(2n+a+b)X) Pₙ + 2(n+a)(n+b) Pₙ₋₁` in `K[X]`, for every `n ≥ 1` and all
    `a, b > −1` (i.e. beta parameters > 0), where `jacobiPoly a b n` has the values `jacobiP a b z n`. -/
theorem jacobi_derivative_formula (a b : K) (ha : -1 < a) (hb : -1 < b) (n : Nat) :
    (∀ z : K, (jacobiPoly a b (n + 1)).eval z = jacobiP a b z (n + 1)) ∧
    (((2 * (n + 1) : Nat) : Polynomial K) + (Polynomial.C a + Polynomial.C b)) * (1 - Polynomial.X ^ 2)
        * Polynomial.derivative (jacobiPoly a b (n + 1))
      = ((n + 1 : Nat) : Polynomial K)
          * (Polynomial.C a - Polynomial.C b
              - (((2 * (n + 1) : Nat) : Polynomial K) + (Polynomial.C a + Polynomial.C b)) * Polynomial.X)
          * jacobiPoly a b (n + 1)
        + 2 * (((n + 1 : Nat) : Polynomial K) + Polynomial.C a) * (((n + 1 : Nat) : Polynomial K) + Polynomial.C b)
          * jacobiPoly a b n :=
  ⟨fun z => jacobiPoly_eval a b z (n + 1), (jacobiPoly_deriv_pair a b ha hb n).1⟩

/-- **The iteration of `_qnwbeta1` is Newton's method on the Jacobi polynomial `Pₙ`**: for
    `a, b > −1` and `z² ≠ 1` the code's
    `pp = (n(a−b−temp·z)·p1 + 2(n+a)(n+b)·p2)/(temp(1−z²))` equals `Pₙ'(z)`, the update is
    `z − Pₙ(z)/Pₙ'(z)`, and the returned `p2`, `temp` are `Pₙ₋₁(z)` and `2n+a+b` (used in the weight
    `temp/(pp·p2)`), for every `n ≥ 1`. -/
theorem beta_step_is_newton (a b z : K) (ha : -1 < a) (hb : -1 < b) (n : Nat) (hz : 1 - z * z ≠ 0) :
    jacStep (n + 1) a b z =
      (z - (jacobiPoly a b (n + 1)).eval z / (Polynomial.derivative (jacobiPoly a b (n + 1))).eval z,
       (Polynomial.derivative (jacobiPoly a b (n + 1))).eval z,
       (jacobiPoly a b n).eval z,
       ((2 * (n + 1) : Nat) : K) + (a + b)) := by
  have h := congrArg (Polynomial.eval z) (jacobiPoly_deriv_pair a b ha hb n).1
  simp only [Polynomial.eval_mul, Polynomial.eval_sub, Polynomial.eval_add, Polynomial.eval_X,
    Polynomial.eval_C, Polynomial.eval_natCast, Polynomial.eval_pow, Polynomial.eval_one,
    Polynomial.eval_ofNat, jacobiPoly_eval] at h
  have htau : ((2 * (n + 1) : Nat) : K) + (a + b) ≠ 0 := by
    have h2 : (2 : K) ≤ ((2 * (n + 1) : Nat) : K) := by
      have : 2 ≤ 2 * (n + 1) := by omega
      exact_mod_cast this
    have : (0 : K) < ((2 * (n + 1) : Nat) : K) + (a + b) := by linarith
    exact this.ne'
  have hden : (((2 * (n + 1) : Nat) : K) + (a + b)) * (1 - z * z) ≠ 0 := mul_ne_zero htau hz
  have hd : (Polynomial.derivative (jacobiPoly a b (n + 1))).eval z
      = (((n + 1 : Nat) : K) * (a - b - (((2 * (n + 1) : Nat) : K) + (a + b)) * z) * jacobiP a b z (n + 1)
          + ((2 : Nat) : K) * (((n + 1 : Nat) : K) + a) * (((n + 1 : Nat) : K) + b) * jacobiP a b z n)
        / ((((2 * (n + 1) : Nat) : K) + (a + b)) * (1 - z * z)) := by
    rw [eq_div_iff hden]
    push_cast at h ⊢
    linear_combination h
  unfold jacStep
  simp only [Nat.add_sub_cancel]
  rw [jacLoop_succ]
  simp only [jacobiPoly_eval, hd]

/-- non-vacuity of the parameter domain: `a = b = −1/2` (beta(1/2, 1/2)), `z = 1/3` -/
example : (-1 : Rat) < -1 / 2 ∧ (1 : Rat) - (1 / 3) * (1 / 3) ≠ 0 := by constructor <;> norm_num

/-! ## The Hermite recurrence of `_qnwnorm1` -/

/-- **The inner loop of `_qnwnorm1` computes consecutive orthonormal Hermite values, for every n**
    (`sq j` = the two square roots `(√(2/j), √((j−1)/j))` the code takes, `c = π^{−1/4}`):
    after `for j in range(1, n+1)` the state is `(p1, p2) = (hₙ(z), hₙ₋₁(z))`. -/
theorem norm_recurrence_is_hermite (sq : Nat → K × K) (c z : K) (n : Nat) :
    hermLoop sq z (n + 1) 1 c 0 = (hermP sq c z (n + 1), hermP sq c z n) :=
  hermLoop_succ sq c z n

/-- **The iteration of `_qnwnorm1` is Newton's method on `hₙ`.**  If `sq` really holds the square
    roots (`IsSqrtTable`: positive, with the right squares) and `r ≥ 0` is the `sqrt(2n)` of the
    code (`r² = 2n`), then `pp = r·p2` is `hₙ'(z)`, the derivative of the polynomial whose values
    the loop computes — so `z ← z − p1/pp` is `z − hₙ(z)/hₙ'(z)`, for every `n ≥ 1`. -/
theorem norm_step_is_newton (sq : Nat → K × K) (h : IsSqrtTable sq) (c z : K) (n : Nat) (r : K)
    (hr0 : 0 ≤ r) (hr : r * r = 2 * ((n + 1 : Nat) : K)) :
    (∀ t : K, (hermPoly sq c (n + 1)).eval t = hermP sq c t (n + 1)) ∧
    r * (hermLoop sq z (n + 1) 1 c 0).2
      = (Polynomial.derivative (hermPoly sq c (n + 1))).eval z := by
  refine ⟨fun t => hermPoly_eval sq c t (n + 1), ?_⟩
  rw [hermLoop_succ, hermPoly_derivative sq h c n]
  simp only [Polynomial.eval_mul, Polynomial.eval_natCast, Polynomial.eval_C, hermPoly_eval]
  have hpos : 0 ≤ ((n + 1 : Nat) : K) * (sq (n + 1)).1 :=
    mul_nonneg (Nat.cast_nonneg _) (h.pos1 (n + 1) (by omega)).le
  have hn : ((n + 1 : Nat) : K) ≠ 0 := by
    have : n + 1 ≠ 0 := by omega
    exact_mod_cast this
  have hsq : r ^ 2 = (((n + 1 : Nat) : K) * (sq (n + 1)).1) ^ 2 := by
    have e : (((n + 1 : Nat) : K) * (sq (n + 1)).1) ^ 2
        = ((n + 1 : Nat) : K) ^ 2 * ((sq (n + 1)).1 * (sq (n + 1)).1) := by ring
    rw [e, h.sq1 (n + 1) (by omega), pow_two, hr]
    field_simp
  rw [(sq_eq_sq₀ hr0 hpos).mp hsq]

/-- **Mirror indexing of `_qnwnorm1`** (`nodes[n-1-i] = z; nodes[i] = -z`,
    `weights[n-1-i] = weights[i]`), for every `n` and every list of `m = ⌊(n+1)/2⌋` roots: `n` nodes
    and `n` weights come back, mirrored nodes are opposite and mirrored weights equal (every
    position except the middle one of an odd `n`, which holds `−z` of the last root itself). -/
theorem norm_rule_symmetric (n : Nat) (zs pps : List K) (sqrtpi sqrt2 : K) (hm : zs.length = (n + 1) / 2)
    (k : Nat) (hk : k < n) (hmid : k ≠ n - 1 - k) :
    (hermAssemble n zs pps sqrtpi sqrt2).1.length = n ∧ (hermAssemble n zs pps sqrtpi sqrt2).2.length = n ∧
    (hermAssemble n zs pps sqrtpi sqrt2).1.getD k 0 + (hermAssemble n zs pps sqrtpi sqrt2).1.getD (n - 1 - k) 0 = 0 ∧
    (hermAssemble n zs pps sqrtpi sqrt2).2.getD k 0 = (hermAssemble n zs pps sqrtpi sqrt2).2.getD (n - 1 - k) 0 :=
  hermAssemble_symm n zs pps sqrtpi sqrt2 hm k hk hmid

example : hermAssemble 3 [(3 : Rat), 0] [2, 1] 1 1 = ([-3, 0, 3], [1 / 2, 2, 1 / 2]) := by decide +kernel

/-- non-vacuity of `IsSqrtTable`: over `ℝ` the actual square roots satisfy it -/
example : IsSqrtTable (fun j : Nat => (Real.sqrt (2 / (j : ℝ)), Real.sqrt (((j : ℝ) - 1) / (j : ℝ)))) where
  pos1 := by
    intro j hj
    have : (0 : ℝ) < (j : ℝ) := by exact_mod_cast hj
    exact Real.sqrt_pos.mpr (by positivity)
  sq1 := by
    intro j hj
    have : (0 : ℝ) < (j : ℝ) := by exact_mod_cast hj
    exact Real.mul_self_sqrt (by positivity)
  nonneg2 := fun j _ => Real.sqrt_nonneg _
  sq2 := by
    intro j hj
    have h1 : (1 : ℝ) ≤ (j : ℝ) := by exact_mod_cast hj
    exact Real.mul_self_sqrt (div_nonneg (by linarith) (by linarith))

/-- the actual square roots over `ℝ` form a `IsSqrtTable` (named, for the examples below) -/
theorem real_sqrt_table :
    IsSqrtTable (fun j : Nat => (Real.sqrt (2 / (j : ℝ)), Real.sqrt (((j : ℝ) - 1) / (j : ℝ)))) where
  pos1 := by
    intro j hj
    have : (0 : ℝ) < (j : ℝ) := by exact_mod_cast hj
    exact Real.sqrt_pos.mpr (by positivity)
  sq1 := by
    intro j hj
    have : (0 : ℝ) < (j : ℝ) := by exact_mod_cast hj
    exact Real.mul_self_sqrt (by positivity)
  nonneg2 := fun j _ => Real.sqrt_nonneg _
  sq2 := by
    intro j hj
    have h1 : (1 : ℝ) ≤ (j : ℝ) := by exact_mod_cast hj
    exact Real.mul_self_sqrt (div_nonneg (by linarith) (by linarith))

/-- **The orthonormal Hermite functions of `_qnwnorm1` are orthogonal for the weight `e^{−x²}`.**
    `sq` holds the square roots the code takes (`IsSqrtTable`), `c ≠ 0` is `π^{−1/4}`, and `Λ` is any
    linear functional obeying the integration-by-parts rule of `e^{−x²}` on the real line,
    `Λ(f' − 2X f) = 0` for every polynomial `f`.  Then `hₙ` satisfies Hermite's equation
    `hₙ'' − 2X hₙ' + 2n hₙ = 0`, has degree exactly `n`, and is orthogonal to every `hₘ`, `m ≠ n`, and to
    **every** polynomial of degree `< n`. -/
theorem hermite_orthogonality (sq : Nat → K × K) (h : IsSqrtTable sq) (c : K) (hc : c ≠ 0)
    (Λ : Polynomial K →ₗ[K] K)
    (hIBP : ∀ f : Polynomial K, Λ (Polynomial.derivative f - 2 * Polynomial.X * f) = 0) (n : Nat) :
    (hermPoly sq c n).degree = (n : WithBot Nat) ∧
    Polynomial.derivative (Polynomial.derivative (hermPoly sq c n))
        - 2 * Polynomial.X * Polynomial.derivative (hermPoly sq c n)
        + 2 * (n : Polynomial K) * hermPoly sq c n = 0 ∧
    (∀ m, n ≠ m → Λ (hermPoly sq c n * hermPoly sq c m) = 0) ∧
    (∀ q : Polynomial K, q.degree < (n : WithBot Nat) → Λ (hermPoly sq c n * q) = 0) :=
  ⟨hermPoly_degree sq h c hc n, hermPoly_ode sq h c n, fun m hm => hermPoly_orthogonal sq h c Λ hIBP n m hm,
    fun q hq => hermPoly_orth_degree sq h c hc Λ hIBP n q hq⟩

/-- non-vacuity of `hIBP`: the functional with the moments of the normalised weight `e^{−x²}`
    (`μ₀ = 1`, `μ₁ = 0`, `μ_{k+2} = (k+1)/2 · μ_k`) obeys it. -/
theorem gauss_functional_ibp :
    (∀ (k : Nat) (c : K), hermFunctional (Polynomial.monomial k c) = c * gaussMoment k) ∧
    (∀ f : Polynomial K, hermFunctional (Polynomial.derivative f - 2 * Polynomial.X * f) = 0) :=
  ⟨hermFunctional_monomial, hermFunctional_ibp⟩

/-- … so `hermite_orthogonality` applies over `ℝ` with the real square roots -/
example : hermFunctional
    (hermPoly (fun j : Nat => (Real.sqrt (2 / (j : ℝ)), Real.sqrt (((j : ℝ) - 1) / (j : ℝ)))) 1 3
      * hermPoly (fun j : Nat => (Real.sqrt (2 / (j : ℝ)), Real.sqrt (((j : ℝ) - 1) / (j : ℝ)))) 1 1) = 0 :=
  (hermite_orthogonality _ real_sqrt_table 1 one_ne_zero hermFunctional hermFunctional_ibp 3).2.2.1 1 (by decide)

/-- **Gauss-Hermite (qnwnorm before the `√2` / `√π` rescaling): degree `2n − 1` from `n` conditions —
    partial.**  If every node is a root of the `hₙ` the code's loop evaluates and the rule reproduces `Λ`
    on polynomials of degree `< n`, then it reproduces `Λ` on **every** polynomial of degree `< 2n`.
    *Missing*: that the Newton iteration ends at the `n` roots (floating point) and that the weights
    `2/pp²` are the interpolatory ones; both are covered by the exact moment check of the spec run only. -/
theorem norm_gauss_exactness_partial (sq : Nat → K × K) (h : IsSqrtTable sq) (c : K) (hc : c ≠ 0)
    (Λ : Polynomial K →ₗ[K] K)
    (hIBP : ∀ f : Polynomial K, Λ (Polynomial.derivative f - 2 * Polynomial.X * f) = 0)
    (nodes weights : List K) (n : Nat)
    (hroot : ∀ x ∈ nodes, (hermPoly sq c n).eval x = 0)
    (hint : ∀ r : Polynomial K, r.degree < (n : WithBot Nat) →
      quadSum weights nodes (fun t => r.eval t) = Λ r)
    (p : Polynomial K) (hp : p.degree < ((n + n : Nat) : WithBot Nat)) :
    quadSum weights nodes (fun t => p.eval t) = Λ p :=
  gauss_reduction nodes weights n (hermPoly sq c n) (hermPoly_degree sq h c hc n) Λ hroot
    (fun q hq => hermPoly_orth_degree sq h c hc Λ hIBP n q hq) hint p hp

/-- non-vacuity of the premises: the one-point rule, node `0` (the root of `h₁ ∝ X`), weight `1` -/
example : (hermPoly (fun j : Nat => (Real.sqrt (2 / (j : ℝ)), Real.sqrt (((j : ℝ) - 1) / (j : ℝ)))) 1 1).eval 0 = 0 ∧
    (∀ r : Polynomial ℝ, r.degree < ((1 : Nat) : WithBot Nat) →
      quadSum [(1 : ℝ)] [0] (fun t => r.eval t) = hermFunctional r) := by
  constructor
  · simp [hermPoly]
  · intro r hr
    have hC : r = Polynomial.C (r.coeff 0) := by
      apply Polynomial.eq_C_of_degree_le_zero
      have : r.degree < 1 := by simpa using hr
      exact Nat.WithBot.lt_one_iff_le_zero.mp this
    rw [hC, ← Polynomial.monomial_zero_left, hermFunctional_monomial]
    simp [quadSum, dot, gaussMoment]

/-- **The recurrence-defined Jacobi polynomials of `_qnwbeta1` are orthogonal for the beta law.**  For
    `a, b > −1` (beta parameters `a+1, b+1 > 0`; the routine works on `z = 1 − 2x ∈ [−1, 1]`), let `Λ` be
    any linear functional obeying the integration-by-parts rule of the weight `(1−z)^a (1+z)^b`:
    `Λ((1 − X²) f' + (b − a − (a+b+2) X) f) = 0` for every polynomial `f`.  Then `Pₙ` satisfies Jacobi's
    equation `(1−X²)Pₙ'' + (b−a−(a+b+2)X)Pₙ' + n(n+a+b+1)Pₙ = 0`, has degree exactly `n`, and is orthogonal
    to every `Pₘ`, `m ≠ n`, and to **every** polynomial of degree `< n`. -/
theorem jacobi_orthogonality (a b : K) (ha : -1 < a) (hb : -1 < b) (Λ : Polynomial K →ₗ[K] K)
    (hIBP : ∀ f : Polynomial K, Λ ((1 - Polynomial.X ^ 2) * Polynomial.derivative f
        + (Polynomial.C b - Polynomial.C a - (Polynomial.C a + Polynomial.C b + 2) * Polynomial.X) * f) = 0)
    (n : Nat) :
    (jacobiPoly a b n).degree = (n : WithBot Nat) ∧
    (1 - Polynomial.X ^ 2) * Polynomial.derivative (Polynomial.derivative (jacobiPoly a b n))
        + (Polynomial.C b - Polynomial.C a - (Polynomial.C a + Polynomial.C b + 2) * Polynomial.X)
          * Polynomial.derivative (jacobiPoly a b n)
        + (n : Polynomial K) * ((n : Polynomial K) + (Polynomial.C a + Polynomial.C b) + 1) * jacobiPoly a b n = 0 ∧
    (∀ m, n ≠ m → Λ (jacobiPoly a b n * jacobiPoly a b m) = 0) ∧
    (∀ q : Polynomial K, q.degree < (n : WithBot Nat) → Λ (jacobiPoly a b n * q) = 0) :=
  ⟨jacobiPoly_degree a b ha hb n, jacobiPoly_ode a b ha hb n,
    fun m hm => jacobiPoly_orthogonal a b ha hb Λ hIBP n m hm,
    fun q hq => jacobiPoly_orth_degree a b ha hb Λ hIBP n q hq⟩

/-- non-vacuity of `hIBP`: the functional with the moments `jacMoment a b` (the recurrence the rule
    dictates, `μ₀ = 1`) obeys it for `a, b > −1`. -/
theorem jacobi_functional_ibp (a b : K) (ha : -1 < a) (hb : -1 < b) :
    (∀ (k : Nat) (c : K), jacFunctional a b (Polynomial.monomial k c) = c * jacMoment a b k) ∧
    (∀ f : Polynomial K, jacFunctional a b ((1 - Polynomial.X ^ 2) * Polynomial.derivative f
        + (Polynomial.C b - Polynomial.C a - (Polynomial.C a + Polynomial.C b + 2) * Polynomial.X) * f) = 0) :=
  ⟨jacFunctional_monomial a b, jacFunctional_ibp a b ha hb⟩

/-- … so `jacobi_orthogonality` applies: e.g. `a = −1/2`, `b = 1/2` (beta(1/2, 3/2)) -/
example : jacFunctional (-1 / 2 : ℚ) (1 / 2) (jacobiPoly (-1 / 2) (1 / 2) 3 * jacobiPoly (-1 / 2) (1 / 2) 1) = 0 :=
  (jacobi_orthogonality (-1 / 2 : ℚ) (1 / 2) (by norm_num) (by norm_num) (jacFunctional (-1 / 2) (1 / 2))
    (jacFunctional_ibp (-1 / 2) (1 / 2) (by norm_num) (by norm_num)) 3).2.2.1 1 (by decide)

/-- **Gauss-Jacobi (qnwbeta in the variable `z = 1 − 2x`): degree `2n − 1` from `n` conditions —
    partial.**  If every node is a root of the `Pₙ` the code's loop evaluates and the rule reproduces `Λ`
    on polynomials of degree `< n`, then it reproduces `Λ` on **every** polynomial of degree `< 2n`.
    *Missing*: that the Newton iteration from the tabulated starting values ends at the `n` distinct roots
    (it does not for `n = 3`, small `b`, large `a`: the known finding) and that the weights `temp/(pp·p2)`
    are the interpolatory ones; both are covered by the exact moment check of the spec run only. -/
theorem beta_gauss_exactness_partial (a b : K) (ha : -1 < a) (hb : -1 < b) (Λ : Polynomial K →ₗ[K] K)
    (hIBP : ∀ f : Polynomial K, Λ ((1 - Polynomial.X ^ 2) * Polynomial.derivative f
        + (Polynomial.C b - Polynomial.C a - (Polynomial.C a + Polynomial.C b + 2) * Polynomial.X) * f) = 0)
    (nodes weights : List K) (n : Nat)
    (hroot : ∀ x ∈ nodes, (jacobiPoly a b n).eval x = 0)
    (hint : ∀ r : Polynomial K, r.degree < (n : WithBot Nat) →
      quadSum weights nodes (fun t => r.eval t) = Λ r)
    (p : Polynomial K) (hp : p.degree < ((n + n : Nat) : WithBot Nat)) :
    quadSum weights nodes (fun t => p.eval t) = Λ p :=
  gauss_reduction nodes weights n (jacobiPoly a b n) (jacobiPoly_degree a b ha hb n) Λ hroot
    (fun q hq => jacobiPoly_orth_degree a b ha hb Λ hIBP n q hq) hint p hp

/-- non-vacuity of the premises: `a = b = 0` (uniform law), one node `0` (the root of `P₁ = X`),
    weight `1` -/
example : (jacobiPoly (0 : ℚ) 0 1).eval 0 = 0 ∧
    (∀ r : Polynomial ℚ, r.degree < ((1 : Nat) : WithBot Nat) →
      quadSum [(1 : ℚ)] [0] (fun t => r.eval t) = jacFunctional 0 0 r) := by
  constructor
  · simp [jacobiPoly]
  · intro r hr
    have hC : r = Polynomial.C (r.coeff 0) := by
      apply Polynomial.eq_C_of_degree_le_zero
      have : r.degree < 1 := by simpa using hr
      exact Nat.WithBot.lt_one_iff_le_zero.mp this
    rw [hC, ← Polynomial.monomial_zero_left, jacFunctional_monomial]
    simp [quadSum, dot, jacMoment]

/-! ## `_make_multidim_func`: which one-dimensional rules are requested -/

/-- **Argument handling of `_make_multidim_func`, every shape.**
    (1) The 1-d shortcut is taken **iff** `n` and every argument have size 1.
    (2) For `d = len n ≥ 2` and arguments whose sizes are all `1` or `d`, exactly `d` calls are planned
        and call `i` is `one_d_func(n[i], …)` with parameter `j` equal to `args[j][i]`, or `args[j][0]` for a
        size-1 (broadcast) argument.
    (3) An error is planned **iff** the shortcut does not apply and (`d ≤ 1` or some argument, after the
        broadcast, is shorter than `d`). -/
theorem multidim_plan_spec (ns : List Nat) (args : List (List K)) :
    ((∃ n ps, multidimPlan ns args = MDPlan.oneD n ps) ↔
        (ns.length = 1 ∧ ∀ x ∈ args, x.length = 1)) ∧
    (2 ≤ ns.length → (∀ x ∈ args, x.length = 1 ∨ x.length = ns.length) →
      ∃ calls, multidimPlan ns args = MDPlan.multi calls ∧ calls.length = ns.length ∧
        ∀ i, i < ns.length → calls.getD i (0, []) =
          (ns.getD i 0, args.map fun x => if x.length = 1 then x.getD 0 0 else x.getD i 0)) ∧
    ((multidimPlan ns args = MDPlan.indexError ∨ multidimPlan ns args = MDPlan.typeError) ↔
      (¬ (ns.length = 1 ∧ ∀ x ∈ args, x.length = 1) ∧
        (ns.length ≤ 1 ∨ ∃ x ∈ args, x.length ≠ 1 ∧ x.length < ns.length))) := by
  have hall : (args.all (fun x => decide (x.length = 1)) = true) ↔ ∀ x ∈ args, x.length = 1 := by
    simp [List.all_eq_true]
  have hany : ((args.map fun x => if x.length = 1 then List.replicate ns.length (x.getD 0 0) else x).any
      (fun x => decide (x.length < ns.length)) = true) ↔ ∃ x ∈ args, x.length ≠ 1 ∧ x.length < ns.length := by
    simp only [List.any_eq_true, List.mem_map, decide_eq_true_eq]
    constructor
    · rintro ⟨y, ⟨x, hx, rfl⟩, hy⟩
      by_cases h1 : x.length = 1
      · rw [if_pos h1] at hy; simp at hy
      · rw [if_neg h1] at hy; exact ⟨x, hx, h1, hy⟩
    · rintro ⟨x, hx, h1, hlt⟩
      exact ⟨_, ⟨x, hx, rfl⟩, by rw [if_neg h1]; exact hlt⟩
  refine ⟨?_, ?_, ?_⟩
  · unfold multidimPlan
    constructor
    · rintro ⟨n, ps, h⟩
      by_cases hc : ns.length = 1 ∧ args.all (fun x => decide (x.length = 1)) = true
      · exact ⟨hc.1, hall.mp hc.2⟩
      · rw [if_neg hc] at h
        dsimp only at h
        split_ifs at h
    · rintro ⟨h1, h2⟩
      rw [if_pos ⟨h1, hall.mpr h2⟩]
      exact ⟨_, _, rfl⟩
  · intro hd hsz
    unfold multidimPlan
    have hc : ¬ (ns.length = 1 ∧ args.all (fun x => decide (x.length = 1)) = true) := by
      rintro ⟨h1, _⟩; omega
    rw [if_neg hc]
    dsimp only
    have hno : ¬ ((args.map fun x => if x.length = 1 then List.replicate ns.length (x.getD 0 0) else x).any
        (fun x => decide (x.length < ns.length)) = true) := by
      rw [hany]
      rintro ⟨x, hx, h1, hlt⟩
      rcases hsz x hx with h | h <;> omega
    rw [if_neg hno, if_neg (by omega), if_neg (by omega)]
    refine ⟨_, rfl, by simp, ?_⟩
    intro i hi
    simp only [List.getD_eq_getElem?_getD, List.getElem?_map, List.getElem?_range hi, Option.map_some,
      Option.getD_some, List.map_map]
    congr 1
    apply List.map_congr_left
    intro x hx
    simp only [Function.comp]
    by_cases h1 : x.length = 1
    · simp [h1, hi]
    · simp [h1]
  · unfold multidimPlan
    by_cases hc : ns.length = 1 ∧ args.all (fun x => decide (x.length = 1)) = true
    · rw [if_pos hc]
      have : ns.length = 1 ∧ ∀ x ∈ args, x.length = 1 := ⟨hc.1, hall.mp hc.2⟩
      constructor
      · rintro (h | h) <;> cases h
      · rintro ⟨hn, _⟩; exact absurd this hn
    · rw [if_neg hc]
      dsimp only
      have hc' : ¬ (ns.length = 1 ∧ ∀ x ∈ args, x.length = 1) := fun h => hc ⟨h.1, hall.mpr h.2⟩
      by_cases ha : (args.map fun x => if x.length = 1 then List.replicate ns.length (x.getD 0 0) else x).any
          (fun x => decide (x.length < ns.length)) = true
      · rw [if_pos ha]
        exact ⟨fun _ => ⟨hc', Or.inr (hany.mp ha)⟩, fun _ => Or.inl rfl⟩
      · rw [if_neg ha]
        have hna : ¬ ∃ x ∈ args, x.length ≠ 1 ∧ x.length < ns.length := fun h => ha (hany.mpr h)
        by_cases h0 : ns.length = 0
        · rw [if_pos h0]
          exact ⟨fun _ => ⟨hc', Or.inl (by omega)⟩, fun _ => Or.inr rfl⟩
        · rw [if_neg h0]
          by_cases h1 : ns.length = 1
          · rw [if_pos h1]
            exact ⟨fun _ => ⟨hc', Or.inl (by omega)⟩, fun _ => Or.inl rfl⟩
          · rw [if_neg h1]
            constructor
            · rintro (h | h) <;> cases h
            · rintro ⟨_, h | h⟩
              · omega
              · exact absurd h hna

/-- non-vacuity: `n = [3, 4]`, a scalar lower bound broadcast against a vector upper bound; the 1-d
    shortcut; a too-short argument -/
example : multidimPlan [3, 4] [[(1 : Rat)], [2, 5]] = MDPlan.multi [(3, [1, 2]), (4, [1, 5])] ∧
    multidimPlan [3] [[(1 : Rat)], [2]] = MDPlan.oneD 3 [1, 2] ∧
    multidimPlan [3, 4, 5] [[(1 : Rat), 2], [7]] = MDPlan.indexError ∧
    multidimPlan [] [[(1 : Rat)], [2]] = MDPlan.typeError := by
  refine ⟨?_, ?_, ?_, ?_⟩ <;> decide +kernel

end QE.C08
