/-
  Property C10 — simulated paths stay in the state space and follow the transition law:
  theorems about QEModel.C10 (the definitions the driver `qedriver_c10` executes).

  Reading guide.  `searchsorted`, `searchsortedCdf`, `cumsum`, `pathDense`, `pathSparse`,
  `initStates`, `simulateIndices`, `simulate`, `mcSamplePath`, `drvDraw`, `draw` are the model
  functions.  The random numbers are *arguments* (`u`, `us`), universally quantified: nothing below
  assumes `u < 1` (or anything else) unless stated, so "every random stream" is literal.
  The range theorems hold over any type with a decidable `<` and a `==` — in particular they are
  statements about the `Float` instance the driver runs (NaN and infinities included).  The
  inverse-CDF / positive-probability theorems are over an arbitrary linear order with an addition
  of which only `x + 0 = x` and `0 ≤ p → x ≤ x + p` are assumed (true of IEEE-754 addition on
  finite doubles and of exact addition); `…_rat` are the instances at `Rat`, `…_rounded` the
  instances for an arbitrary monotone idempotent rounding of the sums (`Lemmas/C10Round.lean`).

  Specification predicates used in the statements (all short, defined in `QEProofs/Lemmas/`):
    IsBisect a v r      C10Search  r ≤ len a, a[i] ≤ v for i < r, v < a[i] for i ≥ r
    IsFirstMax a b      C10Cdf     b is the first index with a[b] = a[-1]
    IsPathOf step s us p C10Path   len p = len us + 1, p[0] = s, step p[t] us[t] = some p[t+1] for all t
    CsrOK n c1d idx ptr C10Path    n+1 row pointers; every row nonempty, inside c1d and idx; columns < n
    CsrCanon n data idx ptr C10Csr ptr[0] = 0, ptr strictly increasing, ptr[n] = len data = len idx, columns < n
    InitOK n init reps  C10Path    every requested initial state lies in [-n, n)
    InitNonneg n init   C10Draw    every requested initial state lies in [0, n)
    docK / docDim       C10Path    documented number of paths / ndim of the result
    requested n drawn init j C10Path  j-th requested start: init[j mod len init] mod n, the scalar mod n, or drawn[j]
    norm n i            C10Path    (i mod n) as a natural number
    ssLoopC / backoffC / searchsortedCdfC  C10Reads  the searches with aborting reads
    Rounding, Fl R      C10Round   abstract rounded arithmetic
    Init2Bad sv init    C10Sv2     the 2-D init is refused: scalar / ndim ≥ 3, or some requested row is not a label row
    svOnly, assignments C10Hist    the fold of the state_values setter over the assignments of a history
-/
import Mathlib.Order.Defs.LinearOrder
import Mathlib.Algebra.Order.Ring.Rat
import QEModel.C10
import QEProofs.Lemmas.C10Search
import QEProofs.Lemmas.C10Cdf
import QEProofs.Lemmas.C10Path
import QEProofs.Lemmas.C10Draw
import QEProofs.Lemmas.C10Csr
import QEProofs.Lemmas.C10Reads
import QEProofs.Lemmas.C10Sv
import QEProofs.Lemmas.C10Accept
import QEProofs.Lemmas.C10Round
import QEProofs.Lemmas.C10Hist
import QEProofs.Lemmas.C10Law
import QEProofs.Lemmas.C10Sv2
namespace QE.C10
variable {α : Type}

/-! ## 1. the binary search (util/array.py `searchsorted`) -/

/-- **searchsorted_spec.** On a sorted array over any linear order (so: exactly on doubles),
    `r = searchsorted a v` satisfies `r ≤ len a`, `a[i] ≤ v` for all `i < r` and `v < a[i]` for all
    `i ≥ r`: it is the least index with `v < a[i]`, or `len a` if there is none. -/
theorem searchsorted_spec [LinearOrder α] (a : List α) (v : α) (hs : a.Pairwise (· ≤ ·)) :
    searchsorted a v ≤ a.length ∧
    (∀ i (h : i < a.length), i < searchsorted a v → a[i] ≤ v) ∧
    (∀ i (h : i < a.length), searchsorted a v ≤ i → v < a[i]) :=
  searchsorted_isBisect a v hs

example : ([1, 3, 3, 8] : List Int).Pairwise (· ≤ ·) := by decide
example : searchsorted ([1, 3, 3, 8] : List Int) 3 = 3 := by decide +kernel

/-- the specification determines the result: any `r` with the three properties *is* the result -/
theorem searchsorted_unique [LinearOrder α] (a : List α) (v : α) (hs : a.Pairwise (· ≤ ·)) (r : Nat)
    (h0 : r ≤ a.length) (h1 : ∀ i (h : i < a.length), i < r → a[i] ≤ v)
    (h2 : ∀ i (h : i < a.length), r ≤ i → v < a[i]) : searchsorted a v = r :=
  (searchsorted_isBisect a v hs).unique ⟨h0, h1, h2⟩

/-- **Every array, every value** (unsorted, NaN, …): the result `r` is at most `len a`, reads stay
    inside the array, and locally `¬ v < a[r-1]` (if `r > 0`) and `v < a[r]` (if `r < len a`). -/
theorem searchsorted_any_array [LT α] [DecidableLT α] (a : List α) (v : α) :
    searchsorted a v ≤ a.length ∧
    (searchsorted a v = 0 ∨ ∃ x, a[searchsorted a v - 1]? = some x ∧ ¬ v < x) ∧
    (searchsorted a v = a.length ∨ ∃ x, a[searchsorted a v]? = some x ∧ v < x) :=
  ⟨searchsorted_le a v, (searchsorted_local a v).1, (searchsorted_local a v).2⟩

/-- The plain search leaves the array exactly when `u ≥ cdf[-1]` — the situation of defect F2
    (ten masses `0.1` have the double cumulative sum `1 − 2⁻⁵³`, and `u = 1 − 2⁻⁵³` is a legal
    uniform): this is why `searchsorted_cdf` needs its back-off branch. -/
theorem searchsorted_eq_length_iff [LinearOrder α] (cdf : List α) (u : α) (hs : cdf.Pairwise (· ≤ ·))
    (hne : cdf ≠ []) : searchsorted cdf u = cdf.length ↔ cdf.getLast hne ≤ u := by
  have hb := searchsorted_isBisect cdf u hs
  have hpos : 0 < cdf.length := List.length_pos_iff.mpr hne
  rw [List.getLast_eq_getElem]
  constructor
  · intro h
    exact hb.2.1 (cdf.length - 1) (by omega) (by omega)
  · intro h
    by_contra hc
    have hlt : searchsorted cdf u < cdf.length := by have := hb.1; omega
    exact absurd (hb.2.2 (cdf.length - 1) (by omega) (by omega)) (not_lt.mpr h)

/-- witness for the left-hand side (integers standing for the doubles): `u = cdf[-1]` -/
example : searchsorted ([2, 5, 9] : List Int) 9 = 3 := by decide +kernel

/-! ## 2. `searchsorted_cdf`: never outside the array; inverse CDF; positive probability -/

/-- **No draw, however close to 1, produces an index outside the state space.**
    For a nonempty array and *any* value `v` (no order axioms, no sortedness; `α = Float` allowed)
    `searchsorted_cdf` returns an index `< len cdf`. -/
theorem searchsortedCdf_in_range [LT α] [DecidableLT α] [BEq α] (cdf : List α) (v : α)
    (h : cdf ≠ []) : searchsortedCdf cdf v < cdf.length :=
  searchsortedCdf_lt cdf v h

/-- the statement instantiated at the scalar type the driver runs against the code's bits -/
example (cdf : List Float) (v : Float) (h : cdf ≠ []) : searchsortedCdf cdf v < cdf.length :=
  searchsortedCdf_in_range cdf v h

/-- **step_inverse_cdf.** Let `p` be a nonempty row of nonnegative masses, `cdf = cumsum p`
    (sequential sums; only monotonicity of `+` is used).  With `j = searchsorted_cdf(cdf, u)`:
    * if `u < cdf[-1]` then `cdf[i] ≤ u` for all `i < j` and `u < cdf[i]` for all `i ≥ j`
      — i.e. `cdf[j-1] ≤ u < cdf[j]`, the inverse-CDF image of `u`;
    * if `u ≥ cdf[-1]` (possible for `u < 1` because of rounding in the sum) then `j` is the first
      index with `cdf[j] = cdf[-1]`: the last state whose mass moved the cumulative sum. -/
theorem step_inverse_cdf [LinearOrder α] [Add α] [Zero α]
    (hmono : ∀ x p : α, 0 ≤ p → x ≤ x + p) (p : List α) (u : α)
    (hp : ∀ x ∈ p, (0 : α) ≤ x) (hne : p ≠ []) :
    let cdf := cumsum p
    let j := searchsortedCdf cdf u
    (u < cdf.getLast (cumsum_ne_nil hne) →
      j ≤ cdf.length ∧ (∀ i (h : i < cdf.length), i < j → cdf[i] ≤ u) ∧
        (∀ i (h : i < cdf.length), j ≤ i → u < cdf[i])) ∧
    (cdf.getLast (cumsum_ne_nil hne) ≤ u →
      ∃ hj : j < cdf.length, cdf[j] = cdf.getLast (cumsum_ne_nil hne) ∧
        ∀ i (h : i < cdf.length), i < j → cdf[i] < cdf.getLast (cumsum_ne_nil hne)) := by
  intro cdf j
  have hs : cdf.Pairwise (· ≤ ·) := cumsum_sorted hmono p hp
  obtain ⟨h1, h2⟩ := searchsortedCdf_spec cdf u hs (cumsum_ne_nil hne)
  refine ⟨fun hu => h1 hu, fun hu => ?_⟩
  obtain ⟨_, hb, hv, hall⟩ := h2 hu
  exact ⟨hb, hv, hall⟩

/-- **Only transitions of positive probability.**  Same row `p` (nonnegative, positive total
    cumulative sum) and any `u ≥ 0`: the returned index is a valid position and `p[j] > 0`.
    Uses only `x + 0 = x` about the addition. -/
theorem step_positive_probability [LinearOrder α] [Add α] [Zero α] (hadd0 : ∀ x : α, x + 0 = x)
    (p : List α) (u : α) (hp : ∀ x ∈ p, (0 : α) ≤ x) (hu : 0 ≤ u) (hne : p ≠ [])
    (hlast : 0 < (cumsum p).getLast (cumsum_ne_nil hne)) :
    ∃ h : searchsortedCdf (cumsum p) u < p.length, 0 < p[searchsortedCdf (cumsum p) u] :=
  searchsortedCdf_mass_pos hadd0 p u hp hu (fun _ => hlast) hne

/-- instance at `Rat`, the exact reference scalar of the driver (`sc=rat`) -/
theorem step_positive_probability_rat (p : List Rat) (u : Rat) (hp : ∀ x ∈ p, (0 : Rat) ≤ x)
    (hu : 0 ≤ u) (hne : p ≠ []) (hlast : 0 < (cumsum p).getLast (cumsum_ne_nil hne)) :
    ∃ h : searchsortedCdf (cumsum p) u < p.length, 0 < p[searchsortedCdf (cumsum p) u] :=
  step_positive_probability (fun x => add_zero x) p u hp hu hne hlast

theorem step_inverse_cdf_rat (p : List Rat) (u : Rat) (hp : ∀ x ∈ p, (0 : Rat) ≤ x) (hne : p ≠ []) :
    let cdf := cumsum p
    let j := searchsortedCdf cdf u
    (u < cdf.getLast (cumsum_ne_nil hne) →
      j ≤ cdf.length ∧ (∀ i (h : i < cdf.length), i < j → cdf[i] ≤ u) ∧
        (∀ i (h : i < cdf.length), j ≤ i → u < cdf[i])) ∧
    (cdf.getLast (cumsum_ne_nil hne) ≤ u →
      ∃ hj : j < cdf.length, cdf[j] = cdf.getLast (cumsum_ne_nil hne) ∧
        ∀ i (h : i < cdf.length), i < j → cdf[i] < cdf.getLast (cumsum_ne_nil hne)) :=
  step_inverse_cdf (fun _ _ hp => le_add_of_nonneg_right hp) p u hp hne

/-- non-vacuity: masses `(2,0,5,0)/7` written as integers; `u = 3` falls in the third cell,
    `u = 7 = cdf[-1]` is clamped to index 2 (not to the zero-mass index 3, and not to 4). -/
example : cumsum ([2, 0, 5, 0] : List Int) = [2, 2, 7, 7] := by decide
example : searchsortedCdf (cumsum ([2, 0, 5, 0] : List Int)) 3 = 2 := by decide +kernel
example : searchsortedCdf (cumsum ([2, 0, 5, 0] : List Int)) 7 = 2 := by decide +kernel
example : searchsorted (cumsum ([2, 0, 5, 0] : List Int)) 7 = 4 := by decide +kernel
example : ∀ x ∈ ([2, 0, 5, 0] : List Int), (0 : Int) ≤ x := by decide

/-! ## 3. paths: induction over the path, for every stream -/

/-- **path_valid (dense kernel).**  `cdfs` square (`n` rows of length `n`, *nothing else* — not
    even sortedness), `init < n`.  Then for **every** list `us` (of any values) the kernel returns
    a path `p` with `len p = len us + 1`, `p[0] = init`, all entries `< n`, and
    `p[t+1] = searchsorted_cdf(cdfs[p[t]], us[t])` for every `t`; no read leaves the arrays
    (the model's out-of-range result `none` is excluded). -/
theorem path_valid_dense [LT α] [DecidableLT α] [BEq α] (cdfs : List (List α))
    (hsq : ∀ row ∈ cdfs, row.length = cdfs.length) (init : Nat) (hinit : init < cdfs.length)
    (us : List α) :
    ∃ p, pathDense cdfs init us = some p ∧ p.length = us.length + 1 ∧ p[0]? = some init ∧
      (∀ x ∈ p, x < cdfs.length) ∧
      ∀ t (ht : t < us.length), ∃ a b, ∃ ha : a < cdfs.length, p[t]? = some a ∧ p[t + 1]? = some b ∧
        cdfs[a] ≠ [] ∧ b = searchsortedCdf cdfs[a] us[t] := by
  obtain ⟨p, hp, ⟨hlen, hhead, hfol⟩, hall⟩ :=
    pathFrom_valid (denseStep cdfs) cdfs.length (fun s u hs => denseStep_lt cdfs hsq s u hs) us init hinit
  refine ⟨p, hp, hlen, hhead, hall, ?_⟩
  intro t ht
  obtain ⟨a, b, ha, hb, hab⟩ := hfol t ht
  obtain ⟨hs, hne, hbe⟩ := denseStep_eq cdfs a us[t] b hab
  exact ⟨a, b, hs, ha, hb, hne, hbe⟩

/-- non-vacuity: a 2-state chain (cdf rows as integers), three draws including `u = cdf[-1]` -/
example : pathDense ([[1, 4], [4, 4]] : List (List Int)) 0 [0, 4, 2] = some [0, 0, 1, 0] := by
  decide +kernel

/-- **path_valid (CSR kernel).**  Arrays as `scipy.sparse.csr_matrix` provides them (`CsrOK`:
    `n+1` row pointers, each row nonempty and inside `cdfs1d`/`indices`, stored columns `< n`),
    `init < n`: for every stream the kernel returns a path of the right length that starts at
    `init`, stays below `n`, and follows the CSR step; no read leaves `indptr`, `cdfs1d`, `indices`. -/
theorem path_valid_sparse [LT α] [DecidableLT α] [BEq α] (n : Nat) (c1d : List α)
    (indices indptr : List Nat) (hok : CsrOK n c1d indices indptr) (init : Nat) (hinit : init < n)
    (us : List α) :
    ∃ p, pathSparse c1d indices indptr init us = some p ∧
      IsPathOf (sparseStep c1d indices indptr) init us p ∧ ∀ x ∈ p, x < n :=
  pathFrom_valid (sparseStep c1d indices indptr) n
    (fun s u hs => sparseStep_lt n c1d indices indptr hok s u hs) us init hinit

/-- non-vacuity for `CsrOK` and the sparse kernel: rows `{1: 3/3}`, `{0: 1/4, 1: 0, 0: 3/4}` -/
example : CsrOK 2 ([3, 1, 1, 4] : List Int) [1, 0, 1, 0] [0, 1, 4] := by
  refine ⟨?_, by decide⟩
  intro s hs
  have : s = 0 ∨ s = 1 := by omega
  rcases this with rfl | rfl
  · exact ⟨0, 1, rfl, rfl, by decide, by decide, by decide⟩
  · exact ⟨1, 4, rfl, rfl, by decide, by decide, by decide⟩
example : pathSparse ([3, 1, 1, 4] : List Int) [1, 0, 1, 0] [0, 1, 4] 0 [5, 0, 9, 2] = some [0, 1, 0, 1, 0] := by
  decide +kernel

/-- **Only positive-probability transitions along the whole path (dense).**  `P` square with
    nonnegative entries and positive row totals, `cdfs = cdfsDense P` (the model of
    `MarkovChain.cdfs`), every `u ≥ 0`: each transition `a → b` of the returned path has
    `P[a][b] > 0`. -/
theorem path_transitions_positive_dense [LinearOrder α] [Add α] [Zero α]
    (hadd0 : ∀ x : α, x + 0 = x) (P : List (List α))
    (hsq : ∀ row ∈ P, row.length = P.length)
    (hnn : ∀ row ∈ P, ∀ x ∈ row, (0 : α) ≤ x)
    (htot : ∀ row ∈ P, ∀ h : cumsum row ≠ [], 0 < (cumsum row).getLast h)
    (init : Nat) (hinit : init < P.length) (us : List α) (hus : ∀ u ∈ us, (0 : α) ≤ u) :
    ∃ p, pathDense (cdfsDense P) init us = some p ∧ p.length = us.length + 1 ∧ p[0]? = some init ∧
      (∀ x ∈ p, x < P.length) ∧
      ∀ t, t < us.length → ∃ a b, ∃ (ha : a < P.length) (hb : b < P[a].length),
        p[t]? = some a ∧ p[t + 1]? = some b ∧ 0 < P[a][b] := by
  have hlenc : (cdfsDense P).length = P.length := by simp [cdfsDense]
  obtain ⟨p, hp, hlen, hhead, hall, hfol⟩ :=
    path_valid_dense (cdfsDense P) (cdfsDense_square P hsq) init (by omega) us
  refine ⟨p, hp, hlen, hhead, fun x hx => by have := hall x hx; omega, ?_⟩
  intro t ht
  obtain ⟨a, b, ha, hpa, hpb, _, hbe⟩ := hfol t ht
  have ha' : a < P.length := by omega
  have hrow : (cdfsDense P)[a] = cumsum P[a] := by simp [cdfsDense]
  have hmem : P[a] ∈ P := List.getElem_mem ha'
  have hne : P[a] ≠ [] := by
    intro h0
    have := hsq _ hmem
    rw [h0] at this; simp at this; omega
  obtain ⟨hlt, hpos⟩ := searchsortedCdf_mass_pos hadd0 P[a] us[t] (hnn _ hmem)
    (hus _ (List.getElem_mem ht)) (htot _ hmem) hne
  rw [hrow] at hbe
  subst hbe
  exact ⟨a, _, ha', hlt, hpa, hpb, hpos⟩

/-! ## 4. init handling and the assembled `simulate_indices` / `simulate` / `mc_sample_path` -/

/-- **Range check of `init`.** The call is refused (always with `ValueError`) exactly when some
    requested initial state lies outside `[-n, n)` (or `init=None` with an empty state space). -/
theorem init_error_iff (n : Nat) (init : Init) (reps : Option Nat) (drawn : List Nat) :
    ((∃ e, initStates n init reps drawn = .error e) ↔ ¬ InitOK n init reps) ∧
    ∀ e, initStates n init reps drawn = .error e → e = .valueError :=
  ⟨initStates_error_iff n init reps drawn, fun e h => initStates_error_kind n init reps drawn e h⟩

/-- **Shapes, tiling, start states.** On an accepted request: `dim` and the number `k` of paths are
    the documented ones (`k = len init`, `num_reps`, `len init · num_reps` or `1`), every initial
    state is `< n`, and path `j` starts at the `j`-th requested state: `init[j mod len init]`
    normalised modulo `n` (so negative indices never reach the kernels — defect F3), the scalar, or
    the drawn state. -/
theorem init_spec (n : Nat) (init : Init) (reps : Option Nat) (drawn : List Nat) (ir : InitRes)
    (h : initStates n init reps drawn = .ok ir)
    (hdrawn : init = .none → docK init reps ≤ drawn.length ∧ ∀ d ∈ drawn, d < n) :
    ir.dim = docDim init reps ∧ ir.states.length = docK init reps ∧ (∀ s ∈ ir.states, s < n) ∧
    ∀ j, j < docK init reps → ir.states[j]? = requested n drawn init j ∧ (ir.states[j]?).isSome :=
  initStates_ok_spec n init reps drawn ir h hdrawn

/-- a nonnegative in-range state is kept, a negative one `i` becomes `n + i` -/
theorem norm_spec (n : Nat) (i : Int) :
    (0 ≤ i → i < n → norm n i = i.toNat) ∧ (i < 0 → -(n : Int) ≤ i → (norm n i : Int) = n + i) ∧
    (inRange n i = true → norm n i < n) :=
  ⟨norm_of_nonneg n i, norm_of_neg n i, norm_lt n i⟩

example : initStates 3 (.arr [-1, 2]) (some 2) [] = .ok ⟨2, [2, 2, 2, 2]⟩ := by rfl
example : initStates 3 (.arr [-3, 1]) (some 2) [] = .ok ⟨2, [0, 1, 0, 1]⟩ := by rfl
example : initStates 3 (.scalar 3) none [] = .error .valueError := by rfl
example : InitOK 3 (.arr [-3, 1]) (some 2) := by simp [InitOK, inRange]

/-- **simulate_indices, dense, every stream.**  Square cdf array, acceptable request, `ts ≥ 1`, a
    `(k, ts−1)` array of arbitrary values: the call returns the documented shape; every path has
    length `ts`, starts at its requested state, has all entries `< n` and follows the kernel step. -/
theorem simulate_indices_valid_dense [LT α] [DecidableLT α] [BEq α] (cdfs : List (List α))
    (hsq : ∀ row ∈ cdfs, row.length = cdfs.length)
    (init : Init) (reps : Option Nat) (drawn : List Nat) (ts : Nat) (us : List (List α))
    (hok : InitOK cdfs.length init reps)
    (hdrawn : init = .none → docK init reps ≤ drawn.length ∧ ∀ d ∈ drawn, d < cdfs.length)
    (hts : 0 < ts) (hk : us.length = docK init reps) (hrow : ∀ r ∈ us, r.length + 1 = ts) :
    ∃ ps, simulateIndices cdfs.length (pathDense cdfs) init reps drawn ts us
        = .ok (some ⟨docDim init reps, ps⟩) ∧
      ps.length = docK init reps ∧
      ∀ j, j < docK init reps → ∃ p s0 u, ps[j]? = some p ∧ us[j]? = some u ∧
        requested cdfs.length drawn init j = some s0 ∧ IsPathOf (denseStep cdfs) s0 u p ∧
        p.length = ts ∧ ∀ x ∈ p, x < cdfs.length :=
  simulateIndices_valid cdfs.length (denseStep cdfs) (fun s u hs => denseStep_lt cdfs hsq s u hs)
    init reps drawn ts us hok hdrawn hts hk hrow

/-- **simulate_indices, CSR, every stream.** -/
theorem simulate_indices_valid_sparse [LT α] [DecidableLT α] [BEq α] (n : Nat) (c1d : List α)
    (indices indptr : List Nat) (hcsr : CsrOK n c1d indices indptr)
    (init : Init) (reps : Option Nat) (drawn : List Nat) (ts : Nat) (us : List (List α))
    (hok : InitOK n init reps)
    (hdrawn : init = .none → docK init reps ≤ drawn.length ∧ ∀ d ∈ drawn, d < n)
    (hts : 0 < ts) (hk : us.length = docK init reps) (hrow : ∀ r ∈ us, r.length + 1 = ts) :
    ∃ ps, simulateIndices n (pathSparse c1d indices indptr) init reps drawn ts us
        = .ok (some ⟨docDim init reps, ps⟩) ∧
      ps.length = docK init reps ∧
      ∀ j, j < docK init reps → ∃ p s0 u, ps[j]? = some p ∧ us[j]? = some u ∧
        requested n drawn init j = some s0 ∧ IsPathOf (sparseStep c1d indices indptr) s0 u p ∧
        p.length = ts ∧ ∀ x ∈ p, x < n :=
  simulateIndices_valid n (sparseStep c1d indices indptr)
    (fun s u hs => sparseStep_lt n c1d indices indptr hcsr s u hs)
    init reps drawn ts us hok hdrawn hts hk hrow

example : (match simulateIndices 2 (pathDense ([[1, 4], [4, 4]] : List (List Int))) (.arr [-1, 0]) (some 1) [] 3
    [[0, 4], [3, 9]] with | .ok (some r) => r.paths | _ => []) = [[1, 0, 1], [0, 1, 0]] := by decide +kernel

/-- **`simulate`** (`get_index` with `state_values=None`, then `simulate_indices`): identical to
    `simulate_indices` when every requested value is an existing state `0 ≤ i < n`, and a
    `ValueError` otherwise — negative indices are not state values. -/
theorem simulate_spec (n : Nat) (f : Nat → List α → Option (List Nat)) (init : Init)
    (reps : Option Nat) (drawn : List Nat) (ts : Nat) (us : List (List α)) :
    (InitNonneg n init → simulate n f init reps drawn ts us = simulateIndices n f init reps drawn ts us) ∧
    (¬ InitNonneg n init → simulate n f init reps drawn ts us = .error .valueError) :=
  simulate_eq n f init reps drawn ts us

example : InitNonneg 3 (.arr [0, 2]) := by simp [InitNonneg]
example : ¬ InitNonneg 3 (.scalar (-1)) := by simp [InitNonneg]

/-- **mc_sample_path, every stream.** `P` square; `init` a state in `[0, n)` or an initial
    distribution of length `n` (then `X_0 = searchsorted_cdf(cumsum init, u_0)`, a state for *every*
    `u_0`); `sample_size = ts ≥ 1`.  The result is one path of length `ts` starting at `X_0`, inside
    the state space, following the dense kernel step. -/
theorem mc_sample_path_valid [Add α] [LT α] [DecidableLT α] [BEq α] (P : List (List α))
    (hsq : ∀ row ∈ P, row.length = P.length) (init : McInit α)
    (hinit : match init with
      | .state i => 0 ≤ i ∧ i < (P.length : Int)
      | .dist d _ => d.length = P.length ∧ d ≠ [])
    (ts : Nat) (hts : 0 < ts) (u : List α) (hu : u.length + 1 = ts) :
    ∃ p, mcSamplePath P init ts [u] = .ok (some ⟨1, [p]⟩) ∧ p.length = ts ∧
      p[0]? = some (mcX0 init).toNat ∧ (∀ x ∈ p, x < P.length) ∧
      IsPathOf (denseStep (cdfsDense P)) (mcX0 init).toNat u p :=
  mcSamplePath_valid P hsq init hinit ts hts u hu

example : (match mcSamplePath ([[1, 3], [0, 4]] : List (List Int)) (.dist [2, 2] 3) 3 [[2, 0]] with
    | .ok (some r) => r.paths | _ => []) = [[1, 1, 1]] := by decide +kernel

/-! ## 5. `DiscreteRV.draw` and `random.draw` -/

/-- **`random.draw`**: one index per uniform, each in `range(len cdf)` — any `cdf ≠ []`, any values. -/
theorem draw_valid [LT α] [DecidableLT α] [BEq α] (cdf us : List α) (hne : cdf ≠ []) :
    (draw cdf us).length = us.length ∧ ∀ x ∈ draw cdf us, 0 ≤ x ∧ x < (cdf.length : Int) :=
  ⟨draw_length cdf us, draw_in_range cdf us hne⟩

/-- **`DiscreteRV.draw`, range, every stream** (only irreflexivity of `<` is assumed): one index
    per uniform, each `< len q`; no `IndexError` for nonempty `q`. -/
theorem drv_draw_in_range [Add α] [LT α] [DecidableLT α] (hirr : ∀ x : α, ¬ x < x) (q us : List α)
    (hne : q ≠ []) :
    ∃ idx, drvDraw q us = some idx ∧ idx.length = us.length ∧ ∀ j ∈ idx, j < q.length :=
  drvDraw_in_range hirr q us hne

/-- **`DiscreteRV.draw` = inverse CDF with positive mass.** For nonnegative `q` with positive total,
    monotone accumulation and uniforms `≥ 0`, the NumPy-based draw returns exactly
    `searchsorted_cdf(cumsum q, u)` for each `u` (so `step_inverse_cdf` describes it), and every
    returned index carries positive mass. -/
theorem drv_draw_valid [LinearOrder α] [Add α] [Zero α] (hadd0 : ∀ x : α, x + 0 = x)
    (hmono : ∀ x p : α, 0 ≤ p → x ≤ x + p) (q us : List α) (hq : ∀ x ∈ q, (0 : α) ≤ x)
    (hne : q ≠ []) (hlast : 0 < (cumsum q).getLast (cumsum_ne_nil hne)) (hus : ∀ u ∈ us, (0 : α) ≤ u) :
    drvDraw q us = some (us.map (searchsortedCdf (cumsum q))) ∧
    ∀ u ∈ us, ∃ h : searchsortedCdf (cumsum q) u < q.length, 0 < q[searchsortedCdf (cumsum q) u] :=
  drvDraw_valid hadd0 hmono q us hq hne hlast hus

example : drvDraw ([2, 0, 5, 0] : List Int) [0, 1, 2, 6, 7, 100] = some [0, 0, 2, 2, 2, 2] := by
  decide +kernel

/-! ## 6. the CSR arrays: `cdfs1d` -/

/-- **`cdfs1d` is the row-wise cumulative sum.** For a canonical CSR structure (`CsrCanon`) the
    model of `MarkovChain.cdfs1d` has the length of `data`, its slice for row `s` is
    `cumsum(data[indptr[s]:indptr[s+1]])`, and together with `indices`, `indptr` it satisfies the
    precondition `CsrOK` of `path_valid_sparse`. -/
theorem cdfs1d_spec [Add α] {n : Nat} {data : List α} {indices indptr : List Nat}
    (h : CsrCanon n data indices indptr) :
    (cdfs1d data indptr n).length = data.length ∧
    (∀ s, s < n → slice (cdfs1d data indptr n) (indptr.getD s 0) (indptr.getD (s + 1) 0)
        = cumsum (slice data (indptr.getD s 0) (indptr.getD (s + 1) 0))) ∧
    CsrOK n (cdfs1d data indptr n) indices indptr :=
  ⟨cdfs1d_length h, fun s hs => cdfs1d_slice h s hs, h.csrOK⟩

/-- **Only positive-probability transitions along the whole path (CSR).**  Canonical CSR arrays,
    nonnegative stored masses, positive row totals, every `u ≥ 0`: each transition `a → b` of the
    returned path goes to the column `b = indices[q]` of an entry `q` stored in row `a`
    (`indptr[a] ≤ q < indptr[a+1]`) with `data[q] > 0`, and `q − indptr[a]` is the
    `searchsorted_cdf` image of `us[t]` in the cumulative sums of the row's stored masses
    (described by `step_inverse_cdf`). -/
theorem path_transitions_positive_sparse [LinearOrder α] [Add α] [Zero α]
    (hadd0 : ∀ x : α, x + 0 = x) {n : Nat} {data : List α} {indices indptr : List Nat}
    (h : CsrCanon n data indices indptr) (hnn : ∀ x ∈ data, (0 : α) ≤ x)
    (htot : ∀ s, s < n → ∀ hc : rowCum data indptr s ≠ [], 0 < (rowCum data indptr s).getLast hc)
    (init : Nat) (hinit : init < n) (us : List α) (hus : ∀ u ∈ us, (0 : α) ≤ u) :
    ∃ p, pathSparse (cdfs1d data indptr n) indices indptr init us = some p ∧
      p.length = us.length + 1 ∧ p[0]? = some init ∧ (∀ x ∈ p, x < n) ∧
      ∀ t (ht : t < us.length), ∃ a b q, ∃ (hd : q < data.length) (hi : q < indices.length),
        p[t]? = some a ∧ p[t + 1]? = some b ∧ indptr.getD a 0 ≤ q ∧ q < indptr.getD (a + 1) 0 ∧
        q = indptr.getD a 0 +
          searchsortedCdf (cumsum (slice data (indptr.getD a 0) (indptr.getD (a + 1) 0))) us[t] ∧
        indices[q] = b ∧ 0 < data[q] := by
  obtain ⟨p, hp, ⟨hlen, hhead, hfol⟩, hall⟩ :=
    path_valid_sparse n (cdfs1d data indptr n) indices indptr h.csrOK init hinit us
  refine ⟨p, hp, hlen, hhead, hall, ?_⟩
  intro t ht
  obtain ⟨a, b, ha, hb, hab⟩ := hfol t ht
  have han : a < n := hall a (List.mem_of_getElem? ha)
  obtain ⟨k, hk, hd, hi, hkeq, hstep, hpos⟩ :=
    sparseStep_mass_pos hadd0 h hnn htot a han us[t] (hus _ (List.getElem_mem ht))
  rw [hstep] at hab
  exact ⟨a, b, indptr.getD a 0 + k, hd, hi, ha, hb, by omega, hk, by rw [hkeq], Option.some.inj hab, hpos⟩

/-- non-vacuity of `CsrCanon` (a 2×2 matrix with an explicitly stored zero and unsorted columns) -/
example : CsrCanon 2 ([3, 1, 0, 3] : List Int) [1, 0, 1, 0] [0, 1, 4] where
  len := rfl
  start := rfl
  mono := by intro s hs; have : s = 0 ∨ s = 1 := by omega
             rcases this with rfl | rfl <;> decide
  total := rfl
  ilen := rfl
  cols := by decide
example : cdfs1d ([3, 1, 0, 3] : List Int) [0, 1, 4] 2 = [3, 1, 1, 4] := by decide

/-! ## 7. no read outside the arrays; hypotheses in terms of `P` only -/

/-- **The searches never read outside their array.** `ssLoopC`, `searchsortedCdfC` are
    `searchsorted` / `searchsorted_cdf` with *aborting* reads (`none` as soon as an index is out of
    range); for every array and every value they terminate normally with the model's result, so the
    default branches of the model's totalised reads are dead code. (The row / `indices` / `indptr`
    reads of the kernels abort in the model itself: `pathDense`, `pathSparse` return `some`.) -/
theorem no_read_outside_search [LT α] [DecidableLT α] [BEq α] (cdf : List α) (v : α) :
    ssLoopC cdf v 0 cdf.length = some (searchsorted cdf v) ∧
    (cdf ≠ [] → searchsortedCdfC cdf v = some (searchsortedCdf cdf v)) :=
  searchsorted_reads_in_range cdf v

/-- a nonnegative row with one positive entry has a positive last cumulative sum (monotone
    accumulation in both arguments; true of IEEE addition) — this discharges the hypothesis
    `hlast`/`htot` of the positivity theorems from what the constructor checks -/
theorem row_total_positive [LinearOrder α] [Add α] [Zero α]
    (hmono : ∀ x p : α, 0 ≤ p → x ≤ x + p) (hmono' : ∀ x p : α, 0 ≤ x → p ≤ x + p)
    (l : List α) (hl : ∀ x ∈ l, (0 : α) ≤ x) (hex : ∃ x ∈ l, (0 : α) < x)
    (hne : cumsum l ≠ []) : 0 < (cumsum l).getLast hne :=
  cumsum_getLast_pos hmono hmono' l hl hex hne

/-- **The dense path follows the transition law — exact arithmetic instance.**  `P` a square
    matrix of nonnegative rationals in which every row has a positive entry (e.g. rows summing to
    one), `init < n`, uniforms `≥ 0` (and otherwise arbitrary: no `u < 1` needed): the path returned
    for `MarkovChain.cdfs = cdfsDense P` starts at `init`, has `len us + 1` entries, all `< n`, and
    every transition `a → b` in it has `P[a][b] > 0`. -/
theorem path_follows_transition_law_dense_rat (P : List (List Rat))
    (hsq : ∀ row ∈ P, row.length = P.length)
    (hnn : ∀ row ∈ P, ∀ x ∈ row, (0 : Rat) ≤ x)
    (hex : ∀ row ∈ P, ∃ x ∈ row, (0 : Rat) < x)
    (init : Nat) (hinit : init < P.length) (us : List Rat) (hus : ∀ u ∈ us, (0 : Rat) ≤ u) :
    ∃ p, pathDense (cdfsDense P) init us = some p ∧ p.length = us.length + 1 ∧ p[0]? = some init ∧
      (∀ x ∈ p, x < P.length) ∧
      ∀ t, t < us.length → ∃ a b, ∃ (ha : a < P.length) (hb : b < P[a].length),
        p[t]? = some a ∧ p[t + 1]? = some b ∧ 0 < P[a][b] :=
  path_transitions_positive_dense (fun x => add_zero x) P hsq hnn
    (fun row hr hc => cumsum_getLast_pos (fun _ _ hp => le_add_of_nonneg_right hp)
      (fun _ _ hx => le_add_of_nonneg_left hx) row (hnn row hr) (hex row hr) hc)
    init hinit us hus

/-- non-vacuity: a 2-state stochastic matrix over `Rat` with a zero entry -/
example : ∀ row ∈ ([[1/2, 1/2], [1, 0]] : List (List Rat)), ∃ x ∈ row, (0 : Rat) < x := by
  intro row hr
  simp only [List.mem_cons, List.not_mem_nil, or_false] at hr
  rcases hr with rfl | rfl
  · exact ⟨1/2, by simp, by decide +kernel⟩
  · exact ⟨1, by simp, by decide +kernel⟩

/-! ## 8. refusals, state values, and the statements at `Float` -/

/-- **When `simulate_indices` refuses.** It raises — always `ValueError` — exactly when a requested
    initial state is outside `[-n, n)` (or `init=None` on an empty state space) or `ts_length = 0`;
    the random stream plays no role in this. -/
theorem simulate_indices_refused_iff (n : Nat) (f : Nat → List α → Option (List Nat)) (init : Init)
    (reps : Option Nat) (drawn : List Nat) (ts : Nat) (us : List (List α)) :
    ((∃ e, simulateIndices n f init reps drawn ts us = .error e) ↔ (¬ InitOK n init reps ∨ ts = 0)) ∧
    ∀ e, simulateIndices n f init reps drawn ts us = .error e → e = .valueError :=
  simulateIndices_error_iff n f init reps drawn ts us

/-- **Value look-up of `simulate`** on a chain with 1-D `state_values`: a value that is not a state
    value is refused; otherwise the *first* position holding it is used. -/
theorem state_value_lookup (sv : List Int) (v : Int) :
    (v ∉ sv → getIndexSV sv (.scalar v) = .error .valueError) ∧
    (v ∈ sv → ∃ i, getIndexSV sv (.scalar v) = .ok (.scalar (Int.ofNat i)) ∧
      ∃ h : i < sv.length, sv[i] = v ∧ ∀ j (hj : j < i), sv[j] ≠ v) :=
  getIndexSV_scalar sv v

example : getIndexSV [7, 3, 7] (.scalar 7) = .ok (.scalar 0) := by rfl
example : getIndexSV [7, 3, 7] (.scalar 5) = .error .valueError := by rfl

/-- **`simulate` with state values returns state values.** If the look-up succeeds and
    `simulate_indices` returns paths inside `range(len state_values)` (which
    `simulate_indices_valid_dense/sparse` guarantee when `len state_values = n`), the result is the
    entry-wise annotation `state_values[X]` with the same `dim`, and every entry is a state value. -/
theorem simulate_with_state_values (sv : List Int) (n : Nat) (f : Nat → List α → Option (List Nat))
    (init i : Init) (reps : Option Nat) (drawn : List Nat) (ts : Nat) (us : List (List α)) (r : SimRes)
    (hlook : getIndexSV sv init = .ok i)
    (hsim : simulateIndices n f i reps drawn ts us = .ok (some r))
    (hin : ∀ p ∈ r.paths, ∀ s ∈ p, s < sv.length) :
    simulateSV sv n f init reps drawn ts us
      = .ok (some (r.dim, r.paths.map fun p => p.map fun s => sv.getD s 0)) ∧
    ∀ p ∈ r.paths, ∀ s ∈ p, sv.getD s 0 ∈ sv := by
  obtain ⟨h1, h2⟩ := annotate_spec sv r.paths hin
  refine ⟨?_, h2⟩
  unfold simulateSV
  rw [hlook]
  simp only [hsim, h1, Option.map_some]

/-- The range statements are about the very instance the driver runs against the code's bits:
    at `Float` (NaN, ±∞ and unsorted rows included) the dense kernel's path exists, has the right
    length, starts at `init` and stays below `n`, for every list of doubles. -/
example (cdfs : List (List Float)) (hsq : ∀ row ∈ cdfs, row.length = cdfs.length) (init : Nat)
    (hinit : init < cdfs.length) (us : List Float) :
    ∃ p, pathDense cdfs init us = some p ∧ p.length = us.length + 1 ∧ p[0]? = some init ∧
      ∀ x ∈ p, x < cdfs.length := by
  obtain ⟨p, h1, h2, h3, h4, _⟩ := path_valid_dense cdfs hsq init hinit us
  exact ⟨p, h1, h2, h3, h4⟩

example (n : Nat) (c1d : List Float) (indices indptr : List Nat) (hok : CsrOK n c1d indices indptr)
    (init : Nat) (hinit : init < n) (us : List Float) :
    ∃ p, pathSparse c1d indices indptr init us = some p ∧ ∀ x ∈ p, x < n := by
  obtain ⟨p, h1, _, h3⟩ := path_valid_sparse n c1d indices indptr hok init hinit us
  exact ⟨p, h1, h3⟩

example (cdf us : List Float) (hne : cdf ≠ []) : ∀ x ∈ draw cdf us, 0 ≤ x ∧ x < (cdf.length : Int) :=
  (draw_valid cdf us hne).2

/-! ## 9. every chain the constructor accepts -/

/-- **The constructor's checks** (`MarkovChain.__init__`, exact-arithmetic reading): accepted iff
    square, nonnegative, and every row sum within `1e-8 + 1e-5` of one. -/
theorem constructor_accepts_iff (P : List (List Rat)) :
    acceptChain P = .ok () ↔
      (∀ r ∈ P, r.length = P.length) ∧ (∀ r ∈ P, ∀ x ∈ r, (0 : Rat) ≤ x) ∧
      (∀ r ∈ P, closeToOne (rsum r) = true) :=
  acceptChain_ok_iff P

/-- **Headline (exact arithmetic).**  For *every* matrix the constructor accepts — rows need only
    sum to one within the tolerance, may contain zeros anywhere —, every initial state and every
    stream of nonnegative numbers (however close to, or beyond, 1), the dense kernel returns a path
    of the documented length that starts at `init`, stays in the state space, never reads outside the
    cdf array, and moves only along transitions of positive probability. -/
theorem accepted_chain_path_follows_law (P : List (List Rat)) (hacc : acceptChain P = .ok ())
    (init : Nat) (hinit : init < P.length) (us : List Rat) (hus : ∀ u ∈ us, (0 : Rat) ≤ u) :
    ∃ p, pathDense (cdfsDense P) init us = some p ∧ p.length = us.length + 1 ∧ p[0]? = some init ∧
      (∀ x ∈ p, x < P.length) ∧
      ∀ t, t < us.length → ∃ a b, ∃ (ha : a < P.length) (hb : b < P[a].length),
        p[t]? = some a ∧ p[t + 1]? = some b ∧ 0 < P[a][b] := by
  obtain ⟨h1, h2, _⟩ := (acceptChain_ok_iff P).mp hacc
  exact path_follows_transition_law_dense_rat P h1 h2 (accepted_row_has_pos P hacc) init hinit us hus

/-- non-vacuity: a deficient row (`0.3 + 0.699995`, trailing zeros) is accepted; an all-zero row is not -/
example : acceptChain [[3/10, 699995/1000000, 0], [0, 1, 0], [1/3, 1/3, 1/3]] = .ok () := by
  decide +kernel
example : acceptChain [[0, 0], [1/2, 1/2]] = .error .valueError := by decide +kernel

/-! ## 10. rounded arithmetic -/

/-- **The dense path follows the transition law under any monotone idempotent rounding.**
    `R : Rounding` is an arbitrary monotone, idempotent map of ℚ onto a set of representable numbers
    containing 0 (IEEE-754 round-to-nearest on the finite range is one), `Fl R` the representable
    numbers with the rounded addition `rnd (x + y)` — which is what `np.cumsum` performs.  For a square
    matrix of nonnegative representable numbers in which every row has a positive entry, every
    `init < n` and every stream of nonnegative representable numbers: the kernel on
    `cdfs = cdfsDense P` (cumulative sums computed *with rounding*) returns a path of length
    `len us + 1` from `init`, inside the state space, whose every transition `a → b` has
    `P[a][b] > 0`.  So rounding in the cumulative sums can never lead to a zero-probability state
    or out of the state space. -/
theorem path_follows_transition_law_dense_rounded (R : Rounding) (P : List (List (Fl R)))
    (hsq : ∀ row ∈ P, row.length = P.length)
    (hnn : ∀ row ∈ P, ∀ x ∈ row, (0 : Fl R) ≤ x)
    (hex : ∀ row ∈ P, ∃ x ∈ row, (0 : Fl R) < x)
    (init : Nat) (hinit : init < P.length) (us : List (Fl R)) (hus : ∀ u ∈ us, (0 : Fl R) ≤ u) :
    ∃ p, pathDense (cdfsDense P) init us = some p ∧ p.length = us.length + 1 ∧ p[0]? = some init ∧
      (∀ x ∈ p, x < P.length) ∧
      ∀ t, t < us.length → ∃ a b, ∃ (ha : a < P.length) (hb : b < P[a].length),
        p[t]? = some a ∧ p[t + 1]? = some b ∧ 0 < P[a][b] :=
  path_transitions_positive_dense Fl.add_zero' P hsq hnn
    (fun row hr hc => cumsum_getLast_pos Fl.le_add_right' Fl.le_add_left' row (hnn row hr) (hex row hr) hc)
    init hinit us hus

/-- the inverse-CDF characterisation under the same rounding model -/
theorem step_inverse_cdf_rounded (R : Rounding) (p : List (Fl R)) (u : Fl R)
    (hp : ∀ x ∈ p, (0 : Fl R) ≤ x) (hne : p ≠ []) :
    let cdf := cumsum p
    let j := searchsortedCdf cdf u
    (u < cdf.getLast (cumsum_ne_nil hne) →
      j ≤ cdf.length ∧ (∀ i (h : i < cdf.length), i < j → cdf[i] ≤ u) ∧
        (∀ i (h : i < cdf.length), j ≤ i → u < cdf[i])) ∧
    (cdf.getLast (cumsum_ne_nil hne) ≤ u →
      ∃ hj : j < cdf.length, cdf[j] = cdf.getLast (cumsum_ne_nil hne) ∧
        ∀ i (h : i < cdf.length), i < j → cdf[i] < cdf.getLast (cumsum_ne_nil hne)) :=
  step_inverse_cdf Fl.le_add_right' p u hp hne

/-- non-vacuity: exact arithmetic is a `Rounding`, and so is rounding down to multiples of `1/8`,
    which is lossy (`3/16 ↦ 1/8`) -/
example : Rounding := Rounding.exact
example : Rounding := Rounding.floor8
example : Rounding.floor8.rnd (3 / 16) = 1 / 8 := floor8_lossy

/-- **simulate_indices on a sparse chain, from the CSR arrays themselves.**  Composition of
    `cdfs1d_spec` and `simulate_indices_valid_sparse`: canonical CSR arrays (`CsrCanon`), the model's
    `cdfs1d`, an acceptable request, `ts ≥ 1`, any `(k, ts−1)` array: documented shape, every path
    starts at its requested state, stays below `n` and follows the CSR step. -/
theorem simulate_indices_valid_sparse_canon [Add α] [LT α] [DecidableLT α] [BEq α] {n : Nat}
    {data : List α} {indices indptr : List Nat} (hc : CsrCanon n data indices indptr)
    (init : Init) (reps : Option Nat) (drawn : List Nat) (ts : Nat) (us : List (List α))
    (hok : InitOK n init reps)
    (hdrawn : init = .none → docK init reps ≤ drawn.length ∧ ∀ d ∈ drawn, d < n)
    (hts : 0 < ts) (hk : us.length = docK init reps) (hrow : ∀ r ∈ us, r.length + 1 = ts) :
    ∃ ps, simulateIndices n (pathSparse (cdfs1d data indptr n) indices indptr) init reps drawn ts us
        = .ok (some ⟨docDim init reps, ps⟩) ∧
      ps.length = docK init reps ∧
      ∀ j, j < docK init reps → ∃ p s0 u, ps[j]? = some p ∧ us[j]? = some u ∧
        requested n drawn init j = some s0 ∧
        IsPathOf (sparseStep (cdfs1d data indptr n) indices indptr) s0 u p ∧
        p.length = ts ∧ ∀ x ∈ p, x < n :=
  simulate_indices_valid_sparse n (cdfs1d data indptr n) indices indptr hc.csrOK
    init reps drawn ts us hok hdrawn hts hk hrow

/-- **The CSR path follows the transition law — exact arithmetic instance**, hypotheses on the
    matrix only: canonical CSR arrays over `Rat`, nonnegative stored masses, a positive stored mass in
    every row (what the constructor's row-sum test guarantees), `init < n`, uniforms `≥ 0`.  Every
    transition `a → b` of the returned path uses an entry `q` stored in row `a` with column `b`,
    `data[q] > 0`, at the `searchsorted_cdf` position of the row's cumulative sums. -/
theorem path_follows_transition_law_sparse_rat {n : Nat} {data : List Rat} {indices indptr : List Nat}
    (h : CsrCanon n data indices indptr) (hnn : ∀ x ∈ data, (0 : Rat) ≤ x)
    (hex : ∀ s, s < n → ∃ x ∈ slice data (indptr.getD s 0) (indptr.getD (s + 1) 0), (0 : Rat) < x)
    (init : Nat) (hinit : init < n) (us : List Rat) (hus : ∀ u ∈ us, (0 : Rat) ≤ u) :
    ∃ p, pathSparse (cdfs1d data indptr n) indices indptr init us = some p ∧
      p.length = us.length + 1 ∧ p[0]? = some init ∧ (∀ x ∈ p, x < n) ∧
      ∀ t (ht : t < us.length), ∃ a b q, ∃ (hd : q < data.length) (hi : q < indices.length),
        p[t]? = some a ∧ p[t + 1]? = some b ∧ indptr.getD a 0 ≤ q ∧ q < indptr.getD (a + 1) 0 ∧
        q = indptr.getD a 0 +
          searchsortedCdf (cumsum (slice data (indptr.getD a 0) (indptr.getD (a + 1) 0))) us[t] ∧
        indices[q] = b ∧ 0 < data[q] :=
  path_transitions_positive_sparse (fun x => add_zero x) h hnn
    (fun s hs hc => cumsum_getLast_pos (fun _ _ hp => le_add_of_nonneg_right hp)
      (fun _ _ hx => le_add_of_nonneg_left hx) _
      (fun x hx => hnn x (by unfold slice at hx; exact List.mem_of_mem_drop (List.mem_of_mem_take hx)))
      (hex s hs) hc)
    init hinit us hus

/-! ## 11. histories on one object; argument forms -/

/-- **History theorem.**  Let `h` be any sequence of `state_values` assignments and
    `simulate`/`simulate_indices` calls on one chain object starting from `state_values = sv0`, and
    `op` a further operation.  The outputs of `h ++ [op]` are those of `h` followed by the output of
    `op` executed on the *current* `state_values` — and those current values are the fold of the setter
    over the assignments of `h` alone (`svOnly`): they do not depend on the chain, on which calls were
    made before, on their arguments, or on any random number.  So every call depends only on
    `(P, current state_values, its arguments, its uniforms)`: there is no hidden per-object memory
    (e.g. a value→index table surviving a re-assignment). -/
theorem history_call_depends_only_on_current_state (n : Nat) (f : Nat → List α → Option (List Nat))
    (sv0 : Option (List Int)) (h : List (HOp α)) (op : HOp α) :
    runH n f sv0 (h ++ [op]) = runH n f sv0 h ++ [(stepH n f (svOnly n sv0 (assignments h)) op).2] ∧
    finalSV n f sv0 h = svOnly n sv0 (assignments h) := by
  rw [runH_append, finalSV_eq_svOnly]
  exact ⟨rfl, rfl⟩

/-- two histories (on the same chain) that end with the same `state_values` answer the next call
    identically -/
theorem same_state_values_same_answer (n : Nat) (f : Nat → List α → Option (List Nat))
    (sv1 sv2 : Option (List Int)) (h1 h2 : List (HOp α)) (op : HOp α)
    (heq : svOnly n sv1 (assignments h1) = svOnly n sv2 (assignments h2)) :
    (runH n f sv1 (h1 ++ [op])).getLast? = (runH n f sv2 (h2 ++ [op])).getLast? := by
  rw [(history_call_depends_only_on_current_state n f sv1 h1 op).1,
      (history_call_depends_only_on_current_state n f sv2 h2 op).1, heq]
  simp

/-- what one call returns, by cases on the current `state_values`: `simulate_indices` ignores them;
    `simulate` without state values is the index version behind `get_index`; `simulate` with state
    values is `simulateSV` on exactly those values (`simulate_with_state_values` describes it);
    and a call never changes the state. -/
theorem call_semantics (n : Nat) (f : Nat → List α → Option (List Nat)) (sv : Option (List Int))
    (a : InitArg) (i : Init) (l : List Int) (reps : Option Nat) (drawn : List Nat) (ts : Nat)
    (us : List (List α)) :
    (stepH n f sv (.call false a reps drawn ts us)).2 = .idx (simulateIndicesA n f a reps drawn ts us) ∧
    (stepH n f none (.call true a reps drawn ts us)).2 = .idx (simulateA n f a reps drawn ts us) ∧
    (stepH n f (some l) (.call true (.ok i) reps drawn ts us)).2
      = .vals (simulateSV l n f i reps drawn ts us) ∧
    ∀ via, (stepH n f sv (.call via a reps drawn ts us)).1 = sv :=
  ⟨rfl, rfl, rfl, fun via => stepH_call_state n f sv via a reps drawn ts us⟩

/-- **Argument forms of `init`.** Every `numbers.Integral` scalar and every array-like of such is
    the plain request (`.ok`); a scalar that is not `numbers.Integral` (0-d array, `np.bool_`, `float`)
    is refused by both entry points; an array whose elements are not `Integral` after `np.asarray`
    (bool / float arrays) is an ordinary index array for `simulate_indices` and is refused by
    `simulate` unless empty. -/
theorem init_forms_spec (n : Nat) (f : Nat → List α → Option (List Nat)) (i : Init) (l : List Int)
    (reps : Option Nat) (drawn : List Nat) (ts : Nat) (us : List (List α)) :
    simulateIndicesA n f (.ok i) reps drawn ts us = simulateIndices n f i reps drawn ts us ∧
    simulateA n f (.ok i) reps drawn ts us = simulate n f i reps drawn ts us ∧
    simulateIndicesA n f .nonIntegral reps drawn ts us = .error .valueError ∧
    simulateA n f .nonIntegral reps drawn ts us = .error .valueError ∧
    simulateIndicesA n f (.arrNI l) reps drawn ts us = simulateIndices n f (.arr l) reps drawn ts us ∧
    (l ≠ [] → simulateA n f (.arrNI l) reps drawn ts us = .error .valueError) := by
  refine ⟨rfl, rfl, rfl, rfl, rfl, ?_⟩
  intro hl
  cases l with
  | nil => exact absurd rfl hl
  | cons _ _ => rfl

/-- non-vacuity: after assigning a permuted labelling the same value starts at its new position -/
example : (runH 2 (pathDense ([[1, 4], [4, 4]] : List (List Int))) (some [7, 9])
    [.call true (.ok (.scalar 9)) none [] 1 [[]], .setSV (some [9, 7]),
     .call true (.ok (.scalar 9)) none [] 1 [[]]]).length = 3 := by rfl
example : svOnly 2 (some [7, 9]) (assignments
    ([.call true (.ok (.scalar 9)) none [] 1 [[]], .setSV (some [9, 7, 1]), .setSV (some [9, 7])] : List (HOp Int)))
    = some [9, 7] := by rfl

/-- **History theorem for `DiscreteRV`.**  After any sequence `h` of assignments to `.q` and draws,
    a further `draw` with uniforms `us` returns `drvDraw q' us` where `q'` is the *last assigned* vector
    (`lastQ`: the initial one if none was assigned) — independent of every earlier draw and of the
    uniforms used in them; `Q` is never anything but `cumsum q'`. -/
theorem drv_history (q0 : List α) [Add α] [LT α] [DecidableLT α] (h : List (DOp α)) (us : List α) :
    runD q0 (h ++ [.draw us]) = runD q0 h ++ [some (drvDraw (lastQ q0 h) us)] ∧
    drvDraw (lastQ q0 h) us = drvDrawQ (cumsum (lastQ q0 h)) us := by
  rw [runD_append, finalQ_eq_lastQ]
  exact ⟨rfl, rfl⟩

example : runD ([1, 1] : List Int) [.draw [0, 1], .setQ [0, 3], .draw [0, 1]]
    = [some (some [0, 1]), none, some (some [1, 1])] := by decide +kernel

/-! ## 12. the whole of `simulate_indices` follows the transition law; prefix property -/

/-- **A longer simulation extends the shorter one.** If the kernel returns `p` along `us`, then along
    `us ++ vs` it returns `p` continued, from the last state of `p`, by the path along `vs` (and fails
    exactly if that continuation fails): the first `t+1` states depend only on the first `t` uniforms. -/
theorem path_prefix (step : Nat → α → Option Nat) (us vs : List α) (s : Nat) (p : List Nat)
    (hp : pathFrom step s us = some p) :
    ∃ last, p.getLast? = some last ∧
      pathFrom step s (us ++ vs) = (pathFrom step last vs).map fun q => p.dropLast ++ q :=
  pathFrom_append step us vs s p hp

example : pathDense ([[1, 4], [4, 4]] : List (List Int)) 0 [0, 4] = some [0, 0, 1] ∧
    pathDense ([[1, 4], [4, 4]] : List (List Int)) 0 ([0, 4] ++ [2]) = some ([0, 0] ++ [1, 0]) := by
  decide +kernel

/-- the trajectory is unique: any list that starts at `s` and follows the step along `us` is the one
    the kernel returns -/
theorem path_unique (step : Nat → α → Option Nat) (s : Nat) (us : List α) (p p' : List Nat)
    (h : IsPathOf step s us p) (h' : IsPathOf step s us p') : p = p' := h.unique h'

/-- **`simulate_indices` (dense), every path, full clause.**  `P` square, nonnegative entries, positive
    row totals; an acceptable request; `ts ≥ 1`; a `(k, ts−1)` array of nonnegative numbers.  Then the
    call succeeds with the documented `dim` and `k`, and **every** one of the `k` paths has length `ts`,
    starts at its requested state, stays in the state space, and moves only along transitions of
    positive probability. Only `x + 0 = x` is used about the addition. -/
theorem simulate_indices_follows_law_dense [LinearOrder α] [Add α] [Zero α]
    (hadd0 : ∀ x : α, x + 0 = x) (P : List (List α))
    (hsq : ∀ row ∈ P, row.length = P.length)
    (hnn : ∀ row ∈ P, ∀ x ∈ row, (0 : α) ≤ x)
    (htot : ∀ row ∈ P, ∀ h : cumsum row ≠ [], 0 < (cumsum row).getLast h)
    (init : Init) (reps : Option Nat) (drawn : List Nat) (ts : Nat) (us : List (List α))
    (hok : InitOK P.length init reps)
    (hdrawn : init = .none → docK init reps ≤ drawn.length ∧ ∀ d ∈ drawn, d < P.length)
    (hts : 0 < ts) (hk : us.length = docK init reps) (hrow : ∀ r ∈ us, r.length + 1 = ts)
    (hus : ∀ r ∈ us, ∀ u ∈ r, (0 : α) ≤ u) :
    ∃ ps, simulateIndices P.length (pathDense (cdfsDense P)) init reps drawn ts us
        = .ok (some ⟨docDim init reps, ps⟩) ∧
      ps.length = docK init reps ∧
      ∀ j, j < docK init reps → ∃ p s0, ps[j]? = some p ∧ requested P.length drawn init j = some s0 ∧
        p.length = ts ∧ p[0]? = some s0 ∧ (∀ x ∈ p, x < P.length) ∧
        ∀ t, t + 1 < ts → ∃ a b, ∃ (ha : a < P.length) (hb : b < P[a].length),
          p[t]? = some a ∧ p[t + 1]? = some b ∧ 0 < P[a][b] := by
  have hlenc : (cdfsDense P).length = P.length := by simp [cdfsDense]
  have h := simulate_indices_valid_dense (cdfsDense P) (cdfsDense_square P hsq) init reps drawn ts us
    (by rw [hlenc]; exact hok) (by rw [hlenc]; exact hdrawn) hts hk hrow
  rw [hlenc] at h
  obtain ⟨ps, hps, hlen, hall⟩ := h
  refine ⟨ps, hps, hlen, ?_⟩
  intro j hj
  obtain ⟨p, s0, u, hp, hu, hreq, hpath, hplen, hpall⟩ := hall j hj
  have hs0 : s0 < P.length := by
    have h0 := hpath.2.1
    exact hpall s0 (List.mem_of_getElem? h0)
  have hu_mem : u ∈ us := List.mem_of_getElem? hu
  obtain ⟨p', hp', hl', hh', ha', hf'⟩ :=
    path_transitions_positive_dense hadd0 P hsq hnn htot s0 hs0 u (hus u hu_mem)
  have hpp : p = p' := hpath.unique (pathFrom_isPathOf _ _ _ _ hp')
  subst hpp
  refine ⟨p, s0, hp, hreq, hplen, hh', hpall, ?_⟩
  intro t ht
  exact hf' t (by have := hrow u hu_mem; omega)

/-- **Every chain the constructor accepts: the whole of `simulate_indices`** (exact arithmetic).
    Accepted matrix, acceptable request, `ts ≥ 1`, nonnegative uniforms of the documented shape:
    documented `dim`/`k`; every path starts at its requested state (negative indices normalised, arrays
    tiled, drawn states for `None`), stays in the state space and uses only positive-probability
    transitions. -/
theorem accepted_chain_simulate_indices_follows_law (P : List (List Rat)) (hacc : acceptChain P = .ok ())
    (init : Init) (reps : Option Nat) (drawn : List Nat) (ts : Nat) (us : List (List Rat))
    (hok : InitOK P.length init reps)
    (hdrawn : init = .none → docK init reps ≤ drawn.length ∧ ∀ d ∈ drawn, d < P.length)
    (hts : 0 < ts) (hk : us.length = docK init reps) (hrow : ∀ r ∈ us, r.length + 1 = ts)
    (hus : ∀ r ∈ us, ∀ u ∈ r, (0 : Rat) ≤ u) :
    ∃ ps, simulateIndices P.length (pathDense (cdfsDense P)) init reps drawn ts us
        = .ok (some ⟨docDim init reps, ps⟩) ∧
      ps.length = docK init reps ∧
      ∀ j, j < docK init reps → ∃ p s0, ps[j]? = some p ∧ requested P.length drawn init j = some s0 ∧
        p.length = ts ∧ p[0]? = some s0 ∧ (∀ x ∈ p, x < P.length) ∧
        ∀ t, t + 1 < ts → ∃ a b, ∃ (ha : a < P.length) (hb : b < P[a].length),
          p[t]? = some a ∧ p[t + 1]? = some b ∧ 0 < P[a][b] := by
  obtain ⟨h1, h2, _⟩ := (acceptChain_ok_iff P).mp hacc
  exact simulate_indices_follows_law_dense (fun x => add_zero x) P h1 h2
    (fun row hr hc => cumsum_getLast_pos (fun _ _ hp => le_add_of_nonneg_right hp)
      (fun _ _ hx => le_add_of_nonneg_left hx) row (h2 row hr) (accepted_row_has_pos P hacc row hr) hc)
    init reps drawn ts us hok hdrawn hts hk hrow hus

/-- non-vacuity: two tiled paths on an accepted 2-state chain with a zero entry, negative init -/
example : acceptChain [[1/2, 1/2], [1, 0]] = .ok () := by decide +kernel
example : InitOK 2 (.arr [-1]) (some 2) := by simp [InitOK, inRange]
example : (match simulateIndices 2 (pathDense (cdfsDense ([[1/2, 1/2], [1, 0]] : List (List Rat)))) (.arr [-1])
    (some 2) [] 3 [[0, 3/4], [1/2, 0]] with | .ok (some r) => r.paths | _ => []) = [[1, 0, 1], [1, 0, 0]] := by
  decide +kernel

/-- **`mc_sample_path` on every accepted chain, full clause** (exact arithmetic).  `init` is a state
    in `[0, n)`, or an initial distribution of length `n` with nonnegative entries, one of them positive,
    and `u_0 ≥ 0`; `sample_size = ts ≥ 1`; `ts−1` nonnegative uniforms.  The call returns one path of
    length `ts`; it starts at the requested state, resp. at a state `X_0` that carries positive initial
    mass (`init[X_0] > 0`, the `searchsorted_cdf` image of `u_0`); it stays in the state space and every
    transition has positive probability. -/
theorem accepted_chain_mc_sample_path_follows_law (P : List (List Rat)) (hacc : acceptChain P = .ok ())
    (init : McInit Rat)
    (hinit : match init with
      | .state i => 0 ≤ i ∧ i < (P.length : Int)
      | .dist d u0 => d.length = P.length ∧ (∀ x ∈ d, (0 : Rat) ≤ x) ∧ (∃ x ∈ d, (0 : Rat) < x) ∧ 0 ≤ u0)
    (ts : Nat) (hts : 0 < ts) (u : List Rat) (hu : u.length + 1 = ts) (hus : ∀ x ∈ u, (0 : Rat) ≤ x) :
    ∃ (p : List Nat) (x0 : Nat), mcSamplePath P init ts [u] = .ok (some ⟨1, [p]⟩) ∧ p.length = ts ∧
      p[0]? = some x0 ∧
      (match init with
        | .state i => (x0 : Int) = i
        | .dist d u0 => x0 = searchsortedCdf (cumsum d) u0 ∧ ∃ h : x0 < d.length, 0 < d[x0]) ∧
      (∀ x ∈ p, x < P.length) ∧
      ∀ t, t + 1 < ts → ∃ a b, ∃ (ha : a < P.length) (hb : b < P[a].length),
        p[t]? = some a ∧ p[t + 1]? = some b ∧ 0 < P[a][b] := by
  obtain ⟨h1, h2, _⟩ := (acceptChain_ok_iff P).mp hacc
  -- common part, once `mcSamplePath_valid` applies
  have core : ∀ (ini : McInit Rat),
      (∃ p, mcSamplePath P ini ts [u] = .ok (some ⟨1, [p]⟩) ∧ p.length = ts ∧
        p[0]? = some (mcX0 ini).toNat ∧ (∀ x ∈ p, x < P.length) ∧
        IsPathOf (denseStep (cdfsDense P)) (mcX0 ini).toNat u p) →
      ∃ p, mcSamplePath P ini ts [u] = .ok (some ⟨1, [p]⟩) ∧ p.length = ts ∧
        p[0]? = some (mcX0 ini).toNat ∧ (∀ x ∈ p, x < P.length) ∧
        ∀ t, t + 1 < ts → ∃ a b, ∃ (ha : a < P.length) (hb : b < P[a].length),
          p[t]? = some a ∧ p[t + 1]? = some b ∧ 0 < P[a][b] := by
    intro ini ⟨p, hp, hlen, hhead, hall, hpath⟩
    have hs0 : (mcX0 ini).toNat < P.length := hall _ (List.mem_of_getElem? hhead)
    obtain ⟨p', hp', _, _, _, hf'⟩ := path_follows_transition_law_dense_rat P h1 h2
      (accepted_row_has_pos P hacc) (mcX0 ini).toNat hs0 u hus
    have hpp : p = p' := hpath.unique (pathFrom_isPathOf _ _ _ _ hp')
    subst hpp
    exact ⟨p, hp, hlen, hhead, hall, fun t ht => hf' t (by omega)⟩
  cases init with
  | state i =>
    obtain ⟨p, hp, hlen, hhead, hall, hf⟩ := core (.state i) (mcSamplePath_valid P h1 (.state i) hinit ts hts u hu)
    refine ⟨p, (mcX0 (.state i)).toNat, hp, hlen, hhead, ?_, hall, hf⟩
    show ((mcX0 (McInit.state i : McInit Rat)).toNat : Int) = i
    simp only [mcX0]
    exact Int.toNat_of_nonneg hinit.1
  | dist d u0 =>
    obtain ⟨hl, hnn, hex, hu0⟩ := hinit
    have hne : d ≠ [] := by obtain ⟨x, hx, _⟩ := hex; exact List.ne_nil_of_mem hx
    obtain ⟨p, hp, hlen, hhead, hall, hf⟩ :=
      core (.dist d u0) (mcSamplePath_valid P h1 (.dist d u0) ⟨hl, hne⟩ ts hts u hu)
    have hx0 : (mcX0 (.dist d u0)).toNat = searchsortedCdf (cumsum d) u0 := by
      simp only [mcX0, searchsortedCdfPy_of_ne _ _ (cumsum_ne_nil hne)]
      exact Int.toNat_natCast _
    refine ⟨p, (mcX0 (.dist d u0)).toNat, hp, hlen, hhead, ⟨hx0, ?_⟩, hall, hf⟩
    rw [hx0]
    exact searchsortedCdf_mass_pos (fun x => add_zero x) d u0 hnn hu0
      (fun hc => cumsum_getLast_pos (fun _ _ hp => le_add_of_nonneg_right hp)
        (fun _ _ hx => le_add_of_nonneg_left hx) d hnn hex hc) hne

example : (match mcSamplePath ([[1/2, 1/2], [1, 0]] : List (List Rat)) (.dist [0, 1] (999/1000)) 3 [[0, 3/4]] with
    | .ok (some r) => r.paths | _ => []) = [[1, 0, 1]] := by decide +kernel

/-! ## 13. `simulate` by state value, after any history -/

/-- **`simulate(init=<value>)` starts at the requested value.**  Dense chain with a square cdf array of
    `n` rows, `state_values = sv` of length `n`, a value `v` that occurs in `sv`, `ts ≥ 1`, any `ts−1`
    numbers.  The call returns a 1-D array of `ts` state values: the annotation `sv[p[t]]` of a path `p`
    that starts at the *first* position `i` holding `v` (so the first returned value is `v` itself),
    stays in the state space and follows the kernel step. -/
theorem simulate_by_value_valid_dense [LT α] [DecidableLT α] [BEq α] (cdfs : List (List α))
    (hsq : ∀ row ∈ cdfs, row.length = cdfs.length) (sv : List Int) (hsv : sv.length = cdfs.length)
    (v : Int) (hv : v ∈ sv) (ts : Nat) (hts : 0 < ts) (u : List α) (hu : u.length + 1 = ts) :
    ∃ (p : List Nat) (i : Nat), ∃ hi : i < sv.length,
      simulateSV sv cdfs.length (pathDense cdfs) (.scalar v) none [] ts [u]
        = .ok (some (1, [p.map fun s => sv.getD s 0])) ∧
      sv[i] = v ∧ (∀ j (hj : j < i), sv[j] ≠ v) ∧
      p.length = ts ∧ p[0]? = some i ∧ (p.map fun s => sv.getD s 0)[0]? = some v ∧
      (∀ x ∈ p, x < cdfs.length) ∧ IsPathOf (denseStep cdfs) i u p := by
  obtain ⟨i, hlook, hi, hval, hfirst⟩ := (getIndexSV_scalar sv v).2 hv
  have hin : (0 : Int) ≤ Int.ofNat i ∧ Int.ofNat i < (cdfs.length : Int) := by
    constructor
    · exact Int.natCast_nonneg i
    · have : i < cdfs.length := by omega
      exact Int.ofNat_lt.mpr this
  have hok : InitOK cdfs.length (.scalar (Int.ofNat i)) none := by
    simp only [InitOK, inRange, Bool.and_eq_true, decide_eq_true_eq]
    omega
  obtain ⟨ps, hps, hk, hall⟩ := simulate_indices_valid_dense cdfs hsq (.scalar (Int.ofNat i)) none [] ts [u]
    hok (fun h => by cases h) hts rfl (fun r hr => by simp at hr; rw [hr]; exact hu)
  simp only [docK] at hk hall
  obtain ⟨p, s0, u', hp, hu', hreq, hpath, hplen, hpall⟩ := hall 0 (by omega)
  have hps1 : ps = [p] := by
    cases ps with
    | nil => simp at hk
    | cons a rest =>
      cases rest with
      | nil => simp at hp; rw [hp]
      | cons _ _ => simp at hk
  simp at hu'
  subst hu'
  simp only [requested, Option.some.injEq] at hreq
  have hs0 : s0 = i := by
    rw [← hreq, norm_of_nonneg _ _ hin.1 hin.2]; rfl
  subst hs0
  subst hps1
  have hinr : ∀ q ∈ [p], ∀ s ∈ q, s < sv.length := by
    intro q hq s hs
    simp at hq; subst hq
    have := hpall s hs; omega
  obtain ⟨hsim, _⟩ := simulate_with_state_values sv cdfs.length (pathDense cdfs) (.scalar v)
    (.scalar (Int.ofNat s0)) none [] ts [u] ⟨docDim (.scalar (Int.ofNat s0)) none, [p]⟩ hlook hps hinr
  refine ⟨p, s0, hi, ?_, hval, hfirst, hplen, hpath.2.1, ?_, hpall, hpath⟩
  · simpa [docDim] using hsim
  · have h0 := hpath.2.1
    rw [List.getElem?_map, h0]
    simp only [Option.map_some, Option.some.injEq]
    rw [List.getD_eq_getElem?_getD, List.getElem?_eq_getElem hi]
    exact hval

/-- **… after any history.**  Whatever sequence `h` of `state_values` assignments and calls preceded
    it on this object: if the labels *currently* in force are `sv` (`svOnly`: the last accepted
    assignment), `simulate(init=v)` answers as in `simulate_by_value_valid_dense` for `sv` — it starts
    at the first position of `v` in the current labelling, never at a position remembered from an
    earlier one. -/
theorem simulate_by_value_after_history [LT α] [DecidableLT α] [BEq α] (cdfs : List (List α))
    (hsq : ∀ row ∈ cdfs, row.length = cdfs.length) (sv0 : Option (List Int)) (h : List (HOp α))
    (sv : List Int) (hcur : svOnly cdfs.length sv0 (assignments h) = some sv)
    (hsv : sv.length = cdfs.length) (v : Int) (hv : v ∈ sv) (ts : Nat) (hts : 0 < ts) (u : List α)
    (hu : u.length + 1 = ts) :
    ∃ (p : List Nat) (i : Nat), ∃ hi : i < sv.length,
      (runH cdfs.length (pathDense cdfs) sv0 (h ++ [.call true (.ok (.scalar v)) none [] ts [u]])).getLast?
        = some (.vals (.ok (some (1, [p.map fun s => sv.getD s 0])))) ∧
      sv[i] = v ∧ (∀ j (hj : j < i), sv[j] ≠ v) ∧ p.length = ts ∧ p[0]? = some i ∧
      (p.map fun s => sv.getD s 0)[0]? = some v ∧ (∀ x ∈ p, x < cdfs.length) := by
  obtain ⟨p, i, hi, hsim, h1, h2, h3, h4, h5, h6, _⟩ :=
    simulate_by_value_valid_dense cdfs hsq sv hsv v hv ts hts u hu
  refine ⟨p, i, hi, ?_, h1, h2, h3, h4, h5, h6⟩
  rw [(history_call_depends_only_on_current_state _ _ sv0 h _).1, hcur]
  simp only [List.getLast?_append, List.getLast?_singleton, Option.some_or]
  show some (HOut.vals (simulateSV sv cdfs.length (pathDense cdfs) (.scalar v) none [] ts [u])) = _
  rw [hsim]

/-- non-vacuity: labels `[7, 9]`, a call by value, the labels permuted, the same call again -/
example : svOnly 2 (some [7, 9]) (assignments
    ([.call true (.ok (.scalar 9)) none [] 1 [[]], .setSV (some [9, 7])] : List (HOp Int))) = some [9, 7] := by rfl
example : simulateSV [9, 7] 2 (pathDense ([[1, 4], [4, 4]] : List (List Int))) (.scalar 9) none [] 3 [[0, 4]]
    = .ok (some (1, [[9, 9, 7]])) := by decide +kernel
example : simulateSV [7, 9] 2 (pathDense ([[1, 4], [4, 4]] : List (List Int))) (.scalar 9) none [] 3 [[0, 4]]
    = .ok (some (1, [[9, 7, 9]])) := by decide +kernel

/-! ## 14. the remaining entry points at full strength (exact arithmetic) -/

/-- **`simulate_indices` (CSR), every path, full clause.**  Canonical CSR arrays, nonnegative stored
    masses, positive row totals, acceptable request, `ts ≥ 1`, a `(k, ts−1)` array of nonnegative
    numbers: documented `dim`/`k`; every path has length `ts`, starts at its requested state, stays in
    the state space, and each transition `a → b` uses an entry `q` stored in row `a` with column `b`
    and `data[q] > 0`. -/
theorem simulate_indices_follows_law_sparse [LinearOrder α] [Add α] [Zero α]
    (hadd0 : ∀ x : α, x + 0 = x) {n : Nat} {data : List α} {indices indptr : List Nat}
    (hc : CsrCanon n data indices indptr) (hnn : ∀ x ∈ data, (0 : α) ≤ x)
    (htot : ∀ s, s < n → ∀ h : rowCum data indptr s ≠ [], 0 < (rowCum data indptr s).getLast h)
    (init : Init) (reps : Option Nat) (drawn : List Nat) (ts : Nat) (us : List (List α))
    (hok : InitOK n init reps)
    (hdrawn : init = .none → docK init reps ≤ drawn.length ∧ ∀ d ∈ drawn, d < n)
    (hts : 0 < ts) (hk : us.length = docK init reps) (hrow : ∀ r ∈ us, r.length + 1 = ts)
    (hus : ∀ r ∈ us, ∀ u ∈ r, (0 : α) ≤ u) :
    ∃ ps, simulateIndices n (pathSparse (cdfs1d data indptr n) indices indptr) init reps drawn ts us
        = .ok (some ⟨docDim init reps, ps⟩) ∧
      ps.length = docK init reps ∧
      ∀ j, j < docK init reps → ∃ p s0, ps[j]? = some p ∧ requested n drawn init j = some s0 ∧
        p.length = ts ∧ p[0]? = some s0 ∧ (∀ x ∈ p, x < n) ∧
        ∀ t, t + 1 < ts → ∃ a b q, ∃ (hd : q < data.length) (hi : q < indices.length),
          p[t]? = some a ∧ p[t + 1]? = some b ∧ indptr.getD a 0 ≤ q ∧ q < indptr.getD (a + 1) 0 ∧
          indices[q] = b ∧ 0 < data[q] := by
  obtain ⟨ps, hps, hlen, hall⟩ :=
    simulate_indices_valid_sparse_canon hc init reps drawn ts us hok hdrawn hts hk hrow
  refine ⟨ps, hps, hlen, ?_⟩
  intro j hj
  obtain ⟨p, s0, u, hp, hu, hreq, hpath, hplen, hpall⟩ := hall j hj
  have hs0 : s0 < n := hpall s0 (List.mem_of_getElem? hpath.2.1)
  have hu_mem : u ∈ us := List.mem_of_getElem? hu
  obtain ⟨p', hp', _, hh', _, hf'⟩ :=
    path_transitions_positive_sparse hadd0 hc hnn htot s0 hs0 u (hus u hu_mem)
  have hpp : p = p' := hpath.unique (pathFrom_isPathOf _ _ _ _ hp')
  subst hpp
  refine ⟨p, s0, hp, hreq, hplen, hh', hpall, ?_⟩
  intro t ht
  obtain ⟨a, b, q, hd, hi, h1, h2, h3, h4, _, h6, h7⟩ := hf' t (by have := hrow u hu_mem; omega)
  exact ⟨a, b, q, hd, hi, h1, h2, h3, h4, h6, h7⟩

/-- **`DiscreteRV.draw`, full clause** (exact arithmetic): `q` nonnegative with a positive entry, any
    number of uniforms `≥ 0`.  One index per uniform; the `t`-th is `searchsorted_cdf(cumsum q, us[t])`
    (characterised by `step_inverse_cdf_rat`), lies in `range(len q)` and has `q[index] > 0`. -/
theorem drv_draw_follows_law_rat (q us : List Rat) (hq : ∀ x ∈ q, (0 : Rat) ≤ x)
    (hex : ∃ x ∈ q, (0 : Rat) < x) (hus : ∀ u ∈ us, (0 : Rat) ≤ u) :
    ∃ idx, drvDraw q us = some idx ∧ idx.length = us.length ∧
      ∀ t (ht : t < us.length), ∃ j, idx[t]? = some j ∧ j = searchsortedCdf (cumsum q) us[t] ∧
        ∃ hj : j < q.length, 0 < q[j] := by
  have hne : q ≠ [] := by obtain ⟨x, hx, _⟩ := hex; exact List.ne_nil_of_mem hx
  have hlast := cumsum_getLast_pos (fun (_ : Rat) _ hp => le_add_of_nonneg_right hp)
    (fun _ _ hx => le_add_of_nonneg_left hx) q hq hex (cumsum_ne_nil hne)
  obtain ⟨h1, h2⟩ := drvDraw_valid (fun x => add_zero x) (fun _ _ hp => le_add_of_nonneg_right hp)
    q us hq hne hlast hus
  refine ⟨_, h1, by simp, ?_⟩
  intro t ht
  refine ⟨searchsortedCdf (cumsum q) us[t], by simp [ht], rfl, h2 _ (List.getElem_mem ht)⟩

example : drvDraw ([1/4, 0, 3/4, 0] : List Rat) [0, 1/4, 999/1000, 1, 5] = some [0, 2, 2, 2, 2] := by
  decide +kernel

/-- **`random.draw(cumsum q, size)`, full clause** (exact arithmetic): same hypotheses; every returned
    index is the natural number `searchsorted_cdf(cumsum q, u)` for its uniform, lies in `range(len q)`
    and carries positive mass — so `random.draw` and `DiscreteRV.draw` return the same indices. -/
theorem random_draw_follows_law_rat (q us : List Rat) (hq : ∀ x ∈ q, (0 : Rat) ≤ x)
    (hex : ∃ x ∈ q, (0 : Rat) < x) (hus : ∀ u ∈ us, (0 : Rat) ≤ u) :
    draw (cumsum q) us = us.map (fun u => ((searchsortedCdf (cumsum q) u : Nat) : Int)) ∧
    (∀ u ∈ us, ∃ hj : searchsortedCdf (cumsum q) u < q.length, 0 < q[searchsortedCdf (cumsum q) u]) ∧
    drvDraw q us = some (us.map (searchsortedCdf (cumsum q))) := by
  have hne : q ≠ [] := by obtain ⟨x, hx, _⟩ := hex; exact List.ne_nil_of_mem hx
  have hlast := cumsum_getLast_pos (fun (_ : Rat) _ hp => le_add_of_nonneg_right hp)
    (fun _ _ hx => le_add_of_nonneg_left hx) q hq hex (cumsum_ne_nil hne)
  obtain ⟨h1, h2⟩ := drvDraw_valid (fun x => add_zero x) (fun _ _ hp => le_add_of_nonneg_right hp)
    q us hq hne hlast hus
  refine ⟨?_, h2, h1⟩
  unfold draw
  apply List.map_congr_left
  intro u _
  exact searchsortedCdfPy_of_ne _ _ (cumsum_ne_nil hne)

example : draw (cumsum ([1/4, 0, 3/4, 0] : List Rat)) [0, 1/4, 999/1000, 1, 5] = [0, 2, 2, 2, 2] := by
  decide +kernel

/-! ## 15. 2-D `state_values` (one label row per state) -/

/-- **Row look-up, exact characterisation.** `_get_index` on 2-D `state_values` returns `i` iff row
    `i` equals the value and no earlier row does; it fails iff no row equals the value (in particular
    for a row of another length). -/
theorem state_row_lookup_iff (sv : List (List Int)) (v : List Int) :
    (∀ i, findRow sv v = some i ↔ ∃ h : i < sv.length, sv[i] = v ∧ ∀ j (hj : j < i), sv[j] ≠ v) ∧
    (findRow sv v = none ↔ v ∉ sv) :=
  ⟨fun i => findRow_eq_some_iff sv v i, findRow_eq_none_iff sv v⟩

example : findRow [[1, 2], [3, 4], [1, 2]] [1, 2] = some 0 := by decide
example : findRow [[1, 2], [3, 4]] [3] = none := by decide

/-- **Which 2-D requests `simulate` refuses** — always with `ValueError`, before any random number is
    used: a scalar or an array of 3 or more dimensions; a row that is no label row; an array of rows one
    of which is no label row.  Every other request passes the look-up. -/
theorem simulate_2d_refused_iff (sv : List (List Int)) (n : Nat) (f : Nat → List α → Option (List Nat))
    (init : Init2) (reps : Option Nat) (drawn : List Nat) (ts : Nat) (us : List (List α)) :
    ((∃ e, getIndexSV2 sv init = .error e) ↔ Init2Bad sv init) ∧
    (Init2Bad sv init → simulateSV2 sv n f init reps drawn ts us = .error .valueError) := by
  obtain ⟨h1, h2⟩ := getIndexSV2_error_iff sv init
  refine ⟨h1, fun hb => ?_⟩
  obtain ⟨e, he⟩ := h1.mpr hb
  have := h2 e he
  subst this
  unfold simulateSV2
  rw [he]

example : Init2Bad [[1, 2], [3, 4]] (.rows [[3, 4], [5, 6]]) := ⟨[5, 6], by simp, by simp⟩
example : ¬ Init2Bad [[1, 2], [3, 4]] (.rows [[3, 4], [1, 2]]) := by simp [Init2Bad]

/-- **`simulate(init=<label row>)` with 2-D state values starts at the requested row.**  Dense chain
    with a square cdf array of `n` rows, `state_values = sv` with `n` rows, a row `v` that occurs in
    `sv`, `ts ≥ 1`, any `ts−1` numbers.  The call returns a 2-D array (`dim = 2`) of `ts` label rows:
    the annotation `sv[p[t]]` of a path `p` that starts at the *first* position `i` whose row equals `v`
    (so the first returned row is `v`), stays in the state space and follows the kernel step. -/
theorem simulate_by_row_value_valid_dense [LT α] [DecidableLT α] [BEq α] (cdfs : List (List α))
    (hsq : ∀ row ∈ cdfs, row.length = cdfs.length) (sv : List (List Int)) (hsv : sv.length = cdfs.length)
    (v : List Int) (hv : v ∈ sv) (ts : Nat) (hts : 0 < ts) (u : List α) (hu : u.length + 1 = ts) :
    ∃ (p : List Nat) (i : Nat), ∃ hi : i < sv.length,
      simulateSV2 sv cdfs.length (pathDense cdfs) (.row v) none [] ts [u]
        = .ok (some (2, [p.map fun s => sv.getD s []])) ∧
      sv[i] = v ∧ (∀ j (hj : j < i), sv[j] ≠ v) ∧
      p.length = ts ∧ p[0]? = some i ∧ (p.map fun s => sv.getD s [])[0]? = some v ∧
      (∀ x ∈ p, x < cdfs.length) ∧ IsPathOf (denseStep cdfs) i u p := by
  obtain ⟨i, hfind⟩ : ∃ i, findRow sv v = some i := by
    cases h : findRow sv v with
    | none => exact absurd hv ((findRow_eq_none_iff sv v).mp h)
    | some i => exact ⟨i, rfl⟩
  obtain ⟨hi, hval, hfirst⟩ := (findRow_eq_some_iff sv v i).mp hfind
  have hlook : getIndexSV2 sv (.row v) = .ok (.scalar (Int.ofNat i)) := by simp [getIndexSV2, hfind]
  have hin : (0 : Int) ≤ Int.ofNat i ∧ Int.ofNat i < (cdfs.length : Int) := by
    constructor
    · exact Int.natCast_nonneg i
    · have : i < cdfs.length := by omega
      exact Int.ofNat_lt.mpr this
  have hok : InitOK cdfs.length (.scalar (Int.ofNat i)) none := by
    simp only [InitOK, inRange, Bool.and_eq_true, decide_eq_true_eq]
    omega
  obtain ⟨ps, hps, hk, hall⟩ := simulate_indices_valid_dense cdfs hsq (.scalar (Int.ofNat i)) none [] ts [u]
    hok (fun h => by cases h) hts rfl (fun r hr => by simp at hr; rw [hr]; exact hu)
  simp only [docK] at hk hall
  obtain ⟨p, s0, u', hp, hu', hreq, hpath, hplen, hpall⟩ := hall 0 (by omega)
  have hps1 : ps = [p] := by
    cases ps with
    | nil => simp at hk
    | cons a rest =>
      cases rest with
      | nil => simp at hp; rw [hp]
      | cons _ _ => simp at hk
  simp at hu'
  subst hu'
  simp only [requested, Option.some.injEq] at hreq
  have hs0 : s0 = i := by
    rw [← hreq, norm_of_nonneg _ _ hin.1 hin.2]; rfl
  subst hs0
  subst hps1
  have hann := annotate2_spec sv [p] (by
    intro q hq s hs
    simp at hq; subst hq
    have := hpall s hs; omega)
  refine ⟨p, s0, hi, ?_, hval, hfirst, hplen, hpath.2.1, ?_, hpall, hpath⟩
  · unfold simulateSV2
    rw [hlook]
    simp only [hps, hann, Option.map_some, docDim]
    rfl
  · have h0 := hpath.2.1
    rw [List.getElem?_map, h0]
    simp only [Option.map_some, Option.some.injEq]
    rw [List.getD_eq_getElem?_getD, List.getElem?_eq_getElem hi]
    exact hval

/-- non-vacuity: duplicated label rows — the first position wins — and a genuine two-step path -/
example : simulateSV2 [[1, 2], [3, 4]] 2 (pathDense ([[1, 4], [4, 4]] : List (List Int))) (.row [3, 4]) none [] 3
    [[0, 4]] = .ok (some (2, [[[3, 4], [1, 2], [3, 4]]])) := by decide +kernel
example : simulateSV2 [[5, 5], [5, 5]] 2 (pathDense ([[1, 4], [4, 4]] : List (List Int))) (.row [5, 5]) none [] 1
    [[]] = .ok (some (2, [[[5, 5]]])) := by decide +kernel

end QE.C10
