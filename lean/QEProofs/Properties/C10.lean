/-
  Property C10 — theorems about QEModel.C10 (stub; to be filled in).
-/
import QEModel.C10
namespace QE.C10

end QE.C10
