/-
  Property C06 — theorems about QEModel.C06 (stub; to be filled in).
-/
import QEModel.C06
namespace QE.C06

end QE.C06
