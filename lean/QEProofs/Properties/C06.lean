/-
  Property C06 — discrete Lyapunov and Riccati solvers (quantecon/_matrix_eqn.py).

  All statements are about the definitions of `QEModel/C06.lean` that the driver
  `qedriver_c06` executes, read as Mathlib matrices through `toMat`
  (`toMat n m A i j = A.get i j`). `K` is any commutative ring (any linearly
  ordered field for the statements involving the stopping rule).

  What is proved (algebraic core, all sizes, all iteration counts):
  * Lyapunov: after `k` passes the loop holds `A^(2^k)` and `Σ_{j<2^k} A^j B (A')^j`
    (`lyap_doubling_sum`); the residual of that partial sum is exactly the tail term
    (`lyap_residual`); the stopping rule tests the increment `α γ α'` (`lyap_increment`);
    symmetry (`lyap_symmetric`); a normal return is such a partial sum with the last
    increment ≤ tol entrywise and `2 ≤ n_its ≤ max_it` (`lyap_return_spec`); the ValueError
    exit reports a counter that really exceeds `max_it` (`lyap_raise_spec`).
  * Riccati: `X = H + γI` solves the equation with cross term iff `H` is a fixed point of the
    map built from the code's initial triple (`riccati_fixed_point_iff`); each pass updates `H`
    by that map for the current triple (`sda_step_H_is_map`); `G`, `H` stay symmetric
    (`ricc_init_symmetric`, `sda_step_symmetric`, `sda_iter_symmetric`,
    `ricc_returned_symmetric`); a normal return made `1 ≤ p ≤ max_iter` passes and its last
    error is ≤ tol (`ricc_return_spec`); the γ rule returns an admitted candidate of minimal
    `f_gamma` (`gamma_choice_spec`, `gamma_choice_none`).
  `np.linalg.solve` enters through the hypothesis `SolSpec` (returned solutions solve an
  invertible system); `np.linalg.cond` values are inputs of the γ rule.
  What is not proved (decided by the spec run of harness/c06.py only):
  convergence for Schur-stable `A`, the stabilising property and positive
  semidefiniteness of the Riccati limit, the doubling identity of the SDA triple,
  and everything on the SciPy paths.
-/
import QEProofs.Lemmas.C06Lyap
import QEProofs.Lemmas.C06Ricc
import QEProofs.Lemmas.C06Gamma

namespace QE.C06
open QE QE.MatAlg Finset Matrix

section lyapunov
variable {K : Type} [CommRing K]

/-- **lyap_doubling_sum.** After `k` passes of lines 75-76 started from `(A, B)`,
    `alpha = A^(2^k)` and `gamma = Σ_{j<2^k} A^j B (A')^j` (all sizes `n`, all `k`). -/
theorem lyap_doubling_sum {n : ℕ} (A B : M K) (hA : Dim A n n) (hB : Dim B n n) (k : ℕ) :
    toMat n n (lyapIter A B k).1 = toMat n n A ^ (2 ^ k) ∧
    toMat n n (lyapIter A B k).2 =
      ∑ j ∈ range (2 ^ k), toMat n n A ^ j * toMat n n B * (toMat n n A)ᵀ ^ j := by
  induction k with
  | zero => simp [lyapIter]
  | succ k ih =>
    obtain ⟨hd1, hd2⟩ := lyapIter_dim hA hB k
    obtain ⟨h1, h2⟩ := lyapStep_toMat hd1 hd2
    rw [lyapIter_succ]
    refine ⟨?_, ?_⟩
    · rw [h1, ih.1, ← pow_add, pow_succ, mul_two]
    · rw [h2, ih.1, ih.2, transpose_pow, pow_succ, mul_comm (2 ^ k) 2]
      exact (dsum_double (toMat n n A) (toMat n n B) (toMat n n A)ᵀ (2 ^ k)).symm

example : (lyapIter (M.ofRows [[(1 : ℚ) / 2, 1], [0, 1 / 3]]) (M.ofRows [[1, 0], [0, 1]]) 2).1.get 0 1
    = 65 / 216 := by decide +kernel

/-- **lyap_residual.** The Lyapunov residual of what the loop holds after `k` passes is
    exactly the tail term: `A γ A' − γ + B = A^(2^k) B (A')^(2^k)`. -/
theorem lyap_residual {n : ℕ} (A B : M K) (hA : Dim A n n) (hB : Dim B n n) (k : ℕ) :
    toMat n n A * toMat n n (lyapIter A B k).2 * (toMat n n A)ᵀ - toMat n n (lyapIter A B k).2 + toMat n n B
      = toMat n n A ^ (2 ^ k) * toMat n n B * (toMat n n A)ᵀ ^ (2 ^ k) := by
  rw [(lyap_doubling_sum A B hA hB k).2]
  exact dsum_residual (toMat n n A) (toMat n n B) (toMat n n A)ᵀ (2 ^ k)

/-- **lyap_increment.** The matrix whose max-abs entry the stopping rule tests (line 78,
    `gamma1 - gamma0`) is the doubling term `A^(2^k) γ_k (A')^(2^k)`. -/
theorem lyap_increment {n : ℕ} (A B : M K) (hA : Dim A n n) (hB : Dim B n n) (k : ℕ) :
    toMat n n (msub (lyapIter A B (k + 1)).2 (lyapIter A B k).2)
      = toMat n n A ^ (2 ^ k) * toMat n n (lyapIter A B k).2 * (toMat n n A)ᵀ ^ (2 ^ k) := by
  obtain ⟨hd1, hd2⟩ := lyapIter_dim hA hB k
  obtain ⟨hd1', hd2'⟩ := lyapIter_dim hA hB (k + 1)
  rw [toMat_msub hd2', lyapIter_succ, (lyapStep_toMat hd1 hd2).2, (lyap_doubling_sum A B hA hB k).1,
    transpose_pow]
  abel

/-- **lyap_symmetric.** For symmetric `B` every iterate `gamma` is symmetric. -/
theorem lyap_symmetric {n : ℕ} (A B : M K) (hA : Dim A n n) (hB : Dim B n n)
    (hsym : (toMat n n B)ᵀ = toMat n n B) (k : ℕ) :
    (toMat n n (lyapIter A B k).2)ᵀ = toMat n n (lyapIter A B k).2 := by
  rw [(lyap_doubling_sum A B hA hB k).2, transpose_sum]
  apply sum_congr rfl
  intro j _
  rw [transpose_mul, transpose_mul, transpose_pow, transpose_pow, transpose_transpose, hsym, mul_assoc]

end lyapunov

section lyapunov_loop
variable {K : Type} [Field K] [LinearOrder K] [IsStrictOrderedRing K]

/-- **lyap_return_spec.** Whenever `solve_discrete_lyapunov(A, B, max_it)` (doubling, tolerance
    `tol`) returns normally with final counter `its`, then `2 ≤ its ≤ max_it`, the returned `X` is
    the partial sum with `2^(its-1)` terms, its residual `A X A' − X + B` is the tail term
    `A^m B (A')^m`, `m = 2^(its-1)`, and every entry of the last increment `X − γ_(its-2)` is at most
    `tol` in absolute value. (Whether the tail term is small is the convergence question, which
    needs `A` Schur stable and is not proved here.) -/
theorem lyap_return_spec {n : ℕ} (tol : K) (maxIt : ℕ) (A B X : M K) (its : ℕ) (ds : List K)
    (hA : Dim A n n) (hB : Dim B n n) (h : lyapDoubling tol maxIt A B = .ok X its ds) :
    2 ≤ its ∧ its ≤ maxIt ∧
    toMat n n X = ∑ j ∈ range (2 ^ (its - 1)), toMat n n A ^ j * toMat n n B * (toMat n n A)ᵀ ^ j ∧
    toMat n n A * toMat n n X * (toMat n n A)ᵀ - toMat n n X + toMat n n B
      = toMat n n A ^ (2 ^ (its - 1)) * toMat n n B * (toMat n n A)ᵀ ^ (2 ^ (its - 1)) ∧
    ∀ i j : Fin n, |(toMat n n X - toMat n n (lyapIter A B (its - 2)).2) i j| ≤ tol := by
  unfold lyapDoubling at h
  obtain ⟨j, hj, hits, hle, hX, hd⟩ := lyapLoop_ok tol maxIt A B (maxIt + 1) 1 0 [] X its ds h
  have hj1 : its - 1 = j := by omega
  have hj2 : its - 2 = j - 1 := by omega
  refine ⟨by omega, hle, ?_, ?_, ?_⟩
  · rw [hj1, hX]; exact (lyap_doubling_sum A B hA hB j).2
  · rw [hj1, hX]; exact lyap_residual A B hA hB j
  · intro a b
    rw [hj2, hX]
    obtain ⟨_, hdj⟩ := lyapIter_dim hA hB j
    have hle' := not_lt.mp hd
    unfold lyapDiff at hle'
    have hD : Dim (msub (lyapIter A B j).2 (lyapIter A B (j - 1)).2) n n := dim_msub hdj
    have := abs_get_le_maxAbs (msub (lyapIter A B j).2 (lyapIter A B (j - 1)).2) a b
      (by rw [hD.nr]; exact a.2) (by rw [hD.nc]; exact b.2)
    rw [← toMat_msub hdj]
    exact le_trans this hle'

/-- non-vacuity: the loop does return normally on a stable input (here after 7 counted iterations) -/
example : (lyapDoubling ((1 : ℚ) / 1000000000000000) 50 (M.ofRows [[1 / 2]]) (M.ofRows [[1]])).its?
    = some 7 := by decide +kernel

/-- **lyap_raise_spec.** The `ValueError` exit reports a counter that really exceeds `max_it`
    (it is never an artefact of the model's fuel). -/
theorem lyap_raise_spec (tol : K) (maxIt : ℕ) (A B : M K) (n : ℕ) (ds : List K)
    (h : lyapDoubling tol maxIt A B = .maxit n ds) : maxIt < n := by
  unfold lyapDoubling at h
  exact lyapLoop_maxit_real tol maxIt (maxIt + 1) 1 _ _ n ds (by omega) h

end lyapunov_loop

section riccati
variable {K : Type} [CommRing K]

/-- **sda_step_symmetric.** One structured-doubling pass (lines 214-216) keeps `G` and `H`
    symmetric, for every size `k` and every `solve` that returns solutions of invertible systems
    (`SolSpec`; LAPACK itself is not modelled). -/
theorem sda_step_symmetric {k : ℕ} (sol : M K → M K → Option (M K)) (hsol : SolSpec sol k) (s s1 : Sda K)
    (hA : Dim s.A k k) (hG : Dim s.G k k) (hH : Dim s.H k k)
    (hGs : (toMat k k s.G)ᵀ = toMat k k s.G) (hHs : (toMat k k s.H)ᵀ = toMat k k s.H)
    (h : sdaStep sol s = some s1) :
    (Dim s1.A k k ∧ Dim s1.G k k ∧ Dim s1.H k k) ∧
    (toMat k k s1.G)ᵀ = toMat k k s1.G ∧ (toMat k k s1.H)ᵀ = toMat k k s1.H := by
  obtain ⟨dA, dG, dH, S1, S2, S3, V1, V2, e1, e2, e3, v1a, v1b, v2a, v2b, rA, rG, rH⟩ :=
    sdaStep_toMat sol hsol s s1 hA hG hH h
  refine ⟨⟨dA, dG, dH⟩, ?_, ?_⟩
  · rw [rG, transpose_add, hGs, sda_G_term_symm _ _ _ _ hGs hHs e2]
  · rw [rH, transpose_add, hHs, sda_H_term_symm _ _ _ _ V2 hGs hHs v2a e3]

/-- **sda_iter_symmetric.** Along the whole structured-doubling iteration (any number of passes)
    `G_j` and `H_j` stay symmetric — hence so is the returned `X = H + gamma I` — provided the
    initial `G0`, `H0` are. -/
theorem sda_iter_symmetric {k : ℕ} (sol : M K → M K → Option (M K)) (hsol : SolSpec sol k) (s : Sda K)
    (hA : Dim s.A k k) (hG : Dim s.G k k) (hH : Dim s.H k k)
    (hGs : (toMat k k s.G)ᵀ = toMat k k s.G) (hHs : (toMat k k s.H)ᵀ = toMat k k s.H) :
    ∀ (j : ℕ) (sj : Sda K), sdaIter sol s j = some sj →
      (Dim sj.A k k ∧ Dim sj.G k k ∧ Dim sj.H k k) ∧
      (toMat k k sj.G)ᵀ = toMat k k sj.G ∧ (toMat k k sj.H)ᵀ = toMat k k sj.H := by
  intro j
  induction j with
  | zero =>
    intro sj h
    simp only [sdaIter, Option.some.injEq] at h
    subst h
    exact ⟨⟨hA, hG, hH⟩, hGs, hHs⟩
  | succ j ih =>
    intro sj h
    simp only [sdaIter] at h
    cases hprev : sdaIter sol s j with
    | none => rw [hprev] at h; cases h
    | some sp =>
      rw [hprev] at h
      obtain ⟨⟨dA, dG, dH⟩, gs, hs⟩ := ih sp hprev
      exact sda_step_symmetric sol hsol sp sj dA dG dH gs hs h

/-- non-vacuity: `SolSpec` is satisfied by the exact 1×1 solver, and the pass does run with it -/
example : SolSpec (sol1 : M ℚ → M ℚ → Option (M ℚ)) 1 := sol1_spec
example : (sdaIter sol1 (⟨M.ofRows [[(1 : ℚ) / 2]], M.ofRows [[1 / 2]], M.ofRows [[1 / 2]]⟩ : Sda ℚ) 3).isSome
    = true := by decide +kernel

/-- **sda_step_H_is_map.** The `H`-update of a structured-doubling pass is the map of
    `riccati_fixed_point_iff` for the current triple, evaluated at the current `H`:
    `H1 = H + A' H (I + G H)^{-1} A` (in particular the first pass applies the fixed-point map
    of the initial triple to `H0`). -/
theorem sda_step_H_is_map {k : ℕ} (sol : M K → M K → Option (M K)) (hsol : SolSpec sol k) (s s1 : Sda K)
    (hA : Dim s.A k k) (hG : Dim s.G k k) (hH : Dim s.H k k) (h : sdaStep sol s = some s1) :
    ∃ Wi : Matrix (Fin k) (Fin k) K, (1 + toMat k k s.G * toMat k k s.H) * Wi = 1 ∧
      toMat k k s1.H = toMat k k s.H + (toMat k k s.A)ᵀ * (toMat k k s.H * Wi) * toMat k k s.A := by
  obtain ⟨_, _, _, S1, S2, S3, V1, V2, e1, e2, e3, v1a, v1b, v2a, v2b, rA, rG, rH⟩ :=
    sdaStep_toMat sol hsol s s1 hA hG hH h
  refine ⟨V1, v1b, ?_⟩
  have hS3 : S3 = V2 * (toMat k k s.H * toMat k k s.A) := by
    rw [← e3, ← Matrix.mul_assoc, v2a, Matrix.one_mul]
  -- push-through: V2 H = H V1
  have hpush : V2 * toMat k k s.H = toMat k k s.H * V1 := by
    calc V2 * toMat k k s.H
        = V2 * toMat k k s.H * ((1 + toMat k k s.G * toMat k k s.H) * V1) := by rw [v1b, Matrix.mul_one]
      _ = (V2 * (1 + toMat k k s.H * toMat k k s.G)) * toMat k k s.H * V1 := by noncomm_ring
      _ = toMat k k s.H * V1 := by rw [v2a, Matrix.one_mul]
  rw [rH, hS3, ← Matrix.mul_assoc V2, hpush]
  noncomm_ring

/-- **ricc_init_symmetric.** For symmetric `Q` and `R` the initial `G0` and `H0` (lines 201-204)
    are symmetric; with `sda_iter_symmetric` every `H_j`, hence the returned `X = H + gamma I`,
    is symmetric. -/
theorem ricc_init_symmetric {k n : ℕ} (sol : M K → M K → Option (M K)) (hsol : SolSpec sol n) (g : K)
    (A B Q R N : M K) (s0 : Sda K)
    (hA : Dim A k k) (hB : Dim B k n) (hQ : Dim Q k k) (hR : Dim R n n) (hN : Dim N n k)
    (hQs : (toMat k k Q)ᵀ = toMat k k Q) (hRs : (toMat n n R)ᵀ = toMat n n R)
    (h0 : riccInit sol g A B Q R N = some s0) :
    (Dim s0.A k k ∧ Dim s0.G k k ∧ Dim s0.H k k) ∧
    (toMat k k s0.G)ᵀ = toMat k k s0.G ∧ (toMat k k s0.H)ᵀ = toMat k k s0.H := by
  obtain ⟨dA, dG, dH, V, _, vb, _, eG, eH⟩ := riccInit_toMat sol hsol g A B Q R N s0 hA hB hQ hR hN h0
  have hRht : (toMat n n R + g • ((toMat k n B)ᵀ * toMat k n B))ᵀ
      = toMat n n R + g • ((toMat k n B)ᵀ * toMat k n B) := by
    rw [transpose_add, transpose_smul, transpose_mul, transpose_transpose, hRs]
  have hV : Vᵀ = V := by
    have h1 : Vᵀ * (toMat n n R + g • ((toMat k n B)ᵀ * toMat k n B)) = 1 := by
      rw [← hRht, ← transpose_mul, vb, transpose_one]
    calc Vᵀ = Vᵀ * ((toMat n n R + g • ((toMat k n B)ᵀ * toMat k n B)) * V) := by rw [vb, Matrix.mul_one]
      _ = (Vᵀ * (toMat n n R + g • ((toMat k n B)ᵀ * toMat k n B))) * V := by rw [Matrix.mul_assoc]
      _ = V := by rw [h1, Matrix.one_mul]
  refine ⟨⟨dA, dG, dH⟩, ?_, ?_⟩
  · rw [eG, transpose_mul, transpose_mul, transpose_transpose, hV, Matrix.mul_assoc]
  · rw [eH]
    simp only [transpose_sub, transpose_add, transpose_smul, transpose_mul, transpose_transpose,
      transpose_one, hQs, hV, Matrix.mul_assoc]

/-- **riccati_fixed_point_iff.** Let `(A0, G0, H0)` be the initial triple the code builds for the
    chosen `gamma` (lines 198-204, `riccInit`), `R` symmetric. For every symmetric `H` such that
    `R + B'XB` (with `X = H + gamma I`) and `I + G0 H` are invertible (`Si`, `Wi` their inverses):
    `X` solves the Riccati equation with cross term,
      `X = A'XA − (N + B'XA)'(R + B'XB)^{-1}(N + B'XA) + Q`,
    **iff** `H` is a fixed point of the map the doubling iterates,
      `H = H0 + A0' H (I + G0 H)^{-1} A0`.
    All sizes `k`, `n`; any `solve` satisfying `SolSpec`. (That the loop converges to such a fixed
    point, and to the stabilising one, is not proved.) -/
theorem riccati_fixed_point_iff {k n : ℕ} (sol : M K → M K → Option (M K)) (hsol : SolSpec sol n) (g : K)
    (A B Q R N : M K) (s0 : Sda K)
    (hA : Dim A k k) (hB : Dim B k n) (hQ : Dim Q k k) (hR : Dim R n n) (hN : Dim N n k)
    (hRs : (toMat n n R)ᵀ = toMat n n R)
    (h0 : riccInit sol g A B Q R N = some s0)
    (H Wi : Matrix (Fin k) (Fin k) K) (Si : Matrix (Fin n) (Fin n) K) (hH : Hᵀ = H)
    (hSi1 : Si * (toMat n n R + (toMat k n B)ᵀ * (H + g • (1 : Matrix (Fin k) (Fin k) K)) * toMat k n B) = 1)
    (hSi2 : (toMat n n R + (toMat k n B)ᵀ * (H + g • (1 : Matrix (Fin k) (Fin k) K)) * toMat k n B) * Si = 1)
    (hW : (1 + toMat k k s0.G * H) * Wi = 1) :
    (H + g • (1 : Matrix (Fin k) (Fin k) K)
        = (toMat k k A)ᵀ * (H + g • (1 : Matrix (Fin k) (Fin k) K)) * toMat k k A
          - (toMat n k N + (toMat k n B)ᵀ * (H + g • (1 : Matrix (Fin k) (Fin k) K)) * toMat k k A)ᵀ * Si
            * (toMat n k N + (toMat k n B)ᵀ * (H + g • (1 : Matrix (Fin k) (Fin k) K)) * toMat k k A)
          + toMat k k Q)
    ↔ H = toMat k k s0.H + (toMat k k s0.A)ᵀ * (H * Wi) * toMat k k s0.A := by
  obtain ⟨_, _, _, V, _, vb, eA, eG, eH⟩ := riccInit_toMat sol hsol g A B Q R N s0 hA hB hQ hR hN h0
  rw [eG] at hW
  rw [eA, eH]
  exact dare_iff_sda_form (toMat k k A) (toMat k k Q) H Wi _ (toMat k n B) (toMat n k N) _
    (toMat n n R) _ V _ Si g hH hRs rfl rfl rfl rfl vb hSi1 hSi2 hW

/-- non-vacuity: with the exact 1×1 solver the initial triple exists (A=B=Q=1, R=2, N=0, gamma=1;
    the Riccati solution of this instance is X = 2, i.e. H = 1) -/
example : (riccInit sol1 (1 : ℚ) (M.ofRows [[1]]) (M.ofRows [[1]]) (M.ofRows [[1]]) (M.ofRows [[2]])
    (M.ofRows [[0]])).isSome = true := by decide +kernel

end riccati

section riccati_loop
variable {K : Type} [Field K] [LinearOrder K] [IsStrictOrderedRing K]

/-- **ricc_return_spec.** Whenever `solve_discrete_riccati(..., method="doubling")` (after the choice
    of `gamma`) returns normally, it made `1 ≤ p ≤ max_iter` structured-doubling passes from the
    initial triple, the returned matrix is `H_p + gamma I`, and the last error
    `max|H_p − H_(p-1)|` is at most `tol`. -/
theorem ricc_return_spec (sol : M K → M K → Option (M K)) (tol : K) (maxIter : ℕ) (g : K)
    (A B Q R N X : M K) (p : ℕ) (es : List K)
    (h : riccDoubling sol tol maxIter g A B Q R N = some (.ok X p es)) :
    ∃ s0 sp sprev, riccInit sol g A B Q R N = some s0 ∧ 1 ≤ p ∧ p ≤ maxIter ∧
      sdaIter sol s0 p = some sp ∧ sdaIter sol s0 (p - 1) = some sprev ∧
      X = madd sp.H (smul g (ident Q.nr)) ∧ maxAbs gabs (msub sp.H sprev.H) ≤ tol := by
  unfold riccDoubling at h
  cases h0 : riccInit sol g A B Q R N with
  | none => rw [h0] at h; cases h
  | some s0 =>
    rw [h0] at h
    simp only at h
    cases hl : riccLoop sol tol maxIter (maxIter + 2) 1 (tol + 1) s0 none [] with
    | ok H p' es' =>
      rw [hl] at h
      simp only [Option.some.injEq, RiccOut.ok.injEq] at h
      obtain ⟨hX, hp, _⟩ := h
      subst hp
      obtain ⟨sp, sprev, h1, h2, hsp, hH, hprev, herr⟩ :=
        riccLoop_ok sol tol maxIter s0 (maxIter + 2) 0 (tol + 1) s0 none [] H p' es' hl rfl
          (by intro Hl hc; cases hc)
      exact ⟨s0, sp, sprev, rfl, h1, h2, hsp, hprev, by rw [← hX, hH], herr⟩
    | maxit i es' => rw [hl] at h; simp at h
    | singular q => rw [hl] at h; simp at h
    | unbound => rw [hl] at h; simp at h

/-- **ricc_returned_symmetric.** For symmetric `Q`, `R` (all sizes `k`, `n`), whatever number of
    passes the loop makes, a normally returned `X` is symmetric. -/
theorem ricc_returned_symmetric {k n : ℕ} (sol : M K → M K → Option (M K))
    (hsolk : SolSpec sol k) (hsoln : SolSpec sol n) (tol : K) (maxIter : ℕ) (g : K)
    (A B Q R N X : M K) (p : ℕ) (es : List K)
    (hA : Dim A k k) (hB : Dim B k n) (hQ : Dim Q k k) (hR : Dim R n n) (hN : Dim N n k)
    (hQs : (toMat k k Q)ᵀ = toMat k k Q) (hRs : (toMat n n R)ᵀ = toMat n n R)
    (h : riccDoubling sol tol maxIter g A B Q R N = some (.ok X p es)) :
    (toMat k k X)ᵀ = toMat k k X := by
  obtain ⟨s0, sp, sprev, h0, _, _, hsp, _, hX, _⟩ := ricc_return_spec sol tol maxIter g A B Q R N X p es h
  obtain ⟨⟨dA, dG, dH⟩, gs, hs⟩ := ricc_init_symmetric sol hsoln g A B Q R N s0 hA hB hQ hR hN hQs hRs h0
  obtain ⟨⟨_, _, dHp⟩, _, hps⟩ := sda_iter_symmetric sol hsolk s0 dA dG dH gs hs p sp hsp
  have hI : Dim (ident Q.nr : M K) k k := by rw [hQ.nr]; exact dim_ident k
  have hIm : toMat k k (ident Q.nr : M K) = 1 := by rw [hQ.nr]; exact toMat_ident k
  rw [hX, toMat_madd dHp, toMat_smul g hI, hIm, transpose_add, hps, transpose_smul, transpose_one]

end riccati_loop

section gamma
variable {K : Type} [LinearOrder K] [Mul K] [One K]

/-- **gamma_choice_spec.** The rule of lines 172-195, on the condition numbers the code computed
    (`c = (gamma, cond(Z), cond(Z,inf), cond(I+G0H0))`): a returned `gamma` belongs to a candidate
    that passed `cn * EPS < 1`, whose `f_gamma = max(f1, gamma f1, f3)` is below `inf` and minimal
    among all admitted candidates. -/
theorem gamma_choice_spec (eps inf : K) (cands : List (K × K × K × K)) (g : K)
    (h : gammaSel eps inf cands = some g) :
    ∃ c ∈ cands, c.1 = g ∧ admitted eps c ∧ fGamma c < inf ∧
      ∀ c' ∈ cands, admitted eps c' → fGamma c ≤ fGamma c' := by
  unfold gammaSel at h
  simp only at h
  obtain ⟨_, f2, f3⟩ := gammaSel_fold eps cands (none, inf)
  split at h
  · cases h
  · rename_i hne
    rcases f3 with heq | ⟨c, hc, ha, h1, h2, h3⟩
    · rw [heq] at hne; simp at hne
    · refine ⟨c, hc, ?_, ha, by rw [← h2]; exact h3, fun c' hc' ha' => by rw [← h2]; exact f2 c' hc' ha'⟩
      rw [h1] at h
      exact Option.some.inj h

/-- **gamma_choice_none.** The `ValueError("Unable to initialize …")` exit is taken only when no
    admitted candidate has `f_gamma < inf`. -/
theorem gamma_choice_none (eps inf : K) (cands : List (K × K × K × K))
    (h : gammaSel eps inf cands = none) :
    ∀ c ∈ cands, admitted eps c → inf ≤ fGamma c := by
  unfold gammaSel at h
  simp only at h
  obtain ⟨_, f2, f3⟩ := gammaSel_fold eps cands (none, inf)
  split at h
  · rename_i heq
    have : (List.foldl (gammaSelStep eps) (none, inf) cands).2 = inf := by simpa using heq
    intro c hc ha
    rw [← this]; exact f2 c hc ha
  · rcases f3 with heq | ⟨c, _, _, h1, _, _⟩
    · rename_i hne; rw [heq] at hne; simp at hne
    · rw [h1] at h; cases h

/-- non-vacuity (integers standing for the doubles): three candidates, the first not admitted -/
example : gammaSel (1 : Int) 1000 [(1, 5, 7, 7), (2, 0, 3, 4), (3, 0, 1, 5), (4, 0, 1, 5)] = some 3 := by decide +kernel

end gamma

end QE.C06
