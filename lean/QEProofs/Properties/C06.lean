/-
  Property C06 — discrete Lyapunov and Riccati solvers (quantecon/_matrix_eqn.py).

  All statements are about the definitions of `QEModel/C06.lean` that the driver
  `qedriver_c06` executes, read as Mathlib matrices through `toMat`
  (`toMat n m A i j = A.get i j`). `K` is any commutative ring (any linearly
  ordered field for the statements involving the stopping rule).

  What is proved (algebraic core, all sizes, all iteration counts):
  * Lyapunov: after `k` passes the loop holds `A^(2^k)` and `Σ_{j<2^k} A^j B (A')^j`
    (`lyap_doubling_sum`); the residual of that partial sum is exactly the tail term
    (`lyap_residual`); the stopping rule tests the increment `α γ α'` (`lyap_increment`);
    symmetry (`lyap_symmetric`); a normal return is such a partial sum with the last
    increment ≤ tol entrywise and `2 ≤ n_its ≤ max_it` (`lyap_return_spec`); the ValueError
    exit reports a counter that really exceeds `max_it` (`lyap_raise_spec`).
  * Riccati: `X = H + γI` solves the equation with cross term iff `H` is a fixed point of the
    map built from the code's initial triple (`riccati_fixed_point_iff`); each pass updates `H`
    by that map for the current triple (`sda_step_H_is_map`); `G`, `H` stay symmetric
    (`ricc_init_symmetric`, `sda_step_symmetric`, `sda_iter_symmetric`,
    `ricc_returned_symmetric`); a normal return made `1 ≤ p ≤ max_iter` passes and its last
    error is ≤ tol (`ricc_return_spec`); the γ rule returns an admitted candidate of minimal
    `f_gamma` (`gamma_choice_spec`, `gamma_choice_none`).
  * Round 2. PSD `B` over an ordered field (quadratic forms, no spectral theory):
    `0 ⪯ residual_k ⪯ γ_(k+1) − γ_k` (`lyap_psd_order`); a normal return means the previous iterate
    solves the equation up to `tol` entrywise and the returned `X` up to `tol·r²`, `r` the absolute
    row sums of `A` (`lyap_psd_return_spec`; the factor is needed, see the example), hence up to
    `tol` when `‖A‖∞ ≤ 1` (`lyap_psd_return_le_tol`). Doubling identity of the structured step:
    the triple after `j` passes represents the `2^j`-fold composition of the one-step Riccati map
    (`sda_doubling_step`, `sda_doubling`, `sda_fixed_point_preserved`). Nilpotent `A`: the loop
    stops within `k+2` counted iterations and returns the exact, unique solution
    (`lyap_nilpotent_stops`, `lyap_nilpotent_exact`, `lyap_nilpotent_unique`); uniqueness for
    1×1 / diagonal `A` (`lyap_scalar_unique`, `lyap_diagonal_unique`).
  * Round 3. TOTAL CORRECTNESS of the Lyapunov doubling loop on the checkable domain `‖A‖∞ < 1`
    (max absolute row sum, executable `normInf`; nothing is assumed on `‖A‖₁`): iterates bounded by
    `C = ‖B‖_max/(1−‖A‖∞²)` and increments by `C·(‖A‖∞^(2^k))²` (`lyap_geometric_bounds`); the loop
    returns within `K + 2` counted iterations for the explicit `K` (`lyap_terminates`; existence of
    `K` in Archimedean fields: `lyap_terminates_archimedean`); for PSD `B` the returned `X` is PSD
    with residual ≤ tol entrywise (`lyap_total_correct`); for any `B` the residual is at most
    `‖B‖_max·(‖A‖∞^(2^(its-1)))²` (`lyap_return_residual_bound`); Cauchy bound against all longer
    partial sums (`lyap_partial_sums_cauchy`), distance to any exact solution
    (`lyap_error_to_solution`) and uniqueness of the solution (`lyap_solution_unique`). Termination
    also on the weighted domain `|A| w ≤ ρ w`, `w > 0`, `ρ < 1` (`lyap_terminates_weighted`).
  * Last round. The limit of the Lyapunov iteration over Archimedean fields: existence, uniqueness,
    bound, explicit rate, ε-convergence, PSD (`lyap_limit`), distance of every returned `X` to it
    (`lyap_return_distance_to_solution`). Riccati: `H_j` is the `2^j`-th value-iteration iterate from 0
    (`sda_H_is_riccati_iterate`); error formula `Xs − (H_j + γI) = A_j' (Xs − γI) Acl^(2^j)` with the
    closed-loop matrix of the original problem (`sda_fixed_point_closed_loop_power`,
    `ricc_closed_loop_is_witness`, `ricc_error_closed_loop`) and the end-to-end return contract
    (`ricc_return_error`).
  * Entry points (model `lyapEntry`, `mQuadraticSum`, `riccEntry`): the method `ValueError` is raised iff
    the method string is not one of the two legal ones (`lyapEntry_badMethod_iff`,
    `riccEntry_badMethod_iff`), delegation iff `bartels-stewart` (`lyapEntry_external_iff`), every
    `max_it ≤ 1` raises with `n_its = 2` (`lyapEntry_small_maxIt`), `m_quadratic_sum` returns the truncated
    series of its docstring (`mQuadraticSum_spec`), `N = None` is `zeros((n, k))` (`riccEntry_none_eq_zeros`).
  `np.linalg.solve` enters through the hypothesis `SolSpec` (returned solutions solve an
  invertible system); `np.linalg.cond` values are inputs of the γ rule.
  What is not proved (decided by the spec run of harness/c06.py only):
  convergence for Schur-stable `A` outside the (weighted) row-sum domain, the stabilising property and positive
  semidefiniteness of the Riccati limit, and everything on the SciPy paths.
-/
import QEProofs.Lemmas.C06Lyap
import QEProofs.Lemmas.C06Ricc
import QEProofs.Lemmas.C06Gamma
import QEProofs.Lemmas.C06Sda
import QEProofs.Lemmas.C06Norm
import QEProofs.Lemmas.C06NormW
import QEProofs.Lemmas.C06Exist
import Mathlib.Algebra.Order.Archimedean.Basic
import QEProofs.Lemmas.C06LyapPsd

namespace QE.C06
open QE QE.MatAlg Finset Matrix

section lyapunov
variable {K : Type} [CommRing K]

/-- **lyap_doubling_sum.** After `k` passes of lines 75-76 started from `(A, B)`,
    `alpha = A^(2^k)` and `gamma = Σ_{j<2^k} A^j B (A')^j` (all sizes `n`, all `k`). -/
theorem lyap_doubling_sum {n : ℕ} (A B : M K) (hA : Dim A n n) (hB : Dim B n n) (k : ℕ) :
    toMat n n (lyapIter A B k).1 = toMat n n A ^ (2 ^ k) ∧
    toMat n n (lyapIter A B k).2 =
      ∑ j ∈ range (2 ^ k), toMat n n A ^ j * toMat n n B * (toMat n n A)ᵀ ^ j := by
  induction k with
  | zero => simp [lyapIter]
  | succ k ih =>
    obtain ⟨hd1, hd2⟩ := lyapIter_dim hA hB k
    obtain ⟨h1, h2⟩ := lyapStep_toMat hd1 hd2
    rw [lyapIter_succ]
    refine ⟨?_, ?_⟩
    · rw [h1, ih.1, ← pow_add, pow_succ, mul_two]
    · rw [h2, ih.1, ih.2, transpose_pow, pow_succ, mul_comm (2 ^ k) 2]
      exact (dsum_double (toMat n n A) (toMat n n B) (toMat n n A)ᵀ (2 ^ k)).symm

example : (lyapIter (M.ofRows [[(1 : ℚ) / 2, 1], [0, 1 / 3]]) (M.ofRows [[1, 0], [0, 1]]) 2).1.get 0 1
    = 65 / 216 := by decide +kernel

/-- **lyap_residual.** The Lyapunov residual of what the loop holds after `k` passes is
    exactly the tail term: `A γ A' − γ + B = A^(2^k) B (A')^(2^k)`. -/
theorem lyap_residual {n : ℕ} (A B : M K) (hA : Dim A n n) (hB : Dim B n n) (k : ℕ) :
    toMat n n A * toMat n n (lyapIter A B k).2 * (toMat n n A)ᵀ - toMat n n (lyapIter A B k).2 + toMat n n B
      = toMat n n A ^ (2 ^ k) * toMat n n B * (toMat n n A)ᵀ ^ (2 ^ k) := by
  rw [(lyap_doubling_sum A B hA hB k).2]
  exact dsum_residual (toMat n n A) (toMat n n B) (toMat n n A)ᵀ (2 ^ k)

/-- **lyap_increment.** The matrix whose max-abs entry the stopping rule tests (line 78,
    `gamma1 - gamma0`) is the doubling term `A^(2^k) γ_k (A')^(2^k)`. -/
theorem lyap_increment {n : ℕ} (A B : M K) (hA : Dim A n n) (hB : Dim B n n) (k : ℕ) :
    toMat n n (msub (lyapIter A B (k + 1)).2 (lyapIter A B k).2)
      = toMat n n A ^ (2 ^ k) * toMat n n (lyapIter A B k).2 * (toMat n n A)ᵀ ^ (2 ^ k) := by
  obtain ⟨hd1, hd2⟩ := lyapIter_dim hA hB k
  obtain ⟨hd1', hd2'⟩ := lyapIter_dim hA hB (k + 1)
  rw [toMat_msub hd2', lyapIter_succ, (lyapStep_toMat hd1 hd2).2, (lyap_doubling_sum A B hA hB k).1,
    transpose_pow]
  abel

/-- **lyap_symmetric.** For symmetric `B` every iterate `gamma` is symmetric. -/
theorem lyap_symmetric {n : ℕ} (A B : M K) (hA : Dim A n n) (hB : Dim B n n)
    (hsym : (toMat n n B)ᵀ = toMat n n B) (k : ℕ) :
    (toMat n n (lyapIter A B k).2)ᵀ = toMat n n (lyapIter A B k).2 := by
  rw [(lyap_doubling_sum A B hA hB k).2, transpose_sum]
  apply sum_congr rfl
  intro j _
  rw [transpose_mul, transpose_mul, transpose_pow, transpose_pow, transpose_transpose, hsym, mul_assoc]

end lyapunov

section lyapunov_loop
variable {K : Type} [Field K] [LinearOrder K] [IsStrictOrderedRing K]

/-- **lyap_return_spec.** Whenever `solve_discrete_lyapunov(A, B, max_it)` (doubling, tolerance
    `tol`) returns normally with final counter `its`, then `2 ≤ its ≤ max_it`, the returned `X` is
    the partial sum with `2^(its-1)` terms, its residual `A X A' − X + B` is the tail term
    `A^m B (A')^m`, `m = 2^(its-1)`, and every entry of the last increment `X − γ_(its-2)` is at most
    `tol` in absolute value. (Whether the tail term is small is the convergence question, which
    needs `A` Schur stable and is not proved here.) -/
theorem lyap_return_spec {n : ℕ} (tol : K) (maxIt : ℕ) (A B X : M K) (its : ℕ) (ds : List K)
    (hA : Dim A n n) (hB : Dim B n n) (h : lyapDoubling tol maxIt A B = .ok X its ds) :
    2 ≤ its ∧ its ≤ maxIt ∧
    toMat n n X = ∑ j ∈ range (2 ^ (its - 1)), toMat n n A ^ j * toMat n n B * (toMat n n A)ᵀ ^ j ∧
    toMat n n A * toMat n n X * (toMat n n A)ᵀ - toMat n n X + toMat n n B
      = toMat n n A ^ (2 ^ (its - 1)) * toMat n n B * (toMat n n A)ᵀ ^ (2 ^ (its - 1)) ∧
    ∀ i j : Fin n, |(toMat n n X - toMat n n (lyapIter A B (its - 2)).2) i j| ≤ tol := by
  unfold lyapDoubling at h
  obtain ⟨j, hj, hits, hle, hX, hd⟩ := lyapLoop_ok tol maxIt A B (maxIt + 1) 1 0 [] X its ds h
  have hj1 : its - 1 = j := by omega
  have hj2 : its - 2 = j - 1 := by omega
  refine ⟨by omega, hle, ?_, ?_, ?_⟩
  · rw [hj1, hX]; exact (lyap_doubling_sum A B hA hB j).2
  · rw [hj1, hX]; exact lyap_residual A B hA hB j
  · intro a b
    rw [hj2, hX]
    obtain ⟨_, hdj⟩ := lyapIter_dim hA hB j
    have hle' := not_lt.mp hd
    unfold lyapDiff at hle'
    have hD : Dim (msub (lyapIter A B j).2 (lyapIter A B (j - 1)).2) n n := dim_msub hdj
    have := abs_get_le_maxAbs (msub (lyapIter A B j).2 (lyapIter A B (j - 1)).2) a b
      (by rw [hD.nr]; exact a.2) (by rw [hD.nc]; exact b.2)
    rw [← toMat_msub hdj]
    exact le_trans this hle'

/-- non-vacuity: the loop does return normally on a stable input (here after 7 counted iterations) -/
example : (lyapDoubling ((1 : ℚ) / 1000000000000000) 50 (M.ofRows [[1 / 2]]) (M.ofRows [[1]])).its?
    = some 7 := by decide +kernel

/-- **lyap_raise_spec.** The `ValueError` exit reports a counter that really exceeds `max_it`
    (it is never an artefact of the model's fuel). -/
theorem lyap_raise_spec (tol : K) (maxIt : ℕ) (A B : M K) (n : ℕ) (ds : List K)
    (h : lyapDoubling tol maxIt A B = .maxit n ds) : maxIt < n := by
  unfold lyapDoubling at h
  exact lyapLoop_maxit_real tol maxIt (maxIt + 1) 1 _ _ n ds (by omega) h

end lyapunov_loop

section riccati
variable {K : Type} [CommRing K]

/-- **sda_step_symmetric.** One structured-doubling pass (lines 214-216) keeps `G` and `H`
    symmetric, for every size `k` and every `solve` that returns solutions of invertible systems
    (`SolSpec`; LAPACK itself is not modelled). -/
theorem sda_step_symmetric {k : ℕ} (sol : M K → M K → Option (M K)) (hsol : SolSpec sol k) (s s1 : Sda K)
    (hA : Dim s.A k k) (hG : Dim s.G k k) (hH : Dim s.H k k)
    (hGs : (toMat k k s.G)ᵀ = toMat k k s.G) (hHs : (toMat k k s.H)ᵀ = toMat k k s.H)
    (h : sdaStep sol s = some s1) :
    (Dim s1.A k k ∧ Dim s1.G k k ∧ Dim s1.H k k) ∧
    (toMat k k s1.G)ᵀ = toMat k k s1.G ∧ (toMat k k s1.H)ᵀ = toMat k k s1.H := by
  obtain ⟨dA, dG, dH, S1, S2, S3, V1, V2, e1, e2, e3, v1a, v1b, v2a, v2b, rA, rG, rH⟩ :=
    sdaStep_toMat sol hsol s s1 hA hG hH h
  refine ⟨⟨dA, dG, dH⟩, ?_, ?_⟩
  · rw [rG, transpose_add, hGs, sda_G_term_symm _ _ _ _ hGs hHs e2]
  · rw [rH, transpose_add, hHs, sda_H_term_symm _ _ _ _ V2 hGs hHs v2a e3]

/-- **sda_iter_symmetric.** Along the whole structured-doubling iteration (any number of passes)
    `G_j` and `H_j` stay symmetric — hence so is the returned `X = H + gamma I` — provided the
    initial `G0`, `H0` are. -/
theorem sda_iter_symmetric {k : ℕ} (sol : M K → M K → Option (M K)) (hsol : SolSpec sol k) (s : Sda K)
    (hA : Dim s.A k k) (hG : Dim s.G k k) (hH : Dim s.H k k)
    (hGs : (toMat k k s.G)ᵀ = toMat k k s.G) (hHs : (toMat k k s.H)ᵀ = toMat k k s.H) :
    ∀ (j : ℕ) (sj : Sda K), sdaIter sol s j = some sj →
      (Dim sj.A k k ∧ Dim sj.G k k ∧ Dim sj.H k k) ∧
      (toMat k k sj.G)ᵀ = toMat k k sj.G ∧ (toMat k k sj.H)ᵀ = toMat k k sj.H := by
  intro j
  induction j with
  | zero =>
    intro sj h
    simp only [sdaIter, Option.some.injEq] at h
    subst h
    exact ⟨⟨hA, hG, hH⟩, hGs, hHs⟩
  | succ j ih =>
    intro sj h
    simp only [sdaIter] at h
    cases hprev : sdaIter sol s j with
    | none => rw [hprev] at h; cases h
    | some sp =>
      rw [hprev] at h
      obtain ⟨⟨dA, dG, dH⟩, gs, hs⟩ := ih sp hprev
      exact sda_step_symmetric sol hsol sp sj dA dG dH gs hs h

/-- non-vacuity: `SolSpec` is satisfied by the exact 1×1 solver, and the pass does run with it -/
example : SolSpec (sol1 : M ℚ → M ℚ → Option (M ℚ)) 1 := sol1_spec
example : (sdaIter sol1 (⟨M.ofRows [[(1 : ℚ) / 2]], M.ofRows [[1 / 2]], M.ofRows [[1 / 2]]⟩ : Sda ℚ) 3).isSome
    = true := by decide +kernel

/-- **sda_step_H_is_map.** The `H`-update of a structured-doubling pass is the map of
    `riccati_fixed_point_iff` for the current triple, evaluated at the current `H`:
    `H1 = H + A' H (I + G H)^{-1} A` (in particular the first pass applies the fixed-point map
    of the initial triple to `H0`). -/
theorem sda_step_H_is_map {k : ℕ} (sol : M K → M K → Option (M K)) (hsol : SolSpec sol k) (s s1 : Sda K)
    (hA : Dim s.A k k) (hG : Dim s.G k k) (hH : Dim s.H k k) (h : sdaStep sol s = some s1) :
    ∃ Wi : Matrix (Fin k) (Fin k) K, (1 + toMat k k s.G * toMat k k s.H) * Wi = 1 ∧
      toMat k k s1.H = toMat k k s.H + (toMat k k s.A)ᵀ * (toMat k k s.H * Wi) * toMat k k s.A := by
  obtain ⟨_, _, _, S1, S2, S3, V1, V2, e1, e2, e3, v1a, v1b, v2a, v2b, rA, rG, rH⟩ :=
    sdaStep_toMat sol hsol s s1 hA hG hH h
  refine ⟨V1, v1b, ?_⟩
  have hS3 : S3 = V2 * (toMat k k s.H * toMat k k s.A) := by
    rw [← e3, ← Matrix.mul_assoc, v2a, Matrix.one_mul]
  -- push-through: V2 H = H V1
  have hpush : V2 * toMat k k s.H = toMat k k s.H * V1 := by
    calc V2 * toMat k k s.H
        = V2 * toMat k k s.H * ((1 + toMat k k s.G * toMat k k s.H) * V1) := by rw [v1b, Matrix.mul_one]
      _ = (V2 * (1 + toMat k k s.H * toMat k k s.G)) * toMat k k s.H * V1 := by noncomm_ring
      _ = toMat k k s.H * V1 := by rw [v2a, Matrix.one_mul]
  rw [rH, hS3, ← Matrix.mul_assoc V2, hpush]
  noncomm_ring

/-- **ricc_init_symmetric.** For symmetric `Q` and `R` the initial `G0` and `H0` (lines 201-204)
    are symmetric; with `sda_iter_symmetric` every `H_j`, hence the returned `X = H + gamma I`,
    is symmetric. -/
theorem ricc_init_symmetric {k n : ℕ} (sol : M K → M K → Option (M K)) (hsol : SolSpec sol n) (g : K)
    (A B Q R N : M K) (s0 : Sda K)
    (hA : Dim A k k) (hB : Dim B k n) (hQ : Dim Q k k) (hR : Dim R n n) (hN : Dim N n k)
    (hQs : (toMat k k Q)ᵀ = toMat k k Q) (hRs : (toMat n n R)ᵀ = toMat n n R)
    (h0 : riccInit sol g A B Q R N = some s0) :
    (Dim s0.A k k ∧ Dim s0.G k k ∧ Dim s0.H k k) ∧
    (toMat k k s0.G)ᵀ = toMat k k s0.G ∧ (toMat k k s0.H)ᵀ = toMat k k s0.H := by
  obtain ⟨dA, dG, dH, V, _, vb, _, eG, eH⟩ := riccInit_toMat sol hsol g A B Q R N s0 hA hB hQ hR hN h0
  have hRht : (toMat n n R + g • ((toMat k n B)ᵀ * toMat k n B))ᵀ
      = toMat n n R + g • ((toMat k n B)ᵀ * toMat k n B) := by
    rw [transpose_add, transpose_smul, transpose_mul, transpose_transpose, hRs]
  have hV : Vᵀ = V := by
    have h1 : Vᵀ * (toMat n n R + g • ((toMat k n B)ᵀ * toMat k n B)) = 1 := by
      rw [← hRht, ← transpose_mul, vb, transpose_one]
    calc Vᵀ = Vᵀ * ((toMat n n R + g • ((toMat k n B)ᵀ * toMat k n B)) * V) := by rw [vb, Matrix.mul_one]
      _ = (Vᵀ * (toMat n n R + g • ((toMat k n B)ᵀ * toMat k n B))) * V := by rw [Matrix.mul_assoc]
      _ = V := by rw [h1, Matrix.one_mul]
  refine ⟨⟨dA, dG, dH⟩, ?_, ?_⟩
  · rw [eG, transpose_mul, transpose_mul, transpose_transpose, hV, Matrix.mul_assoc]
  · rw [eH]
    simp only [transpose_sub, transpose_add, transpose_smul, transpose_mul, transpose_transpose,
      transpose_one, hQs, hV, Matrix.mul_assoc]

/-- **riccati_fixed_point_iff.** Let `(A0, G0, H0)` be the initial triple the code builds for the
    chosen `gamma` (lines 198-204, `riccInit`), `R` symmetric. For every symmetric `H` such that
    `R + B'XB` (with `X = H + gamma I`) and `I + G0 H` are invertible (`Si`, `Wi` their inverses):
    `X` solves the Riccati equation with cross term,
      `X = A'XA − (N + B'XA)'(R + B'XB)^{-1}(N + B'XA) + Q`,
    **iff** `H` is a fixed point of the map the doubling iterates,
      `H = H0 + A0' H (I + G0 H)^{-1} A0`.
    All sizes `k`, `n`; any `solve` satisfying `SolSpec`. (That the loop converges to such a fixed
    point, and to the stabilising one, is not proved.) -/
theorem riccati_fixed_point_iff {k n : ℕ} (sol : M K → M K → Option (M K)) (hsol : SolSpec sol n) (g : K)
    (A B Q R N : M K) (s0 : Sda K)
    (hA : Dim A k k) (hB : Dim B k n) (hQ : Dim Q k k) (hR : Dim R n n) (hN : Dim N n k)
    (hRs : (toMat n n R)ᵀ = toMat n n R)
    (h0 : riccInit sol g A B Q R N = some s0)
    (H Wi : Matrix (Fin k) (Fin k) K) (Si : Matrix (Fin n) (Fin n) K) (hH : Hᵀ = H)
    (hSi1 : Si * (toMat n n R + (toMat k n B)ᵀ * (H + g • (1 : Matrix (Fin k) (Fin k) K)) * toMat k n B) = 1)
    (hSi2 : (toMat n n R + (toMat k n B)ᵀ * (H + g • (1 : Matrix (Fin k) (Fin k) K)) * toMat k n B) * Si = 1)
    (hW : (1 + toMat k k s0.G * H) * Wi = 1) :
    (H + g • (1 : Matrix (Fin k) (Fin k) K)
        = (toMat k k A)ᵀ * (H + g • (1 : Matrix (Fin k) (Fin k) K)) * toMat k k A
          - (toMat n k N + (toMat k n B)ᵀ * (H + g • (1 : Matrix (Fin k) (Fin k) K)) * toMat k k A)ᵀ * Si
            * (toMat n k N + (toMat k n B)ᵀ * (H + g • (1 : Matrix (Fin k) (Fin k) K)) * toMat k k A)
          + toMat k k Q)
    ↔ H = toMat k k s0.H + (toMat k k s0.A)ᵀ * (H * Wi) * toMat k k s0.A := by
  obtain ⟨_, _, _, V, _, vb, eA, eG, eH⟩ := riccInit_toMat sol hsol g A B Q R N s0 hA hB hQ hR hN h0
  rw [eG] at hW
  rw [eA, eH]
  exact dare_iff_sda_form (toMat k k A) (toMat k k Q) H Wi _ (toMat k n B) (toMat n k N) _
    (toMat n n R) _ V _ Si g hH hRs rfl rfl rfl rfl vb hSi1 hSi2 hW

/-- non-vacuity: with the exact 1×1 solver the initial triple exists (A=B=Q=1, R=2, N=0, gamma=1;
    the Riccati solution of this instance is X = 2, i.e. H = 1) -/
example : (riccInit sol1 (1 : ℚ) (M.ofRows [[1]]) (M.ofRows [[1]]) (M.ofRows [[1]]) (M.ofRows [[2]])
    (M.ofRows [[0]])).isSome = true := by decide +kernel

end riccati

section riccati_loop
variable {K : Type} [Field K] [LinearOrder K] [IsStrictOrderedRing K]

/-- **ricc_return_spec.** Whenever `solve_discrete_riccati(..., method="doubling")` (after the choice
    of `gamma`) returns normally, it made `1 ≤ p ≤ max_iter` structured-doubling passes from the
    initial triple, the returned matrix is `H_p + gamma I`, and the last error
    `max|H_p − H_(p-1)|` is at most `tol`. -/
theorem ricc_return_spec (sol : M K → M K → Option (M K)) (tol : K) (maxIter : ℕ) (g : K)
    (A B Q R N X : M K) (p : ℕ) (es : List K)
    (h : riccDoubling sol tol maxIter g A B Q R N = some (.ok X p es)) :
    ∃ s0 sp sprev, riccInit sol g A B Q R N = some s0 ∧ 1 ≤ p ∧ p ≤ maxIter ∧
      sdaIter sol s0 p = some sp ∧ sdaIter sol s0 (p - 1) = some sprev ∧
      X = madd sp.H (smul g (ident Q.nr)) ∧ maxAbs gabs (msub sp.H sprev.H) ≤ tol := by
  unfold riccDoubling at h
  cases h0 : riccInit sol g A B Q R N with
  | none => rw [h0] at h; cases h
  | some s0 =>
    rw [h0] at h
    simp only at h
    cases hl : riccLoop sol tol maxIter (maxIter + 2) 1 (tol + 1) s0 none [] with
    | ok H p' es' =>
      rw [hl] at h
      simp only [Option.some.injEq, RiccOut.ok.injEq] at h
      obtain ⟨hX, hp, _⟩ := h
      subst hp
      obtain ⟨sp, sprev, h1, h2, hsp, hH, hprev, herr⟩ :=
        riccLoop_ok sol tol maxIter s0 (maxIter + 2) 0 (tol + 1) s0 none [] H p' es' hl rfl
          (by intro Hl hc; cases hc)
      exact ⟨s0, sp, sprev, rfl, h1, h2, hsp, hprev, by rw [← hX, hH], herr⟩
    | maxit i es' => rw [hl] at h; simp at h
    | singular q => rw [hl] at h; simp at h
    | unbound => rw [hl] at h; simp at h

/-- **ricc_returned_symmetric.** For symmetric `Q`, `R` (all sizes `k`, `n`), whatever number of
    passes the loop makes, a normally returned `X` is symmetric. -/
theorem ricc_returned_symmetric {k n : ℕ} (sol : M K → M K → Option (M K))
    (hsolk : SolSpec sol k) (hsoln : SolSpec sol n) (tol : K) (maxIter : ℕ) (g : K)
    (A B Q R N X : M K) (p : ℕ) (es : List K)
    (hA : Dim A k k) (hB : Dim B k n) (hQ : Dim Q k k) (hR : Dim R n n) (hN : Dim N n k)
    (hQs : (toMat k k Q)ᵀ = toMat k k Q) (hRs : (toMat n n R)ᵀ = toMat n n R)
    (h : riccDoubling sol tol maxIter g A B Q R N = some (.ok X p es)) :
    (toMat k k X)ᵀ = toMat k k X := by
  obtain ⟨s0, sp, sprev, h0, _, _, hsp, _, hX, _⟩ := ricc_return_spec sol tol maxIter g A B Q R N X p es h
  obtain ⟨⟨dA, dG, dH⟩, gs, hs⟩ := ricc_init_symmetric sol hsoln g A B Q R N s0 hA hB hQ hR hN hQs hRs h0
  obtain ⟨⟨_, _, dHp⟩, _, hps⟩ := sda_iter_symmetric sol hsolk s0 dA dG dH gs hs p sp hsp
  have hI : Dim (ident Q.nr : M K) k k := by rw [hQ.nr]; exact dim_ident k
  have hIm : toMat k k (ident Q.nr : M K) = 1 := by rw [hQ.nr]; exact toMat_ident k
  rw [hX, toMat_madd dHp, toMat_smul g hI, hIm, transpose_add, hps, transpose_smul, transpose_one]

end riccati_loop

section gamma
variable {K : Type} [LinearOrder K] [Mul K] [One K]

/-- **gamma_choice_spec.** The rule of lines 172-195, on the condition numbers the code computed
    (`c = (gamma, cond(Z), cond(Z,inf), cond(I+G0H0))`): a returned `gamma` belongs to a candidate
    that passed `cn * EPS < 1`, whose `f_gamma = max(f1, gamma f1, f3)` is below `inf` and minimal
    among all admitted candidates. -/
theorem gamma_choice_spec (eps inf : K) (cands : List (K × K × K × K)) (g : K)
    (h : gammaSel eps inf cands = some g) :
    ∃ c ∈ cands, c.1 = g ∧ admitted eps c ∧ fGamma c < inf ∧
      ∀ c' ∈ cands, admitted eps c' → fGamma c ≤ fGamma c' := by
  unfold gammaSel at h
  simp only at h
  obtain ⟨_, f2, f3⟩ := gammaSel_fold eps cands (none, inf)
  split at h
  · cases h
  · rename_i hne
    rcases f3 with heq | ⟨c, hc, ha, h1, h2, h3⟩
    · rw [heq] at hne; simp at hne
    · refine ⟨c, hc, ?_, ha, by rw [← h2]; exact h3, fun c' hc' ha' => by rw [← h2]; exact f2 c' hc' ha'⟩
      rw [h1] at h
      exact Option.some.inj h

/-- **gamma_choice_none.** The `ValueError("Unable to initialize …")` exit is taken only when no
    admitted candidate has `f_gamma < inf`. -/
theorem gamma_choice_none (eps inf : K) (cands : List (K × K × K × K))
    (h : gammaSel eps inf cands = none) :
    ∀ c ∈ cands, admitted eps c → inf ≤ fGamma c := by
  unfold gammaSel at h
  simp only at h
  obtain ⟨_, f2, f3⟩ := gammaSel_fold eps cands (none, inf)
  split at h
  · rename_i heq
    have : (List.foldl (gammaSelStep eps) (none, inf) cands).2 = inf := by simpa using heq
    intro c hc ha
    rw [← this]; exact f2 c hc ha
  · rcases f3 with heq | ⟨c, _, _, h1, _, _⟩
    · rename_i hne; rw [heq] at hne; simp at hne
    · rw [h1] at h; cases h

/-- non-vacuity (integers standing for the doubles): three candidates, the first not admitted -/
example : gammaSel (1 : Int) 1000 [(1, 5, 7, 7), (2, 0, 3, 4), (3, 0, 1, 5), (4, 0, 1, 5)] = some 3 := by decide +kernel

end gamma

section lyapunov_psd
variable {K : Type} [Field K] [LinearOrder K] [IsStrictOrderedRing K]

/-- **lyap_psd_order.** For symmetric positive semidefinite `B` (`PSD`: symmetric, `xᵀBx ≥ 0` for all
    `x` over the ordered field) and every `k ≥ 0`, in the Loewner order
    `0 ⪯ residual_k = A^(2^k) B (A')^(2^k) ⪯ A^(2^k) γ_k (A')^(2^k) = γ_(k+1) − γ_k`,
    with `residual_k = A γ_k A' − γ_k + B`. Also `γ_k ⪰ B ⪰ 0`. -/
theorem lyap_psd_order {n : ℕ} (A B : M K) (hA : Dim A n n) (hB : Dim B n n) (hpsd : PSD (toMat n n B))
    (k : ℕ) :
    PSD (toMat n n (lyapIter A B k).2 - toMat n n B) ∧
    PSD (toMat n n A * toMat n n (lyapIter A B k).2 * (toMat n n A)ᵀ - toMat n n (lyapIter A B k).2
          + toMat n n B) ∧
    PSD (toMat n n (msub (lyapIter A B (k + 1)).2 (lyapIter A B k).2)
          - (toMat n n A * toMat n n (lyapIter A B k).2 * (toMat n n A)ᵀ - toMat n n (lyapIter A B k).2
              + toMat n n B)) := by
  obtain ⟨m, hm⟩ : ∃ m, 2 ^ k = m + 1 := ⟨2 ^ k - 1, by have := Nat.one_le_two_pow (n := k); omega⟩
  have hsum : toMat n n (lyapIter A B k).2 = dsum (toMat n n A) (toMat n n B) (toMat n n A)ᵀ (m + 1) := by
    rw [(lyap_doubling_sum A B hA hB k).2, hm]; rfl
  rw [lyap_residual A B hA hB k, lyap_increment A B hA hB k, hsum, hm]
  exact ⟨dsum_sub_psd _ hpsd m, (tail_le_next_increment _ hpsd m).1, (tail_le_next_increment _ hpsd m).2⟩

/-- **lyap_psd_return_spec.** Exact-arithmetic meaning of a normal return for PSD `B`.
    Let `X = γ_j` be returned (`j = its − 1`), `γ_(j-1)` the previous iterate; the loop has tested
    `max|X − γ_(j-1)| ≤ tol`. Then
    1. the **previous** iterate solves the equation up to `tol` entrywise:
       `|(A γ_(j-1) A' − γ_(j-1) + B)_pq| ≤ tol`;
    2. the residual `R = A X A' − X + B` of the **returned** `X` is PSD and `R ⪯ A (X − γ_(j-1)) A'`,
       hence `0 ≤ R_pp ≤ tol·r_p²` and `2|R_pq| ≤ tol·(r_p² + r_q²)` with `r_p = Σ_c |A_pc|`.
    The factor `r²` cannot be dropped: for `A = (2)`, `B = (b)`, `4b ≤ tol < 16b` the loop returns after
    one pass with residual `16b > tol` (exact arithmetic); for `‖A‖∞ ≤ 1` see `lyap_psd_return_le_tol`.

    Why a stopping rule `abs(max(γ1 − γ0))` in place of `max(abs(γ1 − γ0))` is invisible on PSD `B`:
    the tested matrix is the increment `α γ α'`, PSD by `lyap_psd_order`, and for a PSD matrix the
    largest entry is a (non-negative) diagonal entry which also dominates all absolute values
    (`psd_abs_le_max_diag`: `|m_pq| ≤ max(m_pp, m_qq)`); off-diagonal entries can be negative but never
    larger in modulus. So both expressions coincide exactly; they differ only for indefinite `B`. -/
theorem lyap_psd_return_spec {n : ℕ} (tol : K) (maxIt : ℕ) (A B X : M K) (its : ℕ) (ds : List K)
    (hA : Dim A n n) (hB : Dim B n n) (hpsd : PSD (toMat n n B))
    (h : lyapDoubling tol maxIt A B = .ok X its ds) :
    (∀ p q : Fin n,
      |(toMat n n A * toMat n n (lyapIter A B (its - 2)).2 * (toMat n n A)ᵀ
          - toMat n n (lyapIter A B (its - 2)).2 + toMat n n B) p q| ≤ tol) ∧
    PSD (toMat n n A * toMat n n X * (toMat n n A)ᵀ - toMat n n X + toMat n n B) ∧
    (∀ p : Fin n, (toMat n n A * toMat n n X * (toMat n n A)ᵀ - toMat n n X + toMat n n B) p p
        ≤ tol * (∑ c, |toMat n n A p c|) ^ 2) ∧
    (∀ p q : Fin n, 2 * |(toMat n n A * toMat n n X * (toMat n n A)ᵀ - toMat n n X + toMat n n B) p q|
        ≤ tol * ((∑ c, |toMat n n A p c|) ^ 2 + (∑ c, |toMat n n A q c|) ^ 2)) := by
  obtain ⟨h2, _, hX, hres, hinc⟩ := lyap_return_spec tol maxIt A B X its ds hA hB h
  obtain ⟨k, hk⟩ : ∃ k, its = k + 2 := ⟨its - 2, by omega⟩
  subst hk
  have e1 : k + 2 - 1 = k + 1 := by omega
  have e2 : k + 2 - 2 = k := by omega
  rw [e1] at hX hres
  rw [e2] at hinc ⊢
  obtain ⟨_, hd⟩ := lyapIter_dim hA hB (k + 1)
  -- the tested increment
  have hXk : toMat n n X = toMat n n (lyapIter A B (k + 1)).2 := by
    rw [hX, (lyap_doubling_sum A B hA hB (k + 1)).2]
  have hD : toMat n n X - toMat n n (lyapIter A B k).2
      = toMat n n (msub (lyapIter A B (k + 1)).2 (lyapIter A B k).2) := by
    rw [toMat_msub hd, hXk]
  obtain ⟨_, hRprev, hle⟩ := lyap_psd_order A B hA hB hpsd k
  rw [← hD] at hle
  -- 1. previous iterate
  have hdiag : ∀ p : Fin n, (toMat n n A * toMat n n (lyapIter A B k).2 * (toMat n n A)ᵀ
      - toMat n n (lyapIter A B k).2 + toMat n n B) p p ≤ tol := fun p =>
    le_trans (psd_diag_mono hle p) (le_trans (le_abs_self _) (hinc p p))
  refine ⟨fun p q => ?_, ?_⟩
  · have := psd_two_abs_le hRprev p q
    have := hdiag p; have := hdiag q
    linarith
  -- 2. returned iterate
  obtain ⟨m, hm⟩ : ∃ m, 2 ^ k = m + 1 := ⟨2 ^ k - 1, by have := Nat.one_le_two_pow (n := k); omega⟩
  have hpow : 2 ^ (k + 1) = 2 * (m + 1) := by rw [pow_succ, hm]; ring
  have hXs : toMat n n X = dsum (toMat n n A) (toMat n n B) (toMat n n A)ᵀ (2 * (m + 1)) := by
    rw [hX, hpow]; rfl
  have hGs : toMat n n (lyapIter A B k).2 = dsum (toMat n n A) (toMat n n B) (toMat n n A)ᵀ (m + 1) := by
    rw [(lyap_doubling_sum A B hA hB k).2, hm]; rfl
  have hconj := tail_le_conj_increment (toMat n n A) hpsd m
  rw [← hXs, ← hGs, ← hpow, ← hres] at hconj
  have hRpsd : PSD (toMat n n A * toMat n n X * (toMat n n A)ᵀ - toMat n n X + toMat n n B) := by
    rw [hres]; exact tterm_psd _ hpsd _
  have hdiag2 : ∀ p : Fin n, (toMat n n A * toMat n n X * (toMat n n A)ᵀ - toMat n n X + toMat n n B) p p
      ≤ tol * (∑ c, |toMat n n A p c|) ^ 2 := fun p =>
    le_trans (psd_diag_mono hconj p) (conj_diag_le _ _ tol hinc p)
  refine ⟨hRpsd, hdiag2, fun p q => ?_⟩
  have := psd_two_abs_le hRpsd p q
  have := hdiag2 p; have := hdiag2 q
  linarith

/-- **lyap_psd_return_le_tol.** If moreover `‖A‖∞ ≤ 1` (every absolute row sum at most 1), a normal
    return for PSD `B` means `A X A' − X + B = 0` up to `tol` (the code's `1e-15`) in every entry,
    in exact arithmetic. -/
theorem lyap_psd_return_le_tol {n : ℕ} (tol : K) (maxIt : ℕ) (A B X : M K) (its : ℕ) (ds : List K)
    (hA : Dim A n n) (hB : Dim B n n) (hpsd : PSD (toMat n n B))
    (hrow : ∀ p : Fin n, ∑ c, |toMat n n A p c| ≤ 1)
    (h : lyapDoubling tol maxIt A B = .ok X its ds) :
    ∀ p q : Fin n, |(toMat n n A * toMat n n X * (toMat n n A)ᵀ - toMat n n X + toMat n n B) p q| ≤ tol := by
  obtain ⟨_, _, _, _, hinc⟩ := lyap_return_spec tol maxIt A B X its ds hA hB h
  obtain ⟨_, _, _, h4⟩ := lyap_psd_return_spec tol maxIt A B X its ds hA hB hpsd h
  intro p q
  have htol : 0 ≤ tol := le_trans (abs_nonneg _) (hinc p q)
  have hsq : ∀ r : Fin n, (∑ c, |toMat n n A r c|) ^ 2 ≤ 1 := fun r => by
    have h0 : 0 ≤ ∑ c, |toMat n n A r c| := sum_nonneg fun c _ => abs_nonneg _
    nlinarith [hrow r]
  have := h4 p q
  nlinarith [hsq p, hsq q]

/-- non-vacuity: the identity is PSD; the loop returns normally on a PSD instance with `‖A‖∞ ≤ 1` -/
example : PSD (toMat 2 2 (ident 2 : M ℚ)) := by
  rw [toMat_ident]
  refine ⟨transpose_one, fun x => ?_⟩
  unfold qf
  rw [one_mulVec]
  exact Finset.sum_nonneg fun i _ => mul_self_nonneg (x i)
example : (lyapDoubling ((1 : ℚ) / 1000000000000000) 50 (M.ofRows [[1 / 2, 1 / 4], [0, 1 / 3]]) (ident 2)).its?
    = some 7 := by decide +kernel
/-- the factor `r²` of `lyap_psd_return_spec` is needed: `A = (2)`, `B = (1/5)`, `tol = 1` returns after one
    pass with `X = 1`, whose residual `4·1 − 1 + 1/5 = 16/5` exceeds `tol` -/
example : (lyapDoubling (1 : ℚ) 50 (M.ofRows [[2]]) (M.ofRows [[1 / 5]])).its? = some 2 := by decide +kernel

/-- **lyap_psd_increment_max_on_diagonal.** For PSD `B` the matrix tested by the stopping rule,
    `D = γ_(k+1) − γ_k`, is PSD, so every entry satisfies `|D_pq| ≤ max(D_pp, D_qq)` and `D_pp ≥ 0`:
    the largest entry of `D` is a diagonal entry and equals `max|D|`. (This is why the seeded change
    `abs(max(γ1 − γ0))` for `max(abs(γ1 − γ0))` cannot be seen on PSD `B`; entries of `D` may still
    be negative off the diagonal.) -/
theorem lyap_psd_increment_max_on_diagonal {n : ℕ} (A B : M K) (hA : Dim A n n) (hB : Dim B n n)
    (hpsd : PSD (toMat n n B)) (k : ℕ) :
    PSD (toMat n n (msub (lyapIter A B (k + 1)).2 (lyapIter A B k).2)) ∧
    ∀ p q : Fin n,
      0 ≤ toMat n n (msub (lyapIter A B (k + 1)).2 (lyapIter A B k).2) p p ∧
      |toMat n n (msub (lyapIter A B (k + 1)).2 (lyapIter A B k).2) p q|
        ≤ max (toMat n n (msub (lyapIter A B (k + 1)).2 (lyapIter A B k).2) p p)
              (toMat n n (msub (lyapIter A B (k + 1)).2 (lyapIter A B k).2) q q) := by
  obtain ⟨_, h2, h3⟩ := lyap_psd_order A B hA hB hpsd k
  have hD : PSD (toMat n n (msub (lyapIter A B (k + 1)).2 (lyapIter A B k).2)) := by
    have := psd_add h3 h2
    rwa [sub_add_cancel] at this
  exact ⟨hD, fun p q => ⟨psd_diag_nonneg hD p, psd_abs_le_max_diag hD p q⟩⟩

end lyapunov_psd

section doubling
variable {K : Type} [CommRing K]

/-- **sda_doubling_step.** One structured-doubling pass squares the Riccati map: if `Y` is a value of
    the map `X ↦ H + A' X (I + G X)^{-1} A` of the current triple at `X` and `Z` a value at `Y`, then
    `Z` is a value at `X` of the map of the stepped triple (`PhiRel`: the inverse is given by a witness;
    with `I + G X` invertible it is the function value, `phiRel_iff_of_inv`). `G`, `H` symmetric. -/
theorem sda_doubling_step {k : ℕ} (sol : M K → M K → Option (M K)) (hsol : SolSpec sol k) (s s1 : Sda K)
    (hA : Dim s.A k k) (hG : Dim s.G k k) (hH : Dim s.H k k)
    (hGs : (toMat k k s.G)ᵀ = toMat k k s.G) (hHs : (toMat k k s.H)ᵀ = toMat k k s.H)
    (h : sdaStep sol s = some s1) (X Y Z : Matrix (Fin k) (Fin k) K)
    (hXY : PhiRel (toMat k k s.A) (toMat k k s.G) (toMat k k s.H) X Y)
    (hYZ : PhiRel (toMat k k s.A) (toMat k k s.G) (toMat k k s.H) Y Z) :
    PhiRel (toMat k k s1.A) (toMat k k s1.G) (toMat k k s1.H) X Z := by
  obtain ⟨V, va, _, eA, eG, eH⟩ := sdaStep_forms sol hsol s s1 hA hG hH h
  obtain ⟨S, hS, hY⟩ := hXY
  obtain ⟨T, hT, hZ⟩ := hYZ
  rw [hY] at hT hZ
  obtain ⟨c1, c2⟩ := sda_compose _ _ _ V X S T hGs hHs va hS hT
  refine ⟨S * T, ?_, ?_⟩
  · rw [eG, eA]; exact c1
  · rw [hZ, eH, eA]; exact c2

/-- **sda_doubling (T2).** The triple after `j` passes represents the `2^j`-fold composition of the
    one-step Riccati map of the initial triple: every `2^j`-fold iterate `Y` of the map of `s` started
    at `X` is a value at `X` of the map of `s_j` (all sizes, all `j`; `G0`, `H0` symmetric). -/
theorem sda_doubling {k : ℕ} (sol : M K → M K → Option (M K)) (hsol : SolSpec sol k) (s : Sda K)
    (hA : Dim s.A k k) (hG : Dim s.G k k) (hH : Dim s.H k k)
    (hGs : (toMat k k s.G)ᵀ = toMat k k s.G) (hHs : (toMat k k s.H)ᵀ = toMat k k s.H) :
    ∀ (j : ℕ) (sj : Sda K), sdaIter sol s j = some sj → ∀ X Y : Matrix (Fin k) (Fin k) K,
      PhiRelN (toMat k k s.A) (toMat k k s.G) (toMat k k s.H) (2 ^ j) X Y →
      PhiRel (toMat k k sj.A) (toMat k k sj.G) (toMat k k sj.H) X Y := by
  intro j
  induction j with
  | zero =>
    intro sj h X Y hN
    simp only [sdaIter, Option.some.injEq] at h
    subst h
    obtain ⟨Z, hZ, hZY⟩ := hN
    cases hZ
    exact hZY
  | succ j ih =>
    intro sj h X Y hN
    simp only [sdaIter] at h
    cases hprev : sdaIter sol s j with
    | none => rw [hprev] at h; cases h
    | some sp =>
      rw [hprev] at h
      obtain ⟨⟨dA, dG, dH⟩, gs, hs⟩ := sda_iter_symmetric sol hsol s hA hG hH hGs hHs j sp hprev
      have e : 2 ^ (j + 1) = 2 ^ j + 2 ^ j := by rw [pow_succ, mul_two]
      rw [e] at hN
      obtain ⟨Z, h1, h2⟩ := phiRelN_add _ _ _ _ _ X Y hN
      exact sda_doubling_step sol hsol sp sj dA dG dH gs hs h X Z Y (ih sp hprev X Z h1) (ih sp hprev Z Y h2)

/-- **sda_fixed_point_preserved.** A fixed point of the Riccati map of the initial triple (by
    `riccati_fixed_point_iff`: `X − gamma I` for a solution `X` of the Riccati equation) is a fixed
    point of the map of every later triple `(A_j, G_j, H_j)`. -/
theorem sda_fixed_point_preserved {k : ℕ} (sol : M K → M K → Option (M K)) (hsol : SolSpec sol k) (s : Sda K)
    (hA : Dim s.A k k) (hG : Dim s.G k k) (hH : Dim s.H k k)
    (hGs : (toMat k k s.G)ᵀ = toMat k k s.G) (hHs : (toMat k k s.H)ᵀ = toMat k k s.H)
    (j : ℕ) (sj : Sda K) (h : sdaIter sol s j = some sj) (X : Matrix (Fin k) (Fin k) K)
    (hfix : PhiRel (toMat k k s.A) (toMat k k s.G) (toMat k k s.H) X X) :
    PhiRel (toMat k k sj.A) (toMat k k sj.G) (toMat k k sj.H) X X := by
  have hN : ∀ m, PhiRelN (toMat k k s.A) (toMat k k s.G) (toMat k k s.H) m X X := by
    intro m
    induction m with
    | zero => rfl
    | succ m ih => exact ⟨X, ih, hfix⟩
  exact sda_doubling sol hsol s hA hG hH hGs hHs j sj h X X (hN _)

/-- non-vacuity of `PhiRel`: scalar triple `(1/2, 1/2, 1/2)`, `X = 0 ↦ Y = 1/2` (witness `S = 1/2`) -/
example : PhiRel (k := 1) (K := ℚ) ((1 / 2 : ℚ) • 1) ((1 / 2 : ℚ) • 1) ((1 / 2 : ℚ) • 1) 0 ((1 / 2 : ℚ) • 1) :=
  ⟨(1 / 2 : ℚ) • 1, by simp, by simp⟩

/-- **sda_H_is_riccati_iterate.** What the structured-doubling loop computes: `H_j` (the matrix whose
    increments the stopping rule tests, and `X − gamma I` at return) is the `2^j`-th iterate, started at
    `0`, of the one-step Riccati map `X ↦ H0 + A0' X (I + G0 X)^{-1} A0` of the initial triple — i.e. the
    value-iteration iterate number `2^j` of the shifted problem. Precisely: every `2^j`-fold iterate `Y`
    of that map from `0` (inverses by witnesses) equals `H_j`. All sizes, all `j`; `G0`, `H0` symmetric. -/
theorem sda_H_is_riccati_iterate {k : ℕ} (sol : M K → M K → Option (M K)) (hsol : SolSpec sol k) (s : Sda K)
    (hA : Dim s.A k k) (hG : Dim s.G k k) (hH : Dim s.H k k)
    (hGs : (toMat k k s.G)ᵀ = toMat k k s.G) (hHs : (toMat k k s.H)ᵀ = toMat k k s.H)
    (j : ℕ) (sj : Sda K) (h : sdaIter sol s j = some sj) (Y : Matrix (Fin k) (Fin k) K)
    (hY : PhiRelN (toMat k k s.A) (toMat k k s.G) (toMat k k s.H) (2 ^ j) 0 Y) :
    Y = toMat k k sj.H := by
  obtain ⟨S, _, hYS⟩ := sda_doubling sol hsol s hA hG hH hGs hHs j sj h 0 Y hY
  rw [hYS, Matrix.mul_zero, Matrix.zero_mul, add_zero]

/-- non-vacuity: a one-fold iterate from `0` of the scalar triple `(1/2, 1/2, 1/2)` exists (it is `H = 1/2`) -/
example : PhiRelN (k := 1) (K := ℚ) ((1 / 2 : ℚ) • 1) ((1 / 2 : ℚ) • 1) ((1 / 2 : ℚ) • 1) (2 ^ 0) 0
    ((1 / 2 : ℚ) • 1) :=
  ⟨0, rfl, (1 / 2 : ℚ) • 1, by simp, by simp⟩

/-- **sda_fixed_point_closed_loop_power.** Error formula of the structured doubling (Riccati analogue of
    `lyap_residual` / `lyap_error_to_solution`). Let `X` be a fixed point of the Riccati map of the initial
    triple with witness `S` (`(I + G0 X) S = A0`, `X = H0 + A0' X S`; `S = (I + G0 X)^{-1} A0` is the
    closed-loop matrix, see `ricc_closed_loop_is_witness`). Then for every `j` the triple after `j` passes
    satisfies `(I + G_j X) S^(2^j) = A_j` and `X − H_j = A_j' X S^(2^j)`: the distance of `H_j` to the
    solution is carried by the `2^j`-th power of the closed-loop matrix (so it vanishes quadratically
    exactly when the solution is stabilising). All sizes, all `j`; `G0`, `H0` symmetric. -/
theorem sda_fixed_point_closed_loop_power {k : ℕ} (sol : M K → M K → Option (M K)) (hsol : SolSpec sol k)
    (s : Sda K) (hA : Dim s.A k k) (hG : Dim s.G k k) (hH : Dim s.H k k)
    (hGs : (toMat k k s.G)ᵀ = toMat k k s.G) (hHs : (toMat k k s.H)ᵀ = toMat k k s.H)
    (X S : Matrix (Fin k) (Fin k) K)
    (hS : (1 + toMat k k s.G * X) * S = toMat k k s.A)
    (hX : X = toMat k k s.H + (toMat k k s.A)ᵀ * X * S) :
    ∀ (j : ℕ) (sj : Sda K), sdaIter sol s j = some sj →
      (1 + toMat k k sj.G * X) * S ^ (2 ^ j) = toMat k k sj.A ∧
      X - toMat k k sj.H = (toMat k k sj.A)ᵀ * X * S ^ (2 ^ j) := by
  intro j
  induction j with
  | zero =>
    intro sj h
    simp only [sdaIter, Option.some.injEq] at h
    subst h
    rw [pow_zero, pow_one]
    exact ⟨hS, sub_eq_of_eq_add' hX⟩
  | succ j ih =>
    intro sj h
    simp only [sdaIter] at h
    cases hprev : sdaIter sol s j with
    | none => rw [hprev] at h; cases h
    | some sp =>
      rw [hprev] at h
      obtain ⟨⟨dA, dG, dH⟩, gs, hs⟩ := sda_iter_symmetric sol hsol s hA hG hH hGs hHs j sp hprev
      obtain ⟨i1, i2⟩ := ih sp hprev
      have hXp : X = toMat k k sp.H + (toMat k k sp.A)ᵀ * X * S ^ (2 ^ j) := eq_add_of_sub_eq' i2
      obtain ⟨V, va, _, eA, eG, eH⟩ := sdaStep_forms sol hsol sp sj dA dG dH h
      have hT : (1 + toMat k k sp.G * (toMat k k sp.H + (toMat k k sp.A)ᵀ * X * S ^ (2 ^ j))) * S ^ (2 ^ j)
          = toMat k k sp.A := by rw [← hXp]; exact i1
      obtain ⟨c1, c2⟩ := sda_compose _ _ _ V X (S ^ (2 ^ j)) (S ^ (2 ^ j)) gs hs va i1 hT
      have hpow : S ^ (2 ^ (j + 1)) = S ^ (2 ^ j) * S ^ (2 ^ j) := by rw [← pow_add, pow_succ, mul_two]
      rw [← hXp] at c2
      refine ⟨?_, ?_⟩
      · rw [eG, eA, hpow]; exact c1
      · rw [eH, eA, hpow]
        have : X = toMat k k sp.H + (toMat k k sp.A)ᵀ * X * S ^ (2 ^ j) := hXp
        -- c2 : H + A' X T = H1 + A1' X (S T) with the left side equal to X
        have hx2 : X = toMat k k sp.H + (toMat k k sp.A)ᵀ * toMat k k sp.H * V * toMat k k sp.A
            + (toMat k k sp.A * V * toMat k k sp.A)ᵀ * X * (S ^ (2 ^ j) * S ^ (2 ^ j)) := by
          rw [← c2]; exact hXp
        exact sub_eq_of_eq_add' hx2

/-- non-vacuity: the scalar triple `(A, G, H) = (1, 1, 1/2)` has the fixed point `X = 1` with witness
    `S = 1/2` (`(1 + 1·1)·1/2 = 1`, `1 = 1/2 + 1·1·1/2`) -/
example : (1 + toMat 1 1 (M.ofRows [[(1 : ℚ)]]) * (1 : Matrix (Fin 1) (Fin 1) ℚ)) * ((1 / 2 : ℚ) • 1)
      = toMat 1 1 (M.ofRows [[(1 : ℚ)]]) ∧
    (1 : Matrix (Fin 1) (Fin 1) ℚ) = toMat 1 1 (M.ofRows [[(1 : ℚ) / 2]])
      + (toMat 1 1 (M.ofRows [[(1 : ℚ)]]))ᵀ * 1 * ((1 / 2 : ℚ) • 1) := by
  decide +kernel

end doubling

section nilpotent
variable {K : Type} [Field K] [LinearOrder K] [IsStrictOrderedRing K]

/-- **lyap_nilpotent_stops.** If `A^(2^k) = 0` (e.g. `A` nilpotent, `n ≤ 2^k`), `0 ≤ tol` and
    `k + 2 ≤ max_it`, the doubling loop returns normally with `n_its ≤ k + 2` (pass `k+1` has
    `diff = 0` exactly), for every `B`. -/
theorem lyap_nilpotent_stops {n : ℕ} (tol : K) (maxIt : ℕ) (A B : M K) (k : ℕ)
    (hA : Dim A n n) (hB : Dim B n n) (hnil : toMat n n A ^ (2 ^ k) = 0)
    (htol : 0 ≤ tol) (hmax : k + 2 ≤ maxIt) :
    ∃ X its ds, lyapDoubling tol maxIt A B = .ok X its ds ∧ its ≤ k + 2 := by
  have hzero : lyapDiff (lyapIter A B k) (lyapIter A B (k + 1)) = 0 := by
    unfold lyapDiff
    obtain ⟨_, hd⟩ := lyapIter_dim hA hB (k + 1)
    apply maxAbs_eq_zero _ (dim_msub hd)
    rw [lyap_increment A B hA hB k, hnil, Matrix.zero_mul, Matrix.zero_mul]
  unfold lyapDoubling
  exact lyapLoop_stops tol maxIt A B k htol hmax hzero k 0 (maxIt + 1) [] (by omega) (by omega)

/-- **lyap_nilpotent_exact.** A normal return after at least `k` doublings (`k + 1 ≤ its`) with
    `A^(2^k) = 0` solves the Lyapunov equation exactly: `A X A' − X + B = 0`. -/
theorem lyap_nilpotent_exact {n : ℕ} (tol : K) (maxIt : ℕ) (A B X : M K) (its : ℕ) (ds : List K) (k : ℕ)
    (hA : Dim A n n) (hB : Dim B n n) (hnil : toMat n n A ^ (2 ^ k) = 0) (hk : k + 1 ≤ its)
    (h : lyapDoubling tol maxIt A B = .ok X its ds) :
    toMat n n A * toMat n n X * (toMat n n A)ᵀ - toMat n n X + toMat n n B = 0 := by
  obtain ⟨_, _, _, hres, _⟩ := lyap_return_spec tol maxIt A B X its ds hA hB h
  have hle : 2 ^ k ≤ 2 ^ (its - 1) := Nat.pow_le_pow_right (by norm_num) (by omega)
  rw [hres, pow_eq_zero_of_le hle hnil, Matrix.zero_mul, Matrix.zero_mul]

/-- non-vacuity: a 2×2 nilpotent `A` (`A² = 0`): the loop returns at `n_its = 3` -/
example : (lyapDoubling (0 : ℚ) 50 (M.ofRows [[0, 3], [0, 0]]) (M.ofRows [[1, 2], [2, 5]])).its? = some 3 := by
  decide +kernel

end nilpotent

section uniqueness
variable {K : Type} [CommRing K]

/-- **lyap_nilpotent_unique.** For nilpotent `A` the Lyapunov equation has at most one solution
    (so the matrix of `lyap_nilpotent_exact` is *the* solution): two solutions differ by `D` with
    `D = A D A'`, hence `D = A^m D (A')^m = 0`. -/
theorem lyap_nilpotent_unique {n : ℕ} (A B X Y : Matrix (Fin n) (Fin n) K) (m : ℕ) (hnil : A ^ m = 0)
    (hX : A * X * Aᵀ - X + B = 0) (hY : A * Y * Aᵀ - Y + B = 0) : X = Y := by
  have hD : A * (X - Y) * Aᵀ = X - Y := by
    have : A * (X - Y) * Aᵀ - (X - Y) = (A * X * Aᵀ - X + B) - (A * Y * Aᵀ - Y + B) := by noncomm_ring
    rw [hX, hY, sub_zero] at this
    exact sub_eq_zero.mp this
  have hpow : ∀ j : ℕ, A ^ j * (X - Y) * Aᵀ ^ j = X - Y := by
    intro j
    induction j with
    | zero => simp
    | succ j ih =>
      calc A ^ (j + 1) * (X - Y) * Aᵀ ^ (j + 1) = A ^ j * (A * (X - Y) * Aᵀ) * Aᵀ ^ j := by
            rw [pow_succ A j, pow_succ' Aᵀ j]; noncomm_ring
        _ = X - Y := by rw [hD, ih]
  have := hpow m
  rw [hnil, Matrix.zero_mul, Matrix.zero_mul] at this
  exact sub_eq_zero.mp this.symm

end uniqueness

/-- **lyap_scalar_unique.** In the 1×1 case the equation `a x a − x + b = 0` has exactly one solution
    whenever `1 − a·a` is invertible (`a² ≠ 1`), namely `b / (1 − a²)`. -/
theorem lyap_scalar_unique {K : Type} [Field K] (a b x : K) (ha : a * a ≠ 1) :
    a * x * a - x + b = 0 ↔ x = b / (1 - a * a) := by
  have hne : 1 - a * a ≠ 0 := fun h => ha (sub_eq_zero.mp h).symm
  rw [eq_div_iff hne]
  constructor
  · intro h
    have e : x * (1 - a * a) = b - (a * x * a - x + b) := by ring
    rw [e, h, sub_zero]
  · intro h
    have e : a * x * a - x + b = b - x * (1 - a * a) := by ring
    rw [e, h, sub_self]

/-- the entry equation `a x c − x + b = 0` has the unique solution `b / (1 − a c)` when `a c ≠ 1` -/
theorem lyap_entry_unique {K : Type} [Field K] (a c b x : K) (hac : a * c ≠ 1) :
    a * x * c - x + b = 0 ↔ x = b / (1 - a * c) := by
  have hne : 1 - a * c ≠ 0 := fun h => hac (sub_eq_zero.mp h).symm
  rw [eq_div_iff hne]
  constructor
  · intro h
    have e : x * (1 - a * c) = b - (a * x * c - x + b) := by ring
    rw [e, h, sub_zero]
  · intro h
    have e : a * x * c - x + b = b - x * (1 - a * c) := by ring
    rw [e, h, sub_self]

/-- **lyap_diagonal_unique.** For diagonal `A = diag(d)` with `d_i d_j ≠ 1` for all `i, j` (i.e.
    `I − A ⊗ A` invertible) the Lyapunov equation has exactly one solution, `X_ij = B_ij / (1 − d_i d_j)`. -/
theorem lyap_diagonal_unique {K : Type} [Field K] {n : ℕ} (d : Fin n → K) (B X : Matrix (Fin n) (Fin n) K)
    (hd : ∀ i j, d i * d j ≠ 1) :
    Matrix.diagonal d * X * (Matrix.diagonal d)ᵀ - X + B = 0 ↔ ∀ i j, X i j = B i j / (1 - d i * d j) := by
  have entry : ∀ i j, (Matrix.diagonal d * X * (Matrix.diagonal d)ᵀ - X + B) i j
      = d i * X i j * d j - X i j + B i j := by
    intro i j
    rw [Matrix.diagonal_transpose, Matrix.add_apply, Matrix.sub_apply, Matrix.mul_diagonal, Matrix.diagonal_mul]
  constructor
  · intro h i j
    have := congrFun (congrFun h i) j
    rw [entry] at this
    exact (lyap_entry_unique (d i) (d j) (B i j) (X i j) (hd i j)).mp this
  · intro h
    ext i j
    rw [entry]
    exact (lyap_entry_unique (d i) (d j) (B i j) (X i j) (hd i j)).mpr (h i j)

section lyapunov_total
variable {K : Type} [Field K] [LinearOrder K] [IsStrictOrderedRing K]

/-- the constant `C = ‖B‖_max / (1 − ‖A‖∞²)` of the bounds below, from the executable norms -/
def lyapC (A B : M K) : K := maxAbs gabs B / (1 - normInf A ^ 2)

theorem lyap_norm_hyps {n : ℕ} (A B : M K) (hA : Dim A n n) (hB : Dim B n n) :
    RowBound (toMat n n A) (normInf A) ∧ 0 ≤ normInf A ∧
    EntryBound (toMat n n B) (maxAbs gabs B) ∧ 0 ≤ maxAbs gabs B :=
  ⟨fun p => rowsum_le_normInf A hA p, normInf_nonneg A,
   fun p q => abs_get_le_maxAbs B p q (by rw [hB.nr]; exact p.2) (by rw [hB.nc]; exact q.2),
   by unfold maxAbs; exact foldl2_max_ge_init _ _ _ 0⟩

/-- **lyap_geometric_bounds.** Hypothesis: only `‖A‖∞ < 1` (max absolute row sum, the executable
    `normInf A`; no condition on `‖A‖₁`, because `α γ α'` uses row sums of `α` on both sides).
    Then for every `k`: the iterate is uniformly bounded, `‖γ_k‖_max ≤ C = ‖B‖_max/(1 − ‖A‖∞²)`, and the
    tested increment decays doubly exponentially, `‖γ_(k+1) − γ_k‖_max ≤ C · (‖A‖∞^(2^k))²`. -/
theorem lyap_geometric_bounds {n : ℕ} (A B : M K) (hA : Dim A n n) (hB : Dim B n n)
    (hρ : normInf A < 1) (k : ℕ) :
    (∀ p q : Fin n, |toMat n n (lyapIter A B k).2 p q| ≤ lyapC A B) ∧
    (∀ p q : Fin n, |toMat n n (msub (lyapIter A B (k + 1)).2 (lyapIter A B k).2) p q|
        ≤ lyapC A B * (normInf A ^ (2 ^ k)) ^ 2) := by
  obtain ⟨ha, hρ0, hb, hβ⟩ := lyap_norm_hyps A B hA hB
  have hsum : toMat n n (lyapIter A B k).2 = dsum (toMat n n A) (toMat n n B) (toMat n n A)ᵀ (2 ^ k) :=
    (lyap_doubling_sum A B hA hB k).2
  constructor
  · rw [hsum]; exact dsum_entryBound _ _ _ _ ha hρ0 hρ hb hβ _
  · rw [lyap_increment A B hA hB k, hsum]
    exact increment_entryBound _ _ _ _ ha hρ0 hρ hb hβ _ _

/-- **lyap_terminates.** TERMINATION on the checkable domain `‖A‖∞ < 1`: for any `K` with
    `C · (‖A‖∞^(2^K))² ≤ tol` (explicit; the least such `K` is found by repeated squaring) and
    `max_it ≥ K + 2`, the loop returns normally with `n_its ≤ K + 2`, for every `B`. -/
theorem lyap_terminates {n : ℕ} (tol : K) (maxIt : ℕ) (A B : M K) (hA : Dim A n n) (hB : Dim B n n)
    (hρ : normInf A < 1) (k : ℕ) (hK : lyapC A B * (normInf A ^ (2 ^ k)) ^ 2 ≤ tol) (hmax : k + 2 ≤ maxIt) :
    ∃ X its ds, lyapDoubling tol maxIt A B = .ok X its ds ∧ its ≤ k + 2 := by
  obtain ⟨_, hρ0, _, hβ⟩ := lyap_norm_hyps A B hA hB
  have hC : 0 ≤ lyapC A B := div_nonneg hβ (by nlinarith)
  have htol : 0 ≤ tol := le_trans (mul_nonneg hC (sq_nonneg _)) hK
  have hsmall : ¬ tol < lyapDiff (lyapIter A B k) (lyapIter A B (k + 1)) := by
    apply not_lt.mpr
    unfold lyapDiff
    obtain ⟨_, hd⟩ := lyapIter_dim hA hB (k + 1)
    exact maxAbs_le _ (dim_msub hd) tol htol
      fun p q => le_trans ((lyap_geometric_bounds A B hA hB hρ k).2 p q) hK
  unfold lyapDoubling
  exact lyapLoop_stops_of_small tol maxIt A B k hmax hsmall k 0 (maxIt + 1) [] (by omega) (by omega)

/-- **lyap_total_correct.** TOTAL CORRECTNESS of the model of `solve_discrete_lyapunov` (doubling) in
    exact arithmetic on the domain `‖A‖∞ < 1`, `B` symmetric PSD: for `K` with
    `‖B‖_max/(1−‖A‖∞²) · (‖A‖∞^(2^K))² ≤ tol` and `max_it ≥ K + 2` the call returns normally, after at
    most `K + 2` counted iterations, a symmetric PSD `X` with `|(A X A' − X + B)_pq| ≤ tol` for all
    `p, q` (for the code: `tol = 1e-15`, `max_it = 50`). -/
theorem lyap_total_correct {n : ℕ} (tol : K) (maxIt : ℕ) (A B : M K) (hA : Dim A n n) (hB : Dim B n n)
    (hρ : normInf A < 1) (hpsd : PSD (toMat n n B)) (k : ℕ)
    (hK : lyapC A B * (normInf A ^ (2 ^ k)) ^ 2 ≤ tol) (hmax : k + 2 ≤ maxIt) :
    ∃ X its ds, lyapDoubling tol maxIt A B = .ok X its ds ∧ its ≤ k + 2 ∧
      PSD (toMat n n X) ∧
      ∀ p q : Fin n, |(toMat n n A * toMat n n X * (toMat n n A)ᵀ - toMat n n X + toMat n n B) p q| ≤ tol := by
  obtain ⟨X, its, ds, h, hits⟩ := lyap_terminates tol maxIt A B hA hB hρ k hK hmax
  refine ⟨X, its, ds, h, hits, ?_, ?_⟩
  · obtain ⟨_, _, hX, _, _⟩ := lyap_return_spec tol maxIt A B X its ds hA hB h
    rw [hX]
    exact dsum_psd _ hpsd _
  · exact lyap_psd_return_le_tol tol maxIt A B X its ds hA hB hpsd
      (fun p => le_trans (rowsum_le_normInf A hA p) (le_of_lt hρ)) h

/-- **lyap_partial_sums_cauchy.** (limit statement without limits) For `‖A‖∞ < 1`, every partial sum
    `S_N = Σ_{j<N} A^j B (A')^j` with `N ≥ 2^k` is within `C · (‖A‖∞^(2^k))²` of the iterate `γ_k`
    entrywise; for PSD `B` moreover `S_N − γ_k ⪰ 0` (partial sums increase in the Loewner order and are
    bounded by `C` entrywise, `lyap_geometric_bounds`). -/
theorem lyap_partial_sums_cauchy {n : ℕ} (A B : M K) (hA : Dim A n n) (hB : Dim B n n)
    (hρ : normInf A < 1) (k p : ℕ) :
    (∀ i j : Fin n,
      |((∑ l ∈ range (2 ^ k + p), toMat n n A ^ l * toMat n n B * (toMat n n A)ᵀ ^ l)
          - toMat n n (lyapIter A B k).2) i j| ≤ lyapC A B * (normInf A ^ (2 ^ k)) ^ 2) ∧
    (PSD (toMat n n B) →
      PSD ((∑ l ∈ range (2 ^ k + p), toMat n n A ^ l * toMat n n B * (toMat n n A)ᵀ ^ l)
          - toMat n n (lyapIter A B k).2)) := by
  obtain ⟨ha, hρ0, hb, hβ⟩ := lyap_norm_hyps A B hA hB
  have hsum : toMat n n (lyapIter A B k).2 = dsum (toMat n n A) (toMat n n B) (toMat n n A)ᵀ (2 ^ k) :=
    (lyap_doubling_sum A B hA hB k).2
  have hsplit : (∑ l ∈ range (2 ^ k + p), toMat n n A ^ l * toMat n n B * (toMat n n A)ᵀ ^ l)
      - toMat n n (lyapIter A B k).2
      = toMat n n A ^ (2 ^ k) * dsum (toMat n n A) (toMat n n B) (toMat n n A)ᵀ p * (toMat n n A)ᵀ ^ (2 ^ k) := by
    rw [hsum]
    have := dsum_add (toMat n n A) (toMat n n B) (toMat n n A)ᵀ (2 ^ k) p
    unfold dsum at this ⊢
    rw [this, add_sub_cancel_left]
  rw [hsplit]
  refine ⟨increment_entryBound _ _ _ _ ha hρ0 hρ hb hβ _ _, fun hpsd => ?_⟩
  rw [← transpose_pow]
  exact psd_conj _ (dsum_psd _ hpsd _)

/-- non-vacuity: `A = [[1/2, 1/4], [0, 1/3]]` has `‖A‖∞ = 3/4 < 1`; with `B = I`, `tol = 1e-15`:
    `C = 16/7` and `K = 6` satisfies the bound (`(3/4)^128·16/7 ≈ 2.3e-16`), so `n_its ≤ 8` (it is 7) -/
example : normInf (M.ofRows [[(1 : ℚ) / 2, 1 / 4], [0, 1 / 3]]) = 3 / 4 := by decide +kernel
example : lyapC (M.ofRows [[(1 : ℚ) / 2, 1 / 4], [0, 1 / 3]]) (ident 2)
    * (normInf (M.ofRows [[(1 : ℚ) / 2, 1 / 4], [0, 1 / 3]]) ^ (2 ^ 6)) ^ 2 ≤ 1 / 1000000000000000 := by
  decide +kernel

/-- **lyap_terminates_archimedean.** In an Archimedean ordered field (ℚ, ℝ) such a `K` always exists:
    for `‖A‖∞ < 1` and `tol > 0` there is `K` such that every call with `max_it ≥ K + 2` returns normally
    with `n_its ≤ K + 2`. -/
theorem lyap_terminates_archimedean [Archimedean K] {n : ℕ} (tol : K) (A B : M K) (hA : Dim A n n)
    (hB : Dim B n n) (hρ : normInf A < 1) (htol : 0 < tol) :
    ∃ k, lyapC A B * (normInf A ^ (2 ^ k)) ^ 2 ≤ tol ∧
      ∀ maxIt, k + 2 ≤ maxIt → ∃ X its ds, lyapDoubling tol maxIt A B = .ok X its ds ∧ its ≤ k + 2 := by
  obtain ⟨_, hρ0, _, hβ⟩ := lyap_norm_hyps A B hA hB
  have hC : 0 ≤ lyapC A B := div_nonneg hβ (by nlinarith)
  have h2 : normInf A ^ 2 < 1 := by nlinarith
  obtain ⟨k, hk⟩ := exists_pow_lt_of_lt_one (div_pos htol (by linarith : 0 < lyapC A B + 1)) h2
  have hle : (normInf A ^ (2 ^ k)) ^ 2 ≤ (normInf A ^ 2) ^ k := by
    rw [← pow_mul, mul_comm, pow_mul]
    exact pow_le_pow_of_le_one (sq_nonneg _) (le_of_lt h2) (le_of_lt Nat.lt_two_pow_self)
  have hK : lyapC A B * (normInf A ^ (2 ^ k)) ^ 2 ≤ tol := by
    have h3 : (normInf A ^ (2 ^ k)) ^ 2 < tol / (lyapC A B + 1) := lt_of_le_of_lt hle hk
    have h4 : (lyapC A B + 1) * (normInf A ^ (2 ^ k)) ^ 2 < tol := by
      rw [lt_div_iff₀ (by linarith : 0 < lyapC A B + 1)] at h3
      linarith
    nlinarith [sq_nonneg (normInf A ^ (2 ^ k))]
  exact ⟨k, hK, fun maxIt hmax => lyap_terminates tol maxIt A B hA hB hρ k hK hmax⟩

/-- **lyap_return_residual_bound.** For arbitrary (possibly indefinite) `B` and any `A`, the residual
    of any normally returned `X` is at most `‖B‖_max · (‖A‖∞^(2^(its-1)))²` entrywise (an early exit by
    cancellation is possible for indefinite `B`, so `tol` does not bound it; `its ≥ 2`). -/
theorem lyap_return_residual_bound {n : ℕ} (tol : K) (maxIt : ℕ) (A B X : M K) (its : ℕ) (ds : List K)
    (hA : Dim A n n) (hB : Dim B n n)
    (h : lyapDoubling tol maxIt A B = .ok X its ds) :
    ∀ p q : Fin n, |(toMat n n A * toMat n n X * (toMat n n A)ᵀ - toMat n n X + toMat n n B) p q|
      ≤ maxAbs gabs B * (normInf A ^ (2 ^ (its - 1))) ^ 2 := by
  obtain ⟨ha, hρ0, hb, hβ⟩ := lyap_norm_hyps A B hA hB
  obtain ⟨_, _, _, hres, _⟩ := lyap_return_spec tol maxIt A B X its ds hA hB h
  rw [hres]
  have := tterm_entryBound (toMat n n A) (toMat n n B) _ _ ha hρ0 hb hβ (2 ^ (its - 1))
  intro p q
  refine le_trans (this p q) (le_of_eq ?_)
  rw [← pow_mul, mul_comm 2, pow_mul]

/-- **lyap_error_to_solution.** Distance to the true solution, without limits: if `Y` is any exact
    solution of `A Y A' − Y + B = 0`, then `Y − γ_k = A^(2^k) Y (A')^(2^k)` for every `k`, hence
    `|(Y − γ_k)_pq| ≤ ‖Y‖_max · (‖A‖∞^(2^k))²` (any `g` bounding the entries of `Y`). -/
theorem lyap_error_to_solution {n : ℕ} (A B : M K) (hA : Dim A n n) (hB : Dim B n n)
    (Y : Matrix (Fin n) (Fin n) K) (hY : toMat n n A * Y * (toMat n n A)ᵀ - Y + toMat n n B = 0)
    (g : K) (hg : EntryBound Y g) (hg0 : 0 ≤ g) (k : ℕ) :
    Y - toMat n n (lyapIter A B k).2 = toMat n n A ^ (2 ^ k) * Y * (toMat n n A)ᵀ ^ (2 ^ k) ∧
    ∀ p q : Fin n, |(Y - toMat n n (lyapIter A B k).2) p q| ≤ g * (normInf A ^ (2 ^ k)) ^ 2 := by
  obtain ⟨ha, hρ0, _, _⟩ := lyap_norm_hyps A B hA hB
  have hsum : toMat n n (lyapIter A B k).2 = dsum (toMat n n A) (toMat n n B) (toMat n n A)ᵀ (2 ^ k) :=
    (lyap_doubling_sum A B hA hB k).2
  have e : Y - toMat n n (lyapIter A B k).2 = toMat n n A ^ (2 ^ k) * Y * (toMat n n A)ᵀ ^ (2 ^ k) := by
    rw [hsum]
    have := solution_eq_dsum_add_tail (toMat n n A) (toMat n n B) (toMat n n A)ᵀ Y hY (2 ^ k)
    exact sub_eq_of_eq_add' this
  refine ⟨e, fun p q => ?_⟩
  rw [e, ← transpose_pow]
  have := entryBound_conj (rowBound_pow ha hρ0 (2 ^ k)) (pow_nonneg hρ0 _) hg hg0
  exact le_trans (this p q) (le_of_eq (by ring))

/-- **lyap_solution_unique.** For `‖A‖∞ < 1` over an Archimedean ordered field the Lyapunov equation
    has at most one solution (so `lyap_error_to_solution` measures the distance to *the* solution). -/
theorem lyap_solution_unique [Archimedean K] {n : ℕ} (A B : M K) (hA : Dim A n n) (hB : Dim B n n)
    (hρ : normInf A < 1) (Y Z : Matrix (Fin n) (Fin n) K)
    (hY : toMat n n A * Y * (toMat n n A)ᵀ - Y + toMat n n B = 0)
    (hZ : toMat n n A * Z * (toMat n n A)ᵀ - Z + toMat n n B = 0) : Y = Z := by
  obtain ⟨ha, hρ0, _, _⟩ := lyap_norm_hyps A B hA hB
  have h2 : normInf A ^ 2 < 1 := by nlinarith
  -- D = Y − Z solves the homogeneous equation, so D = A^m D (A')^m for all m
  have hD : toMat n n A * (Y - Z) * (toMat n n A)ᵀ - (Y - Z) + 0 = 0 := by
    have : toMat n n A * (Y - Z) * (toMat n n A)ᵀ - (Y - Z) + 0
        = (toMat n n A * Y * (toMat n n A)ᵀ - Y + toMat n n B)
          - (toMat n n A * Z * (toMat n n A)ᵀ - Z + toMat n n B) := by noncomm_ring
    rw [this, hY, hZ, sub_zero]
  -- a bound g of the entries of D
  obtain ⟨g, hg0, hg⟩ : ∃ g : K, 0 ≤ g ∧ EntryBound (Y - Z) g :=
    ⟨∑ p, ∑ q, |(Y - Z) p q|, Finset.sum_nonneg fun p _ => Finset.sum_nonneg fun q _ => abs_nonneg _,
     fun p q => le_trans (Finset.single_le_sum (f := fun q => |(Y - Z) p q|) (fun q _ => abs_nonneg _)
        (Finset.mem_univ q))
       (Finset.single_le_sum (f := fun p => ∑ q, |(Y - Z) p q|)
        (fun p _ => Finset.sum_nonneg fun q _ => abs_nonneg _) (Finset.mem_univ p))⟩
  have hsmall : ∀ (m : ℕ) (p q : Fin n), |(Y - Z) p q| ≤ g * (normInf A ^ 2) ^ m := by
    intro m p q
    have e := solution_eq_dsum_add_tail (toMat n n A) 0 (toMat n n A)ᵀ (Y - Z) hD m
    have hz : dsum (toMat n n A) (0 : Matrix (Fin n) (Fin n) K) (toMat n n A)ᵀ m = 0 := by
      unfold dsum; simp
    rw [hz, zero_add] at e
    have hb := entryBound_conj (rowBound_pow ha hρ0 m) (pow_nonneg hρ0 _) hg hg0
    rw [transpose_pow, ← e] at hb
    refine le_trans (hb p q) (le_of_eq ?_)
    rw [← pow_mul, mul_comm 2 m, pow_mul]; ring
  ext p q
  by_contra hne
  have hpos : 0 < |(Y - Z) p q| := abs_pos.mpr (by rw [Matrix.sub_apply]; exact sub_ne_zero.mpr hne)
  obtain ⟨m, hm⟩ := exists_pow_lt_of_lt_one (div_pos hpos (by linarith : 0 < g + 1)) h2
  have h1 := hsmall m p q
  rw [lt_div_iff₀ (by linarith : 0 < g + 1)] at hm
  nlinarith [pow_nonneg (sq_nonneg (normInf A)) m]

/-- **lyap_terminates_weighted.** Termination on the larger checkable domain "`|A| w ≤ ρ w` for some
    positive vector `w` and `ρ < 1`" (i.e. `‖D⁻¹AD‖∞ ≤ ρ`, `D = diag w`; `w = 1` is `‖A‖∞ ≤ ρ`; such a
    `w` exists iff the spectral radius of `|A|` is below 1). With `|B_pq| ≤ β w_p w_q`: the increments
    satisfy `|(γ_(k+1) − γ_k)_pq| ≤ β/(1−ρ²) · (ρ^(2^k))² · w_p w_q`, and for any `K` making the right-hand
    side `≤ tol` for all `p, q`, the loop returns normally with `n_its ≤ K + 2` when `max_it ≥ K + 2`. -/
theorem lyap_terminates_weighted {n : ℕ} (tol : K) (maxIt : ℕ) (A B : M K) (hA : Dim A n n) (hB : Dim B n n)
    (w : Fin n → K) (hw : ∀ p, 0 ≤ w p) (ρ β : K) (hρ0 : 0 ≤ ρ) (hρ1 : ρ < 1) (hβ : 0 ≤ β)
    (hAw : RowBoundW w (toMat n n A) ρ) (hBw : EntryBoundW w (toMat n n B) β) (htol : 0 ≤ tol)
    (k : ℕ) (hK : ∀ p q, β / (1 - ρ ^ 2) * (ρ ^ (2 ^ k)) ^ 2 * (w p * w q) ≤ tol) (hmax : k + 2 ≤ maxIt) :
    (∀ j p q, |toMat n n (msub (lyapIter A B (j + 1)).2 (lyapIter A B j).2) p q|
        ≤ β / (1 - ρ ^ 2) * (ρ ^ (2 ^ j)) ^ 2 * (w p * w q)) ∧
    ∃ X its ds, lyapDoubling tol maxIt A B = .ok X its ds ∧ its ≤ k + 2 := by
  have hinc : ∀ j p q, |toMat n n (msub (lyapIter A B (j + 1)).2 (lyapIter A B j).2) p q|
      ≤ β / (1 - ρ ^ 2) * (ρ ^ (2 ^ j)) ^ 2 * (w p * w q) := by
    intro j
    rw [lyap_increment A B hA hB j, (lyap_doubling_sum A B hA hB j).2]
    exact increment_entryBoundW w hw _ _ ρ β hAw hρ0 hρ1 hBw hβ _ _
  refine ⟨hinc, ?_⟩
  have hsmall : ¬ tol < lyapDiff (lyapIter A B k) (lyapIter A B (k + 1)) := by
    apply not_lt.mpr
    unfold lyapDiff
    obtain ⟨_, hd⟩ := lyapIter_dim hA hB (k + 1)
    exact maxAbs_le _ (dim_msub hd) tol htol fun p q => le_trans (hinc k p q) (hK p q)
  unfold lyapDoubling
  exact lyapLoop_stops_of_small tol maxIt A B k hmax hsmall k 0 (maxIt + 1) [] (by omega) (by omega)

/-- non-vacuity of the weighted domain: `A = [[1/2, 2], [0, 1/2]]` has `‖A‖∞ = 5/2`, but with
    `w = (8, 1)` it satisfies `|A| w ≤ (3/4) w` -/
example : RowBoundW (fun p : Fin 2 => if p = 0 then (8 : ℚ) else 1)
    (toMat 2 2 (M.ofRows [[(1 : ℚ) / 2, 2], [0, 1 / 2]])) (3 / 4) := by
  unfold RowBoundW; decide +kernel
example : ¬ normInf (M.ofRows [[(1 : ℚ) / 2, 2], [0, 1 / 2]]) < 1 := by decide +kernel

end lyapunov_total

section lyapunov_limit
variable {K : Type} [Field K] [LinearOrder K] [IsStrictOrderedRing K] [Archimedean K]

/-- **lyap_limit.** The limit of the doubling iteration, over any Archimedean ordered field (ℚ, ℝ), on the
    checkable domain `‖A‖∞ < 1` (decidable guard `normInf A < 1`): the equation `A Y A' − Y + B = 0` has
    exactly one solution `Y`; `‖Y‖_max ≤ C = ‖B‖_max/(1 − ‖A‖∞²)`; the iterates converge to it with the
    explicit doubly-exponential rate `|(Y − γ_k)_pq| ≤ C · (‖A‖∞^(2^k))²`, in particular
    `∀ ε > 0 ∃ k0 ∀ k ≥ k0: ‖Y − γ_k‖_max ≤ ε`; and `Y` is symmetric PSD when `B` is. -/
theorem lyap_limit {n : ℕ} (A B : M K) (hA : Dim A n n) (hB : Dim B n n) (hρ : normInf A < 1) :
    ∃ Y : Matrix (Fin n) (Fin n) K,
      toMat n n A * Y * (toMat n n A)ᵀ - Y + toMat n n B = 0 ∧
      (∀ Z, toMat n n A * Z * (toMat n n A)ᵀ - Z + toMat n n B = 0 → Z = Y) ∧
      (∀ p q, |Y p q| ≤ lyapC A B) ∧
      (∀ k p q, |(Y - toMat n n (lyapIter A B k).2) p q| ≤ lyapC A B * (normInf A ^ (2 ^ k)) ^ 2) ∧
      (∀ ε, 0 < ε → ∃ k0, ∀ k, k0 ≤ k → ∀ p q, |(Y - toMat n n (lyapIter A B k).2) p q| ≤ ε) ∧
      (PSD (toMat n n B) → PSD Y) := by
  obtain ⟨ha, hρ0, hb, hβ⟩ := lyap_norm_hyps A B hA hB
  obtain ⟨Y, hY, huniq⟩ := stein_exists_unique (toMat n n A) (toMat n n B) (normInf A) ha hρ0 hρ
  have hbound : EntryBound Y (lyapC A B) :=
    solution_entryBound _ _ _ _ ha hρ0 hρ hb hβ Y hY
  have hC : 0 ≤ lyapC A B := div_nonneg hβ (by nlinarith)
  have herr : ∀ k p q, |(Y - toMat n n (lyapIter A B k).2) p q| ≤ lyapC A B * (normInf A ^ (2 ^ k)) ^ 2 :=
    fun k => (lyap_error_to_solution A B hA hB Y hY _ hbound hC k).2
  refine ⟨Y, hY, huniq, hbound, herr, ?_, ?_⟩
  · intro ε hε
    obtain ⟨k0, hk0, _⟩ := lyap_terminates_archimedean ε A B hA hB hρ hε
    refine ⟨k0, fun k hk p q => le_trans (herr k p q) (le_trans ?_ hk0)⟩
    apply mul_le_mul_of_nonneg_left _ hC
    apply pow_le_pow_left₀ (pow_nonneg hρ0 _)
    exact pow_le_pow_of_le_one hρ0 (le_of_lt hρ) (Nat.pow_le_pow_right (by norm_num) hk)
  · intro hpsd
    -- symmetric: the transpose solves the same equation
    have hsym : Yᵀ = Y := by
      apply huniq
      have := congrArg transpose hY
      rw [transpose_add, transpose_sub, transpose_mul, transpose_mul, transpose_transpose, hpsd.1,
        transpose_zero, ← Matrix.mul_assoc] at this
      exact this
    refine ⟨hsym, fun x => ?_⟩
    have h2 : normInf A ^ 2 < 1 := by nlinarith
    -- squeeze: -xᵀYx ≤ 0 + C (Σ|x|)² (ρ²)^m for all m
    have hsq : -(qf Y x) ≤ 0 := by
      apply le_of_forall_le_add_geom _ _ (lyapC A B * (∑ p, |x p|) ^ 2) (normInf A ^ 2)
        (mul_nonneg hC (sq_nonneg _)) (sq_nonneg _) h2
      intro m
      have e := solution_eq_dsum_add_tail (toMat n n A) (toMat n n B) (toMat n n A)ᵀ Y hY m
      have hq : qf Y x = qf (dsum (toMat n n A) (toMat n n B) (toMat n n A)ᵀ m) x
          + qf (toMat n n A ^ m * Y * (toMat n n A)ᵀ ^ m) x := by
        conv_lhs => rw [e]
        rw [qf_add]
      have h1 : 0 ≤ qf (dsum (toMat n n A) (toMat n n B) (toMat n n A)ᵀ m) x := (dsum_psd _ hpsd m).2 x
      have hM : EntryBound (-(toMat n n A ^ m * Y * (toMat n n A)ᵀ ^ m))
          (normInf A ^ m * lyapC A B * normInf A ^ m) := by
        intro p q
        rw [Matrix.neg_apply, abs_neg, ← transpose_pow]
        exact entryBound_conj (rowBound_pow ha hρ0 m) (pow_nonneg hρ0 m) hbound hC p q
      have h3 := qf_le_of_entries _ _ hM x
      have hneg : qf (-(toMat n n A ^ m * Y * (toMat n n A)ᵀ ^ m)) x
          = -(qf (toMat n n A ^ m * Y * (toMat n n A)ᵀ ^ m) x) := by
        have := qf_sub (0 : Matrix (Fin n) (Fin n) K) (toMat n n A ^ m * Y * (toMat n n A)ᵀ ^ m) x
        rw [zero_sub, qf_zero, zero_sub] at this
        exact this
      rw [hneg] at h3
      have h5 : normInf A ^ m * lyapC A B * normInf A ^ m * (∑ p, |x p|) ^ 2
          = lyapC A B * (∑ p, |x p|) ^ 2 * (normInf A ^ 2) ^ m := by
        rw [← pow_mul, mul_comm 2 m, pow_mul]; ring
      linarith
    linarith

/-- **lyap_return_distance_to_solution.** Every normally returned `X` (any `tol`, `max_it`, `B`) is within
    `C · (‖A‖∞^(2^(its-1)))²` of the solution `Y` of the Lyapunov equation, entrywise (`‖A‖∞ < 1`). -/
theorem lyap_return_distance_to_solution {n : ℕ} (tol : K) (maxIt : ℕ) (A B X : M K) (its : ℕ) (ds : List K)
    (hA : Dim A n n) (hB : Dim B n n) (hρ : normInf A < 1)
    (h : lyapDoubling tol maxIt A B = .ok X its ds)
    (Y : Matrix (Fin n) (Fin n) K) (hY : toMat n n A * Y * (toMat n n A)ᵀ - Y + toMat n n B = 0) :
    ∀ p q, |(Y - toMat n n X) p q| ≤ lyapC A B * (normInf A ^ (2 ^ (its - 1))) ^ 2 := by
  obtain ⟨ha, hρ0, hb, hβ⟩ := lyap_norm_hyps A B hA hB
  have hbound : EntryBound Y (lyapC A B) := solution_entryBound _ _ _ _ ha hρ0 hρ hb hβ Y hY
  have hC : 0 ≤ lyapC A B := div_nonneg hβ (by nlinarith)
  obtain ⟨_, _, hX, _, _⟩ := lyap_return_spec tol maxIt A B X its ds hA hB h
  have hXk : toMat n n X = toMat n n (lyapIter A B (its - 1)).2 := by
    rw [hX, (lyap_doubling_sum A B hA hB (its - 1)).2]
  rw [hXk]
  exact (lyap_error_to_solution A B hA hB Y hY _ hbound hC (its - 1)).2

/-- non-vacuity: the guard holds for `A = [[1/2, 1/4], [0, 1/3]]` over ℚ (`‖A‖∞ = 3/4`), and the loop
    returns normally on it (see the examples of `lyap_total_correct`) -/
example : normInf (M.ofRows [[(1 : ℚ) / 2, 1 / 4], [0, 1 / 3]]) < 1 := by decide +kernel
example : ∃ Y : Matrix (Fin 2) (Fin 2) ℚ,
    toMat 2 2 (M.ofRows [[(1 : ℚ) / 2, 1 / 4], [0, 1 / 3]]) * Y
        * (toMat 2 2 (M.ofRows [[(1 : ℚ) / 2, 1 / 4], [0, 1 / 3]]))ᵀ - Y + toMat 2 2 (ident 2 : M ℚ) = 0 := by
  obtain ⟨Y, hY, _⟩ := lyap_limit (M.ofRows [[(1 : ℚ) / 2, 1 / 4], [0, 1 / 3]]) (ident 2 : M ℚ)
    ⟨rfl, rfl⟩ ⟨rfl, rfl⟩ (by decide +kernel)
  exact ⟨Y, hY⟩

end lyapunov_limit

section riccati_error
variable {K : Type} [CommRing K]

/-- **ricc_closed_loop_is_witness.** For the initial triple the code builds (`riccInit`, lines 198-204) and
    any `H` with `S = R + B'XB` invertible (`X = H + gamma I`, `Si` a right inverse), the closed-loop matrix
    `A − B F`, `F = (R + B'XB)^{-1}(N + B'XA)`, satisfies `(I + G0 H)(A − B F) = A0`: it is the witness
    `(I + G0 H)^{-1} A0` of the Riccati map of `(A0, G0, H0)` at `H`. -/
theorem ricc_closed_loop_is_witness {k n : ℕ} (sol : M K → M K → Option (M K)) (hsol : SolSpec sol n) (g : K)
    (A B Q R N : M K) (s0 : Sda K)
    (hA : Dim A k k) (hB : Dim B k n) (hQ : Dim Q k k) (hR : Dim R n n) (hN : Dim N n k)
    (h0 : riccInit sol g A B Q R N = some s0)
    (H : Matrix (Fin k) (Fin k) K) (Si : Matrix (Fin n) (Fin n) K)
    (hSi2 : (toMat n n R + (toMat k n B)ᵀ * (H + g • (1 : Matrix (Fin k) (Fin k) K)) * toMat k n B) * Si = 1) :
    (1 + toMat k k s0.G * H)
        * (toMat k k A - toMat k n B * Si
            * (toMat n k N + (toMat k n B)ᵀ * (H + g • (1 : Matrix (Fin k) (Fin k) K)) * toMat k k A))
      = toMat k k s0.A := by
  obtain ⟨_, _, _, V, va, _, eA, eG, _⟩ := riccInit_toMat sol hsol g A B Q R N s0 hA hB hQ hR hN h0
  have eS : toMat n n R + (toMat k n B)ᵀ * (H + g • (1 : Matrix (Fin k) (Fin k) K)) * toMat k n B
      = (toMat n n R + g • ((toMat k n B)ᵀ * toMat k n B)) + (toMat k n B)ᵀ * H * toMat k n B := by
    simp only [Matrix.mul_add, Matrix.add_mul, Matrix.mul_smul, Matrix.smul_mul, Matrix.mul_one]
    abel
  have eM : toMat n k N + (toMat k n B)ᵀ * (H + g • (1 : Matrix (Fin k) (Fin k) K)) * toMat k k A
      = (toMat n k N + g • ((toMat k n B)ᵀ * toMat k k A)) + (toMat k n B)ᵀ * H * toMat k k A := by
    simp only [Matrix.mul_add, Matrix.add_mul, Matrix.mul_smul, Matrix.smul_mul, Matrix.mul_one]
    abel
  rw [eS] at hSi2
  rw [eM, eG, eA]
  exact closed_loop_witness _ H _ _ _ V _ Si va rfl hSi2

/-- **ricc_error_closed_loop.** Error formula of `solve_discrete_riccati` (doubling): if `X = H + gamma I`
    is a symmetric solution of the Riccati equation with cross term (`R`, `Q` symmetric, `R + B'XB` and
    `I + G0 H` invertible, inverses given), then after `j` structured-doubling passes
    `X − (H_j + gamma I) = A_j' (X − gamma I) Acl^(2^j)`, `Acl = A − B (R + B'XB)^{-1}(N + B'XA)` the
    closed-loop matrix of the ORIGINAL problem: the iterate returned by the code differs from a solution
    by a term carried by the `2^j`-th power of that solution's closed loop (quadratic convergence to the
    stabilising solution, and only to it). All sizes `k`, `n`, all `j`. -/
theorem ricc_error_closed_loop {k n : ℕ} (sol : M K → M K → Option (M K))
    (hsolk : SolSpec sol k) (hsoln : SolSpec sol n) (g : K)
    (A B Q R N : M K) (s0 : Sda K)
    (hA : Dim A k k) (hB : Dim B k n) (hQ : Dim Q k k) (hR : Dim R n n) (hN : Dim N n k)
    (hQs : (toMat k k Q)ᵀ = toMat k k Q) (hRs : (toMat n n R)ᵀ = toMat n n R)
    (h0 : riccInit sol g A B Q R N = some s0)
    (H Wi : Matrix (Fin k) (Fin k) K) (Si : Matrix (Fin n) (Fin n) K) (hH : Hᵀ = H)
    (hSi1 : Si * (toMat n n R + (toMat k n B)ᵀ * (H + g • (1 : Matrix (Fin k) (Fin k) K)) * toMat k n B) = 1)
    (hSi2 : (toMat n n R + (toMat k n B)ᵀ * (H + g • (1 : Matrix (Fin k) (Fin k) K)) * toMat k n B) * Si = 1)
    (hW : (1 + toMat k k s0.G * H) * Wi = 1) (hW' : Wi * (1 + toMat k k s0.G * H) = 1)
    (hdare : H + g • (1 : Matrix (Fin k) (Fin k) K)
        = (toMat k k A)ᵀ * (H + g • (1 : Matrix (Fin k) (Fin k) K)) * toMat k k A
          - (toMat n k N + (toMat k n B)ᵀ * (H + g • (1 : Matrix (Fin k) (Fin k) K)) * toMat k k A)ᵀ * Si
            * (toMat n k N + (toMat k n B)ᵀ * (H + g • (1 : Matrix (Fin k) (Fin k) K)) * toMat k k A)
          + toMat k k Q) :
    ∀ (j : ℕ) (sj : Sda K), sdaIter sol s0 j = some sj →
      (H + g • (1 : Matrix (Fin k) (Fin k) K)) - (toMat k k sj.H + g • (1 : Matrix (Fin k) (Fin k) K))
        = (toMat k k sj.A)ᵀ * H
          * (toMat k k A - toMat k n B * Si
              * (toMat n k N + (toMat k n B)ᵀ * (H + g • (1 : Matrix (Fin k) (Fin k) K)) * toMat k k A))
            ^ (2 ^ j) := by
  intro j sj hj
  obtain ⟨⟨dA, dG, dH⟩, gs, hs⟩ := ricc_init_symmetric sol hsoln g A B Q R N s0 hA hB hQ hR hN hQs hRs h0
  have hfix := (riccati_fixed_point_iff sol hsoln g A B Q R N s0 hA hB hQ hR hN hRs h0 H Wi Si hH
    hSi1 hSi2 hW).mp hdare
  have hwit := ricc_closed_loop_is_witness sol hsoln g A B Q R N s0 hA hB hQ hR hN h0 H Si hSi2
  have hcl : toMat k k A - toMat k n B * Si
        * (toMat n k N + (toMat k n B)ᵀ * (H + g • (1 : Matrix (Fin k) (Fin k) K)) * toMat k k A)
      = Wi * toMat k k s0.A := by
    rw [← hwit, ← Matrix.mul_assoc, hW', Matrix.one_mul]
  have hX : H = toMat k k s0.H + (toMat k k s0.A)ᵀ * H
      * (toMat k k A - toMat k n B * Si
        * (toMat n k N + (toMat k n B)ᵀ * (H + g • (1 : Matrix (Fin k) (Fin k) K)) * toMat k k A)) := by
    rw [hcl]
    have : (toMat k k s0.A)ᵀ * H * (Wi * toMat k k s0.A) = (toMat k k s0.A)ᵀ * (H * Wi) * toMat k k s0.A := by
      simp only [Matrix.mul_assoc]
    rw [this]; exact hfix
  have := (sda_fixed_point_closed_loop_power sol hsolk s0 dA dG dH gs hs H _ hwit hX j sj hj).2
  rw [add_sub_add_right_eq_sub]
  exact this

/-- non-vacuity: scalar instance `A = B = Q = 1, R = 2, N = 0, gamma = 1` with the exact 1×1 solver: the
    initial triple exists and three passes run; its Riccati solution is `X = 2` (`H = 1`, closed loop `1/2`) -/
example : ((riccInit sol1 (1 : ℚ) (M.ofRows [[1]]) (M.ofRows [[1]]) (M.ofRows [[1]]) (M.ofRows [[2]])
    (M.ofRows [[0]])).bind fun s => sdaIter sol1 s 3).isSome = true := by decide +kernel

end riccati_error

section riccati_return_error
variable {K : Type} [Field K] [LinearOrder K] [IsStrictOrderedRing K]

/-- **ricc_return_error.** End-to-end contract of `solve_discrete_riccati(method="doubling")` after the
    choice of `gamma`: if the call returns normally `X` after `p` passes, then for EVERY symmetric solution
    `Xs = H + gamma I` of the Riccati equation (hypotheses of `ricc_error_closed_loop`)
    `Xs − X = A_p' (Xs − gamma I) Acl^(2^p)` with `Acl` the closed-loop matrix of `Xs` and `A_p` the first
    component of the triple after `p` passes; moreover `1 ≤ p ≤ max_iter` and `X` is symmetric. -/
theorem ricc_return_error {k n : ℕ} (sol : M K → M K → Option (M K))
    (hsolk : SolSpec sol k) (hsoln : SolSpec sol n) (tol : K) (maxIter : ℕ) (g : K)
    (A B Q R N X : M K) (p : ℕ) (es : List K)
    (hA : Dim A k k) (hB : Dim B k n) (hQ : Dim Q k k) (hR : Dim R n n) (hN : Dim N n k)
    (hQs : (toMat k k Q)ᵀ = toMat k k Q) (hRs : (toMat n n R)ᵀ = toMat n n R)
    (h : riccDoubling sol tol maxIter g A B Q R N = some (.ok X p es))
    (H Wi : Matrix (Fin k) (Fin k) K) (Si : Matrix (Fin n) (Fin n) K) (hH : Hᵀ = H)
    (hSi1 : Si * (toMat n n R + (toMat k n B)ᵀ * (H + g • (1 : Matrix (Fin k) (Fin k) K)) * toMat k n B) = 1)
    (hSi2 : (toMat n n R + (toMat k n B)ᵀ * (H + g • (1 : Matrix (Fin k) (Fin k) K)) * toMat k n B) * Si = 1)
    (hW : ∀ s0, riccInit sol g A B Q R N = some s0 →
      (1 + toMat k k s0.G * H) * Wi = 1 ∧ Wi * (1 + toMat k k s0.G * H) = 1)
    (hdare : H + g • (1 : Matrix (Fin k) (Fin k) K)
        = (toMat k k A)ᵀ * (H + g • (1 : Matrix (Fin k) (Fin k) K)) * toMat k k A
          - (toMat n k N + (toMat k n B)ᵀ * (H + g • (1 : Matrix (Fin k) (Fin k) K)) * toMat k k A)ᵀ * Si
            * (toMat n k N + (toMat k n B)ᵀ * (H + g • (1 : Matrix (Fin k) (Fin k) K)) * toMat k k A)
          + toMat k k Q) :
    1 ≤ p ∧ p ≤ maxIter ∧ (toMat k k X)ᵀ = toMat k k X ∧
    ∃ s0 sp, riccInit sol g A B Q R N = some s0 ∧ sdaIter sol s0 p = some sp ∧
      (H + g • (1 : Matrix (Fin k) (Fin k) K)) - toMat k k X
        = (toMat k k sp.A)ᵀ * H
          * (toMat k k A - toMat k n B * Si
              * (toMat n k N + (toMat k n B)ᵀ * (H + g • (1 : Matrix (Fin k) (Fin k) K)) * toMat k k A))
            ^ (2 ^ p) := by
  obtain ⟨s0, sp, sprev, h0, h1, h2, hsp, _, hX, _⟩ := ricc_return_spec sol tol maxIter g A B Q R N X p es h
  have hsym := ricc_returned_symmetric sol hsolk hsoln tol maxIter g A B Q R N X p es hA hB hQ hR hN hQs hRs h
  obtain ⟨hW1, hW2⟩ := hW s0 h0
  obtain ⟨⟨dA, dG, dH⟩, gs, hs⟩ := ricc_init_symmetric sol hsoln g A B Q R N s0 hA hB hQ hR hN hQs hRs h0
  obtain ⟨⟨_, _, dHp⟩, _, _⟩ := sda_iter_symmetric sol hsolk s0 dA dG dH gs hs p sp hsp
  have hI : Dim (ident Q.nr : M K) k k := by rw [hQ.nr]; exact dim_ident k
  have hIm : toMat k k (ident Q.nr : M K) = 1 := by rw [hQ.nr]; exact toMat_ident k
  have hXm : toMat k k X = toMat k k sp.H + g • (1 : Matrix (Fin k) (Fin k) K) := by
    rw [hX, toMat_madd dHp, toMat_smul g hI, hIm]
  refine ⟨h1, h2, hsym, s0, sp, h0, hsp, ?_⟩
  rw [hXm]
  exact ricc_error_closed_loop sol hsolk hsoln g A B Q R N s0 hA hB hQ hR hN hQs hRs h0 H Wi Si hH
    hSi1 hSi2 hW1 hW2 hdare p sp hsp

/-- non-vacuity: the scalar instance above does return normally (exact 1×1 solver, `tol = 1/10^10`) -/
example : (match riccDoubling sol1 ((1 : ℚ) / 10000000000) 500 1 (M.ofRows [[1]]) (M.ofRows [[1]])
    (M.ofRows [[1]]) (M.ofRows [[2]]) (M.ofRows [[0]]) with
    | some (.ok _ p _) => decide (1 ≤ p) | _ => false) = true := by decide +kernel

end riccati_return_error

section entry_points
variable {K : Type} [Field K] [LinearOrder K] [IsStrictOrderedRing K]

/-- **lyapEntry_badMethod_iff.** `solve_discrete_lyapunov` raises the "Check your method input"
    `ValueError` iff the method string is neither `"doubling"` nor `"bartels-stewart"` (whatever the other
    arguments are). -/
theorem lyapEntry_badMethod_iff (tol : K) (method : String) (maxIt : Int) (A B : M K) :
    (match lyapEntry tol method maxIt A B with | .badMethod => True | _ => False) ↔
      (method ≠ "doubling" ∧ method ≠ "bartels-stewart") := by
  unfold lyapEntry
  by_cases h1 : method = "doubling"
  · simp only [h1, if_true]
    cases lyapDoubling tol maxIt.toNat A B <;> simp
  · by_cases h2 : method = "bartels-stewart"
    · simp [h1, h2]
    · simp [h1, h2]

/-- **lyapEntry_external_iff.** The call is delegated to SciPy iff `method = "bartels-stewart"`. -/
theorem lyapEntry_external_iff (tol : K) (method : String) (maxIt : Int) (A B : M K) :
    (match lyapEntry tol method maxIt A B with | .external => True | _ => False) ↔
      method = "bartels-stewart" := by
  unfold lyapEntry
  by_cases h1 : method = "doubling"
  · simp only [h1, if_true]
    cases lyapDoubling tol maxIt.toNat A B <;> simp
  · by_cases h2 : method = "bartels-stewart"
    · simp [h2]
    · simp [h1, h2]

/-- **lyapEntry_small_maxIt.** With the doubling method every `max_it ≤ 1` (zero and negative integers
    included) raises the iteration `ValueError` after the first pass, reporting `n_its = 2`, for all
    `A`, `B` and `tol`. -/
theorem lyapEntry_small_maxIt (tol : K) (maxIt : Int) (A B : M K) (h : maxIt ≤ 1) :
    (match lyapEntry tol "doubling" maxIt A B with | .maxit n => n = 2 | _ => False) := by
  unfold lyapEntry lyapDoubling
  have hn : maxIt.toNat ≤ 1 := by omega
  simp only [if_true, lyapLoop]
  rw [if_pos (by omega)]

/-- **mQuadraticSum_spec.** `m_quadratic_sum(A, B, max_it)`: a normal return is the truncated series its
    docstring promises, `V = Σ_{j<2^(its-1)} A^j B (A')^j`, with `2 ≤ its ≤ max_it`, and its Lyapunov
    residual is exactly the tail term. -/
theorem mQuadraticSum_spec {n : ℕ} (tol : K) (maxIt : Int) (A B X : M K) (its : ℕ)
    (hA : Dim A n n) (hB : Dim B n n) (h : mQuadraticSum tol maxIt A B = .ok X its) :
    2 ≤ its ∧ (its : Int) ≤ maxIt ∧
    toMat n n X = ∑ j ∈ range (2 ^ (its - 1)), toMat n n A ^ j * toMat n n B * (toMat n n A)ᵀ ^ j ∧
    toMat n n A * toMat n n X * (toMat n n A)ᵀ - toMat n n X + toMat n n B
      = toMat n n A ^ (2 ^ (its - 1)) * toMat n n B * (toMat n n A)ᵀ ^ (2 ^ (its - 1)) := by
  unfold mQuadraticSum lyapEntry at h
  simp only [if_true] at h
  cases hd : lyapDoubling tol maxIt.toNat A B with
  | maxit n ds => rw [hd] at h; cases h
  | ok X' n ds =>
    rw [hd] at h
    simp only [LyapEntryOut.ok.injEq] at h
    obtain ⟨rfl, rfl⟩ := h
    obtain ⟨h2, hle, hX, hres, _⟩ := lyap_return_spec tol maxIt.toNat A B X' n ds hA hB hd
    exact ⟨h2, by omega, hX, hres⟩

/-- **riccEntry_none_eq_zeros.** Omitting `N` is the same as passing `np.zeros((n, k))` with
    `n = R.shape[0]`, `k = Q.shape[0]`, for every method and all other arguments. -/
theorem riccEntry_none_eq_zeros (sol : M K → M K → Option (M K)) (tol : K) (maxIter : ℕ) (g : K)
    (method : String) (A B Q R : M K) :
    riccEntry sol tol maxIter g method A B Q R none
      = riccEntry sol tol maxIter g method A B Q R (some (zero R.nr Q.nr)) := rfl

/-- **riccEntry_badMethod_iff.** `solve_discrete_riccati` raises the method `ValueError` iff the method
    string is neither `"doubling"` nor `"qz"`; in that case nothing else is evaluated. -/
theorem riccEntry_badMethod_iff (sol : M K → M K → Option (M K)) (tol : K) (maxIter : ℕ) (g : K)
    (method : String) (A B Q R : M K) (N? : Option (M K)) :
    (match riccEntry sol tol maxIter g method A B Q R N? with | .badMethod => True | _ => False) ↔
      (method ≠ "doubling" ∧ method ≠ "qz") := by
  unfold riccEntry
  by_cases h1 : method = "doubling"
  · simp [h1]
  · by_cases h2 : method = "qz"
    · simp [h2]
    · simp [h1, h2]

/-- non-vacuity -/
example : (match lyapEntry (0 : ℚ) "doubling" (-3) (M.ofRows [[1 / 2]]) (M.ofRows [[1]]) with
    | .maxit n => decide (n = 2) | _ => false) = true := by decide +kernel
example : (match mQuadraticSum ((1 : ℚ) / 1000000000000000) 50 (M.ofRows [[1 / 2]]) (M.ofRows [[1]]) with
    | .ok _ its => decide (its = 7) | _ => false) = true := by decide +kernel
example : (match lyapEntry (0 : ℚ) "qz" 50 (M.ofRows [[1 / 2]]) (M.ofRows [[1]]) with
    | .badMethod => true | _ => false) = true := by decide +kernel

end entry_points

end QE.C06
