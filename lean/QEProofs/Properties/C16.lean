/-
  Property C16 — grid and combinatorial enumerations: theorems about QEModel.C16.
-/
import QEModel.C16
import QEProofs.Lemmas.C16Comb
namespace QE.C16

/-! ## comb_jit -/

/-- outside the domain `0 ≤ k ≤ N` the jitted binomial is 0 -/
theorem combJit_outside (N k : Int) (h : N < 0 ∨ k < 0 ∨ k > N) : combJit N k = 0 := by
  unfold combJit; simp [h]

/-- **comb_jit, exact characterisation.** For `0 ≤ k ≤ N ≤ INTP_MAX`, with
    `t = min k (N-k)` the number of loop iterations, call the input *bad* when
    `N = INTP_MAX ∧ t ≥ 2` (the early return of the code) or when one of the products
    `C(N,j)·(N−j)`, `j < t` (the product formed in iteration `j+1` of the loop, i.e.
    `C(N,j'−1)·(N+1−j')` for `1 ≤ j' ≤ t`) exceeds `INTP_MAX`.
    Then `combJit N k = C(N,k)` on good inputs and `= 0` on bad inputs. -/
theorem combJit_spec (N k : Nat) (hk : k ≤ N) (hN : (N : Int) ≤ intpMax) :
    let t := min k (N - k)
    let bad := ((N : Int) = intpMax ∧ 2 ≤ t) ∨
               ∃ j, j < t ∧ intpMax < (Nat.choose N j : Int) * ((N : Int) - (j : Int))
    (¬ bad → combJit N k = (Nat.choose N k : Int)) ∧ (bad → combJit N k = 0) := by
  intro t bad
  have hun := combJit_unfold N k hk
  have htN : 0 + t ≤ N := by simp only [t]; omega
  by_cases h0 : t = 0
  · have hb : ¬ bad := by
      rintro (⟨_, h⟩ | ⟨j, hj, _⟩) <;> omega
    refine ⟨fun _ => ?_, fun h => absurd h hb⟩
    rw [hun, if_pos h0, ← choose_min N k hk]
    show _ = ((Nat.choose N t : Nat) : Int)
    rw [h0]; simp
  by_cases h1 : t = 1
  · have hb : ¬ bad := by
      rintro (⟨_, h⟩ | ⟨j, hj, hov⟩)
      · omega
      · have : j = 0 := by omega
        subst this
        simp at hov; omega
    refine ⟨fun _ => ?_, fun h => absurd h hb⟩
    rw [hun, if_neg h0, if_pos h1, ← choose_min N k hk]
    show _ = ((Nat.choose N t : Nat) : Int)
    rw [h1]; simp
  by_cases hmax : (N : Int) = intpMax
  · refine ⟨fun h => absurd (Or.inl ⟨hmax, by omega⟩) h, fun _ => ?_⟩
    rw [hun, if_neg h0, if_neg h1, if_pos hmax]
  rw [hun, if_neg h0, if_neg h1, if_neg hmax]
  have hstart : combLoop ((N : Int) + 1) t 1 1
      = combLoop ((N : Int) + 1) t (0 + 1) (Nat.choose N 0 : Int) := by simp
  show (¬ bad → combLoop ((N : Int) + 1) t 1 1 = _) ∧ (bad → combLoop ((N : Int) + 1) t 1 1 = 0)
  rw [hstart]
  constructor
  · intro hb
    rw [combLoop_ok N t 0 htN, Nat.zero_add, choose_min N k hk]
    intro i _ hi
    by_contra hc
    exact hb (Or.inr ⟨i, by omega, by unfold combProd at hc; omega⟩)
  · rintro (⟨h, _⟩ | ⟨j, hj, hov⟩)
    · exact absurd h hmax
    · exact combLoop_overflow N t 0 htN ⟨j, by omega, by omega, hov⟩

/-- `comb_jit` returns the exact binomial coefficient or 0. -/
theorem combJit_choose_or_zero (N k : Nat) (hk : k ≤ N) (hN : (N : Int) ≤ intpMax) :
    combJit N k = (Nat.choose N k : Int) ∨ combJit N k = 0 := by
  have h := combJit_spec N k hk hN
  simp only at h
  by_cases hb : ((N : Int) = intpMax ∧ 2 ≤ min k (N - k)) ∨
      ∃ j, j < min k (N - k) ∧ intpMax < (Nat.choose N j : Int) * ((N : Int) - (j : Int))
  · exact Or.inr (h.2 hb)
  · exact Or.inl (h.1 hb)

/-- `comb_jit` returns 0 on `0 ≤ k ≤ N` **only** when an intermediate product would
    overflow or in the early-return case `N = INTP_MAX ∧ min k (N−k) ≥ 2` (in which the
    code gives up although e.g. `C(N, N−2)`… would be formed from a wrapped `N+1`). -/
theorem combJit_eq_zero_iff (N k : Nat) (hk : k ≤ N) (hN : (N : Int) ≤ intpMax) :
    combJit N k = 0 ↔
      (((N : Int) = intpMax ∧ 2 ≤ min k (N - k)) ∨
        ∃ j, j < min k (N - k) ∧ intpMax < (Nat.choose N j : Int) * ((N : Int) - (j : Int))) := by
  have h := combJit_spec N k hk hN
  simp only at h
  constructor
  · intro hz
    by_contra hb
    have := h.1 hb
    rw [hz] at this
    have hpos := Nat.choose_pos hk
    omega
  · exact h.2

/-- Whenever the final result fits (`C(N,k) ≤ INTP_MAX`) and `N < INTP_MAX`, no intermediate
    product `C(N,j)(N−j)`, `j < min k (N−k)`, can be excluded a priori — but if all of them
    fit, the answer is exact. (Convenience form of `combJit_spec` used by the rank theorems.) -/
theorem combJit_exact (N k : Nat) (hk : k ≤ N) (hN : (N : Int) < intpMax)
    (hfit : ∀ j, j < min k (N - k) →
      (Nat.choose N j : Int) * ((N : Int) - (j : Int)) ≤ intpMax) :
    combJit N k = (Nat.choose N k : Int) := by
  refine (combJit_spec N k hk (Int.le_of_lt hN)).1 ?_
  rintro (⟨h, _⟩ | ⟨j, hj, hov⟩)
  · omega
  · have := hfit j hj; omega

/-- **No wrap-around.** On all `int64` inputs the model on unbounded integers (`combJit`)
    equals the same program with every arithmetic result reduced to `int64` (`combJitW`):
    every intermediate value of `comb_jit` lies in `[0, INTP_MAX]`. -/
theorem combJitW_eq_combJit (N k : Int) (hN0 : -(2 ^ 63) ≤ N) (hN : N ≤ intpMax)
    (hk0 : -(2 ^ 63) ≤ k) (hk : k ≤ intpMax) : combJitW N k = combJit N k := by
  unfold combJitW combJit
  by_cases h : N < 0 ∨ k < 0 ∨ k > N
  · rw [if_pos h, if_pos h]
  · rw [if_neg h, if_neg h]
    have hw : wrap64 (N - k) = N - k := wrap64_id _ (by omega) (by omega)
    simp only [hw]
    by_cases h0 : min k (N - k) = 0
    · rw [if_pos h0, if_pos h0]
    rw [if_neg h0, if_neg h0]
    by_cases h1 : min k (N - k) = 1
    · rw [if_pos h1, if_pos h1]
    rw [if_neg h1, if_neg h1]
    by_cases hm : N = intpMax
    · rw [if_pos hm, if_pos hm]
    rw [if_neg hm, if_neg hm]
    have hw2 : wrap64 (N + 1) = N + 1 := wrap64_id _ (by omega) (by omega)
    rw [hw2]
    apply combLoopW_eq (N + 1) (by omega) _ 1 1 (Nat.le_refl _) _ (by decide) (by decide)
    have : ((min k (N - k)).toNat : Int) = min k (N - k) := Int.toNat_of_nonneg (by omega)
    omega

example : combJit 10 3 = 120 := by decide
example : combJit 61 30 = 232714176627630544 := by decide
example : combJit 66 33 = 0 := by decide  -- C(66,33) fits, but the product C(66,32)*34 does not
example : combJit 68 34 = 0 := by decide
example : combJit intpMax intpMax = 1 := by decide
example : combJit intpMax (intpMax - 1) = intpMax := by decide
example : combJit intpMax (intpMax - 2) = 0 := by decide
/-- the "bad" predicate of `combJit_spec` is non-trivially true … -/
example : ∃ j, j < min 34 (68 - 34) ∧
    intpMax < (Nat.choose 68 j : Int) * ((68 : Int) - (j : Int)) := ⟨33, by decide, by decide⟩

/-! ## exact binomials used by the non-jitted functions -/

/-- the driver's fast binomial is `Nat.choose` -/
theorem chooseFast_eq_choose' (n k : Nat) : chooseFast n k = Nat.choose n k :=
  chooseFast_eq_choose n k

/-- the recursive reference binomial is `Nat.choose` -/
theorem chooseNat_eq_choose' (n k : Nat) : chooseNat n k = Nat.choose n k :=
  chooseNat_eq_choose n k

/-- `num_compositions(m, n) = C(n+m−1, m−1)` -/
theorem numCompositions_eq (m n : Nat) :
    numCompositions m n = Nat.choose (n + m - 1) (m - 1) :=
  chooseFast_eq_choose _ _

end QE.C16
