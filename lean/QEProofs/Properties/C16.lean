/-
  Property C16 — grid and combinatorial enumerations: theorems about QEModel.C16.
-/
import QEModel.C16
import QEProofs.Lemmas.C16Comb
import QEProofs.Lemmas.C16CombGuard
import QEProofs.Lemmas.C16KArray
import QEProofs.Lemmas.C16Colex
import QEProofs.Lemmas.C16Repeat
import QEProofs.Lemmas.C16Cart
import QEProofs.Lemmas.C16Nearest
import QEProofs.Lemmas.C16NearestIdx
import QEProofs.Lemmas.C16Prod
import QEProofs.Lemmas.C16ProdSet
import QEProofs.Lemmas.C16Linspace
import QEProofs.Lemmas.C16Simplex
import QEProofs.Lemmas.C16SimplexIdx
namespace QE.C16

/-! ## comb_jit -/

/-- outside the domain `0 ≤ k ≤ N` the jitted binomial is 0 -/
theorem combJit_outside (N k : Int) (h : N < 0 ∨ k < 0 ∨ k > N) : combJit N k = 0 := by
  unfold combJit; simp [h]

/-- **comb_jit, exact characterisation.** For `0 ≤ k ≤ N ≤ INTP_MAX`, with
    `t = min k (N-k)` the number of loop iterations, call the input *bad* when
    `N = INTP_MAX ∧ t ≥ 2` (the early return of the code) or when one of the products
    `C(N,j)·(N−j)`, `j < t` (the product formed in iteration `j+1` of the loop, i.e.
    `C(N,j'−1)·(N+1−j')` for `1 ≤ j' ≤ t`) exceeds `INTP_MAX`.
    Then `combJit N k = C(N,k)` on good inputs and `= 0` on bad inputs. -/
theorem combJit_spec (N k : Nat) (hk : k ≤ N) (hN : (N : Int) ≤ intpMax) :
    let t := min k (N - k)
    let bad := ((N : Int) = intpMax ∧ 2 ≤ t) ∨
               ∃ j, j < t ∧ intpMax < (Nat.choose N j : Int) * ((N : Int) - (j : Int))
    (¬ bad → combJit N k = (Nat.choose N k : Int)) ∧ (bad → combJit N k = 0) := by
  intro t bad
  have hun := combJit_unfold N k hk
  have htN : 0 + t ≤ N := by simp only [t]; omega
  by_cases h0 : t = 0
  · have hb : ¬ bad := by
      rintro (⟨_, h⟩ | ⟨j, hj, _⟩) <;> omega
    refine ⟨fun _ => ?_, fun h => absurd h hb⟩
    rw [hun, if_pos h0, ← choose_min N k hk]
    show _ = ((Nat.choose N t : Nat) : Int)
    rw [h0]; simp
  by_cases h1 : t = 1
  · have hb : ¬ bad := by
      rintro (⟨_, h⟩ | ⟨j, hj, hov⟩)
      · omega
      · have : j = 0 := by omega
        subst this
        simp at hov; omega
    refine ⟨fun _ => ?_, fun h => absurd h hb⟩
    rw [hun, if_neg h0, if_pos h1, ← choose_min N k hk]
    show _ = ((Nat.choose N t : Nat) : Int)
    rw [h1]; simp
  by_cases hmax : (N : Int) = intpMax
  · refine ⟨fun h => absurd (Or.inl ⟨hmax, by omega⟩) h, fun _ => ?_⟩
    rw [hun, if_neg h0, if_neg h1, if_pos hmax]
  rw [hun, if_neg h0, if_neg h1, if_neg hmax]
  have hstart : combLoop ((N : Int) + 1) t 1 1
      = combLoop ((N : Int) + 1) t (0 + 1) (Nat.choose N 0 : Int) := by simp
  show (¬ bad → combLoop ((N : Int) + 1) t 1 1 = _) ∧ (bad → combLoop ((N : Int) + 1) t 1 1 = 0)
  rw [hstart]
  constructor
  · intro hb
    rw [combLoop_ok N t 0 htN, Nat.zero_add, choose_min N k hk]
    intro i _ hi
    by_contra hc
    exact hb (Or.inr ⟨i, by omega, by unfold combProd at hc; omega⟩)
  · rintro (⟨h, _⟩ | ⟨j, hj, hov⟩)
    · exact absurd h hmax
    · exact combLoop_overflow N t 0 htN ⟨j, by omega, by omega, hov⟩

/-- `comb_jit` returns the exact binomial coefficient or 0. -/
theorem combJit_choose_or_zero (N k : Nat) (hk : k ≤ N) (hN : (N : Int) ≤ intpMax) :
    combJit N k = (Nat.choose N k : Int) ∨ combJit N k = 0 := by
  have h := combJit_spec N k hk hN
  simp only at h
  by_cases hb : ((N : Int) = intpMax ∧ 2 ≤ min k (N - k)) ∨
      ∃ j, j < min k (N - k) ∧ intpMax < (Nat.choose N j : Int) * ((N : Int) - (j : Int))
  · exact Or.inr (h.2 hb)
  · exact Or.inl (h.1 hb)

/-- `comb_jit` returns 0 on `0 ≤ k ≤ N` **only** when an intermediate product would
    overflow or in the early-return case `N = INTP_MAX ∧ min k (N−k) ≥ 2` (in which the
    code gives up although e.g. `C(N, N−2)`… would be formed from a wrapped `N+1`). -/
theorem combJit_eq_zero_iff (N k : Nat) (hk : k ≤ N) (hN : (N : Int) ≤ intpMax) :
    combJit N k = 0 ↔
      (((N : Int) = intpMax ∧ 2 ≤ min k (N - k)) ∨
        ∃ j, j < min k (N - k) ∧ intpMax < (Nat.choose N j : Int) * ((N : Int) - (j : Int))) := by
  have h := combJit_spec N k hk hN
  simp only at h
  constructor
  · intro hz
    by_contra hb
    have := h.1 hb
    rw [hz] at this
    have hpos := Nat.choose_pos hk
    omega
  · exact h.2

/-- Whenever the final result fits (`C(N,k) ≤ INTP_MAX`) and `N < INTP_MAX`, no intermediate
    product `C(N,j)(N−j)`, `j < min k (N−k)`, can be excluded a priori — but if all of them
    fit, the answer is exact. (Convenience form of `combJit_spec` used by the rank theorems.) -/
theorem combJit_exact (N k : Nat) (hk : k ≤ N) (hN : (N : Int) < intpMax)
    (hfit : ∀ j, j < min k (N - k) →
      (Nat.choose N j : Int) * ((N : Int) - (j : Int)) ≤ intpMax) :
    combJit N k = (Nat.choose N k : Int) := by
  refine (combJit_spec N k hk (Int.le_of_lt hN)).1 ?_
  rintro (⟨h, _⟩ | ⟨j, hj, hov⟩)
  · omega
  · have := hfit j hj; omega

/-- **Closed form of the overflow guard.** For `0 ≤ k ≤ N < INTP_MAX`, `comb_jit` returns the
    exact binomial iff `min(k, N−k) · C(N,k) ≤ INTP_MAX` (the largest intermediate product is
    the last one, `t·C(N,t)`); otherwise it returns 0 (`combJit_choose_or_zero`). So the
    result can be 0 although `C(N,k)` itself fits, by a factor of up to `min(k, N−k)`. -/
theorem combJit_exact_iff_guard (N k : Nat) (hk : k ≤ N) (hN : (N : Int) < intpMax) :
    combJit N k = (Nat.choose N k : Int) ↔
      ((min k (N - k) * Nat.choose N k : Nat) : Int) ≤ intpMax := by
  have ht : min k (N - k) ≤ N / 2 := by omega
  have hct := choose_min N k hk
  constructor
  · intro h
    by_cases h0 : min k (N - k) = 0
    · rw [h0]; simp; decide
    · have hpos := Nat.choose_pos hk
      have hne : combJit N k ≠ 0 := by rw [h]; omega
      have hnb := (combJit_eq_zero_iff N k hk (Int.le_of_lt hN)).not.mp hne
      have hlast : ¬ intpMax < combProd N (min k (N - k) - 1) := by
        intro hc
        exact hnb (Or.inr ⟨min k (N - k) - 1, by omega, by unfold combProd at hc; exact hc⟩)
      rw [combProd_eq N _ (by omega)] at hlast
      have e : min k (N - k) - 1 + 1 = min k (N - k) := by omega
      rw [e, hct] at hlast
      omega
  · intro h
    apply combJit_exact N k hk hN
    intro j hj
    have := combProd_le_last N (min k (N - k)) j ht hj
    rw [hct] at this
    unfold combProd at this
    exact Int.le_trans this h

example : ((min 33 (66 - 33) * Nat.choose 66 33 : Nat) : Int) > intpMax ∧
    (Nat.choose 66 33 : Int) ≤ intpMax ∧ combJit 66 33 = 0 := by decide
example : ((min 2 (4000000000 - 2) * Nat.choose 4000000000 2 : Nat) : Int) > intpMax ∧
    (Nat.choose 4000000000 2 : Int) ≤ intpMax := by
  rw [Nat.choose_two_right]; decide

/-- **No wrap-around.** On all `int64` inputs the model on unbounded integers (`combJit`)
    equals the same program with every arithmetic result reduced to `int64` (`combJitW`):
    every intermediate value of `comb_jit` lies in `[0, INTP_MAX]`. -/
theorem combJitW_eq_combJit (N k : Int) (hN0 : -(2 ^ 63) ≤ N) (hN : N ≤ intpMax)
    (hk0 : -(2 ^ 63) ≤ k) (hk : k ≤ intpMax) : combJitW N k = combJit N k := by
  unfold combJitW combJit
  by_cases h : N < 0 ∨ k < 0 ∨ k > N
  · rw [if_pos h, if_pos h]
  · rw [if_neg h, if_neg h]
    have hw : wrap64 (N - k) = N - k := wrap64_id _ (by omega) (by omega)
    simp only [hw]
    by_cases h0 : min k (N - k) = 0
    · rw [if_pos h0, if_pos h0]
    rw [if_neg h0, if_neg h0]
    by_cases h1 : min k (N - k) = 1
    · rw [if_pos h1, if_pos h1]
    rw [if_neg h1, if_neg h1]
    by_cases hm : N = intpMax
    · rw [if_pos hm, if_pos hm]
    rw [if_neg hm, if_neg hm]
    have hw2 : wrap64 (N + 1) = N + 1 := wrap64_id _ (by omega) (by omega)
    rw [hw2]
    apply combLoopW_eq (N + 1) (by omega) _ 1 1 (Nat.le_refl _) _ (by decide) (by decide)
    have : ((min k (N - k)).toNat : Int) = min k (N - k) := Int.toNat_of_nonneg (by omega)
    omega

example : combJit 10 3 = 120 := by decide
example : combJit 61 30 = 232714176627630544 := by decide
example : combJit 66 33 = 0 := by decide  -- C(66,33) fits, but the product C(66,32)*34 does not
example : combJit 68 34 = 0 := by decide
example : combJit intpMax intpMax = 1 := by decide
example : combJit intpMax (intpMax - 1) = intpMax := by decide
example : combJit intpMax (intpMax - 2) = 0 := by decide
/-- the "bad" predicate of `combJit_spec` is non-trivially true … -/
example : ∃ j, j < min 34 (68 - 34) ∧
    intpMax < (Nat.choose 68 j : Int) * ((68 : Int) - (j : Int)) := ⟨33, by decide, by decide⟩

/-! ## exact binomials used by the non-jitted functions -/

/-- the driver's fast binomial is `Nat.choose` -/
theorem chooseFast_eq_choose' (n k : Nat) : chooseFast n k = Nat.choose n k :=
  chooseFast_eq_choose n k

/-- the recursive reference binomial is `Nat.choose` -/
theorem chooseNat_eq_choose' (n k : Nat) : chooseNat n k = Nat.choose n k :=
  chooseNat_eq_choose n k

/-- `num_compositions(m, n) = C(n+m−1, m−1)` -/
theorem numCompositions_eq (m n : Nat) :
    numCompositions m n = Nat.choose (n + m - 1) (m - 1) :=
  chooseFast_eq_choose _ _

/-! ## next_k_array / k_array_rank (Knuth 7.2.1.3 Algorithm T, combinatorial number system)

All statements are about the literal model (`nextKArray` with `List.set`/`getD` and the fuelled
`while` loop `nkLoop`; `kArrayRank = Σ_i C(a_i, i+1)`); "strictly increasing" is
`List.Pairwise (· < ·)`. Proofs: `QEProofs/Lemmas/C16KArray.lean`. -/

/-- **Successor step.** For a non-empty strictly increasing array, `next_k_array` returns a
    strictly increasing array of the same length whose rank is exactly one larger. -/
theorem nextKArray_rank_succ (a : List Nat) (hne : a ≠ []) (hp : a.Pairwise (· < ·)) :
    (nextKArray a).length = a.length ∧ (nextKArray a).Pairwise (· < ·) ∧
      kArrayRank (nextKArray a) = kArrayRank a + 1 :=
  ⟨nextKArray_length a, nextKArray_pairwise a hp, kArrayRank_next a hne hp⟩

example : ([1, 2, 5] : List Nat) ≠ [] ∧ ([1, 2, 5] : List Nat).Pairwise (· < ·) := by decide
example : nextKArray [1, 2, 5] = [0, 3, 5] ∧ kArrayRank [0, 3, 5] = kArrayRank [1, 2, 5] + 1 := by
  decide

/-- the start of the walk, `arange(k)`, has rank 0 -/
theorem kArrayRank_arange (k : Nat) : kArrayRank (List.range k) = 0 := kArrayRank_range k

/-- **Rank range.** For a strictly increasing `k`-array, `rank a < C(n,k)` iff its largest
    element is `< n` (i.e. iff `a ⊆ {0..n-1}`): the `k`-subsets of `{0..n-1}` are exactly the
    arrays of rank `< C(n,k)`. -/
theorem kArrayRank_lt_choose_iff (a : List Nat) (hne : a ≠ []) (hp : a.Pairwise (· < ·))
    (n : Nat) : kArrayRank a < Nat.choose n a.length ↔ a.getLast hne < n :=
  kArrayRank_lt_iff a hne hp n

example : kArrayRank [1, 2, 5] < Nat.choose 6 3 ∧ ¬ kArrayRank [1, 2, 5] < Nat.choose 5 3 := by
  decide

/-- **Injectivity** of the rank on strictly increasing arrays of equal length
    (combinatorial number system). -/
theorem kArrayRank_injective (a b : List Nat) (hlen : a.length = b.length)
    (hpa : a.Pairwise (· < ·)) (hpb : b.Pairwise (· < ·))
    (hr : kArrayRank a = kArrayRank b) : a = b :=
  kArrayRank_inj a b hlen hpa hpb hr

/-- **The walk.** Starting from `arange(k)`, `k ≥ 1`, the array after `j` calls of
    `next_k_array` is strictly increasing, has length `k`, and `k_array_rank` of it is `j`:
    `k_array_rank` is the position in the walk. -/
theorem nextKArray_iterate_rank (k : Nat) (hk : 1 ≤ k) (j : Nat) :
    (nextKArray^[j] (List.range k)).length = k ∧
      (nextKArray^[j] (List.range k)).Pairwise (· < ·) ∧
      kArrayRank (nextKArray^[j] (List.range k)) = j := by
  rw [← walk_eq_iterate]; exact walk_range_spec k hk j

/-- **Every `k`-subset of `{0..n-1}` exactly once, in rank order.** For `k ≥ 1` an array `a`
    is a strictly increasing `k`-array with entries `< n` iff it is the `j`-th array of the walk
    for some `j < C(n,k)`; that `j` is unique (the rank is `j`, previous theorem) and the loop
    `while a[-1] < n` of the docstring therefore stops after exactly `C(n,k)` arrays. -/
theorem nextKArray_walk_enumerates (k n : Nat) (hk : 1 ≤ k) (a : List Nat) :
    (a.length = k ∧ a.Pairwise (· < ·) ∧ ∀ x ∈ a, x < n) ↔
      ∃ j, j < Nat.choose n k ∧ nextKArray^[j] (List.range k) = a := by
  rw [walk_enumerates k n hk a]
  simp only [walk_eq_iterate]

example : (List.range 6).map (fun j => nextKArray^[j] (List.range 2))
    = [[0, 1], [0, 2], [1, 2], [0, 3], [1, 3], [2, 3]] := by decide

/-- **The rank order is the colex order** ("lexicographic ordering of the descending sequences",
    as both docstrings say): for strictly increasing arrays of equal length,
    `rank a < rank b` iff the reversal of `a` is lexicographically smaller than that of `b`. -/
theorem kArrayRank_colex_order (a b : List Nat) (hlen : a.length = b.length)
    (hpa : a.Pairwise (· < ·)) (hpb : b.Pairwise (· < ·)) :
    kArrayRank a < kArrayRank b ↔ a.reverse < b.reverse :=
  kArrayRank_lt_iff_colex a b hlen hpa hpb

example : kArrayRank [1, 2, 5] < kArrayRank [0, 3, 5] ∧
    ([1, 2, 5] : List Nat).reverse < ([0, 3, 5] : List Nat).reverse := by decide

/-- **The walk runs through the `k`-subsets in strictly increasing colex order**: for `k ≥ 1`
    and `i < j`, the reversal of the `i`-th array of the walk from `arange(k)` is
    lexicographically smaller than the reversal of the `j`-th. -/
theorem nextKArray_walk_colex (k : Nat) (hk : 1 ≤ k) (i j : Nat) (hij : i < j) :
    (nextKArray^[i] (List.range k)).reverse < (nextKArray^[j] (List.range k)).reverse := by
  obtain ⟨li, pi, ri⟩ := nextKArray_iterate_rank k hk i
  obtain ⟨lj, pj, rj⟩ := nextKArray_iterate_rank k hk j
  rw [← kArrayRank_lt_iff_colex _ _ (by rw [li, lj]) pi pj, ri, rj]
  exact hij

example : (nextKArray^[2] (List.range 2)).reverse = [2, 1] ∧
    (nextKArray^[3] (List.range 2)).reverse = [3, 0] := by decide

/-- jitted twin, inner sum: if every `comb_jit` call is exact, the sum is the exact one -/
theorem kArrayRankJitAux_eq : ∀ (l : List Nat) (i0 : Nat),
    (∀ j (hj : j < l.length),
      combJit (l[j] : Int) ((i0 + j : Nat) + 1 : Int) = (Nat.choose l[j] (i0 + j + 1) : Int)) →
    kArrayRankJitAux (l.map Int.ofNat) (i0 : Int) = (kArrayRankAux l i0 : Int)
  | [], _, _ => rfl
  | x :: l, i0, h => by
    have h0 := h 0 (by simp)
    have ih := kArrayRankJitAux_eq l (i0 + 1) (fun j hj => by
      have := h (j + 1) (by simpa using hj)
      simp only [List.getElem_cons_succ] at this
      have e : i0 + (j + 1) = i0 + 1 + j := by omega
      rw [e] at this; exact this)
    simp only [List.map_cons, kArrayRankJitAux, kArrayRankAux_cons]
    simp only [List.getElem_cons_zero, Nat.add_zero] at h0
    push_cast at ih h0 ⊢
    rw [ih]
    have : (Int.ofNat x) = (x : Int) := rfl
    rw [this, h0]

/-- **`k_array_rank_jit`.** Whenever each of its `comb_jit(a[i], i+1)` calls (`i ≥ 1`) returns
    the exact binomial (see `combJit_spec` for exactly when), the jitted twin returns
    `k_array_rank a`. (The docstring's "sufficient condition" `C(a[-1]+1, k) ≤ INTP_MAX` does
    NOT imply this hypothesis: `a = [0, 4000000000]`, known finding `k_array_rank_jit_doc_guard`.)
    `kArrayRankJit` sums over unbounded integers; the `int64` machine sum is `kArrayRankJitW`,
    equal to it whenever the result fits (`kArrayRankJitW_eq`). -/
theorem kArrayRankJit_eq (a : List Nat)
    (h : ∀ i (hi : i < a.length), 1 ≤ i →
      combJit (a[i] : Int) ((i : Int) + 1) = (Nat.choose a[i] (i + 1) : Int)) :
    kArrayRankJit (a.map Int.ofNat) = (kArrayRank a : Int) := by
  cases a with
  | nil => rfl
  | cons x l =>
    have := kArrayRankJitAux_eq l 1 (fun j hj => by
      have := h (j + 1) (by simpa using hj) (by omega)
      simp only [List.getElem_cons_succ] at this
      have e : 1 + j = j + 1 := by omega
      rw [e]; push_cast at this ⊢; exact this)
    simp only [List.map_cons, kArrayRankJit, kArrayRank, kArrayRankAux_cons]
    push_cast at this ⊢
    rw [this]
    simp [Nat.choose_one_right]

example : kArrayRankJit [1, 2, 5] = 12 ∧ kArrayRank [1, 2, 5] = 12 := by decide

/-- **`k_array_rank_jit` under a correct sufficient guard.** If every entry is `< INTP_MAX` and
    `(i+1)·C(a[i], i+1) ≤ INTP_MAX` for every position `i`, the jitted twin returns exactly
    `k_array_rank a` (for strictly increasing `a`: the position in the walk). In the property's
    scope `n ≤ 10` the guard is trivially true. -/
theorem kArrayRankJit_eq_of_guard (a : List Nat)
    (h : ∀ i (hi : i < a.length), (a[i] : Int) < intpMax ∧
      (((i + 1) * Nat.choose a[i] (i + 1) : Nat) : Int) ≤ intpMax) :
    kArrayRankJit (a.map Int.ofNat) = (kArrayRank a : Int) := by
  apply kArrayRankJit_eq
  intro i hi _
  obtain ⟨h1, h2⟩ := h i hi
  have e : ((i : Int) + 1) = ((i + 1 : Nat) : Int) := by push_cast; rfl
  rw [e]
  rcases Nat.lt_or_ge a[i] (i + 1) with hlt | hge
  · rw [combJit_outside _ _ (Or.inr (Or.inr (by omega))), Nat.choose_eq_zero_of_lt hlt]; rfl
  · rw [combJit_exact_iff_guard a[i] (i + 1) hge h1]
    have : min (i + 1) (a[i] - (i + 1)) * Nat.choose a[i] (i + 1)
        ≤ (i + 1) * Nat.choose a[i] (i + 1) := Nat.mul_le_mul_right _ (Nat.min_le_left _ _)
    omega

example : ∀ i (hi : i < ([1, 2, 5] : List Nat).length), (([1, 2, 5] : List Nat)[i] : Int) < intpMax ∧
    (((i + 1) * Nat.choose ([1, 2, 5] : List Nat)[i] (i + 1) : Nat) : Int) ≤ intpMax := by decide

/-! ### `k_array_rank_jit` as the machine computes it (`int64` wrap-around of the running sum) -/

theorem combLoop_nonneg (Mv : Int) : ∀ (rem j : Nat) (val : Int), 0 ≤ val → 1 ≤ j →
    (j : Int) + rem ≤ Mv → 0 ≤ combLoop Mv rem j val := by
  intro rem
  induction rem with
  | zero => intro j val hv _ _; simpa [combLoop] using hv
  | succ rem ih =>
    intro j val hv hj hM
    rw [combLoop]
    split
    · exact Int.le_refl 0
    · apply ih (j + 1) _ _ (by omega) (by push_cast at hM ⊢; omega)
      apply Int.ediv_nonneg _ (by omega)
      exact Int.mul_nonneg hv (by push_cast at hM; omega)

/-- `comb_jit` never returns a negative value -/
theorem combJit_nonneg (N k : Int) : 0 ≤ combJit N k := by
  unfold combJit
  split
  · exact Int.le_refl 0
  · rename_i h
    simp only
    split
    · decide
    · split
      · omega
      · split
        · exact Int.le_refl 0
        · rename_i h0 h1 _
          apply combLoop_nonneg (N + 1) _ 1 1 (by decide) (Nat.le_refl 1)
          have : ((min k (N - k)).toNat : Int) = min k (N - k) := Int.toNat_of_nonneg (by omega)
          omega

theorem kArrayRankJitAux_nonneg : ∀ (l : List Int) (i : Int), 0 ≤ kArrayRankJitAux l i
  | [], _ => Int.le_refl 0
  | x :: l, i => by
    rw [kArrayRankJitAux]
    exact Int.add_nonneg (combJit_nonneg x (i + 1)) (kArrayRankJitAux_nonneg l (i + 1))

theorem kArrayRankJitWLoop_eq : ∀ (rest : List Int) (i idx : Int), 1 ≤ i →
    i + rest.length ≤ intpMax → (∀ x ∈ rest, -(2 ^ 63) ≤ x ∧ x ≤ intpMax) →
    -(2 ^ 63) ≤ idx → idx + kArrayRankJitAux rest i ≤ intpMax →
    kArrayRankJitWLoop rest i idx = idx + kArrayRankJitAux rest i
  | [], _, idx, _, _, _, _, _ => by simp [kArrayRankJitWLoop, kArrayRankJitAux]
  | x :: rest, i, idx, hi, hlen, hb, hlo, hfit => by
    have hx := hb x List.mem_cons_self
    have hi1 : i + 1 ≤ intpMax := by
      simp only [List.length_cons] at hlen; push_cast at hlen; omega
    have hw : wrap64 (i + 1) = i + 1 := wrap64_id _ (by omega) hi1
    have hc : combJitW x (i + 1) = combJit x (i + 1) :=
      combJitW_eq_combJit x (i + 1) hx.1 hx.2 (by omega) hi1
    have hc0 := combJit_nonneg x (i + 1)
    have ha0 := kArrayRankJitAux_nonneg rest (i + 1)
    rw [kArrayRankJitAux] at hfit
    have hw2 : wrap64 (idx + combJit x (i + 1)) = idx + combJit x (i + 1) :=
      wrap64_id _ (by omega) (by omega)
    rw [kArrayRankJitWLoop, hw, hc, hw2, kArrayRankJitAux,
      kArrayRankJitWLoop_eq rest (i + 1) _ (by omega)
        (by simp only [List.length_cons] at hlen; push_cast at hlen; omega)
        (fun y hy => hb y (List.mem_cons_of_mem _ hy)) (by omega) (by omega)]
    omega

/-- **No silent wrap-around when the result fits.** For `int64` inputs, if the (unbounded
    integer) value `kArrayRankJit a` of the sum `a[0] + Σ comb_jit(a[i], i+1)` is `≤ INTP_MAX`,
    the machine computation with `int64` wrap-around (`kArrayRankJitW`, the definition the
    driver's `krankjitw` op executes against the real `k_array_rank_jit`) returns exactly that
    value: all partial sums are non-decreasing, so none of them wraps. -/
theorem kArrayRankJitW_eq (a : List Int) (hb : ∀ x ∈ a, -(2 ^ 63) ≤ x ∧ x ≤ intpMax)
    (hlen : (a.length : Int) ≤ intpMax) (hfit : kArrayRankJit a ≤ intpMax) :
    kArrayRankJitW a = kArrayRankJit a := by
  cases a with
  | nil => rfl
  | cons a0 rest =>
    simp only [kArrayRankJit] at hfit
    simp only [List.length_cons] at hlen
    show kArrayRankJitWLoop rest 1 a0 = a0 + kArrayRankJitAux rest 1
    exact kArrayRankJitWLoop_eq rest 1 a0 (Int.le_refl 1) (by push_cast at hlen; omega)
      (fun y hy => hb y (List.mem_cons_of_mem _ hy)) (hb a0 List.mem_cons_self).1 hfit

/-- **`k_array_rank_jit`, machine level, is the position in the walk** under the guard of
    `kArrayRankJit_eq_of_guard` whenever the rank itself fits in `intp`. -/
theorem kArrayRankJitW_eq_rank (a : List Nat)
    (h : ∀ i (hi : i < a.length), (a[i] : Int) < intpMax ∧
      (((i + 1) * Nat.choose a[i] (i + 1) : Nat) : Int) ≤ intpMax)
    (hlen : (a.length : Int) ≤ intpMax) (hfit : (kArrayRank a : Int) ≤ intpMax) :
    kArrayRankJitW (a.map Int.ofNat) = (kArrayRank a : Int) := by
  have he := kArrayRankJit_eq_of_guard a h
  rw [← he]
  apply kArrayRankJitW_eq
  · intro x hx
    obtain ⟨y, hy, rfl⟩ := List.mem_map.mp hx
    obtain ⟨i, hi, rfl⟩ := List.getElem_of_mem hy
    have := (h i hi).1
    have h0 : (0 : Int) ≤ Int.ofNat a[i] := Int.natCast_nonneg _
    have e : Int.ofNat a[i] = (a[i] : Int) := rfl
    constructor
    · omega
    · rw [e]; omega
  · simpa using hlen
  · rw [he]; exact hfit

example : kArrayRankJitW [1, 2, 5] = 12 := by decide
example : kArrayRankJitW [intpMax, 5] = -9223372036854775799 ∧ kArrayRankJit [intpMax, 5] > intpMax := by
  decide

/-! ## cartesian / _repeat_1d / _cartesian_index  (proofs: `Lemmas/C16Repeat`, `Lemmas/C16Cart`) -/

/-- **`_repeat_1d`.** With `N = len x`, `L = total // (K·N)`: the output has length `total`
    and every position `ind < K·N·L` holds `x[(ind / L) % N]` (the rest, if `K·N ∤ total`,
    stays 0). -/
theorem repeat1d_spec {α : Type} [Zero α] (x : List α) (K total : Nat) :
    (repeat1d x K total).length = total ∧
    (∀ ind, ind < K * x.length * (total / (K * x.length)) →
      (repeat1d x K total).getD ind 0
        = x.getD ((ind / (total / (K * x.length))) % x.length) 0) ∧
    (∀ ind, K * x.length * (total / (K * x.length)) ≤ ind →
      (repeat1d x K total).getD ind 0 = 0) := by
  refine ⟨repeat1d_length x K total, fun ind h => ?_, fun ind h => repeat1d_getD_rest x K total ind h⟩
  refine repeat1d_getD x K total ind ?_ h
  rw [Nat.mul_comm]; exact Nat.div_mul_le_self _ _

example : repeat1d [7, 8, 9] 2 12 = ([7, 7, 8, 8, 9, 9, 7, 7, 8, 8, 9, 9] : List Int) := by decide

/-- **`cartesian`, both orders.** The grid has `∏ shapes` rows of `len(nodes)` entries, and
    entry `(r, d)` is `nodes[d][digit]`, where `digit = (r / ∏_{e>d} shape_e) % shape_d` for
    order C (last index fastest) and `(r / ∏_{e<d} shape_e) % shape_d` for order F. -/
theorem cartesian_spec {α : Type} [Zero α] (nodes : List (List α)) :
    (∀ o, (cartesian nodes o).length = (nodes.map List.length).prod) ∧
    ∀ r, r < (nodes.map List.length).prod →
      (∀ o, ((cartesian nodes o).getD r []).length = nodes.length) ∧
      ∀ d, d < nodes.length →
        ((cartesian nodes false).getD r []).getD d 0
          = (nodes.getD d []).getD (digitC (nodes.map List.length) d r) 0 ∧
        ((cartesian nodes true).getD r []).getD d 0
          = (nodes.getD d []).getD (digitF (nodes.map List.length) d r) 0 :=
  ⟨fun o => cartesian_length nodes o, fun r hr =>
    ⟨fun o => cartesian_row_length nodes o r hr, fun d hd =>
      ⟨cartesian_C nodes r d hr hd, cartesian_F nodes r d hr hd⟩⟩⟩

example : cartesian [[1, 2], [10, 20, 30]] false
    = ([[1, 10], [1, 20], [1, 30], [2, 10], [2, 20], [2, 30]] : List (List Int)) := by decide
example : cartesian [[1, 2], [10, 20, 30]] true
    = ([[1, 10], [2, 10], [1, 20], [2, 20], [1, 30], [2, 30]] : List (List Int)) := by decide

/-- **`cartesian` IS the product grid, as a list.** Order C: the output equals the standard
    recursive cartesian product `cartProd nodes` (first factor slowest — exactly what
    `itertools.product(*nodes)` enumerates: every element of the product once, in that order).
    Order F: it equals the product of the reversed grid list with every row reversed (first
    factor fastest). No hypotheses on the kernel `cartesian` (empty `nodes`: the single empty
    row; an empty grid: no rows) — but AS CALLED the code raises in exactly those two cases, see
    `cartesianApi_spec`. -/
theorem cartesian_eq_product {α : Type} [Zero α] (nodes : List (List α)) :
    cartesian nodes false = cartProd nodes ∧
    cartesian nodes true = (cartProd nodes.reverse).map List.reverse :=
  ⟨cartesian_C_eq_cartProd nodes, cartesian_F_eq_cartProd nodes⟩

example : cartProd ([[1, 2], [10, 20, 30]] : List (List Int))
    = [[1, 10], [1, 20], [1, 30], [2, 10], [2, 20], [2, 30]] := by decide
example : (cartProd ([[1, 2], [10, 20, 30]] : List (List Int)).reverse).map List.reverse
    = [[1, 10], [2, 10], [1, 20], [2, 20], [1, 30], [2, 30]] := by decide
example : cartesian ([] : List (List Int)) false = [[]] ∧
    cartesian ([[1, 2], []] : List (List Int)) true = [] := by decide

/-- **`cartesian` enumerates the FULL product, each point once** (either order): a row occurs
    in `cartesian nodes order` iff it takes one node from each grid, in the order of the grids;
    and if no grid repeats a node (e.g. strictly sorted grids) no row is repeated. -/
theorem cartesian_complete_nodup {α : Type} [Zero α] (nodes : List (List α)) (o : Bool) :
    (∀ row, row ∈ cartesian nodes o ↔ List.Forall₂ (fun a g => a ∈ g) row nodes) ∧
    ((∀ g ∈ nodes, g.Nodup) → (cartesian nodes o).Nodup) := by
  cases o with
  | false =>
    rw [cartesian_C_eq_cartProd]
    exact ⟨fun row => mem_cartProd nodes row, nodup_cartProd nodes⟩
  | true =>
    rw [cartesian_F_eq_cartProd]
    constructor
    · intro row
      rw [← List.forall₂_reverse_iff, ← mem_cartProd]
      constructor
      · intro h
        obtain ⟨t, ht, rfl⟩ := List.mem_map.mp h
        rw [List.reverse_reverse]; exact ht
      · intro h
        exact List.mem_map.mpr ⟨row.reverse, h, List.reverse_reverse row⟩
    · intro h
      exact (nodup_cartProd nodes.reverse (fun g hg => h g (List.mem_reverse.mp hg))).map
        List.reverse_injective

example : List.Forall₂ (fun a g => a ∈ g) ([2, 30] : List Int) [[1, 2], [10, 20, 30]] ∧
    ∀ g ∈ ([[1, 2], [10, 20, 30]] : List (List Int)), g.Nodup := by decide

/-- **`_cartesian_index` is the inverse of the digit maps** (so row numbers and valid index
    tuples are in bijection, in the same enumeration as `cartesian`): for `r < ∏ shapes`,
    the index of the C-digits of `r` is `r`, and (the code passes both arrays reversed for
    order F) the index of the reversed F-digits w.r.t. the reversed shapes is `r`; conversely
    the digits of the index of a valid tuple are the tuple. -/
theorem cartesianIndex_digits (s : List Nat) :
    (∀ r, r < s.prod → cartesianIndex (digitsC s r) s = r ∧
        cartesianIndex (digitsF s r).reverse s.reverse = r) ∧
    (∀ inds, ValidIdx inds s →
        cartesianIndex inds s < s.prod ∧ digitsC s (cartesianIndex inds s) = inds ∧
        cartesianIndex inds.reverse s.reverse < s.prod ∧
        digitsF s (cartesianIndex inds.reverse s.reverse) = inds) :=
  ⟨fun r hr => ⟨cartesianIndex_digitsC s r hr, cartesianIndex_digitsF s r hr⟩,
   fun inds h => ⟨(digitsC_cartesianIndex inds s h).1, (digitsC_cartesianIndex inds s h).2,
     (digitsF_cartesianIndex inds s h).1, (digitsF_cartesianIndex inds s h).2⟩⟩

example : digitsC [2, 3, 4] 17 = [1, 1, 1] ∧ cartesianIndex [1, 1, 1] [2, 3, 4] = 17 := by decide
example : digitsF [2, 3, 4] 17 = [1, 2, 2] ∧
    cartesianIndex ([1, 2, 2] : List Nat).reverse ([2, 3, 4] : List Nat).reverse = 17 := by decide
example : ValidIdx [1, 2, 2] [2, 3, 4] := by simp [ValidIdx]

/-- **The product grid is complete and repetition-free, in the stated order.** For every valid
    index tuple `inds` (one index below each grid length), the row of `cartesian nodes` numbered
    `_cartesian_index(inds)` (C: as is; F: both arrays reversed, as the code does) is the point
    `(nodes[d][inds[d]])_d`; with `cartesianIndex_digits` (a bijection between valid tuples and
    row numbers) every element of the product occurs in exactly one row. -/
theorem cartesian_row_of_index {α : Type} [Zero α] (nodes : List (List α)) (inds : List Nat)
    (h : ValidIdx inds (nodes.map List.length)) (d : Nat) (hd : d < nodes.length) :
    ((cartesian nodes false).getD (cartesianIndex inds (nodes.map List.length)) []).getD d 0
        = (nodes.getD d []).getD (inds.getD d 0) 0 ∧
    ((cartesian nodes true).getD
        (cartesianIndex inds.reverse (nodes.map List.length).reverse) []).getD d 0
        = (nodes.getD d []).getD (inds.getD d 0) 0 := by
  have hC := digitsC_cartesianIndex inds _ h
  have hF := digitsF_cartesianIndex inds _ h
  have hds : d < (nodes.map List.length).length := by simpa using hd
  constructor
  · rw [cartesian_C nodes _ d hC.1 hd, ← digitsC_getD _ _ _ hds, hC.2]
  · rw [cartesian_F nodes _ d hF.1 hd, ← digitsF_getD _ _ _ hds, hF.2]

example : ((cartesian ([[1, 2], [10, 20, 30]] : List (List Int)) false).getD
    (cartesianIndex [1, 2] [2, 3]) []) = [2, 30] := by decide

/-- `_cartesian_index` as a closed formula: `Σ_p indices[p] · ∏_{q>p} nums[q]` -/
theorem cartesianIndex_formula (inds nums : List Nat) (hlen : inds.length = nums.length) :
    cartesianIndex inds nums = ciVal inds nums := cartesianIndex_eq_ciVal inds nums hlen

/-! ## cartesian / mlinspace as called: argument handling and error branches
    (proofs: `Lemmas/C16Linspace`). The models `cartesianApi`, `linspace`, `mlGrids`,
    `mlinspaceApi` are executed by the driver ops `cartapi`, `linspace`, `mlinspace` (the last two
    at `Float`, compared bit for bit with NumPy / `mlinspace`). -/

/-- **`cartesian(nodes, order)` as called.** It returns normally iff there is at least one grid
    and no grid is empty, and then the result is the product list (order `'C'`: `cartProd nodes`;
    ANY other `order` string: the F enumeration). With no grids it raises `ValueError`
    (`np.result_type()` of nothing); with an empty grid it raises `ZeroDivisionError`
    (`_repeat_1d` divides by `K·N = 0`) — the code does not return the empty product. -/
theorem cartesianApi_spec {α : Type} [Zero α] (nodes : List (List α)) (order : String) :
    (∀ rows, cartesianApi nodes order = .ok rows ↔
      nodes ≠ [] ∧ (∀ g ∈ nodes, g ≠ []) ∧
      rows = if order = "C" then cartProd nodes else (cartProd nodes.reverse).map List.reverse) ∧
    (cartesianApi nodes order = .error "ValueError" ↔ nodes = []) ∧
    (cartesianApi nodes order = .error "ZeroDivisionError" ↔ nodes ≠ [] ∧ ∃ g ∈ nodes, g = []) := by
  refine ⟨fun rows => ?_, cartesianApi_error_iff nodes order⟩
  rw [cartesianApi_ok_iff]
  by_cases h : order = "C"
  · simp only [h, ne_eq, not_true_eq_false, decide_false, if_true, cartesian_C_eq_cartProd]
  · simp only [h, ne_eq, not_false_eq_true, decide_true, if_false, cartesian_F_eq_cartProd]

example : cartesianApi ([[1, 2], [10, 20, 30]] : List (List Int)) "C"
    = .ok [[1, 10], [1, 20], [1, 30], [2, 10], [2, 20], [2, 30]] := by decide
example : cartesianApi ([[1, 2], []] : List (List Int)) "F" = .error "ZeroDivisionError" ∧
    cartesianApi ([] : List (List Int)) "C" = .error "ValueError" := by decide

section
variable {K : Type} [Field K] [LinearOrder K] [IsStrictOrderedRing K]

/-- **`np.linspace(start, stop, num)` in exact arithmetic**: `num` nodes; for `num ≥ 2` node `i`
    is `start + i·(stop−start)/(num−1)` — in particular the first is `start` and the last is
    `stop` — for either branch of NumPy's `step == 0` test; `num = 1` gives `[start]`. -/
theorem linspace_spec (start stop : K) (num : Nat) :
    (linspace (fun n : Nat => (n : K)) start stop num).length = num ∧
    (2 ≤ num → ∀ i, i < num →
      (linspace (fun n : Nat => (n : K)) start stop num).getD i 0
        = start + (i : K) * (stop - start) / ((num : K) - 1)) ∧
    (2 ≤ num → (linspace (fun n : Nat => (n : K)) start stop num).getD 0 0 = start ∧
      (linspace (fun n : Nat => (n : K)) start stop num).getD (num - 1) 0 = stop) ∧
    (num = 1 → linspace (fun n : Nat => (n : K)) start stop num = [start]) := by
  refine ⟨linspace_length start stop num, fun hn i hi => linspace_getD start stop num i hn hi,
    fun hn => ⟨?_, ?_⟩, fun h => by rw [h]; exact linspace_one start stop⟩
  · rw [linspace_getD start stop num 0 hn (by omega)]; simp
  · rw [linspace_getD start stop num (num - 1) hn (by omega)]
    have hne : ((num : K) - 1) ≠ 0 := by
      have : (2 : K) ≤ (num : K) := by exact_mod_cast hn
      intro h; linarith
    rw [Nat.cast_sub (by omega)]; simp only [Nat.cast_one]; field_simp; ring

/-- a non-degenerate increasing interval gives a strictly increasing grid (so the grids of
    `mlinspace` are valid sorted, duplicate-free grids for `cartesian_nearest_index`) -/
theorem linspace_strictly_increasing (start stop : K) (num : Nat) (h : start < stop) :
    (linspace (fun n : Nat => (n : K)) start stop num).Pairwise (· < ·) :=
  linspace_strictMono start stop num h

/-- **`mlinspace(a, b, nums, order)` as called.** It returns normally iff `nums` is non-empty,
    `a` and `b` have at least `len(nums)` entries and every count is `≥ 1`; the result is then the
    product grid (`cartProd`, resp. its F enumeration for any `order ≠ 'C'`) of the
    per-dimension `linspace(a[i], b[i], nums[i])` grids. (Otherwise the first failing index of
    the comprehension decides: `IndexError`, `ValueError` for a negative count; then
    `ValueError` for no dimension and `ZeroDivisionError` for a zero count — `mlGrids_ok_iff`,
    `cartesianApi_spec`.) -/
theorem mlinspaceApi_spec (a b : List K) (nums : List Int) (order : String)
    (rows : List (List K)) :
    mlinspaceApi (fun n : Nat => (n : K)) a b nums order = .ok rows ↔
      nums ≠ [] ∧ nums.length ≤ a.length ∧ nums.length ≤ b.length ∧ (∀ n ∈ nums, 1 ≤ n) ∧
      rows = if order = "C" then cartProd (mlGridsOf a b nums 0)
             else (cartProd (mlGridsOf a b nums 0).reverse).map List.reverse := by
  rw [mlinspaceApi_ok_iff]
  by_cases h : order = "C"
  · simp only [h, ne_eq, not_true_eq_false, decide_false, if_true, cartesian_C_eq_cartProd]
  · simp only [h, ne_eq, not_false_eq_true, decide_true, if_false, cartesian_F_eq_cartProd]

end

example : mlinspaceApi (fun n : Nat => (n : Rat)) [0, 0] [1, 1] [2, 3] "C"
    = .ok [[0, 0], [0, 1/2], [0, 1], [1, 0], [1, 1/2], [1, 1]] := by decide +kernel
example : mlinspaceApi (fun n : Nat => (n : Rat)) [0, 0] [1, 1] [2, -1] "C" = .error "ValueError" ∧
    mlinspaceApi (fun n : Nat => (n : Rat)) [0] [1, 1] [2, 3] "C" = .error "IndexError" ∧
    mlinspaceApi (fun n : Nat => (n : Rat)) [0, 0] [1, 1] [2, 0] "C" = .error "ZeroDivisionError" ∧
    mlinspaceApi (fun n : Nat => (n : Rat)) [] [] [] "F" = .error "ValueError" := by decide +kernel
example : linspace (fun n : Nat => (n : Rat)) 1 3 5 = [1, 3/2, 2, 5/2, 3] := by decide +kernel

/-! ## cartesian_nearest_index  (proofs: `Lemmas/C16Nearest`, `Lemmas/C16NearestIdx`) -/

section
variable {K : Type} [Field K] [LinearOrder K] [IsStrictOrderedRing K]

/-- `np.searchsorted(g, x)` as modelled: everything before the position is `< x`, the element
    at the position (if any) is `≥ x` — for any list. -/
theorem searchLeft_is_lower_bound (g : List K) (x : K) :
    searchLeft g x ≤ g.length ∧ (∀ i, i < searchLeft g x → g.getD i 0 < x) ∧
      (searchLeft g x < g.length → x ≤ g.getD (searchLeft g x) 0) :=
  searchLeft_spec g x

/-- **Per-dimension step is an argmin.** On a non-empty sorted grid the chosen index is valid
    and minimises `|x − g[i]|`; on a strictly increasing grid all lower indices are strictly
    farther (ties, e.g. exact mid-points, go to the lower index). -/
theorem nearest1_is_argmin (g : List K) (x : K) (hne : g ≠ []) (hs : g.Pairwise (· ≤ ·)) :
    nearest1 g x < g.length ∧
      (∀ i, i < g.length → |x - g.getD (nearest1 g x) 0| ≤ |x - g.getD i 0|) ∧
      (g.Pairwise (· < ·) →
        ∀ i, i < nearest1 g x → |x - g.getD (nearest1 g x) 0| < |x - g.getD i 0|) :=
  ⟨(nearest1_argmin g x hne hs).1, (nearest1_argmin g x hne hs).2,
   fun hss => nearest1_lower_strict g x hss⟩

/-- **The per-dimension result is fully determined**: on a non-empty strictly increasing grid,
    `nearest1 g x` is THE least index at minimum distance — an index `j` equals it iff `j` is
    valid, no grid point is closer than `g[j]`, and every lower index is strictly farther. -/
theorem nearest1_eq_iff (g : List K) (x : K) (hne : g ≠ []) (hs : g.Pairwise (· < ·)) (j : Nat) :
    j = nearest1 g x ↔
      j < g.length ∧ (∀ i, i < g.length → |x - g.getD j 0| ≤ |x - g.getD i 0|) ∧
        ∀ i, i < j → |x - g.getD j 0| < |x - g.getD i 0| := by
  obtain ⟨h1, h2, h3⟩ := nearest1_is_argmin g x hne (hs.imp le_of_lt)
  constructor
  · rintro rfl; exact ⟨h1, h2, h3 hs⟩
  · rintro ⟨k1, k2, k3⟩
    rcases Nat.lt_trichotomy j (nearest1 g x) with hlt | heq | hgt
    · exact absurd (h3 hs j hlt) (not_lt.mpr (k2 _ h1))
    · exact heq
    · exact absurd (k3 _ hgt) (not_lt.mpr (h2 j k1))

example : ([0, 1, 3] : List Rat) ≠ [] ∧ ([0, 1, 3] : List Rat).Pairwise (· < ·) := by
  decide +kernel

example : nearest1 ([0, 1, 3] : List Rat) 2 = 1 ∧ nearest1 ([0, 1, 3] : List Rat) (5/2) = 2 ∧
    nearest1 ([0, 1, 3] : List Rat) (-1) = 0 ∧ nearest1 ([0, 1, 3] : List Rat) 7 = 2 := by
  decide +kernel

/-- **`cartesian_nearest_index`.** For non-empty sorted grids and either order, the returned
    index is a row number of `cartesian nodes order`, that row consists of the per-dimension
    nearest grid values, and no row of the product grid is closer to `x` in (squared) Euclidean
    distance. -/
theorem nearestIndex_is_argmin (nodes : List (List K)) (x : List K) (o : Bool)
    (hn : ∀ g ∈ nodes, g ≠ [] ∧ g.Pairwise (· ≤ ·)) :
    nearestIndex nodes x o < (cartesian nodes o).length ∧
    (∀ d, d < nodes.length →
      ((cartesian nodes o).getD (nearestIndex nodes x o) []).getD d 0
        = (nodes.getD d []).getD (nearest1 (nodes.getD d []) (x.getD d 0)) 0) ∧
    ∀ r', r' < (cartesian nodes o).length →
      sqDist nodes.length x ((cartesian nodes o).getD (nearestIndex nodes x o) [])
        ≤ sqDist nodes.length x ((cartesian nodes o).getD r' []) :=
  nearestIndex_argmin nodes x o hn

/-- **`cartesian_nearest_index(x, nodes, order)` as called** (batch `X` of points of length `n`):
    it returns normally iff there is at least one grid, no grid is empty and `len(nodes) = n`,
    and then answers point by point with `nearestIndex` (F enumeration only for `order == 'F'`);
    an empty grid raises `IndexError` (from `type(e[0])`, before anything else), otherwise no
    grids or a length mismatch raise `ValueError`. -/
theorem nearestIndexApi_spec (X : List (List K)) (n : Nat) (nodes : List (List K))
    (order : String) :
    (∀ idx, nearestIndexApi X n nodes order = .ok idx ↔
      nodes ≠ [] ∧ (∀ g ∈ nodes, g ≠ []) ∧ nodes.length = n ∧
      idx = X.map fun x => nearestIndex nodes x (order == "F")) ∧
    (nearestIndexApi X n nodes order = .error "IndexError" ↔ ∃ g ∈ nodes, g = []) ∧
    (nearestIndexApi X n nodes order = .error "ValueError" ↔
      (∀ g ∈ nodes, g ≠ []) ∧ (nodes = [] ∨ nodes.length ≠ n)) := by
  unfold nearestIndexApi
  by_cases h1 : nodes.any List.isEmpty = true
  · obtain ⟨g, hg, he⟩ := List.any_eq_true.mp h1
    have hge := List.isEmpty_iff.mp he
    rw [if_pos h1]
    refine ⟨fun idx => ⟨fun h => (by cases h), fun h => absurd hge (h.2.1 g hg)⟩,
      ⟨fun _ => ⟨g, hg, hge⟩, fun _ => rfl⟩, ⟨fun h => ?_, fun h => absurd hge (h.1 g hg)⟩⟩
    injection h with h; exact absurd h (by decide)
  rw [if_neg h1]
  have hall : ∀ g ∈ nodes, g ≠ [] := fun g hg he =>
    h1 (List.any_eq_true.mpr ⟨g, hg, List.isEmpty_iff.mpr he⟩)
  have hnoidx : ¬ ∃ g ∈ nodes, g = [] := fun ⟨g, hg, he⟩ => hall g hg he
  by_cases h2 : nodes.isEmpty = true
  · have hn := List.isEmpty_iff.mp h2
    rw [if_pos h2]
    refine ⟨fun idx => ⟨fun h => (by cases h), fun h => absurd hn h.1⟩,
      ⟨fun h => ?_, fun h => absurd h hnoidx⟩, ⟨fun _ => ⟨hall, Or.inl hn⟩, fun _ => rfl⟩⟩
    injection h with h; exact absurd h (by decide)
  rw [if_neg h2]
  have hne : nodes ≠ [] := fun h => h2 (List.isEmpty_iff.mpr h)
  by_cases h3 : nodes.length ≠ n
  · rw [if_pos h3]
    refine ⟨fun idx => ⟨fun h => (by cases h), fun h => absurd h.2.2.1 h3⟩,
      ⟨fun h => ?_, fun h => absurd h hnoidx⟩, ⟨fun _ => ⟨hall, Or.inr h3⟩, fun _ => rfl⟩⟩
    injection h with h; exact absurd h (by decide)
  · rw [if_neg h3]
    have h3' : nodes.length = n := not_not.mp h3
    refine ⟨fun idx => ⟨fun h => ?_, fun h => by rw [h.2.2.2]⟩,
      ⟨fun h => (by cases h), fun h => absurd h hnoidx⟩, ⟨fun h => (by cases h), ?_⟩⟩
    · injection h with h; exact ⟨hne, hall, h3', h.symm⟩
    · rintro ⟨_, h | h⟩
      · exact absurd h hne
      · exact absurd h3' h

/-- **End to end, for the documented orders**: with `order ∈ {'C','F'}`, at least one grid, all
    grids non-empty and sorted and points of length `len(nodes)`, both entry points return
    normally, and every returned index is a row number of `cartesian(nodes, order)` — the same
    enumeration — whose row is at minimum Euclidean distance from the corresponding point.
    (For any other `order` string `cartesian` enumerates in F order while
    `cartesian_nearest_index` computes the C index — `cartesianApi_spec`,
    `nearestIndexApi_spec` — so the two no longer refer to the same enumeration.) -/
theorem nearestIndexApi_argmin (X : List (List K)) (nodes : List (List K)) (order : String)
    (ho : order = "C" ∨ order = "F") (hne : nodes ≠ [])
    (hn : ∀ g ∈ nodes, g ≠ [] ∧ g.Pairwise (· ≤ ·)) :
    ∃ idx rows, nearestIndexApi X nodes.length nodes order = .ok idx ∧
      cartesianApi nodes order = .ok rows ∧ idx.length = X.length ∧
      ∀ t (ht : t < X.length), idx.getD t 0 < rows.length ∧
        ∀ r', r' < rows.length →
          sqDist nodes.length (X[t]) (rows.getD (idx.getD t 0) [])
            ≤ sqDist nodes.length (X[t]) (rows.getD r' []) := by
  have hb : (order == "F") = decide (order ≠ "C") := by
    rcases ho with rfl | rfl <;> decide
  refine ⟨X.map fun x => nearestIndex nodes x (order == "F"),
    cartesian nodes (decide (order ≠ "C")), ?_, ?_, by simp, ?_⟩
  · exact ((nearestIndexApi_spec X nodes.length nodes order).1 _).mpr
      ⟨hne, fun g hg => (hn g hg).1, rfl, rfl⟩
  · exact (cartesianApi_ok_iff nodes order _).mpr ⟨hne, fun g hg => (hn g hg).1, rfl⟩
  · intro t ht
    have hget : (X.map fun x => nearestIndex nodes x (order == "F")).getD t 0
        = nearestIndex nodes X[t] (decide (order ≠ "C")) := by
      rw [List.getD_eq_getElem?_getD, List.getElem?_map, List.getElem?_eq_getElem ht, hb]; rfl
    rw [hget]
    have := nearestIndex_argmin nodes X[t] (decide (order ≠ "C")) hn
    exact ⟨this.1, this.2.2⟩

example : nearestIndexApi ([[2, 16], [0, 0]] : List (List Rat)) 2 [[0, 1, 3], [10, 20]] "F"
      = .ok [4, 0] ∧
    nearestIndexApi ([[2, 16]] : List (List Rat)) 2 [[0, 1], []] "C" = .error "IndexError" ∧
    nearestIndexApi ([[2, 16, 1]] : List (List Rat)) 3 [[0, 1, 3], [10, 20]] "C"
      = .error "ValueError" := by decide +kernel
example : ∀ g ∈ ([[0, 1, 3], [10, 20]] : List (List Rat)), g ≠ [] ∧ g.Pairwise (· ≤ ·) := by
  decide +kernel

end

example : nearestIndex ([[0, 1, 3], [10, 20]] : List (List Rat)) [2, 16] false = 3 ∧
    nearestIndex ([[0, 1, 3], [10, 20]] : List (List Rat)) [2, 16] true = 4 := by decide +kernel

/-! ## simplex_grid / simplex_index / num_compositions
    (proofs: `Lemmas/C16Simplex`, `Lemmas/C16SimplexIdx`)

All statements are about the literal model: `sgStep` (the loop body with the pointer `h`,
`List.set`/`getD`), `sgRows`, `simplexGrid` (`none` = the `ValueError`), and `simplexIndex`
(`decumsum` + the `break`ing loop). A composition is a list with `length = m` and `sum = n`;
`<` on `List Nat` is the lexicographic order. -/

/-- the `ValueError` branch of `simplex_grid` is taken exactly when `num_compositions_jit`
    (i.e. `comb_jit`) returns 0 -/
theorem simplexGrid_valueError_iff (m n : Nat) :
    simplexGrid m n = none ↔ numCompositionsJit m n = 0 := simplexGrid_eq_none_iff m n

/-- `num_compositions_jit(m, n)` is the exact number `C(n+m−1, m−1)` or 0 (overflow guard of
    `comb_jit`, characterised by `combJit_eq_zero_iff`) -/
theorem numCompositionsJit_exact_or_zero (m n : Nat) (hm : 1 ≤ m)
    (hN : ((n + m - 1 : Nat) : Int) ≤ intpMax) :
    numCompositionsJit m n = (numCompositions m n : Int) ∨ numCompositionsJit m n = 0 := by
  have h := combJit_choose_or_zero (n + m - 1) (m - 1) (by omega) hN
  have e1 : ((n + m - 1 : Nat) : Int) = (n : Int) + (m : Int) - 1 := by omega
  have e2 : ((m - 1 : Nat) : Int) = (m : Int) - 1 := by omega
  unfold numCompositionsJit
  rw [numCompositions_eq, ← e1, ← e2]
  exact h

/-- **`simplex_grid` lists every `m`-part composition of `n` exactly once, in lexicographic
    order; `simplex_index` is its inverse; `num_compositions` its length.** (Under the
    no-overflow condition `hL`, which by the two theorems above fails only in the `ValueError`
    case.) The grid has `L = num_compositions(m,n)` rows; a list is a row iff it is a
    composition; the rows are strictly increasing lexicographically (hence pairwise distinct);
    and for every composition `y`, `simplex_index(y)` is the row number of `y`. -/
theorem simplexGrid_enumerates (m n : Nat) (hm : 1 ≤ m)
    (hL : numCompositionsJit m n = numCompositions m n) :
    ∃ rows, simplexGrid m n = some rows ∧ rows.length = numCompositions m n ∧
      (∀ y, y ∈ rows ↔ y.length = m ∧ y.sum = n) ∧
      rows.Pairwise (· < ·) ∧
      ∀ y, y.length = m → y.sum = n →
        ∃ i, i < numCompositions m n ∧ simplexIndex y m n = i ∧ rows[i]? = some y :=
  simplexGrid_full_spec m n hm hL

example : numCompositionsJit 3 4 = numCompositions 3 4 := by decide
example : simplexGrid 2 3 = some [[0, 3], [1, 2], [2, 1], [3, 0]] := by decide

/-- the two outcomes of `simplex_grid(m, n)` for `m ≥ 1`, `n+m−1 ≤ INTP_MAX`: `ValueError`
    with `comb_jit = 0`, or the complete lexicographic enumeration -/
theorem simplexGrid_error_or_enumerates (m n : Nat) (hm : 1 ≤ m)
    (hN : ((n + m - 1 : Nat) : Int) ≤ intpMax) :
    (simplexGrid m n = none ∧ numCompositionsJit m n = 0) ∨
    ∃ rows, simplexGrid m n = some rows ∧ rows.length = numCompositions m n ∧
      (∀ y, y ∈ rows ↔ y.length = m ∧ y.sum = n) ∧ rows.Pairwise (· < ·) ∧
      ∀ y, y.length = m → y.sum = n →
        ∃ i, i < numCompositions m n ∧ simplexIndex y m n = i ∧ rows[i]? = some y := by
  rcases numCompositionsJit_exact_or_zero m n hm hN with h | h
  · exact Or.inr (simplexGrid_full_spec m n hm h)
  · exact Or.inl ⟨(simplexGrid_eq_none_iff m n).mpr h, h⟩

/-- **Row by row**: row `i` of the grid (for every `i < L`) is a composition whose
    `simplex_index` is `i`; the first row is `(0,…,0,n)` and the last `(n,0,…,0)`. -/
theorem simplexGrid_rows (m n : Nat) (hm : 1 ≤ m) :
    (∀ i, i < numCompositions m n →
      ∃ row, (sgRows m (numCompositions m n) (sgInit m n))[i]? = some row ∧
        row.length = m ∧ row.sum = n ∧ simplexIndex row m n = i) ∧
    (sgRows m (numCompositions m n) (sgInit m n))[0]? = some (List.replicate (m - 1) 0 ++ [n]) ∧
    (sgRows m (numCompositions m n) (sgInit m n))[numCompositions m n - 1]?
      = some (n :: List.replicate (m - 1) 0) :=
  ⟨fun i hi => simplexGrid_row_spec m n i hm hi, simplexGrid_first_row m n hm,
    simplexGrid_last_row m n hm⟩

/-- **Consecutive rows are lexicographic successors**: row `i` is smaller than row `i+1` and
    no composition lies strictly between them. -/
theorem simplexGrid_consecutive (m n i : Nat) (hm : 1 ≤ m) (hi : i + 1 < numCompositions m n) :
    ∃ x y, (sgRows m (numCompositions m n) (sgInit m n))[i]? = some x ∧
      (sgRows m (numCompositions m n) (sgInit m n))[i + 1]? = some y ∧ x < y ∧
      ∀ w : List Nat, w.length = m → w.sum = n → ¬ (x < w ∧ w < y) := by
  obtain ⟨x, hx, lx, sx, ix⟩ := simplexGrid_row_spec m n i hm (by omega)
  obtain ⟨y, hy, ly, sy, iy⟩ := simplexGrid_row_spec m n (i + 1) hm hi
  refine ⟨x, y, hx, hy, ?_, ?_⟩
  · rw [← simplexIndex_lt_iff m n hm x y lx ly sx sy, ix, iy]; omega
  · rintro w lw sw ⟨h1, h2⟩
    rw [← simplexIndex_lt_iff m n hm x w lx lw sx sw, ix] at h1
    rw [← simplexIndex_lt_iff m n hm w y lw ly sw sy, iy] at h2
    omega

/-- the loop body on a state whose pointer `h` sits behind the last non-zero entry `v`
    (explicit NEXCOM successor; all index arithmetic of `sgStep` is in range there) -/
theorem sgStep_on_normal_form (pre : List Nat) (u v z m : Nat) (hm : m = pre.length + 2 + z) :
    sgStep m ⟨pre ++ u :: v :: List.replicate z 0, pre.length + 2⟩
      = ⟨pre ++ (u + 1) :: (List.replicate z 0 ++ [v - 1]),
          if v ≠ 1 then m else pre.length + 1⟩ :=
  sgStep_normal pre u v z m hm

/-- **`simplex_index` is the lexicographic rank** on compositions: it is order preserving and
    reflecting, injective, and takes values in `[0, L)`. -/
theorem simplexIndex_lex_rank (m n : Nat) (hm : 1 ≤ m) (x y : List Nat)
    (hx : x.length = m) (hy : y.length = m) (sx : x.sum = n) (sy : y.sum = n) :
    (simplexIndex x m n < simplexIndex y m n ↔ x < y) ∧
    (simplexIndex x m n = simplexIndex y m n → x = y) ∧
    0 ≤ simplexIndex x m n ∧ simplexIndex x m n < numCompositions m n := by
  refine ⟨simplexIndex_lt_iff m n hm x y hx hy sx sy,
    simplexIndex_injective m n hm x y hx hy sx sy, ?_, ?_⟩
  · obtain ⟨i, _, ei, _⟩ := simplexGrid_complete m n hm x hx sx
    omega
  · obtain ⟨i, hi, ei, _⟩ := simplexGrid_complete m n hm x hx sx
    omega

example : simplexIndex [1, 2, 1] 3 4 = 7 ∧ simplexIndex [1, 3, 0] 3 4 = 8 := by decide

end QE.C16
