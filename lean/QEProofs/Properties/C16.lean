/-
  Property C16 — grid and combinatorial enumerations: theorems about QEModel.C16.
-/
import QEModel.C16
namespace QE.C16

/-- outside the domain `0 ≤ k ≤ N` the jitted binomial is 0 -/
theorem combJit_outside (N k : Int) (h : N < 0 ∨ k < 0 ∨ k > N) : combJit N k = 0 := by
  unfold combJit; simp [h]

end QE.C16
