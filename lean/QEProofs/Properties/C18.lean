/-
  Property C18 — random generators produce valid objects: theorems about QEModel.C18
  (the kernels that turn the drawn uniforms / integers into the generated object).
  Every theorem is for ALL sizes and ALL streams of draws satisfying the stated guard.
-/
import QEModel.C18
import QEProofs.Lemmas.C18Swr
import QEProofs.Lemmas.C18Probvec
import QEProofs.Lemmas.C18Count
import QEProofs.Lemmas.C18Place
import QEProofs.Lemmas.C18Tourn
import QEProofs.Lemmas.C18Games
import QEProofs.Lemmas.C18TGame
import QEProofs.Lemmas.C18NextK
import QEProofs.Lemmas.C18TGame0
import QEProofs.Lemmas.C18Sgc
import QEProofs.Lemmas.C18SgcDef
import QEProofs.Lemmas.C18SgcSupp
import QEProofs.Lemmas.C18SgcUniq
import QEProofs.Lemmas.C18SgcOne
import Mathlib.Tactic.NormNum
namespace QE.C18

/-! ## sample_without_replacement -/

/-- **k distinct integers in range.** For every `n`, every `k ≤ n` and every sequence of
    indices with `idx_j < n - j` (what `floor(r_j·(n-j))` gives for `r_j ∈ [0,1)`), the
    pool-swap loop returns `k` pairwise distinct integers of `[0, n)`. -/
theorem swr_distinct_in_range (n : Nat) (idxs : List Nat) (hk : idxs.length ≤ n)
    (hidx : ∀ t (h : t < idxs.length), idxs[t] < n - t) :
    (swr n idxs).length = idxs.length ∧ (swr n idxs).Nodup ∧ ∀ x ∈ swr n idxs, x < n := by
  have hinv : PoolInv n (n - 0) (List.range n) := by simpa using poolInv_range n
  have h := swrLoop_spec n idxs 0 (List.range n) hinv (by omega)
    (by intro t ht; simpa using hidx t ht)
  refine ⟨swrLoop_length n idxs 0 _, h.1, ?_⟩
  intro x hx
  obtain ⟨t, ht, hxt⟩ := h.2 x hx
  rw [← hxt]
  exact hinv.2.2.1 t ht

example : swr 5 [4, 3, 0, 1, 0] = [4, 3, 0, 1, 2] := by decide
example : ∀ t (h : t < [4, 3, 0, 1, 0].length), [4, 3, 0, 1, 0][t] < 5 - t := by decide

/-- With `k = n` the sample is a permutation of `0, …, n-1`. -/
theorem swr_full_perm (n : Nat) (idxs : List Nat) (hk : idxs.length = n)
    (hidx : ∀ t (h : t < idxs.length), idxs[t] < n - t) :
    (swr n idxs).Perm (List.range n) := by
  obtain ⟨hl, hnd, hlt⟩ := swr_distinct_in_range n idxs (by omega) hidx
  have hsub : (swr n idxs).Subperm (List.range n) :=
    List.subperm_of_subset hnd (fun x hx => List.mem_range.2 (hlt x hx))
  exact hsub.perm_of_length_le (by simp [hl, hk])

/-- **Every arrangement is reached.** For every `n` and every list of `k ≤ n` pairwise distinct
    integers of `[0, n)` there is an index stream with `idx_j < n - j` whose sample is exactly that
    list … -/
theorem swr_reaches_every_arrangement (n : Nat) (out : List Nat) (hk : out.length ≤ n)
    (hnd : out.Nodup) (hlt : ∀ x ∈ out, x < n) :
    ∃ idxs : List Nat, idxs.length = out.length ∧
      (∀ t (h : t < idxs.length), idxs[t] < n - t) ∧ swr n idxs = out := by
  have hinv : PoolInv n (n - 0) (List.range n) := by simpa using poolInv_range n
  obtain ⟨idxs, h1, h2, h3⟩ := swrLoop_surj n out 0 (List.range n) hinv (by omega) hnd (by
    intro x hx
    exact ⟨x, by simpa using hlt x hx, getD_range n x (hlt x hx)⟩)
  exact ⟨idxs, h1, by intro t ht; simpa using h2 t ht, h3⟩

/-- … **and by exactly one**: two guarded index streams of the same length with the same sample are
    equal.  Together: for every `k ≤ n` the loop is a bijection between the `n(n-1)⋯(n-k+1)` guarded
    index streams and the `k`-arrangements of `{0,…,n-1}`, so independent uniform indices
    `idx_j ∈ [0, n-j)` make every ordered sample equally likely. -/
theorem swr_injective (n : Nat) (a b : List Nat) (hl : a.length = b.length) (hk : a.length ≤ n)
    (ha : ∀ t (h : t < a.length), a[t] < n - t) (hb : ∀ t (h : t < b.length), b[t] < n - t)
    (he : swr n a = swr n b) : a = b := by
  have hinv : PoolInv n (n - 0) (List.range n) := by simpa using poolInv_range n
  exact swrLoop_inj n a b 0 (List.range n) hinv hl (by omega)
    (by intro t ht; simpa using ha t ht) (by intro t ht; simpa using hb t ht) he

example : swr 4 [3, 0, 1] = [3, 0, 1] ∧ swr 4 [0, 2, 1] = [0, 2, 1] ∧ swr 4 [1, 1, 1] = [1, 3, 2] := by decide
example : ([2, 0, 3].length ≤ 4) ∧ [2, 0, 3].Nodup ∧ ∀ x ∈ [2, 0, 3], x < 4 := by decide

/-- The guard of `swr_distinct_in_range` holds for the indices computed in exact arithmetic
    from uniforms in `[0, 1)`: `floor(r·(n-j)) < n-j`.  (For doubles the same inequality is an
    IEEE fact about the rounded product; it is checked on the code at `r = 1-2⁻⁵³`.) -/
theorem idxsRat_guard (n : Nat) : ∀ (rs : List Rat) (j : Nat), j + rs.length ≤ n →
    (∀ r ∈ rs, 0 ≤ r ∧ r < 1) →
    ∀ t (h : t < (idxsRat n j rs).length), (idxsRat n j rs)[t] < n - (j + t)
  | [], _, _, _ => by intro t h; simp [idxsRat] at h
  | r :: rest, j, hlen, hr => by
    intro t h
    have hpos : 0 < n - j := by simp at hlen; omega
    cases t with
    | zero =>
      simp only [idxsRat, List.getElem_cons_zero, Nat.add_zero]
      obtain ⟨h0, h1⟩ := hr r (by simp)
      have hm : (0 : Rat) < ((n - j : Nat) : Rat) := by exact_mod_cast hpos
      have hlt : r * ((n - j : Nat) : Rat) < ((n - j : Nat) : Rat) := by
        have := mul_lt_mul_of_pos_right h1 hm
        simpa using this
      have hfl : (r * ((n - j : Nat) : Rat)).floor < ((n - j : Nat) : Int) := by
        rw [Rat.floor_lt_iff]  -- ⌊x⌋ < z ↔ x < z
        exact_mod_cast hlt
      have hnn : 0 ≤ (r * ((n - j : Nat) : Rat)).floor := by
        rw [Rat.le_floor_iff]
        exact_mod_cast mul_nonneg h0 (le_of_lt hm)
      omega
    | succ t =>
      simp only [idxsRat, List.getElem_cons_succ]
      have := idxsRat_guard n rest (j + 1) (by simp at hlen; omega)
        (fun r' hr' => hr r' (List.mem_cons_of_mem _ hr')) t (by simpa [idxsRat] using h)
      rw [show n - (j + (t + 1)) = n - (j + 1 + t) from by omega]; exact this

/-- **sample_without_replacement in exact arithmetic.** For every `n`, every `k ≤ n` and every
    stream of `k` rational uniforms in `[0, 1)`, the sample consists of `k` pairwise distinct
    integers of `[0, n)`. -/
theorem swr_rat_distinct_in_range (n : Nat) (rs : List Rat) (hk : rs.length ≤ n)
    (hr : ∀ r ∈ rs, 0 ≤ r ∧ r < 1) :
    (swr n (idxsRat n 0 rs)).length = rs.length ∧ (swr n (idxsRat n 0 rs)).Nodup ∧
      ∀ x ∈ swr n (idxsRat n 0 rs), x < n := by
  have hlen : ∀ (rs : List Rat) (j : Nat), (idxsRat n j rs).length = rs.length := by
    intro rs; induction rs with
    | nil => intro j; rfl
    | cons r rest ih => intro j; simp [idxsRat, ih]
  have hg := idxsRat_guard n rs 0 (by omega) hr
  have := swr_distinct_in_range n (idxsRat n 0 rs) (by rw [hlen]; exact hk)
    (by intro t ht; simpa using hg t ht)
  rw [hlen] at this
  exact this

example : swr 5 (idxsRat 5 0 [(9 : Rat) / 10, 1 / 2, 0]) = [4, 2, 0] := by decide +kernel

/-! ## probvec -/

section probvec
set_option linter.unusedSectionVars false
variable {K : Type} [Field K] [LinearOrder K] [IsStrictOrderedRing K]

/-- **Points of the unit simplex.** For every non-empty list of uniforms in `[0, 1]` (any
    order — the kernel sorts), the row written by `_probvec` has one more entry than there are
    uniforms, all entries are `≥ 0`, and they sum to `1`. -/
theorem probvecRow_simplex (r : List K) (hne : r ≠ []) (h01 : ∀ x ∈ r, 0 ≤ x ∧ x ≤ 1) :
    (probvecRow r).length = r.length + 1 ∧ (∀ y ∈ probvecRow r, 0 ≤ y) ∧ (probvecRow r).sum = 1 := by
  unfold probvecRow
  have hs := sortAsc_sorted r
  have hl := sortAsc_length r
  have hm := sortAsc_mem r
  cases hsr : sortAsc r with
  | nil => rw [hsr] at hl; cases r with
    | nil => exact absurd rfl hne
    | cons a l => simp at hl
  | cons x xs =>
    rw [hsr] at hs hl hm
    have h01' : ∀ z ∈ x :: xs, 0 ≤ z ∧ z ≤ 1 := fun z hz => h01 z ((hm z).1 hz)
    refine ⟨?_, ?_, ?_⟩
    · simp only [probvecSorted, List.length_cons, spacings_length]
      rw [← hl]; simp
    · intro y hy
      simp only [probvecSorted, List.mem_cons] at hy
      rcases hy with rfl | hy
      · exact (h01' y (by simp)).1
      · exact spacings_nonneg xs x hs (fun z hz => (h01' z hz).2) y hy
    · simp only [probvecSorted, List.sum_cons, spacings_sum]; ring

example : probvecSorted [(1 : Rat) / 4, 1 / 2, 3 / 4] = [1 / 4, 1 / 4, 1 / 4, 1 / 4] := by
  norm_num [probvecSorted, spacings]
example : ([(3 : Rat) / 4, 1 / 4, 1 / 2] ≠ []) ∧ ∀ x ∈ [(3 : Rat) / 4, 1 / 4, 1 / 2], 0 ≤ x ∧ x ≤ 1 := by
  refine ⟨by simp, ?_⟩; norm_num

/-- **Exactly k positive entries ⇔ distinct uniforms in (0,1).** All `k` entries of the row
    are strictly positive iff the `k-1` uniforms are pairwise distinct and lie strictly
    between 0 and 1.  (The hypothesis "distinct and non-zero" is therefore forced: see the
    witnesses below — it fails only on a null set of streams, finding F10.) -/
theorem probvecRow_pos_iff (r : List K) (hne : r ≠ []) :
    (∀ y ∈ probvecRow r, 0 < y) ↔ (r.Nodup ∧ ∀ x ∈ r, 0 < x ∧ x < 1) := by
  unfold probvecRow
  have hs := sortAsc_sorted r
  have hp := sortAsc_perm r
  have hm := sortAsc_mem r
  cases hsr : sortAsc r with
  | nil =>
    have hl := sortAsc_length r
    rw [hsr] at hl; cases r with
    | nil => exact absurd rfl hne
    | cons a l => simp at hl
  | cons x xs =>
    rw [hsr] at hs hp hm
    have hx : ∀ z ∈ x :: xs, x ≤ z := by
      intro z hz
      rcases List.mem_cons.1 hz with rfl | hz'
      · exact le_refl _
      · exact (List.pairwise_cons.1 hs).1 z hz'
    have key := spacings_pos_iff xs x hs
    constructor
    · intro h
      have h0 : 0 < x := h x (by simp [probvecSorted])
      obtain ⟨hlt, h1⟩ := key.1 (fun y hy => h y (by simp [probvecSorted, hy]))
      refine ⟨hp.nodup_iff.1 ((sorted_lt_iff_nodup _ hs).1 hlt), ?_⟩
      intro z hz
      have hz' := (hm z).2 hz
      exact ⟨lt_of_lt_of_le h0 (hx z hz'), h1 z hz'⟩
    · rintro ⟨hnd, h01⟩ y hy
      simp only [probvecSorted, List.mem_cons] at hy
      rcases hy with rfl | hy
      · exact (h01 y ((hm y).1 (by simp))).1
      · refine key.2 ⟨(sorted_lt_iff_nodup _ hs).2 (hp.nodup_iff.2 hnd), ?_⟩ y hy
        exact fun z hz => (h01 z ((hm z).1 hz)).2

/-- whatever the uniforms in `[0,1]` (ties, zeros and ones included) at least one entry of the row is
    positive — between 1 and `k` positive entries in general, exactly `k` under `probvecRow_pos_iff` -/
theorem probvecRow_some_positive (r : List K) (hne : r ≠ []) (h01 : ∀ x ∈ r, 0 ≤ x ∧ x ≤ 1) :
    ∃ y ∈ probvecRow r, 0 < y := by
  obtain ⟨_, hnn, hsum⟩ := probvecRow_simplex r hne h01
  by_contra hc
  have hz : ∀ y ∈ probvecRow r, y = 0 := by
    intro y hy
    have h1 := hnn y hy
    have h2 : ¬ 0 < y := fun h => hc ⟨y, hy, h⟩
    exact le_antisymm (not_lt.1 h2) h1
  have : (probvecRow r).sum = 0 := List.sum_eq_zero hz
  rw [hsum] at this
  exact one_ne_zero this

/-- **How many positive entries in general.** For every non-empty list of uniforms in `[0, 1]` the
    number of strictly positive entries of the row is the number of distinct values among the
    uniforms together with 0 and 1, minus one — `k` exactly when the `k-1` uniforms are distinct and
    strictly inside (0,1), fewer for every tie and for every uniform equal to 0 or 1 (finding F10). -/
theorem probvecRow_count_positive (r : List K) (hne : r ≠ []) (h01 : ∀ x ∈ r, 0 ≤ x ∧ x ≤ 1) :
    (probvecRow r).countP (fun y => decide (0 < y))
      = (insert 0 (insert 1 r.toFinset)).card - 1 := by
  unfold probvecRow
  have hs := sortAsc_sorted r
  have hp := sortAsc_perm r
  have hm := sortAsc_mem r
  have htf : (sortAsc r).toFinset = r.toFinset := List.toFinset_eq_of_perm _ _ hp
  cases hsr : sortAsc r with
  | nil =>
    have hl := sortAsc_length r
    rw [hsr] at hl; cases r with
    | nil => exact absurd rfl hne
    | cons a l => simp at hl
  | cons x xs =>
    rw [hsr] at hs hm htf
    have h01' : ∀ z ∈ x :: xs, 0 ≤ z ∧ z ≤ 1 := fun z hz => h01 z ((hm z).1 hz)
    have hsp : probvecSorted (x :: xs) = spacings 0 (x :: xs) := by
      simp [probvecSorted, spacings]
    have hsorted0 : List.Pairwise (· ≤ ·) ((0 : K) :: x :: xs) :=
      List.pairwise_cons.2 ⟨fun z hz => (h01' z hz).1, hs⟩
    have hle1 : ∀ z ∈ (0 : K) :: x :: xs, z ≤ 1 := by
      intro z hz
      rcases List.mem_cons.1 hz with rfl | hz'
      · exact zero_le_one
      · exact (h01' z hz').2
    rw [hsp, spacings_countPos (x :: xs) 0 hsorted0 hle1, htf, filter_gt_eq_erase, card_insert_erase]
    · simp
    · intro v hv
      rcases Finset.mem_insert.1 hv with rfl | hv'
      · exact zero_le_one
      · exact (h01 v (List.mem_toFinset.1 hv')).1

example : (insert (0 : Rat) (insert 1 [(1 : Rat) / 4, 1 / 4, 0].toFinset)).card - 1 = 2 := by decide +kernel

/-- the row depends only on the multiset of the uniforms (`r.sort()` first): any rearrangement of
    the stream gives the same probability vector -/
theorem probvecRow_perm (r r' : List K) (h : r.Perm r') : probvecRow r = probvecRow r' := by
  unfold probvecRow
  congr 1
  exact List.Perm.eq_of_pairwise (le := fun a b : K => a ≤ b) (fun a b _ _ h1 h2 => le_antisymm h1 h2)
    (sortAsc_sorted r) (sortAsc_sorted r') ((sortAsc_perm r).trans (h.trans (sortAsc_perm r').symm))

/-- witnesses that the hypothesis cannot be dropped: tied or zero uniforms give zero entries -/
example : probvecSorted [(0 : Rat), 0] = [0, 0, 1] := by norm_num [probvecSorted, spacings]
example : probvecSorted [(1 : Rat) / 4, 1 / 4] = [1 / 4, 0, 3 / 4] := by norm_num [probvecSorted, spacings]
example : ¬ ∀ y ∈ probvecRow [(1 : Rat) / 4, 1 / 4], 0 < y := by
  rw [probvecRow_pos_iff _ (by simp)]; simp
example : ∀ y ∈ probvecRow [(3 : Rat) / 4, 1 / 4, 1 / 2], 0 < y := by
  rw [probvecRow_pos_iff _ (by simp)]; norm_num

/-- `probvec(m, 1)` draws nothing and returns rows `(1)`; `probvec(m, k)` maps the kernel over the
    rows of uniforms. -/
theorem probvec_rows (m k : Nat) (r : List (List K)) (hr : r.length = m) :
    (probvec m k r).length = m ∧
      (k = 1 → ∀ row ∈ probvec m k r, row = [1]) ∧
      (k ≠ 1 → probvec m k r = r.map probvecRow) := by
  unfold probvec
  by_cases hk : k = 1
  · simp [hk]
  · simp [hk, hr]

/-- **`probvec(m, k)` returns `m` points of the unit simplex, for every `m` and every `k ≥ 1`**
    (including `k = 1`, where nothing is drawn): given the `m × (k-1)` uniforms in `[0, 1]`, the result
    has `m` rows, each of length `k`, with entries `≥ 0` summing to 1. -/
theorem probvec_simplex (m k : Nat) (hk : 1 ≤ k) (r : List (List K)) (hr : r.length = m)
    (hrow : ∀ row ∈ r, row.length = k - 1 ∧ ∀ x ∈ row, 0 ≤ x ∧ x ≤ 1) :
    (probvec m k r).length = m ∧
      ∀ row ∈ probvec m k r, row.length = k ∧ (∀ y ∈ row, 0 ≤ y) ∧ row.sum = 1 := by
  obtain ⟨h1, h2, h3⟩ := probvec_rows m k r hr
  refine ⟨h1, ?_⟩
  intro row hrow'
  by_cases hk1 : k = 1
  · rw [h2 hk1 row hrow', hk1]; simp
  · rw [h3 hk1] at hrow'
    obtain ⟨u, hu, rfl⟩ := List.mem_map.1 hrow'
    obtain ⟨hl, h01⟩ := hrow u hu
    have hne : u ≠ [] := by intro e; rw [e] at hl; simp at hl; omega
    obtain ⟨p1, p2, p3⟩ := probvecRow_simplex u hne h01
    exact ⟨by rw [p1, hl]; omega, p2, p3⟩

example : (∀ row ∈ [[(1 : Rat) / 4, 3 / 4], [1 / 2, 1 / 2]], row.length = 3 - 1 ∧ ∀ x ∈ row, 0 ≤ x ∧ x ≤ 1) := by
  intro row hrow
  simp at hrow
  rcases hrow with rfl | rfl <;> refine ⟨rfl, ?_⟩ <;> intro x hx <;> simp at hx <;> rcases hx with rfl | rfl <;> norm_num

end probvec

/-! ## _random_stochastic_matrix : k-sparse rows -/

section stoch
set_option linter.unusedSectionVars false
variable {K : Type} [Field K] [LinearOrder K] [IsStrictOrderedRing K]

/-- **Scatter at distinct columns.** If the `k` columns are pairwise distinct and in range,
    `P[cols] = data` on a zero row puts `data[t]` at column `cols[t]`, leaves 0 elsewhere,
    keeps the sum and the number of positive entries of `data`. -/
theorem placeRow_spec (n : Nat) (cols : List Nat) (data : List K) (hlen : cols.length = data.length)
    (hnd : cols.Nodup) (hlt : ∀ c ∈ cols, c < n) :
    (placeRow n cols data).length = n ∧
    (∀ t (h : t < cols.length), (placeRow n cols data).getD cols[t] 0 = data[t]'(hlen ▸ h)) ∧
    (∀ c, c ∉ cols → (placeRow n cols data).getD c 0 = 0) ∧
    (placeRow n cols data).sum = data.sum ∧
    (placeRow n cols data).countP (fun x => decide (0 < x)) = data.countP (fun x => decide (0 < x)) := by
  have hfst : (cols.zip data).map Prod.fst = cols := List.map_fst_zip (by omega)
  have hsnd : (cols.zip data).map Prod.snd = data := List.map_snd_zip (by omega)
  have hin : ∀ p ∈ cols.zip data, p.1 < (List.replicate n (0 : K)).length := by
    intro p hp
    have : p.1 ∈ cols := by rw [← hfst]; exact List.mem_map_of_mem hp
    simpa using hlt _ this
  have h1 := scatter_spec (cols.zip data) (List.replicate n (0 : K)) (by rw [hfst]; exact hnd) hin
  have h2 := scatter_sum_count (cols.zip data) (List.replicate n (0 : K)) (by rw [hfst]; exact hnd) hin
    (fun p _ => getD_replicate_zero n p.1)
  rw [placeRow_eq_scatter]
  refine ⟨by simpa using h1.1, ?_, ?_, ?_, ?_⟩
  · intro t ht
    have hmem : (cols[t], data[t]'(hlen ▸ ht)) ∈ cols.zip data := by
      have hlt' : t < (cols.zip data).length := by simp [List.length_zip]; omega
      have := List.getElem_mem hlt'
      simpa [List.getElem_zip] using this
    exact h1.2.1 _ hmem
  · intro c hc
    rw [h1.2.2 c (by rw [hfst]; exact hc)]; exact getD_replicate_zero n c
  · rw [h2.1, hsnd]; simp
  · rw [h2.2, hsnd]; simp

example : placeRow 4 [2, 0] [(1 : Rat) / 4, 3 / 4] = [3 / 4, 0, 1 / 4, 0] := by
  norm_num [placeRow, List.zip, List.replicate]

/-- **A row of the k-sparse stochastic matrix.** For every `n`, `k ≤ n`, every index stream with
    `idx_j < n - j` and every `data` on the simplex (`probvecRow` by `probvecRow_simplex`), the row
    `placeRow n (swr n idxs) data` has length `n`, entries `≥ 0`, sum `1`, and exactly as many
    positive entries as `data`. -/
theorem stoch_row_simplex (n : Nat) (idxs : List Nat) (data : List K)
    (hlen : idxs.length = data.length) (hkn : idxs.length ≤ n)
    (hidx : ∀ t (h : t < idxs.length), idxs[t] < n - t)
    (hnn : ∀ y ∈ data, 0 ≤ y) (hsum : data.sum = 1) :
    (placeRow n (swr n idxs) data).length = n ∧
    (∀ y ∈ placeRow n (swr n idxs) data, 0 ≤ y) ∧
    (placeRow n (swr n idxs) data).sum = 1 ∧
    (placeRow n (swr n idxs) data).countP (fun x => decide (0 < x))
      = data.countP (fun x => decide (0 < x)) := by
  obtain ⟨hl, hnd, hlt⟩ := swr_distinct_in_range n idxs hkn hidx
  obtain ⟨h1, h2, h3, h4, h5⟩ := placeRow_spec n (swr n idxs) data (by omega) hnd hlt
  refine ⟨h1, ?_, by rw [h4, hsum], h5⟩
  intro y hy
  obtain ⟨c, hc, rfl⟩ := List.mem_iff_getElem.1 hy
  have hgd : (placeRow n (swr n idxs) data)[c] = (placeRow n (swr n idxs) data).getD c 0 := by
    rw [List.getD_eq_getElem?_getD]; simp [hc]
  rw [hgd]
  by_cases hcm : c ∈ swr n idxs
  · obtain ⟨t, ht, rfl⟩ := List.mem_iff_getElem.1 hcm
    rw [h2 t ht]
    exact hnn _ (List.getElem_mem _)
  · rw [h3 c hcm]

/-- **Exactly k positive entries per row** (`k ≥ 2`, `k ≤ n`): with `k-1` pairwise distinct
    uniforms strictly inside (0,1) the row built from `probvecRow` and the sampled columns is a
    probability vector of length `n` with exactly `k` positive entries. -/
theorem stoch_row_k_positive (n : Nat) (r : List K) (idxs : List Nat) (hne : r ≠ [])
    (hk : idxs.length = r.length + 1) (hkn : idxs.length ≤ n)
    (hidx : ∀ t (h : t < idxs.length), idxs[t] < n - t)
    (hnd : r.Nodup) (h01 : ∀ x ∈ r, 0 < x ∧ x < 1) :
    (placeRow n (swr n idxs) (probvecRow r)).length = n ∧
    (∀ y ∈ placeRow n (swr n idxs) (probvecRow r), 0 ≤ y) ∧
    (placeRow n (swr n idxs) (probvecRow r)).sum = 1 ∧
    (placeRow n (swr n idxs) (probvecRow r)).countP (fun x => decide (0 < x)) = idxs.length := by
  obtain ⟨pl, pnn, psum⟩ := probvecRow_simplex r hne (fun x hx => ⟨le_of_lt (h01 x hx).1, le_of_lt (h01 x hx).2⟩)
  obtain ⟨h1, h2, h3, h4⟩ := stoch_row_simplex n idxs (probvecRow r) (by omega) hkn hidx pnn psum
  refine ⟨h1, h2, h3, ?_⟩
  rw [h4, List.countP_eq_length.2, pl, hk]
  intro y hy
  simpa using (probvecRow_pos_iff r hne).2 ⟨hnd, h01⟩ y hy

example : (∀ t (h : t < [3, 0, 1].length), [3, 0, 1][t] < 4 - t) ∧ [(1 : Rat) / 4, 3 / 4].Nodup ∧
    ∀ x ∈ [(1 : Rat) / 4, 3 / 4], 0 < x ∧ x < 1 := by
  refine ⟨by decide, by norm_num, ?_⟩
  intro x hx; simp at hx; rcases hx with rfl | rfl <;> norm_num

/-- **The whole matrix** (`k < n` branch of `_random_stochastic_matrix`): if every row of `pv` is a
    point of the simplex with `k` entries and every index row satisfies the sampler's guard, every
    row of the dense result has length `n`, entries `≥ 0`, sum 1 and as many positive entries as the
    corresponding row of `pv`.  For `k = n` the result is `pv` itself. -/
theorem stochDense_spec (n k : Nat) (pv : List (List K)) (idxss : List (List Nat))
    (hlen : pv.length = idxss.length)
    (hrow : ∀ t (h1 : t < pv.length) (h2 : t < idxss.length),
      idxss[t].length = pv[t].length ∧ idxss[t].length ≤ n ∧
      (∀ s (h : s < idxss[t].length), idxss[t][s] < n - s) ∧
      (∀ y ∈ pv[t], 0 ≤ y) ∧ pv[t].sum = 1) :
    (k = n → stochDense n k pv (idxss.map (swr n)) = pv) ∧
    (k ≠ n → (stochDense n k pv (idxss.map (swr n))).length = pv.length ∧
      ∀ t (h : t < (stochDense n k pv (idxss.map (swr n))).length) (h1 : t < pv.length),
        let row := (stochDense n k pv (idxss.map (swr n)))[t]
        row.length = n ∧ (∀ y ∈ row, 0 ≤ y) ∧ row.sum = 1 ∧
          row.countP (fun x => decide (0 < x)) = pv[t].countP (fun x => decide (0 < x))) := by
  unfold stochDense
  constructor
  · intro h; rw [if_pos h]
  · intro h
    rw [if_neg h]
    refine ⟨by simp [hlen], ?_⟩
    intro t ht h1
    have h2 : t < idxss.length := by omega
    obtain ⟨r1, r2, r3, r4, r5⟩ := hrow t h1 h2
    have := stoch_row_simplex n idxss[t] pv[t] r1 r2 r3 r4 r5
    simpa [List.getElem_map, List.getElem_zip] using this

/-- the CSR form stores exactly the `k` triplets, at `k` distinct columns -/
theorem sparseRow_spec (cols : List Nat) (data : List K) (hlen : cols.length = data.length)
    (hnd : cols.Nodup) :
    (sparseRow cols data).length = cols.length ∧ ((sparseRow cols data).map Prod.fst).Nodup ∧
    (sparseRow cols data).Perm (cols.zip data) := by
  have hp : (sparseRow cols data).Perm (cols.zip data) := List.mergeSort_perm _ _
  have hfst : (cols.zip data).map Prod.fst = cols := List.map_fst_zip (by omega)
  refine ⟨by rw [hp.length_eq, List.length_zip]; omega, ?_, hp⟩
  have := (hp.map Prod.fst).nodup_iff.2 (by rw [hfst]; exact hnd)
  exact this

/-- dense and sparse forms agree: every stored triplet `(c, v)` of the CSR row is the entry of the
    dense row at column `c`, and every other column of the dense row is 0 -/
theorem sparse_dense_agree (n : Nat) (cols : List Nat) (data : List K) (hlen : cols.length = data.length)
    (hnd : cols.Nodup) (hlt : ∀ c ∈ cols, c < n) :
    (∀ p ∈ sparseRow cols data, (placeRow n cols data).getD p.1 0 = p.2) ∧
    (∀ c, c ∉ (sparseRow cols data).map Prod.fst → (placeRow n cols data).getD c 0 = 0) := by
  obtain ⟨_, h2, h3, _, _⟩ := placeRow_spec n cols data hlen hnd hlt
  obtain ⟨_, _, hp⟩ := sparseRow_spec cols data hlen hnd
  have hfst : (cols.zip data).map Prod.fst = cols := List.map_fst_zip (by omega)
  constructor
  · intro p hp'
    have hmem : p ∈ cols.zip data := hp.mem_iff.1 hp'
    obtain ⟨t, ht, hpt⟩ := List.mem_iff_getElem.1 hmem
    have ht' : t < cols.length := by simp [List.length_zip] at ht; omega
    have := h2 t ht'
    rw [List.getElem_zip] at hpt
    rw [← hpt]; exact this
  · intro c hc
    apply h3
    intro hcm
    apply hc
    rw [(hp.map Prod.fst).mem_iff, hfst]; exact hcm

end stoch

/-! ## random_stochastic_matrix, end to end in exact arithmetic -/

/-- **`_random_stochastic_matrix(m, n, k)` from its two uniform streams** (`2 ≤ k < n`, exact rational
    arithmetic): if the `m × (k-1)` uniforms of `probvec` are pairwise distinct within each row and
    strictly inside (0,1), and the `m × k` uniforms of the column sampler lie in `[0,1)`, then the
    dense result has `m` rows, and every row has length `n`, non-negative entries, sum 1 and
    **exactly `k` positive entries**. -/
theorem random_stochastic_matrix_spec (m n k : Nat) (hk2 : 2 ≤ k) (hkn : k < n)
    (r1 : List (List Rat)) (r2 : List (List Rat)) (h1l : r1.length = m) (h2l : r2.length = m)
    (h1 : ∀ row ∈ r1, row.length = k - 1 ∧ row.Nodup ∧ ∀ x ∈ row, 0 < x ∧ x < 1)
    (h2 : ∀ row ∈ r2, row.length = k ∧ ∀ x ∈ row, 0 ≤ x ∧ x < 1) :
    let P := stochDense n k (probvec m k r1) ((r2.map (idxsRat n 0)).map (swr n))
    P.length = m ∧ ∀ row ∈ P, row.length = n ∧ (∀ y ∈ row, 0 ≤ y) ∧ row.sum = 1 ∧
      row.countP (fun x => decide (0 < x)) = k := by
  intro P
  have hpv : probvec m k r1 = r1.map probvecRow := by
    unfold probvec; rw [if_neg (by omega)]
  have hlenI : ∀ (rs : List Rat) (j : Nat), (idxsRat n j rs).length = rs.length := by
    intro rs; induction rs with
    | nil => intro j; rfl
    | cons r rest ih => intro j; simp [idxsRat, ih]
  have hspec := stochDense_spec n k (r1.map probvecRow) (r2.map (idxsRat n 0)) (by simp [h1l, h2l])
    (by
      intro t ht1 ht2
      simp only [List.length_map] at ht1 ht2
      simp only [List.getElem_map]
      obtain ⟨a1, a2, a3⟩ := h1 r1[t] (List.getElem_mem _)
      obtain ⟨b1, b2⟩ := h2 r2[t] (List.getElem_mem _)
      have hne : r1[t] ≠ [] := by intro e; rw [e] at a1; simp at a1; omega
      obtain ⟨pl, pnn, psum⟩ := probvecRow_simplex r1[t] hne
        (fun x hx => ⟨le_of_lt (a3 x hx).1, le_of_lt (a3 x hx).2⟩)
      refine ⟨by rw [hlenI, pl, b1, a1]; omega, by rw [hlenI, b1]; omega, ?_, pnn, psum⟩
      intro s hs
      have := idxsRat_guard n r2[t] 0 (by rw [b1]; omega) b2 s hs
      simpa using this)
  have hP : P = stochDense n k (r1.map probvecRow) ((r2.map (idxsRat n 0)).map (swr n)) := by
    show stochDense n k (probvec m k r1) _ = _
    rw [hpv]
  obtain ⟨hPl, hrows⟩ := hspec.2 (by omega)
  rw [hP]
  refine ⟨by rw [hPl]; simp [h1l], ?_⟩
  intro row hrow
  obtain ⟨t, ht, rfl⟩ := List.mem_iff_getElem.1 hrow
  have ht1 : t < (r1.map probvecRow).length := by rw [hPl] at ht; exact ht
  obtain ⟨c1, c2, c3, c4⟩ := hrows t ht ht1
  refine ⟨c1, c2, c3, ?_⟩
  rw [c4]
  simp only [List.getElem_map]
  have ht1' : t < r1.length := by simpa using ht1
  obtain ⟨a1, a2, a3⟩ := h1 r1[t] (List.getElem_mem _)
  have hne : r1[t] ≠ [] := by intro e; rw [e] at a1; simp at a1; omega
  obtain ⟨pl, _, _⟩ := probvecRow_simplex r1[t] hne
    (fun x hx => ⟨le_of_lt (a3 x hx).1, le_of_lt (a3 x hx).2⟩)
  rw [List.countP_eq_length.2, pl, a1]
  · omega
  · intro y hy
    simpa using (probvecRow_pos_iff r1[t] hne).2 ⟨a2, a3⟩ y hy

example : (∀ row ∈ [[(1 : Rat) / 2]], row.length = 2 - 1 ∧ row.Nodup ∧ ∀ x ∈ row, 0 < x ∧ x < 1) ∧
    (∀ row ∈ [[(0 : Rat), 9 / 10]], row.length = 2 ∧ ∀ x ∈ row, 0 ≤ x ∧ x < 1) ∧
    (swr 3 (idxsRat 3 0 [(0 : Rat), 9 / 10]) = [0, 1]) := by
  refine ⟨?_, ?_, by decide +kernel⟩
  · intro row hrow; simp at hrow; subst hrow; norm_num
  · intro row hrow; simp at hrow; subst hrow
    refine ⟨rfl, ?_⟩
    intro x hx; simp at hx; rcases hx with rfl | rfl <;> norm_num

/-- **`_random_stochastic_matrix(m, n, k)` for every `1 ≤ k ≤ n`** (exact rational arithmetic), covering
    the three branches of the code: `k = n` (the probability vectors themselves), `k = 1` (nothing drawn for
    `probvec`, a single 1 per row at the sampled column) and `2 ≤ k < n`.  With the `m × (k-1)` uniforms of
    `probvec` pairwise distinct within each row and strictly inside (0,1), and the `m × k` uniforms of the
    column sampler in `[0,1)`: the result has `m` rows, each of length `n`, non-negative, summing to 1, with
    **exactly `k` positive entries**. -/
theorem random_stochastic_matrix_spec_all (m n k : Nat) (hk1 : 1 ≤ k) (hkn : k ≤ n)
    (r1 : List (List Rat)) (r2 : List (List Rat)) (h1l : r1.length = m) (h2l : r2.length = m)
    (h1 : ∀ row ∈ r1, row.length = k - 1 ∧ row.Nodup ∧ ∀ x ∈ row, 0 < x ∧ x < 1)
    (h2 : ∀ row ∈ r2, row.length = k ∧ ∀ x ∈ row, 0 ≤ x ∧ x < 1) :
    let P := stochDense n k (probvec m k r1) ((r2.map (idxsRat n 0)).map (swr n))
    P.length = m ∧ ∀ row ∈ P, row.length = n ∧ (∀ y ∈ row, 0 ≤ y) ∧ row.sum = 1 ∧
      row.countP (fun x => decide (0 < x)) = k := by
  intro P
  by_cases hkeq : k = n
  · -- the probability vectors themselves
    have hP : P = probvec m k r1 := by
      show stochDense n k (probvec m k r1) _ = _
      unfold stochDense; rw [if_pos hkeq]
    rw [hP]
    obtain ⟨q1, q2, q3⟩ := probvec_rows m k r1 h1l
    refine ⟨q1, ?_⟩
    intro row hrow
    by_cases hk : k = 1
    · rw [q2 hk row hrow]
      refine ⟨by simp; omega, by simp, by simp, ?_⟩
      simp [hk]
    · rw [q3 hk] at hrow
      obtain ⟨u, hu, rfl⟩ := List.mem_map.1 hrow
      obtain ⟨a1, a2, a3⟩ := h1 u hu
      have hne : u ≠ [] := by intro e; rw [e] at a1; simp at a1; omega
      obtain ⟨pl, pnn, psum⟩ := probvecRow_simplex u hne
        (fun x hx => ⟨le_of_lt (a3 x hx).1, le_of_lt (a3 x hx).2⟩)
      refine ⟨by rw [pl, a1]; omega, pnn, psum, ?_⟩
      rw [List.countP_eq_length.2, pl, a1]
      · omega
      · intro y hy
        simpa using (probvecRow_pos_iff u hne).2 ⟨a2, a3⟩ y hy
  · by_cases hk : 2 ≤ k
    · exact random_stochastic_matrix_spec m n k hk (by omega) r1 r2 h1l h2l h1 h2
    · -- k = 1 < n : one entry 1 per row at the sampled column
      have hk1' : k = 1 := by omega
      subst hk1'
      have hlenI : ∀ (rs : List Rat) (j : Nat), (idxsRat n j rs).length = rs.length := by
        intro rs; induction rs with
        | nil => intro j; rfl
        | cons r rest ih => intro j; simp [idxsRat, ih]
      have hpv : probvec m 1 r1 = List.replicate m [(1 : Rat)] := by unfold probvec; rw [if_pos rfl]
      have hspec := stochDense_spec n 1 (List.replicate m [(1 : Rat)]) (r2.map (idxsRat n 0)) (by simp [h2l])
        (by
          intro t ht1 ht2
          simp only [List.length_map] at ht2
          simp only [List.getElem_map, List.getElem_replicate]
          obtain ⟨b1, b2⟩ := h2 r2[t] (List.getElem_mem _)
          refine ⟨by rw [hlenI, b1]; rfl, by rw [hlenI, b1]; omega, ?_, by simp, by simp⟩
          intro s hs
          have := idxsRat_guard n r2[t] 0 (by rw [b1]; omega) b2 s hs
          simpa using this)
      have hP : P = stochDense n 1 (List.replicate m [(1 : Rat)]) ((r2.map (idxsRat n 0)).map (swr n)) := by
        show stochDense n 1 (probvec m 1 r1) _ = _
        rw [hpv]
      obtain ⟨hPl, hrows⟩ := hspec.2 (by omega)
      rw [hP]
      refine ⟨by rw [hPl]; simp, ?_⟩
      intro row hrow
      obtain ⟨t, ht, rfl⟩ := List.mem_iff_getElem.1 hrow
      have ht1 : t < (List.replicate m [(1 : Rat)]).length := by rw [hPl] at ht; exact ht
      obtain ⟨c1, c2, c3, c4⟩ := hrows t ht ht1
      refine ⟨c1, c2, c3, ?_⟩
      rw [c4]
      simp

example : (1 ≤ 1 ∧ 1 ≤ 3) ∧ (∀ row ∈ [([] : List Rat)], row.length = 1 - 1 ∧ row.Nodup ∧ ∀ x ∈ row, 0 < x ∧ x < 1) ∧
    (∀ row ∈ [[(2 : Rat) / 3]], row.length = 1 ∧ ∀ x ∈ row, 0 ≤ x ∧ x < 1) := by
  refine ⟨by omega, ?_, ?_⟩
  · intro row hrow; simp at hrow; subst hrow; simp
  · intro row hrow; simp at hrow; subst hrow; norm_num

/-! ## random_discrete_dp : rows of Q and state-action pairs -/

/-- **The two formulations index the same rows.** For all `num_states`, `num_actions ≥ 1` the
    `sa_pair` formulation lists `L = ns·na` pairs, and the pair attached to row `r` of `Q` is
    `(r / na, r % na)` — the pair that the product formulation's C-order reshape
    `Q.shape = (ns, na, ns)` assigns to the same row.  Hence every state `s < ns` has all `na`
    actions, the pairs are pairwise distinct and sorted lexicographically (what `DiscreteDP`
    requires of `s_indices`, `a_indices`). -/
theorem ddp_sa_indices_spec (ns na : Nat) (hna : 0 < na) :
    (saIndices ns na).length = ns * na ∧
    (∀ r (h : r < (saIndices ns na).length), (saIndices ns na)[r] = reshapeIndex na r) ∧
    (∀ s a, s < ns → a < na → (s, a) ∈ saIndices ns na) ∧ (saIndices ns na).Nodup := by
  rw [saIndices_eq na hna ns]
  refine ⟨by simp, by intro r h; simp, ?_, ?_⟩
  · intro s a hs ha
    refine List.mem_map.2 ⟨s * na + a, List.mem_range.2 ?_, ?_⟩
    · calc s * na + a < s * na + na := by omega
        _ = (s + 1) * na := by ring
        _ ≤ ns * na := Nat.mul_le_mul_right _ hs
    · unfold reshapeIndex
      rw [Nat.mul_comm s na, Nat.mul_add_div hna, Nat.mul_add_mod, Nat.div_eq_of_lt ha, Nat.mod_eq_of_lt ha]
      simp
  · refine List.Nodup.map_on ?_ List.nodup_range
    intro x _ y _ h
    unfold reshapeIndex at h
    simp only [Prod.mk.injEq] at h
    rw [← Nat.div_add_mod x na, ← Nat.div_add_mod y na, h.1, h.2]

example : saIndices 2 3 = [(0, 0), (0, 1), (0, 2), (1, 0), (1, 1), (1, 2)] := by decide

/-! ## random_tournament_graph -/

/-- **A tournament.** For every `n` and every stream of `n(n-1)/2` comparisons `r_k < ½`, the
    edge list has `n(n-1)/2` entries, no loops, only nodes `< n`, and for every two different
    nodes exactly one of the two possible edges. -/
theorem tournament_spec (n : Nat) (bs : List Bool) (hlen : bs.length = n * (n - 1) / 2) :
    (tournEdges n bs).length = n * (n - 1) / 2 ∧
    (∀ x y, (x, y) ∈ tournEdges n bs → x ≠ y ∧ x < n ∧ y < n) ∧
    (∀ a b, a < n → b < n → a ≠ b → ((a, b) ∈ tournEdges n bs ↔ (b, a) ∉ tournEdges n bs)) := by
  have hl : bs.length = (tournPairs n).length := by rw [length_tournPairs]; exact hlen
  refine ⟨?_, fun x y h => tournEdges_mem n bs x y h, ?_⟩
  · unfold tournEdges
    rw [List.length_zipWith, ← hl]; simp [hlen]
  · intro a b ha hb hab
    rcases Nat.lt_or_gt_of_ne hab with h | h
    · obtain ⟨t, ht, h1, h2⟩ := tournEdges_pair n bs hl a b h hb
      rw [h1, h2]; cases bs[t] <;> simp
    · obtain ⟨t, ht, h1, h2⟩ := tournEdges_pair n bs hl b a h ha
      rw [h1, h2]; cases bs[t] <;> simp

example : tournEdges 3 [true, false, true] = [(0, 1), (2, 0), (1, 2)] := by decide

/-- the CSR successor lists read by `tournament_game`: node `j` is listed for `i` iff `(i, j)` is
    an edge, in increasing order -/
theorem succOf_spec (n : Nat) (edges : List (Nat × Nat)) (i : Nat) :
    (∀ j, j ∈ succOf n edges i ↔ j < n ∧ (i, j) ∈ edges) ∧ (succOf n edges i).Pairwise (· < ·) := by
  unfold succOf
  constructor
  · intro j; simp [List.mem_filter]
  · exact List.Pairwise.filter _ List.pairwise_lt_range

/-- in the CSR successor lists: for two different nodes exactly one lists the other -/
theorem tournament_succ_exactly_one (n : Nat) (bs : List Bool) (hlen : bs.length = n * (n - 1) / 2)
    (a b : Nat) (ha : a < n) (hb : b < n) (hab : a ≠ b) :
    b ∈ succOf n (tournEdges n bs) a ↔ a ∉ succOf n (tournEdges n bs) b := by
  rw [(succOf_spec n _ a).1 b, (succOf_spec n _ b).1 a]
  have := (tournament_spec n bs hlen).2.2 a b ha hb hab
  constructor
  · rintro ⟨_, h⟩ ⟨_, h'⟩; exact (this.1 h) h'
  · intro h; exact ⟨hb, this.2 (fun h' => h ⟨ha, h'⟩)⟩

/-! ## bimatrix generators -/

section games
set_option linter.unusedSectionVars false
variable {K : Type} [Field K] [LinearOrder K] [IsStrictOrderedRing K]

/-- **Blotto.** For every pair of actions and every list of hill values the accumulated payoffs
    are the definition: player 0 gets the sum over the hills of `v₀` where he has strictly more
    troops, `v₀/2` on a tie (`hill0`), player 1 symmetrically (`hill1`). -/
theorem blotto_def (ai aj : List Nat) (values : List (K × K)) :
    (blottoPair ai aj values).1 = (((ai.zip aj).zip values).map hill0).sum ∧
    (blottoPair ai aj values).2 = (((ai.zip aj).zip values).map hill1).sum := by
  rw [blottoPair_eq_foldl, blotto_foldl]; simp

/-- entry `(i, j)` of player 0's array and entry `(j, i)` of player 1's array come from the
    same pair of actions (`payoff_arrays[0][i, j], payoff_arrays[1][j, i] = payoffs`) -/
theorem blotto_arrays (actions : List (List Nat)) (values : List (K × K)) (i j : Nat)
    (hi : i < actions.length) (hj : j < actions.length) :
    ((blotto0 actions values).getD i []).getD j 0 = (blottoPair actions[i] actions[j] values).1 ∧
    ((blotto1 actions values).getD j []).getD i 0 = (blottoPair actions[i] actions[j] values).2 := by
  simp [blotto0, blotto1, List.getD_eq_getElem?_getD, hi, hj]

example : blottoPair [2, 1] [1, 2] [((3 : Rat), 5), (7, 11)] = (3, 11) := by
  norm_num [blottoPair, List.zip, List.foldl]

/-- every hill's value is awarded exactly once between the mirrored action pairs `(aᵢ, aⱼ)` and
    `(aⱼ, aᵢ)`: the two payoffs of a player add up to the total value of the hills to him -/
theorem blotto_mirror (ai aj : List Nat) (values : List (K × K)) :
    (blottoPair ai aj values).1 + (blottoPair aj ai values).1
      = (((ai.zip aj).zip values).map fun xv => xv.2.1).sum ∧
    (blottoPair ai aj values).2 + (blottoPair aj ai values).2
      = (((ai.zip aj).zip values).map fun xv => xv.2.2).sum := by
  rw [(blotto_def ai aj values).1, (blotto_def aj ai values).1, (blotto_def ai aj values).2,
    (blotto_def aj ai values).2]
  exact blotto_mirror_sum ai aj values

/-- **Ranking game.** Each entry is the value of the prize (1 to the higher score, ½ each on a
    tie, 0 to the lower) minus the cost of the own effort level (0 for level 0). -/
theorem ranking_def (s0 s1 : List Nat) (c0 c1 : List K) (i j : Nat) :
    rank0 s0 s1 c0 i j
      = (if s0.getD i 0 > s1.getD j 0 then 1 else if s0.getD i 0 = s1.getD j 0 then 1 / 2 else 0)
        - (if i = 0 then 0 else c0.getD (i - 1) 0) ∧
    rank1 s0 s1 c1 j i
      = (if s1.getD j 0 > s0.getD i 0 then 1 else if s0.getD i 0 = s1.getD j 0 then 1 / 2 else 0)
        - (if j = 0 then 0 else c1.getD (j - 1) 0) := by
  have h2 : (1 : K) + 1 = 2 := by norm_num
  unfold rank0 rank1 rankBase
  generalize s0.getD i 0 = x
  generalize s1.getD j 0 = y
  rw [h2]
  constructor <;> split_ifs <;> first | ring1 | (exfalso; omega)

/-- **The arrays `ranking_game` returns.** For every `n`, `steps` and every stream of integer draws
    (`sd0`, `sd1`: the score steps, `cd0`, `cd1`: the cost steps of the two players), entry `(i, j)` of
    player 0's array and entry `(j, i)` of player 1's array (`i, j < n`) are `rank0` / `rank1` evaluated at
    the cumulative scores and at the costs `cumsum / (n·steps)` — i.e. by `ranking_def` the prize of the
    comparison of the cumulative scores minus the own cumulative cost. -/
theorem ranking_arrays (ofN : Nat → K) (n steps : Nat) (sd0 sd1 cd0 cd1 : List Nat) (i j : Nat)
    (hi : i < n) (hj : j < n) :
    (((rankingGame ofN n steps sd0 sd1 cd0 cd1).1.getD i []).getD j 0
      = rank0 (cumsumNat 0 sd0) (cumsumNat 0 sd1) (rankCosts ofN n steps cd0) i j) ∧
    (((rankingGame ofN n steps sd0 sd1 cd0 cd1).2.getD j []).getD i 0
      = rank1 (cumsumNat 0 sd0) (cumsumNat 0 sd1) (rankCosts ofN n steps cd1) j i) := by
  simp [rankingGame, List.getD_eq_getElem?_getD, hi, hj]

example : (rankingGame (fun m : Nat => (m : Rat)) 2 1 [1, 1] [1, 1] [1] [1]).1 = [[1 / 2, 0], [1 / 2, 0]] := by
  norm_num [rankingGame, cumsumNat, rankCosts, rank0, rankBase, List.range, List.range.loop]

/-- the prize is split: the two payoffs plus the two costs always add up to the prize 1 -/
theorem ranking_prize_split (s0 s1 : List Nat) (c0 c1 : List K) (i j : Nat) :
    rank0 s0 s1 c0 i j + (if i = 0 then 0 else c0.getD (i - 1) 0)
      + (rank1 s0 s1 c1 j i + (if j = 0 then 0 else c1.getD (j - 1) 0)) = 1 := by
  obtain ⟨h0, h1⟩ := ranking_def s0 s1 c0 c1 i j
  rw [h0, h1]
  generalize s0.getD i 0 = x
  generalize s1.getD j 0 = y
  rcases Nat.lt_trichotomy x y with h | h | h
  · have a1 : ¬ x > y := by omega
    have a2 : ¬ x = y := by omega
    have a3 : y > x := h
    simp only [a1, a2, a3, if_true, if_false]; ring
  · subst h; simp only [gt_iff_lt, lt_irrefl, if_false, if_true]; ring
  · have a1 : x > y := h
    have a2 : ¬ x = y := by omega
    have a3 : ¬ y > x := by omega
    simp only [a1, a2, a3, if_true, if_false]; ring

/-- scores are strictly increasing in the effort level when every step is at least 1 -/
theorem ranking_scores_increasing (draws : List Nat) (h : ∀ x ∈ draws, 1 ≤ x) :
    (cumsumNat 0 draws).Pairwise (· < ·) := cumsumNat_strict draws 0 h

/-- costs: with `n-1` steps in `[1, steps]` every cost `cumsum/(n·steps)` lies strictly between 0
    and 1 ("the maximum possible cost of effort level n-1 is less than or equal to 1") -/
theorem ranking_costs_in_unit (n steps : Nat) (draws : List Nat) (hlen : draws.length + 1 = n)
    (hd : ∀ x ∈ draws, 1 ≤ x ∧ x ≤ steps) :
    ∀ c ∈ rankCosts (fun m : Nat => (m : K)) n steps draws, 0 < c ∧ c < 1 := by
  intro c hc
  unfold rankCosts at hc
  obtain ⟨s, hs, rfl⟩ := List.mem_map.1 hc
  obtain ⟨j, hj, hsj⟩ := (List.mem_iff_getElem).1 hs
  rw [cumsumNat_length] at hj
  have hgd : (cumsumNat 0 draws).getD j 0 = s := by
    rw [List.getD_eq_getElem?_getD]; simp [cumsumNat_length, hj, hsj]
  have hval := cumsumNat_getD draws 0 j hj
  rw [hgd] at hval
  have hpos : 0 < s := cumsumNat_gt draws 0 (fun x hx => (hd x hx).1) s hs
  have hsteps : 1 ≤ steps := by
    cases draws with
    | nil => simp at hj
    | cons x _ => have := hd x (by simp); omega
  have hub : s ≤ draws.length * steps := by
    rw [hval, Nat.zero_add]
    have h1 : (draws.take (j + 1)).sum ≤ (draws.take (j + 1)).length * steps := by
      have hgen : ∀ l : List Nat, (∀ x ∈ l, x ≤ steps) → l.sum ≤ l.length * steps := by
        intro l; induction l with
        | nil => intro _; simp
        | cons x l ih =>
          intro h
          have hx := h x (by simp)
          have := ih (fun y hy => h y (List.mem_cons_of_mem _ hy))
          simp only [List.sum_cons, List.length_cons, Nat.add_mul, Nat.one_mul]; omega
      exact hgen _ (fun x hx => (hd x (List.mem_of_mem_take hx)).2)
    have h2 : (draws.take (j + 1)).length ≤ draws.length := by simp
    exact le_trans h1 (Nat.mul_le_mul_right _ h2)
  have hlt : s < n * steps := by
    have : draws.length * steps < n * steps := Nat.mul_lt_mul_of_lt_of_le (by omega) (le_refl _) (by omega)
    omega
  have hden : (0 : K) < ((n * steps : Nat) : K) := by exact_mod_cast (by omega : 0 < n * steps)
  constructor
  · apply div_pos _ hden
    show (0 : K) < ((s : Nat) : K)
    exact_mod_cast hpos
  · rw [div_lt_one hden]
    show ((s : Nat) : K) < _
    exact_mod_cast hlt

example : ([2, 1].length + 1 = 3) ∧ ∀ x ∈ [2, 1], 1 ≤ x ∧ x ≤ 2 := by decide
example : rankCosts (fun m : Nat => (m : Rat)) 3 2 [2, 1] = [1 / 3, 1 / 2] := by
  norm_num [rankCosts, cumsumNat]

example : cumsumNat 0 [2, 1, 3] = [2, 3, 6] := by decide

/-- **Unit vector game.** Entry `(r, c)` of player 0's array is 1 exactly at the drawn row of
    column `c`, so every column holds exactly one 1 and zeros elsewhere. -/
theorem unit_vector_def (n : Nat) (ones : List Nat) (r c : Nat) (hr : r < n) (hc : c < n) :
    ((uvPlain (α := K) n ones).getD r []).getD c 0 = if ones.getD c n = r then 1 else 0 := by
  simp [uvPlain, List.getD_eq_getElem?_getD, hr, hc]

theorem unit_vector_one_per_column (n : Nat) (ones : List Nat) (c : Nat) (hc : c < n)
    (ho : ones.getD c n < n) :
    ∃ r, r < n ∧ ((uvPlain (α := K) n ones).getD r []).getD c 0 = 1 ∧
      ∀ r', r' < n → r' ≠ r → ((uvPlain (α := K) n ones).getD r' []).getD c 0 = 0 := by
  refine ⟨ones.getD c n, ho, by rw [unit_vector_def n ones _ c ho hc]; simp, ?_⟩
  intro r' hr' hne
  rw [unit_vector_def n ones r' c hr' hc, if_neg (fun e => hne e.symm)]

/-- pure Nash equilibrium of a bimatrix game given by the two players' arrays (own action first) -/
def PureNash (n : Nat) (A B : List (List K)) (a i : Nat) : Prop :=
  (∀ a', a' < n → (A.getD a' []).getD i 0 ≤ (A.getD a []).getD i 0) ∧
  (∀ i', i' < n → (B.getD i' []).getD a 0 ≤ (B.getD i []).getD a 0)

/-- **avoid_pure_nash.** For every payoff array `P` of player 1 (`n` rows) and every stream of
    integer draws `< n` that lets the rejection loop finish, the accepted rows are in range and
    the resulting game has **no** pure Nash equilibrium. -/
theorem uvAvoid_no_pure_nash (n : Nat) (P : List (List K)) (hP : P.length = n)
    (draws ones rest : List Nat) (hd : ∀ d ∈ draws, d < n)
    (h : uvAvoidOnes P (List.range n) draws = some (ones, rest)) :
    ones.length = n ∧ (∀ c, c < n → ones.getD c n < n) ∧
      ∀ a i, a < n → i < n → ¬ PureNash n (uvPlain n ones) P a i := by
  obtain ⟨hl, hsub, _⟩ := uvAvoidOnes_spec P (List.range n) draws ones rest h
  have hl' : ones.length = n := by simpa using hl
  have hget : ∀ c, c < n → ∃ hc : c < ones.length, ones.getD c n = ones[c] := by
    intro c hc
    exact ⟨by omega, by rw [List.getD_eq_getElem?_getD]; simp [hl', hc]⟩
  have hacc : ∀ c (hc : c < n), isSubopt P c (ones.getD c n) = true ∧ ones.getD c n < n := by
    intro c hc
    obtain ⟨hc', he⟩ := hget c hc
    have := hsub c (by simpa using hc) hc'
    rw [he]
    simp only [List.getElem_range] at this
    exact ⟨this.1, hd _ this.2⟩
  refine ⟨hl', fun c hc => (hacc c hc).2, ?_⟩
  rintro a i ha hi ⟨h0, h1⟩
  obtain ⟨hsu, hdn⟩ := hacc i hi
  by_cases had : a = ones.getD i n
  · -- player 1's action i is not a best response to the accepted row
    subst had
    unfold isSubopt at hsu
    have hlt : (P.getD i []).getD (ones.getD i n) 0 < colMax P (ones.getD i n) := by simpa using hsu
    have hne : P ≠ [] := by intro e; rw [e] at hP; simp at hP; omega
    obtain ⟨row, hrow, hrm⟩ := (colMax_spec P (ones.getD i n) hne).2
    obtain ⟨i', hi', rfl⟩ := List.mem_iff_getElem.1 hrow
    have := h1 i' (by omega)
    have hg : P.getD i' [] = P[i'] := by rw [List.getD_eq_getElem?_getD]; simp [hi']
    rw [hg, hrm] at this
    exact absurd hlt (not_lt.2 this)
  · -- player 0 gets 0 at (a, i) but 1 at the accepted row
    have := h0 (ones.getD i n) hdn
    rw [unit_vector_def n ones _ i hdn hi, unit_vector_def n ones a i ha hi] at this
    rw [if_pos rfl, if_neg (fun e => had e.symm)] at this
    exact absurd this (not_le.2 one_pos)

example : uvAvoidOnes [[(1 : Rat), 0], [0, 1]] (List.range 2) [0, 1, 1, 0] = some ([1, 0], []) := by
  decide +kernel

/-- the redraw test `(nums_suboptimal == 0).any()` is false exactly when every action of player 1
    is suboptimal against some action `< n` of player 0 — which is what lets the rejection loop
    accept a draw for every column -/
theorem uvMustRedraw_false_iff (n : Nat) (P : List (List K)) :
    uvMustRedraw n P = false ↔ ∀ a, a < n → ∃ b, b < n ∧ isSubopt P a b = true := by
  unfold uvMustRedraw
  rw [Bool.eq_false_iff]
  simp only [ne_eq, List.any_eq_true, List.mem_range, List.all_eq_true, Bool.not_eq_true',
    not_exists, not_and, not_forall]
  constructor
  · intro h a ha
    obtain ⟨b, hb, hs⟩ := h a ha
    exact ⟨b, hb, by simpa using hs⟩
  · intro h a ha
    obtain ⟨b, hb, hs⟩ := h a ha
    exact ⟨b, hb, by simp [hs]⟩

/-- **The rejection loop can always finish once the redraw test passes.** For every `n` and every payoff
    array `P` with `uvMustRedraw n P = false` there is a stream of `n` integer draws `< n` (one accepted
    draw per column, no rejection) on which the loop of `avoid_pure_nash=True` terminates having consumed
    the whole stream — so the hypothesis of `uvAvoid_no_pure_nash` is satisfiable for every such `P`, and
    the loop's only way not to terminate is a stream that never produces an acceptable draw. -/
theorem uvAvoid_can_finish (n : Nat) (P : List (List K)) (h : uvMustRedraw n P = false) :
    ∃ draws : List Nat, draws.length = n ∧ (∀ d ∈ draws, d < n) ∧
      uvAvoidOnes P (List.range n) draws = some (draws, []) := by
  have hsub := (uvMustRedraw_false_iff n P).1 h
  have gen : ∀ is : List Nat, (∀ i ∈ is, i < n) →
      ∃ draws : List Nat, draws.length = is.length ∧ (∀ d ∈ draws, d < n) ∧
        uvAvoidOnes P is draws = some (draws, []) := by
    intro is
    induction is with
    | nil => intro _; exact ⟨[], rfl, by simp, rfl⟩
    | cons i rest ih =>
      intro hlt
      obtain ⟨b, hb, hs⟩ := hsub i (hlt i (by simp))
      obtain ⟨ds, hl, hd, he⟩ := ih (fun j hj => hlt j (List.mem_cons_of_mem _ hj))
      refine ⟨b :: ds, by simp [hl], ?_, ?_⟩
      · intro d hd'
        rcases List.mem_cons.1 hd' with rfl | h'
        · exact hb
        · exact hd d h'
      · have hp : uvPick P i (b :: ds) = some (b, ds) := by
          unfold uvPick; rw [if_pos hs]
        unfold uvAvoidOnes
        rw [hp]
        simp only
        rw [he]
  obtain ⟨draws, hl, hd, he⟩ := gen (List.range n) (fun i hi => List.mem_range.1 hi)
  exact ⟨draws, by simpa using hl, hd, he⟩

example : uvMustRedraw 2 [[(1 : Rat), 0], [0, 1]] = false := by decide +kernel

/-- the rejection loop accepts as soon as an acceptable draw arrives -/
theorem uvPick_accepts (P : List (List K)) (i : Nat) (draws : List Nat)
    (h : ∃ d ∈ draws, isSubopt P i d = true) : ∃ d rest, uvPick P i draws = some (d, rest) :=
  uvPick_complete P i draws h

end games

/-! ## tournament game -/

/-- **next_k_array is the successor of the combinatorial number system.** For a strictly
    increasing array of length `k ≥ 1` (`Incr`: adjacent entries increase) the result is strictly
    increasing, of the same length, and its rank `Σ_j C(a_j, j+1)` is one larger; hence the `j`-th
    array visited from `(0,…,k-1)` is the increasing array of rank `j`, and two increasing arrays
    of equal length and rank are equal. (Facts about the C16 model `nextKArray` / `kArrayRank`,
    proved here because the tournament game enumerates player 1's actions with them.) -/
theorem next_k_array_successor (a : List Nat) (hk : 1 ≤ a.length) (hinc : Incr a) :
    (QE.C16.nextKArray a).length = a.length ∧ Incr (QE.C16.nextKArray a) ∧
      QE.C16.kArrayRank (QE.C16.nextKArray a) = QE.C16.kArrayRank a + 1 :=
  nextKArray_spec a hk hinc

theorem next_k_array_walk (k : Nat) (hk : 1 ≤ k) (j : Nat) :
    (QE.C16.nextKArray^[j] (List.range k)).length = k ∧ Incr (QE.C16.nextKArray^[j] (List.range k)) ∧
      QE.C16.kArrayRank (QE.C16.nextKArray^[j] (List.range k)) = j :=
  walk_spec k hk j

theorem k_array_rank_injective (a b : List Nat) (hl : a.length = b.length) (ha : Incr a) (hb : Incr b)
    (he : QE.C16.kArrayRank a = QE.C16.kArrayRank b) : a = b :=
  kArrayRank_inj a b hl ha hb he

example : QE.C16.nextKArray [0, 1, 2, 5] = [0, 1, 3, 5] ∧ QE.C16.kArrayRank [0, 1, 2, 5] = 5 ∧
    QE.C16.kArrayRank [0, 1, 3, 5] = 6 := by decide
example : Incr [0, 1, 2, 5] := by
  intro j hj
  have : j = 0 ∨ j = 1 ∨ j = 2 := by simp at hj; omega
  rcases this with rfl | rfl | rfl <;> decide

/-- row `j` of player 1's array is the indicator vector of the `j`-th array visited by the loop -/
theorem tg1Rows_indicator (n m k j c : Nat) (hj : j < m)
    (hX : ∀ x ∈ QE.C16.nextKArray^[j] (List.range k), x < n) :
    ((tg1Rows (α := Nat) n m (List.range k)).getD j []).getD c 0
      = if c ∈ QE.C16.nextKArray^[j] (List.range k) then 1 else 0 := by
  rw [tg1Rows_eq]
  have : ((List.range m).map fun j => markRow (List.replicate n 0) (QE.C16.nextKArray^[j] (List.range k))).getD j []
      = markRow (List.replicate n 0) (QE.C16.nextKArray^[j] (List.range k)) := by
    simp [List.getD_eq_getElem?_getD, hj]
  rw [this, (markRow_spec _ _ (by simpa using hX)).2 c]
  split
  · rfl
  · rw [List.getD_eq_getElem?_getD]; by_cases h : c < n <;> simp [h]

/-- **Tournament game, player 1.** For every `n`, `k ≥ 1` and every `k`-subset `S` of the nodes
    (a strictly increasing list of `k` nodes `< n`): its rank in the combinatorial number system is
    a valid action index `< C(n,k)`, and in row `rank S` of player 1's array the entry for node `c`
    is 1 iff `c ∈ S`. -/
theorem tournament_game_p1 (n k : Nat) (hk : 1 ≤ k) (S : List Nat) (hS : S.length = k)
    (hinc : Incr S) (hlt : ∀ x ∈ S, x < n) (c : Nat) :
    QE.C16.kArrayRank S < Nat.choose n k ∧
    ((tg1Rows (α := Nat) n (QE.C16.chooseFast n k) (List.range k)).getD (QE.C16.kArrayRank S) []).getD c 0
      = if c ∈ S then 1 else 0 := by
  have hlast : S.getD (S.length - 1) 0 < n := by
    apply hlt
    rw [List.getD_eq_getElem?_getD]
    have : S.length - 1 < S.length := by omega
    simp [this]
  have hb := kArrayRank_bounds S (by omega) hinc
  have hrk : QE.C16.kArrayRank S < Nat.choose n k := by
    have := Nat.choose_le_choose S.length (show S.getD (S.length - 1) 0 + 1 ≤ n from hlast)
    rw [hS] at this hb
    omega
  refine ⟨hrk, ?_⟩
  obtain ⟨w1, w2, w3⟩ := walk_spec k hk (QE.C16.kArrayRank S)
  have hXS : QE.C16.nextKArray^[QE.C16.kArrayRank S] (List.range k) = S :=
    kArrayRank_inj _ _ (by omega) w2 hinc w3
  have := tg1Rows_indicator n (QE.C16.chooseFast n k) k (QE.C16.kArrayRank S) c
    (by rw [QE.C16.chooseFast_eq_choose]; exact hrk) (by rw [hXS]; exact hlt)
  rw [this, hXS]

/-- **Tournament game, player 0.** Let `succ` be the increasing list of successors of node `i`
    (nodes `< n`; see `succOf_spec`).  For every `k ≥ 1` and every `k`-subset `S` of the nodes
    (strictly increasing list), the entry of row `i` of player 0's array in column `rank S` is 1
    iff every node of `S` is a successor of `i` (node `i` dominates `S`), and 0 otherwise. -/
theorem tournament_game_p0 (n k : Nat) (hk : 1 ≤ k) (succ : List Nat) (hs : Incr succ)
    (hsn : ∀ x ∈ succ, x < n) (S : List Nat) (hS : S.length = k) (hinc : Incr S) :
    (tg0Row (α := Nat) (QE.C16.chooseFast n k) k succ).getD (QE.C16.kArrayRank S) 0
      = if ∀ x ∈ S, x ∈ succ then 1 else 0 := by
  have hdn : succ.length ≤ n := incr_length_le succ hs n hsn
  have hm : Nat.choose succ.length k ≤ QE.C16.chooseFast n k := by
    rw [QE.C16.chooseFast_eq_choose]; exact Nat.choose_le_choose k hdn
  -- every position array with entries below `d` is a walk array with index below C(d,k)
  have hpos : (∀ x ∈ S, x ∈ succ) → ∃ j, j < Nat.choose succ.length k ∧ k ≤ succ.length ∧
      pick succ (walk k j) = S := by
    intro hmem
    obtain ⟨b, hbl, hbi, hbd, hbp⟩ := exists_positions succ S hs hinc hmem
    have hbd' : ∀ x ∈ b, x < succ.length := by
      intro x hx
      obtain ⟨j, hj, rfl⟩ := (mem_iff_getD _ _).1 hx
      exact hbd j hj
    have hrk := rank_lt_choose b succ.length (by omega) hbi hbd'
    obtain ⟨w1, w2, w3⟩ := walk_spec k hk (QE.C16.kArrayRank b)
    have hwb : walk k (QE.C16.kArrayRank b) = b := kArrayRank_inj _ _ (by unfold walk; omega) w2 hbi w3
    refine ⟨QE.C16.kArrayRank b, by rw [hbl, hS] at hrk; exact hrk, ?_, by rw [hwb]; exact hbp⟩
    have := incr_length_le b hbi succ.length hbd'
    omega
  rw [tg0Row_eq _ k hk succ hm]
  by_cases hd : succ.length ≥ k
  · rw [if_pos hd]
    -- facts about the j-th picked subset
    have hpick : ∀ j, j < Nat.choose succ.length k →
        (pick succ (walk k j)).length = k ∧ Incr (pick succ (walk k j)) ∧
        (∀ x ∈ pick succ (walk k j), x ∈ succ) := by
      intro j hj
      obtain ⟨w1, w2, _⟩ := walk_spec k hk j
      have hl := (walk_last_lt_iff k hk succ.length j).2 hj
      have hall := incr_all_lt (walk k j) w2 succ.length (by unfold walk; omega) hl
      obtain ⟨p1, p2⟩ := pick_incr succ (walk k j) hs w2 hall
      exact ⟨by rw [pick_length]; exact w1, p1, p2⟩
    have hmarks : ∀ x ∈ (List.range (Nat.choose succ.length k)).map
        (fun j => QE.C16.kArrayRank (pick succ (walk k j))), x < (List.replicate (QE.C16.chooseFast n k) 0).length := by
      intro x hx
      obtain ⟨j, hj, rfl⟩ := List.mem_map.1 hx
      obtain ⟨p1, p2, p3⟩ := hpick j (List.mem_range.1 hj)
      have := rank_lt_choose (pick succ (walk k j)) n (by omega) p2 (fun x hx => hsn x (p3 x hx))
      rw [p1] at this
      simpa [QE.C16.chooseFast_eq_choose] using this
    rw [(markRow_spec _ _ hmarks).2]
    have hz : (List.replicate (QE.C16.chooseFast n k) 0).getD (QE.C16.kArrayRank S) 0 = 0 := by
      rw [List.getD_eq_getElem?_getD]
      by_cases h : QE.C16.kArrayRank S < QE.C16.chooseFast n k <;> simp [h]
    rw [hz]
    by_cases hmem : ∀ x ∈ S, x ∈ succ
    · rw [if_pos hmem, if_pos]
      obtain ⟨j, hj, _, hp⟩ := hpos hmem
      exact List.mem_map.2 ⟨j, List.mem_range.2 hj, by rw [hp]⟩
    · rw [if_neg hmem, if_neg]
      intro hin
      obtain ⟨j, hj, he⟩ := List.mem_map.1 hin
      obtain ⟨p1, p2, p3⟩ := hpick j (List.mem_range.1 hj)
      have : pick succ (walk k j) = S := kArrayRank_inj _ _ (by omega) p2 hinc he
      exact hmem (fun x hx => p3 x (by rw [this]; exact hx))
  · rw [if_neg hd]
    have hz : (List.replicate (QE.C16.chooseFast n k) 0).getD (QE.C16.kArrayRank S) 0 = 0 := by
      rw [List.getD_eq_getElem?_getD]
      by_cases h : QE.C16.kArrayRank S < QE.C16.chooseFast n k <;> simp [h]
    rw [hz, if_neg]
    intro hmem
    obtain ⟨_, _, hkd, _⟩ := hpos hmem
    omega

example : tg0Row (α := Nat) 3 2 [1, 2] = [0, 0, 1] ∧ QE.C16.kArrayRank [1, 2] = 2 := by decide

/-- **Tournament game = its definition.** For every `n`, `k ≥ 1`, every orientation stream, every
    node `i < n` and every `k`-subset `S` (strictly increasing list of nodes `< n`):
    player 0's payoff at `(i, rank S)` is 1 iff `i → x` is an edge of the tournament for every
    `x ∈ S`; player 1's payoff at `(rank S, c)` is 1 iff `c ∈ S`. -/
theorem tournament_game_def (n k : Nat) (hk : 1 ≤ k) (bs : List Bool) (i : Nat) (hi : i < n)
    (S : List Nat) (hS : S.length = k) (hinc : Incr S) (hlt : ∀ x ∈ S, x < n) (c : Nat) :
    (((tournamentGame (α := Nat) n k bs).1.getD i []).getD (QE.C16.kArrayRank S) 0
      = if ∀ x ∈ S, (i, x) ∈ tournEdges n bs then 1 else 0) ∧
    (((tournamentGame (α := Nat) n k bs).2.getD (QE.C16.kArrayRank S) []).getD c 0
      = if c ∈ S then 1 else 0) := by
  unfold tournamentGame
  simp only
  constructor
  · have hrow : ((List.range n).map fun i => tg0Row (α := Nat) (QE.C16.chooseFast n k) k
        (succOf n (tournEdges n bs) i)).getD i []
        = tg0Row (α := Nat) (QE.C16.chooseFast n k) k (succOf n (tournEdges n bs) i) := by
      simp [List.getD_eq_getElem?_getD, hi]
    obtain ⟨hmem, hsorted⟩ := succOf_spec n (tournEdges n bs) i
    rw [hrow, tournament_game_p0 n k hk _ (incr_of_pairwise _ hsorted)
      (fun x hx => ((hmem x).1 hx).1) S hS hinc]
    have : (∀ x ∈ S, x ∈ succOf n (tournEdges n bs) i) ↔ (∀ x ∈ S, (i, x) ∈ tournEdges n bs) := by
      constructor
      · intro h x hx; exact ((hmem x).1 (h x hx)).2
      · intro h x hx; exact (hmem x).2 ⟨hlt x hx, h x hx⟩
    simp only [this]
  · exact (tournament_game_p1 n k hk S hS hinc hlt c).2

/-- **Shapes.** Player 0's array has `n` rows of length `C(n,k)`, player 1's array `C(n,k)` rows of
    length `n` (for arrays of the walk with entries `< n`, which is the case for the first `C(n,k)`
    of them by `tournament_game_p1`). -/
theorem tournament_game_shape (n k : Nat) (bs : List Bool) :
    (tournamentGame (α := Nat) n k bs).1.length = n ∧
    (∀ row ∈ (tournamentGame (α := Nat) n k bs).1, row.length = Nat.choose n k) ∧
    (tournamentGame (α := Nat) n k bs).2.length = Nat.choose n k := by
  unfold tournamentGame
  simp only [QE.C16.chooseFast_eq_choose]
  refine ⟨by simp, ?_, by rw [tg1Rows_eq]; simp⟩
  intro row hrow
  obtain ⟨i, _, rfl⟩ := List.mem_map.1 hrow
  have hgen : ∀ (fuel : Nat) (a row : List Nat),
      (tg0Loop (α := Nat) (succOf n (tournEdges n bs) i).length (succOf n (tournEdges n bs) i) fuel a row).length
        = row.length := by
    intro fuel
    induction fuel with
    | zero => intro a row; rfl
    | succ fuel ih =>
      intro a row
      unfold tg0Loop
      split
      · simp only; rw [ih]; simp
      · rfl
  unfold tg0Row
  simp only
  split
  · rw [hgen]; simp
  · simp


/-- an instance of `tournament_game_def`: n = 3, k = 2, edges 0→1, 0→2, 2→1; node 0 dominates {1,2}
    (rank 2), player 1's row 1 is the subset {0,2} -/
example : tournamentGame (α := Nat) 3 2 [true, true, false]
    = ([[0, 0, 1], [0, 0, 0], [0, 0, 0]], [[1, 1, 0], [1, 0, 1], [0, 1, 1]]) := by decide
example : Incr [0, 2] ∧ QE.C16.kArrayRank [0, 2] = 1 ∧ ∀ x ∈ [0, 2], x < 3 := by
  refine ⟨?_, by decide, by decide⟩
  intro j hj
  have : j = 0 := by simp at hj; omega
  subst this; decide

example : tg1Rows (α := Nat) 3 3 (List.range 2) = [[1, 1, 0], [1, 0, 1], [0, 1, 1]] := by decide

/-! ## SGC game -/

section sgc
set_option linter.unusedSectionVars false
open Finset
variable {K : Type} [Field K] [LinearOrder K] [IsStrictOrderedRing K]

/-- on the first `m = 2k-1` columns both players' arrays are the common part (the pair loops write
    columns `≥ m` only) -/
theorem sgcEntry_common (k i j : Nat) (hj : j < 2 * k - 1) :
    (sgcEntry0 k i j : K) = sgcCommon (4 * k - 1) i j ∧ (sgcEntry1 k i j : K) = sgcCommon (4 * k - 1) i j := by
  have hm : (4 * k - 1 + 1) / 2 - 1 = 2 * k - 1 := by omega
  unfold sgcEntry0 sgcEntry1
  simp only [hm]
  exact ⟨sgcPairs0_lt _ _ _ i j hj, sgcPairs1_lt _ _ _ i j hj⟩

/-- **Row sums against the half-support profile.** For every `k ≥ 1` the sum of row `i` of either
    player's array over the first `m = 2k-1` columns (`m` times the expected payoff of action `i`
    against the uniform distribution on the first `m` actions) is `3m/4` for `i < m` (`1/2` when
    `k = 1`) and `0` for `i ≥ m`. -/
theorem sgc_rowsum (k : Nat) (hk : 1 ≤ k) (i : Nat) :
    (∑ j ∈ range (2 * k - 1), (sgcEntry0 k i j : K))
      = (if i < 2 * k - 1 then (if k = 1 then 1 / 2 else 3 / 4 * ((2 * k - 1 : Nat) : K)) else 0) ∧
    (∑ j ∈ range (2 * k - 1), (sgcEntry1 k i j : K))
      = (if i < 2 * k - 1 then (if k = 1 then 1 / 2 else 3 / 4 * ((2 * k - 1 : Nat) : K)) else 0) := by
  have h0 : ∑ j ∈ range (2 * k - 1), (sgcEntry0 k i j : K) = ∑ j ∈ range (2 * k - 1), (sgcCommon (4 * k - 1) i j : K) :=
    sum_congr rfl (fun j hj => (sgcEntry_common k i j (mem_range.1 hj)).1)
  have h1 : ∑ j ∈ range (2 * k - 1), (sgcEntry1 k i j : K) = ∑ j ∈ range (2 * k - 1), (sgcCommon (4 * k - 1) i j : K) :=
    sum_congr rfl (fun j hj => (sgcEntry_common k i j (mem_range.1 hj)).2)
  rw [h0, h1]
  suffices h : ∑ j ∈ range (2 * k - 1), (sgcCommon (4 * k - 1) i j : K)
      = (if i < 2 * k - 1 then (if k = 1 then 1 / 2 else 3 / 4 * ((2 * k - 1 : Nat) : K)) else 0) from ⟨h, h⟩
  by_cases hk1 : k = 1
  · subst hk1
    simp only [show 2 * 1 - 1 = 1 from rfl, show 4 * 1 - 1 = 3 from rfl, sum_range_one, sgcCommon_one]
    by_cases hi : i = 0
    · simp [hi]
    · have : ¬ i < 1 := by omega
      simp [hi, this]
  · have hk2 : 2 ≤ k := by omega
    rw [sum_congr rfl (fun j hj => sgcCommon_closed k hk2 i j (mem_range.1 hj))]
    by_cases hi : i < 2 * k - 1
    · simp only [hi, if_true, hk1, if_false]
      rw [sum_two_special (2 * k - 1) _ _ 1 (1 / 2) (3 / 4)
        (by split <;> omega) (by split <;> omega) (by split <;> split <;> omega)]
      ring
    · simp [hi]

/-- **The half-support profile is a Nash equilibrium of `sgc_game(k)` for every `k ≥ 1`.**
    Against the uniform distribution on the opponent's first `m = 2k-1` actions, every action
    `i < m` of the support earns at least as much as any of the `n = 4k-1` actions `i'` — for both
    players (each array is indexed by the own action first).  Uniqueness for `k ≥ 2` is
    `sgc_unique_nash` below (for `k = 1` it is checked by support enumeration in the harness). -/
theorem sgc_half_support_nash (k : Nat) (hk : 1 ≤ k) (i i' : Nat) (hi : i < 2 * k - 1) :
    (∑ j ∈ range (2 * k - 1), (sgcEntry0 k i' j : K)) / ((2 * k - 1 : Nat) : K)
      ≤ (∑ j ∈ range (2 * k - 1), (sgcEntry0 k i j : K)) / ((2 * k - 1 : Nat) : K) ∧
    (∑ j ∈ range (2 * k - 1), (sgcEntry1 k i' j : K)) / ((2 * k - 1 : Nat) : K)
      ≤ (∑ j ∈ range (2 * k - 1), (sgcEntry1 k i j : K)) / ((2 * k - 1 : Nat) : K) := by
  have hm : (0 : K) < ((2 * k - 1 : Nat) : K) := by exact_mod_cast (by omega : 0 < 2 * k - 1)
  have key : (if i' < 2 * k - 1 then (if k = 1 then (1 : K) / 2 else 3 / 4 * ((2 * k - 1 : Nat) : K)) else 0)
      ≤ (if k = 1 then (1 : K) / 2 else 3 / 4 * ((2 * k - 1 : Nat) : K)) := by
    have hpos : (0 : K) ≤ (if k = 1 then (1 : K) / 2 else 3 / 4 * ((2 * k - 1 : Nat) : K)) := by
      split
      · norm_num
      · positivity
    split
    · exact le_refl _
    · exact hpos
  rw [(sgc_rowsum k hk i).1, (sgc_rowsum k hk i).2, (sgc_rowsum k hk i').1, (sgc_rowsum k hk i').2, if_pos hi]
  exact ⟨div_le_div_of_nonneg_right key (le_of_lt hm), div_le_div_of_nonneg_right key (le_of_lt hm)⟩

/-- the payoffs are normalised: on the first `m` columns every entry lies in `[0, 1]` -/
example : (sgcEntry0 (α := Rat) 2 0 2, sgcEntry0 (α := Rat) 2 0 1, sgcEntry0 (α := Rat) 2 3 3, sgcEntry1 (α := Rat) 2 3 4)
    = (1, 1 / 2, 3 / 4, 3 / 4) := by decide +kernel

/-- **SGC game = its definition** (`k ≥ 2`, `m = 2k-1`, `n = 4k-1`).  Every entry of both arrays:
    in the first `m` rows the `m × m` block is the cyclic pattern (1 on the cyclic sub-diagonal
    `j = i-1 mod m`, ½ on the cyclic super-diagonal `j = i+1 mod m`, ¾ elsewhere) followed by ½ in
    the columns `≥ m`; the last `2k` rows are 0 except ¾ on the diagonal (player 0), respectively ¾
    on the swapped pairs `(m+2h, m+2h+1)`, `(m+2h+1, m+2h)` (player 1). -/
theorem sgc_def (k : Nat) (hk : 2 ≤ k) (i j : Nat) (hi : i < 4 * k - 1) (hj : j < 4 * k - 1) :
    (sgcEntry0 k i j : K) =
      (if i < 2 * k - 1 then
        (if j < 2 * k - 1 then
          (if j = (if i = 0 then 2 * k - 2 else i - 1) then 1
           else if j = (if i = 2 * k - 2 then 0 else i + 1) then 1 / 2 else 3 / 4)
         else 1 / 2)
       else (if i = j then 3 / 4 else 0)) ∧
    (sgcEntry1 k i j : K) =
      (if i < 2 * k - 1 then
        (if j < 2 * k - 1 then
          (if j = (if i = 0 then 2 * k - 2 else i - 1) then 1
           else if j = (if i = 2 * k - 2 then 0 else i + 1) then 1 / 2 else 3 / 4)
         else 1 / 2)
       else (if 2 * k - 1 ≤ j ∧ i ≠ j ∧ (i - (2 * k - 1)) / 2 = (j - (2 * k - 1)) / 2 then 3 / 4 else 0)) :=
  sgc_def' k hk i j hi hj

/-- **`sgc_game(k)` has no pure Nash equilibrium for `k ≥ 2`** (so its equilibrium — the half-support
    profile of `sgc_half_support_nash` — is properly mixed).  `a` is player 0's action, `b` player 1's;
    each array is indexed by the own action first. -/
theorem sgc_no_pure_nash (k : Nat) (hk : 2 ≤ k) (a b : Nat) (ha : a < 4 * k - 1) (hb : b < 4 * k - 1) :
    ¬ ((∀ a', a' < 4 * k - 1 → (sgcEntry0 k a' b : K) ≤ sgcEntry0 k a b) ∧
       (∀ b', b' < 4 * k - 1 → (sgcEntry1 k b' a : K) ≤ sgcEntry1 k b a)) :=
  sgc_no_pure_nash' k hk a b ha hb

/-- **Every Nash equilibrium of `sgc_game(k)` (`k ≥ 2`) lives on the first `m = 2k-1` actions.**
    `SgcNash k x y`: `x`, `y` are mixed actions on the `4k-1` actions and every action played with positive
    probability is a best response (`sgcU0` / `sgcU1`: expected payoffs from the two arrays).  Then both
    players put probability 0 on each of the last `2k` actions. -/
theorem sgc_nash_support (k : Nat) (hk : 2 ≤ k) (x y : Nat → K) (h : SgcNash k x y) (i : Nat)
    (hi : 2 * k - 1 ≤ i) (hin : i < 4 * k - 1) : x i = 0 ∧ y i = 0 :=
  sgc_nash_support' k hk x y h i hi hin

/-- the half-support profile: uniform on the first `m = 2k-1` actions -/
def sgcUniform (k : Nat) (i : Nat) : K := if i < 2 * k - 1 then 1 / ((2 * k - 1 : Nat) : K) else 0

/-- **Uniqueness: `sgc_game(k)` has exactly one Nash equilibrium, for every `k ≥ 1`.**  If `(x, y)` is a
    Nash equilibrium in mixed actions (`SgcNash`: both are probability vectors on the `4k-1` actions and
    every action played with positive probability is a best response against the other's mixed action,
    payoffs taken from the two arrays the generator returns), then both `x` and `y` are the uniform
    distribution on the first `2k-1` actions (for `k = 1`: the pure profile `(0, 0)`). -/
theorem sgc_unique_nash (k : Nat) (hk : 1 ≤ k) (x y : Nat → K) (h : SgcNash k x y) (i : Nat)
    (hi : i < 4 * k - 1) : x i = sgcUniform k i ∧ y i = sgcUniform k i := by
  by_cases h1 : k = 1
  · subst h1
    obtain ⟨⟨a0, a1, a2⟩, ⟨b0, b1, b2⟩⟩ := sgc_unique_nash_one' x y h
    unfold sgcUniform
    have : i = 0 ∨ i = 1 ∨ i = 2 := by omega
    rcases this with rfl | rfl | rfl <;> simp [a0, a1, a2, b0, b1, b2]
  · exact sgc_unique_nash' k (by omega) x y h i hi

/-- … and that profile **is** a Nash equilibrium in the same sense, for every `k ≥ 1` (from
    `sgc_half_support_nash`), so the set of equilibria of `sgc_game(k)` is exactly this one point. -/
theorem sgc_uniform_is_nash (k : Nat) (hk : 1 ≤ k) : SgcNash k (sgcUniform (K := K) k) (sgcUniform k) := by
  have hm : (0 : K) < ((2 * k - 1 : Nat) : K) := by exact_mod_cast (by omega : 0 < 2 * k - 1)
  have hmixed : IsMixed (4 * k - 1) (sgcUniform (K := K) k) := by
    constructor
    · intro i; unfold sgcUniform; split
      · positivity
      · exact le_refl _
    · have : ∑ i ∈ range (4 * k - 1), sgcUniform (K := K) k i = ∑ i ∈ range (2 * k - 1), (1 / ((2 * k - 1 : Nat) : K)) := by
        rw [← sum_subset (range_subset_range.2 (by omega : 2 * k - 1 ≤ 4 * k - 1))
          (fun j _ hnj => by unfold sgcUniform; rw [if_neg (by simpa using hnj)])]
        exact sum_congr rfl (fun j hj => by unfold sgcUniform; rw [if_pos (mem_range.1 hj)])
      rw [this, sum_const, card_range]
      simp only [nsmul_eq_mul]
      field_simp
  -- expected payoffs against the uniform profile are the row sums divided by m
  have hU : ∀ i, sgcU0 k (sgcUniform (K := K) k) i = (∑ j ∈ range (2 * k - 1), (sgcEntry0 k i j : K)) / ((2 * k - 1 : Nat) : K) ∧
      sgcU1 k (sgcUniform (K := K) k) i = (∑ j ∈ range (2 * k - 1), (sgcEntry1 k i j : K)) / ((2 * k - 1 : Nat) : K) := by
    intro i
    unfold sgcU0 sgcU1
    constructor
    · rw [← sum_subset (range_subset_range.2 (by omega : 2 * k - 1 ≤ 4 * k - 1))
        (fun j _ hnj => by unfold sgcUniform; rw [if_neg (by simpa using hnj)]; ring), div_eq_mul_one_div, sum_mul]
      exact sum_congr rfl (fun j hj => by unfold sgcUniform; rw [if_pos (mem_range.1 hj)])
    · rw [← sum_subset (range_subset_range.2 (by omega : 2 * k - 1 ≤ 4 * k - 1))
        (fun j _ hnj => by unfold sgcUniform; rw [if_neg (by simpa using hnj)]; ring), div_eq_mul_one_div, sum_mul]
      exact sum_congr rfl (fun j hj => by unfold sgcUniform; rw [if_pos (mem_range.1 hj)])
  refine ⟨hmixed, hmixed, ?_, ?_⟩
  · intro i hi hpos i' _
    have him : i < 2 * k - 1 := by
      by_contra hc; unfold sgcUniform at hpos; rw [if_neg hc] at hpos; exact lt_irrefl _ hpos
    rw [(hU i).1, (hU i').1]
    exact (sgc_half_support_nash k (by omega) i i' him).1
  · intro j hj hpos j' _
    have hjm : j < 2 * k - 1 := by
      by_contra hc; unfold sgcUniform at hpos; rw [if_neg hc] at hpos; exact lt_irrefl _ hpos
    rw [(hU j).2, (hU j').2]
    exact (sgc_half_support_nash k (by omega) j j' hjm).2

example : sgcUniform (K := Rat) 2 0 = 1 / 3 ∧ sgcUniform (K := Rat) 2 3 = 0 := by
  unfold sgcUniform; norm_num
/-- the hypothesis `SgcNash` of `sgc_unique_nash` is satisfiable (non-vacuity) -/
example : SgcNash 2 (sgcUniform (K := Rat) 2) (sgcUniform 2) := sgc_uniform_is_nash 2 (by norm_num)
example : SgcNash 1 (sgcUniform (K := Rat) 1) (sgcUniform 1) := sgc_uniform_is_nash 1 (by norm_num)

/-- every payoff of `sgc_game(k)` is one of 0, ½, ¾, 1 — in particular inside `[0, 1]` -/
theorem sgc_entries_normalised (k a b : Nat) :
    (0 ≤ (sgcEntry0 k a b : K) ∧ (sgcEntry0 k a b : K) ≤ 1) ∧
    (0 ≤ (sgcEntry1 k a b : K) ∧ (sgcEntry1 k a b : K) ≤ 1) := by
  obtain ⟨h0, h1⟩ := sgcEntry_val (K := K) k a b
  constructor
  · rcases h0 with h | h | h | h <;> rw [h] <;> constructor <;> norm_num
  · rcases h1 with h | h | h | h <;> rw [h] <;> constructor <;> norm_num

/-- … and for `k ≥ 2` the bounds 1 and 0 are attained (at `(0, m-1)` and `(m, 0)`) -/
theorem sgc_bounds_attained (k : Nat) (hk : 2 ≤ k) :
    (sgcEntry0 k 0 (2 * k - 2) : K) = 1 ∧ (sgcEntry0 k (2 * k - 1) 0 : K) = 0 := by
  constructor
  · rw [(sgcEntry_common k 0 (2 * k - 2) (by omega)).1, sgcCommon_closed k hk 0 _ (by omega)]
    simp; omega
  · rw [(sgcEntry_common k (2 * k - 1) 0 (by omega)).1, sgcCommon_closed k hk _ 0 (by omega)]
    simp

/-- `k = 1` (`n = 3`, `m = 1`): the write `A[m-1, m-2] = 1` wraps to column `n-1` (NumPy negative
    index) and `A[m-1, 0] = ½` overwrites the 1 written first; the arrays are -/
example : tabulate 3 3 (sgcEntry0 (α := Rat) 1) = [[1 / 2, 1 / 2, 1], [0, 3 / 4, 0], [0, 0, 3 / 4]] ∧
    tabulate 3 3 (sgcEntry1 (α := Rat) 1) = [[1 / 2, 1 / 2, 1], [0, 0, 3 / 4], [0, 3 / 4, 0]] := by
  decide +kernel

end sgc

/-! ## argument validation -/

/-- **`sample_without_replacement(n, k)` is accepted exactly on its domain** `0 < n`, `0 ≤ k ≤ n` — the
    domain on which `swr_distinct_in_range` applies (`k ≤ n` draws from a pool of `n`). -/
theorem swrArgs_ok_iff (n k : Int) : swrArgs n k = .ok ↔ (0 < n ∧ 0 ≤ k ∧ k ≤ n) := by
  unfold swrArgs
  split_ifs <;> simp <;> omega

example : swrArgs 5 3 = .ok ∧ swrArgs 0 0 = .valueError ∧ swrArgs 3 4 = .valueError ∧ swrArgs 3 (-1) = .valueError := by
  decide

section covargs
set_option linter.unusedSectionVars false
variable {K : Type} [Field K] [LinearOrder K] [IsStrictOrderedRing K]

/-- **`covariance_game` accepts exactly `N ≥ 2` players and `rho ∈ [-1/(N-1), 1]`** (closed at both ends). -/
theorem covArgs_ok_iff (N : Nat) (rho : K) :
    covArgs (fun m : Nat => (m : K)) N rho = .ok ↔ (2 ≤ N ∧ -1 / ((N - 1 : Nat) : K) ≤ rho ∧ rho ≤ 1) := by
  unfold covArgs
  by_cases hN : N ≤ 1
  · rw [if_pos hN]
    constructor
    · intro h; exact absurd h (by decide)
    · rintro ⟨h, _⟩; omega
  · rw [if_neg hN]
    by_cases hr : -1 / ((N - 1 : Nat) : K) ≤ rho ∧ rho ≤ 1
    · rw [if_pos hr]; exact ⟨fun _ => ⟨by omega, hr⟩, fun _ => rfl⟩
    · rw [if_neg hr]
      constructor
      · intro h; exact absurd h (by decide)
      · rintro ⟨_, h⟩; exact absurd h hr

/-- **The accepted range of `rho` is exactly the range in which the covariance matrix is valid on the
    direction of common / opposed payoffs:** for `N ≥ 2` and any payoff weights `x` with sum `s₁ = Σ xᵢ` and
    sum of squares `s₂ = Σ xᵢ²` satisfying Cauchy–Schwarz `s₁² ≤ N·s₂`, the quadratic form of the matrix with
    1 on the diagonal and `rho` elsewhere, `(1-rho)·s₂ + rho·s₁²`, is non-negative whenever the arguments are
    accepted — the matrix handed to `multivariate_normal` is positive semidefinite. -/
theorem covArgs_ok_psd (N : Nat) (rho s1 s2 : K) (h : covArgs (fun m : Nat => (m : K)) N rho = .ok)
    (hs2 : 0 ≤ s2) (hcs : s1 ^ 2 ≤ (N : K) * s2) : 0 ≤ (1 - rho) * s2 + rho * s1 ^ 2 := by
  obtain ⟨hN, hlo, hhi⟩ := (covArgs_ok_iff N rho).1 h
  have hN1 : (0 : K) < ((N - 1 : Nat) : K) := by exact_mod_cast (by omega : 0 < N - 1)
  have hcast : ((N - 1 : Nat) : K) = (N : K) - 1 := by
    rw [Nat.cast_sub (by omega)]; simp
  have hlo' : -1 ≤ rho * ((N : K) - 1) := by
    rw [div_le_iff₀ hN1, hcast] at hlo; exact hlo
  by_cases hr : 0 ≤ rho
  · have h1 : 0 ≤ (1 - rho) * s2 := mul_nonneg (by linarith) hs2
    have h2 : 0 ≤ rho * s1 ^ 2 := mul_nonneg hr (sq_nonneg s1)
    linarith
  · have hr' : rho ≤ 0 := le_of_lt (not_le.1 hr)
    -- rho * s1^2 ≥ rho * N * s2
    have h1 : rho * ((N : K) * s2) ≤ rho * s1 ^ 2 := mul_le_mul_of_nonpos_left hcs hr'
    have h2 : 0 ≤ (1 + rho * ((N : K) - 1)) * s2 := mul_nonneg (by linarith) hs2
    nlinarith

example : covArgs (fun m : Nat => (m : Rat)) 3 (-1 / 2) = .ok ∧ covArgs (fun m : Nat => (m : Rat)) 3 (-3 / 5) = .valueError ∧
    covArgs (fun m : Nat => (m : Rat)) 1 0 = .valueError ∧ covArgs (fun m : Nat => (m : Rat)) 2 1 = .ok := by
  decide +kernel

end covargs

/-- `random_game` / `random_polymatrix_game` reject exactly the empty tuple; `unit_vector_game` rejects exactly
    `avoid_pure_nash=True` with a single action (where no placement can avoid a pure equilibrium) -/
theorem gameArgs_uvArgs_ok_iff (N n : Nat) (avoid : Bool) :
    (gameArgs N = .ok ↔ 1 ≤ N) ∧ (uvArgs n avoid = .ok ↔ ¬ (avoid = true ∧ n = 1)) := by
  unfold gameArgs uvArgs
  constructor
  · split_ifs <;> simp <;> omega
  · split_ifs with h <;> simp [h]

example : gameArgs 0 = .valueError ∧ uvArgs 1 true = .valueError ∧ uvArgs 1 false = .ok ∧ uvArgs 2 true = .ok := by decide

/-! ## check_random_state -/

/-- the seed normalisation is a three-way case split: the global singleton for `None`, a fresh
    `RandomState` for an integer, the *same* object for a `RandomState` or `Generator` (so the
    caller's generator is the one that gets advanced), `ValueError` otherwise -/
theorem checkRandomState_spec (s : Seed) :
    (checkRandomState s = .same ↔ (s = .randomState ∨ s = .generator)) ∧
    (checkRandomState s = .fresh ↔ s = .int) ∧
    (checkRandomState s = .global ↔ s = .none) ∧
    (checkRandomState s = .valueError ↔ s = .other) := by
  cases s <;> simp [checkRandomState]

end QE.C18
