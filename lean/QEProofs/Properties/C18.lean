/-
  Property C18 — theorems about QEModel.C18 (stub; to be filled in).
-/
import QEModel.C18
namespace QE.C18

end QE.C18
